/-
  Lemmas about the writer model: a writer whose descriptor sits at the end of a file with an
  intact header only ever appends whole blocks, and rewriting the header changes nothing the
  loader reads.
-/
import Hv.Storage.Chron
import Hv.Storage.DiskLemmas

namespace Hv.BlockStore

/-- the oracle behaves like the real encoder: a non-empty batch gives a well-formed block that
    decodes to the batch —
    `CompressEntries` / `WriteBuffer.Flush` on a non-empty batch that fits the 16-bit count field.
    Nothing is assumed about a larger batch: its count field wraps (see `Block.cnt`). -/
def MkOk (mk : Mk) : Prop := ∀ es, es ≠ [] → es.length ≤ maxEnts → (mk es).WF ∧ (mk es).ents = es

/-- the encoder used by closed witnesses: `p` payload bytes per block, the real 16-bit count field -/
def mkP (p : Nat) : Mk := fun es =>
  { hdr := [p, 0, 0, 0, 0, 0, 0, 0, es.length % 256, es.length / 256 % 256, 0, 0, 0, 0, 0, 0], plen := p, ents := es }

theorem mkP_cnt (p : Nat) (es : List Op) : (mkP p es).cnt = es.length % 65536 := by
  simp only [Block.cnt, mkP, List.getD_eq_getElem?_getD, List.getElem?_cons_succ, List.getElem?_cons_zero, Option.getD_some]
  omega

theorem mkP_ok (p : Nat) (hp : 0 < p) : MkOk (mkP p) := by
  intro es _ hlen
  refine ⟨⟨rfl, ?_, hp, ?_⟩, rfl⟩
  · simp [le32, mkP]
  · rw [mkP_cnt]; show es.length % 65536 = es.length
    unfold maxEnts at hlen; omega

/-- beyond the count field the same encoder produces a block the reader rejects -/
theorem mkP_wraps (p : Nat) (es : List Op) (h : maxEnts < es.length) : (mkP p es).cnt ≠ (mkP p es).ents.length := by
  rw [mkP_cnt]; show es.length % 65536 ≠ es.length
  unfold maxEnts at h
  have : es.length % 65536 < 65536 := Nat.mod_lt _ (by decide)
  omega

def HdrOk (f : List Cell) (nl : Nat) : Prop := f.take 64 = fhCells nl

theorem HdrOk.length {f : List Cell} {nl : Nat} (h : HdrOk f nl) : 64 ≤ f.length := by
  have := congrArg List.length h
  simp only [List.length_take, fhCells_length] at this
  omega

theorem HdrOk.append {f : List Cell} {nl : Nat} (h : HdrOk f nl) (x : List Cell) : HdrOk (f ++ x) nl := by
  have hl := h.length
  unfold HdrOk at *
  rw [List.take_append_of_le_length hl]
  exact h

theorem HdrOk_file (nl : Nat) (x : List Cell) : HdrOk (fhCells nl ++ x) nl := by
  unfold HdrOk
  rw [List.take_append_of_le_length (by simp)]
  exact List.take_of_length_le (by simp)

theorem HdrOk.headerOf {f : List Cell} {nl : Nat} (h : HdrOk f nl) : headerOf f = some nl := by
  have : f = fhCells nl ++ f.drop 64 := by
    conv => lhs; rw [← List.take_append_drop 64 f]
    rw [h]
  rw [this]; exact headerOf_file nl _

theorem splice_end (f cs : List Cell) : splice f f.length cs = f ++ cs := by
  simp [splice, List.drop_of_length_le]

theorem splice_hdr {f : List Cell} {nl : Nat} (h : HdrOk f nl) : splice f 0 (fhCells nl) = f := by
  have hl := h.length
  simp only [splice, Nat.zero_le, if_true, List.take_zero, List.nil_append, fhCells_length, Nat.zero_add]
  unfold HdrOk at h
  rw [← h]
  exact List.take_append_drop 64 f

/-! ### Disk bookkeeping -/

theorem Disk.get_set (d : Disk) (p q : Path) (f : Option (List Cell)) :
    (d.set p f).get q = if q = p then f else d.get q := by
  cases p <;> cases q <;> simp [Disk.set, Disk.get]

theorem Disk.applyAll_append (d : Disk) (a b : List FsOp) : d.applyAll (a ++ b) = (d.applyAll a).applyAll b := by
  simp [Disk.applyAll, List.foldl_append]

theorem Disk.applyAll_nil (d : Disk) : d.applyAll [] = d := rfl
theorem Disk.applyAll_cons (d : Disk) (o : FsOp) (os : List FsOp) : d.applyAll (o :: os) = (d.apply o).applyAll os := rfl

theorem Disk.apply_write_get (d : Disk) (p q : Path) (off : Nat) (cs f : List Cell) (h : d.get p = some f) :
    (d.apply (.write p off cs)).get q = if q = p then some (splice f off cs) else d.get q := by
  simp only [Disk.apply, h, Disk.get_set]

/-- writer invariant: its file is `f`, the descriptor is at the end, the header is intact -/
structure WInv (d : Disk) (w : WSt) (f : List Cell) : Prop where
  file : d.get w.path = some f
  atEnd : w.pos = f.length
  hdr : HdrOk f w.nl

/-- what a sequence of writer steps guarantees -/
structure WPost (d : Disk) (w : WSt) (f : List Cell) (d' : Disk) (w' : WSt) (nbs : List Block) : Prop where
  wf : ∀ b ∈ nbs, b.WF
  inv : WInv d' w' (f ++ render nbs)
  other : ∀ q, q ≠ w.path → d'.get q = d.get q
  path : w'.path = w.path
  nl : w'.nl = w.nl
  bs : w'.bs = w.bs
  cnt : w'.buf.length < maxEnts

theorem header_rewrite_noop (d : Disk) (w : WSt) (f : List Cell) (h : WInv d w f) :
    d.apply (.write w.path 0 (fhCells w.nl)) = d := by
  have : (d.apply (.write w.path 0 (fhCells w.nl))) = d.set w.path (some f) := by
    simp only [Disk.apply, h.file, splice_hdr h.hdr]
  rw [this]
  have hf := h.file
  cases hp : w.path <;> simp [hp, Disk.set, Disk.get] at hf ⊢ <;> cases d <;> simp_all

theorem render_nil_append (f : List Cell) : f ++ render [] = f := by simp [render]

theorem maxEnts_pos : 0 < maxEnts := by decide

theorem WPost.refl {d : Disk} {w : WSt} {f : List Cell} (h : WInv d w f) (hc : w.buf.length < maxEnts) :
    WPost d w f d w [] :=
  ⟨by simp, by rw [render_nil_append]; exact h, fun _ _ => rfl, rfl, rfl, rfl, hc⟩

theorem flushW_nil (mk : Mk) (w : WSt) (h : w.buf = []) : flushW mk w = (w, []) := by
  unfold flushW; rw [h]

theorem flushW_cons (mk : Mk) (w : WSt) (h : w.buf ≠ []) : flushW mk w =
    ({ w with pos := w.pos + 16 + (mk w.buf).plen, buf := [], bufSize := 0, szs := [] },
      [.write w.path w.pos (hdrCells (mk w.buf)), .write w.path (w.pos + 16) (payCells (mk w.buf)),
       .write w.path 0 (fhCells w.nl)]) := by
  unfold flushW
  split
  · rename_i hb; exact absurd hb h
  · rfl

/-- the disk effect of a flush, whatever the encoder makes of the buffer: one block appended -/
theorem flushW_inv (mk : Mk) (d : Disk) (w : WSt) (f : List Cell) (h : WInv d w f) (hb : w.buf ≠ []) :
    WInv (d.applyAll (flushW mk w).2) (flushW mk w).1 (f ++ blockCells (mk w.buf)) ∧
      ∀ q, q ≠ w.path → (d.applyAll (flushW mk w).2).get q = d.get q := by
  rw [flushW_cons mk w hb]
  · simp only [Disk.applyAll_cons, Disk.applyAll_nil]
    -- first write: block header appended
    have g1 : ∀ q, (d.apply (.write w.path w.pos (hdrCells (mk w.buf)))).get q =
        if q = w.path then some (f ++ hdrCells (mk w.buf)) else d.get q := by
      intro q
      have := Disk.apply_write_get d w.path q w.pos (hdrCells (mk w.buf)) f h.file
      rw [h.atEnd, splice_end] at this
      rw [h.atEnd]; exact this
    have g2 : ∀ q, ((d.apply (.write w.path w.pos (hdrCells (mk w.buf)))).apply
          (.write w.path (w.pos + 16) (payCells (mk w.buf)))).get q =
        if q = w.path then some (f ++ blockCells (mk w.buf)) else d.get q := by
      intro q
      have hd1 : (d.apply (.write w.path w.pos (hdrCells (mk w.buf)))).get w.path = some (f ++ hdrCells (mk w.buf)) := by
        simp [g1]
      have := Disk.apply_write_get _ w.path q (w.pos + 16) (payCells (mk w.buf)) _ hd1
      have hl : w.pos + 16 = (f ++ hdrCells (mk w.buf)).length := by simp [h.atEnd]
      rw [hl] at this ⊢
      rw [splice_end] at this
      rw [this]
      by_cases hq : q = w.path
      · simp [hq, blockCells, List.append_assoc]
      · simp [hq, g1]
    have inv2 : WInv ((d.apply (.write w.path w.pos (hdrCells (mk w.buf)))).apply
          (.write w.path (w.pos + 16) (payCells (mk w.buf))))
        { w with pos := w.pos + 16 + (mk w.buf).plen, buf := [], bufSize := 0, szs := [] } (f ++ blockCells (mk w.buf)) :=
      ⟨by simp [g2], by simp [h.atEnd]; omega, h.hdr.append _⟩
    have hno := header_rewrite_noop _ _ _ inv2
    simp only at hno
    rw [hno]
    refine ⟨inv2, ?_⟩
    intro q hq
    simp [g2, hq]

theorem flushW_spec (mk : Mk) (hmk : MkOk mk) (d : Disk) (w : WSt) (f : List Cell) (h : WInv d w f)
    (hlen : w.buf.length ≤ maxEnts) :
    ∃ nbs, entsOf nbs = w.buf ∧ (flushW mk w).1.buf = [] ∧
      WPost d w f (d.applyAll (flushW mk w).2) (flushW mk w).1 nbs := by
  by_cases hb : w.buf = []
  · rw [flushW_nil mk w hb]
    exact ⟨[], by simp [entsOf, hb], hb, WPost.refl h (by rw [hb]; exact maxEnts_pos)⟩
  · obtain ⟨hwf, hents⟩ := hmk w.buf hb hlen
    rw [flushW_cons mk w hb]
    refine ⟨[mk w.buf], by simp [entsOf, hents], rfl, ?_⟩
    simp only [Disk.applyAll_cons, Disk.applyAll_nil]
    -- first write: block header appended
    have g1 : ∀ q, (d.apply (.write w.path w.pos (hdrCells (mk w.buf)))).get q =
        if q = w.path then some (f ++ hdrCells (mk w.buf)) else d.get q := by
      intro q
      have := Disk.apply_write_get d w.path q w.pos (hdrCells (mk w.buf)) f h.file
      rw [h.atEnd, splice_end] at this
      rw [h.atEnd]; exact this
    have g2 : ∀ q, ((d.apply (.write w.path w.pos (hdrCells (mk w.buf)))).apply
          (.write w.path (w.pos + 16) (payCells (mk w.buf)))).get q =
        if q = w.path then some (f ++ blockCells (mk w.buf)) else d.get q := by
      intro q
      have hd1 : (d.apply (.write w.path w.pos (hdrCells (mk w.buf)))).get w.path = some (f ++ hdrCells (mk w.buf)) := by
        simp [g1]
      have := Disk.apply_write_get _ w.path q (w.pos + 16) (payCells (mk w.buf)) _ hd1
      have hl : w.pos + 16 = (f ++ hdrCells (mk w.buf)).length := by simp [h.atEnd]
      rw [hl] at this ⊢
      rw [splice_end] at this
      rw [this]
      by_cases hq : q = w.path
      · simp [hq, blockCells, List.append_assoc]
      · simp [hq, g1]
    have inv2 : WInv ((d.apply (.write w.path w.pos (hdrCells (mk w.buf)))).apply
          (.write w.path (w.pos + 16) (payCells (mk w.buf))))
        { w with pos := w.pos + 16 + (mk w.buf).plen, buf := [], bufSize := 0, szs := [] } (f ++ blockCells (mk w.buf)) :=
      ⟨by simp [g2], by simp [h.atEnd]; omega, h.hdr.append _⟩
    have hno := header_rewrite_noop _ _ _ inv2
    simp only at hno
    rw [hno]
    have hrender : render [mk w.buf] = blockCells (mk w.buf) := by simp [render]
    refine ⟨by simpa using hwf, by rw [hrender]; exact inv2, ?_, rfl, rfl, rfl, maxEnts_pos⟩
    intro q hq
    simp [g2, hq]

theorem WPost.trans {d d1 d2 : Disk} {w w1 w2 : WSt} {f : List Cell} {a b : List Block}
    (h1 : WPost d w f d1 w1 a) (h2 : WPost d1 w1 (f ++ render a) d2 w2 b) : WPost d w f d2 w2 (a ++ b) := by
  refine ⟨?_, ?_, ?_, h2.path.trans h1.path, h2.nl.trans h1.nl, h2.bs.trans h1.bs, h2.cnt⟩
  · intro x hx
    rcases List.mem_append.mp hx with hx | hx
    · exact h1.wf x hx
    · exact h2.wf x hx
  · have := h2.inv
    rw [render_append, ← List.append_assoc]
    exact this
  · intro q hq
    rw [h2.other q (by rw [h1.path]; exact hq), h1.other q hq]

theorem addW_spec (mk : Mk) (hmk : MkOk mk) (d : Disk) (w : WSt) (f : List Cell) (h : WInv d w f)
    (hlen : w.buf.length < maxEnts) (e : Op) (sz : Nat) :
    ∃ nbs, entsOf nbs ++ (addW mk w e sz).1.buf = w.buf ++ [e] ∧
      WPost d w f (d.applyAll (addW mk w e sz).2) (addW mk w e sz).1 nbs := by
  have h1 : WInv d (w.push e sz) f := ⟨h.file, h.atEnd, h.hdr⟩
  have hl1 : (w.push e sz).buf.length ≤ maxEnts := by simp [WSt.push]; omega
  by_cases hge : (w.push e sz).full
  · have : addW mk w e sz = flushW mk (w.push e sz) := by
      unfold addW; rw [if_pos hge]
    rw [this]
    obtain ⟨nbs, he, hbuf, hp⟩ := flushW_spec mk hmk d _ f h1 hl1
    exact ⟨nbs, by rw [hbuf, he]; simp [WSt.push], ⟨hp.wf, hp.inv, hp.other, hp.path, hp.nl, hp.bs, hp.cnt⟩⟩
  · have : addW mk w e sz = (w.push e sz, []) := by
      unfold addW; rw [if_neg hge]
    rw [this]
    refine ⟨[], by simp [entsOf, WSt.push], ?_⟩
    have hc : (w.push e sz).buf.length < maxEnts := by
      simp only [WSt.full, not_or, Nat.not_le] at hge; exact hge.2
    exact ⟨by simp, by rw [render_nil_append]; exact h1, fun _ _ => rfl, rfl, rfl, rfl, hc⟩

theorem addManyW_spec (mk : Mk) (hmk : MkOk mk) (items : List (Op × Nat)) :
    ∀ (d : Disk) (w : WSt) (f : List Cell), WInv d w f → w.buf.length < maxEnts →
    ∃ nbs, entsOf nbs ++ (addManyW mk w items).1.buf = w.buf ++ items.map (·.1) ∧
      WPost d w f (d.applyAll (addManyW mk w items).2) (addManyW mk w items).1 nbs := by
  induction items with
  | nil =>
    intro d w f h hc
    exact ⟨[], by simp [entsOf, addManyW], WPost.refl h hc⟩
  | cons it rest ih =>
    intro d w f h hc
    obtain ⟨e, sz⟩ := it
    obtain ⟨a, ha, pa⟩ := addW_spec mk hmk d w f h hc e sz
    obtain ⟨b, hb, pb⟩ := ih (d.applyAll (addW mk w e sz).2) (addW mk w e sz).1 _ pa.inv pa.cnt
    refine ⟨a ++ b, ?_, ?_⟩
    · simp only [addManyW, entsOf_append, List.map_cons, List.append_assoc]
      rw [hb, ← List.append_assoc, ha]
      simp
    · simp only [addManyW, Disk.applyAll_append]
      exact pa.trans pb

theorem syncW_empty (c : Cfg) (mk : Mk) (d : Disk) (w : WSt) (f : List Cell) (h : WInv d w f) (hb : w.buf = []) :
    (d.applyAll (syncW c mk w).2).get w.path = some f := by
  have : syncW c mk w = (w, [] ++ [.write w.path 0 (fhCells w.nl)] ++ (if c.syncFsyncs then [.sync w.path] else [])) := by
    simp only [syncW, flushW_nil mk w hb]
  rw [this]
  simp only [List.nil_append, Disk.applyAll_append, Disk.applyAll_cons, Disk.applyAll_nil]
  rw [header_rewrite_noop _ _ _ h]
  cases c.syncFsyncs <;> simp [Disk.applyAll, Disk.apply] <;> exact h.file

/-- `Close`: everything buffered ends up in the file as whole blocks; nothing else changes -/
theorem closeW_spec (c : Cfg) (mk : Mk) (hmk : MkOk mk) (d : Disk) (w : WSt) (f : List Cell) (h : WInv d w f)
    (hlen : w.buf.length ≤ maxEnts) :
    ∃ nbs, entsOf nbs = w.buf ∧ (∀ b ∈ nbs, b.WF) ∧
      (d.applyAll (closeW c mk w)).get w.path = some (f ++ render nbs) ∧
      ∀ q, q ≠ w.path → (d.applyAll (closeW c mk w)).get q = d.get q := by
  obtain ⟨nbs, he, _, hp⟩ := flushW_spec mk hmk d w f h hlen
  refine ⟨nbs, he, hp.wf, ?_, ?_⟩
  all_goals
    simp only [closeW, Disk.applyAll_append, Disk.applyAll_cons, Disk.applyAll_nil]
    have hno := header_rewrite_noop _ _ _ hp.inv
    rw [hp.path, hp.nl] at hno
    rw [hno]
  · cases c.closeFsyncs <;> simp [Disk.applyAll, Disk.apply] <;> rw [← hp.path] <;> exact hp.inv.file
  · intro q hq
    cases c.closeFsyncs <;> simp [Disk.applyAll, Disk.apply] <;> exact hp.other q hq

end Hv.BlockStore
