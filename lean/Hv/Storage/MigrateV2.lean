/-
  The V2 codec assumption of the migrator model (`Hv.Migrate.V2.Lawful`) discharged for the storage model of
  C01 (`Hv/Storage/{Format,Writer,Reader}.lean`): the file the V2 writer produces from
  `NewFileWriterWithName(name) ; WriteEntry(insert k v)… ; Close()` loads back, with `LoadIndex`, to exactly the
  inserted records and the name — by `Hv.Storage.loadIndex_runOps`, `replay_eq_specOf` and `find_specOf`
  (stor1's theorems), for every lawful block codec, every checksum, the default block size, records the
  writer accepts (non-empty key shorter than 65536 bytes, payload up to 1 GiB) and a non-empty name shorter
  than 65536 bytes.
-/
import Hv.Storage.MigrateLemmas
import Hv.Storage.WriterLemmas
import Hv.Storage.SpecLemmas

set_option linter.unusedSectionVars false

namespace Hv.MigrateV2
open Hv.Storage

abbrev B := Hv.Storage.Bytes

/-- the insert the migrator issues for a deduplicated record -/
def entOf (e : Hv.Migrate.Entry B) : Entry := ⟨opInsert, e.1, e.2⟩

/-- `writeV2File`: every entry, then `Close` -/
def opsOf (es : List (Hv.Migrate.Entry B)) : List Op := es.map (fun e => Op.write (entOf e)) ++ [Op.close]

def fileOf (codec : Codec) (crc : Checksum) (nm : B) (es : List (Hv.Migrate.Entry B)) : B :=
  (runOps goodCfg codec crc 0 (createFile nm 0) (opsOf es)).file

/-- the V2 engine as the migrator sees it: written by the C01 writer model, read by the C01 `loadIndex` -/
def storV2 (codec : Codec) (crc : Checksum) : Hv.Migrate.V2 B B where
  write nm es := fileOf codec crc nm es
  append f es := (openExisting goodCfg f).map fun fs => (runOps goodCfg codec crc 0 { file := fs.1, sess := some fs.2 } (opsOf es)).file
  accepts e := accepts goodCfg (entOf e)
  acceptsName nm := !(65535 < nm.length)
  loadMap f k := match loadIndex goodCfg codec.toDecoder crc f with
    | .ok (idx, _) => idx.find k
    | .error _ => none
  nameOf f := match loadIndex goodCfg codec.toDecoder crc f with
    | .ok (_, n) => n
    | .error _ => []
  hasKey f k := match loadIndex goodCfg codec.toDecoder crc f with
    | .ok (idx, _) => (idx.find k).isSome
    | .error _ => false
  keys f := match loadIndex goodCfg codec.toDecoder crc f with
    | .ok (idx, _) => idx.map Prod.fst
    | .error _ => []

/-- records the V2 writer accepts and the format can carry -/
def okE (e : Hv.Migrate.Entry B) : Prop := EntryOK (entOf e)
/-- names the header can carry (an empty name would make `LoadIndex` fall back to a metadata entry) -/
def okN (nm : B) : Prop := nm.length < 2 ^ 16 ∧ nm ≠ []

theorem accepts_of_ok (e : Hv.Migrate.Entry B) (h : okE e) : accepts goodCfg (entOf e) = true := by
  obtain ⟨⟨h1, h2, _⟩, _⟩ := h
  simp only [accepts, goodCfg, Bool.true_and, Bool.and_eq_true, Bool.not_eq_true', decide_eq_false_iff_not]
  constructor
  · cases hk : (entOf e).key with
    | nil => simp [hk] at h1
    | cons _ _ => rfl
  · simp only [Nat.reducePow] at h2; omega

theorem accepted_opsOf (es : List (Hv.Migrate.Entry B)) (h : ∀ e ∈ es, okE e) :
    accepted goodCfg true (opsOf es) = es.map entOf := by
  induction es with
  | nil => simp [opsOf, accepted, acceptedBy]
  | cons e es ih =>
    have he := accepts_of_ok e (h e (List.mem_cons_self ..))
    have := ih (fun x hx => h x (List.mem_cons_of_mem _ hx))
    simp only [opsOf, List.map_cons, List.cons_append, accepted, acceptedBy, he, if_true, openAfter] at this ⊢
    simp [this]

theorem writesOf_opsOf (es : List (Hv.Migrate.Entry B)) : writesOf (opsOf es) = es.map entOf := by
  induction es with
  | nil => simp [opsOf, writesOf]
  | cons e es ih => simp only [opsOf, List.map_cons, List.cons_append, writesOf] at ih ⊢; rw [ih]

theorem pending_after_close (codec : Codec) (crc : Checksum) (bs : Nat) (st : St) (ops : List Op) :
    (runOps goodCfg codec crc bs st (ops ++ [Op.close])).pending = [] := by
  simp only [runOps, List.foldl_append, List.foldl_cons, List.foldl_nil]
  generalize List.foldl (fun s o => (step goodCfg codec crc bs s o).1) st ops = st'
  cases hs : st'.sess with
  | none => simp [step, hs, St.pending]
  | some s => simp [step, hs, St.pending]

theorem lastWrite_none (k : B) (l : List Entry) (h : ∀ e ∈ l, e.key ≠ k) : lastWrite k l = none := by
  induction l with
  | nil => rfl
  | cons e l ih =>
    have h1 := ih (fun x hx => h x (List.mem_cons_of_mem _ hx))
    have h2 : relevant k e = false := by
      have := h e (List.mem_cons_self ..)
      simp [relevant, this]
    simp [lastWrite, h1, h2]

theorem lastWrite_cons (k : B) (e : Entry) (l : List Entry) :
    lastWrite k (e :: l) = match lastWrite k l with
      | some x => some x
      | none => if relevant k e then some e else none := rfl

/-- with distinct keys the last deciding insert of a key is the record with that key -/
theorem value_lastWrite (k : B) (es : List (Hv.Migrate.Entry B)) (hnd : (es.map Prod.fst).Nodup) :
    valueOf (lastWrite k (es.map entOf)) = Hv.Migrate.lookup es k := by
  induction es with
  | nil => rfl
  | cons e es ih =>
    obtain ⟨a, b⟩ := e
    have hnd' := List.nodup_cons.mp hnd
    simp only [List.map_cons]
    by_cases hak : a = k
    · subst hak
      have hnone : lastWrite a (es.map entOf) = none := by
        apply lastWrite_none
        intro x hx
        obtain ⟨y, hy, rfl⟩ := List.mem_map.mp hx
        intro heq
        exact hnd'.1 (List.mem_map.mpr ⟨y, hy, heq⟩)
      have hrel : relevant a (entOf (a, b)) = true := by simp [relevant, entOf, opInsert, opDelete, opUpdate]
      have hL : valueOf (lastWrite a (entOf (a, b) :: es.map entOf)) = some b := by
        rw [lastWrite_cons, hnone]
        show valueOf (if relevant a (entOf (a, b)) = true then some (entOf (a, b)) else none) = some b
        rw [if_pos hrel]
        simp [valueOf, entOf, opInsert, opDelete]
      rw [hL, Hv.Migrate.lookup_cons, if_pos (by simp)]
    · have hrel : relevant k (entOf (a, b)) = false := by simp [relevant, entOf, hak]
      have hL : lastWrite k (entOf (a, b) :: es.map entOf) = lastWrite k (es.map entOf) := by
        rw [lastWrite_cons]
        cases hl : lastWrite k (es.map entOf) with
        | none =>
          show (if relevant k (entOf (a, b)) = true then some (entOf (a, b)) else none) = none
          rw [if_neg (by simp [hrel])]
        | some x => rfl
      rw [hL, Hv.Migrate.lookup_cons, if_neg (by simpa using hak)]
      exact ih hnd'.2

theorem find_isSome_mem (idx : Index) (k : B) (h : (idx.find k).isSome = true) : k ∈ idx.map Prod.fst := by
  induction idx with
  | nil => simp [Index.find] at h
  | cons p rest ih =>
    obtain ⟨a, b⟩ := p
    by_cases hk : k = a
    · subst hk; simp
    · have hne : (k == a) = false := by simpa using hk
      simp only [Index.find, List.lookup, hne] at h
      exact List.mem_cons_of_mem _ (ih h)

theorem mem_find_isSome (idx : Index) (k : B) (h : k ∈ idx.map Prod.fst) : (idx.find k).isSome = true := by
  induction idx with
  | nil => simp at h
  | cons p rest ih =>
    obtain ⟨a, b⟩ := p
    by_cases hk : k = a
    · subst hk; simp [Index.find, List.lookup]
    · have hne : (k == a) = false := by simpa using hk
      simp only [List.map_cons, List.mem_cons, hk, false_or] at h
      simp only [Index.find, List.lookup, hne]
      exact ih h

/-- what `LoadIndex` returns for a file written by the migrator -/
theorem loadIndex_fileOf (codec : Codec) (crc : Checksum) (nm : B) (es : List (Hv.Migrate.Entry B))
    (hn : okN nm) (he : ∀ e ∈ es, okE e) :
    loadIndex goodCfg codec.toDecoder crc (fileOf codec crc nm es) = .ok (specOf (es.map entOf), nm) := by
  have hP : Params goodCfg 0 := ⟨by decide, Or.inl rfl⟩
  have hW : WritesOK goodCfg (opsOf es) := by
    intro e hm _
    rw [writesOf_opsOf] at hm
    obtain ⟨x, hx, rfl⟩ := List.mem_map.mp hm
    exact he x hx
  obtain ⟨flushed, hfl, hload⟩ := loadIndex_runOps goodCfg codec crc 0 hP nm 0 hn.1 (opsOf es) hW
  have hp : (runOps goodCfg codec crc 0 (createFile nm 0) (opsOf es)).pending = [] := by
    simp only [opsOf]; exact pending_after_close codec crc 0 _ _
  rw [hp, List.append_nil, accepted_opsOf es he] at hfl
  subst hfl
  have hne : nm.isEmpty = false := by
    cases hnm : nm with
    | nil => exact absurd hnm hn.2
    | cons _ _ => rfl
  simp only [fileOf]
  rw [hload, replay_eq_specOf goodCfg rfl, hne]
  rfl

/-- **The assumption of C23 holds for the C01 storage model.** -/
theorem storV2_lawful (codec : Codec) (crc : Checksum) : (storV2 codec crc).Lawful okE okN := by
  refine ⟨?_, ?_, ?_, fun e he => accepts_of_ok e he, ?_, ?_, ?_⟩
  · intro nm es hn he hnd k
    simp only [storV2, loadIndex_fileOf codec crc nm es hn he]
    rw [find_specOf, value_lastWrite k es hnd]
  · intro nm es hn he
    simp only [storV2, loadIndex_fileOf codec crc nm es hn he]
  · intro nm es k hn he hnd
    simp only [storV2, loadIndex_fileOf codec crc nm es hn he]
    rw [find_specOf, value_lastWrite k es hnd]
  · intro nm hn
    have := hn.1
    simp only [storV2, Bool.not_eq_true', decide_eq_false_iff_not, Nat.reducePow] at this ⊢
    omega
  · intro f k hk
    simp only [storV2] at hk ⊢
    cases hl : loadIndex goodCfg codec.toDecoder crc f with
    | error e => simp [hl] at hk
    | ok p =>
      obtain ⟨idx, n⟩ := p
      simp only [hl] at hk ⊢
      exact find_isSome_mem idx k hk
  · intro nm es k hn he hnd hk
    simp only [storV2, loadIndex_fileOf codec crc nm es hn he] at hk
    have : ((specOf (es.map entOf)).find k).isSome = true := mem_find_isSome _ k hk
    rw [find_specOf, value_lastWrite k es hnd] at this
    exact this

/-- the record the writer refuses: a key of 65536 bytes (and the empty key) -/
theorem long_key_refused (codec : Codec) (crc : Checksum) (v : B) :
    (storV2 codec crc).accepts (List.replicate 65536 0, v) = false := by
  have h : (List.replicate 65536 (0 : UInt8)).length = 65536 := List.length_replicate ..
  simp only [storV2, accepts, goodCfg, entOf, h]
  decide

theorem empty_key_refused (codec : Codec) (crc : Checksum) (v : B) : (storV2 codec crc).accepts ([], v) = false := by
  simp [storV2, accepts, goodCfg, entOf]

end Hv.MigrateV2
