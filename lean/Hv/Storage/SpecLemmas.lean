/-
  The abstract map: `specOf es` really is "last writer wins, delete removes, nothing else".
-/
import Hv.Storage.Writer

namespace Hv.Storage

theorem find_del_self (k : Bytes) (m : Index) : (Index.del k m).find k = none := by
  induction m with
  | nil => rfl
  | cons p m ih =>
    obtain ⟨a, b⟩ := p
    by_cases h : a = k
    · subst h; simpa [Index.del, Index.find] using ih
    · have hb : (a != k) = true := by simpa using h
      have hk : (k == a) = false := by simpa using fun e => h e.symm
      simp only [Index.del, Index.find, List.filter_cons, hb, if_true, List.lookup_cons, hk] at ih ⊢
      exact ih

theorem find_del_other (k k' : Bytes) (m : Index) (h : k ≠ k') :
    (Index.del k' m).find k = m.find k := by
  induction m with
  | nil => rfl
  | cons p m ih =>
    obtain ⟨a, b⟩ := p
    by_cases ha : a = k'
    · subst ha
      have hk : (k == a) = false := by simpa using h
      simp only [Index.del, Index.find, List.filter_cons, bne_self_eq_false, Bool.false_eq_true, if_false,
        List.lookup_cons, hk] at ih ⊢
      exact ih
    · have hb : (a != k') = true := by simpa using ha
      simp only [Index.del, Index.find, List.filter_cons, hb, if_true, List.lookup_cons] at ih ⊢
      rw [ih]

theorem find_put_self (k v : Bytes) (m : Index) : (Index.put k v m).find k = some v := by
  simp [Index.put, Index.find, List.lookup_cons]

theorem find_put_other (k k' v : Bytes) (m : Index) (h : k ≠ k') :
    (Index.put k' v m).find k = m.find k := by
  have hk : (k == k') = false := by simpa using h
  have := find_del_other k k' m h
  simp only [Index.put, Index.find, List.lookup_cons, hk] at this ⊢
  exact this

/-- keys of the map are pairwise distinct -/
def Index.KeysNodup (m : Index) : Prop := (m.map Prod.fst).Nodup

theorem keysNodup_del (k : Bytes) (m : Index) (h : m.KeysNodup) : (Index.del k m).KeysNodup := by
  unfold Index.KeysNodup Index.del at *
  exact List.Nodup.sublist (List.Sublist.map _ List.filter_sublist) h

theorem not_mem_keys_del (k : Bytes) (m : Index) : k ∉ (Index.del k m).map Prod.fst := by
  intro hm
  simp only [Index.del, List.mem_map, List.mem_filter] at hm
  obtain ⟨p, ⟨_, hp⟩, hk⟩ := hm
  simp [hk] at hp

theorem keysNodup_put (k v : Bytes) (m : Index) (h : m.KeysNodup) : (Index.put k v m).KeysNodup := by
  unfold Index.KeysNodup Index.put
  simp only [List.map_cons, List.nodup_cons]
  exact ⟨not_mem_keys_del k m, keysNodup_del k m h⟩

/-- does entry `e` decide the fate of key `k`? -/
def relevant (k : Bytes) (e : Entry) : Bool :=
  e.key == k && (e.op == opDelete || e.op == opInsert || e.op == opUpdate)

/-- the last entry of the stream that decides key `k` -/
def lastWrite (k : Bytes) : List Entry → Option Entry
  | [] => none
  | e :: es =>
    match lastWrite k es with
    | some x => some x
    | none => if relevant k e then some e else none

/-- what a reader must see for a key, given the last deciding entry -/
def valueOf : Option Entry → Option Bytes
  | some e => if e.op == opDelete then none else some e.data
  | none => none

theorem find_specStep (k : Bytes) (m : Index) (e : Entry) :
    (specStep m e).find k = if relevant k e then valueOf (some e) else m.find k := by
  unfold specStep relevant valueOf
  by_cases hk : e.key = k
  · subst hk
    by_cases hd : e.op = opDelete
    · simp [hd, find_del_self]
    · by_cases hp : (e.op == opInsert || e.op == opUpdate) = true
      · have hd' : (e.op == opDelete) = false := by simpa using hd
        simp only [hd', hp, Bool.false_eq_true, if_false, if_true, find_put_self, beq_self_eq_true,
          Bool.true_and, Bool.false_or]
      · have hd' : (e.op == opDelete) = false := by simpa using hd
        simp only [Bool.not_eq_true] at hp
        have hp' := hp
        simp only [Bool.or_eq_false_iff] at hp'
        simp [hd', hp'.1, hp'.2]
  · have hk' : (e.key == k) = false := by simpa using hk
    have hne : k ≠ e.key := fun h => hk h.symm
    simp only [hk', Bool.false_and, Bool.false_eq_true, if_false]
    by_cases hd : (e.op == opDelete) = true
    · simp only [hd, if_true]; exact find_del_other k e.key m hne
    · simp only [hd, if_false]
      by_cases hp : (e.op == opInsert || e.op == opUpdate) = true
      · simp only [hp, if_true]; exact find_put_other k e.key e.data m hne
      · simp [hp]

theorem find_foldl_specStep (k : Bytes) (es : List Entry) (m : Index) :
    (es.foldl specStep m).find k =
      match lastWrite k es with
      | some e => valueOf (some e)
      | none => m.find k := by
  induction es generalizing m with
  | nil => rfl
  | cons e es ih =>
    simp only [List.foldl_cons, lastWrite]
    rw [ih (specStep m e)]
    cases hl : lastWrite k es with
    | some x => rfl
    | none =>
      simp only
      rw [find_specStep]
      by_cases hr : relevant k e = true
      · simp [hr]
      · simp [hr]

/-- **Last writer wins**: a key reads back as the payload of the last insert/update for it,
    unless a delete came later — and is absent otherwise. -/
theorem find_specOf (k : Bytes) (es : List Entry) : (specOf es).find k = valueOf (lastWrite k es) := by
  unfold specOf
  rw [find_foldl_specStep]
  cases lastWrite k es <;> rfl

theorem keysNodup_specStep (m : Index) (e : Entry) (h : m.KeysNodup) : (specStep m e).KeysNodup := by
  unfold specStep
  split
  · exact keysNodup_del _ _ h
  · split
    · exact keysNodup_put _ _ _ h
    · exact h

/-- …and **nothing else**: every key occurs at most once in the map. -/
theorem keysNodup_specOf (es : List Entry) : (specOf es).KeysNodup := by
  unfold specOf
  suffices ∀ m : Index, m.KeysNodup → (es.foldl specStep m).KeysNodup from this [] (by simp [Index.KeysNodup])
  induction es with
  | nil => intro m h; exact h
  | cons e es ih => intro m h; exact ih _ (keysNodup_specStep m e h)

/-- provenance: every record of the map is the key and payload of some insert/update of the stream -/
theorem mem_foldl_specStep (es : List Entry) (m : Index) (P : Bytes → Bytes → Prop)
    (hm : ∀ p ∈ m, P p.1 p.2) (hes : ∀ e ∈ es, P e.key e.data) :
    ∀ p ∈ es.foldl specStep m, P p.1 p.2 := by
  induction es generalizing m with
  | nil => exact hm
  | cons e es ih =>
    simp only [List.foldl_cons]
    apply ih
    · intro p hp
      unfold specStep at hp
      split at hp
      · exact hm p (List.mem_filter.mp hp).1
      · split at hp
        · simp only [Index.put, List.mem_cons] at hp
          rcases hp with rfl | hp
          · exact hes e (by simp)
          · exact hm p (List.mem_filter.mp hp).1
        · exact hm p hp
    · intro x hx; exact hes x (by simp [hx])

theorem mem_specOf (es : List Entry) (P : Bytes → Bytes → Prop) (hes : ∀ e ∈ es, P e.key e.data) :
    ∀ p ∈ specOf es, P p.1 p.2 :=
  mem_foldl_specStep es [] P (by simp) hes

/-- with the delete case in place `LoadIndex`'s replay is the Spec fold -/
theorem replay_eq_specOf (cfg : Cfg) (h : cfg.deleteRemoves = true) (es : List Entry) :
    replay cfg es = specOf es := by
  unfold replay specOf
  congr 1
  funext m e
  simp [applyEntry, specStep, h]

end Hv.Storage
