/-
  Byte strings and little-endian fixed-width integers (core-only).

  `le k n` is what `binary.LittleEndian.PutUintN(buf, uintN(n))` writes for N = 8·k:
  it depends only on `n % 256^k` — the single lemma (`unle_le`) from which every
  "16-bit length field truncates" fact of the storage format follows.
-/
namespace Hv.Storage

abbrev Bytes := List UInt8

/-- `k` little-endian bytes of `n` (silently truncating, like the Go conversions). -/
def le : Nat → Nat → Bytes
  | 0, _ => []
  | k + 1, n => UInt8.ofNat (n % 256) :: le k (n / 256)

/-- little-endian decoding of any byte string -/
def unle : Bytes → Nat
  | [] => 0
  | b :: bs => b.toNat + 256 * unle bs

@[simp] theorem le_length (k n : Nat) : (le k n).length = k := by
  induction k generalizing n with
  | zero => rfl
  | succ k ih => simp [le, ih]

theorem toNat_ofNat_mod (n : Nat) : (UInt8.ofNat (n % 256)).toNat = n % 256 := by
  simp [UInt8.toNat_ofNat']

theorem unle_le (k n : Nat) : unle (le k n) = n % 256 ^ k := by
  induction k generalizing n with
  | zero => simp [le, unle, Nat.mod_one]
  | succ k ih =>
    simp only [le, unle, ih, toNat_ofNat_mod]
    rw [Nat.pow_succ, Nat.mul_comm (256 ^ k) 256, Nat.mod_mul]

theorem unle_le_of_lt {k n : Nat} (h : n < 256 ^ k) : unle (le k n) = n := by
  rw [unle_le, Nat.mod_eq_of_lt h]

theorem unle_lt (b : Bytes) : unle b < 256 ^ b.length := by
  induction b with
  | nil => simp [unle]
  | cons x xs ih =>
    simp only [unle, List.length_cons, Nat.pow_succ]
    have hx : x.toNat < 256 := x.toNat_lt
    have : 256 ^ xs.length * 256 = 256 * 256 ^ xs.length := Nat.mul_comm _ _
    omega

/-- `le` only sees the low `8·k` bits. -/
theorem le_mod (k n : Nat) : le k (n % 256 ^ k) = le k n := by
  induction k generalizing n with
  | zero => rfl
  | succ k ih =>
    simp only [le]
    have h1 : n % 256 ^ (k + 1) % 256 = n % 256 := by
      rw [Nat.pow_succ, Nat.mul_comm]; exact Nat.mod_mul_right_mod n 256 (256 ^ k)
    have h2 : n % 256 ^ (k + 1) / 256 = (n / 256) % 256 ^ k := by
      rw [Nat.pow_succ, Nat.mul_comm, Nat.mod_mul_right_div_self]
    rw [h1, h2, ih]

/-- `take`/`drop` across an append whose first part has known length. -/
theorem take_append_len {α} (a b : List α) (n : Nat) (h : a.length = n) : (a ++ b).take n = a := by
  subst h; simp

theorem drop_append_len {α} (a b : List α) (n : Nat) (h : a.length = n) : (a ++ b).drop n = b := by
  subst h; simp

/-- `l.length < n`, looking at no more than `n` cells (keeps the executable model linear) -/
def shorterThan {α} : List α → Nat → Bool
  | _, 0 => false
  | [], _ + 1 => true
  | _ :: t, n + 1 => shorterThan t n

theorem shorterThan_eq {α} (l : List α) (n : Nat) : shorterThan l n = decide (l.length < n) := by
  induction l generalizing n with
  | nil => cases n <;> simp [shorterThan]
  | cons a t ih => cases n <;> simp [shorterThan, ih]

end Hv.Storage
