/-
  Block-granular model of a `.hyd` file on disk, of the reader that loads it, and of the
  crash model used by C02 / C03 / C25.  Core-only and executable: the compiled driver runs
  exactly these functions on the syscall log of the real writer.

  Granularity.  A file is a list of *cells* (symbolic bytes).  A cell remembers which chunk the
  byte came from: the 64-byte file header (`fh`), the swamp-name bytes (`nm`), the 16-byte header
  of a block (`bh b i`) or its compressed payload (`bp b i`).  A block is an opaque record: the 16
  header bytes as written (their first four are `CompressedSize`, little endian — the only field
  that steers the reader), the payload length and the entries the payload decodes to.
  The byte-level codec (entry/block encoding, CRC, snappy) is the business of C01/C04 and is a
  parameter here, under two assumptions that the correspondence run tests on every image:
    (A1) a payload that is exactly the payload written for the header in front of it decodes to
         that block's entries;
    (A2) anything else of the announced length fails the checksum (`ErrCorruptedBlock`).

  Mirrors: v2/reader.go  NewFileReader, ReadAllEntries, readNextBlock, LoadIndex.
-/
namespace Hv.BlockStore

/-! ### Entries and the index they replay to -/

inductive Op where
  | put (k v : Nat)
  | del (k : Nat)
  deriving DecidableEq, Repr, Inhabited

/-- `map[string][]byte` of `LoadIndex`; keys and values are tokens. Association list, newest first. -/
abbrev Index := List (Nat × Nat)

namespace Index
def get (m : Index) (k : Nat) : Option Nat := List.lookup k m
def del (m : Index) (k : Nat) : Index := m.filter (fun p => p.1 != k)
def put (m : Index) (k v : Nat) : Index := (k, v) :: del m k
def apply (m : Index) : Op → Index
  | .put k v => put m k v
  | .del k => del m k
def replay (m : Index) (es : List Op) : Index := es.foldl apply m
def keys (m : Index) : List Nat := m.map (·.1)
/-- extensional equality: what the swamp observes after a load -/
def Same (a b : Index) : Prop := ∀ k, get a k = get b k
end Index

/-! ### Blocks and cells -/

structure Block where
  hdr  : List Nat      -- the 16 block-header bytes as written
  plen : Nat           -- CompressedSize
  ents : List Op
  deriving Repr, Inhabited

def Block.decEqFields (a b : Block) : Decidable (a = b) :=
  if h : a.hdr = b.hdr ∧ a.plen = b.plen ∧ a.ents = b.ents then
    isTrue (by cases a; cases b; simp_all)
  else isFalse (by intro e; subst e; simp at h)

/-- field-wise equality; the compiled driver first tries pointer equality (core `withPtrEqDecEq`,
    logically the identity wrapper) because files hold thousands of cells of the same block -/
instance : DecidableEq Block := fun a b => withPtrEqDecEq a b (fun _ => Block.decEqFields a b)

def le32 (l : List Nat) : Nat :=
  l.getD 0 0 + 256 * l.getD 1 0 + 65536 * l.getD 2 0 + 16777216 * l.getD 3 0

/-- `BlockHeader.EntryCount` is a `uint16`: a block holds at most this many entries -/
def maxEnts : Nat := 65535

/-- the `EntryCount` field of the header as written (bytes 8–9, little endian): 16 bits, whatever
    the number of entries handed to `CompressEntries` was (`uint16(len(entries))` wraps) -/
def Block.cnt (b : Block) : Nat := b.hdr.getD 8 0 % 256 + 256 * (b.hdr.getD 9 0 % 256)

/-- what `WriteBuffer.Flush` / `CompressEntries` produce for at most `maxEnts` entries: 16 header
    bytes whose size field is the payload length and whose count field is the number of entries;
    a block is never empty (nil for an empty buffer; snappy output is never empty) -/
def Block.WF (b : Block) : Prop :=
  b.hdr.length = 16 ∧ le32 b.hdr = b.plen ∧ 0 < b.plen ∧ b.cnt = b.ents.length

instance (b : Block) : Decidable b.WF := by unfold Block.WF; exact inferInstance

inductive Cell where
  | fh (nl i : Nat)         -- byte i of a file header whose NameLength field is nl
  | nm (i : Nat)            -- byte i of the swamp name
  | bh (b : Block) (i : Nat)
  | bp (b : Block) (i : Nat)
  | zero                    -- hole created by a write/truncate beyond the end
  | junk (tag i : Nat)      -- foreign bytes (planted garbage)
  deriving DecidableEq, Repr, Inhabited

def fhCells (nl : Nat) : List Cell := (List.range 64).map (Cell.fh nl)
def nmCells (nl : Nat) : List Cell := (List.range nl).map Cell.nm
def hdrCells (b : Block) : List Cell := (List.range 16).map (Cell.bh b)
def payCells (b : Block) : List Cell := (List.range b.plen).map (Cell.bp b)
def blockCells (b : Block) : List Cell := hdrCells b ++ payCells b
def render (bs : List Block) : List Cell := bs.flatMap blockCells
/-- a cleanly written file -/
def fileCells (nl : Nat) (bs : List Block) : List Cell := fhCells nl ++ nmCells nl ++ render bs

def entsOf (bs : List Block) : List Op := bs.flatMap (·.ents)

/-! ### Reader -/

/-- Facts about reader.go / chronicler Load that decide how a damaged file is treated. -/
structure RCfg where
  /-- `n < BlockHeaderSize` after a short header read is a clean EOF -/
  shortHeaderIsEOF : Bool
  /-- `io.ErrUnexpectedEOF` from the payload `ReadFull` is mapped to EOF -/
  tornDataIsEOF : Bool
  /-- (repair, not in the tree) a file shorter than header+name is an empty swamp, not an error -/
  shortFileIsEmpty : Bool
  /-- a zero size field, and a block that does not parse, runs out in zero bytes and is followed by
      zero bytes only, are the end of the data (the zero-filled tail a power loss leaves when the
      file size reached the disk and the data did not) -/
  zeroTailIsEOF : Bool
  deriving DecidableEq, Repr

/-- how block reading stopped -/
inductive Stop where
  | eof        -- clean end
  | shortHdr   -- 0 < n < 16 header bytes at the end
  | torn       -- payload shorter than announced (`io.ErrUnexpectedEOF`)
  | crc        -- payload of the announced length that is not the one written for this header
  | zero       -- the size field is 0 (a zero-filled tail)
  | ztail      -- a block that does not parse, ends in a zero byte and has only zero bytes behind it
  | opaque     -- size field made of bytes the model does not know
  deriving DecidableEq, Repr

def cellByte : Cell → Option Nat
  | .bh b i => b.hdr[i]?
  | .zero => some 0
  | _ => none

def sizeField : List Cell → Option Nat
  | c0 :: c1 :: c2 :: c3 :: _ =>
    match cellByte c0, cellByte c1, cellByte c2, cellByte c3 with
    | some a, some b, some c, some d => some (a + 256 * b + 65536 * c + 16777216 * d)
    | _, _, _, _ => none
  | _ => none

/-- how a block that does not parse stops the reader: a zero-filled tail, or damage -/
def tailKind (cs : List Cell) (p : Nat) : Stop :=
  if (cs.take (16 + p)).getLast? = some Cell.zero ∧ (cs.drop (16 + p)).all (· == Cell.zero) then .ztail else .crc

/-- `readNextBlock` in a loop. Fuel: one unit per block (every block consumes ≥ 16 cells). -/
def readBlocks : Nat → List Cell → List Op × Stop
  | 0, _ => ([], .eof)
  | f + 1, cs =>
    if cs.length = 0 then ([], .eof)
    else if cs.length < 16 then ([], .shortHdr)
    else
      match sizeField cs with
      | none => ([], .opaque)
      | some p =>
        if p = 0 then ([], .zero)
        else if cs.length - 16 < p then ([], if cs.length = 16 then .eof else .torn)
        else
          match cs.head? with
          | some (.bh b _) =>
            if cs.take (16 + p) = blockCells b then
              -- `ParseBlock` deserialises `EntryCount` entries and rejects a payload that is not
              -- used up by them (or ends before them): `ErrCorruptedBlock`
              if b.cnt = b.ents.length then
                let r := readBlocks f (cs.drop (16 + p))
                (b.ents ++ r.1, r.2)
              else ([], .crc)
            else ([], tailKind cs p)
          | _ => ([], tailKind cs p)

inductive LoadRes where
  | ok (ents : List Op)    -- entries replayed, in file order
  | errOpen                -- NewFileReader failed (short/invalid header, short name)
  | errLoad                -- LoadIndex returned an error
  deriving DecidableEq, Repr

/-- NameLength announced by an intact header at the start of the file -/
def headerOf (cs : List Cell) : Option Nat :=
  match cs.head? with
  | some (.fh nl _) => if cs.take 64 = fhCells nl then some nl else none
  | _ => none

def stopOk (c : RCfg) : Stop → Bool
  | .eof => true
  | .shortHdr => c.shortHeaderIsEOF
  | .torn => c.tornDataIsEOF
  | .crc => false
  | .opaque => false
  | .zero => c.zeroTailIsEOF
  | .ztail => c.zeroTailIsEOF

/-- `NewFileReader` + `LoadIndex` on the content of one file -/
def loadFile (c : RCfg) (cs : List Cell) : LoadRes :=
  match headerOf cs with
  | none => if c.shortFileIsEmpty && cs.length < 64 then .ok [] else .errOpen
  | some nl =>
    let body := cs.drop 64
    if body.length < nl then (if c.shortFileIsEmpty then .ok [] else .errOpen)
    else
      let r := readBlocks (cs.length) (body.drop nl)
      if stopOk c r.2 then .ok r.1 else .errLoad

/-- number of leading cells that form header + name + whole blocks (where a repaired writer
    would truncate to on open) -/
def validBlocksLen : Nat → List Cell → Nat
  | 0, _ => 0
  | f + 1, cs =>
    if cs.length < 16 then 0
    else match sizeField cs with
      | none => 0
      | some p =>
        if cs.length - 16 < p then 0
        else match cs.head? with
          | some (.bh b _) =>
            if cs.take (16 + p) = blockCells b then 16 + p + validBlocksLen f (cs.drop (16 + p)) else 0
          | _ => 0

/-! ### Disk, file operations, crash images -/

inductive Path where
  | main | temp
  deriving DecidableEq, Repr, Inhabited

structure Disk where
  main : Option (List Cell) := none
  temp : Option (List Cell) := none
  deriving DecidableEq, Repr, Inhabited

def Disk.get (d : Disk) : Path → Option (List Cell)
  | .main => d.main
  | .temp => d.temp

def Disk.set (d : Disk) : Path → Option (List Cell) → Disk
  | .main, f => { d with main := f }
  | .temp, f => { d with temp := f }

inductive FsOp where
  | create (p : Path)                          -- open(O_CREAT|O_TRUNC)
  | write (p : Path) (off : Nat) (cs : List Cell)
  | sync (p : Path)
  | rename (a b : Path)
  | unlink (p : Path)
  | truncate (p : Path) (n : Nat)
  deriving DecidableEq, Repr, Inhabited

def FsOp.isWrite : FsOp → Bool
  | .write .. => true
  | _ => false

def FsOp.isSync : FsOp → Bool
  | .sync .. => true
  | _ => false

def splice (f : List Cell) (off : Nat) (cs : List Cell) : List Cell :=
  if off ≤ f.length then f.take off ++ cs ++ f.drop (off + cs.length)
  else f ++ List.replicate (off - f.length) Cell.zero ++ cs

def Disk.apply (d : Disk) : FsOp → Disk
  | .create p => d.set p (some [])
  | .write p off cs =>
    match d.get p with
    | some f => d.set p (some (splice f off cs))
    | none => d
  | .sync _ => d
  | .rename a b =>
    if a = b then d else
    match d.get a with
    | some f => (d.set a none).set b (some f)
    | none => d
  | .unlink p => d.set p none
  | .truncate p n =>
    match d.get p with
    | some f => d.set p (some (f.take n ++ List.replicate (n - f.length) Cell.zero))
    | none => d

def Disk.applyAll (d : Disk) (ops : List FsOp) : Disk := ops.foldl Disk.apply d

/-- the in-flight operation, cut after `k` bytes if it is a write; any other operation is
    atomic: not done for `k = 0`, done otherwise -/
def Disk.applyTorn (d : Disk) (op : FsOp) (k : Nat) : Disk :=
  match op with
  | .write p off cs => d.apply (.write p off (cs.take k))
  | op => if k = 0 then d else d.apply op

/-- Crash while `ops[i]` is in flight after `k` of its bytes (`i = ops.length`: after the last). -/
def imageAt (d0 : Disk) (ops : List FsOp) (i k : Nat) : Disk :=
  match ops[i]? with
  | some op => (d0.applyAll (ops.take i)).applyTorn op k
  | none => d0.applyAll ops

/-- index just after the last `sync` among the first `i` operations (0 if none) -/
def lastSyncIdx (ops : List FsOp) : Nat → Nat
  | 0 => 0
  | i + 1 => if ((ops[i]?).map FsOp.isSync).getD false then i + 1 else lastSyncIdx ops i

/-- Power loss: `ops[0..i)` were issued and `ops[i]` is in flight, and in addition the data of
    every write issued since `j` (not earlier than the last completed fsync) never reached the
    disk, while the metadata operations (create/rename/unlink/truncate) issued in between did.
    `ops[j]`, if a write, may be torn after `k` bytes.  `j = i` is the plain process crash. -/
def lossyImageAt (d0 : Disk) (ops : List FsOp) (i j k : Nat) : Disk :=
  if i ≤ j then imageAt d0 ops i k
  else (imageAt d0 ops j k).applyAll (((ops.take i).drop (j + 1)).filter (fun o => !o.isWrite))

/-- the crash points the properties quantify over -/
def CrashPoint (ops : List FsOp) (i j : Nat) : Prop :=
  i ≤ ops.length ∧ lastSyncIdx ops i ≤ j ∧ j ≤ i

end Hv.BlockStore
