/-
  What the block-granular model `Hv.BlockStore` (Hv/Storage/Disk.lean …, C02/C03/C25) takes for
  granted about the byte level, written as statements over the byte-level model of this directory
  and proved from its theorems — so the assumptions are at least type-checked against, and
  discharged by, the model C01/C04 verify.

  `Hv.BlockStore` treats a block as an opaque record (16 header bytes, payload length, entries)
  with `Block.WF`: header length 16, little-endian size field = payload length, count field =
  number of entries, payload not empty; and its reader assumes
    (A1) the payload written for a header decodes to that block's entries,
    (A2) any other payload of the announced length fails the checksum.
  It hard-codes the `>=` flush, has no flush at 65535 entries and accepts every key; the
  correspondence below therefore holds for `GoodBlock`s only — every entry `Encodable`, fewer than
  65536 entries, less than 2 GiB — which is what the byte-level writer produces for acknowledged
  writes once `WriteEntry` validates keys and `Add` flushes at 65535 entries (`runOps_inv`).
-/
import Hv.Storage.WriterLemmas
import Hv.Storage.CorruptLemmas

namespace Hv.Storage

structure BlockLevelAssumptions (cfg : Cfg) (codec : Codec) (crc : Checksum) : Prop where
  /-- `Block.WF`: 16 header bytes, followed by exactly `CompressedSize` payload bytes -/
  wfLength : ∀ es : List Entry, (encodeBlock codec crc es).length = 16 + (codec.enc (encodeEntries es)).length
  /-- `Block.WF`: the first four header bytes are the payload length (`le32 hdr = plen`) -/
  wfSize : ∀ (es : List Entry) (rest : Bytes), GoodBlock es →
    unle ((encodeBlock codec crc es ++ rest).take 4) = (codec.enc (encodeEntries es)).length
  /-- `Block.WF`: the count field (bytes 8–9) is the number of entries (`cnt = ents.length`) -/
  wfCount : ∀ (es : List Entry) (rest : Bytes), GoodBlock es →
    (decodeBlockHeader (encodeBlock codec crc es ++ rest)).count = es.length
  /-- (A1) the payload written for a header decodes to that block's entries, whatever follows -/
  a1 : ∀ (es : List Entry) (rest : Bytes), GoodBlock es →
    readNextBlock cfg codec.toDecoder crc (encodeBlock codec crc es ++ rest) = .ok es rest
  /-- (A2) a payload of the announced length whose checksum differs from the stored one is
      `ErrCorruptedBlock` or, when it runs out in zeros with only zeros behind (the zero-filled
      tail rule), the end of the data; entries are never returned for it — "anything else fails the checksum" holds up to the 2⁻³² CRC residual:
      what the byte level proves is the implication from an actual checksum mismatch -/
  a2 : ∀ rest : Bytes, 16 ≤ rest.length → (decodeBlockHeader rest).csize ≤ (rest.drop 16).length →
    0 < (decodeBlockHeader rest).csize →
    (crc ((rest.drop 16).take (decodeBlockHeader rest).csize)).toNat ≠ (decodeBlockHeader rest).crc →
    (readNextBlock cfg codec.toDecoder crc rest = .err .crc ∨ readNextBlock cfg codec.toDecoder crc rest = .eof)
  /-- the writer only ever appends such blocks: after any history the file is header ++ name ++
      well-formed blocks whose entries are the acknowledged writes that left the buffer -/
  writerShape : ∀ (bs : Nat) (name : Bytes) (now : Nat) (ops : List Op), Params cfg bs → name.length < 2 ^ 16 → WritesOK cfg ops →
    ∃ (hdr : FileHeader) (blocks : List (List Entry)),
      (runOps cfg codec crc bs (createFile name now) ops).file = render codec crc hdr name blocks ∧
      (∀ b ∈ blocks, GoodBlock b) ∧
      blocks.flatten ++ (runOps cfg codec crc bs (createFile name now) ops).pending = accepted cfg true ops

/-- what is NOT discharged here: `0 < plen` (a lawful abstract codec may encode to the empty string;
    snappy never does — the byte-level reader handles `CompressedSize = 0` explicitly) and the
    tokenisation of keys/values as natural numbers.  `Hv/Storage/BlockView.lean` takes both as
    explicit hypotheses (a codec with non-empty output, an injective `tok`) and proves the refinement
    `blockView` with agreement of the two loaders on writer-produced files. -/
theorem blockLevelAssumptions_hold (cfg : Cfg) (hc : cfg.validatesCrc = true) (codec : Codec) (crc : Checksum) :
    BlockLevelAssumptions cfg codec crc where
  wfLength := fun es => by simp [encodeBlock, encodeBlockHeader_length]
  wfSize := fun es rest hg => (csize_of_encodeBlock codec crc es rest hg).1
  wfCount := fun es rest hg => by
    have hu : (encodeEntries es).length < 2 ^ 31 + 2 ^ 17 := by rw [encodeEntries_length]; exact hg.size
    have hcl : (codec.enc (encodeEntries es)).length < 2 ^ 32 := enc_length_lt codec _ hu
    have e0 : encodeBlock codec crc es ++ rest
        = encodeBlockHeader ⟨(codec.enc (encodeEntries es)).length, (encodeEntries es).length, es.length,
            (crc (codec.enc (encodeEntries es))).toNat, 0⟩ ++ (codec.enc (encodeEntries es) ++ rest) := by
      simp [encodeBlock]
    rw [e0, decodeBlockHeader_encode _ _ hcl (by simp; omega) hg.count (UInt32.toNat_lt _) (by simp)]
  a1 := fun es rest hg => readNextBlock_encodeBlock cfg codec crc es rest hg
  a2 := fun rest h16 hav hpos hne => readNextBlock_crc_mismatch cfg codec.toDecoder crc rest hc h16 hav hpos hne
  writerShape := fun bs name now ops hP hn hW => by
    have hI := runOps_inv cfg codec crc bs hP name ops _ [] true (createFile_inv cfg codec crc bs name now hn) hW
    obtain ⟨⟨blocks, ⟨⟨hdr, hfile, _, _⟩, hgood⟩, hacc⟩, _, _⟩ := hI
    exact ⟨hdr, blocks, hfile, hgood, by simpa using hacc⟩

end Hv.Storage
