/-
  The cross-model lemma: the byte-level file of this directory (C01/C04/C29) refines to the
  block-granular cells of `Hv.BlockStore` (Disk.lean, C02/C03/C25), and on files the writer
  produces both loaders return the same index.

  `blockView` maps the decomposition header ++ name ++ blocks — which every writer-produced file
  has (`runOps_inv`) — to `BlockStore.fileCells`: one cell per byte (`blockView_length`), block
  headers carried over byte for byte (`blockOf_hdr`), payloads opaque, entries tokenised by an
  injective `tok : Bytes → Nat`.

    * `blockOf_WF`       — the image of a `GoodBlock` satisfies `Block.WF`;
    * `view_replay`      — `LoadIndex`'s fold commutes with the view;
    * `load_agrees`      — byte-level `loadIndex` on `render …` and block-level `loadFile` on its
                           `blockView` both succeed and give the same index (up to `tok`);
    * `writer_load_agrees` — the same for the file left by any history of the byte-level writer.

  Hypotheses that remain (all satisfiable, see the `example` at the end):
    * the codec never encodes to the empty string (`Block.WF` wants `0 < plen`; true of snappy,
      which always emits the length varint);
    * entries are data entries (ops 1..3): the block model has no metadata entries;
    * `cfg.deleteRemoves` (the block model's `del` always removes).
-/
import Hv.Storage.WriterLemmas
import Hv.Storage.DiskLemmas

namespace Hv.Storage

open Hv.BlockStore (Block Cell)

/-! ### The view -/

def IsData (e : Entry) : Prop := e.op = opInsert ∨ e.op = opUpdate ∨ e.op = opDelete

def opOf (tok : Bytes → Nat) (e : Entry) : BlockStore.Op :=
  if e.op == opDelete then .del (tok e.key) else .put (tok e.key) (tok e.data)

def blockHdr (codec : Codec) (crc : Checksum) (es : List Entry) : Bytes :=
  encodeBlockHeader ⟨(codec.enc (encodeEntries es)).length, (encodeEntries es).length, es.length,
    (crc (codec.enc (encodeEntries es))).toNat, 0⟩

def blockOf (tok : Bytes → Nat) (codec : Codec) (crc : Checksum) (es : List Entry) : Block :=
  { hdr := (blockHdr codec crc es).map UInt8.toNat
    plen := (codec.enc (encodeEntries es)).length
    ents := es.map (opOf tok) }

/-- the block-level cells of a byte-level file `render codec crc h name blocks` -/
def blockView (tok : Bytes → Nat) (codec : Codec) (crc : Checksum) (name : Bytes) (blocks : List (List Entry)) :
    List Cell :=
  BlockStore.fileCells name.length (blocks.map (blockOf tok codec crc))

def idxView (tok : Bytes → Nat) (m : Index) : BlockStore.Index := m.map (fun p => (tok p.1, tok p.2))

/-! ### Blocks -/

/-- the header bytes of the view are the first 16 bytes of the block on disk -/
theorem blockOf_hdr (tok : Bytes → Nat) (codec : Codec) (crc : Checksum) (es : List Entry) :
    (blockOf tok codec crc es).hdr = ((encodeBlock codec crc es).take 16).map UInt8.toNat := by
  have : (encodeBlock codec crc es).take 16 = blockHdr codec crc es := by
    simp only [encodeBlock, blockHdr]
    rw [List.take_append_of_le_length (by simp [encodeBlockHeader_length])]
    exact List.take_of_length_le (by simp [encodeBlockHeader_length])
  rw [this]; rfl

theorem hdr_fields (c u n k f : Nat) :
    BlockStore.le32 ((encodeBlockHeader ⟨c, u, n, k, f⟩).map UInt8.toNat) = c % 2 ^ 32 ∧
    (let l := (encodeBlockHeader ⟨c, u, n, k, f⟩).map UInt8.toNat
     l.getD 8 0 % 256 + 256 * (l.getD 9 0 % 256)) = n % 2 ^ 16 := by
  simp only [encodeBlockHeader, le, List.cons_append, List.nil_append, List.map_cons, List.map_nil,
    toNat_ofNat_mod, BlockStore.le32, List.getD_cons_zero, List.getD_cons_succ]
  omega

theorem blockOf_WF (tok : Bytes → Nat) (codec : Codec) (crc : Checksum) (es : List Entry) (hg : GoodBlock es)
    (hpos : 0 < (codec.enc (encodeEntries es)).length) : (blockOf tok codec crc es).WF := by
  have hu : (encodeEntries es).length < 2 ^ 31 + 2 ^ 17 := by rw [encodeEntries_length]; exact hg.size
  have hcl : (codec.enc (encodeEntries es)).length < 2 ^ 32 := enc_length_lt codec _ hu
  have hf := hdr_fields (codec.enc (encodeEntries es)).length (encodeEntries es).length es.length
    (crc (codec.enc (encodeEntries es))).toNat 0
  refine ⟨?_, ?_, hpos, ?_⟩
  · simp [blockOf, blockHdr, encodeBlockHeader_length]
  · simp only [blockOf, blockHdr]
    rw [hf.1]; exact Nat.mod_eq_of_lt hcl
  · simp only [Block.cnt, blockOf, blockHdr, List.length_map]
    have := hf.2
    simp only at this
    rw [this]; exact Nat.mod_eq_of_lt hg.count

/-- one cell per byte of the block -/
theorem blockCells_length (tok : Bytes → Nat) (codec : Codec) (crc : Checksum) (es : List Entry) :
    (BlockStore.blockCells (blockOf tok codec crc es)).length = (encodeBlock codec crc es).length := by
  simp [BlockStore.blockCells, BlockStore.hdrCells, BlockStore.payCells, blockOf, encodeBlock, encodeBlockHeader_length]

theorem render_view_length (tok : Bytes → Nat) (codec : Codec) (crc : Checksum) (blocks : List (List Entry)) :
    (BlockStore.render (blocks.map (blockOf tok codec crc))).length = (renderBlocks codec crc blocks).length := by
  induction blocks with
  | nil => rfl
  | cons b bs ih =>
    simp only [List.map_cons, BlockStore.render, List.flatMap_cons, List.length_append, renderBlocks] at ih ⊢
    rw [blockCells_length, ih]

/-- one cell per byte of the file -/
theorem blockView_length (tok : Bytes → Nat) (codec : Codec) (crc : Checksum) (h : FileHeader) (name : Bytes)
    (blocks : List (List Entry)) :
    (blockView tok codec crc name blocks).length = (render codec crc h name blocks).length := by
  simp only [blockView, BlockStore.fileCells, render, List.length_append, render_view_length,
    encodeFileHeader_length]
  simp [BlockStore.fhCells, BlockStore.nmCells]
  omega

/-! ### The index -/

theorem view_del (tok : Bytes → Nat) (hinj : ∀ a b, tok a = tok b → a = b) (m : Index) (k : Bytes) :
    idxView tok (m.del k) = BlockStore.Index.del (idxView tok m) (tok k) := by
  simp only [idxView, Index.del, BlockStore.Index.del, List.filter_map]
  congr 1
  apply List.filter_congr
  intro p _
  by_cases hk : p.1 = k
  · simp [hk]
  · have ht : tok p.1 ≠ tok k := fun h => hk (hinj _ _ h)
    have h1 : (p.1 != k) = true := bne_iff_ne.2 hk
    have h2 : (tok p.1 != tok k) = true := bne_iff_ne.2 ht
    simp only [Function.comp]
    rw [h1, h2]

theorem view_apply (tok : Bytes → Nat) (hinj : ∀ a b, tok a = tok b → a = b) (cfg : Cfg) (hd : cfg.deleteRemoves = true)
    (m : Index) (e : Entry) (he : IsData e) :
    idxView tok (applyEntry cfg m e) = BlockStore.Index.apply (idxView tok m) (opOf tok e) := by
  rcases he with h | h | h
  · simp only [applyEntry, opOf, h]
    simp only [show (opInsert == opDelete) = false from by decide, show (opInsert == opInsert) = true from by decide]
    simp only [Bool.false_eq_true, if_false, Bool.true_or, if_true, BlockStore.Index.apply, Index.put, BlockStore.Index.put]
    rw [← view_del tok hinj]; rfl
  · simp only [applyEntry, opOf, h]
    simp only [show (opUpdate == opDelete) = false from by decide, show (opUpdate == opUpdate) = true from by decide]
    simp only [Bool.false_eq_true, if_false, Bool.or_true, if_true, BlockStore.Index.apply, Index.put, BlockStore.Index.put]
    rw [← view_del tok hinj]; rfl
  · simp only [applyEntry, opOf, h, hd]
    simp only [show (opDelete == opDelete) = true from by decide, if_true, BlockStore.Index.apply]
    exact view_del tok hinj m e.key

/-- `LoadIndex`'s fold commutes with the view -/
theorem view_replay (tok : Bytes → Nat) (hinj : ∀ a b, tok a = tok b → a = b) (cfg : Cfg) (hd : cfg.deleteRemoves = true)
    (es : List Entry) (hes : ∀ e ∈ es, IsData e) :
    idxView tok (replay cfg es) = BlockStore.Index.replay [] (es.map (opOf tok)) := by
  suffices h : ∀ m : Index, idxView tok (es.foldl (applyEntry cfg) m)
      = BlockStore.Index.replay (idxView tok m) (es.map (opOf tok)) from h []
  induction es with
  | nil => intro m; rfl
  | cons e es ih =>
    intro m
    simp only [List.foldl_cons, List.map_cons, BlockStore.Index.replay]
    rw [ih (fun x hx => hes x (List.mem_cons_of_mem _ hx)), view_apply tok hinj cfg hd m e (hes e (List.mem_cons_self ..))]
    rfl

theorem entsOf_view (tok : Bytes → Nat) (codec : Codec) (crc : Checksum) (blocks : List (List Entry)) :
    BlockStore.entsOf (blocks.map (blockOf tok codec crc)) = blocks.flatten.map (opOf tok) := by
  induction blocks with
  | nil => rfl
  | cons b bs ih =>
    simp only [BlockStore.entsOf, List.map_cons, List.flatMap_cons, List.flatten_cons, List.map_append] at ih ⊢
    rw [ih]; rfl

/-! ### Agreement of the two loaders -/

/-- **Cross-model agreement on well-formed files.**  On header ++ name ++ good blocks the
    byte-level `loadIndex` and the block-level `loadFile` (on the `blockView` of the same file,
    whatever the block model's reader facts) both succeed, and the indexes they build are the same
    up to the tokenisation. -/
theorem load_agrees (tok : Bytes → Nat) (hinj : ∀ a b, tok a = tok b → a = b) (cfg : Cfg) (hd : cfg.deleteRemoves = true)
    (codec : Codec) (crc : Checksum) (hne : ∀ u, 0 < (codec.enc u).length)
    (h : FileHeader) (name : Bytes) (blocks : List (List Entry)) (hv : h.Valid) (hn : NameOk h name)
    (hg : ∀ b ∈ blocks, GoodBlock b) (hdat : ∀ e ∈ blocks.flatten, IsData e) (rc : BlockStore.RCfg) :
    ∃ idx nm ops,
      loadIndex cfg codec.toDecoder crc (render codec crc h name blocks) = .ok (idx, nm) ∧
      BlockStore.loadFile rc (blockView tok codec crc name blocks) = .ok ops ∧
      idxView tok idx = BlockStore.Index.replay [] ops := by
  have hwf : ∀ b ∈ blocks.map (blockOf tok codec crc), b.WF := by
    intro b hb
    obtain ⟨es, hes, rfl⟩ := List.mem_map.1 hb
    exact blockOf_WF tok codec crc es (hg es hes) (hne _)
  have h2 := BlockStore.loadFile_clean rc name.length _ hwf
  have h3 : idxView tok (replay cfg blocks.flatten)
      = BlockStore.Index.replay [] (BlockStore.entsOf (blocks.map (blockOf tok codec crc))) := by
    rw [entsOf_view]
    exact view_replay tok hinj cfg hd _ hdat
  exact ⟨_, _, _, loadIndex_render cfg codec crc h name blocks hv hn hg, h2, h3⟩

/-- **Cross-model agreement on writer-produced files.**  After any history of acknowledged data
    writes, flushes, syncs, closes and reopens of the byte-level writer the file has a block view,
    of the same length, on which the block-level loader returns the index the byte-level loader
    returns on the bytes. -/
theorem writer_load_agrees (tok : Bytes → Nat) (hinj : ∀ a b, tok a = tok b → a = b) (cfg : Cfg)
    (hd : cfg.deleteRemoves = true) (codec : Codec) (crc : Checksum) (hne : ∀ u, 0 < (codec.enc u).length)
    (bs : Nat) (name : Bytes) (now : Nat) (ops : List Op) (hP : Params cfg bs) (hnl : name.length < 2 ^ 16)
    (hW : WritesOK cfg ops) (hdat : ∀ e ∈ accepted cfg true ops, IsData e) (rc : BlockStore.RCfg) :
    ∃ (blocks : List (List Entry)) (idx : Index) (nm : Bytes) (bops : List BlockStore.Op),
      (blockView tok codec crc name blocks).length = (runOps cfg codec crc bs (createFile name now) ops).file.length ∧
      loadIndex cfg codec.toDecoder crc (runOps cfg codec crc bs (createFile name now) ops).file = .ok (idx, nm) ∧
      BlockStore.loadFile rc (blockView tok codec crc name blocks) = .ok bops ∧
      idxView tok idx = BlockStore.Index.replay [] bops := by
  have hI := runOps_inv cfg codec crc bs hP name ops _ [] true (createFile_inv cfg codec crc bs name now hnl) hW
  obtain ⟨⟨blocks, ⟨⟨hdr, hfile, hv, hn⟩, hgood⟩, hacc⟩, _, _⟩ := hI
  have hdat' : ∀ e ∈ blocks.flatten, IsData e := by
    intro e he
    apply hdat
    have : e ∈ blocks.flatten ++ (runOps cfg codec crc bs (createFile name now) ops).pending :=
      List.mem_append_left _ he
    simpa [hacc] using this
  obtain ⟨idx, nm, bops, h1, h2, h3⟩ :=
    load_agrees tok hinj cfg hd codec crc hne hdr name blocks hv hn hgood hdat' rc
  exact ⟨blocks, idx, nm, bops, by rw [hfile]; exact blockView_length tok codec crc hdr name blocks,
    by rw [hfile]; exact h1, h2, h3⟩

/-! ### Non-vacuity: the hypotheses hold together -/

/-- a lawful codec that never encodes to the empty string (one tag byte, as snappy's varint) -/
def tagCodec : Codec where
  dec := fun x => match x with | [] => none | _ :: t => some t
  declLen := fun x => x.length
  enc := fun x => 0 :: x
  law := fun _ => rfl
  grow := fun x => by simp only [List.length_cons]; omega
  declOk := fun x => by simp only [List.length_cons]; omega
  nonempty := fun _ _ => by simp

/-- an injective tokenisation: base-257 digits `byte + 1` -/
def tokOf : Bytes → Nat
  | [] => 0
  | b :: t => b.toNat + 1 + 257 * tokOf t

theorem tokOf_inj : ∀ a b : Bytes, tokOf a = tokOf b → a = b
  | [], [], _ => rfl
  | [], y :: b, h => by simp only [tokOf] at h; omega
  | x :: a, [], h => by simp only [tokOf] at h; omega
  | x :: a, y :: b, h => by
    simp only [tokOf] at h
    have hx := x.toNat_lt
    have hy := y.toNat_lt
    have h1 : x.toNat = y.toNat := by omega
    have h2 : tokOf a = tokOf b := by omega
    rw [UInt8.toNat_inj.1 h1, tokOf_inj a b h2]

def viewOps : List Op :=
  [.write ⟨1, [0x61], [1]⟩, .write ⟨3, [0x61], []⟩, .flush, .write ⟨2, [0x62], [5]⟩, .close]

example : ∃ blocks idx nm bops,
    (blockView tokOf tagCodec crc0 [0x6e] blocks).length
      = (runOps goodCfg tagCodec crc0 0 (createFile [0x6e] 7) viewOps).file.length ∧
    loadIndex goodCfg tagCodec.toDecoder crc0 (runOps goodCfg tagCodec crc0 0 (createFile [0x6e] 7) viewOps).file
      = .ok (idx, nm) ∧
    BlockStore.loadFile ⟨true, true, false, true⟩ (blockView tokOf tagCodec crc0 [0x6e] blocks) = .ok bops ∧
    idxView tokOf idx = BlockStore.Index.replay [] bops :=
  writer_load_agrees tokOf tokOf_inj goodCfg rfl tagCodec crc0 (fun u => by simp [tagCodec]) 0 [0x6e] 7 viewOps
    ⟨by decide, Or.inl rfl⟩ (by decide)
    (by
      intro e he ha
      simp [viewOps, writesOf] at he
      rcases he with h | h | h <;> subst h <;> exact ⟨by decide, by decide⟩)
    (by
      have : accepted goodCfg true viewOps = [⟨1, [0x61], [1]⟩, ⟨3, [0x61], []⟩, ⟨2, [0x62], [5]⟩] := by decide
      intro e he
      rw [this] at he
      simp at he
      rcases he with h | h | h <;> subst h
      · exact Or.inl rfl
      · exact Or.inr (Or.inr rfl)
      · exact Or.inr (Or.inl rfl))
    ⟨true, true, false, true⟩

end Hv.Storage
