/-
  Executable model of the code that *writes* `.hyd` files, as a generator of file-operation
  logs: `FileWriter` (create / open-existing / WriteEntry / flushLocked / Sync / Close),
  the chronicler's lazy writer, and the three compaction bodies.

  Mirrors (file:function):
    v2/writer.go      createNewFile, openExistingFile, WriteEntry, flushLocked, Sync, Close
    v2/block.go       WriteBuffer.Add (threshold `>=`), Flush
    v2/compactor.go   Compactor.Compact, CompactFromIndex, CleanupCompactionTemp
    chronicler_v2.go  ensureWriter, Write, Sync, Close, Load, runCompactionLocked

  Block contents are produced by an oracle `mk : List Op → Block` (the real encoder +
  snappy + CRC); theorems quantify over every `mk` with well-formed output, the driver
  instantiates it with the blocks seen in the syscall log.
-/
import Hv.Storage.Disk

namespace Hv.BlockStore

/-- Code facts the writer/compactor model depends on (each extracted from /repo). -/
structure Cfg where
  r : RCfg
  /-- `FileWriter.Sync` ends with `file.Sync()` -/
  syncFsyncs : Bool
  /-- `FileWriter.Close` calls `file.Sync()` before `file.Close()` -/
  closeFsyncs : Bool
  /-- (repair, not in the tree) opening an existing file truncates a torn tail / rewrites a torn header -/
  truncatesTornTail : Bool
  /-- `Load` removes a leftover `.compact` before reading -/
  loadCleansTemp : Bool
  /-- `runCompactionLocked` removes the temp before `Compactor.Compact` -/
  rmTempLocked : Bool
  /-- `CompactFromIndex` removes the temp before `NewFileWriterWithName` -/
  rmTempFromIndex : Bool
  /-- `Compactor.Compact` itself removes the temp before `NewFileWriterWithName` -/
  rmTempCompactor : Bool
  /-- the open restarts a file whose header reads as zeros (size on disk, data not) -/
  restartsZeroHeader : Bool := false
  /-- the open does not cut when an intact block lies behind the cut point (damage in the middle of
      the file): it reports an error and leaves the file untouched -/
  sparesMidFileDamage : Bool := false
  deriving DecidableEq, Repr

abbrev Mk := List Op → Block

/-- an open `FileWriter` -/
structure WSt where
  path : Path
  pos : Nat            -- kernel offset of the descriptor
  nl : Nat             -- NameLength of `fw.header`
  buf : List Op        -- WriteBuffer.entries
  bufSize : Nat        -- WriteBuffer.currentSize
  bs : Nat             -- maxBlockSize
  dirty : Bool := false  -- (repaired writer) a failed block could not be cut off yet
  szs : List Nat := []   -- `Entry.Size()` of the buffered entries (what `Restore` sums up again)
  deriving DecidableEq, Repr

def createOps (p : Path) (nl : Nat) : List FsOp :=
  [.create p, .write p 0 (fhCells nl)] ++ (if nl = 0 then [] else [.write p 64 (nmCells nl)])

/-- where a repaired `openExistingFile` would cut the file: after the last whole block;
    `none` when not even header + name are intact (then the file is recreated) -/
def validLen (f : List Cell) : Option Nat :=
  match headerOf f with
  | none => none
  | some nl =>
    if (f.drop 64).length < nl then none
    else some (64 + nl + validBlocksLen f.length (f.drop (64 + nl)))

/-- a whole intact block starts somewhere behind the first cell of `cs` -/
def tailHoldsBlock (cs : List Cell) : Bool :=
  (List.range cs.length).any fun i =>
    i ≥ 1 && match (cs.drop i).head? with
      | some (.bh b 0) => (cs.drop i).take (16 + b.plen) == blockCells b
      | _ => false

/-- `NewFileWriter` / `NewFileWriterWithName`: create, or open for append.  `none`: the
    constructor returned an error (unreadable header). -/
def openWriter (c : Cfg) (d : Disk) (p : Path) (nlNew bs : Nat) : Option (WSt × List FsOp) :=
  let fresh : WSt × List FsOp := ({ path := p, pos := 64 + nlNew, nl := nlNew, buf := [], bufSize := 0, bs := bs }, createOps p nlNew)
  match d.get p with
  | none => some fresh
  | some f =>
    match headerOf f with
    | none =>   -- ≥ 64 bytes with a bad header: an error, unless it is the zero header of a file that never got its data
      if c.truncatesTornTail && (f.length < 64 || (c.restartsZeroHeader && (f.take 64).all (· == Cell.zero))) then some fresh
      else none
    | some nl =>
      if c.truncatesTornTail then
        match validLen f with
        | none => some fresh
        | some keep =>
          if c.sparesMidFileDamage && tailHoldsBlock (f.drop keep) then none else
          some ({ path := p, pos := keep, nl := nl, buf := [], bufSize := 0, bs := bs },
                if keep < f.length then [.truncate p keep] else [])
      else some ({ path := p, pos := f.length, nl := nl, buf := [], bufSize := 0, bs := bs }, [])

/-- `flushLocked` (block header, payload, then the file header rewritten in place) -/
def flushW (mk : Mk) (w : WSt) : WSt × List FsOp :=
  match w.buf with
  | [] => (w, [])
  | _ =>
    let b := mk w.buf
    ({ w with pos := w.pos + 16 + b.plen, buf := [], bufSize := 0, szs := [] },
     [.write w.path w.pos (hdrCells b), .write w.path (w.pos + 16) (payCells b), .write w.path 0 (fhCells w.nl)])

/-- `WriteBuffer.Add` -/
def WSt.push (w : WSt) (e : Op) (sz : Nat) : WSt :=
  { w with buf := w.buf ++ [e], bufSize := w.bufSize + sz, szs := w.szs ++ [sz] }

/-- what `Add` / `ShouldFlush` report: `currentSize >= maxSize || len(entries) >= math.MaxUint16` -/
def WSt.full (w : WSt) : Prop := w.bufSize ≥ w.bs ∨ w.buf.length ≥ maxEnts

instance (w : WSt) : Decidable w.full := by unfold WSt.full; exact inferInstance

/-- `WriteEntry`: `Add`, then flush when the buffer reports full -/
def addW (mk : Mk) (w : WSt) (e : Op) (sz : Nat) : WSt × List FsOp :=
  if (w.push e sz).full then flushW mk (w.push e sz) else (w.push e sz, [])

def addManyW (mk : Mk) (w : WSt) : List (Op × Nat) → WSt × List FsOp
  | [] => (w, [])
  | (e, sz) :: rest =>
    let (w1, o1) := addW mk w e sz
    let (w2, o2) := addManyW mk w1 rest
    (w2, o1 ++ o2)

/-- `FileWriter.Sync` -/
def syncW (c : Cfg) (mk : Mk) (w : WSt) : WSt × List FsOp :=
  let (w1, o1) := flushW mk w
  (w1, o1 ++ [.write w.path 0 (fhCells w.nl)] ++ (if c.syncFsyncs then [.sync w.path] else []))

/-- `FileWriter.Close` -/
def closeW (c : Cfg) (mk : Mk) (w : WSt) : List FsOp :=
  let (_, o1) := flushW mk w
  o1 ++ [.write w.path 0 (fhCells w.nl)] ++ (if c.closeFsyncs then [.sync w.path] else [])

/-! ### Compaction bodies -/

/-- live index of the main file, if it loads -/
def mainIndex (c : Cfg) (d : Disk) : Option Index :=
  match d.main with
  | none => none
  | some f =>
    match loadFile c.r f with
    | .ok es => some (Index.replay [] es)
    | _ => none

def mainNl (d : Disk) : Nat :=
  match d.main with
  | some f => (headerOf f).getD 0
  | none => 0

def rmTempOps (d : Disk) : List FsOp :=
  match d.temp with
  | some _ => [.unlink .temp]
  | none => []

/-- Body shared by `Compactor.Compact` and `CompactFromIndex`: optionally remove the temp,
    open it with `NewFileWriterWithName` (which *appends* to an existing file), write the live
    entries in the given order, close, rename over the main file.
    `entries` = the live index in the (map-iteration) order the code happened to use. -/
def compactOps (c : Cfg) (mk : Mk) (d : Disk) (rmFirst : Bool) (entries : List (Op × Nat)) (bs : Nat) : List FsOp :=
  let o0 := if rmFirst then rmTempOps d else []
  let d1 := d.applyAll o0
  match openWriter c d1 .temp (mainNl d) bs with
  | none => o0
  | some (w, o1) =>
    let (w2, o2) := addManyW mk w entries
    o0 ++ o1 ++ o2 ++ closeW c mk w2 ++ [.rename .temp .main]

/-- entries a compaction writes for the index `idx` in key order `order` -/
def liveEntries (idx : Index) (order : List (Nat × Nat)) : List (Op × Nat) :=
  order.filterMap fun (k, sz) => (idx.get k).map fun v => (Op.put k v, sz)

inductive EP where
  | locked      -- write-trigger / close-trigger / force-API: runCompactionLocked → Compactor.Compact
  | fromIndex   -- Load self-heal: Load's temp cleanup, then CompactFromIndex
  | cli         -- hydraidectl compact: Compactor.Compact directly
  deriving DecidableEq, Repr

/-- is the temp removed (by the entry point's own prologue or by the compaction body) before
    `NewFileWriterWithName` opens it?  Either removal yields the same operation log: an `unlink`
    when the file exists (a second removal of a missing file is not an operation). -/
def EP.rmFirst (c : Cfg) : EP → Bool
  | .locked => c.rmTempLocked || c.rmTempCompactor
  | .fromIndex => c.loadCleansTemp || c.rmTempFromIndex
  | .cli => c.rmTempCompactor

/-- one compaction through entry point `ep`; no operation at all when the main file does not load -/
def compactVia (c : Cfg) (mk : Mk) (d : Disk) (ep : EP) (order : List (Nat × Nat)) (bs : Nat) : List FsOp :=
  match mainIndex c d with
  | none => []
  | some idx => compactOps c mk d (ep.rmFirst c) (liveEntries idx order) bs

/-! ### Chronicler -/

structure CSt where
  w : Option WSt := none
  nlName : Nat        -- length of the chronicler's swamp name (0 for NewV2WithConfig)
  bs : Nat
  deriving DecidableEq, Repr

/-- `ensureWriter` -/
def ensureW (c : Cfg) (d : Disk) (s : CSt) : Option (WSt × List FsOp) :=
  match s.w with
  | some w => some (w, [])
  | none => openWriter c d .main s.nlName s.bs

/-- `Write(batch)` (without the inline-compaction trigger, which is a separate action) -/
def cWrite (c : Cfg) (mk : Mk) (d : Disk) (s : CSt) (items : List (Op × Nat)) : CSt × List FsOp :=
  if items.isEmpty then (s, []) else   -- `if len(treasures) == 0 { return }`
  match ensureW c d s with
  | none => (s, [])
  | some (w, o0) =>
    let (w1, o1) := addManyW mk w items
    ({ s with w := some w1 }, o0 ++ o1)

def cSync (c : Cfg) (mk : Mk) (s : CSt) : CSt × List FsOp :=
  match s.w with
  | none => (s, [])
  | some w => let (w1, o) := syncW c mk w; ({ s with w := some w1 }, o)

def cClose (c : Cfg) (mk : Mk) (s : CSt) : CSt × List FsOp :=
  match s.w with
  | none => (s, [])
  | some w => ({ s with w := none }, closeW c mk w)

/-- `runCompactionLocked`: close the writer, clean the temp, `Compactor.Compact` -/
def cCompactLocked (c : Cfg) (mk : Mk) (d : Disk) (s : CSt) (order : List (Nat × Nat)) : CSt × List FsOp :=
  let (s1, o0) := cClose c mk s
  let d1 := d.applyAll o0
  (s1, o0 ++ compactVia c mk d1 .locked order s.bs)

/-- what `Load` does to the disk before reading -/
def loadOps (c : Cfg) (d : Disk) : List FsOp := if c.loadCleansTemp then rmTempOps d else []

/-- `Load`: the loaded state (an unreadable file loads as an empty swamp) -/
def recover (c : Cfg) (d : Disk) : Index :=
  (mainIndex c d).getD []

/-! ### A chronicler session as a fold over acts -/

inductive Act where
  | w (items : List (Op × Nat))   -- `Write(batch)`: entries with their `Entry.Size()`
  | sync                          -- `Sync()` (what fileWriterHandler calls after every Write)
  | close                         -- `Close()`
  deriving Repr

structure Run where
  cs : CSt
  d : Disk := {}
  ops : List FsOp := []

def Run.step (c : Cfg) (mk : Mk) (r : Run) : Act → Run
  | .w items =>
    let (cs', o) := cWrite c mk r.d r.cs items
    { cs := cs', d := r.d.applyAll o, ops := r.ops ++ o }
  | .sync =>
    let (cs', o) := cSync c mk r.cs
    { cs := cs', d := r.d.applyAll o, ops := r.ops ++ o }
  | .close =>
    let (cs', o) := cClose c mk r.cs
    { cs := cs', d := r.d.applyAll o, ops := r.ops ++ o }

/-- a fresh chronicler on an empty directory, driven through `acts` -/
def runActs (c : Cfg) (mk : Mk) (nl bs : Nat) (acts : List Act) : Run :=
  acts.foldl (Run.step c mk) { cs := { w := none, nlName := nl, bs := bs } }

/-- the entries handed to `Write`, in order -/
def written : List Act → List Op
  | [] => []
  | .w items :: r => items.map (·.1) ++ written r
  | _ :: r => written r

end Hv.BlockStore
