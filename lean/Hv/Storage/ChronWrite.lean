/-
  The chronicler layer on top of the writer (app/core/hydra/swamp/chronicler/chronicler_v2.go:
  `Write`, `ensureWriter`): the choice of INSERT / UPDATE / DELETE per treasure and what happens
  to an entry the writer refuses.
-/
import Hv.Storage.Writer
import Hv.Storage.SpecLemmas

namespace Hv.Storage

/-- what `Write` looks at in a treasure -/
structure Treasure where
  key : Bytes
  data : Bytes          -- `ConvertToByte`
  deleted : Bool        -- `GetDeletedAt() > 0`
  hasFile : Bool        -- `GetFileName() != nil`: the treasure was loaded from / already written to a file
  deriving Repr

/-- the entry `Write` builds: DELETE for a deleted treasure, else UPDATE when the treasure already
    has a file name and INSERT when it has none -/
def entryOf (t : Treasure) : Entry :=
  if t.deleted then ⟨opDelete, t.key, []⟩
  else ⟨if t.hasFile then opUpdate else opInsert, t.key, t.data⟩

/-- `ensureWriter` on an existing file (the lazily created new file is `createFileCfg`), then one
    `WriteEntry` per treasure; a refused entry is skipped (`continue`), the rest of the batch is
    still written -/
def chronWrite (cfg : Cfg) (codec : Codec) (crc : Checksum) (bs : Nat) (st : St) (batch : List Treasure) : St :=
  let st1 := if st.sess.isNone then (step cfg codec crc bs st .reopen).1 else st
  runOps cfg codec crc bs st1 (batch.map fun t => .write (entryOf t))

/-- does the caller of `Write` learn that this treasure was not stored? -/
def chronReports (cfg : Cfg) (t : Treasure) : Bool :=
  cfg.chronSurfacesError && !accepts cfg (entryOf t)

/-- does the API client learn it?  Either `Write` reports the refusal (and the layers above pass it
    on), or the gateway refused the key before a treasure existed. -/
def apiReports (cfg : Cfg) (t : Treasure) : Bool :=
  (cfg.chronSurfacesError || cfg.apiValidatesKeys) && !accepts cfg (entryOf t)

/-- does the gateway accept a swamp name? (its three-part shape is not modelled here) -/
def apiAcceptsName (cfg : Cfg) (name : Bytes) : Bool := !(cfg.apiBoundsNameLength && 65535 < name.length)

/-- `chroniclerV2.Write` is a history of the writer: every theorem about `runOps` applies to it -/
theorem chronWrite_eq_runOps (cfg : Cfg) (codec : Codec) (crc : Checksum) (bs : Nat) (st : St) (batch : List Treasure)
    (h : st.sess.isSome = true) :
    chronWrite cfg codec crc bs st batch = runOps cfg codec crc bs st (batch.map fun t => .write (entryOf t)) := by
  unfold chronWrite
  cases hs : st.sess with
  | none => rw [hs] at h; simp at h
  | some _ => simp

theorem chronWrite_closed_eq_runOps (cfg : Cfg) (codec : Codec) (crc : Checksum) (bs : Nat) (st : St) (batch : List Treasure)
    (h : st.sess = none) :
    chronWrite cfg codec crc bs st batch
      = runOps cfg codec crc bs st (Op.reopen :: batch.map fun t => .write (entryOf t)) := by
  unfold chronWrite
  simp [h, runOps]

/-- INSERT and UPDATE are replay-equivalent: turning every UPDATE of a stream into an INSERT (or
    the other way round) does not change the state a reader builds. -/
def asInsert (e : Entry) : Entry := if e.op == opUpdate then { e with op := opInsert } else e

theorem specStep_asInsert (m : Index) (e : Entry) : specStep m (asInsert e) = specStep m e := by
  unfold asInsert
  by_cases h : (e.op == opUpdate) = true
  · have h' : e.op = opUpdate := by simpa using h
    obtain ⟨op, k, d⟩ := e
    simp only at h'
    subst h'
    simp [specStep, opInsert, opUpdate, opDelete]
  · simp [h]

theorem insert_update_equivalent (es : List Entry) : specOf (es.map asInsert) = specOf es := by
  unfold specOf
  suffices ∀ m : Index, (es.map asInsert).foldl specStep m = es.foldl specStep m from this []
  induction es with
  | nil => intro m; rfl
  | cons e es ih => intro m; simp only [List.map_cons, List.foldl_cons, specStep_asInsert]; exact ih _

/-- `chroniclerV2.Load` as coded: `LoadIndex`; on an error nothing is loaded (logged); a record whose
    payload is empty cannot be decoded into a treasure and is skipped (logged); when the header's
    entry count says the file is fragmented enough (`heals`: the float comparison against the
    threshold and the size cap, an input here) the file is rewritten in place by
    `CompactFromIndex` under the chronicler's name, or the file's if it has none. -/
def chronLoad (cfg : Cfg) (codec : Codec) (crc : Checksum) (bs now : Nat) (chronName : Bytes) (heals : Bool) (st : St) :
    Index × St :=
  match loadIndex cfg codec.toDecoder crc st.file with
  | .error _ => ([], st)
  | .ok (idx, fileName) =>
    let nm := if chronName.isEmpty then fileName else chronName
    let st' := if heals && st.sess.isNone then (compactFromIndexSt cfg codec crc bs now nm idx st).1 else st
    (idx.filter (fun p => !p.2.isEmpty), st')

/-- the chronicler's choice never produces an operation a reader ignores -/
theorem entryOf_op (t : Treasure) : (entryOf t).op = opDelete ∨ (entryOf t).op = opInsert ∨ (entryOf t).op = opUpdate := by
  unfold entryOf
  cases t.deleted <;> cases t.hasFile <;> simp

end Hv.Storage
