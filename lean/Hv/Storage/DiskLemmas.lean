/-
  Lemmas about the reader and the index (used by C02, C03, C25).
-/
import Hv.Storage.Disk

namespace Hv.BlockStore

/-! ### Index -/
namespace Index

theorem get_del (m : Index) (k k' : Nat) : get (del m k) k' = if k' = k then none else get m k' := by
  induction m with
  | nil => simp [get, del]
  | cons p m ih =>
    obtain ⟨a, b⟩ := p
    simp only [get, del] at ih ⊢
    by_cases hak : a = k
    · subst hak
      simp only [List.filter_cons, bne_self_eq_false, Bool.false_eq_true, if_false]
      rw [ih]
      by_cases hk : k' = a
      · simp [hk]
      · have hb : (k' == a) = false := by simp [hk]
        simp [hk, List.lookup_cons, hb]
    · have : (a != k) = true := by simp [hak]
      simp only [List.filter_cons, this, if_true, List.lookup_cons]
      by_cases hk : k' = a
      · subst hk; simp [hak]
      · have hb : (k' == a) = false := by simp [hk]
        simp only [hb]
        exact ih

theorem get_put (m : Index) (k v k' : Nat) : get (put m k v) k' = if k' = k then some v else get m k' := by
  have h := get_del m k k'
  simp only [get, put, List.lookup_cons] at h ⊢
  by_cases hk : k' = k
  · simp [hk]
  · have hb : (k' == k) = false := by simp [hk]
    simp only [hb, hk, if_false] at h ⊢
    exact h

theorem replay_append (m : Index) (a b : List Op) : replay m (a ++ b) = replay (replay m a) b := by
  simp [replay, List.foldl_append]

theorem get_nil (k : Nat) : get [] k = none := rfl

theorem get_eq_none_of_not_mem (m : Index) (k : Nat) (h : k ∉ keys m) : get m k = none := by
  induction m with
  | nil => rfl
  | cons p m ih =>
    obtain ⟨a, b⟩ := p
    simp only [keys, List.map_cons, List.mem_cons, not_or] at h
    have hb : (k == a) = false := by simp [h.1]
    simp only [get, List.lookup_cons, hb]
    exact ih h.2

theorem mem_keys_of_get (m : Index) (k v : Nat) (h : get m k = some v) : k ∈ keys m := by
  apply Classical.byContradiction
  intro hn
  rw [get_eq_none_of_not_mem m k hn] at h
  cases h

theorem Same.refl (a : Index) : Same a a := fun _ => rfl
theorem Same.symm {a b : Index} (h : Same a b) : Same b a := fun k => (h k).symm
theorem Same.trans {a b c : Index} (h1 : Same a b) (h2 : Same b c) : Same a c := fun k => (h1 k).trans (h2 k)

/-- replaying `put k (idx k)` for the keys of `order` (keys absent from `idx` are skipped) -/
theorem get_replay_puts (idx : Index) (order : List Nat) (m : Index) (k' : Nat) :
    get (replay m (order.filterMap fun k => (get idx k).map fun v => Op.put k v)) k' =
      if k' ∈ order then (match get idx k' with | some v => some v | none => get m k') else get m k' := by
  induction order generalizing m with
  | nil => simp [replay]
  | cons k rest ih =>
    cases hk : get idx k with
    | none =>
      simp only [List.filterMap_cons, hk, Option.map_none]
      rw [ih]
      by_cases h1 : k' ∈ rest
      · simp [h1]
      · by_cases h2 : k' = k
        · subst h2; simp [h1, hk]
        · simp [h1, h2]
    | some v =>
      simp only [List.filterMap_cons, hk, Option.map_some]
      show get (replay (apply m (Op.put k v)) _) k' = _
      rw [ih]
      simp only [apply, get_put]
      by_cases h1 : k' ∈ rest
      · cases h3 : get idx k' with
        | some v' => simp [h1]
        | none =>
          by_cases h2 : k' = k
          · subst h2; rw [hk] at h3; cases h3
          · simp [h1, h2]
      · by_cases h2 : k' = k
        · subst h2; simp [h1, hk]
        · simp [h1, h2]

end Index

/-! ### Cells -/

@[simp] theorem fhCells_length (nl : Nat) : (fhCells nl).length = 64 := by simp [fhCells]
@[simp] theorem nmCells_length (nl : Nat) : (nmCells nl).length = nl := by simp [nmCells]
@[simp] theorem hdrCells_length (b : Block) : (hdrCells b).length = 16 := by simp [hdrCells]
@[simp] theorem payCells_length (b : Block) : (payCells b).length = b.plen := by simp [payCells]
@[simp] theorem blockCells_length (b : Block) : (blockCells b).length = 16 + b.plen := by simp [blockCells]

theorem hdrCells_eq (b : Block) : hdrCells b =
    [.bh b 0, .bh b 1, .bh b 2, .bh b 3, .bh b 4, .bh b 5, .bh b 6, .bh b 7,
     .bh b 8, .bh b 9, .bh b 10, .bh b 11, .bh b 12, .bh b 13, .bh b 14, .bh b 15] := by
  simp [hdrCells, List.range, List.range.loop]

theorem fhCells_head (nl : Nat) : ∃ t, fhCells nl = Cell.fh nl 0 :: t := by
  refine ⟨(List.range' 1 63).map (Cell.fh nl), ?_⟩
  simp [fhCells, List.range_eq_range', List.range'_succ]

theorem getD_of_getElem? (l : List Nat) (i : Nat) (h : i < l.length) : l[i]? = some (l.getD i 0) := by
  simp [List.getD, h]

theorem sizeField_block' (b : Block) (h16 : b.hdr.length = 16) (hle : le32 b.hdr = b.plen) (rest : List Cell) :
    sizeField (blockCells b ++ rest) = some b.plen := by
  have e0 : b.hdr[0]? = some (b.hdr[0]'(by omega)) := List.getElem?_eq_getElem (by omega)
  have e1 : b.hdr[1]? = some (b.hdr[1]'(by omega)) := List.getElem?_eq_getElem (by omega)
  have e2 : b.hdr[2]? = some (b.hdr[2]'(by omega)) := List.getElem?_eq_getElem (by omega)
  have e3 : b.hdr[3]? = some (b.hdr[3]'(by omega)) := List.getElem?_eq_getElem (by omega)
  simp only [blockCells, hdrCells_eq, List.cons_append, List.nil_append, sizeField, cellByte, e0, e1, e2, e3]
  simp only [le32, List.getD_eq_getElem?_getD, e0, e1, e2, e3, Option.getD_some] at hle
  simp [hle]

theorem sizeField_block (b : Block) (hw : b.WF) (rest : List Cell) :
    sizeField (blockCells b ++ rest) = some b.plen := sizeField_block' b hw.1 hw.2.1 rest

/-- a block whose count field does not match its entries (a wrapped `EntryCount`): the reader
    rejects it, whatever follows -/
theorem readBlocks_block_badcnt (f : Nat) (b : Block) (h16 : b.hdr.length = 16) (hle : le32 b.hdr = b.plen)
    (hpos : 0 < b.plen) (hc : b.cnt ≠ b.ents.length) (rest : List Cell) :
    readBlocks (f + 1) (blockCells b ++ rest) = ([], Stop.crc) := by
  have hlen : (blockCells b ++ rest).length = 16 + b.plen + rest.length := by simp
  have hhead : (blockCells b ++ rest).head? = some (Cell.bh b 0) := by
    simp [blockCells, hdrCells_eq]
  have htake : (blockCells b ++ rest).take (16 + b.plen) = blockCells b := by
    rw [List.take_append_of_le_length (by simp)]
    exact List.take_of_length_le (by simp)
  rw [readBlocks]
  simp only [hlen, sizeField_block' b h16 hle rest, hhead, htake]
  have h1 : ¬ (16 + b.plen + rest.length = 0) := by omega
  have h2 : ¬ (16 + b.plen + rest.length < 16) := by omega
  have h3 : ¬ (16 + b.plen + rest.length - 16 < b.plen) := by omega
  have h0 : ¬ b.plen = 0 := by omega
  simp [h0, h1, h2, h3, hc]

/-- one intact block in front: the reader returns its entries and goes on behind it -/
theorem readBlocks_block (f : Nat) (b : Block) (hw : b.WF) (rest : List Cell) :
    readBlocks (f + 1) (blockCells b ++ rest) =
      (b.ents ++ (readBlocks f rest).1, (readBlocks f rest).2) := by
  have hlen : (blockCells b ++ rest).length = 16 + b.plen + rest.length := by simp
  have hhead : (blockCells b ++ rest).head? = some (Cell.bh b 0) := by
    simp [blockCells, hdrCells_eq]
  have htake : (blockCells b ++ rest).take (16 + b.plen) = blockCells b := by
    rw [List.take_append_of_le_length (by simp)]
    exact List.take_of_length_le (by simp)
  have hdrop : (blockCells b ++ rest).drop (16 + b.plen) = rest := by
    rw [List.drop_append_of_le_length (by simp)]
    simp [List.drop_of_length_le]
  rw [readBlocks]
  simp only [hlen, sizeField_block b hw rest, hhead, htake, hdrop]
  have h1 : ¬ (16 + b.plen + rest.length = 0) := by omega
  have h2 : ¬ (16 + b.plen + rest.length < 16) := by omega
  have h3 : ¬ (16 + b.plen + rest.length - 16 < b.plen) := by omega
  have h0 : ¬ b.plen = 0 := by have := hw.2.2.1; omega
  simp [h0, h1, h2, h3, hw.2.2.2]

theorem readBlocks_nil (f : Nat) : readBlocks f [] = ([], Stop.eof) := by
  cases f <;> simp [readBlocks]

/-- a run of intact blocks in front of anything -/
theorem readBlocks_render (bs : List Block) (hw : ∀ b ∈ bs, b.WF) (f : Nat) (rest : List Cell) :
    readBlocks (bs.length + f) (render bs ++ rest) =
      (entsOf bs ++ (readBlocks f rest).1, (readBlocks f rest).2) := by
  induction bs with
  | nil => simp [render, entsOf]
  | cons b bs ih =>
    have hb := hw b (by simp)
    have ih' := ih (fun x hx => hw x (by simp [hx]))
    have e : (b :: bs).length + f = (bs.length + f) + 1 := by simp; omega
    rw [e]
    simp only [render, List.flatMap_cons, List.append_assoc] at ih' ⊢
    rw [readBlocks_block _ b hb, ih']
    simp [entsOf, List.append_assoc]

theorem render_length_ge (bs : List Block) : bs.length ≤ (render bs).length := by
  induction bs with
  | nil => simp [render]
  | cons b bs ih =>
    simp only [render, List.flatMap_cons, List.length_append, blockCells_length, List.length_cons] at ih ⊢
    omega

theorem render_append (a b : List Block) : render (a ++ b) = render a ++ render b := by
  simp [render]

theorem entsOf_append (a b : List Block) : entsOf (a ++ b) = entsOf a ++ entsOf b := by
  simp [entsOf]

theorem headerOf_file (nl : Nat) (rest : List Cell) : headerOf (fhCells nl ++ rest) = some nl := by
  obtain ⟨t, ht⟩ := fhCells_head nl
  have htake : (fhCells nl ++ rest).take 64 = fhCells nl := by
    rw [List.take_append_of_le_length (by simp)]
    exact List.take_of_length_le (by simp)
  simp only [headerOf, htake]
  simp [ht]

/-- a cleanly written file loads to exactly its entries, whatever the reader facts -/
theorem loadFile_clean (c : RCfg) (nl : Nat) (bs : List Block) (hw : ∀ b ∈ bs, b.WF) :
    loadFile c (fileCells nl bs) = .ok (entsOf bs) := by
  have hdr : (fileCells nl bs).drop 64 = nmCells nl ++ render bs := by
    simp only [fileCells, List.append_assoc]
    rw [List.drop_append_of_le_length (by simp)]
    simp [List.drop_of_length_le]
  have hdr2 : (nmCells nl ++ render bs).drop nl = render bs := by
    rw [List.drop_append_of_le_length (by simp)]
    simp [List.drop_of_length_le]
  have hlen : (fileCells nl bs).length = bs.length + ((fileCells nl bs).length - bs.length) := by
    have := render_length_ge bs
    simp only [fileCells, List.length_append, fhCells_length, nmCells_length]
    omega
  have hh : headerOf (fileCells nl bs) = some nl := by
    simp only [fileCells, List.append_assoc]; exact headerOf_file nl _
  simp only [loadFile, hh, hdr, hdr2]
  have hnl : ¬ ((nmCells nl ++ render bs).length < nl) := by simp
  simp only [hnl, if_false]
  rw [hlen]
  have := readBlocks_render bs hw ((fileCells nl bs).length - bs.length) []
  simp only [List.append_nil, readBlocks_nil] at this
  rw [this]
  simp [stopOk]

/-- **A block with a wrapped count field hides the whole file**: however many intact blocks
    precede it, `LoadIndex` returns an error. -/
theorem loadFile_badcnt (c : RCfg) (nl : Nat) (bs : List Block) (hw : ∀ b ∈ bs, b.WF) (b : Block)
    (h16 : b.hdr.length = 16) (hle : le32 b.hdr = b.plen) (hpos : 0 < b.plen) (hc : b.cnt ≠ b.ents.length) :
    loadFile c (fileCells nl bs ++ blockCells b) = .errLoad := by
  have hdr : (fileCells nl bs ++ blockCells b).drop 64 = nmCells nl ++ (render bs ++ blockCells b) := by
    simp only [fileCells, List.append_assoc]
    rw [List.drop_append_of_le_length (by simp)]
    simp [List.drop_of_length_le]
  have hdr2 : (nmCells nl ++ (render bs ++ blockCells b)).drop nl = render bs ++ blockCells b := by
    rw [List.drop_append_of_le_length (by simp)]
    simp [List.drop_of_length_le]
  have hlen : (fileCells nl bs ++ blockCells b).length =
      bs.length + (((fileCells nl bs ++ blockCells b).length - bs.length - 1) + 1) := by
    have := render_length_ge bs
    simp only [fileCells, List.length_append, fhCells_length, nmCells_length, blockCells_length]
    omega
  have hh : headerOf (fileCells nl bs ++ blockCells b) = some nl := by
    simp only [fileCells, List.append_assoc]; exact headerOf_file nl _
  simp only [loadFile, hh, hdr, hdr2]
  have hnl : ¬ ((nmCells nl ++ (render bs ++ blockCells b)).length < nl) := by simp
  simp only [hnl, if_false]
  rw [hlen, readBlocks_render bs hw _ (blockCells b)]
  have := readBlocks_block_badcnt ((fileCells nl bs ++ blockCells b).length - bs.length - 1) b h16 hle hpos hc []
  rw [List.append_nil] at this
  rw [this]
  simp [stopOk]

/-! ### A zero-filled tail (the file size reached the disk, the data did not) -/

def zeros (n : Nat) : List Cell := List.replicate n Cell.zero

theorem readBlocks_zeros (f n : Nat) :
    readBlocks (f + 1) (zeros n) = ([], if n = 0 then Stop.eof else if n < 16 then Stop.shortHdr else Stop.zero) := by
  rw [readBlocks]
  simp only [zeros, List.length_replicate]
  by_cases h0 : n = 0
  · simp [h0]
  · by_cases h1 : n < 16
    · simp [h0, h1]
    · obtain ⟨k, rfl⟩ : ∃ k, n = k + 4 := ⟨n - 4, by omega⟩
      have hs : sizeField (List.replicate (k + 4) Cell.zero) = some 0 := by
        simp [List.replicate_succ, sizeField, cellByte]
      simp [h0, h1, hs]

/-- **Repaired reader: a zero-filled tail behind whole blocks changes nothing.** -/
theorem loadFile_zero_tail (c : RCfg) (h1 : c.shortHeaderIsEOF = true) (h2 : c.zeroTailIsEOF = true) (nl : Nat)
    (bs : List Block) (hw : ∀ b ∈ bs, b.WF) (n : Nat) :
    loadFile c (fileCells nl bs ++ zeros n) = .ok (entsOf bs) := by
  have hdr : (fileCells nl bs ++ zeros n).drop 64 = nmCells nl ++ (render bs ++ zeros n) := by
    simp only [fileCells, List.append_assoc]
    rw [List.drop_append_of_le_length (by simp)]
    simp [List.drop_of_length_le]
  have hdr2 : (nmCells nl ++ (render bs ++ zeros n)).drop nl = render bs ++ zeros n := by
    rw [List.drop_append_of_le_length (by simp)]
    simp [List.drop_of_length_le]
  have hlen : (fileCells nl bs ++ zeros n).length = bs.length + (((fileCells nl bs ++ zeros n).length - bs.length - 1) + 1) := by
    have := render_length_ge bs
    simp only [fileCells, List.length_append, fhCells_length, nmCells_length, zeros, List.length_replicate]
    omega
  have hh : headerOf (fileCells nl bs ++ zeros n) = some nl := by
    simp only [fileCells, List.append_assoc]; exact headerOf_file nl _
  simp only [loadFile, hh, hdr, hdr2]
  have hnl : ¬ ((nmCells nl ++ (render bs ++ zeros n)).length < nl) := by simp
  simp only [hnl, if_false]
  rw [hlen, readBlocks_render bs hw _ (zeros n), readBlocks_zeros]
  by_cases a : n = 0
  · simp [a, stopOk]
  · by_cases b : n < 16
    · simp [a, b, stopOk, h1]
    · simp [a, b, stopOk, h2]

/-- **A reader that takes the zero header for a block: the zero-filled tail wipes the swamp.** -/
theorem loadFile_zero_tail_error (c : RCfg) (h2 : c.zeroTailIsEOF = false) (nl : Nat)
    (bs : List Block) (hw : ∀ b ∈ bs, b.WF) (n : Nat) (hn : 16 ≤ n) :
    loadFile c (fileCells nl bs ++ zeros n) = .errLoad := by
  have hdr : (fileCells nl bs ++ zeros n).drop 64 = nmCells nl ++ (render bs ++ zeros n) := by
    simp only [fileCells, List.append_assoc]
    rw [List.drop_append_of_le_length (by simp)]
    simp [List.drop_of_length_le]
  have hdr2 : (nmCells nl ++ (render bs ++ zeros n)).drop nl = render bs ++ zeros n := by
    rw [List.drop_append_of_le_length (by simp)]
    simp [List.drop_of_length_le]
  have hlen : (fileCells nl bs ++ zeros n).length = bs.length + (((fileCells nl bs ++ zeros n).length - bs.length - 1) + 1) := by
    have := render_length_ge bs
    simp only [fileCells, List.length_append, fhCells_length, nmCells_length, zeros, List.length_replicate]
    omega
  have hh : headerOf (fileCells nl bs ++ zeros n) = some nl := by
    simp only [fileCells, List.append_assoc]; exact headerOf_file nl _
  simp only [loadFile, hh, hdr, hdr2]
  have hnl : ¬ ((nmCells nl ++ (render bs ++ zeros n)).length < nl) := by simp
  simp only [hnl, if_false]
  rw [hlen, readBlocks_render bs hw _ (zeros n), readBlocks_zeros]
  have a : ¬ n = 0 := by omega
  have b : ¬ n < 16 := by omega
  simp [a, b, stopOk, h2]

end Hv.BlockStore

namespace Hv.BlockStore

/-! ### Crash images from a checkpoint (what the driver computes) -/

theorem applyAll_append' (d : Disk) (a b : List FsOp) : d.applyAll (a ++ b) = (d.applyAll a).applyAll b := by
  simp [Disk.applyAll, List.foldl_append]

theorem imageAt_checkpoint (d0 : Disk) (ops : List FsOp) (b i k : Nat) (hb : b ≤ i) :
    imageAt d0 ops i k = imageAt (d0.applyAll (ops.take b)) (ops.drop b) (i - b) k := by
  have hget : (ops.drop b)[i - b]? = ops[i]? := by
    rw [List.getElem?_drop]; congr 1; omega
  have htake : ops.take i = ops.take b ++ (ops.drop b).take (i - b) := by
    have : i = b + (i - b) := by omega
    conv => lhs; rw [this]
    exact List.take_add
  have hall : ops = ops.take b ++ ops.drop b := (List.take_append_drop b ops).symm
  simp only [imageAt, hget]
  cases ops[i]? with
  | some op => simp only; rw [htake, applyAll_append']
  | none => simp only; conv => lhs; rw [hall]
            rw [applyAll_append']

/-- The image at a crash point past a checkpoint `b` equals the image of the remaining
    operations on the checkpointed disk: the driver memoises `d0.applyAll (ops.take b)`. -/
theorem lossyImageAt_checkpoint (d0 : Disk) (ops : List FsOp) (b i j k : Nat) (hbi : b ≤ i) (hbj : b ≤ j) :
    lossyImageAt d0 ops i j k =
      lossyImageAt (d0.applyAll (ops.take b)) (ops.drop b) (i - b) (j - b) k := by
  unfold lossyImageAt
  by_cases hij : i ≤ j
  · have : i - b ≤ j - b := by omega
    simp only [hij, this, if_true]
    exact imageAt_checkpoint d0 ops b i k hbi
  · have : ¬ (i - b ≤ j - b) := by omega
    simp only [hij, this, if_false]
    rw [imageAt_checkpoint d0 ops b j k hbj]
    congr 2
    have e1 : ((ops.drop b).take (i - b)) = (ops.take i).drop b := by
      rw [List.drop_take]
    rw [e1, List.drop_drop]
    congr 1; omega

end Hv.BlockStore
