import Hv.Props.C07
import Hv.Generated.FactsC07

namespace Hv.C07

theorem verdict : (classify Generated.factsC07).Sound (Holds (cfgOf Generated.factsC07)) (Partial (cfgOf Generated.factsC07)) :=
  classify_sound _

#eval IO.println (verdictLine "C07" (classify Generated.factsC07))
#print axioms verdict
#print axioms Hv.Beacon.bsLoop_spec
#print axioms bounds_correct
#print axioms bounds_in_range
#print axioms page_correct
#print axioms beacon_sorted_inv
#print axioms slot_correct
#print axioms holds_of_good
#print axioms holds_partial
#print axioms holds_repaired
#print axioms refutes_of_witness
#print axioms refutes_current
#print axioms findings_current
#print axioms findings_beforeFix
#print axioms witness_first_readers_race
#print axioms holdsRace_of
#print axioms refutes_of_race
#print axioms holds_current_nonvalue
#print axioms witness_updated_stale
#print axioms witness_created_stale
#print axioms witness_value_update_stale
#print axioms witness_value_insert_wrong_comparator
#print axioms witness_value_mixed_types
#print axioms shift_correct
#print axioms witness_window_bound_wraps
#print axioms Hv.Beacon.effWindow_spec
#print axioms Hv.Beacon.rangeInv_run
#print axioms correct_of_listOk
#print axioms value_single_type
#print axioms holds_current_single_type
#print axioms shift_partial
#print axioms witness_expire_cleared_refiled
#print axioms witness_patch_expired_partial_reindex
#print axioms Hv.Beacon.slotInv_stepPatchExpired

end Hv.C07
