import Hv.Props.C18
import Hv.Generated.FactsC18

namespace Hv.C18

/-- The kernel-checked decision for the facts extracted from /repo on this run. -/
theorem verdict : (classify Generated.factsC18).Sound (HoldsAll (cfgOf Generated.factsC18) (exitOf Generated.factsC18)) :=
  classify_sound _

#eval IO.println (verdictLine "C18" (classify Generated.factsC18))
#print axioms verdict
#print axioms summon_mutex
#print axioms holds_all
#print axioms refutes_noRecheck
#print axioms reach_inv
#print axioms refutes_waiterCount
#print axioms witness_two_live
#print axioms refutes_staleCallback
#print axioms witness_stale_two_live

end Hv.C18
