import Hv.Props.C20
import Hv.Generated.FactsC20

namespace Hv.C20

/-- The kernel-checked decision for the facts extracted from /repo on this run. -/
theorem verdict :
    (classify Generated.factsC20).Sound (Holds (cfgOf Generated.factsC20))
      ((cfgOf Generated.factsC20).goodIsland = true → HoldsPartial (cfgOf Generated.factsC20)) :=
  classify_sound _

#eval IO.println (verdictLine "C20" (classify Generated.factsC20))
#print axioms verdict
#print axioms island_range
#print axioms island_range_server
#print axioms island_sdk_eq_server
#print axioms island_cache_idem
#print axioms path_no_panic_iff
#print axioms path_no_panic_default
#print axioms path_no_panic_clamped
#print axioms location_inj
#print axioms distinct_names_distinct_paths
#print axioms holds_repaired
#print axioms holds_partial
#print axioms deep_layout_panics
#print axioms short_hash_witness
#print axioms refutes_unclamped
#print axioms refutes_separator
#print axioms refutes_no_plus_one
#print axioms second_call_sound
#print axioms stale_cache_witness
#print axioms refutes_stale_cache
#print axioms island_zero_panics
#print axioms second_location_sound
#print axioms stale_path_witness
#print axioms refutes_stale_path
#print axioms nfc_nfd_are_different_names
#print axioms route_partition
#print axioms unrouted_is_error
#print axioms unrouted_nil_witness
#print axioms refutes_unrouted_nil
#print axioms every_name_routed
#print axioms routing_gap_witness
#print axioms routing_overlap_witness
#print axioms refutes_unvalidated
#print axioms Hv.Stack.sdk_requests_one_folder
#print axioms Hv.Stack.checked_requests_one_folder
#print axioms Hv.Stack.unchecked_two_swamps
#print axioms refutes_island_unchecked
#print axioms same_name_two_islands
#print axioms Hv.Name.canon_collision
#print axioms Hv.Name.load_canon
#print axioms Hv.Name.hexDigits_inj

end Hv.C20
