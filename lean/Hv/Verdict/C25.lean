import Hv.Props.C25
import Hv.Generated.FactsC25

namespace Hv.C25

theorem verdict : (classify Generated.factsC25).Sound (Holds (cfgOf Generated.factsC25) (fcOf Generated.factsC25))
    (Partial (cfgOf Generated.factsC25) (fcOf Generated.factsC25)) := classify_sound _

#eval IO.println (verdictLine "C25" (classify Generated.factsC25))
#print axioms verdict
#print axioms failed_write_drops_entries
#print axioms repaired_flush
#print axioms holds_of_repaired
#print axioms holds_repaired
#print axioms flushWF_ok_spec
#print axioms addManyWF_ok_spec
#print axioms syncWF_ok_spec
#print axioms finish_clean
#print axioms Hv.BlockStore.flushWF_nofault
#print axioms Hv.BlockStore.addManyWF_nofault
#print axioms Hv.BlockStore.syncWF_nofault_disk

end Hv.C25
