import Hv.Props.C25
import Hv.Generated.FactsC25

namespace Hv.C25

theorem verdict : (classify Generated.factsC25).Sound (Holds (cfgOf Generated.factsC25) (fcOf Generated.factsC25))
    (Partial (cfgOf Generated.factsC25) (fcOf Generated.factsC25)) := classify_sound _

#eval IO.println (verdictLine "C25" (classify Generated.factsC25))
#print axioms verdict
#print axioms failed_write_drops_entries
#print axioms oversized_block_unreadable
#print axioms writeBlockF_spec
#print axioms flushBlocks_spec
#print axioms flushWF_spec
#print axioms flush_chunks_bounded
#print axioms addManyWF_spec
#print axioms syncWF_ok_spec
#print axioms holds_of_repaired
#print axioms flush_holds_of_repaired
#print axioms closeWF_spec
#print axioms delete_sticks_of_repaired
#print axioms close_retry_of_repaired
#print axioms deleted_record_resurrects
#print axioms failed_close_kills_writer
#print axioms finish_clean
#print axioms Hv.BlockStore.flushWF_nofault
#print axioms Hv.BlockStore.addManyWF_nofault
#print axioms Hv.BlockStore.syncWF_nofault_disk
#print axioms Hv.BlockStore.loadFile_badcnt
#print axioms Hv.BlockStore.addManyWF_eq_fast

end Hv.C25
