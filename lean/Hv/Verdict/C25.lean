import Hv.Props.C25
import Hv.Generated.FactsC25

namespace Hv.C25

theorem verdict : (classify Generated.factsC25).Sound (Holds (cfgOf Generated.factsC25) (fcOf Generated.factsC25))
    (Partial (cfgOf Generated.factsC25) (fcOf Generated.factsC25)) := classify_sound _

#eval IO.println (verdictLine "C25" (classify Generated.factsC25))
#print axioms verdict
#print axioms failed_write_drops_entries
#print axioms repaired_flush_partial
#print axioms repaired_writer_safe_partial
#print axioms finish_clean
#print axioms Hv.BlockStore.flushWF_nofault
#print axioms Hv.BlockStore.addManyWF_nofault
#print axioms Hv.BlockStore.syncWF_nofault_disk

end Hv.C25
