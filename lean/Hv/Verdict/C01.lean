import Hv.Props.C01
import Hv.Storage.BlockAssumptions
import Hv.Storage.BlockView
import Hv.Generated.FactsC01

namespace Hv.C01

theorem verdict : (classify Generated.factsC01).Sound (Holds (cfgOf Generated.factsC01)) (Partial Generated.factsC01) :=
  classify_sound _

#eval IO.println (verdictLine "C01" (classify Generated.factsC01))
#print axioms verdict
#print axioms Hv.Storage.decodeEntry_encodeEntry
#print axioms Hv.Storage.parseEntries_encodeEntries
#print axioms Hv.Storage.readNextBlock_encodeBlock
#print axioms Hv.Storage.decodeFileHeader_encode
#print axioms Hv.Storage.readAll_render
#print axioms Hv.Storage.loadIndex_render
#print axioms Hv.Storage.walkEnd_renderBlocks
#print axioms Hv.Storage.openExisting_ok
#print axioms Hv.Storage.runOps_inv
#print axioms Hv.Storage.loadIndex_runOps
#print axioms Hv.Storage.find_specOf
#print axioms Hv.Storage.keysNodup_specOf
#print axioms replays_partial
#print axioms holds_of_good
#print axioms emptyKey_misreads
#print axioms longKey_misreads
#print axioms badEntry_poisons_file
#print axioms not_holds_of_acceptsEmptyKey
#print axioms not_holds_of_acceptsLongKey
#print axioms not_holds_of_noDelete
#print axioms Hv.Storage.overflow_load_gen
#print axioms not_holds_of_noCountFlush
#print axioms Hv.Storage.zeroCounts_inv
#print axioms stale_header_harmless
#print axioms Hv.Storage.insert_update_equivalent
#print axioms Hv.Storage.chronWrite_eq_runOps
#print axioms not_holds_of_silentDrop
#print axioms not_holds_of_apiAcceptsLongName
#print axioms inserts_roundtrip
#print axioms rewrite_preserves_index
#print axioms compaction_preserves_index
#print axioms load_replays
#print axioms Hv.Storage.blockLevelAssumptions_hold
#print axioms Hv.Storage.load_agrees
#print axioms Hv.Storage.writer_load_agrees
#print axioms classify_sound

end Hv.C01
