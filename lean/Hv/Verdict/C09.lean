import Hv.Props.C09
import Hv.Generated.FactsC09

namespace Hv.C09

/-- The kernel-checked decision for the facts extracted from /repo on this run. -/
theorem verdict : (classify Generated.factsC09).Sound (Holds (cfgOf Generated.factsC09))
    (HoldsPartial (cfgOf Generated.factsC09)) :=
  classify_sound _

#eval IO.println (verdictLine "C09" (classify Generated.factsC09))
#print axioms verdict
#print axioms linearizable_of_exclusive
#print axioms critical_sections_exclusive
#print axioms no_lost_update
#print axioms exclusive_with_double_release
#print axioms lost_update_with_reset
#print axioms lost_update_read_first
#print axioms lost_update_write_late
#print axioms stale_object_not_linearizable
#print axioms refutes_stale
#print axioms refutes_of_findings
#print axioms holds_partial
#print axioms linearizable_repaired
#print axioms holds_repaired

end Hv.C09
