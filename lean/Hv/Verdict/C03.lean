import Hv.Props.C03
import Hv.Generated.FactsC03

namespace Hv.C03

theorem verdict : (classify Generated.factsC03).Sound (Holds (cfgOf Generated.factsC03)) (Partial (cfgOf Generated.factsC03)) :=
  classify_sound _

#eval IO.println (verdictLine "C03" (classify Generated.factsC03))
#print axioms verdict
#print axioms compact_preserves
#print axioms compact_preserves_torn
#print axioms compaction_anywhere
#print axioms compaction_mid_session
#print axioms mStep_inv
#print axioms compact_stale_temp_resurrects
#print axioms not_preserves_of_stale
#print axioms compact_crash_atomic
#print axioms compact_no_fsync_loses
#print axioms C03_partial
#print axioms holds_of_good
#print axioms Hv.BlockStore.loadFile_clean
#print axioms Hv.BlockStore.addManyW_spec
#print axioms Hv.BlockStore.atomic_of_shape

end Hv.C03
