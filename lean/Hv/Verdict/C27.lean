import Hv.Props.C27
import Hv.Generated.FactsC27

namespace Hv.C27

/-- The kernel-checked decision for the facts extracted from /repo on this run. -/
theorem verdict :
    (classify Generated.factsC27).Sound (Holds (cfgOf Generated.factsC27))
      ((cfgOf Generated.factsC27).saveRemovesStale = true → (cfgOf Generated.factsC27).destroyCleansIndex = true →
        HoldsPartial (cfgOf Generated.factsC27)) :=
  classify_sound _

#eval IO.println (verdictLine "C27" (classify Generated.factsC27))
#print axioms verdict
#print axioms index_consistent
#print axioms core_last_saved
#print axioms core_last_saved_partial
#print axioms core_after_destroy
#print axioms core_frame
#print axioms holds_updating
#print axioms holds_partial
#print axioms value_update_skipped
#print axioms refutes_no_update
#print axioms refutes_stale_kept
#print axioms refutes_destroy_leaves_index

end Hv.C27
