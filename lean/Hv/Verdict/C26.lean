import Hv.Props.C26
import Hv.Generated.FactsC26

namespace Hv.C26
open Hv.Request

theorem verdict : (classify Generated.factsC26).Sound (Holds (cfgOf Generated.factsC26))
    (checkCfg (cfgOf Generated.factsC26) A0 = true → HoldsUnder A0 (cfgOf Generated.factsC26)) :=
  classify_sound _

#eval IO.println (verdictLine "C26" (classify Generated.factsC26))
#eval IO.println ("C26-PARTIAL-CHECK " ++ toString (checkCfg (cfgOf Generated.factsC26) A0))
#print axioms verdict
#print axioms outcome_defined
#print axioms counters_balanced
#print axioms reject_pure
#print axioms holds_of_check
#print axioms not_holds_of_firstBad
#print axioms count_shortname_witness
#print axioms get_emptykeys_witness
#print axioms get_nilkeys_rejected
#print axioms patchMany_partial_witness
#print axioms destroyBulk_crash_witness
#print axioms refutes_legacy
#print axioms legacy_partial
#print axioms plainUnlock_leaks
#print axioms plainCease_leaks
#print axioms recoverFirst_balanced
#print axioms holds_fixed
#print axioms reader_creates_swamp_witness
#print axioms negative_from_witness
#print axioms unstorable_key_witness

end Hv.C26
