import Hv.Props.C10
import Hv.Generated.FactsC10

namespace Hv.C10

attribute [local irreducible] classify Hv.Lockset.racyPairs in
set_option maxRecDepth 100000 in
/-- The kernel-checked decision for the table extracted from /repo on this run. -/
theorem verdict : (classify Generated.factsC10).Sound (Holds Generated.factsC10.table) :=
  classify_sound Generated.factsC10

#eval IO.println (verdictLine "C10" (classify Generated.factsC10))
#eval IO.println s!"C10-PAIRS {(Hv.Lockset.racyPairs Generated.factsC10.table).length}"
-- one representative racy pair per finding id
#eval (findingIds (Hv.Lockset.racyPairs Generated.factsC10.table)).forM (fun id => do
    match (Hv.Lockset.racyPairs Generated.factsC10.table).find? (fun (p : Hv.Lockset.Row × Hv.Lockset.Row) => "C10-race-" ++ p.1.struct ++ "-" ++ p.1.field == id) with
    | some (p : Hv.Lockset.Row × Hv.Lockset.Row) => IO.println s!"C10-PAIR {id}: {p.1.method}[{if p.1.isWrite then "w" else "r"},{repr p.1.held}] / {p.2.method}[{if p.2.isWrite then "w" else "r"},{repr p.2.held}]"
    | none => pure ())
-- every row that breaks the discipline (call-site granularity; compared with the recorded list by /verif/check)
#eval (Generated.factsC10.table.filter (fun r => !r.ok)).forM (fun r =>
    IO.println s!"C10-OFFENDER {r.struct}.{r.field} {r.method.replace " " "_"} {if r.isWrite then "w" else "r"} {repr r.held}")
#print axioms verdict
#print axioms discipline_sound
#print axioms holds_iff
#print axioms no_race_of_no_pairs
#print axioms race_of_pair

end Hv.C10
