import Hv.Props.C15
import Hv.Generated.FactsC15

namespace Hv.C15

/-- The kernel-checked decision for the facts extracted from /repo on this run. -/
theorem verdict : (classify Generated.factsC15).Sound (Holds (cfgOf Generated.factsC15)) :=
  classify_sound _

#eval IO.println (verdictLine "C15" (classify Generated.factsC15))
#print axioms verdict
#print axioms holds_noReset
#print axioms classify_sound
#print axioms refutes_reset
#print axioms refutes_reset_stale
#print axioms witness_two_holders

end Hv.C15
