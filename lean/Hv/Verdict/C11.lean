import Hv.Props.C11
import Hv.Generated.FactsC11

namespace Hv.C11

/-- The kernel-checked decision for the facts extracted from /repo on this run. -/
theorem verdict : (classify Generated.factsC11).Sound (HoldsAll Generated.factsC11)
    (HoldsPartial (cfgOf Generated.factsC11)) :=
  classify_sound _

#eval IO.println (verdictLine "C11" (classify Generated.factsC11))
#print axioms verdict
#print axioms claims_safe
#print axioms claims_disjoint
#print axioms holds_partial
#print axioms w_nonatomic
#print axioms w_counter
#print axioms w_expzero
#print axioms w_stale
#print axioms w_empty
#print axioms w_patch
#print axioms w_reindex
#print axioms w_shift_deleted
#print axioms w_shift_stale_copy
#print axioms refutes_of_findings
#print axioms no_deadlock_repaired
#print axioms no_deadlock_beacon_first
#print axioms deadlock_mixed_order
#print axioms deadlock_mixed_order_clone

end Hv.C11
