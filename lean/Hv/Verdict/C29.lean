import Hv.Props.C29
import Hv.Generated.FactsC29

namespace Hv.C29

theorem verdict : (classify Generated.factsC29).Sound (Holds (cfgOf Generated.factsC29)) (HoldsPartial (cfgOf Generated.factsC29)) :=
  classify_sound _

#eval IO.println (verdictLine "C29" (classify Generated.factsC29))
#print axioms verdict
#print axioms Hv.Storage.runOps_shape
#print axioms Hv.Storage.openReader_prefix
#print axioms Hv.Storage.loadIndex_runOps_from
#print axioms Hv.Storage.runOps_pending_le
#print axioms name_roundtrip_v3
#print axioms scan_v3
#print axioms name_roundtrip_v2_fallback
#print axioms Hv.Storage.compaction_keeps_name
#print axioms compacted_v3
#print axioms compacted_v2
#print axioms scan_v2
#print axioms compactFromIndex_keeps_given_name
#print axioms Hv.Storage.listing_spec
#print axioms listing_exact
#print axioms Hv.Storage.page_tiles
#print axioms not_holds_of_tuiOnePage
#print axioms holds_of_good
#print axioms holds_partial
#print axioms longName_truncates
#print axioms not_holds_of_acceptsLongName
#print axioms not_holds_of_noFallback
#print axioms classify_sound

end Hv.C29
