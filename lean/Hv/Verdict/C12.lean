import Hv.Props.C12
import Hv.Generated.FactsC12

namespace Hv.C12

/-- The kernel-checked decision for the facts extracted from /repo on this run. -/
theorem verdict : (classify Generated.factsC12).Sound (Holds (cfgOf Generated.factsC12)) :=
  classify_sound _

#eval IO.println (verdictLine "C12" (classify Generated.factsC12))
#print axioms verdict
#print axioms cap_inv
#print axioms four_cell
#print axioms holds_good
#print axioms refutes_countFirst
#print axioms witness_overshoots
#print axioms refutes_createFromSeed
#print axioms refutes_expiredEarlyUnlock
#print axioms max_const

end Hv.C12
