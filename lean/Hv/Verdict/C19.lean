import Hv.Props.C19
import Hv.Generated.FactsC19

namespace Hv.C19

/-- The kernel-checked decision for the facts extracted from /repo on this run. -/
theorem verdict : (classify Generated.factsC19).Sound (Holds (cfgOf Generated.factsC19))
    (HoldsPartial (cfgOf Generated.factsC19)) :=
  classify_sound _

#eval IO.println (verdictLine "C19" (classify Generated.factsC19))
#print axioms verdict
#print axioms time_conv_id
#print axioms exactly_once
#print axioms noop_save_emits
#print axioms old_value_lost
#print axioms per_key_order
#print axioms per_key_order_quiescent
#print axioms order_lost_without_guard
#print axioms sends_serialized
#print axioms serialized_of_mutex
#print axioms overlap_without_mutex
#print axioms holds_partial
#print axioms holds_of_no_findings
#print axioms refutes_of_findings
#print axioms SubRace.sending_after_store
#print axioms SubRace.missed_when_checked_first

end Hv.C19
