import Hv.Props.C16
import Hv.Generated.FactsC16

namespace Hv.C16

/-- The kernel-checked decision for the facts extracted from /repo on this run. -/
theorem verdict : (classify Generated.factsC16).Sound (Holds (cfgOf Generated.factsC16)) :=
  classify_sound _

#eval IO.println (verdictLine "C16" (classify Generated.factsC16))
#print axioms verdict
#print axioms durable_repaired
#print axioms inv_step
#print axioms destroy_loses_acked_write
#print axioms idle_close_loses_acked_write
#print axioms stale_unmap_loses_acked_write
#print axioms pending_step

end Hv.C16
