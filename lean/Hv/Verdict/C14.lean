import Hv.Props.C14
import Hv.Generated.FactsC14

namespace Hv.C14

/-- The kernel-checked decision for the facts extracted from /repo on this run. -/
theorem verdict : (classify Generated.factsC14).Sound (Holds (cfgOf Generated.factsC14) (gwOf Generated.factsC14) (uniqueOf Generated.factsC14)) :=
  classify_sound _

#eval IO.println (verdictLine "C14" (classify Generated.factsC14))
#print axioms verdict
#print axioms holds_good
#print axioms reach_inv
#print axioms refutes_wakeLast
#print axioms refutes_wakeNone
#print axioms refutes_doubleClose
#print axioms refutes_ttlFloor
#print axioms ttl_floor
#print axioms foreign_unlock_noop
#print axioms waiter_variant
#print axioms granted_when_ahead_gone
#print axioms refutes_ticketIds

end Hv.C14
