import Hv.Props.C30
import Hv.Generated.FactsC30

namespace Hv.C30

theorem verdict : (classify Generated.factsC30).Sound (Full (kcOf Generated.factsC30) (cfgOf Generated.factsC30)) (Partial (cfgOf Generated.factsC30)) :=
  classify_sound _

#eval IO.println (verdictLine "C30" (classify Generated.factsC30))
#print axioms verdict
#print axioms Hv.Data.paths_agree
#print axioms Hv.Data.wire_agrees_nonneg
#print axioms Hv.Data.preepoch_disagreement
#print axioms Hv.Data.le_site_witness
#print axioms Hv.Data.noguard_site_witness
#print axioms Hv.Data.clear_loses_witness
#print axioms holds_nonneg
#print axioms holds_good
#print axioms not_holds_gt0
#print axioms not_holds_of_not_good
#print axioms preepoch_patch_witness
#print axioms stale_index_witness
#print axioms reload_exp
#print axioms fail_keeps_expiry
#print axioms not_fail_keeps_expiry

end Hv.C30
