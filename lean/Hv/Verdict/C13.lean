import Hv.Props.C13
import Hv.Generated.FactsC13

namespace Hv.C13

/-- The kernel-checked decision for the facts extracted from /repo on this run. -/
theorem verdict :
    (classify Generated.factsC13).Sound (Full Generated.factsC13) (HoldsExcept (cfgOf Generated.factsC13)) :=
  classify_sound Generated.factsC13

#eval IO.println (verdictLine "C13" (classify Generated.factsC13))
#print axioms verdict
#print axioms parse_serialize
#print axioms parse_serialize_structural
#print axioms apply_wf
#print axioms apply_wf_partial
#print axioms untouched_bytes
#print axioms untouched_leaf_bytes
#print axioms untouched_target
#print axioms apply_refines_spec
#print axioms apply_refines_spec_partial
#print axioms apply_error_class
#print axioms op_agrees
#print axioms apply_agrees_spec_nosplice_partial
#print axioms Hv.Patch.applyOps_agrees
#print axioms Hv.Patch.applyOps_error_class_conv
#print axioms Hv.Patch.noSplice_single
#print axioms Hv.Patch.merge_rejected_class
#print axioms witness_removeVal_container
#print axioms not_refinesSpec_of_scalar
#print axioms apply_refines_spec_unvalidated_partial
#print axioms atomic_fold
#print axioms patchFields_refines
#print axioms pfGate_created_map
#print axioms witness_nonmap_seed
#print axioms wire_cond_agrees
#print axioms Hv.Patch.wire_op_agrees
#print axioms Hv.Patch.gw_refines
#print axioms Hv.Patch.WireCfg.holds_of_agrees
#print axioms Hv.Patch.WireCfg.not_holds_of_disagree
#print axioms Hv.Patch.lists_differ
#print axioms Hv.Patch.witness_wire_truncated
#print axioms Hv.Patch.witness_wire_swapped
#print axioms witness_spliced_opaque
#print axioms inc_keeps_format
#print axioms common
#print axioms Hv.Patch.walk_refines
#print axioms Hv.Patch.walk_resolve
#print axioms Hv.Patch.editAt_spec
#print axioms Hv.Patch.extractTop_parse
#print axioms Hv.Patch.applyOp_carries
#print axioms Hv.Patch.hSet_siblings
#print axioms Hv.Patch.hInc_siblings
#print axioms Hv.Patch.hDelete_siblings
#print axioms Hv.Patch.hRemoveAt_siblings
#print axioms Hv.Patch.hRemoveVal_siblings
#print axioms Hv.Patch.hMerge_siblings
#print axioms Hv.Patch.hAppend_keeps
#print axioms Hv.Patch.autoCreate_keeps
#print axioms ops_atomic
#print axioms ops_atomic_fold
#print axioms cond_unmet
#print axioms inc_preserves_code
#print axioms cond_numeric
#print axioms nan_equal_nothing
#print axioms holds_of_good
#print axioms holds_except
#print axioms witness_unvalidated
#print axioms witness_unvalidated_fixed
#print axioms witness_nan_equal
#print axioms witness_nan_fixed
#print axioms not_successWf_of_unvalidated
#print axioms not_nanEqualNothing_of_equal
#print axioms Hv.Patch.frame
#print axioms Hv.Patch.strict_exact
#print axioms Hv.Patch.serialize_parse
#print axioms Hv.Patch.walk_off
#print axioms Hv.Patch.walk_site
#print axioms Hv.Patch.mergeInto_keeps
#print axioms Hv.Patch.removeFirst_sublist
#print axioms Hv.Patch.toInt64_signExt

end Hv.C13
