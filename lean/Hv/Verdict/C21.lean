import Hv.Props.C21
import Hv.Generated.FactsC21

namespace Hv.C21

/-- The kernel-checked decision for the facts extracted from /repo on this run. -/
theorem verdict :
    (classify Generated.factsC21).Sound (Holds (cfgOf Generated.factsC21))
      (Generated.factsC21.lookup = .iteratesMap → HoldsNonOverlap (cfgOf Generated.factsC21)) :=
  classify_sound _

#eval IO.println (verdictLine "C21" (classify Generated.factsC21))
#print axioms verdict
#print axioms holds_ranked
#print axioms resolve_perm
#print axioms resolve_most_specific
#print axioms resolve_restart
#print axioms moreSpecific_subsumes
#print axioms map_order_witness
#print axioms refutes_iteratesMap
#print axioms functional_nonoverlap_partial
#print axioms refutes_dropped_field
#print axioms resolves_to_last_registration
#print axioms reregistration_ignored_witness
#print axioms refutes_reregistration
#print axioms torn_save_witness
#print axioms acknowledged_registration_lost_witness
#print axioms refutes_ack_lost
#print axioms Hv.Settings.acknowledged_is_durable
#print axioms refutes_torn_save
#print axioms Hv.Settings.registry_follows_history
#print axioms Hv.Settings.entryFor_register
#print axioms Hv.Settings.wf_register
#print axioms Hv.Settings.lookupIn_filter
#print axioms Hv.Name.load_canon

end Hv.C21
