import Hv.Props.C23
import Hv.Generated.FactsC23

namespace Hv.C23
open Hv.Migrate

theorem verdict : (classify Generated.factsC23).Sound (Holds (cfgOf Generated.factsC23)) := classify_sound _

#eval IO.println (verdictLine "C23" (classify Generated.factsC23))
#print axioms verdict
#print axioms migrate_preserves
#print axioms migrate_preserves_c01
#print axioms Hv.MigrateV2.storV2_lawful
#print axioms migrate_failure_atomic
#print axioms migrate_delete_last
#print axioms migrate_dryRun_noop
#print axioms holds_good
#print axioms Hv.Migrate.loadsV1_unique
#print axioms Hv.Migrate.dedupe_last
#print axioms Hv.Migrate.parseMig_encode
#print axioms Hv.Migrate.parseV1_encode
#print axioms Hv.Migrate.readers_agree
#print axioms verify_weaker
#print axioms deleteFirst_loses_data
#print axioms refutes_deleteFirst
#print axioms dedupeFirst_witness
#print axioms refutes_dedupeFirst
#print axioms refutes_keepHyd
#print axioms refutes_keepPartial
#print axioms migrate_name_not_dropped
#print axioms refutes_nameDropped
#print axioms nameDropped_partial
#print axioms keepPartial_partial
#print axioms migrate_rerun_completes
#print axioms migrate_twice
#print axioms migrate_durable_before_delete
#print axioms Hv.Migrate.sameTarget_sound
#print axioms Hv.Migrate.sameTarget_written
#print axioms refutes_refusesEqual
#print axioms refutes_noSync
#print axioms good_finishes_rerun
#print axioms migrate_existing_kept
#print axioms migrate_no_silent_drop
#print axioms refutes_appendsExisting
#print axioms appendsExisting_mixes
#print axioms appendsExisting_destroys
#print axioms appendsExisting_partial
#print axioms good_refuses_existing
#print axioms unstorable_key_aborts
#print axioms Hv.MigrateV2.long_key_refused
#print axioms Hv.MigrateV2.empty_key_refused
#print axioms Overflow.overflow_duplicates_key
#print axioms Overflow.no_duplicate_when_recorded

end Hv.C23
