import Hv.Props.C04
import Hv.Generated.FactsC04

namespace Hv.C04

theorem verdict : (classify Generated.factsC04).Sound (Holds (cfgOf Generated.factsC04)) (HoldsPartial (cfgOf Generated.factsC04)) :=
  classify_sound _

#eval IO.println (verdictLine "C04" (classify Generated.factsC04))
#print axioms verdict
#print axioms Hv.Storage.reader_total
#print axioms Hv.Storage.readNextBlock_ok_length
#print axioms Hv.Storage.readNextBlock_sound
#print axioms Hv.Storage.readNextBlock_crc_mismatch
#print axioms Hv.Storage.parseEntries_ok_length
#print axioms Hv.Storage.alloc_bounded
#print axioms Hv.Storage.readNextBlock_torn
#print axioms Hv.Storage.load_is_prefix_replay
#print axioms Hv.Storage.oversized_csize_hides_rest
#print axioms Hv.Storage.load_after_oversized_csize
#print axioms Hv.Storage.load_stops_at_eof
#print axioms Hv.Storage.load_zero_filled_tail
#print axioms Hv.Storage.zeroTail_only_drops
#print axioms Hv.Storage.readNextBlock_crc_mismatch_strict
#print axioms holds_of_good
#print axioms holds_partial
#print axioms forgedSize_allocates
#print axioms not_holds_of_unboundedCompressedSize
#print axioms not_holds_of_unboundedDecodedLen
#print axioms not_holds_of_noCrc
#print axioms not_holds_of_noULen
#print axioms not_holds_of_trailingIgnored
#print axioms classify_sound

end Hv.C04
