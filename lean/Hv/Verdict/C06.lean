import Hv.Props.C06
import Hv.Generated.FactsC06

namespace Hv.C06

theorem verdict : (classify Generated.factsC06).Sound (Holds (cfgOf Generated.factsC06)) (HoldsPartial (cfgOf Generated.factsC06)) :=
  classify_sound _

#eval IO.println (verdictLine "C06" (classify Generated.factsC06))
#print axioms verdict
#print axioms model_refines_spec
#print axioms C06_partial
#print axioms Hv.Data.step_sim
#print axioms run_sim
#print axioms exists_iff_nonempty
#print axioms count_eq_size
#print axioms exists_iff_find
#print axioms step_total
#print axioms not_holds_of_not_good
#print axioms wit_sticky
#print axioms wit_deadlock
#print axioms current_sticky_witness
#print axioms current_deadlock_witness

end Hv.C06
