import Hv.Props.C08
import Hv.Generated.FactsC08

namespace Hv.C08

theorem verdict : (classify Generated.factsC08).Sound (Holds (cfgOf Generated.factsC08)) (Partial (cfgOf Generated.factsC08)) :=
  classify_sound _

#eval IO.println (verdictLine "C08" (classify Generated.factsC08))
#print axioms verdict
#print axioms planner_sound
#print axioms leg_agree
#print axioms Hv.Query.extractG_plain
#print axioms Hv.Query.isort_filter
#print axioms Hv.Query.rows_agree
#print axioms routes_agree_of
#print axioms routes_agree_partial
#print axioms holds_of_good
#print axioms holds_repaired
#print axioms refutes_of_witness
#print axioms refutes_current
#print axioms findings_current
#print axioms findings_beforeFix
#print axioms not_leg_agree_current
#print axioms witness_float_vs_int
#print axioms witness_wildcard_path
#print axioms witness_paging
#print axioms witness_label
#print axioms witness_attribute
#print axioms Hv.Query.bucket_tracks_store
#print axioms Hv.Query.bucketRouteS_run
#print axioms bucket_tracks_store_current
#print axioms witness_bucket_served_before_drain
#print axioms Hv.Query.leg_agree_same_kind
#print axioms routes_agree_same_kind
#print axioms current_same_kind
#print axioms Hv.Query.residual_carries_opaque
#print axioms holdsS_of
#print axioms refutes_of_witnessS
#print axioms witness_bucket_misses_update
#print axioms witness_bucket_drops_pending

end Hv.C08
