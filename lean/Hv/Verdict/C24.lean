import Hv.Props.C24
import Hv.Generated.FactsC24

namespace Hv.C24

theorem verdict : (classify Generated.factsC24).Sound (Holds Generated.factsC24) := classify_sound _

#eval IO.println (verdictLine "C24" (classify Generated.factsC24))
#print axioms verdict
#print axioms faithful_of_allPropagate
#print axioms holds_of_allPropagate
#print axioms classify_sound
#print axioms not_faithful_of_swallow
#print axioms gzip_swallows_witness

end Hv.C24
