import Hv.Props.C05
import Hv.Generated.FactsC05

namespace Hv.C05

theorem verdict : (classify Generated.factsC05).Sound (Full (cfgOf Generated.factsC05)) (HoldsPartial (cfgOf Generated.factsC05)) :=
  classify_sound _

#eval IO.println (verdictLine "C05" (classify Generated.factsC05))
#print axioms verdict
#print axioms Hv.Data.persistRecord_id_iff
#print axioms Hv.Data.reloadView_typeTagged
#print axioms Hv.Data.zero_table
#print axioms Hv.Data.close_view
#print axioms Hv.Data.sok_step
#print axioms reload_view
#print axioms single_typeTagged
#print axioms single_of_holds
#print axioms not_holds_resurrect
#print axioms not_holds_incfail
#print axioms findings_backed
#print axioms holds_multi_partial
#print axioms pokstate_close
#print axioms Hv.Data.close_view_pok
#print axioms Hv.Data.pok_summon
#print axioms Hv.Data.pok_save
#print axioms Hv.Data.pok_delete
#print axioms fail_keeps_recs
#print axioms not_fail_keeps_recs
#print axioms recreate_stays_filed
#print axioms not_recreate_stays_filed
#print axioms not_single_gob
#print axioms C05_partial
#print axioms not_holds_gob
#print axioms current_zero_witness

end Hv.C05
