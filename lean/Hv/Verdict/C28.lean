import Hv.Props.C28
import Hv.Generated.FactsC28

namespace Hv.C28

/-- The kernel-checked decision for the facts extracted from /repo on this run. -/
theorem verdict : (classify Generated.factsC28).Sound (Holds (cfgOf Generated.factsC28)) (Safe (cfgOf Generated.factsC28)) :=
  classify_sound _

#eval IO.println (verdictLine "C28" (classify Generated.factsC28))
#print axioms verdict
#print axioms queues_pruned
#print axioms safe_any
#print axioms refutes_current
#print axioms witness_grows
#print axioms current_never_shrinks
#print axioms holds_partial

end Hv.C28
