import Hv.Props.C17
import Hv.Generated.FactsC17

namespace Hv.C17

/-- The kernel-checked decision for the facts extracted from /repo on this run. -/
theorem verdict : (classify Generated.factsC17).Sound (Holds (cfgOf Generated.factsC17) Generated.factsC17.handlers (ceaseOf Generated.factsC17) (closeOf Generated.factsC17) (muOf Generated.factsC17) (retOf Generated.factsC17))
    (HoldsPartial (cfgOf Generated.factsC17) (pairedOf Generated.factsC17)) :=
  classify_sound _

#eval IO.println (verdictLine "C17" (classify Generated.factsC17))
#print axioms verdict
#print axioms no_lost_wakeup
#print axioms holds_good
#print axioms defer_balance
#print axioms defer_balance_autodestroy
#print axioms refutes_destroyHoldingVigil
#print axioms refutes_closeAborts
#print axioms graceful_any
#print axioms refutes_current
#print axioms witness_stuck
#print axioms refutes_looseCheck
#print axioms holds_partial
#print axioms refutes_lockBeforeDrain
#print axioms refutes_leak
#print axioms refutes_doubleCease
#print axioms VigilMu.no_mu_deadlock
#print axioms VigilMu.drain_progress
#print axioms VigilMu.stuck_forever

end Hv.C17
