import Hv.Props.C02
import Hv.Generated.FactsC02

namespace Hv.C02

theorem verdict : (classify Generated.factsC02).Sound (Holds (cfgOf Generated.factsC02)) (Partial (cfgOf Generated.factsC02)) :=
  classify_sound _

#eval IO.println (verdictLine "C02" (classify Generated.factsC02))
#print axioms verdict
#print axioms recover_total_prefix
#print axioms recover_maximal
#print axioms append_after_recovery
#print axioms second_crash_recovers
#print axioms holds_of_repaired
#print axioms Hv.BlockStore.run_started
#print axioms torn_block_load_error
#print axioms not_recovers_of_torn_error
#print axioms torn_create_bricks
#print axioms append_after_torn_tail_strands
#print axioms C02_partial
#print axioms Hv.BlockStore.run_inv
#print axioms Hv.BlockStore.session_image
#print axioms Hv.BlockStore.sessionDurable_is_synced_file
#print axioms Hv.BlockStore.loadFile_prefix_good
#print axioms Hv.BlockStore.loadEntries_strands
#print axioms Hv.BlockStore.lossyImageAt_checkpoint

end Hv.C02
