import Hv.Props.C22
import Hv.Generated.FactsC22

namespace Hv.C22

/-- The kernel-checked decision for the facts extracted from /repo on this run. -/
theorem verdict :
    (classify Generated.factsC22).Sound (Holds (cfgOf Generated.factsC22))
      (cfgOf Generated.factsC22 = legacy → ∀ t, Plain t → SdkTags.Agree (cfgOf Generated.factsC22) t) :=
  classify_sound _

#eval IO.println (verdictLine "C22" (classify Generated.factsC22))
#print axioms verdict
#print axioms slots_agree
#print axioms agree_of_allHeadEq
#print axioms not_holds_of_not_allHeadEq
#print axioms misfire
#print axioms witness_keywords
#print axioms witness_values
#print axioms witness_createdAtX
#print axioms witness_key_with_option
#print axioms agree_plain_partial

end Hv.C22
