import Hv.Props.C22
import Hv.Generated.FactsC22

namespace Hv.C22

/-- The kernel-checked decision for the facts extracted from /repo on this run. -/
theorem verdict : (classify Generated.factsC22).Sound (Holds Generated.factsC22) (HoldsPartial Generated.factsC22) :=
  classify_sound _

#eval IO.println (verdictLine "C22" (classify Generated.factsC22))
#print axioms verdict
#print axioms slots_agree
#print axioms agree_of_allHeadEq
#print axioms not_holds_of_not_allHeadEq
#print axioms misfire
#print axioms witness_keywords
#print axioms witness_values
#print axioms witness_createdAtX
#print axioms witness_key_with_option
#print axioms agree_plain_partial
#print axioms Values.convert_roundtrip
#print axioms Values.body_roundtrip
#print axioms Values.holds_of_good
#print axioms Values.time_value_truncated
#print axioms Values.struct_value_dropped
#print axioms Values.nil_body_field_unreadable
#print axioms Values.omitempty_normalises
#print axioms Values.gob_nil_empty_witness
#print axioms Values.refutes_time_seconds
#print axioms Values.refutes_struct_dropped
#print axioms Values.refutes_body_nil
#print axioms Values.refutes_empty_len_zero
#print axioms Values.refutes_empty_neg_zero
#print axioms Values.void_overwrite_keeps_old_value
#print axioms Values.refutes_void_keeps
#print axioms Values.profile_field_update
#print axioms Hv.SdkValues.intHops_id
#print axioms Hv.SdkValues.wrap_id

end Hv.C22
