/-
  Shared vocabulary of every property verdict.

  * `Tri`      — value of a boolean code fact as extracted from /repo by the
                 translator; `unknown` when the syntactic pattern was not found.
  * `Verdict`  — result of classifying a fact record: the property `holds`,
                 is `violated` with a list of named findings (each backed by a
                 closed counterexample theorem), or is `undetermined` (no theorem
                 covers this combination of facts — "no longer shown to hold").
-/
namespace Hv

inductive Tri where
  | yes | no | unknown
  deriving DecidableEq, Repr, Inhabited

namespace Tri
def isYes : Tri → Bool | .yes => true | _ => false
def isNo  : Tri → Bool | .no  => true | _ => false
def ofBool (b : Bool) : Tri := if b then .yes else .no
instance : ToString Tri := ⟨fun | .yes => "yes" | .no => "no" | .unknown => "unknown"⟩
end Tri

inductive Verdict where
  | holds
  | violated (findings : List String)
  | undetermined (why : String)
  deriving DecidableEq, Repr

namespace Verdict
def render : Verdict → String
  | .holds => "holds"
  | .violated fs => "violated " ++ " ".intercalate fs
  | .undetermined why => "undetermined " ++ why

/-- What a classification asserts, checked by the kernel for the extracted facts:
    `holds` ⇒ the full-strength statement; `violated` ⇒ its negation (proved from closed
    counterexample witnesses) together with the `_partial` statement on the fragment that
    excludes the findings; `undetermined` asserts nothing (the property is then reported as
    no longer shown to hold). -/
def Sound (v : Verdict) (full : Prop) (part : Prop := True) : Prop :=
  match v with
  | .holds => full
  | .violated _ => ¬ full ∧ part
  | .undetermined _ => True
end Verdict

/-- Printed by every `Hv/Verdict/Cxx.lean`; parsed by `/verif/check`. -/
def verdictLine (pid : String) (v : Verdict) : String :=
  "VERDICT " ++ pid ++ " " ++ v.render

end Hv
