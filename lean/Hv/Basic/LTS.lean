/-
  A minimal labelled-transition-system layer.  `step s a = none` means action `a`
  is not enabled in `s` (a caller cannot perform it there), so `run` only
  accepts schedules the real system can produce.  All concurrency theorems are
  of the form `∀ as s, run init as = some s → Safe s`.
-/
namespace Hv.LTS

variable {σ α : Type}

/-- Run a schedule; `none` as soon as a step is not enabled. -/
def run (step : σ → α → Option σ) : σ → List α → Option σ
  | s, [] => some s
  | s, a :: as => match step s a with
    | none => none
    | some s' => run step s' as

@[simp] theorem run_nil (step : σ → α → Option σ) (s : σ) : run step s [] = some s := rfl

theorem run_cons (step : σ → α → Option σ) (s : σ) (a : α) (as : List α) :
    run step s (a :: as) = (step s a).bind (fun s' => run step s' as) := by
  simp only [run]; cases step s a <;> rfl

theorem run_append (step : σ → α → Option σ) (s : σ) (as bs : List α) :
    run step s (as ++ bs) = (run step s as).bind (fun s' => run step s' bs) := by
  induction as generalizing s with
  | nil => simp
  | cons a as ih =>
    simp only [List.cons_append, run]
    cases step s a with
    | none => rfl
    | some s' => exact ih s'

/-- Invariant lifting: an inductive invariant holds in every reachable state. -/
theorem inv_run (step : σ → α → Option σ) (Inv : σ → Prop)
    (hstep : ∀ s a s', Inv s → step s a = some s' → Inv s')
    (s : σ) (as : List α) (s' : σ) (h0 : Inv s) (hr : run step s as = some s') : Inv s' := by
  induction as generalizing s with
  | nil => simp at hr; exact hr ▸ h0
  | cons a as ih =>
    simp only [run] at hr
    cases hs : step s a with
    | none => simp [hs] at hr
    | some s1 => simp only [hs] at hr; exact ih s1 (hstep s a s1 h0 hs) hr

/-- Reachability from an initial state. -/
def Reachable (step : σ → α → Option σ) (init : σ) (s : σ) : Prop :=
  ∃ as, run step init as = some s

theorem inv_reachable (step : σ → α → Option σ) (Inv : σ → Prop) (init : σ)
    (h0 : Inv init) (hstep : ∀ s a s', Inv s → step s a = some s' → Inv s')
    (s : σ) (hr : Reachable step init s) : Inv s := by
  obtain ⟨as, h⟩ := hr
  exact inv_run step Inv hstep init as s h0 h

end Hv.LTS
