/-
  The planner and the two execution routes of `Gateway.GetByIndexStream`.

    app/server/gateway/bucket_planner.go   PlanFilter / planAnd / planOr / indexableHint
    app/server/gateway/bucket_exec.go      collectBucketCandidates / applyTimeRange / sortCandidates / applyFromLimit
    app/server/gateway/gateway.go          GetByIndexStream (both branches, label collection, MaxResults)
    app/core/hydra/swamp/bucket/bucket.go  LookupEqual / LookupIn over canonical keys

  The scan route reads an ordered index; C08 assumes that read to be correct (it is the subject
  of C07) and models it by the Spec: the records carrying the attribute, sorted.  Sorting on both
  routes is modelled by one deterministic sort (attribute, then key): ties are free in the
  property, so both routes may be given the same tie order.
  The bucket is modelled by its sequential specification — `byKey[k] = canon(extract(body k))`
  for the current contents — which is what OnInsert / OnUpdate / OnDelete maintain; the
  correspondence run checks that (queries before and after mutations of an already built bucket).
-/
import Hv.Query.Filter

namespace Hv.Query

structure Rec where
  key : String
  /-- decoded msgpack body; `none`: the treasure's content is not a msgpack body -/
  body : Option Value
  created : Int
  updated : Int
  expire : Int
  deriving Repr, Inhabited

inductive Slot where
  | key | created | updated | expire
  deriving DecidableEq, Repr, Inhabited

def ts (s : Slot) (r : Rec) : Int :=
  match s with
  | .key => 0
  | .created => r.created
  | .updated => r.updated
  | .expire => r.expire

def carries (s : Slot) (r : Rec) : Bool :=
  match s with
  | .key => true
  | _ => ts s r != 0

/-! ### planner -/

structure Hint where
  path : Path
  values : List Key
  /-- the leaf the hint was made from (ghost: lets theorems and label re-attachment refer to it) -/
  leaf : Leaf
  deriving DecidableEq, Repr, Inhabited

inductive Plan where
  | bypass
  | and (hints : List Hint) (residual : Group)
  | orUnion (hints : List Hint)
  deriving Repr, Inhabited

/-- `indexableHint` -/
def indexableHint (cfg : Cfg) (l : Leaf) : Option Hint :=
  if l.path.isEmpty then none
  else if cfg.excludesSpecialPaths && l.path.any Seg.isSpecial then none
  else if !cfg.indexableOps.contains l.op then none
  else match l.op with
    | .strIn => if l.strVals.isEmpty then none else some ⟨l.path, l.strVals.map Key.s, l⟩
    | .i32In | .i64In => if l.intVals.isEmpty then none else some ⟨l.path, l.intVals.map Key.i, l⟩
    | _ => (match cvKey l.cv with | some k => some ⟨l.path, [k], l⟩ | none => none)

/-- first leaf with a hint, with its position -/
def firstIndexable (cfg : Cfg) : List Leaf → Option (Hint × List Leaf)
  | [] => none
  | l :: rest =>
    match indexableHint cfg l with
    | some h => some (h, rest)
    | none => (match firstIndexable cfg rest with
               | some (h, rest') => some (h, l :: rest')
               | none => none)

def allHints (cfg : Cfg) : List Leaf → Option (List Hint)
  | [] => some []
  | l :: rest =>
    match indexableHint cfg l, allHints cfg rest with
    | some h, some hs => some (h :: hs)
    | _, _ => none

/-- `planOr` -/
def planOr (cfg : Cfg) (g : Group) : Plan :=
  if cfg.planOrBypassOnSubGroups && !g.subs.isEmpty then .bypass
  else match allHints cfg g.leaves with
    | some hs => if hs.isEmpty then .bypass else .orUnion hs
    | none => .bypass

/-- `PlanFilter(sub)` yields an OR-union (only a non-empty OR group can) -/
def unionOf (cfg : Cfg) (s : Group) : Option (List Hint) :=
  if s.isEmpty || !s.isOr then none
  else (match planOr cfg s with | .orUnion hs => some hs | _ => none)

/-- first sub-group that `PlanFilter` turns into an OR-union, with the remaining sub-groups -/
def firstUnionSub (cfg : Cfg) : List Group → Option (List Hint × List Group)
  | [] => none
  | s :: rest =>
    match unionOf cfg s with
    | some hs => some (hs, rest)
    | none => (match firstUnionSub cfg rest with
               | some (hs, rest') => some (hs, s :: rest')
               | none => none)

/-- `planAnd` -/
def planAnd (cfg : Cfg) (g : Group) : Plan :=
  match firstIndexable cfg g.leaves with
  | some (h, rest) => .and [h] (.mk g.isOr rest g.subs)
  | none =>
    match firstUnionSub cfg g.subs with
    | some (hs, rest) => .and hs (.mk g.isOr g.leaves rest)
    | none => .bypass

/-- `PlanFilter` -/
def planFilter (cfg : Cfg) (g : Group) : Plan :=
  if g.isEmpty then .bypass
  else if g.isOr then planOr cfg g else planAnd cfg g

/-! ### the bucket -/

/-- canonical key the bucket files a record under (`extractKey`) -/
def bucketKey (r : Rec) (p : Path) : Key :=
  match r.body with
  | some b => canon (extractB b p)
  | none => .null

/-- does the bucket of `h.path` return `r` for this hint? -/
def hintMatch (h : Hint) (r : Rec) : Bool := h.values.any (fun v => keyEq (bucketKey r h.path) v)

/-- `LookupEqual` / `LookupIn` for one hint (in some order; the route sorts afterwards) -/
def lookupHint (cfg : Cfg) (store : List Rec) (h : Hint) : List Rec :=
  if cfg.lookupInDedupes then store.filter (hintMatch h)
  else h.values.flatMap (fun v => store.filter (fun r => keyEq (bucketKey r h.path) v))

/-- `collectBucketCandidates` -/
def candidates (cfg : Cfg) (store : List Rec) (hints : List Hint) : List Rec :=
  match hints with
  | [] => []
  | [h] => lookupHint cfg store h
  | hs =>
    -- the `seen` set of the union loop also swallows duplicates inside one hint's hits
    if cfg.unionDedupes then store.filter (fun r => hs.any (fun h => hintMatch h r))
    else hs.flatMap (lookupHint cfg store)

/-! ### ordering, window, paging -/

def insertBy {α : Type} (lt : α → α → Bool) (x : α) : List α → List α
  | [] => [x]
  | y :: ys => if lt x y then x :: y :: ys else y :: insertBy lt x ys

def isort {α : Type} (lt : α → α → Bool) : List α → List α
  | [] => []
  | x :: xs => insertBy lt x (isort lt xs)

/-- key index: by key in the requested direction; time indexes: by timestamp in the requested
    direction, equal timestamps by key (the canonical tie order) -/
def recLt (s : Slot) (asc : Bool) (a b : Rec) : Bool :=
  match s with
  | .key => if asc then decide (a.key < b.key) else decide (b.key < a.key)
  | _ =>
    if asc then decide (ts s a < ts s b) || (ts s a == ts s b && decide (a.key < b.key))
    else decide (ts s b < ts s a) || (ts s a == ts s b && decide (a.key < b.key))

def sortRecs (s : Slot) (asc : Bool) (l : List Rec) : List Rec := isort (recLt s asc) l

structure Query where
  slot : Slot
  asc : Bool
  from_ : Nat
  limit : Nat
  fromT : Option Int
  toT : Option Int
  maxResults : Nat
  filter : Option Group
  deriving Repr, Inhabited

def inWindow (q : Query) (r : Rec) : Bool :=
  (match q.fromT with | some f => decide (f ≤ ts q.slot r) | none => true) &&
  (match q.toT with | some t => decide (ts q.slot r < t) | none => true)

def hasWindow (q : Query) : Bool := q.fromT.isSome || q.toT.isSome

/-- offset, then limit (0 = unbounded) -/
def pageOf {α : Type} (from_ limit : Nat) (l : List α) : List α :=
  if limit = 0 then l.drop from_ else (l.drop from_).take limit

def capMax {α : Type} (maxResults : Nat) (l : List α) : List α :=
  if maxResults = 0 then l else l.take maxResults

/-- one streamed item: key and matched labels -/
abbrev Item := String × List String

/-- the per-row loop of `GetByIndexStream`: predicate, labels, MaxResults.  Labels are collected
    only when the evaluated group has any (`needsMeta := hasAnyLabels(residualFilters)`). -/
def emit (cfg : Cfg) (g : Option Group) (labelG : Option Group) (maxResults : Nat) (rows : List Rec) : List Item :=
  let pass (r : Rec) : Bool := match g with | some g => evalGroup (evalLeaf cfg r.body) g | none => true
  let lab (r : Rec) : List String :=
    match labelG with
    | some g => if g.hasLabels then labelsOf (evalLeaf cfg r.body) g else []
    | none => []
  capMax maxResults ((rows.filter pass).map (fun r => (r.key, lab r)))

/-- the ordered index read of the scan route, as C07's Spec gives it: carriers, sorted; the time
    indexes apply the window, the key index ignores it -/
def indexRead (q : Query) (store : List Rec) : List Rec :=
  let sorted := sortRecs q.slot q.asc (store.filter (carries q.slot))
  if q.slot != .key then sorted.filter (inWindow q) else sorted

/-- full-scan route: ordered index read (offset/limit inside it, unless repaired), then the whole
    predicate per row -/
def scanRoute (cfg : Cfg) (store : List Rec) (q : Query) : List Item :=
  let rows := indexRead q store
  if cfg.scanPagingAfterFilter then
    let pass (r : Rec) : Bool := match q.filter with | some g => evalGroup (evalLeaf cfg r.body) g | none => true
    emit cfg none q.filter q.maxResults (pageOf q.from_ q.limit (rows.filter pass))
  else
    emit cfg q.filter q.filter q.maxResults (pageOf q.from_ q.limit rows)

/-- bucket route for hints + residual -/
def bucketExec (cfg : Cfg) (store : List Rec) (q : Query) (full : Group) (hints : List Hint) (residual : Option Group) : List Item :=
  let c0 := candidates cfg store hints
  let c1 := if cfg.bucketChecksAttr then c0.filter (carries q.slot) else c0
  -- applyTimeRange: every beacon type, the key index has timestamp 0
  let c2 := if hasWindow q && (!cfg.bucketWindowTimeOnly || q.slot != .key) then c1.filter (inWindow q) else c1
  let rows := sortRecs q.slot q.asc c2
  -- `residualFilters = plan.Residual; if hasAnyLabels(filters) { residualFilters = filters }`
  let resid := if cfg.labelReattach && full.hasLabels then some full else residual
  if cfg.bucketPagingAfterFilter then
    let pass (r : Rec) : Bool := match resid with | some g => evalGroup (evalLeaf cfg r.body) g | none => true
    emit cfg none resid q.maxResults (pageOf q.from_ q.limit (rows.filter pass))
  else
    emit cfg resid resid q.maxResults (pageOf q.from_ q.limit rows)

/-- accelerated route: what `GetByIndexStream` does with the filter as given -/
def bucketRoute (cfg : Cfg) (store : List Rec) (q : Query) : List Item :=
  match q.filter with
  | none => scanRoute cfg store q
  | some g =>
    if cfg.pagedQueriesBypass && (q.from_ != 0 || q.limit != 0) then scanRoute cfg store q else
    match planFilter cfg g with
    | .bypass => scanRoute cfg store q
    | .and hints residual => bucketExec cfg store q g hints (some residual)
    | .orUnion hints => bucketExec cfg store q g hints none

end Hv.Query
