/-
  Lemmas about the query model: group evaluation, the planner, plain paths, canonical equality,
  insertion sort vs. filtering.  The property theorems are in `Hv/Props/C08.lean`.
-/
import Hv.Query.Routes

set_option linter.unusedSimpArgs false

namespace Hv.Query

/-! ### A. groups -/

theorem evalMetas_fst (f : Leaf → Bool) (ss : List Group) :
    (evalMetas f ss).map (·.1) = ss.map (evalGroup f) := by
  induction ss with
  | nil => simp [evalMetas]
  | cons s rest ih => simp [evalMetas, evalGroup, ih]

/-- the verdict of a group is the combination of the verdicts of its members -/
theorem evalGroup_mk (f : Leaf → Bool) (o : Bool) (ls : List Leaf) (ss : List Group) :
    evalGroup f (.mk o ls ss) = combine o (ls.map f ++ ss.map (evalGroup f)) := by
  simp only [evalGroup, evalMeta, List.map_append, List.map_map, evalMetas_fst]
  rfl

theorem combine_and (ms : List Bool) : combine false ms = ms.all id := by
  unfold combine
  cases ms <;> simp

theorem combine_or_ne (ms : List Bool) (h : ms ≠ []) : combine true ms = ms.any id := by
  unfold combine
  cases ms with
  | nil => exact absurd rfl h
  | cons a as => simp

/-! ### B. planner -/

/-- every hint the planner can use matches exactly when its leg does, for this record -/
def LegsAgree (cfg : Cfg) (r : Rec) (ls : List Leaf) : Prop :=
  ∀ l ∈ ls, ∀ h, indexableHint cfg l = some h → hintMatch h r = evalLeaf cfg r.body l

theorem firstIndexable_spec (cfg : Cfg) (f : Leaf → Bool) (g : Hint → Bool) :
    ∀ (ls : List Leaf) (h : Hint) (rest : List Leaf),
      (∀ l ∈ ls, ∀ h, indexableHint cfg l = some h → g h = f l) →
      firstIndexable cfg ls = some (h, rest) →
      (ls.map f).all id = (g h && (rest.map f).all id) := by
  intro ls
  induction ls with
  | nil => intro h rest _ he; simp [firstIndexable] at he
  | cons l tl ih =>
    intro h rest hag he
    simp only [firstIndexable] at he
    cases hi : indexableHint cfg l with
    | some h0 =>
      simp only [hi, Option.some.injEq, Prod.mk.injEq] at he
      obtain ⟨rfl, rfl⟩ := he
      have := hag l (by simp) h0 hi
      simp [this]
    | none =>
      simp only [hi] at he
      cases hr : firstIndexable cfg tl with
      | none => simp [hr] at he
      | some p =>
        obtain ⟨h1, rest1⟩ := p
        simp only [hr, Option.some.injEq, Prod.mk.injEq] at he
        obtain ⟨rfl, rfl⟩ := he
        have := ih h1 rest1 (fun l hl => hag l (by simp [hl])) hr
        simp only [List.map_cons, List.all_cons, id] at this ⊢
        rw [this]
        cases f l <;> cases g h1 <;> simp

theorem allHints_spec (cfg : Cfg) (f : Leaf → Bool) (g : Hint → Bool) :
    ∀ (ls : List Leaf) (hs : List Hint),
      (∀ l ∈ ls, ∀ h, indexableHint cfg l = some h → g h = f l) →
      allHints cfg ls = some hs →
      hs.any g = (ls.map f).any id ∧ hs.length = ls.length := by
  intro ls
  induction ls with
  | nil => intro hs _ he; simp [allHints] at he; subst he; simp
  | cons l tl ih =>
    intro hs hag he
    simp only [allHints] at he
    cases hi : indexableHint cfg l with
    | none => simp [hi] at he
    | some h0 =>
      cases hr : allHints cfg tl with
      | none => simp [hi, hr] at he
      | some hs0 =>
        simp only [hi, hr, Option.some.injEq] at he
        subst he
        obtain ⟨e1, e2⟩ := ih hs0 (fun l hl => hag l (by simp [hl])) hr
        have := hag l (by simp) h0 hi
        simp [this, e1, e2]


/-- does the plan select record `r`? (`g` is the filter the plan was made for) -/
def planMatches (cfg : Cfg) (r : Rec) (g : Group) : Plan → Bool
  | .bypass => evalGroup (evalLeaf cfg r.body) g
  | .and hs res => hs.any (fun h => hintMatch h r) && evalGroup (evalLeaf cfg r.body) res
  | .orUnion hs => hs.any (fun h => hintMatch h r)

/-- the leaves the planner may turn into hints: those of the group and of its direct sub-groups -/
def topLeaves (g : Group) : List Leaf := g.leaves ++ g.subs.flatMap (·.leaves)

theorem planOr_sound (cfg : Cfg) (hb : cfg.planOrBypassOnSubGroups = true) (r : Rec) (g : Group)
    (hor : g.isOr = true) (hag : LegsAgree cfg r g.leaves) :
    planMatches cfg r g (planOr cfg g) = evalGroup (evalLeaf cfg r.body) g := by
  obtain ⟨o, ls, ss⟩ := g
  simp only [Group.isOr] at hor
  subst hor
  simp only [Group.leaves] at hag
  unfold planOr
  simp only [hb, Bool.true_and, Group.subs, Group.leaves]
  cases hss : ss.isEmpty
  · simp [planMatches]
  · have : ss = [] := by simpa using hss
    subst this
    simp only [Bool.not_true, Bool.false_eq_true, if_false]
    cases hh : allHints cfg ls with
    | none => simp [planMatches]
    | some hs =>
      simp only []
      cases hem : hs.isEmpty
      · simp only [Bool.false_eq_true, if_false, planMatches]
        obtain ⟨e1, e2⟩ := allHints_spec cfg (evalLeaf cfg r.body) (fun h => hintMatch h r) ls hs hag hh
        rw [e1, evalGroup_mk, List.map_nil, List.append_nil, combine_or_ne]
        intro hnil
        have : ls = [] := by simpa using hnil
        rw [this] at e2
        have : hs = [] := List.eq_nil_of_length_eq_zero (by simpa using e2)
        rw [this] at hem; simp at hem
      · simp [planMatches]

theorem unionOf_spec (cfg : Cfg) (hb : cfg.planOrBypassOnSubGroups = true) (r : Rec) (s : Group) (hs : List Hint)
    (hag : LegsAgree cfg r s.leaves) (hu : unionOf cfg s = some hs) :
    hs.any (fun h => hintMatch h r) = evalGroup (evalLeaf cfg r.body) s := by
  unfold unionOf at hu
  by_cases hgate : (s.isEmpty || !s.isOr) = true
  · simp [hgate] at hu
  · simp only [hgate, if_false] at hu
    have hsor : s.isOr = true := by
      cases h1 : s.isOr
      · simp [h1] at hgate
      · rfl
    have := planOr_sound cfg hb r s hsor hag
    cases hp : planOr cfg s with
    | orUnion hs0 =>
      simp only [hp, Bool.false_eq_true, if_false, Option.some.injEq] at hu
      subst hu
      rw [hp] at this
      simpa [planMatches] using this
    | bypass => simp [hp] at hu
    | and a b => simp [hp] at hu

theorem firstUnionSub_spec (cfg : Cfg) (hb : cfg.planOrBypassOnSubGroups = true) (r : Rec) :
    ∀ (ss : List Group) (hs : List Hint) (rest : List Group),
      (∀ s ∈ ss, LegsAgree cfg r s.leaves) →
      firstUnionSub cfg ss = some (hs, rest) →
      (ss.map (evalGroup (evalLeaf cfg r.body))).all id =
        (hs.any (fun h => hintMatch h r) && (rest.map (evalGroup (evalLeaf cfg r.body))).all id) := by
  intro ss
  induction ss with
  | nil => intro hs rest _ he; simp [firstUnionSub] at he
  | cons s tl ih =>
    intro hs rest hag he
    simp only [firstUnionSub] at he
    cases hu : unionOf cfg s with
    | some hs0 =>
      simp only [hu, Option.some.injEq, Prod.mk.injEq] at he
      obtain ⟨e1, e2⟩ := he
      subst e1; subst e2
      have := unionOf_spec cfg hb r s hs0 (hag s (by simp)) hu
      simp [this]
    | none =>
      simp only [hu] at he
      cases hr : firstUnionSub cfg tl with
      | none => simp [hr] at he
      | some p =>
        obtain ⟨h1, rest1⟩ := p
        simp only [hr, Option.some.injEq, Prod.mk.injEq] at he
        obtain ⟨e1, e2⟩ := he
        subst e1; subst e2
        have := ih h1 rest1 (fun s hs => hag s (by simp [hs])) hr
        simp only [List.map_cons, List.all_cons, id] at this ⊢
        rw [this]
        cases evalGroup (evalLeaf cfg r.body) s <;> cases (h1.any fun h => hintMatch h r) <;> simp

theorem mem_topLeaves_of_leaf {g : Group} {l : Leaf} (h : l ∈ g.leaves) : l ∈ topLeaves g := by
  simp [topLeaves, h]

theorem mem_topLeaves_of_sub {g s : Group} {l : Leaf} (hs : s ∈ g.subs) (h : l ∈ s.leaves) : l ∈ topLeaves g := by
  simp only [topLeaves, List.mem_append, List.mem_flatMap]
  exact Or.inr ⟨s, hs, h⟩

/-- **Planner soundness.**  For every filter tree and every record: if each hint the planner can
    emit for this tree matches the record exactly when its leg does, then the plan selects the
    record exactly when the filter does — AND plans (indexed leg ∧ residual; or OR-union sub-group
    ∧ residual) and OR-union plans alike. -/
theorem planner_sound (cfg : Cfg) (hb : cfg.planOrBypassOnSubGroups = true) (r : Rec) (g : Group)
    (hag : LegsAgree cfg r (topLeaves g)) :
    planMatches cfg r g (planFilter cfg g) = evalGroup (evalLeaf cfg r.body) g := by
  unfold planFilter
  cases hem : g.isEmpty
  · simp only [Bool.false_eq_true, if_false]
    cases hor : g.isOr
    · -- AND
      simp only [Bool.false_eq_true, if_false]
      obtain ⟨o, ls, ss⟩ := g
      simp only [Group.isOr] at hor
      subst hor
      unfold planAnd
      simp only [Group.leaves, Group.subs, Group.isOr]
      cases hf : firstIndexable cfg ls with
      | some p =>
        obtain ⟨h, rest⟩ := p
        simp only [planMatches, List.any_cons, List.any_nil, Bool.or_false]
        have hl : ∀ l ∈ ls, ∀ h, indexableHint cfg l = some h → hintMatch h r = evalLeaf cfg r.body l :=
          fun l hl => hag l (mem_topLeaves_of_leaf (g := .mk false ls ss) hl)
        have := firstIndexable_spec cfg (evalLeaf cfg r.body) (fun h => hintMatch h r) ls h rest hl hf
        rw [evalGroup_mk, evalGroup_mk, combine_and, combine_and, List.all_append, List.all_append, this, Bool.and_assoc]
      | none =>
        simp only []
        cases hu : firstUnionSub cfg ss with
        | none => simp [planMatches]
        | some p =>
          obtain ⟨hs, rest⟩ := p
          simp only [planMatches]
          have hsub : ∀ s ∈ ss, LegsAgree cfg r s.leaves :=
            fun s hs l hl => hag l (mem_topLeaves_of_sub (g := .mk false ls ss) hs hl)
          have := firstUnionSub_spec cfg hb r ss hs rest hsub hu
          rw [evalGroup_mk, evalGroup_mk, combine_and, combine_and, List.all_append, List.all_append, this]
          cases (hs.any fun h => hintMatch h r) <;> simp
    · simp only [if_true]
      exact planOr_sound cfg hb r g hor (fun l hl => hag l (mem_topLeaves_of_leaf hl))
  · simp [planMatches]


/-! ### C. legs -/

/-- on a path without `[*]` / `#len` segments both extractors walk the same way -/
theorem extractG_plain : ∀ (path : Path) (cur : Value), path.any Seg.isSpecial = false →
    extractG cur path = .one (extractB cur path) := by
  intro path
  induction path with
  | nil => intro cur _; simp [extractG, extractB]
  | cons p rest ih =>
    intro cur hp
    simp only [List.any_cons, Bool.or_eq_false_iff] at hp
    cases p with
    | field n =>
      cases cur <;> simp only [extractG, extractB, Seg.text]
      rename_i fs
      cases lookup n fs with
      | none => rfl
      | some v => exact ih v hp.2
    | len => simp [Seg.isSpecial] at hp
    | wild n => simp [Seg.isSpecial] at hp

theorem keyEq_null_left (k : Key) : keyEq .null k = true → k = .null := by
  cases k <;> simp [keyEq]

theorem cvKey_ne_null (cv : CV) (k : Key) (h : cvKey cv = some k) : k ≠ .null := by
  cases cv <;> simp [cvKey] at h <;> subst h <;> simp

/-- the facts under which a bucket hint and its leg decide alike -/
def legGoodB (cfg : Cfg) : Bool :=
  cfg.scanEqCanonical && cfg.excludesSpecialPaths && cfg.indexableOps.all (fun o => o == .eq || o.isIn)

/-- **Leg agreement.**  With canonical equality on the scan route, special paths never hinted and
    only EQUAL / …_IN hinted: every hint matches exactly the records its leg matches. -/
theorem leg_agree (cfg : Cfg) (hg : legGoodB cfg = true) (l : Leaf) (h : Hint)
    (hi : indexableHint cfg l = some h) (r : Rec) : hintMatch h r = evalLeaf cfg r.body l := by
  simp only [legGoodB, Bool.and_eq_true, List.all_eq_true] at hg
  obtain ⟨⟨hcanon, hexcl⟩, hops⟩ := hg
  unfold indexableHint at hi
  by_cases hpe : l.path.isEmpty = true
  · simp [hpe] at hi
  · simp only [hpe, Bool.false_eq_true, if_false, hexcl, Bool.true_and] at hi
    by_cases hsp : l.path.any Seg.isSpecial = true
    · simp [hsp] at hi
    · simp only [hsp, Bool.false_eq_true, if_false] at hi
      have hplain : l.path.any Seg.isSpecial = false := by simpa using hsp
      by_cases hmem : cfg.indexableOps.contains l.op = true
      · simp only [hmem, Bool.not_true, Bool.false_eq_true, if_false] at hi
        have hop := hops l.op (by simpa using hmem)
        -- the value the two sides look at
        have hext : ∀ b, extractG b l.path = .one (extractB b l.path) := fun b => extractG_plain l.path b hplain
        cases hb : r.body with
        | none =>
          -- no body: the bucket files the record under null, the scan route only grants IS_EMPTY
          have hne : (l.op == Op.isEmpty) = false := by
            cases hl : l.op <;> simp [hl, Op.isIn] at hop ⊢
          simp only [evalLeaf, hne]
          cases hl : l.op <;> simp only [hl] at hi hop <;>
            first
            | (simp [Op.isIn] at hop; done)
            | (by_cases hv : l.strVals.isEmpty = true
               · simp [hv] at hi
               · simp only [hv, Bool.false_eq_true, if_false, Option.some.injEq] at hi
                 subst hi
                 simp [hintMatch, bucketKey, hb, keyEq])
            | (by_cases hv : l.intVals.isEmpty = true
               · simp [hv] at hi
               · simp only [hv, Bool.false_eq_true, if_false, Option.some.injEq] at hi
                 subst hi
                 simp [hintMatch, bucketKey, hb, keyEq])
            | (cases hk : cvKey l.cv with
               | none => simp [hk] at hi
               | some k =>
                 simp only [hk, Option.some.injEq] at hi
                 subst hi
                 have := cvKey_ne_null l.cv k hk
                 cases k <;> simp_all [hintMatch, bucketKey, keyEq])
        | some b =>
          simp only [evalLeaf, evalLeafBody, hext b, hcanon, if_true, Bool.true_and]
          cases hl : l.op <;> simp only [hl] at hi hop <;>
            first
            | (simp [Op.isIn] at hop; done)
            | (by_cases hv : l.strVals.isEmpty = true
               · simp [hv] at hi
               · simp only [hv, Bool.false_eq_true, if_false, Option.some.injEq] at hi
                 subst hi
                 simp [hintMatch, bucketKey, hb, canonMatch, hl, List.any_map, Function.comp_def])
            | (by_cases hv : l.intVals.isEmpty = true
               · simp [hv] at hi
               · simp only [hv, Bool.false_eq_true, if_false, Option.some.injEq] at hi
                 subst hi
                 simp [hintMatch, bucketKey, hb, canonMatch, hl, List.any_map, Function.comp_def])
            | (cases hk : cvKey l.cv with
               | none => simp [hk] at hi
               | some k =>
                 simp only [hk, Option.some.injEq] at hi
                 subst hi
                 have hnn := cvKey_ne_null l.cv k hk
                 simp only [hintMatch, bucketKey, hb, List.any_cons, List.any_nil, Bool.or_false, canonMatch, hl, hk,
                   beq_self_eq_true, if_true]
                 cases hv : extractB b l.path <;> simp [Value.isNil, canon] <;>
                   (cases k <;> simp_all [keyEq]))
      · have hf : cfg.indexableOps.contains l.op = false := by simpa using hmem
        rw [hf] at hi
        simp at hi

end Hv.Query
