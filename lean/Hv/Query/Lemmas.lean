/-
  Lemmas about the query model: group evaluation, the planner, plain paths, canonical equality,
  insertion sort vs. filtering.  The property theorems are in `Hv/Props/C08.lean`.
-/
import Hv.Query.Routes

set_option linter.unusedSimpArgs false

namespace Hv.Query

/-! ### A. groups -/

theorem evalMetas_fst (f : Leaf → Bool) (ss : List Group) :
    (evalMetas f ss).map (·.1) = ss.map (evalGroup f) := by
  induction ss with
  | nil => simp [evalMetas]
  | cons s rest ih => simp [evalMetas, evalGroup, ih]

/-- the verdict of a group is the combination of the verdicts of its members -/
theorem evalGroup_mk (f : Leaf → Bool) (o : Bool) (ls : List Leaf) (ss : List Group) :
    evalGroup f (.mk o ls ss) = combine o (ls.map f ++ ss.map (evalGroup f)) := by
  simp only [evalGroup, evalMeta, List.map_append, List.map_map, evalMetas_fst]
  rfl

theorem combine_and (ms : List Bool) : combine false ms = ms.all id := by
  unfold combine
  cases ms <;> simp

theorem combine_or_ne (ms : List Bool) (h : ms ≠ []) : combine true ms = ms.any id := by
  unfold combine
  cases ms with
  | nil => exact absurd rfl h
  | cons a as => simp

/-! ### B. planner -/

/-- every hint the planner can use matches exactly when its leg does, for this record -/
def LegsAgree (cfg : Cfg) (r : Rec) (ls : List Leaf) : Prop :=
  ∀ l ∈ ls, ∀ h, indexableHint cfg l = some h → hintMatch h r = evalLeaf cfg r.body l

theorem firstIndexable_spec (cfg : Cfg) (f : Leaf → Bool) (g : Hint → Bool) :
    ∀ (ls : List Leaf) (h : Hint) (rest : List Leaf),
      (∀ l ∈ ls, ∀ h, indexableHint cfg l = some h → g h = f l) →
      firstIndexable cfg ls = some (h, rest) →
      (ls.map f).all id = (g h && (rest.map f).all id) := by
  intro ls
  induction ls with
  | nil => intro h rest _ he; simp [firstIndexable] at he
  | cons l tl ih =>
    intro h rest hag he
    simp only [firstIndexable] at he
    cases hi : indexableHint cfg l with
    | some h0 =>
      simp only [hi, Option.some.injEq, Prod.mk.injEq] at he
      obtain ⟨rfl, rfl⟩ := he
      have := hag l (by simp) h0 hi
      simp [this]
    | none =>
      simp only [hi] at he
      cases hr : firstIndexable cfg tl with
      | none => simp [hr] at he
      | some p =>
        obtain ⟨h1, rest1⟩ := p
        simp only [hr, Option.some.injEq, Prod.mk.injEq] at he
        obtain ⟨rfl, rfl⟩ := he
        have := ih h1 rest1 (fun l hl => hag l (by simp [hl])) hr
        simp only [List.map_cons, List.all_cons, id] at this ⊢
        rw [this]
        cases f l <;> cases g h1 <;> simp

theorem allHints_spec (cfg : Cfg) (f : Leaf → Bool) (g : Hint → Bool) :
    ∀ (ls : List Leaf) (hs : List Hint),
      (∀ l ∈ ls, ∀ h, indexableHint cfg l = some h → g h = f l) →
      allHints cfg ls = some hs →
      hs.any g = (ls.map f).any id ∧ hs.length = ls.length := by
  intro ls
  induction ls with
  | nil => intro hs _ he; simp [allHints] at he; subst he; simp
  | cons l tl ih =>
    intro hs hag he
    simp only [allHints] at he
    cases hi : indexableHint cfg l with
    | none => simp [hi] at he
    | some h0 =>
      cases hr : allHints cfg tl with
      | none => simp [hi, hr] at he
      | some hs0 =>
        simp only [hi, hr, Option.some.injEq] at he
        subst he
        obtain ⟨e1, e2⟩ := ih hs0 (fun l hl => hag l (by simp [hl])) hr
        have := hag l (by simp) h0 hi
        simp [this, e1, e2]


/-- does the plan select record `r`? (`g` is the filter the plan was made for) -/
def planMatches (cfg : Cfg) (r : Rec) (g : Group) : Plan → Bool
  | .bypass => evalGroup (evalLeaf cfg r.body) g
  | .and hs res => hs.any (fun h => hintMatch h r) && evalGroup (evalLeaf cfg r.body) res
  | .orUnion hs => hs.any (fun h => hintMatch h r)

/-- the leaves the planner may turn into hints: those of the group and of its direct sub-groups -/
def topLeaves (g : Group) : List Leaf := g.leaves ++ g.subs.flatMap (·.leaves)

theorem planOr_sound (cfg : Cfg) (hb : cfg.planOrBypassOnSubGroups = true) (r : Rec) (g : Group)
    (hor : g.isOr = true) (hag : LegsAgree cfg r g.leaves) :
    planMatches cfg r g (planOr cfg g) = evalGroup (evalLeaf cfg r.body) g := by
  obtain ⟨o, ls, ss⟩ := g
  simp only [Group.isOr] at hor
  subst hor
  simp only [Group.leaves] at hag
  unfold planOr
  simp only [hb, Bool.true_and, Group.subs, Group.leaves]
  cases hss : ss.isEmpty
  · simp [planMatches]
  · have : ss = [] := by simpa using hss
    subst this
    simp only [Bool.not_true, Bool.false_eq_true, if_false]
    cases hh : allHints cfg ls with
    | none => simp [planMatches]
    | some hs =>
      simp only []
      cases hem : hs.isEmpty
      · simp only [Bool.false_eq_true, if_false, planMatches]
        obtain ⟨e1, e2⟩ := allHints_spec cfg (evalLeaf cfg r.body) (fun h => hintMatch h r) ls hs hag hh
        rw [e1, evalGroup_mk, List.map_nil, List.append_nil, combine_or_ne]
        intro hnil
        have : ls = [] := by simpa using hnil
        rw [this] at e2
        have : hs = [] := List.eq_nil_of_length_eq_zero (by simpa using e2)
        rw [this] at hem; simp at hem
      · simp [planMatches]

theorem unionOf_spec (cfg : Cfg) (hb : cfg.planOrBypassOnSubGroups = true) (r : Rec) (s : Group) (hs : List Hint)
    (hag : LegsAgree cfg r s.leaves) (hu : unionOf cfg s = some hs) :
    hs.any (fun h => hintMatch h r) = evalGroup (evalLeaf cfg r.body) s := by
  unfold unionOf at hu
  by_cases hgate : (s.isEmpty || !s.isOr) = true
  · simp [hgate] at hu
  · simp only [hgate, if_false] at hu
    have hsor : s.isOr = true := by
      cases h1 : s.isOr
      · simp [h1] at hgate
      · rfl
    have := planOr_sound cfg hb r s hsor hag
    cases hp : planOr cfg s with
    | orUnion hs0 =>
      simp only [hp, Bool.false_eq_true, if_false, Option.some.injEq] at hu
      subst hu
      rw [hp] at this
      simpa [planMatches] using this
    | bypass => simp [hp] at hu
    | and a b => simp [hp] at hu

theorem firstUnionSub_spec (cfg : Cfg) (hb : cfg.planOrBypassOnSubGroups = true) (r : Rec) :
    ∀ (ss : List Group) (hs : List Hint) (rest : List Group),
      (∀ s ∈ ss, LegsAgree cfg r s.leaves) →
      firstUnionSub cfg ss = some (hs, rest) →
      (ss.map (evalGroup (evalLeaf cfg r.body))).all id =
        (hs.any (fun h => hintMatch h r) && (rest.map (evalGroup (evalLeaf cfg r.body))).all id) := by
  intro ss
  induction ss with
  | nil => intro hs rest _ he; simp [firstUnionSub] at he
  | cons s tl ih =>
    intro hs rest hag he
    simp only [firstUnionSub] at he
    cases hu : unionOf cfg s with
    | some hs0 =>
      simp only [hu, Option.some.injEq, Prod.mk.injEq] at he
      obtain ⟨e1, e2⟩ := he
      subst e1; subst e2
      have := unionOf_spec cfg hb r s hs0 (hag s (by simp)) hu
      simp [this]
    | none =>
      simp only [hu] at he
      cases hr : firstUnionSub cfg tl with
      | none => simp [hr] at he
      | some p =>
        obtain ⟨h1, rest1⟩ := p
        simp only [hr, Option.some.injEq, Prod.mk.injEq] at he
        obtain ⟨e1, e2⟩ := he
        subst e1; subst e2
        have := ih h1 rest1 (fun s hs => hag s (by simp [hs])) hr
        simp only [List.map_cons, List.all_cons, id] at this ⊢
        rw [this]
        cases evalGroup (evalLeaf cfg r.body) s <;> cases (h1.any fun h => hintMatch h r) <;> simp

theorem mem_topLeaves_of_leaf {g : Group} {l : Leaf} (h : l ∈ g.leaves) : l ∈ topLeaves g := by
  simp [topLeaves, h]

theorem mem_topLeaves_of_sub {g s : Group} {l : Leaf} (hs : s ∈ g.subs) (h : l ∈ s.leaves) : l ∈ topLeaves g := by
  simp only [topLeaves, List.mem_append, List.mem_flatMap]
  exact Or.inr ⟨s, hs, h⟩

/-- **Planner soundness.**  For every filter tree and every record: if each hint the planner can
    emit for this tree matches the record exactly when its leg does, then the plan selects the
    record exactly when the filter does — AND plans (indexed leg ∧ residual; or OR-union sub-group
    ∧ residual) and OR-union plans alike. -/
theorem planner_sound (cfg : Cfg) (hb : cfg.planOrBypassOnSubGroups = true) (r : Rec) (g : Group)
    (hag : LegsAgree cfg r (topLeaves g)) :
    planMatches cfg r g (planFilter cfg g) = evalGroup (evalLeaf cfg r.body) g := by
  unfold planFilter
  cases hem : g.isEmpty
  · simp only [Bool.false_eq_true, if_false]
    cases hor : g.isOr
    · -- AND
      simp only [Bool.false_eq_true, if_false]
      obtain ⟨o, ls, ss⟩ := g
      simp only [Group.isOr] at hor
      subst hor
      unfold planAnd
      simp only [Group.leaves, Group.subs, Group.isOr]
      cases hf : firstIndexable cfg ls with
      | some p =>
        obtain ⟨h, rest⟩ := p
        simp only [planMatches, List.any_cons, List.any_nil, Bool.or_false]
        have hl : ∀ l ∈ ls, ∀ h, indexableHint cfg l = some h → hintMatch h r = evalLeaf cfg r.body l :=
          fun l hl => hag l (mem_topLeaves_of_leaf (g := .mk false ls ss) hl)
        have := firstIndexable_spec cfg (evalLeaf cfg r.body) (fun h => hintMatch h r) ls h rest hl hf
        rw [evalGroup_mk, evalGroup_mk, combine_and, combine_and, List.all_append, List.all_append, this, Bool.and_assoc]
      | none =>
        simp only []
        cases hu : firstUnionSub cfg ss with
        | none => simp [planMatches]
        | some p =>
          obtain ⟨hs, rest⟩ := p
          simp only [planMatches]
          have hsub : ∀ s ∈ ss, LegsAgree cfg r s.leaves :=
            fun s hs l hl => hag l (mem_topLeaves_of_sub (g := .mk false ls ss) hs hl)
          have := firstUnionSub_spec cfg hb r ss hs rest hsub hu
          rw [evalGroup_mk, evalGroup_mk, combine_and, combine_and, List.all_append, List.all_append, this]
          cases (hs.any fun h => hintMatch h r) <;> simp
    · simp only [if_true]
      exact planOr_sound cfg hb r g hor (fun l hl => hag l (mem_topLeaves_of_leaf hl))
  · simp [planMatches]


/-! ### C. legs -/

/-- on a path without `[*]` / `#len` segments both extractors walk the same way -/
theorem extractG_plain : ∀ (path : Path) (cur : Value), path.any Seg.isSpecial = false →
    extractG cur path = .one (extractB cur path) := by
  intro path
  induction path with
  | nil => intro cur _; simp [extractG, extractB]
  | cons p rest ih =>
    intro cur hp
    simp only [List.any_cons, Bool.or_eq_false_iff] at hp
    cases p with
    | field n =>
      cases cur <;> simp only [extractG, extractB, Seg.text]
      rename_i fs
      cases lookup n fs with
      | none => rfl
      | some v => exact ih v hp.2
    | len => simp [Seg.isSpecial] at hp
    | wild n => simp [Seg.isSpecial] at hp

theorem keyEq_null_left (k : Key) : keyEq .null k = true → k = .null := by
  cases k <;> simp [keyEq]

theorem cvKey_ne_null (cv : CV) (k : Key) (h : cvKey cv = some k) : k ≠ .null := by
  cases cv <;> simp [cvKey] at h <;> subst h <;> simp

/-- the facts under which a bucket hint and its leg decide alike -/
def legGoodB (cfg : Cfg) : Bool :=
  cfg.scanEqCanonical && cfg.excludesSpecialPaths && cfg.indexableOps.all (fun o => o == .eq || o.isIn)

/-- **Leg agreement.**  With canonical equality on the scan route, special paths never hinted and
    only EQUAL / …_IN hinted: every hint matches exactly the records its leg matches. -/
theorem leg_agree (cfg : Cfg) (hg : legGoodB cfg = true) (l : Leaf) (h : Hint)
    (hi : indexableHint cfg l = some h) (r : Rec) : hintMatch h r = evalLeaf cfg r.body l := by
  simp only [legGoodB, Bool.and_eq_true, List.all_eq_true] at hg
  obtain ⟨⟨hcanon, hexcl⟩, hops⟩ := hg
  unfold indexableHint at hi
  by_cases hpe : l.path.isEmpty = true
  · simp [hpe] at hi
  · simp only [hpe, Bool.false_eq_true, if_false, hexcl, Bool.true_and] at hi
    by_cases hsp : l.path.any Seg.isSpecial = true
    · simp [hsp] at hi
    · simp only [hsp, Bool.false_eq_true, if_false] at hi
      have hplain : l.path.any Seg.isSpecial = false := by simpa using hsp
      by_cases hmem : cfg.indexableOps.contains l.op = true
      · simp only [hmem, Bool.not_true, Bool.false_eq_true, if_false] at hi
        have hop := hops l.op (by simpa using hmem)
        -- the value the two sides look at
        have hext : ∀ b, extractG b l.path = .one (extractB b l.path) := fun b => extractG_plain l.path b hplain
        cases hb : r.body with
        | none =>
          -- no body: the bucket files the record under null, the scan route only grants IS_EMPTY
          have hne : (l.op == Op.isEmpty) = false := by
            cases hl : l.op <;> simp [hl, Op.isIn] at hop ⊢
          simp only [evalLeaf, hne]
          cases hl : l.op <;> simp only [hl] at hi hop <;>
            first
            | (simp [Op.isIn] at hop; done)
            | (by_cases hv : l.strVals.isEmpty = true
               · simp [hv] at hi
               · simp only [hv, Bool.false_eq_true, if_false, Option.some.injEq] at hi
                 subst hi
                 simp [hintMatch, bucketKey, hb, keyEq])
            | (by_cases hv : l.intVals.isEmpty = true
               · simp [hv] at hi
               · simp only [hv, Bool.false_eq_true, if_false, Option.some.injEq] at hi
                 subst hi
                 simp [hintMatch, bucketKey, hb, keyEq])
            | (cases hk : cvKey l.cv with
               | none => simp [hk] at hi
               | some k =>
                 simp only [hk, Option.some.injEq] at hi
                 subst hi
                 have := cvKey_ne_null l.cv k hk
                 cases k <;> simp_all [hintMatch, bucketKey, keyEq])
        | some b =>
          simp only [evalLeaf, evalLeafBody, hext b, hcanon, if_true, Bool.true_and]
          cases hl : l.op <;> simp only [hl] at hi hop <;>
            first
            | (simp [Op.isIn] at hop; done)
            | (by_cases hv : l.strVals.isEmpty = true
               · simp [hv] at hi
               · simp only [hv, Bool.false_eq_true, if_false, Option.some.injEq] at hi
                 subst hi
                 simp [hintMatch, bucketKey, hb, canonMatch, hl, List.any_map, Function.comp_def])
            | (by_cases hv : l.intVals.isEmpty = true
               · simp [hv] at hi
               · simp only [hv, Bool.false_eq_true, if_false, Option.some.injEq] at hi
                 subst hi
                 simp [hintMatch, bucketKey, hb, canonMatch, hl, List.any_map, Function.comp_def])
            | (cases hk : cvKey l.cv with
               | none => simp [hk] at hi
               | some k =>
                 simp only [hk, Option.some.injEq] at hi
                 subst hi
                 have hnn := cvKey_ne_null l.cv k hk
                 simp only [hintMatch, bucketKey, hb, List.any_cons, List.any_nil, Bool.or_false, canonMatch, hl, hk,
                   beq_self_eq_true, if_true]
                 cases hv : extractB b l.path <;> simp [Value.isNil, canon] <;>
                   (cases k <;> simp_all [keyEq]))
      · have hf : cfg.indexableOps.contains l.op = false := by simpa using hmem
        rw [hf] at hi
        simp at hi


/-! ### D. sorting commutes with filtering -/

theorem insertBy_perm {α : Type} (lt : α → α → Bool) (x : α) (l : List α) : (insertBy lt x l).Perm (x :: l) := by
  induction l with
  | nil => exact List.Perm.refl _
  | cons y ys ih =>
    simp only [insertBy]
    split
    · exact List.Perm.refl _
    · exact (List.Perm.cons y ih).trans (List.Perm.swap x y ys)

theorem isort_perm {α : Type} (lt : α → α → Bool) (l : List α) : (isort lt l).Perm l := by
  induction l with
  | nil => exact List.Perm.refl _
  | cons x xs ih => exact (insertBy_perm lt x _).trans (List.Perm.cons x ih)

/-- a strict weak order, as two Boolean laws -/
structure SWO {α : Type} (lt : α → α → Bool) : Prop where
  asym : ∀ a b, lt a b = true → lt b a = false
  /-- "not greater" is transitive -/
  ntrans : ∀ a b c, lt b a = false → lt c b = false → lt c a = false

theorem insertBy_sorted {α : Type} (lt : α → α → Bool) (h : SWO lt) (x : α) (l : List α)
    (hs : l.Pairwise (fun a b => lt b a = false)) : (insertBy lt x l).Pairwise (fun a b => lt b a = false) := by
  induction l with
  | nil => simp [insertBy]
  | cons y ys ih =>
    rw [List.pairwise_cons] at hs
    simp only [insertBy]
    cases hxy : lt x y
    · simp only [Bool.false_eq_true, if_false]
      rw [List.pairwise_cons]
      refine ⟨?_, ih hs.2⟩
      intro z hz
      rcases List.mem_cons.mp ((insertBy_perm lt x ys).mem_iff.mp hz) with rfl | hz'
      · exact hxy
      · exact hs.1 z hz'
    · simp only [if_true]
      rw [List.pairwise_cons]
      refine ⟨?_, List.pairwise_cons.mpr hs⟩
      intro z hz
      rcases List.mem_cons.mp hz with rfl | hz'
      · exact h.asym _ _ hxy
      · exact h.ntrans x y z (h.asym _ _ hxy) (hs.1 z hz')

theorem isort_sorted {α : Type} (lt : α → α → Bool) (h : SWO lt) (l : List α) :
    (isort lt l).Pairwise (fun a b => lt b a = false) := by
  induction l with
  | nil => simp [isort]
  | cons x xs ih => exact insertBy_sorted lt h x _ ih

/-- inserting in front of a sorted list whose head is already greater -/
theorem insertBy_front {α : Type} (lt : α → α → Bool) (x : α) (l : List α) (h : ∀ z ∈ l, lt x z = true) :
    insertBy lt x l = x :: l := by
  cases l with
  | nil => rfl
  | cons y ys => simp [insertBy, h y (by simp)]

theorem filter_insertBy {α : Type} (lt : α → α → Bool) (h : SWO lt) (p : α → Bool) (x : α) (l : List α)
    (hs : l.Pairwise (fun a b => lt b a = false)) :
    (insertBy lt x l).filter p = if p x then insertBy lt x (l.filter p) else l.filter p := by
  induction l with
  | nil => cases hp : p x <;> simp [insertBy, hp]
  | cons y ys ih =>
    rw [List.pairwise_cons] at hs
    have ih' := ih hs.2
    simp only [insertBy]
    cases hxy : lt x y
    · -- x goes somewhere after y
      simp only [Bool.false_eq_true, if_false, List.filter_cons]
      cases hpy : p y
      · simp only [Bool.false_eq_true, if_false]
        exact ih'
      · simp only [if_true]
        rw [ih']
        cases hpx : p x
        · simp
        · simp only [if_true, insertBy, hxy, Bool.false_eq_true, if_false]
    · -- x goes in front: everything in the list is greater than x
      simp only [if_true]
      have hall : ∀ z ∈ y :: ys, lt x z = true := by
        intro z hz
        rcases List.mem_cons.mp hz with rfl | hz'
        · exact hxy
        · -- ¬(z < y) and x < y, so x < z
          cases hxz : lt x z
          · have := h.ntrans y z x (hs.1 z hz') hxz
            rw [hxy] at this; cases this
          · rfl
      cases hpx : p x
      · simp [List.filter_cons, hpx]
      · simp only [List.filter_cons, hpx, if_true]
        symm
        have : (if p y = true then y :: List.filter p ys else List.filter p ys) = (y :: ys).filter p := by
          simp [List.filter_cons]
        rw [this]
        apply insertBy_front
        intro z hz
        exact hall z (List.mem_filter.mp hz).1

/-- insertion sort under a strict weak order commutes with filtering (it is stable) -/
theorem isort_filter {α : Type} (lt : α → α → Bool) (h : SWO lt) (p : α → Bool) (l : List α) :
    isort lt (l.filter p) = (isort lt l).filter p := by
  induction l with
  | nil => rfl
  | cons x xs ih =>
    simp only [List.filter_cons, isort]
    rw [filter_insertBy lt h p x _ (isort_sorted lt h xs)]
    cases hpx : p x
    · simp [ih]
    · simp [isort, ih]

/-- timestamp first (in the requested direction), key second -/
def lexB (asc : Bool) (x : Int) (k : String) (y : Int) (k' : String) : Bool :=
  (if asc then decide (x < y) else decide (y < x)) || (x == y && decide (k < k'))

theorem lexB_asym (asc : Bool) (x y : Int) (k k' : String) : lexB asc x k y k' = true → lexB asc y k' x k = false := by
  cases asc <;>
    simp only [lexB, Bool.false_eq_true, if_false, if_true, Bool.or_eq_true, Bool.and_eq_true, decide_eq_true_eq,
      beq_iff_eq, Bool.or_eq_false_iff, Bool.and_eq_false_iff, decide_eq_false_iff_not, beq_eq_false_iff_ne, ne_eq] <;>
    (intro h
     rcases h with h | ⟨h1, h2⟩
     · exact ⟨by omega, Or.inl (by omega)⟩
     · exact ⟨by omega, Or.inr (String.lt_asymm h2)⟩)

theorem lexB_ntrans (asc : Bool) (x y z : Int) (k k' k'' : String) :
    lexB asc y k' x k = false → lexB asc z k'' y k' = false → lexB asc z k'' x k = false := by
  cases asc <;>
    simp only [lexB, Bool.false_eq_true, if_false, if_true, Bool.or_eq_false_iff, Bool.and_eq_false_iff,
      decide_eq_false_iff_not, beq_iff_eq, beq_eq_false_iff_ne, ne_eq] <;>
    (intro h1 h2
     obtain ⟨a1, a2⟩ := h1
     obtain ⟨b1, b2⟩ := h2
     refine ⟨by omega, ?_⟩
     by_cases hzx : z = x
     · right
       have hy : y = x := by omega
       rcases a2 with a2 | a2
       · exact absurd hy a2
       · rcases b2 with b2 | b2
         · exact absurd (by omega) b2
         · exact String.not_lt.mpr (String.le_trans (String.not_lt.mp a2) (String.not_lt.mp b2))
     · exact Or.inl hzx)

theorem recLt_eq_lexB (s : Slot) (hs : s ≠ .key) (asc : Bool) (a b : Rec) :
    recLt s asc a b = lexB asc (ts s a) a.key (ts s b) b.key := by
  cases s <;> first | exact absurd rfl hs | (cases asc <;> simp [recLt, lexB])

theorem recLt_swo (s : Slot) (asc : Bool) : SWO (recLt s asc) := by
  by_cases hs : s = .key
  · subst hs
    constructor
    · intro a b
      cases asc <;> simp only [recLt, Bool.false_eq_true, if_false, if_true, decide_eq_true_eq, decide_eq_false_iff_not] <;>
        exact String.lt_asymm
    · intro a b c
      cases asc <;> simp only [recLt, Bool.false_eq_true, if_false, if_true, decide_eq_false_iff_not]
      · intro h1 h2; exact String.not_lt.mpr (String.le_trans (String.not_lt.mp h2) (String.not_lt.mp h1))
      · intro h1 h2; exact String.not_lt.mpr (String.le_trans (String.not_lt.mp h1) (String.not_lt.mp h2))
  · constructor
    · intro a b; rw [recLt_eq_lexB s hs, recLt_eq_lexB s hs]; exact lexB_asym asc _ _ _ _
    · intro a b c; rw [recLt_eq_lexB s hs, recLt_eq_lexB s hs, recLt_eq_lexB s hs]; exact lexB_ntrans asc _ _ _ _ _ _

theorem sortRecs_filter (s : Slot) (asc : Bool) (p : Rec → Bool) (l : List Rec) :
    sortRecs s asc (l.filter p) = (sortRecs s asc l).filter p :=
  isort_filter _ (recLt_swo s asc) p l


/-! ### E. the two routes -/

def passOf (cfg : Cfg) (g : Option Group) (r : Rec) : Bool :=
  match g with | some g => evalGroup (evalLeaf cfg r.body) g | none => true

def labOf (cfg : Cfg) (g : Option Group) (r : Rec) : List String :=
  match g with
  | some g => if g.hasLabels then labelsOf (evalLeaf cfg r.body) g else []
  | none => []

theorem emit_eq (cfg : Cfg) (g lg : Option Group) (m : Nat) (rows : List Rec) :
    emit cfg g lg m rows = capMax m ((rows.filter (passOf cfg g)).map (fun r => (r.key, labOf cfg lg r))) := rfl

theorem ite_filter {α : Type} (c : Bool) (p : α → Bool) (l : List α) :
    (if c = true then l.filter p else l) = l.filter (fun r => !c || p r) := by
  cases c
  · simp only [Bool.false_eq_true, if_false, Bool.not_false, Bool.true_or]
    exact (List.filter_eq_self.mpr (fun _ _ => rfl)).symm
  · simp

theorem candidates_eq (cfg : Cfg) (h1 : cfg.lookupInDedupes = true) (h2 : cfg.unionDedupes = true)
    (store : List Rec) (hints : List Hint) :
    candidates cfg store hints = store.filter (fun r => hints.any (fun h => hintMatch h r)) := by
  match hints with
  | [] => simp [candidates]
  | [h] => simp [candidates, lookupHint, h1]
  | h :: h' :: hs => simp [candidates, h2]

theorem pageOf_zero {α : Type} (l : List α) : pageOf 0 0 l = l := by simp [pageOf]

theorem capMax_map {α β : Type} (f : α → β) (m : Nat) (l : List α) : (capMax m l).map f = capMax m (l.map f) := by
  unfold capMax; split <;> simp [List.map_take]

theorem pageOf_map {α β : Type} (f : α → β) (a b : Nat) (l : List α) : (pageOf a b l).map f = pageOf a b (l.map f) := by
  unfold pageOf; split <;> simp [List.map_take, List.map_drop]

/-- what the query asks of the two routes' shared machinery, as hypotheses:
    paging on the same side of the predicate (or no paging), the ordering attribute checked (or
    carried by every record), the window treated alike (or no window / not the key index) -/
structure Aligned (cfg : Cfg) (store : List Rec) (q : Query) : Prop where
  dedupIn : cfg.lookupInDedupes = true
  dedupUnion : cfg.unionDedupes = true
  paging : (cfg.bucketPagingAfterFilter = true ∧ cfg.scanPagingAfterFilter = true) ∨
           (cfg.bucketPagingAfterFilter = false ∧ cfg.scanPagingAfterFilter = false ∧ q.from_ = 0 ∧ q.limit = 0)
  attr : cfg.bucketChecksAttr = true ∨ ∀ r ∈ store, carries q.slot r = true
  window : cfg.bucketWindowTimeOnly = true ∨ q.slot ≠ .key ∨ hasWindow q = false

theorem inWindow_of_noWindow (q : Query) (h : hasWindow q = false) (r : Rec) : inWindow q r = true := by
  simp only [hasWindow, Bool.or_eq_false_iff] at h
  have h1 : q.fromT = none := by cases hq : q.fromT <;> simp_all
  have h2 : q.toT = none := by cases hq : q.toT <;> simp_all
  simp [inWindow, h1, h2]

/-- the rows that survive the predicate are the same on both routes -/
theorem rows_agree (cfg : Cfg) (store : List Rec) (q : Query) (g : Group) (hints : List Hint) (residual : Option Group)
    (ha : Aligned cfg store q)
    (hsound : ∀ r ∈ store, (hints.any (fun h => hintMatch h r) && passOf cfg residual r) = evalGroup (evalLeaf cfg r.body) g) :
    let c0 := candidates cfg store hints
    let c1 := if cfg.bucketChecksAttr then c0.filter (carries q.slot) else c0
    let c2 := if hasWindow q && (!cfg.bucketWindowTimeOnly || q.slot != .key) then c1.filter (inWindow q) else c1
    (sortRecs q.slot q.asc c2).filter (passOf cfg residual) =
      (indexRead q store).filter (passOf cfg (some g)) := by
  intro c0 c1 c2
  have hc0 : c0 = store.filter (fun r => hints.any (fun h => hintMatch h r)) := candidates_eq cfg ha.dedupIn ha.dedupUnion store hints
  have hc1 : c1 = c0.filter (fun r => !cfg.bucketChecksAttr || carries q.slot r) := ite_filter _ _ _
  have hc2 : c2 = c1.filter (fun r => !(hasWindow q && (!cfg.bucketWindowTimeOnly || q.slot != .key)) || inWindow q r) :=
    ite_filter _ _ _
  have hir : indexRead q store =
      ((sortRecs q.slot q.asc store).filter (carries q.slot)).filter (fun r => !(q.slot != .key) || inWindow q r) := by
    unfold indexRead
    simp only []
    rw [sortRecs_filter]
    exact ite_filter _ _ _
  rw [hc2, hc1, hc0, hir, sortRecs_filter, sortRecs_filter, sortRecs_filter]
  simp only [List.filter_filter]
  apply List.filter_congr
  intro r hr
  have hrs : r ∈ store := (isort_perm _ store).mem_iff.mp hr
  have hs := hsound r hrs
  simp only [passOf] at hs ⊢
  rw [← hs]
  -- attribute
  have hattr : (!cfg.bucketChecksAttr || carries q.slot r) = carries q.slot r := by
    rcases ha.attr with h | h
    · simp [h]
    · simp [h r hrs]
  -- window
  have hwin : (!(hasWindow q && (!cfg.bucketWindowTimeOnly || q.slot != .key)) || inWindow q r) =
      (!(q.slot != .key) || inWindow q r) := by
    by_cases hk : q.slot = .key
    · rcases ha.window with h | h | h
      · simp [hk, h]
      · exact absurd hk h
      · simp [hk, h]
    · have : (q.slot != Slot.key) = true := by simpa using hk
      simp only [this, Bool.or_true, Bool.and_true, Bool.not_true, Bool.false_or]
      cases hw : hasWindow q
      · simp [inWindow_of_noWindow q hw r]
      · simp
  rw [hattr, hwin]
  cases (hints.any fun h => hintMatch h r) <;> cases carries q.slot r <;> cases (!(q.slot != Slot.key) || inWindow q r) <;>
    cases (match residual with | some g => evalGroup (evalLeaf cfg r.body) g | none => true) <;> rfl


/-- the candidate rows of the bucket route, ordered (before offset / limit / residual) -/
def rowsB (cfg : Cfg) (store : List Rec) (q : Query) (hints : List Hint) : List Rec :=
  let c0 := candidates cfg store hints
  let c1 := if cfg.bucketChecksAttr then c0.filter (carries q.slot) else c0
  let c2 := if hasWindow q && (!cfg.bucketWindowTimeOnly || q.slot != .key) then c1.filter (inWindow q) else c1
  sortRecs q.slot q.asc c2

theorem filter_passNone (cfg : Cfg) (l : List Rec) : l.filter (passOf cfg none) = l := by
  rw [List.filter_eq_self]; intro a _; rfl

/-- the group the bucket route evaluates per candidate -/
def residOf (cfg : Cfg) (full : Group) (residual : Option Group) : Option Group :=
  if cfg.labelReattach && full.hasLabels then some full else residual

/-- `bucketExec`, written out -/
theorem bucketExec_eq (cfg : Cfg) (store : List Rec) (q : Query) (g : Group) (hints : List Hint) (residual : Option Group) :
    bucketExec cfg store q g hints residual =
      if cfg.bucketPagingAfterFilter then
        capMax q.maxResults ((pageOf q.from_ q.limit ((rowsB cfg store q hints).filter (passOf cfg (residOf cfg g residual)))).map
          (fun r => (r.key, labOf cfg (residOf cfg g residual) r)))
      else
        capMax q.maxResults (((pageOf q.from_ q.limit (rowsB cfg store q hints)).filter (passOf cfg (residOf cfg g residual))).map
          (fun r => (r.key, labOf cfg (residOf cfg g residual) r))) := by
  unfold bucketExec
  simp only [emit_eq]
  split
  · rw [filter_passNone]; rfl
  · rfl

/-- `scanRoute` with a filter, written out -/
theorem scanRoute_eq (cfg : Cfg) (store : List Rec) (q : Query) :
    scanRoute cfg store q =
      if cfg.scanPagingAfterFilter then
        capMax q.maxResults ((pageOf q.from_ q.limit ((indexRead q store).filter (passOf cfg q.filter))).map
          (fun r => (r.key, labOf cfg q.filter r)))
      else
        capMax q.maxResults (((pageOf q.from_ q.limit (indexRead q store)).filter (passOf cfg q.filter)).map
          (fun r => (r.key, labOf cfg q.filter r))) := by
  unfold scanRoute
  simp only [emit_eq]
  split
  · rw [filter_passNone]; rfl
  · rfl


/-! ### F. labels of a residual -/

theorem hasLabelsL_eq (ss : List Group) : hasLabelsL ss = ss.any Group.hasLabels := by
  induction ss with
  | nil => simp [hasLabelsL]
  | cons g gs ih => simp [hasLabelsL, ih]

theorem hasLabels_mk (o : Bool) (ls : List Leaf) (ss : List Group) :
    (Group.mk o ls ss).hasLabels = (ls.any (fun l => l.label != "") || ss.any Group.hasLabels) := by
  simp [Group.hasLabels, hasLabelsL_eq]

theorem firstIndexable_mem (cfg : Cfg) : ∀ (ls : List Leaf) (h : Hint) (rest : List Leaf),
    firstIndexable cfg ls = some (h, rest) → ∀ l ∈ rest, l ∈ ls := by
  intro ls
  induction ls with
  | nil => intro h rest he; simp [firstIndexable] at he
  | cons x tl ih =>
    intro h rest he l hl
    simp only [firstIndexable] at he
    cases hi : indexableHint cfg x with
    | some h0 =>
      simp only [hi, Option.some.injEq, Prod.mk.injEq] at he
      obtain ⟨_, e2⟩ := he
      subst e2
      simp [hl]
    | none =>
      simp only [hi] at he
      cases hr : firstIndexable cfg tl with
      | none => simp [hr] at he
      | some p =>
        obtain ⟨h1, rest1⟩ := p
        simp only [hr, Option.some.injEq, Prod.mk.injEq] at he
        obtain ⟨_, e2⟩ := he
        subst e2
        rcases List.mem_cons.mp hl with rfl | hl'
        · simp
        · simp [ih h1 rest1 hr l hl']

theorem firstUnionSub_mem (cfg : Cfg) : ∀ (ss : List Group) (hs : List Hint) (rest : List Group),
    firstUnionSub cfg ss = some (hs, rest) → ∀ s ∈ rest, s ∈ ss := by
  intro ss
  induction ss with
  | nil => intro hs rest he; simp [firstUnionSub] at he
  | cons x tl ih =>
    intro hs rest he s hsm
    simp only [firstUnionSub] at he
    cases hu : unionOf cfg x with
    | some hs0 =>
      simp only [hu, Option.some.injEq, Prod.mk.injEq] at he
      obtain ⟨_, e2⟩ := he
      subst e2
      simp [hsm]
    | none =>
      simp only [hu] at he
      cases hr : firstUnionSub cfg tl with
      | none => simp [hr] at he
      | some p =>
        obtain ⟨h1, rest1⟩ := p
        simp only [hr, Option.some.injEq, Prod.mk.injEq] at he
        obtain ⟨_, e2⟩ := he
        subst e2
        rcases List.mem_cons.mp hsm with rfl | hs'
        · simp
        · simp [ih h1 rest1 hr s hs']

/-- the residual of an AND plan has labels only if the filter has -/
theorem residual_hasLabels (cfg : Cfg) (g : Group) (hints : List Hint) (res : Group)
    (hp : planFilter cfg g = .and hints res) (hl : res.hasLabels = true) : g.hasLabels = true := by
  obtain ⟨o, ls, ss⟩ := g
  unfold planFilter at hp
  by_cases hem : (Group.mk o ls ss).isEmpty = true
  · simp [hem] at hp
  · simp only [hem, Bool.false_eq_true, if_false] at hp
    cases ho : o
    · subst ho
      simp only [Group.isOr, Bool.false_eq_true, if_false, planAnd, Group.leaves, Group.subs] at hp
      cases hf : firstIndexable cfg ls with
      | some p =>
        obtain ⟨h, rest⟩ := p
        simp only [hf, Plan.and.injEq] at hp
        obtain ⟨_, e2⟩ := hp
        subst e2
        rw [hasLabels_mk] at hl ⊢
        simp only [Bool.or_eq_true, List.any_eq_true] at hl ⊢
        rcases hl with ⟨l, hlm, hll⟩ | h2
        · exact Or.inl ⟨l, firstIndexable_mem cfg ls h rest hf l hlm, hll⟩
        · exact Or.inr h2
      | none =>
        simp only [hf] at hp
        cases hu : firstUnionSub cfg ss with
        | none => simp [hu] at hp
        | some p =>
          obtain ⟨hs, rest⟩ := p
          simp only [hu, Plan.and.injEq] at hp
          obtain ⟨_, e2⟩ := hp
          subst e2
          rw [hasLabels_mk] at hl ⊢
          simp only [Bool.or_eq_true, List.any_eq_true] at hl ⊢
          rcases hl with h1 | ⟨s, hsm, hsl⟩
          · exact Or.inl h1
          · exact Or.inr ⟨s, firstUnionSub_mem cfg ss hs rest hu s hsm, hsl⟩
    · subst ho
      simp only [Group.isOr, if_true] at hp
      unfold planOr at hp
      split at hp
      · cases hp
      · split at hp
        · split at hp <;> cases hp
        · cases hp

end Hv.Query
