/-
  The field-bucket index as STATE.

    app/core/hydra/swamp/swamp_bucket.go    GetOrBuildBucket (publish in-flight → snapshot → BuildEquality →
                                            DrainPending), notifyBucketsInsert / Update / Delete
    app/core/hydra/swamp/bucket/bucket.go   OnInsert / OnUpdate / OnDelete (tryEnqueue while a build is in
                                            flight, else direct), BuildEquality, DrainPending, LookupEqual / LookupIn
    app/core/hydra/swamp/swamp.go           SaveFunction (new key: notifyBucketsInsert; modified: notifyBucketsUpdate),
                                            deleteHandler (notifyBucketsDelete)

  `Routes.lean` gives the bucket by its sequential specification (a function of the current store).
  Here it is what the code keeps: per field path a map treasure-key → (canonical value, treasure
  pointer), a build that runs over a snapshot while mutations are buffered, and the drain of that
  buffer.  `bucket_tracks_store`: after every history of mutations — also those that fall between
  the steps of a build — a settled bucket files every live record under the canonical key of its
  current body, and nothing else; hence the stateful accelerated route is the one of `Routes.lean`.
-/
import Hv.Query.Routes

namespace Hv.Query

/-- a mutation as a bucket sees it (`PendingOp`).  The treasure is a pointer: its body is read when
    the op is applied (the key's current record; the object as it was, once the key is gone). -/
inductive POp where
  | upsert (r : Rec)
  | delete (k : String)
  deriving Repr, Inhabited

/-- `byKey` + `byValue`: treasure key ↦ canonical value it is filed under, and the treasure -/
abbrev Entries := String → Option (Key × Rec)

structure Bucket where
  path : Path
  /-- `equalityInit` -/
  init : Bool
  /-- `buildInFlight` -/
  inFlight : Bool
  /-- the builder's `CloneUnorderedTreasures`, once taken -/
  snapshot : Option (List Rec)
  ents : Entries
  /-- every key ever filed (to enumerate `ents`) -/
  dom : List String
  pending : List POp

structure BSt where
  store : List Rec
  buckets : List Bucket

def BSt.init : BSt := { store := [], buckets := [] }

def findRec (k : String) : List Rec → Option Rec
  | [] => none
  | r :: rs => if r.key = k then some r else findRec k rs

def entOf (p : Path) (r : Rec) : Key × Rec := (bucketKey r p, r)

/-- `BuildEquality` over a snapshot -/
def entsOf (p : Path) (s : List Rec) : Entries := fun k => (findRec k s).map (entOf p)

def setEnt (e : Entries) (k : String) (v : Option (Key × Rec)) : Entries := fun j => if j = k then v else e j

/-- `insertOrUpdateLocked` / `deleteLocked`, with `extractKey` reading the treasure as it is now -/
def applyOp (p : Path) (store : List Rec) (e : Entries) : POp → Entries
  | .upsert r => setEnt e r.key (some (entOf p ((findRec r.key store).getD r)))
  | .delete k => setEnt e k none

def replay (p : Path) (store : List Rec) (e : Entries) (ops : List POp) : Entries := ops.foldl (applyOp p store) e

def opKeys : List POp → List String
  | [] => []
  | .upsert r :: rest => r.key :: opKeys rest
  | .delete _ :: rest => opKeys rest

/-- `OnInsert` / `OnUpdate` / `OnDelete`: buffered while a build is in flight, ignored before the
    bucket exists as an index, else applied -/
def onOp (store' : List Rec) (op : POp) (b : Bucket) : Bucket :=
  if b.inFlight then { b with pending := b.pending ++ [op] }
  else if !b.init then b
  else { b with ents := applyOp b.path store' b.ents op, dom := b.dom ++ opKeys [op] }

def putRec (r : Rec) (store : List Rec) : List Rec :=
  if store.any (fun x => x.key == r.key) then store.map (fun x => if x.key = r.key then r else x) else store ++ [r]

/-- history alphabet: the mutations, and the four steps of `GetOrBuildBucket` one by one (a
    sequential first query runs them back to back; a mutation may fall between any two) -/
inductive MOp where
  /-- Save of a record (new key, or the new state of an existing one) -/
  | put (r : Rec)
  | del (k : String)
  /-- close + summon: a fresh swamp object, no buckets -/
  | reload
  | beginBuild (p : Path)
  | snapshot (p : Path)
  | build (p : Path)
  | drain (p : Path)
  deriving Repr

def stepPut (cfg : Cfg) (st : BSt) (r : Rec) : BSt :=
  let existed := st.store.any (fun x => x.key == r.key)
  let store' := putRec r st.store
  let tell := if existed then cfg.bucketNotifyUpdate else cfg.bucketNotifyInsert
  { store := store', buckets := if tell then st.buckets.map (onOp store' (.upsert r)) else st.buckets }

def stepDel (cfg : Cfg) (st : BSt) (k : String) : BSt :=
  if !st.store.any (fun x => x.key == k) then st else
  let store' := st.store.filter (fun x => x.key != k)
  -- an emptied swamp is destroyed, its buckets with it
  if store'.isEmpty then BSt.init
  else { store := store', buckets := if cfg.bucketNotifyDelete then st.buckets.map (onOp store' (.delete k)) else st.buckets }

def newBucket (p : Path) : Bucket :=
  { path := p, init := false, inFlight := true, snapshot := none, ents := fun _ => none, dom := [], pending := [] }

def stepBegin (st : BSt) (p : Path) : BSt :=
  if st.buckets.any (fun b => b.path = p) then st else { st with buckets := st.buckets ++ [newBucket p] }

def snapBucket (store : List Rec) (p : Path) (b : Bucket) : Bucket :=
  if b.path = p ∧ b.init = false ∧ b.snapshot = none then { b with snapshot := some store } else b

/-- what `BuildEquality` files for a snapshot: the snapshot holds treasure POINTERS, `extractKey`
    reads each body as it is when the build runs (`store`: the swamp then) -/
def builtOf (p : Path) (s store : List Rec) : Entries :=
  fun k => (findRec k s).map (fun r0 => entOf p ((findRec k store).getD r0))

def buildBucket (store : List Rec) (p : Path) (b : Bucket) : Bucket :=
  if b.path = p ∧ b.init = false then
    (match b.snapshot with
     | some s => { b with ents := builtOf p s store, dom := s.map (·.key), init := true }
     | none => b)
  else b

/-- `DrainPending`: replay the buffer, then clear `buildInFlight` -/
def drainBucket (cfg : Cfg) (store : List Rec) (p : Path) (b : Bucket) : Bucket :=
  if b.path = p ∧ b.init = true ∧ b.inFlight = true then
    { b with ents := if cfg.bucketPendingReplayed then replay b.path store b.ents b.pending else b.ents,
             dom := b.dom ++ opKeys b.pending, pending := [], inFlight := false }
  else b

def stepB (cfg : Cfg) (st : BSt) : MOp → BSt
  | .put r => stepPut cfg st r
  | .del k => stepDel cfg st k
  | .reload => { st with buckets := [] }
  | .beginBuild p => stepBegin st p
  | .snapshot p => { st with buckets := st.buckets.map (snapBucket st.store p) }
  | .build p => { st with buckets := st.buckets.map (buildBucket st.store p) }
  | .drain p => { st with buckets := st.buckets.map (drainBucket cfg st.store p) }

def runB (cfg : Cfg) (h : List MOp) : BSt := h.foldl (stepB cfg) BSt.init

/-- the two halves of a Save of a new key, for schedules in which a bucket build falls between them -/
def stepPutStore (st : BSt) (r : Rec) : BSt := { st with store := putRec r st.store }
def stepPutNotify (st : BSt) (r : Rec) : BSt := { st with buckets := st.buckets.map (onOp st.store (.upsert r)) }

def bucketFor (st : BSt) (p : Path) : Option Bucket := st.buckets.find? (fun b => b.path = p)

/-- `GetOrBuildBucket(p)` as a reader runs it: a bucket that is `EqualityInitialized` is used as it
    is (fast path) — even while its builder has not drained the buffer yet, unless the reader drains;
    otherwise publish (if absent), snapshot, build, drain. -/
def ensureBuilt (cfg : Cfg) (st : BSt) (p : Path) : BSt :=
  if !cfg.readerDrainsInFlight && st.buckets.any (fun b => decide (b.path = p) && b.init) then st
  else [MOp.beginBuild p, .snapshot p, .build p, .drain p].foldl (stepB cfg) st

/-! ### lookups (the order of a lookup is the map's; the model lists live records in store order) -/

def entMatch (b : Bucket) (vs : List Key) (k : String) : Bool :=
  match b.ents k with
  | some (ck, _) => vs.any (fun v => keyEq ck v)
  | none => false

/-- filed treasures whose key is not alive any more -/
def staleOf (b : Bucket) (store : List Rec) (vs : List Key) : List Rec :=
  (b.dom.eraseDups.filter (fun k => !store.any (fun x => x.key == k))).filterMap (fun k =>
    match b.ents k with
    | some (ck, obj) => if vs.any (fun v => keyEq ck v) then some obj else none
    | none => none)

/-- `LookupEqual` (one value) / `LookupIn` (de-duplicated) on a bucket -/
def lookupS (b : Option Bucket) (store : List Rec) (vs : List Key) : List Rec :=
  match b with
  | none => []
  | some b => if b.init then store.filter (fun r => entMatch b vs r.key) ++ staleOf b store vs else []

def dedupKeys (l : List Rec) : List Rec :=
  l.foldl (fun acc r => if acc.any (fun x => x.key == r.key) then acc else acc ++ [r]) []

def lookupHintS (cfg : Cfg) (st : BSt) (h : Hint) : List Rec :=
  let st' := ensureBuilt cfg st h.path
  let b := bucketFor st' h.path
  if cfg.lookupInDedupes then lookupS b st'.store h.values
  else h.values.flatMap (fun v => lookupS b st'.store [v])

def hintMatchS (cfg : Cfg) (st : BSt) (h : Hint) (r : Rec) : Bool :=
  match bucketFor (ensureBuilt cfg st h.path) h.path with
  | some b => b.init && entMatch b h.values r.key
  | none => false

/-- `collectBucketCandidates` on the buckets as they are -/
def candidatesS (cfg : Cfg) (st : BSt) (hints : List Hint) : List Rec :=
  match hints with
  | [] => []
  | [h] => lookupHintS cfg st h
  | hs =>
    if cfg.unionDedupes then
      st.store.filter (fun r => hs.any (fun h => hintMatchS cfg st h r)) ++
        dedupKeys (hs.flatMap (fun h =>
          match bucketFor (ensureBuilt cfg st h.path) h.path with
          | some b => if b.init then staleOf b st.store h.values else []
          | none => []))
    else hs.flatMap (lookupHintS cfg st)

/-- `bucketExec` over the candidates of the stateful buckets -/
def bucketExecS (cfg : Cfg) (st : BSt) (q : Query) (full : Group) (hints : List Hint) (residual : Option Group) : List Item :=
  let c0 := candidatesS cfg st hints
  let c1 := if cfg.bucketChecksAttr then c0.filter (carries q.slot) else c0
  let c2 := if hasWindow q && (!cfg.bucketWindowTimeOnly || q.slot != .key) then c1.filter (inWindow q) else c1
  let rows := sortRecs q.slot q.asc c2
  let resid := if cfg.labelReattach && full.hasLabels then some full else residual
  if cfg.bucketPagingAfterFilter then
    let pass (r : Rec) : Bool := match resid with | some g => evalGroup (evalLeaf cfg r.body) g | none => true
    emit cfg none resid q.maxResults (pageOf q.from_ q.limit (rows.filter pass))
  else
    emit cfg resid resid q.maxResults (pageOf q.from_ q.limit rows)

/-- the accelerated route on the state a history left behind -/
def bucketRouteS (cfg : Cfg) (st : BSt) (q : Query) : List Item :=
  match q.filter with
  | none => scanRoute cfg st.store q
  | some g =>
    if cfg.pagedQueriesBypass && (q.from_ != 0 || q.limit != 0) then scanRoute cfg st.store q else
    match planFilter cfg g with
    | .bypass => scanRoute cfg st.store q
    | .and hints residual => bucketExecS cfg st q g hints (some residual)
    | .orUnion hints => bucketExecS cfg st q g hints none

/-- the buckets a query leaves behind (every hinted path built) -/
def afterQuery (cfg : Cfg) (st : BSt) (q : Query) : BSt :=
  match q.filter with
  | none => st
  | some g =>
    if cfg.pagedQueriesBypass && (q.from_ != 0 || q.limit != 0) then st else
    match planFilter cfg g with
    | .bypass => st
    | .and hints _ => hints.foldl (fun s h => ensureBuilt cfg s h.path) st
    | .orUnion hints => hints.foldl (fun s h => ensureBuilt cfg s h.path) st

/-! ### the invariant -/

theorem findRec_map_put (r : Rec) (j : String) (store : List Rec) :
    findRec j (store.map (fun x => if x.key = r.key then r else x)) =
      if j = r.key then (if store.any (fun x => x.key == r.key) then some r else none) else findRec j store := by
  induction store with
  | nil => simp [findRec]
  | cons x xs ih =>
    simp only [List.map_cons, findRec, List.any_cons]
    by_cases hx : x.key = r.key
    · simp only [hx, if_true, beq_self_eq_true, Bool.true_or]
      by_cases hj : j = r.key
      · simp [hj]
      · have : ¬ r.key = j := fun h => hj h.symm
        simp only [this, if_false, hj]
        rw [ih]; simp [hj]
    · have hxb : (x.key == r.key) = false := by simpa using hx
      simp only [hx, if_false, hxb, Bool.false_or]
      by_cases hj : j = r.key
      · have : ¬ x.key = j := by rw [hj]; exact hx
        simp only [this, if_false]
        rw [ih]
      · by_cases hxj : x.key = j
        · simp [hxj, hj]
        · simp only [hxj, if_false, hj]
          rw [ih]; simp [hj]

theorem findRec_append (j : String) (l : List Rec) (r : Rec) :
    findRec j (l ++ [r]) = match findRec j l with | some x => some x | none => if r.key = j then some r else none := by
  induction l with
  | nil => simp [findRec]
  | cons x xs ih =>
    simp only [List.cons_append, findRec]
    by_cases hx : x.key = j
    · simp [hx]
    · simp only [hx, if_false]; exact ih

theorem findRec_none_of_not_any (k : String) (l : List Rec) (h : l.any (fun x => x.key == k) = false) :
    findRec k l = none := by
  induction l with
  | nil => rfl
  | cons x xs ih =>
    simp only [List.any_cons, Bool.or_eq_false_iff, beq_eq_false_iff_ne, ne_eq] at h
    simp only [findRec, h.1, if_false]
    exact ih h.2

theorem findRec_put (r : Rec) (store : List Rec) (j : String) :
    findRec j (putRec r store) = if j = r.key then some r else findRec j store := by
  unfold putRec
  cases ha : store.any (fun x => x.key == r.key)
  · simp only [Bool.false_eq_true, if_false]
    rw [findRec_append]
    by_cases hj : j = r.key
    · subst hj
      rw [findRec_none_of_not_any _ _ ha]
      try simp
    · have : ¬ r.key = j := fun h => hj h.symm
      simp only [this, if_false, hj]
      cases findRec j store <;> rfl
  · simp only [if_true]
    rw [findRec_map_put, ha]
    simp

theorem findRec_filter_ne (k : String) (store : List Rec) (j : String) :
    findRec j (store.filter (fun x => x.key != k)) = if j = k then none else findRec j store := by
  induction store with
  | nil => simp [findRec]
  | cons x xs ih =>
    simp only [List.filter_cons]
    by_cases hx : x.key = k
    · simp only [hx, bne_self_eq_false, Bool.false_eq_true, if_false, findRec]
      by_cases hj : j = k
      · rw [hj] at ih ⊢
        simpa using ih
      · have : ¬ k = j := fun h => hj h.symm
        simp only [this, if_false, hj]
        rw [ih]; simp [hj]
    · have hxb : (x.key != k) = true := by simpa using hx
      simp only [hxb, if_true, findRec]
      by_cases hxj : x.key = j
      · have : ¬ j = k := by rw [← hxj]; exact hx
        simp [hxj, this]
      · simp only [hxj, if_false]; exact ih

theorem entsOf_put (p : Path) (r : Rec) (store : List Rec) :
    entsOf p (putRec r store) = setEnt (entsOf p store) r.key (some (entOf p r)) := by
  funext j
  simp only [entsOf, setEnt, findRec_put]
  split <;> rfl

theorem entsOf_del (p : Path) (k : String) (store : List Rec) :
    entsOf p (store.filter (fun x => x.key != k)) = setEnt (entsOf p store) k none := by
  funext j
  simp only [entsOf, setEnt, findRec_filter_ne]
  split <;> rfl

def POp.key : POp → String
  | .upsert r => r.key
  | .delete k => k

theorem applyOp_other (p : Path) (store : List Rec) (e : Entries) (op : POp) (j : String) (h : j ≠ op.key) :
    applyOp p store e op j = e j := by
  cases op <;> simp only [applyOp, setEnt, POp.key] at h ⊢ <;> simp [h]

/-- what a replay files under key `j` depends on `j`'s own starting entry and current record only -/
theorem replay_congr (p : Path) (j : String) (ops : List POp) :
    ∀ (e e' : Entries) (store store' : List Rec), e j = e' j → findRec j store = findRec j store' →
      replay p store e ops j = replay p store' e' ops j := by
  induction ops with
  | nil => intro e e' _ _ he _; exact he
  | cons op rest ih =>
    intro e e' store store' he hf
    simp only [replay, List.foldl_cons]
    apply ih
    · by_cases hj : j = op.key
      · cases op with
        | upsert r =>
          simp only [POp.key] at hj
          simp only [applyOp, setEnt, hj, if_true]
          rw [← hj, hf]
        | delete k =>
          simp only [POp.key] at hj
          simp [applyOp, setEnt, hj]
      · rw [applyOp_other p store e op j hj, applyOp_other p store' e' op j hj]; exact he
    · exact hf

theorem replay_append (p : Path) (store : List Rec) (e : Entries) (ops : List POp) (op : POp) :
    replay p store e (ops ++ [op]) = applyOp p store (replay p store e ops) op := by
  simp [replay, List.foldl_append]

theorem builtOf_self (p : Path) (s : List Rec) : builtOf p s s = entsOf p s := by
  funext k
  simp only [builtOf, entsOf]
  cases findRec k s <;> rfl

/-- what the build starts from -/
def baseOf (b : Bucket) (store : List Rec) : Entries :=
  if b.init then b.ents else
  match b.snapshot with
  | some s => builtOf b.path s store
  | none => entsOf b.path store

/-- a bucket is consistent with the swamp: settled → it files exactly the live records under the
    canonical keys of their current bodies; in flight → replaying its buffer over what the build
    produces (or will produce) yields that -/
structure BucketOk (store : List Rec) (b : Bucket) : Prop where
  settled : b.inFlight = false → b.init = true ∧ b.ents = entsOf b.path store ∧ b.pending = []
  flying : b.inFlight = true → replay b.path store (baseOf b store) b.pending = entsOf b.path store

def BOk (st : BSt) : Prop := ∀ b ∈ st.buckets, BucketOk st.store b

/-- the facts under which every mutation reaches the buckets -/
def notifyGoodB (cfg : Cfg) : Bool :=
  cfg.bucketNotifyInsert && cfg.bucketNotifyUpdate && cfg.bucketNotifyDelete && cfg.bucketPendingReplayed

/-- …and every reader finds its bucket settled -/
def trackGoodB (cfg : Cfg) : Bool := notifyGoodB cfg && cfg.readerDrainsInFlight

theorem notifyGood_of (cfg : Cfg) (h : trackGoodB cfg = true) : notifyGoodB cfg = true := by
  simp only [trackGoodB, Bool.and_eq_true] at h; exact h.1

theorem bucketOk_upsert (store : List Rec) (r : Rec) (b : Bucket) (h : BucketOk store b) :
    BucketOk (putRec r store) (onOp (putRec r store) (.upsert r) b) := by
  unfold onOp
  cases hf : b.inFlight
  · obtain ⟨hi, he, hp⟩ := h.settled hf
    simp only [Bool.false_eq_true, if_false, hi, Bool.not_true]
    refine ⟨fun _ => ⟨by simp, ?_, by simpa using hp⟩, fun hc => by simp at hc⟩
    simp only [applyOp, findRec_put, if_true, Option.getD_some, he]
    exact (entsOf_put b.path r store).symm
  · simp only [if_true]
    refine ⟨fun hc => by simp at hc, fun _ => ?_⟩
    have ih := h.flying hf
    simp only []
    rw [replay_append]
    simp only [applyOp, findRec_put, if_true, Option.getD_some]
    rw [entsOf_put]
    funext j
    simp only [setEnt]
    by_cases hj : j = r.key
    · simp [hj]
    · simp only [hj, if_false]
      rw [← ih]
      apply replay_congr
      · cases hi : b.init <;> cases hs : b.snapshot <;> simp [baseOf, hi, hs, entsOf, builtOf, findRec_put, hj]
      · simp only [findRec_put, hj, if_false]

theorem bucketOk_delete (store : List Rec) (k : String) (b : Bucket) (h : BucketOk store b) :
    BucketOk (store.filter (fun x => x.key != k)) (onOp (store.filter (fun x => x.key != k)) (.delete k) b) := by
  unfold onOp
  cases hf : b.inFlight
  · obtain ⟨hi, he, hp⟩ := h.settled hf
    simp only [Bool.false_eq_true, if_false, hi, Bool.not_true]
    refine ⟨fun _ => ⟨by simp, ?_, by simpa using hp⟩, fun hc => by simp at hc⟩
    simp only [applyOp, he]
    exact (entsOf_del b.path k store).symm
  · simp only [if_true]
    refine ⟨fun hc => by simp at hc, fun _ => ?_⟩
    have ih := h.flying hf
    simp only []
    rw [replay_append]
    simp only [applyOp]
    rw [entsOf_del]
    funext j
    simp only [setEnt]
    by_cases hj : j = k
    · simp [hj]
    · simp only [hj, if_false]
      rw [← ih]
      apply replay_congr
      · cases hi : b.init <;> cases hs : b.snapshot <;> simp [baseOf, hi, hs, entsOf, builtOf, findRec_filter_ne, hj]
      · simp only [findRec_filter_ne, hj, if_false]

theorem bOk_step (cfg : Cfg) (hg : notifyGoodB cfg = true) (st : BSt) (op : MOp) (h : BOk st) : BOk (stepB cfg st op) := by
  simp only [notifyGoodB, Bool.and_eq_true] at hg
  obtain ⟨⟨⟨hI, hU⟩, hD⟩, hR⟩ := hg
  cases op with
  | put r =>
    simp only [stepB, stepPut, hI, hU, ite_self, if_true]
    intro b hb
    obtain ⟨b0, hb0, rfl⟩ := List.mem_map.mp hb
    exact bucketOk_upsert st.store r b0 (h b0 hb0)
  | del k =>
    simp only [stepB, stepDel]
    split
    · exact h
    · split
      · intro b hb; simp [BSt.init] at hb
      · intro b hb
        simp only [hD, if_true] at hb
        obtain ⟨b0, hb0, rfl⟩ := List.mem_map.mp hb
        exact bucketOk_delete st.store k b0 (h b0 hb0)
  | reload => intro b hb; simp [stepB] at hb
  | beginBuild p =>
    simp only [stepB, stepBegin]
    split
    · exact h
    · intro b hb
      rcases List.mem_append.mp hb with hb | hb
      · exact h b hb
      · simp only [List.mem_singleton] at hb
        subst hb
        exact ⟨fun hc => by simp [newBucket] at hc, fun _ => by simp [newBucket, replay, baseOf]⟩
  | snapshot p =>
    simp only [stepB]
    intro b hb
    obtain ⟨b0, hb0, rfl⟩ := List.mem_map.mp hb
    have h0 := h b0 hb0
    unfold snapBucket
    split
    · rename_i hc
      obtain ⟨_, hi, hs⟩ := hc
      refine ⟨fun hf => ?_, fun hf => ?_⟩
      · have := (h0.settled hf).1; rw [hi] at this; cases this
      · have := h0.flying hf
        simpa [baseOf, hi, hs, builtOf_self] using this
    · exact h0
  | build p =>
    simp only [stepB]
    intro b hb
    obtain ⟨b0, hb0, rfl⟩ := List.mem_map.mp hb
    have h0 := h b0 hb0
    unfold buildBucket
    split
    · rename_i hc
      obtain ⟨hp, hi⟩ := hc
      cases hs : b0.snapshot with
      | none => simpa [hs] using h0
      | some s =>
        simp only []
        refine ⟨fun hf => ?_, fun hf => ?_⟩
        · have := (h0.settled hf).1; rw [hi] at this; cases this
        · have := h0.flying hf
          simpa [baseOf, hi, hs, hp] using this
    · exact h0
  | drain p =>
    simp only [stepB]
    intro b hb
    obtain ⟨b0, hb0, rfl⟩ := List.mem_map.mp hb
    have h0 := h b0 hb0
    unfold drainBucket
    by_cases hc : b0.path = p ∧ b0.init = true ∧ b0.inFlight = true
    · rw [if_pos hc]
      obtain ⟨_, hi, hf⟩ := hc
      refine ⟨fun _ => ⟨hi, ?_, rfl⟩, fun hc => by simp at hc⟩
      have := h0.flying hf
      simpa [baseOf, hi, hR] using this
    · rw [if_neg hc]; exact h0

theorem bOk_run (cfg : Cfg) (hg : notifyGoodB cfg = true) (h : List MOp) : BOk (runB cfg h) := by
  unfold runB
  suffices ∀ st, BOk st → BOk (h.foldl (stepB cfg) st) from this _ (by intro b hb; simp [BSt.init] at hb)
  induction h with
  | nil => intro st hst; exact hst
  | cons op ops ih => intro st hst; exact ih _ (bOk_step cfg hg st op hst)

/-- **The bucket tracks the store.**  After any history of saves, deletes, reloads and build steps
    (mutations may fall between the steps of a build), every settled bucket maps exactly the live
    records, each to the canonical key of the hinted field in its CURRENT body. -/
theorem bucket_tracks_store (cfg : Cfg) (hg : notifyGoodB cfg = true) (h : List MOp) :
    ∀ b ∈ (runB cfg h).buckets, b.init = true → b.inFlight = false →
      b.ents = entsOf b.path (runB cfg h).store ∧ b.pending = [] := by
  intro b hb _ hf
  obtain ⟨_, he, hp⟩ := (bOk_run cfg hg h b hb).settled hf
  exact ⟨he, hp⟩

/-! ### a sequential query finds its bucket settled -/

theorem ensureBuilt_store (cfg : Cfg) (st : BSt) (p : Path) : (ensureBuilt cfg st p).store = st.store := by
  unfold ensureBuilt
  split
  · rfl
  · simp only [List.foldl_cons, List.foldl_nil, stepB, stepBegin]
    split <;> rfl

theorem bOk_ensureBuilt (cfg : Cfg) (hg : notifyGoodB cfg = true) (st : BSt) (p : Path) (h : BOk st) :
    BOk (ensureBuilt cfg st p) := by
  unfold ensureBuilt
  split
  · exact h
  · simp only [List.foldl_cons, List.foldl_nil]
    exact bOk_step cfg hg _ _ (bOk_step cfg hg _ _ (bOk_step cfg hg _ _ (bOk_step cfg hg _ _ h)))

/-- flags of a bucket of path `p` after the four steps -/
theorem settled_after (cfg : Cfg) (store : List Rec) (p : Path) (b : Bucket) (hp : b.path = p)
    (hflag : b.inFlight = false → b.init = true) :
    let b' := drainBucket cfg store p (buildBucket store p (snapBucket store p b))
    b'.path = p ∧ b'.init = true ∧ b'.inFlight = false := by
  intro b'
  cases hi : b.init
  · -- not built yet: it is in flight; snapshot, build, drain
    have hfl : b.inFlight = true := by
      cases hf : b.inFlight
      · have := hflag hf; rw [hi] at this; cases this
      · rfl
    cases hs : b.snapshot with
    | none => simp [b', snapBucket, buildBucket, drainBucket, hp, hi, hs, hfl]
    | some s => simp [b', snapBucket, buildBucket, drainBucket, hp, hi, hs, hfl]
  · cases hf : b.inFlight
    · simp [b', snapBucket, buildBucket, drainBucket, hp, hi, hf]
    · simp [b', snapBucket, buildBucket, drainBucket, hp, hi, hf]

theorem bucketFor_ensureBuilt (cfg : Cfg) (hr : cfg.readerDrainsInFlight = true) (st : BSt) (p : Path)
    (hflag : ∀ b ∈ st.buckets, b.inFlight = false → b.init = true) :
    ∃ b, bucketFor (ensureBuilt cfg st p) p = some b ∧ b ∈ (ensureBuilt cfg st p).buckets ∧
      b.path = p ∧ b.init = true ∧ b.inFlight = false := by
  have key : ∀ (bs : List Bucket), (∀ b ∈ bs, b.inFlight = false → b.init = true) → bs.any (fun b => b.path = p) = true →
      ∃ b, (bs.map (fun b => drainBucket cfg st.store p (buildBucket st.store p (snapBucket st.store p b)))).find? (fun b => b.path = p) = some b ∧
        b ∈ bs.map (fun b => drainBucket cfg st.store p (buildBucket st.store p (snapBucket st.store p b))) ∧
        b.path = p ∧ b.init = true ∧ b.inFlight = false := by
    intro bs
    induction bs with
    | nil => intro _ h; simp at h
    | cons x xs ih =>
      intro hfl hany
      by_cases hx : x.path = p
      · have := settled_after cfg st.store p x hx (hfl x (by simp))
        refine ⟨_, ?_, by simp, this⟩
        simp [List.find?_cons, this.1]
      · have hpath : (drainBucket cfg st.store p (buildBucket st.store p (snapBucket st.store p x))).path = x.path := by
          simp [snapBucket, buildBucket, drainBucket, hx]
        have hany' : xs.any (fun b => b.path = p) = true := by
          simpa [List.any_cons, hx] using hany
        obtain ⟨b, h1, h2, h3⟩ := ih (fun b hb => hfl b (by simp [hb])) hany'
        refine ⟨b, ?_, by simp [h2], h3⟩
        simp only [List.map_cons, List.find?_cons, hpath, hx, decide_false]
        exact h1
  -- unfold the four steps
  have hstore : (stepBegin st p).store = st.store := by unfold stepBegin; split <;> rfl
  have hany : (stepBegin st p).buckets.any (fun b => b.path = p) = true := by
    unfold stepBegin
    split
    · assumption
    · simp [newBucket]
  have hfl' : ∀ b ∈ (stepBegin st p).buckets, b.inFlight = false → b.init = true := by
    unfold stepBegin
    split
    · exact hflag
    · intro b hb
      rcases List.mem_append.mp hb with hb | hb
      · exact hflag b hb
      · simp only [List.mem_singleton] at hb; subst hb; intro hc; simp [newBucket] at hc
  obtain ⟨b, h1, h2, h3⟩ := key (stepBegin st p).buckets hfl' hany
  refine ⟨b, ?_, ?_, h3⟩
  · simp only [bucketFor, ensureBuilt, hr, Bool.not_true, Bool.false_and, Bool.false_eq_true, if_false,
      List.foldl_cons, List.foldl_nil, stepB, List.map_map, hstore]
    exact h1
  · simp only [ensureBuilt, hr, Bool.not_true, Bool.false_and, Bool.false_eq_true, if_false,
      List.foldl_cons, List.foldl_nil, stepB, List.map_map, hstore]
    exact h2

/-! ### the stateful route is the specified one -/

def KeysNodupQ (l : List Rec) : Prop := (l.map (·.key)).Nodup

theorem findRec_of_mem {l : List Rec} (h : KeysNodupQ l) {r : Rec} (hr : r ∈ l) : findRec r.key l = some r := by
  induction l with
  | nil => cases hr
  | cons x xs ih =>
    simp only [KeysNodupQ, List.map_cons, List.nodup_cons, List.mem_map, not_exists, not_and] at h
    simp only [findRec]
    rcases List.mem_cons.mp hr with rfl | hr'
    · simp
    · have : ¬ x.key = r.key := fun hk => h.1 r hr' hk.symm
      simp only [this, if_false]
      exact ih h.2 hr'

theorem entMatch_tracked (b : Bucket) (store : List Rec) (hn : KeysNodupQ store) (he : b.ents = entsOf b.path store)
    (vs : List Key) (r : Rec) (hr : r ∈ store) : entMatch b vs r.key = vs.any (fun v => keyEq (bucketKey r b.path) v) := by
  simp [entMatch, he, entsOf, findRec_of_mem hn hr, entOf]

theorem staleOf_tracked (b : Bucket) (store : List Rec) (he : b.ents = entsOf b.path store) (vs : List Key) :
    staleOf b store vs = [] := by
  unfold staleOf
  rw [List.filterMap_eq_nil_iff]
  intro k hk
  have hk2 := (List.mem_filter.mp hk).2
  simp only [Bool.not_eq_true'] at hk2
  simp [he, entsOf, findRec_none_of_not_any k store hk2]

theorem lookupS_tracked (b : Bucket) (store : List Rec) (hn : KeysNodupQ store) (hi : b.init = true)
    (he : b.ents = entsOf b.path store) (vs : List Key) :
    lookupS (some b) store vs = store.filter (fun r => vs.any (fun v => keyEq (bucketKey r b.path) v)) := by
  simp only [lookupS, hi, if_true, staleOf_tracked b store he vs, List.append_nil]
  apply List.filter_congr
  intro r hr
  exact entMatch_tracked b store hn he vs r hr

/-- the state a sequential history can be in when a query arrives -/
structure StGood (st : BSt) : Prop where
  nodup : KeysNodupQ st.store
  ok : BOk st

theorem hint_tracked (cfg : Cfg) (hg : trackGoodB cfg = true) (st : BSt) (hs : StGood st) (h : Hint) :
    ∃ b, bucketFor (ensureBuilt cfg st h.path) h.path = some b ∧ b.path = h.path ∧ b.init = true ∧
      b.ents = entsOf h.path st.store := by
  have hflag : ∀ b ∈ st.buckets, b.inFlight = false → b.init = true := fun b hb hf => ((hs.ok b hb).settled hf).1
  have hr : cfg.readerDrainsInFlight = true := by
    simp only [trackGoodB, Bool.and_eq_true] at hg; exact hg.2
  obtain ⟨b, h1, h2, h3, h4, h5⟩ := bucketFor_ensureBuilt cfg hr st h.path hflag
  have hok := bOk_ensureBuilt cfg (notifyGood_of cfg hg) st h.path hs.ok b h2
  obtain ⟨_, he, _⟩ := hok.settled h5
  refine ⟨b, h1, h3, h4, ?_⟩
  rw [he, h3, ensureBuilt_store]

theorem lookupHintS_eq (cfg : Cfg) (hg : trackGoodB cfg = true) (st : BSt) (hs : StGood st) (h : Hint) :
    lookupHintS cfg st h = lookupHint cfg st.store h := by
  obtain ⟨b, h1, h2, h3, h4⟩ := hint_tracked cfg hg st hs h
  have he : b.ents = entsOf b.path st.store := by rw [h2]; exact h4
  unfold lookupHintS lookupHint
  simp only [h1, ensureBuilt_store]
  split
  · rw [lookupS_tracked b st.store hs.nodup h3 he, h2]; rfl
  · congr 1
    funext v
    rw [lookupS_tracked b st.store hs.nodup h3 he, h2]
    simp

theorem candidatesS_eq (cfg : Cfg) (hg : trackGoodB cfg = true) (st : BSt) (hs : StGood st) (hints : List Hint) :
    candidatesS cfg st hints = candidates cfg st.store hints := by
  match hints with
  | [] => rfl
  | [h] => simp only [candidatesS, candidates]; exact lookupHintS_eq cfg hg st hs h
  | h :: h' :: rest =>
    simp only [candidatesS, candidates]
    split
    · have hstale : (List.flatMap (fun h =>
          match bucketFor (ensureBuilt cfg st h.path) h.path with
          | some b => if b.init then staleOf b st.store h.values else []
          | none => []) (h :: h' :: rest)) = [] := by
        rw [List.flatMap_eq_nil_iff]
        intro x _
        obtain ⟨b, h1, h2, h3, h4⟩ := hint_tracked cfg hg st hs x
        simp only [h1, h3, if_true]
        exact staleOf_tracked b st.store (by rw [h2]; exact h4) x.values
      rw [hstale]
      simp only [dedupKeys, List.foldl_nil, List.append_nil]
      apply List.filter_congr
      intro r hr
      congr 1
      funext x
      obtain ⟨b, h1, h2, h3, h4⟩ := hint_tracked cfg hg st hs x
      simp only [hintMatchS, h1, h3, Bool.true_and, hintMatch]
      rw [entMatch_tracked b st.store hs.nodup (by rw [h2]; exact h4) x.values r hr, h2]
    · congr 1
      funext x
      exact lookupHintS_eq cfg hg st hs x

theorem bucketRouteS_eq (cfg : Cfg) (hg : trackGoodB cfg = true) (st : BSt) (hs : StGood st) (q : Query) :
    bucketRouteS cfg st q = bucketRoute cfg st.store q := by
  unfold bucketRouteS bucketRoute
  cases q.filter with
  | none => rfl
  | some g =>
    simp only []
    split
    · rfl
    · cases planFilter cfg g with
      | bypass => rfl
      | and hints res => simp only []; unfold bucketExecS bucketExec; rw [candidatesS_eq cfg hg st hs hints]; rfl
      | orUnion hints => simp only []; unfold bucketExecS bucketExec; rw [candidatesS_eq cfg hg st hs hints]; rfl

/-! ### keys stay unique along a history -/

theorem keysNodupQ_put (r : Rec) (store : List Rec) (h : KeysNodupQ store) : KeysNodupQ (putRec r store) := by
  unfold putRec
  cases ha : store.any (fun x => x.key == r.key)
  · simp only [Bool.false_eq_true, if_false, KeysNodupQ, List.map_append, List.map_cons, List.map_nil]
    rw [List.nodup_append]
    refine ⟨h, by simp, ?_⟩
    intro a ha' b hb
    simp only [List.mem_singleton] at hb
    obtain ⟨x, hx, rfl⟩ := List.mem_map.mp ha'
    rw [hb]
    rw [List.any_eq_false] at ha
    simpa using ha x hx
  · simp only [if_true, KeysNodupQ, List.map_map]
    have : (store.map ((fun x => x.key) ∘ fun x => if x.key = r.key then r else x)) = store.map (·.key) := by
      apply List.map_congr_left
      intro x _
      simp only [Function.comp]
      split
      · rename_i hx; exact hx.symm
      · rfl
    rw [this]; exact h

theorem stGood_step (cfg : Cfg) (hg : notifyGoodB cfg = true) (st : BSt) (op : MOp) (h : StGood st) : StGood (stepB cfg st op) := by
  refine ⟨?_, bOk_step cfg hg st op h.ok⟩
  cases op with
  | put r => exact keysNodupQ_put r st.store h.nodup
  | del k =>
    simp only [stepB, stepDel]
    split
    · exact h.nodup
    · split
      · simp [BSt.init, KeysNodupQ]
      · exact List.Nodup.sublist (List.Sublist.map _ List.filter_sublist) h.nodup
  | reload => exact h.nodup
  | beginBuild p => simp only [stepB, stepBegin]; split <;> exact h.nodup
  | snapshot p => exact h.nodup
  | build p => exact h.nodup
  | drain p => exact h.nodup

theorem stGood_run (cfg : Cfg) (hg : notifyGoodB cfg = true) (h : List MOp) : StGood (runB cfg h) := by
  unfold runB
  suffices ∀ st, StGood st → StGood (h.foldl (stepB cfg) st) from
    this _ ⟨by simp [BSt.init, KeysNodupQ], by intro b hb; simp [BSt.init] at hb⟩
  induction h with
  | nil => intro st hst; exact hst
  | cons op ops ih => intro st hst; exact ih _ (stGood_step cfg hg st op hst)

/-- after any history, the accelerated route over the buckets as they are is the accelerated route of
    `Routes.lean` over the current store -/
theorem bucketRouteS_run (cfg : Cfg) (hg : trackGoodB cfg = true) (h : List MOp) (q : Query) :
    bucketRouteS cfg (runB cfg h) q = bucketRoute cfg (runB cfg h).store q :=
  bucketRouteS_eq cfg hg _ (stGood_run cfg (notifyGood_of cfg hg) h) q

end Hv.Query
