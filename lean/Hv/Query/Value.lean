/-
  msgpack-decoded body values, canonical value equality, and field extraction by path.

    app/core/hydra/swamp/bucket/valuecanon/valuecanon.go   Canonicalize / Equal
    app/core/hydra/swamp/bucket/bucket.go                  extractFieldByPath (plain dotted)
    app/server/gateway/filter.go                           extractFieldByPath (`[*]`, `#len`),
                                                           toInt64 / toUint64 / toFloat64

  Numbers.  Integers decode to one of int8…int64 / uint8…uint64; neither route looks at the
  width, so the model keeps `int` (signed family) and `uint` (unsigned family).  Floats are
  modelled by an abstract ordered type with exactly the float↔integer rules the code uses:
  `flt q` is the number q/4 (every such number of the magnitudes used is exact in float32 and
  float64, and so is every integer used, so `float64(i)` is exact and "lossless" holds).
  Truncation `int64(f)` is `Int.tdiv q 4`.  NaN, infinities, -0 and magnitudes ≥ 2^53 are outside
  the model (recorded as an assumption of C08).
-/
import Hv.Basic.Verdict

namespace Hv.Query

inductive Value where
  | nil
  | bool (b : Bool)
  | int (i : Int)
  | uint (n : Nat)
  /-- the number `q / 4` -/
  | flt (q : Int)
  /-- a float that is not a number: 0 = NaN, 1 = +Inf, anything else = -Inf -/
  | fspec (k : Nat)
  | str (s : String)
  /-- msgpack timestamp, Unix seconds -/
  | time (sec : Int)
  | arr (l : List Value)
  | map (l : List (String × Value))
  deriving Repr, Inhabited

def Value.isNil : Value → Bool
  | .nil => true
  | _ => false

/-! ### valuecanon -/

/-- `valuecanon.Key` -/
inductive Key where
  | null
  | b (v : Bool)
  | i (v : Int)
  | u (v : Nat)
  | f (q : Int)
  /-- NaN / +Inf / -Inf (as `Value.fspec`) -/
  | fs (k : Nat)
  | s (v : String)
  deriving DecidableEq, Repr, Inhabited

/-- `valuecanon.Canonicalize` -/
def canon : Value → Key
  | .nil => .null
  | .bool b => .b b
  | .int i => .i i
  | .uint n => .u n
  | .flt q => .f q
  | .fspec k => .fs k
  | .str s => .s s
  | .time sec => .i sec
  | .arr _ => .null
  | .map _ => .null

/-- `valuecanon.Equal`: same kind → same payload; int/uint → non-negative and equal; with a float →
    both sides converted losslessly and equal (`i = q/4` iff `4*i = q`); everything else false. -/
def keyEq : Key → Key → Bool
  | .null, .null => true
  | .b x, .b y => x == y
  | .i x, .i y => x == y
  | .u x, .u y => x == y
  | .f x, .f y => x == y
  -- NaN equals nothing, not even itself; an infinity equals only the same infinity
  | .fs x, .fs y => x != 0 && y != 0 && (x == 1) == (y == 1)
  | .s x, .s y => x == y
  | .i x, .u y => decide (0 ≤ x) && x == (y : Int)
  | .u x, .i y => decide (0 ≤ y) && y == (x : Int)
  | .f x, .i y => x == 4 * y
  | .i x, .f y => y == 4 * x
  | .f x, .u y => x == 4 * (y : Int)
  | .u x, .f y => y == 4 * (x : Int)
  | _, _ => false

/-! ### paths -/

def lookup (k : String) : List (String × Value) → Option Value
  | [] => none
  | (k', v) :: rest => if k' == k then some v else lookup k rest

/-- one dot-separated segment of a `BytesFieldPath`, as the gateway reads it -/
inductive Seg where
  | field (name : String)
  /-- `#len` -/
  | len
  /-- `name[*]` (`name` may be empty) -/
  | wild (name : String)
  deriving DecidableEq, Repr, Inhabited

/-- the segment as the bucket reads it: a literal map key -/
def Seg.text : Seg → String
  | .field n => n
  | .len => "#len"
  | .wild n => n ++ "[*]"

def Seg.isSpecial : Seg → Bool
  | .field _ => false
  | _ => true

abbrev Path := List Seg

/-- bucket variant (`bucket.go`): plain dotted navigation, every segment is a literal key -/
def extractB (cur : Value) : Path → Value
  | [] => cur
  | p :: rest =>
    match cur with
    | .map fs => (match lookup p.text fs with | some v => extractB v rest | none => .nil)
    | _ => .nil

/-- what the gateway variant returns: a value (`nil` = absent) or the any-match sentinel -/
inductive Ext where
  | one (v : Value)
  | many (vs : List Value)
  deriving Repr, Inhabited

/-- gateway variant (`filter.go`): `#len` returns the length and stops; `name[*]` fans out over
    the slice and applies the rest of the path to every element that is a map. -/
def extractG (cur : Value) : Path → Ext
  | [] => .one cur
  | .len :: _ =>
    (match cur with
     | .arr l => .one (.int l.length)
     | .map fs => .one (.int fs.length)
     | _ => .one .nil)
  | .wild fieldName :: rest =>
    let tgt : Option Value :=
      if fieldName != "" then
        (match cur with
         | .map fs => some ((lookup fieldName fs).getD .nil)
         | _ => none)
      else some cur
    (match tgt with
     | some (.arr l) =>
       .many (l.filterMap (fun e =>
         if rest.isEmpty then some e
         else match e with
           | .map _ =>
             (match extractG e rest with
              | .one v => if v.isNil then none else some v
              | .many _ => some (.arr []))   -- a nested sentinel: non-nil, compares with nothing
           | _ => none))
     | _ => .one .nil)
  | .field p :: rest =>
    (match cur with
     | .map fs => (match lookup p fs with | some v => extractG v rest | none => .one .nil)
     | _ => .one .nil)

/-! ### the scan route's conversions -/

def maxInt64 : Int := 9223372036854775807
def minInt64 : Int := -9223372036854775808

/-- `float64(n)` for a natural number: round to 53 significant bits, ties to even -/
def roundNat (n : Nat) : Nat :=
  if n < 9007199254740992 then n else
  let e := Nat.log2 n - 52
  let m := n >>> e
  let rem := n % (2 ^ e)
  let half := 2 ^ (e - 1)
  let m' := if rem > half || (rem == half && m % 2 == 1) then m + 1 else m
  m' <<< e

/-- `float64(i)` -/
def roundInt (i : Int) : Int := if 0 ≤ i then (roundNat i.toNat : Int) else -((roundNat (-i).toNat : Nat) : Int)

/-- `toInt64`: floats are truncated (NaN and the infinities give MinInt64 on amd64), times become
    Unix seconds -/
def toInt64 : Value → Option Int
  | .int i => some i
  | .uint n => if (n : Int) ≤ maxInt64 then some n else none
  | .flt q => some (Int.tdiv q 4)
  | .fspec _ => some minInt64
  | .time s => some s
  | _ => none

/-- `toUint64` (a negative float converts through int64; NaN and the infinities give 2^63 on amd64) -/
def toUint64 : Value → Option Nat
  | .uint n => some n
  | .int i => if 0 ≤ i then some i.toNat else none
  | .flt q => if 0 ≤ q then some (Int.tdiv q 4).toNat else some (18446744073709551616 + Int.tdiv q 4).toNat
  | .fspec _ => some 9223372036854775808
  | _ => none

/-- a float64: a finite number in quarters, or NaN / +Inf / -Inf -/
inductive FV where
  | fin (q : Int)
  | spec (k : Nat)
  deriving DecidableEq, Repr

/-- `toFloat64` (integers are rounded to float64) -/
def toFloat64 : Value → Option FV
  | .flt q => some (.fin q)
  | .fspec k => some (.spec k)
  | .int i => some (.fin (4 * roundInt i))
  | .uint n => some (.fin (4 * (roundNat n : Int)))
  | _ => none

end Hv.Query
