/-
  What DOES hold while equality on the scan route is not canonical: a bucket hint and its leg
  disagree only on a NUMERIC field value of another kind than the compare value (a float field
  against an integer compare value, a time or unsigned field against a signed one, …).  On every
  other record — the field is not numeric, or it is of the compare value's own kind — they agree,
  whatever `scanEqCanonical` is; hence the two routes agree on every store all of whose hinted
  fields are "same kind".
-/
import Hv.Query.Lemmas

namespace Hv.Query

/-- 0: signed integer (also a msgpack time, which both routes read as its Unix seconds),
    1: unsigned integer, 2: float (also NaN / ±Inf), 3: not a number -/
def Value.cls : Value → Nat
  | .int _ | .time _ => 0
  | .uint _ => 1
  | .flt _ | .fspec _ => 2
  | _ => 3

def CV.cls : CV → Nat
  | .i8 _ | .i16 _ | .i32 _ | .i64 _ => 0
  | .u8 _ | .u16 _ | .u32 _ | .u64 _ => 1
  | .f32 _ | .f64 _ => 2
  | _ => 3

/-- the field value is not a number, or it is a number of the kind the leaf compares with -/
def sameKind (v : Value) (l : Leaf) : Bool :=
  v.cls == 3 ||
  match l.op with
  | .strIn => true
  | .i32In | .i64In => v.cls == 0
  | .eq => l.cv.cls == 3 || l.cv.cls == v.cls
  | _ => false

/-- the hinted field of the record (absent body: nothing to compare) is same-kind for the leaf -/
def sameKindRec (r : Rec) (l : Leaf) : Bool :=
  match r.body with
  | none => true
  | some b => sameKind (extractB b l.path) l

/-- the facts about WHICH leaves are hinted (not about how the scan route compares) -/
def legBaseB (cfg : Cfg) : Bool :=
  cfg.excludesSpecialPaths && cfg.indexableOps.all (fun o => o == .eq || o.isIn)

theorem natCast_beq (a b : Nat) : ((a : Int) == (b : Int)) = (a == b) := by
  by_cases h : a = b
  · subst h; simp
  · have : ¬ (a : Int) = (b : Int) := fun e => h (Int.natCast_inj.mp e)
    have h1 : ((a : Int) == (b : Int)) = false := by simpa using this
    have h2 : (a == b) = false := by simpa using h
    rw [h1, h2]

theorem cmpFV_fin (q : Int) (op : Op) (r : Int) : cmpFV (.fin q) op r = cmpInt q op r := rfl

theorem cmpFV_spec_eq (k : Nat) (r : Int) : cmpFV (.spec k) .eq r = false := by
  unfold cmpFV
  split <;> simp_all

theorem any_keyEq_s (k : Key) (vals : List String) :
    (vals.map Key.s).any (fun v => keyEq k v) = match k with | .s x => vals.contains x | _ => false := by
  induction vals with
  | nil => cases k <;> simp
  | cons y ys ih =>
    simp only [List.map_cons, List.any_cons, ih]
    cases k <;> simp [keyEq, List.contains_cons]
    rename_i x
    by_cases h : x = y
    · simp [h]
    · have : ¬ y = x := fun e => h e.symm
      simp [h, this]

theorem any_keyEq_i (i : Int) (vals : List Int) :
    (vals.map Key.i).any (fun v => keyEq (.i i) v) = vals.contains i := by
  induction vals with
  | nil => simp
  | cons y ys ih =>
    rw [List.map_cons, List.any_cons, ih, List.contains_cons]
    simp [keyEq]

theorem any_keyEq_none (k : Key) (vals : List Int) (h : match k with | .null | .b _ | .s _ => True | _ => False) :
    (vals.map Key.i).any (fun v => keyEq k v) = false := by
  induction vals with
  | nil => simp
  | cons y ys ih =>
    simp only [List.map_cons, List.any_cons, ih, Bool.or_false]
    cases k <;> simp_all [keyEq]

/-- **Leg agreement on same-kind operands** — with the scan route's `toInt64`-style conversions. -/
theorem leg_agree_same_kind (cfg : Cfg) (hg : legBaseB cfg = true) (hc : cfg.scanEqCanonical = false) (l : Leaf) (h : Hint)
    (hi : indexableHint cfg l = some h) (r : Rec) (hs : sameKindRec r l = true) :
    hintMatch h r = evalLeaf cfg r.body l := by
  simp only [legBaseB, Bool.and_eq_true, List.all_eq_true] at hg
  obtain ⟨hexcl, hops⟩ := hg
  unfold indexableHint at hi
  by_cases hpe : l.path.isEmpty = true
  · simp [hpe] at hi
  · simp only [hpe, Bool.false_eq_true, if_false, hexcl, Bool.true_and] at hi
    by_cases hsp : l.path.any Seg.isSpecial = true
    · simp [hsp] at hi
    · simp only [hsp, Bool.false_eq_true, if_false] at hi
      have hplain : l.path.any Seg.isSpecial = false := by simpa using hsp
      by_cases hmem : cfg.indexableOps.contains l.op = true
      · simp only [hmem, Bool.not_true, Bool.false_eq_true, if_false] at hi
        have hop := hops l.op (by simpa using hmem)
        have hext : ∀ b, extractG b l.path = .one (extractB b l.path) := fun b => extractG_plain l.path b hplain
        cases hb : r.body with
        | none =>
          have hne : (l.op == Op.isEmpty) = false := by
            cases hl : l.op <;> simp [hl, Op.isIn] at hop ⊢
          simp only [evalLeaf, hne]
          cases hl : l.op <;> simp only [hl] at hi hop <;>
            first
            | (simp [Op.isIn] at hop; done)
            | (by_cases hv : l.strVals.isEmpty = true
               · simp [hv] at hi
               · simp only [hv, Bool.false_eq_true, if_false, Option.some.injEq] at hi
                 subst hi
                 simp [hintMatch, bucketKey, hb, keyEq])
            | (by_cases hv : l.intVals.isEmpty = true
               · simp [hv] at hi
               · simp only [hv, Bool.false_eq_true, if_false, Option.some.injEq] at hi
                 subst hi
                 simp [hintMatch, bucketKey, hb, keyEq])
            | (cases hk : cvKey l.cv with
               | none => simp [hk] at hi
               | some k =>
                 simp only [hk, Option.some.injEq] at hi
                 subst hi
                 have := cvKey_ne_null l.cv k hk
                 cases k <;> simp_all [hintMatch, bucketKey, keyEq])
        | some b =>
          simp only [sameKindRec, hb] at hs
          simp only [evalLeaf, evalLeafBody, hext b, hc, Bool.false_and, Bool.false_eq_true, if_false]
          generalize hfv : extractB b l.path = fv at hs ⊢
          have hIn : ∀ (vals : List Int), l.intVals = vals → h = ⟨l.path, vals.map Key.i, l⟩ → (l.op = .i32In ∨ l.op = .i64In) →
              hintMatch h r = inMatch fv l := by
            intro vals hv hh hop'
            subst hh
            have hm : inMatch fv l = (match toInt64 fv with | some n => l.intVals.contains n | none => false) := by
              rcases hop' with h' | h' <;> (unfold inMatch; rw [h'])
              all_goals rfl
            rw [hm]
            simp only [hintMatch, bucketKey, hb, hfv]
            have hs' : fv.cls = 3 ∨ fv.cls = 0 := by
              rcases hop' with h' | h' <;> simpa [sameKind, h'] using hs
            cases fv <;> simp [Value.cls] at hs' <;>
              first
              | (simp only [canon, toInt64, hv]; exact any_keyEq_i _ _)
              | (simp only [canon, toInt64]; exact any_keyEq_none _ _ trivial)
          cases hl : l.op with
          | strIn =>
            simp only [hl] at hi
            by_cases hv : l.strVals.isEmpty = true
            · simp [hv] at hi
            · simp only [hv, Bool.false_eq_true, if_false, Option.some.injEq] at hi
              subst hi
              simp only [hintMatch, bucketKey, hb, hfv, any_keyEq_s, inMatch, hl]
              cases fv <;> simp [canon]
          | i32In =>
            simp only [hl] at hi
            by_cases hv : l.intVals.isEmpty = true
            · simp [hv] at hi
            · simp only [hv, Bool.false_eq_true, if_false, Option.some.injEq] at hi
              exact hIn l.intVals rfl hi.symm (Or.inl hl)
          | i64In =>
            simp only [hl] at hi
            by_cases hv : l.intVals.isEmpty = true
            · simp [hv] at hi
            · simp only [hv, Bool.false_eq_true, if_false, Option.some.injEq] at hi
              exact hIn l.intVals rfl hi.symm (Or.inr hl)
          | eq =>
            simp only [hl] at hi hs
            cases hk : cvKey l.cv with
            | none => simp [hk] at hi
            | some k =>
              simp only [hk, Option.some.injEq] at hi
              subst hi
              simp only [hintMatch, bucketKey, hb, hfv, List.any_cons, List.any_nil, Bool.or_false]
              cases hcv : l.cv <;> simp only [hcv, cvKey, Option.some.injEq, reduceCtorEq] at hk <;> subst hk <;>
                cases fv <;> simp [sameKind, Value.cls, CV.cls, hcv, hl] at hs <;>
                simp [Value.isNil, canon, keyEq, cmpTyped, toInt64, toUint64, toFloat64, cmpInt, cmpFV_fin, cmpStr, cmpBool,
                  natCast_beq, cmpFV_spec_eq]
          | ne => simp [hl, Op.isIn] at hop
          | gt => simp [hl, Op.isIn] at hop
          | ge => simp [hl, Op.isIn] at hop
          | lt => simp [hl, Op.isIn] at hop
          | le => simp [hl, Op.isIn] at hop
          | isEmpty => simp [hl, Op.isIn] at hop
          | isNotEmpty => simp [hl, Op.isIn] at hop
      · have hf : cfg.indexableOps.contains l.op = false := by simpa using hmem
        rw [hf] at hi
        simp at hi

/-- …so: with or without canonical equality on the scan route, hint and leg agree on same-kind records -/
theorem leg_agree_of_same_kind (cfg : Cfg) (hg : legBaseB cfg = true) (l : Leaf) (h : Hint)
    (hi : indexableHint cfg l = some h) (r : Rec) (hs : sameKindRec r l = true) :
    hintMatch h r = evalLeaf cfg r.body l := by
  cases hc : cfg.scanEqCanonical
  · exact leg_agree_same_kind cfg hg hc l h hi r hs
  · have : legGoodB cfg = true := by
      simp only [legBaseB, Bool.and_eq_true] at hg
      simp only [legGoodB, hc, Bool.true_and, Bool.and_eq_true]
      exact hg
    exact leg_agree cfg this l h hi r

/-! ### legs that are never hinted reach the residual

    Phrase, vector, geo-distance and nested-slice legs are not body-field comparison leaves; the
    planner never hints them and `cloneGroupHeader` carries them into the residual.  In the model such a
    leg is a leaf without a hint (its verdict is some predicate of the record that both routes
    compute with the same code).  What the planner owes them is only this: -/

theorem firstIndexable_keeps (cfg : Cfg) : ∀ (ls : List Leaf) (h : Hint) (rest : List Leaf),
    firstIndexable cfg ls = some (h, rest) → ∀ l ∈ ls, indexableHint cfg l = none → l ∈ rest := by
  intro ls
  induction ls with
  | nil => intro h rest he; simp [firstIndexable] at he
  | cons x xs ih =>
    intro h rest he l hl hn
    simp only [firstIndexable] at he
    cases hx : indexableHint cfg x with
    | some h0 =>
      simp only [hx, Option.some.injEq, Prod.mk.injEq] at he
      obtain ⟨_, rfl⟩ := he
      rcases List.mem_cons.mp hl with rfl | hl'
      · rw [hx] at hn; cases hn
      · exact hl'
    | none =>
      simp only [hx] at he
      cases hr : firstIndexable cfg xs with
      | none => simp [hr] at he
      | some p =>
        obtain ⟨h1, rest1⟩ := p
        simp only [hr, Option.some.injEq, Prod.mk.injEq] at he
        obtain ⟨_, rfl⟩ := he
        rcases List.mem_cons.mp hl with rfl | hl'
        · exact List.mem_cons_self
        · exact List.mem_cons_of_mem _ (ih h1 rest1 hr l hl' hn)

/-- **The residual carries every leg that has no hint** (in particular the opaque kinds), unchanged. -/
theorem residual_carries_opaque (cfg : Cfg) (g : Group) (hints : List Hint) (res : Group)
    (hp : planFilter cfg g = .and hints res) : ∀ l ∈ g.leaves, indexableHint cfg l = none → l ∈ res.leaves := by
  intro l hl hn
  unfold planFilter at hp
  split at hp
  · cases hp
  · split at hp
    · -- an OR group never yields an AND plan
      unfold planOr at hp
      split at hp
      · cases hp
      · split at hp
        · split at hp <;> cases hp
        · cases hp
    · unfold planAnd at hp
      split at hp
      · rename_i h rest hf
        simp only [Plan.and.injEq] at hp
        obtain ⟨_, rfl⟩ := hp
        exact firstIndexable_keeps cfg g.leaves h rest hf l hl hn
      · split at hp
        · simp only [Plan.and.injEq] at hp
          obtain ⟨_, rfl⟩ := hp
          exact hl
        · cases hp

end Hv.Query
