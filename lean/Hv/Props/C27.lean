/-
  C27 — Hydrex reverse index stays consistent with core data.

  "After any sequence of Hydrex saves and destroys, looking up a key returns exactly the domains
   whose current core data contains that key, and reading a domain returns exactly its last
   saved items."

  Quantifier: every history of `save i d items | destroy i d`, of any length, over any index
  names, domains, keys and values (states are total functions; nothing is bounded).  Index names,
  domains and keys are abstract identities: the theorems are about names that the server keeps
  apart, i.e. clean swamp-name parts (non-empty, no '/').  What the real stack does with an empty
  key or a key containing '/' is covered by the driver's executable extension and the
  correspondence run (findings C27-empty-key-save-ignored, C27-key-with-separator-not-indexed).
  Model: Hv/Misc/Hydrex.lean.
-/
import Hv.Misc.Hydrex
import Hv.Basic.Verdict

namespace Hv.C27
open Hv.Hydrex

/-- which (index name, domain) an operation writes -/
def target : Op → Idx × Dom
  | .save i d _ => (i, d)
  | .destroy i d => (i, d)

/-- The full-strength statement, for a given value of the code facts. -/
structure Holds (cfg : Cfg) : Prop where
  /-- index k = { d | k ∈ dom (core d) }, after every history -/
  indexConsistent : ∀ h, Consistent (run cfg init h)
  /-- reading a domain returns exactly its last saved items: keys AND values -/
  lastSaved : ∀ h i d items k, (run cfg init (h ++ [.save i d items])).core i d k = items k
  /-- …or nothing after a destroy -/
  destroyed : ∀ h i d k, (run cfg init (h ++ [.destroy i d])).core i d k = none
  /-- an operation on one (index name, domain) leaves every other core untouched -/
  frame : ∀ h op i d k, target op ≠ (i, d) →
      (run cfg init (h ++ [op])).core i d k = (run cfg init h).core i d k

theorem run_snoc (cfg : Cfg) (s : St) (h : List Op) (op : Op) : run cfg s (h ++ [op]) = step cfg (run cfg s h) op := by
  simp [run, List.foldl_append]

/-! ### the index invariant -/

theorem inv_init : Consistent init := by intro i k d; simp [init]

theorem inv_step (cfg : Cfg) (hs : cfg.saveRemovesStale = true) (hd : cfg.destroyCleansIndex = true)
    (s : St) (op : Op) (hi : Consistent s) : Consistent (step cfg s op) := by
  intro i k d
  cases op with
  | save i0 d0 items =>
    simp only [step]
    by_cases e : i = i0 ∧ d = d0
    · obtain ⟨rfl, rfl⟩ := e
      simp only [and_self, if_true]
      have := hi i k d
      cases ho : s.core i d k <;> cases hn : items k <;>
        simp_all [saveCore, saveIndex]
      · split <;> simp
    · simp only [e, if_false]; exact hi i k d
  | destroy i0 d0 =>
    simp only [step]
    by_cases e : i = i0 ∧ d = d0
    · obtain ⟨rfl, rfl⟩ := e
      have := hi i k d
      cases ho : s.core i d k <;> simp_all
    · have e' : ¬ (i = i0 ∧ d = d0 ∧ cfg.destroyCleansIndex = true ∧ (s.core i0 d0 k).isSome = true) :=
        fun h => e ⟨h.1, h.2.1⟩
      simp only [e, e', if_false]; exact hi i k d

theorem inv_run (cfg : Cfg) (hs : cfg.saveRemovesStale = true) (hd : cfg.destroyCleansIndex = true) (h : List Op) :
    ∀ s, Consistent s → Consistent (run cfg s h) := by
  induction h with
  | nil => intro s hi; exact hi
  | cons op rest ih => intro s hi; exact ih _ (inv_step cfg hs hd s op hi)

/-- index k = {d | k ∈ dom (core d)} after every history (expected to hold for the code as it is). -/
theorem index_consistent (cfg : Cfg) (hs : cfg.saveRemovesStale = true) (hd : cfg.destroyCleansIndex = true)
    (h : List Op) : Consistent (run cfg init h) :=
  inv_run cfg hs hd h init inv_init

/-! ### "exactly its last saved items" -/

theorem core_after_save (cfg : Cfg) (s : St) (i : Idx) (d : Dom) (items : Key → Option Val) (k : Key) :
    (step cfg s (.save i d items)).core i d k = saveCore cfg (s.core i d k) (items k) := by
  simp [step]

/-- Full clause, when Save rewrites changed values. -/
theorem core_last_saved (cfg : Cfg) (hu : cfg.updatesExisting = true) (hs : cfg.saveRemovesStale = true)
    (h : List Op) (i : Idx) (d : Dom) (items : Key → Option Val) (k : Key) :
    (run cfg init (h ++ [.save i d items])).core i d k = items k := by
  rw [run_snoc, core_after_save]
  cases (run cfg init h).core i d k <;> cases items k <;> simp [saveCore, hu, hs]

/-- The fragment the code as it is satisfies: a save that never presents a DIFFERENT value for
    a key the domain already holds. -/
theorem core_last_saved_partial (cfg : Cfg) (hs : cfg.saveRemovesStale = true)
    (h : List Op) (i : Idx) (d : Dom) (items : Key → Option Val)
    (same : ∀ k v w, (run cfg init h).core i d k = some v → items k = some w → v = w) (k : Key) :
    (run cfg init (h ++ [.save i d items])).core i d k = items k := by
  rw [run_snoc, core_after_save]
  cases ho : (run cfg init h).core i d k with
  | none => cases items k <;> simp [saveCore]
  | some v =>
    cases hn : items k with
    | none => simp [saveCore, hs]
    | some w => have := same k v w ho hn; subst this; simp [saveCore]

theorem core_after_destroy (cfg : Cfg) (h : List Op) (i : Idx) (d : Dom) (k : Key) :
    (run cfg init (h ++ [.destroy i d])).core i d k = none := by
  rw [run_snoc]; simp [step]

theorem core_frame (cfg : Cfg) (h : List Op) (op : Op) (i : Idx) (d : Dom) (k : Key) (ht : target op ≠ (i, d)) :
    (run cfg init (h ++ [op])).core i d k = (run cfg init h).core i d k := by
  rw [run_snoc]
  cases op with
  | save i0 d0 items =>
    have : ¬ (i = i0 ∧ d = d0) := fun e => ht (by simp [target, e.1, e.2])
    simp [step, this]
  | destroy i0 d0 =>
    have : ¬ (i = i0 ∧ d = d0) := fun e => ht (by simp [target, e.1, e.2])
    simp [step, this]

theorem holds_updating (cfg : Cfg) (hu : cfg.updatesExisting = true) (hs : cfg.saveRemovesStale = true)
    (hd : cfg.destroyCleansIndex = true) : Holds cfg :=
  ⟨index_consistent cfg hs hd, core_last_saved cfg hu hs, core_after_destroy cfg, core_frame cfg⟩

/-- What the code as it is satisfies. -/
structure HoldsPartial (cfg : Cfg) : Prop where
  indexConsistent : ∀ h, Consistent (run cfg init h)
  lastSavedSameValues : ∀ h i d items,
      (∀ k v w, (run cfg init h).core i d k = some v → items k = some w → v = w) →
      ∀ k, (run cfg init (h ++ [.save i d items])).core i d k = items k
  destroyed : ∀ h i d k, (run cfg init (h ++ [.destroy i d])).core i d k = none
  frame : ∀ h op i d k, target op ≠ (i, d) →
      (run cfg init (h ++ [op])).core i d k = (run cfg init h).core i d k

theorem holds_partial (cfg : Cfg) (hs : cfg.saveRemovesStale = true) (hd : cfg.destroyCleansIndex = true) :
    HoldsPartial cfg :=
  ⟨index_consistent cfg hs hd, core_last_saved_partial cfg hs, core_after_destroy cfg, core_frame cfg⟩

/-! ### non-vacuity -/

def one (k : Key) (v : Val) : Key → Option Val := fun x => if x = k then some v else none
def two (k1 : Key) (v1 : Val) (k2 : Key) (v2 : Val) : Key → Option Val :=
  fun x => if x = k1 then some v1 else if x = k2 then some v2 else none
def empty : Key → Option Val := fun _ => none

def shipped : Cfg := ⟨false, true, true⟩
def updating : Cfg := ⟨true, true, true⟩

/-- two domains share key 7; one drops it; the other is destroyed: the index follows -/
example :
    let s := run shipped init [.save 0 1 (two 7 70 8 80), .save 0 2 (one 7 71), .save 0 1 (one 8 80)]
    (s.index 0 7 1, s.index 0 7 2, s.index 0 8 1, s.core 0 1 7, s.core 0 1 8, s.core 0 2 7) =
      (false, true, true, none, some 80, some 71) := by decide
example :
    let s := run shipped init [.save 0 1 (two 7 70 8 80), .save 0 2 (one 7 71), .destroy 0 2]
    (s.index 0 7 1, s.index 0 7 2, s.core 0 2 7) = (true, false, none) := by decide
/-- the hypothesis of the partial theorem is met by a re-save with the same value plus a new key -/
example : ∀ k v w, (run shipped init [.save 0 1 (one 7 70)]).core 0 1 k = some v → (two 7 70 8 80) k = some w → v = w := by
  intro k v w h1 h2
  by_cases e : k = 7
  · subst e; simp [run, step, init, saveCore, one] at h1; simp [two] at h2; exact h1.symm.trans h2
  · simp [run, step, init, saveCore, one, e] at h1

/-! ### witnesses for the code as it is -/

/-- save d {k ↦ 1}; save d {k ↦ 2} leaves 1. -/
theorem value_update_skipped :
    (run shipped init [.save 0 0 (one 0 1), .save 0 0 (one 0 2)]).core 0 0 0 = some 1 := by decide

theorem refutes_no_update (cfg : Cfg) (hu : cfg.updatesExisting = false) : ¬ Holds cfg := by
  intro hh
  have := hh.lastSaved [.save 0 0 (one 0 1)] 0 0 (one 0 2) 0
  rw [run_snoc, core_after_save] at this
  have h1 : (run cfg init [.save 0 0 (one 0 1)]).core 0 0 0 = some 1 := by
    simp [run, step, init, saveCore, one]
  rw [h1] at this
  simp [saveCore, hu, one] at this

/-- a Save that keeps keys which are no longer in `items` -/
theorem refutes_stale_kept (cfg : Cfg) (hs : cfg.saveRemovesStale = false) : ¬ Holds cfg := by
  intro hh
  have := hh.lastSaved [.save 0 0 (one 0 1)] 0 0 empty 0
  rw [run_snoc, core_after_save] at this
  have h1 : (run cfg init [.save 0 0 (one 0 1)]).core 0 0 0 = some 1 := by
    simp [run, step, init, saveCore, one]
  rw [h1] at this
  simp [saveCore, hs, empty] at this

/-- a Destroy that does not clean the index swamps: the destroyed domain is still listed -/
theorem refutes_destroy_leaves_index (cfg : Cfg) (hd : cfg.destroyCleansIndex = false) : ¬ Holds cfg := by
  intro hh
  have hi := hh.indexConsistent [.save 0 0 (one 0 1), .destroy 0 0] 0 0 0
  have h1 : (run cfg init [.save 0 0 (one 0 1), .destroy 0 0]).index 0 0 0 = true := by
    simp [run, step, init, saveIndex, one, hd]
  have h2 : (run cfg init [.save 0 0 (one 0 1), .destroy 0 0]).core 0 0 0 = none := by
    simp [run, step]
  rw [h2] at hi
  simp [h1] at hi

/-! ### Decision over the extracted facts -/

structure Facts where
  updatesExisting : Tri
  saveRemovesStale : Tri
  destroyCleansIndex : Tri
  validatesKeys : Tri   -- Save refuses a call that carries an empty key or a key containing '/' (driver extension only)
  validatesNames : Tri  -- Save and Destroy refuse an index name or a domain that is empty or contains '/' (driver extension only)
  namesVerbatim : Tri   -- core / index swamp names are Sanctuary(const).Realm(indexName).Swamp(domain | key), nothing transformed
  deriving Repr

def cfgOf (f : Facts) : Cfg := ⟨f.updatesExisting.isYes, f.saveRemovesStale.isYes, f.destroyCleansIndex.isYes⟩

def findings (c : Cfg) : List String :=
  (if c.updatesExisting then [] else ["C27-value-update-skipped"]) ++
  (if c.saveRemovesStale then [] else ["C27-stale-keys-kept"]) ++
  (if c.destroyCleansIndex then [] else ["C27-destroy-leaves-index"])

def classify (f : Facts) : Verdict :=
  if f.namesVerbatim != .yes then .undetermined "the swamp name builders of hydrex.go were not recognised"
  else if f.updatesExisting == .unknown || f.saveRemovesStale == .unknown || f.destroyCleansIndex == .unknown then
    .undetermined "a step of hydrex.Save / Destroy was not recognised"
  else if (cfgOf f).updatesExisting && (cfgOf f).saveRemovesStale && (cfgOf f).destroyCleansIndex then .holds
  else .violated (findings (cfgOf f))

theorem classify_sound (f : Facts) :
    (classify f).Sound (Holds (cfgOf f))
      ((cfgOf f).saveRemovesStale = true → (cfgOf f).destroyCleansIndex = true → HoldsPartial (cfgOf f)) := by
  unfold classify
  split
  · trivial
  split
  · trivial
  · split
    · rename_i h
      simp only [Bool.and_eq_true] at h
      exact holds_updating _ h.1.1 h.1.2 h.2
    · rename_i h
      refine ⟨?_, fun hs hd => holds_partial _ hs hd⟩
      simp only [Bool.and_eq_true, not_and, Bool.not_eq_true] at h
      cases h1 : (cfgOf f).updatesExisting with
      | false => exact refutes_no_update _ h1
      | true =>
        cases h2 : (cfgOf f).saveRemovesStale with
        | false => exact refutes_stale_kept _ h2
        | true => exact refutes_destroy_leaves_index _ (h ⟨h1, h2⟩)

end Hv.C27
