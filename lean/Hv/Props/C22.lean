/-
  C22 — SDK model save/read round-trips exactly; "a field's tag name never changes how another
  part of the model is encoded or decoded".

  What is PROVED here is the tag half of the property, for every tag string: the encoder, the
  decoder and the shape detector of the SDK classify a `hydraide:"…"` tag identically
  (`Agree`) for ALL tags iff every predicate in the two conversion loops compares the tag HEAD
  (`slots_agree`).  A substring test (`contains`) lets a body field's NAME hijack a slot
  ("keywords" ⊇ "key", "values" ⊇ "value", "createdAtX" ⊇ "createdAt"); a whole-tag equality
  (`eq`) misses a reserved name that carries options ("key,omitempty").
  The value half (typed conversions proto ↔ Go, server-side precedence of typed values over the
  bytes body) is exercised by the correspondence run through the real SDK and the in-process
  server; it is tested, not proved.
  Model: Hv/Misc/SdkTags.lean.
-/
import Hv.Misc.SdkTags
import Hv.Basic.Verdict

namespace Hv.C22
open Hv.SdkTags

/-- The full-strength (tag) statement: for EVERY tag string the three classifiers agree. -/
def Holds (cfg : Cfg) : Prop := ∀ t : Tag, Agree cfg t

/-! ### all predicates compare the head ⇒ agreement on every tag -/

theorem fires_headEq (ps : Preds) (h : ps.allHeadEq = true) (t : Tag) (s : Slot) :
    fires ps t s = (head t == slotName s) := by
  simp only [Preds.allHeadEq, Bool.and_eq_true, beq_iff_eq] at h
  obtain ⟨⟨⟨⟨⟨⟨h1, h2⟩, h3⟩, h4⟩, h5⟩, h6⟩, h7⟩ := h
  cases s <;> simp [fires, Preds.get, holdsPred, *]

/-- the two loops, as functions of the tag head only -/
def decOfHead (hd : Tag) : List Slot := (allSlots.find? (fun s => hd == slotName s)).toList
def encOfHead (hd : Tag) : List Slot :=
  if hd == slotName .key then [.key]
  else (if hd == slotName .value then [.value] else []) ++ (metaSlots.find? (fun s => hd == slotName s)).toList

theorem firstOf_eq_find (ps : Preds) (h : ps.allHeadEq = true) (t : Tag) (l : List Slot) :
    firstOf ps t l = l.find? (fun s => head t == slotName s) := by
  induction l with
  | nil => rfl
  | cons a as ih => simp only [firstOf, fires_headEq ps h, List.find?_cons, ih]; cases head t == slotName a <;> rfl

theorem encOfHead_eq (hd : Tag) : encOfHead hd = decOfHead hd := by
  unfold encOfHead decOfHead
  by_cases h1 : hd = slotName .key
  · subst h1; decide
  by_cases h2 : hd = slotName .value
  · subst h2; decide
  by_cases h3 : hd = slotName .expireAt
  · subst h3; decide
  by_cases h4 : hd = slotName .createdBy
  · subst h4; decide
  by_cases h5 : hd = slotName .createdAt
  · subst h5; decide
  by_cases h6 : hd = slotName .updatedBy
  · subst h6; decide
  by_cases h7 : hd = slotName .updatedAt
  · subst h7; decide
  simp [allSlots, metaSlots, h1, h2, h3, h4, h5, h6, h7]

theorem agree_of_allHeadEq (cfg : Cfg) (h : cfg.allHeadEq = true) (t : Tag) : Agree cfg t := by
  simp only [Cfg.allHeadEq, Bool.and_eq_true] at h
  have hd : decSlots cfg t = decOfHead (head t) := by
    simp only [decSlots, decOfHead, firstOf_eq_find cfg.dec h.2]
  have he : encSlots cfg t = encOfHead (head t) := by
    simp only [encSlots, encOfHead, firstOf_eq_find cfg.enc h.1, fires_headEq cfg.enc h.1]
  refine ⟨?_, ?_⟩
  · rw [he, encOfHead_eq]; rfl
  · rw [hd]; rfl

/-! ### any other predicate ⇒ some tag is classified differently -/

/-- name + "X": contains the name, but its head is not a reserved name -/
def w1 (s : Slot) : Tag := slotName s ++ ['X']
/-- name + ",o": the head IS the name, the whole tag is not -/
def w2 (s : Slot) : Tag := slotName s ++ [',', 'o']

theorem w1_others (s s' : Slot) (p : Pred) (h : s' ≠ s) : holdsPred p (slotName s') (w1 s) = false := by
  cases s <;> cases s' <;> first | contradiction | (cases p <;> decide)

theorem w2_others (s s' : Slot) (p : Pred) (h : s' ≠ s) : holdsPred p (slotName s') (w2 s) = false := by
  cases s <;> cases s' <;> first | contradiction | (cases p <;> decide)

theorem w1_self (s : Slot) : holdsPred .contains (slotName s) (w1 s) = true ∧ headSlot (w1 s) = none := by
  cases s <;> decide

theorem w2_self (s : Slot) :
    holdsPred .eq (slotName s) (w2 s) = false ∧ holdsPred .unknown (slotName s) (w2 s) = false ∧
    headSlot (w2 s) = some s := by
  cases s <;> decide

theorem enc_only (cfg : Cfg) (t : Tag) (s : Slot) (h : ∀ s', fires cfg.enc t s' = decide (s' = s)) :
    encSlots cfg t = [s] := by
  cases s <;> simp [encSlots, firstOf, metaSlots, h]

theorem enc_none (cfg : Cfg) (t : Tag) (h : ∀ s', fires cfg.enc t s' = false) : encSlots cfg t = [] := by
  simp [encSlots, firstOf, metaSlots, h]

theorem dec_only (cfg : Cfg) (t : Tag) (s : Slot) (h : ∀ s', fires cfg.dec t s' = decide (s' = s)) :
    decSlots cfg t = [s] := by
  cases s <;> simp [decSlots, firstOf, allSlots, h]

theorem dec_none (cfg : Cfg) (t : Tag) (h : ∀ s', fires cfg.dec t s' = false) : decSlots cfg t = [] := by
  simp [decSlots, firstOf, allSlots, h]

/-- shared core: a predicate list with a non-head predicate at `s` misfires on `w1 s` or `w2 s` -/
theorem misfire (ps : Preds) (s : Slot) (h : ps.get s ≠ .headEq) :
    (headSlot (w1 s) = none ∧ ∀ s', fires ps (w1 s) s' = decide (s' = s)) ∨
    (headSlot (w2 s) = some s ∧ ∀ s', fires ps (w2 s) s' = false) := by
  cases hp : ps.get s with
  | headEq => exact absurd hp h
  | contains =>
    left
    refine ⟨(w1_self s).2, fun s' => ?_⟩
    by_cases e : s' = s
    · subst e; simp [fires, hp, (w1_self s').1]
    · simp [fires, e, w1_others s s' _ e]
  | eq =>
    right
    refine ⟨(w2_self s).2.2, fun s' => ?_⟩
    by_cases e : s' = s
    · subst e; simp [fires, hp, (w2_self s').1]
    · simp [fires, w2_others s s' _ e]
  | unknown =>
    right
    refine ⟨(w2_self s).2.2, fun s' => ?_⟩
    by_cases e : s' = s
    · subst e; simp [fires, hp, holdsPred]
    · simp [fires, w2_others s s' _ e]

theorem not_allHeadEq_slot (ps : Preds) (h : ps.allHeadEq = false) : ∃ s, ps.get s ≠ .headEq := by
  obtain ⟨a, b, c, d, e, f, g⟩ := ps
  by_cases ha : a = .headEq
  · by_cases hb : b = .headEq
    · by_cases hc : c = .headEq
      · by_cases hd : d = .headEq
        · by_cases he : e = .headEq
          · by_cases hf : f = .headEq
            · by_cases hg : g = .headEq
              · subst ha hb hc hd he hf hg; simp [Preds.allHeadEq] at h
              · exact ⟨.updatedAt, hg⟩
            · exact ⟨.updatedBy, hf⟩
          · exact ⟨.createdAt, he⟩
        · exact ⟨.createdBy, hd⟩
      · exact ⟨.expireAt, hc⟩
    · exact ⟨.value, hb⟩
  · exact ⟨.key, ha⟩

theorem not_holds_of_not_allHeadEq (cfg : Cfg) (h : cfg.allHeadEq = false) : ¬ Holds cfg := by
  intro hh
  simp only [Cfg.allHeadEq, Bool.and_eq_false_iff] at h
  rcases h with h | h
  · obtain ⟨s, hs⟩ := not_allHeadEq_slot cfg.enc h
    rcases misfire cfg.enc s hs with ⟨hn, hf⟩ | ⟨hn, hf⟩
    · have := (hh (w1 s)).1
      rw [enc_only cfg _ s hf, hn] at this
      simp at this
    · have := (hh (w2 s)).1
      rw [enc_none cfg _ hf, hn] at this
      simp at this
  · obtain ⟨s, hs⟩ := not_allHeadEq_slot cfg.dec h
    rcases misfire cfg.dec s hs with ⟨hn, hf⟩ | ⟨hn, hf⟩
    · have := (hh (w1 s)).2
      rw [dec_only cfg _ s hf, hn] at this
      simp at this
    · have := (hh (w2 s)).2
      rw [dec_none cfg _ hf, hn] at this
      simp at this

/-- All three classify every tag string identically iff every predicate compares the tag head. -/
theorem slots_agree (cfg : Cfg) : Holds cfg ↔ cfg.allHeadEq = true := by
  constructor
  · intro h
    cases hc : cfg.allHeadEq with
    | true => rfl
    | false => exact absurd h (not_holds_of_not_allHeadEq cfg hc)
  · intro h t; exact agree_of_allHeadEq cfg h t

/-! ### the code as it was: substring tests everywhere except the encoder's key -/

def hp : Preds := ⟨.headEq, .headEq, .headEq, .headEq, .headEq, .headEq, .headEq⟩
def repaired : Cfg := ⟨hp, hp⟩
def legacy : Cfg :=
  ⟨⟨.eq, .contains, .contains, .contains, .contains, .contains, .contains⟩,
   ⟨.contains, .contains, .contains, .contains, .contains, .contains, .contains⟩⟩

def tKeywords : Tag := ['k', 'e', 'y', 'w', 'o', 'r', 'd', 's']
def tValues : Tag := ['v', 'a', 'l', 'u', 'e', 's']
def tCreatedAtX : Tag := ['c', 'r', 'e', 'a', 't', 'e', 'd', 'A', 't', 'X']
def tKeyOmit : Tag := ['k', 'e', 'y', ',', 'o', 'm', 'i', 't', 'e', 'm', 'p', 't', 'y']
def tValueOmit : Tag := ['v', 'a', 'l', 'u', 'e', ',', 'o', 'm', 'i', 't', 'e', 'm', 'p', 't', 'y']
def tTitle : Tag := ['T', 'i', 't', 'l', 'e']

/-- "keywords" is a body field for the shape detector and the encoder, but the decoder assigns
    the record KEY to it (after the body was decoded). -/
theorem witness_keywords :
    isBody tKeywords = true ∧ encSlots legacy tKeywords = [] ∧ decSlots legacy tKeywords = [.key] := by decide

/-- "values" is a body field for the shape detector, yet encoder and decoder treat it as THE value
    (the encoder then emits a typed value next to the bytes body; the server keeps the typed one). -/
theorem witness_values :
    isBody tValues = true ∧ encSlots legacy tValues = [.value] ∧ decSlots legacy tValues = [.value] := by decide

/-- "createdAtX" is a body field, yet it is encoded into / decoded from the createdAt metadata. -/
theorem witness_createdAtX :
    isBody tCreatedAtX = true ∧ encSlots legacy tCreatedAtX = [.createdAt] ∧
    decSlots legacy tCreatedAtX = [.createdAt] := by decide

/-- "key,omitempty": reserved for the shape detector and the decoder, ignored by the encoder. -/
theorem witness_key_with_option :
    headSlot tKeyOmit = some .key ∧ encSlots legacy tKeyOmit = [] ∧ decSlots legacy tKeyOmit = [.key] := by decide

/-- Non-vacuity: ordinary tags are classified the same way by both configurations. -/
example : Agree legacy tValueOmit ∧ Agree legacy tTitle ∧ Agree repaired tValueOmit ∧ Agree repaired tTitle ∧
          Agree repaired tKeywords ∧ Agree repaired tValues ∧ Agree repaired tCreatedAtX ∧ Agree repaired tKeyOmit := by decide
example : repaired.allHeadEq = true ∧ legacy.allHeadEq = false := by decide

/-- What the legacy predicates still guarantee: tags that contain no reserved name as a substring
    other than as their exact whole (every tag of the baseline suite is of this kind). -/
def Plain (t : Tag) : Prop :=
  ∀ s, hasInfix (slotName s) t = true → t = slotName s

theorem agree_plain_partial (t : Tag) (hpl : Plain t) : Agree legacy t := by
  -- either the tag IS a reserved name (closed check), or no reserved name occurs in it
  by_cases hk : ∃ s, t = slotName s
  · obtain ⟨s, rfl⟩ := hk
    cases s <;> decide
  · have hno : ∀ s, hasInfix (slotName s) t = false := by
      intro s
      cases hi : hasInfix (slotName s) t with
      | false => rfl
      | true => exact absurd ⟨s, hpl s hi⟩ hk
    have heq : ∀ s, (t == slotName s) = false := by
      intro s
      cases he : t == slotName s with
      | false => rfl
      | true => exact absurd ⟨s, by simpa using he⟩ hk
    -- the head of a tag is a prefix of it: if the head were a reserved name, that name would occur in the tag
    have hpre : ∀ (pat t : Tag), pat.isPrefixOf t = true → hasInfix pat t = true := by
      intro pat t h
      cases t with
      | nil => cases pat <;> simp_all [hasInfix]
      | cons c cs => simp [hasInfix, h]
    have htake : ∀ (t : Tag), (t.takeWhile (· ≠ ',')).isPrefixOf t = true :=
      fun t => List.isPrefixOf_iff_prefix.mpr (List.takeWhile_prefix _)
    have hhead : ∀ s, (head t == slotName s) = false := by
      intro s
      cases he : head t == slotName s with
      | false => rfl
      | true =>
        have e : head t = slotName s := by simpa using he
        have := hpre (head t) t (htake t)
        rw [e, hno s] at this
        contradiction
    have hs : headSlot t = none := by
      simp [headSlot, allSlots, hhead]
    have fe : ∀ s', fires legacy.enc t s' = false := by
      intro s'; cases s' <;> simp [fires, legacy, Preds.get, holdsPred, hno, heq]
    have fd : ∀ s', fires legacy.dec t s' = false := by
      intro s'; cases s' <;> simp [fires, legacy, Preds.get, holdsPred, hno]
    exact ⟨by rw [enc_none legacy t fe, hs]; rfl, by rw [dec_none legacy t fd, hs]; rfl⟩

/-! ### Decision over the extracted facts -/

structure Facts where
  encKey : Pred
  encValue : Pred
  encExpireAt : Pred
  encCreatedBy : Pred
  encCreatedAt : Pred
  encUpdatedBy : Pred
  encUpdatedAt : Pred
  decKey : Pred
  decValue : Pred
  decExpireAt : Pred
  decCreatedBy : Pred
  decCreatedAt : Pred
  decUpdatedBy : Pred
  decUpdatedAt : Pred
  loopOrder : Tri          -- both loops test the slots in the modelled order, value falls through only in the encoder
  shapeUsesHead : Tri      -- inspectCatalogModel compares `strings.Split(raw, ",")[0]` with the reserved names
  deriving Repr

def cfgOf (f : Facts) : Cfg :=
  ⟨⟨f.encKey, f.encValue, f.encExpireAt, f.encCreatedBy, f.encCreatedAt, f.encUpdatedBy, f.encUpdatedAt⟩,
   ⟨f.decKey, f.decValue, f.decExpireAt, f.decCreatedBy, f.decCreatedAt, f.decUpdatedBy, f.decUpdatedAt⟩⟩

def hasUnknownPred (c : Cfg) : Bool :=
  allSlots.any (fun s => c.enc.get s == .unknown || c.dec.get s == .unknown)

def findings (c : Cfg) : List String :=
  (if c.enc.noContains && c.dec.noContains then [] else ["C22-substring-tag-match"]) ++
  (if allSlots.any (fun s => c.enc.get s == .eq || c.dec.get s == .eq) then ["C22-whole-tag-equality"] else [])

def classify (f : Facts) : Verdict :=
  if f.loopOrder != .yes || f.shapeUsesHead != .yes then .undetermined "loop structure of the SDK conversions not recognised"
  else if hasUnknownPred (cfgOf f) then .undetermined "a tag predicate of the SDK conversions was not recognised"
  else if (cfgOf f).allHeadEq then .holds
  else .violated (findings (cfgOf f))

theorem classify_sound (f : Facts) :
    (classify f).Sound (Holds (cfgOf f)) (cfgOf f = legacy → ∀ t, Plain t → Agree (cfgOf f) t) := by
  unfold classify
  split
  · trivial
  · split
    · trivial
    · split
      · rename_i h; exact (slots_agree _).mpr h
      · rename_i h
        exact ⟨not_holds_of_not_allHeadEq _ (by simpa using h), fun e t ht => e ▸ agree_plain_partial t ht⟩

end Hv.C22
