/-
  C22 — SDK model save/read round-trips exactly; "a field's tag name never changes how another
  part of the model is encoded or decoded".

  What is PROVED here is the tag half of the property, for every tag string: the encoder, the
  decoder and the shape detector of the SDK classify a `hydraide:"…"` tag identically
  (`Agree`) for ALL tags iff every predicate in the two conversion loops compares the tag HEAD
  (`slots_agree`).  A substring test (`contains`) lets a body field's NAME hijack a slot
  ("keywords" ⊇ "key", "values" ⊇ "value", "createdAtX" ⊇ "createdAt"); a whole-tag equality
  (`eq`) misses a reserved name that carries options ("key,omitempty").
  The VALUE half is the second part of this file: the conversion table Go kind ↔ proto field ↔
  server content type (Hv/Misc/SdkValues.lean) and `convert_roundtrip` — every well-typed value of
  every supported kind comes back unchanged through the value slot and through a map-body field, on
  the stated exact domain — with closed witnesses for what does NOT come back on the real SDK
  (sub-second part of a time value, a struct value, a nil container in a body field, empty-but-
  non-nil containers and -0 under omitempty).  The container codecs (gob/msgpack) are parameters.
  Models: Hv/Misc/SdkTags.lean, Hv/Misc/SdkValues.lean.
-/
import Hv.Misc.SdkTags
import Hv.Misc.SdkValuesLemmas
import Hv.Basic.Verdict

namespace Hv.C22
open Hv.SdkTags

/-- The full-strength TAG statement: for EVERY tag string the three classifiers agree. -/
def TagHolds (cfg : Cfg) : Prop := ∀ t : Tag, Agree cfg t

/-! ### all predicates compare the head ⇒ agreement on every tag -/

theorem fires_headEq (ps : Preds) (h : ps.allHeadEq = true) (t : Tag) (s : Slot) :
    fires ps t s = (head t == slotName s) := by
  simp only [Preds.allHeadEq, Bool.and_eq_true, beq_iff_eq] at h
  obtain ⟨⟨⟨⟨⟨⟨h1, h2⟩, h3⟩, h4⟩, h5⟩, h6⟩, h7⟩ := h
  cases s <;> simp [fires, Preds.get, holdsPred, *]

/-- the two loops, as functions of the tag head only -/
def decOfHead (hd : Tag) : List Slot := (allSlots.find? (fun s => hd == slotName s)).toList
def encOfHead (hd : Tag) : List Slot :=
  if hd == slotName .key then [.key]
  else (if hd == slotName .value then [.value] else []) ++ (metaSlots.find? (fun s => hd == slotName s)).toList

theorem firstOf_eq_find (ps : Preds) (h : ps.allHeadEq = true) (t : Tag) (l : List Slot) :
    firstOf ps t l = l.find? (fun s => head t == slotName s) := by
  induction l with
  | nil => rfl
  | cons a as ih => simp only [firstOf, fires_headEq ps h, List.find?_cons, ih]; cases head t == slotName a <;> rfl

theorem encOfHead_eq (hd : Tag) : encOfHead hd = decOfHead hd := by
  unfold encOfHead decOfHead
  by_cases h1 : hd = slotName .key
  · subst h1; decide
  by_cases h2 : hd = slotName .value
  · subst h2; decide
  by_cases h3 : hd = slotName .expireAt
  · subst h3; decide
  by_cases h4 : hd = slotName .createdBy
  · subst h4; decide
  by_cases h5 : hd = slotName .createdAt
  · subst h5; decide
  by_cases h6 : hd = slotName .updatedBy
  · subst h6; decide
  by_cases h7 : hd = slotName .updatedAt
  · subst h7; decide
  simp [allSlots, metaSlots, h1, h2, h3, h4, h5, h6, h7]

theorem agree_of_allHeadEq (cfg : Cfg) (h : cfg.allHeadEq = true) (t : Tag) : Agree cfg t := by
  simp only [Cfg.allHeadEq, Bool.and_eq_true] at h
  have hd : decSlots cfg t = decOfHead (head t) := by
    simp only [decSlots, decOfHead, firstOf_eq_find cfg.dec h.2]
  have he : encSlots cfg t = encOfHead (head t) := by
    simp only [encSlots, encOfHead, firstOf_eq_find cfg.enc h.1, fires_headEq cfg.enc h.1]
  refine ⟨?_, ?_⟩
  · rw [he, encOfHead_eq]; rfl
  · rw [hd]; rfl

/-! ### any other predicate ⇒ some tag is classified differently -/

/-- name + "X": contains the name, but its head is not a reserved name -/
def w1 (s : Slot) : Tag := slotName s ++ ['X']
/-- name + ",o": the head IS the name, the whole tag is not -/
def w2 (s : Slot) : Tag := slotName s ++ [',', 'o']

theorem w1_others (s s' : Slot) (p : Pred) (h : s' ≠ s) : holdsPred p (slotName s') (w1 s) = false := by
  cases s <;> cases s' <;> first | contradiction | (cases p <;> decide)

theorem w2_others (s s' : Slot) (p : Pred) (h : s' ≠ s) : holdsPred p (slotName s') (w2 s) = false := by
  cases s <;> cases s' <;> first | contradiction | (cases p <;> decide)

theorem w1_self (s : Slot) : holdsPred .contains (slotName s) (w1 s) = true ∧ headSlot (w1 s) = none := by
  cases s <;> decide

theorem w2_self (s : Slot) :
    holdsPred .eq (slotName s) (w2 s) = false ∧ holdsPred .unknown (slotName s) (w2 s) = false ∧
    headSlot (w2 s) = some s := by
  cases s <;> decide

theorem enc_only (cfg : Cfg) (t : Tag) (s : Slot) (h : ∀ s', fires cfg.enc t s' = decide (s' = s)) :
    encSlots cfg t = [s] := by
  cases s <;> simp [encSlots, firstOf, metaSlots, h]

theorem enc_none (cfg : Cfg) (t : Tag) (h : ∀ s', fires cfg.enc t s' = false) : encSlots cfg t = [] := by
  simp [encSlots, firstOf, metaSlots, h]

theorem dec_only (cfg : Cfg) (t : Tag) (s : Slot) (h : ∀ s', fires cfg.dec t s' = decide (s' = s)) :
    decSlots cfg t = [s] := by
  cases s <;> simp [decSlots, firstOf, allSlots, h]

theorem dec_none (cfg : Cfg) (t : Tag) (h : ∀ s', fires cfg.dec t s' = false) : decSlots cfg t = [] := by
  simp [decSlots, firstOf, allSlots, h]

/-- shared core: a predicate list with a non-head predicate at `s` misfires on `w1 s` or `w2 s` -/
theorem misfire (ps : Preds) (s : Slot) (h : ps.get s ≠ .headEq) :
    (headSlot (w1 s) = none ∧ ∀ s', fires ps (w1 s) s' = decide (s' = s)) ∨
    (headSlot (w2 s) = some s ∧ ∀ s', fires ps (w2 s) s' = false) := by
  cases hp : ps.get s with
  | headEq => exact absurd hp h
  | contains =>
    left
    refine ⟨(w1_self s).2, fun s' => ?_⟩
    by_cases e : s' = s
    · subst e; simp [fires, hp, (w1_self s').1]
    · simp [fires, e, w1_others s s' _ e]
  | eq =>
    right
    refine ⟨(w2_self s).2.2, fun s' => ?_⟩
    by_cases e : s' = s
    · subst e; simp [fires, hp, (w2_self s').1]
    · simp [fires, w2_others s s' _ e]
  | unknown =>
    right
    refine ⟨(w2_self s).2.2, fun s' => ?_⟩
    by_cases e : s' = s
    · subst e; simp [fires, hp, holdsPred]
    · simp [fires, w2_others s s' _ e]

theorem not_allHeadEq_slot (ps : Preds) (h : ps.allHeadEq = false) : ∃ s, ps.get s ≠ .headEq := by
  obtain ⟨a, b, c, d, e, f, g⟩ := ps
  by_cases ha : a = .headEq
  · by_cases hb : b = .headEq
    · by_cases hc : c = .headEq
      · by_cases hd : d = .headEq
        · by_cases he : e = .headEq
          · by_cases hf : f = .headEq
            · by_cases hg : g = .headEq
              · subst ha hb hc hd he hf hg; simp [Preds.allHeadEq] at h
              · exact ⟨.updatedAt, hg⟩
            · exact ⟨.updatedBy, hf⟩
          · exact ⟨.createdAt, he⟩
        · exact ⟨.createdBy, hd⟩
      · exact ⟨.expireAt, hc⟩
    · exact ⟨.value, hb⟩
  · exact ⟨.key, ha⟩

theorem not_holds_of_not_allHeadEq (cfg : Cfg) (h : cfg.allHeadEq = false) : ¬ TagHolds cfg := by
  intro hh
  simp only [Cfg.allHeadEq, Bool.and_eq_false_iff] at h
  rcases h with h | h
  · obtain ⟨s, hs⟩ := not_allHeadEq_slot cfg.enc h
    rcases misfire cfg.enc s hs with ⟨hn, hf⟩ | ⟨hn, hf⟩
    · have := (hh (w1 s)).1
      rw [enc_only cfg _ s hf, hn] at this
      simp at this
    · have := (hh (w2 s)).1
      rw [enc_none cfg _ hf, hn] at this
      simp at this
  · obtain ⟨s, hs⟩ := not_allHeadEq_slot cfg.dec h
    rcases misfire cfg.dec s hs with ⟨hn, hf⟩ | ⟨hn, hf⟩
    · have := (hh (w1 s)).2
      rw [dec_only cfg _ s hf, hn] at this
      simp at this
    · have := (hh (w2 s)).2
      rw [dec_none cfg _ hf, hn] at this
      simp at this

/-- All three classify every tag string identically iff every predicate compares the tag head. -/
theorem slots_agree (cfg : Cfg) : TagHolds cfg ↔ cfg.allHeadEq = true := by
  constructor
  · intro h
    cases hc : cfg.allHeadEq with
    | true => rfl
    | false => exact absurd h (not_holds_of_not_allHeadEq cfg hc)
  · intro h t; exact agree_of_allHeadEq cfg h t

/-! ### the code as it was: substring tests everywhere except the encoder's key -/

def hp : Preds := ⟨.headEq, .headEq, .headEq, .headEq, .headEq, .headEq, .headEq⟩
def repaired : Cfg := ⟨hp, hp⟩
def legacy : Cfg :=
  ⟨⟨.eq, .contains, .contains, .contains, .contains, .contains, .contains⟩,
   ⟨.contains, .contains, .contains, .contains, .contains, .contains, .contains⟩⟩

def tKeywords : Tag := ['k', 'e', 'y', 'w', 'o', 'r', 'd', 's']
def tValues : Tag := ['v', 'a', 'l', 'u', 'e', 's']
def tCreatedAtX : Tag := ['c', 'r', 'e', 'a', 't', 'e', 'd', 'A', 't', 'X']
def tKeyOmit : Tag := ['k', 'e', 'y', ',', 'o', 'm', 'i', 't', 'e', 'm', 'p', 't', 'y']
def tValueOmit : Tag := ['v', 'a', 'l', 'u', 'e', ',', 'o', 'm', 'i', 't', 'e', 'm', 'p', 't', 'y']
def tTitle : Tag := ['T', 'i', 't', 'l', 'e']

/-- "keywords" is a body field for the shape detector and the encoder, but the decoder assigns
    the record KEY to it (after the body was decoded). -/
theorem witness_keywords :
    isBody tKeywords = true ∧ encSlots legacy tKeywords = [] ∧ decSlots legacy tKeywords = [.key] := by decide

/-- "values" is a body field for the shape detector, yet encoder and decoder treat it as THE value
    (the encoder then emits a typed value next to the bytes body; the server keeps the typed one). -/
theorem witness_values :
    isBody tValues = true ∧ encSlots legacy tValues = [.value] ∧ decSlots legacy tValues = [.value] := by decide

/-- "createdAtX" is a body field, yet it is encoded into / decoded from the createdAt metadata. -/
theorem witness_createdAtX :
    isBody tCreatedAtX = true ∧ encSlots legacy tCreatedAtX = [.createdAt] ∧
    decSlots legacy tCreatedAtX = [.createdAt] := by decide

/-- "key,omitempty": reserved for the shape detector and the decoder, ignored by the encoder. -/
theorem witness_key_with_option :
    headSlot tKeyOmit = some .key ∧ encSlots legacy tKeyOmit = [] ∧ decSlots legacy tKeyOmit = [.key] := by decide

/-- Non-vacuity: ordinary tags are classified the same way by both configurations. -/
example : Agree legacy tValueOmit ∧ Agree legacy tTitle ∧ Agree repaired tValueOmit ∧ Agree repaired tTitle ∧
          Agree repaired tKeywords ∧ Agree repaired tValues ∧ Agree repaired tCreatedAtX ∧ Agree repaired tKeyOmit := by decide
example : repaired.allHeadEq = true ∧ legacy.allHeadEq = false := by decide

/-- What the legacy predicates still guarantee: tags that contain no reserved name as a substring
    other than as their exact whole (every tag of the baseline suite is of this kind). -/
def Plain (t : Tag) : Prop :=
  ∀ s, hasInfix (slotName s) t = true → t = slotName s

theorem agree_plain_partial (t : Tag) (hpl : Plain t) : Agree legacy t := by
  -- either the tag IS a reserved name (closed check), or no reserved name occurs in it
  by_cases hk : ∃ s, t = slotName s
  · obtain ⟨s, rfl⟩ := hk
    cases s <;> decide
  · have hno : ∀ s, hasInfix (slotName s) t = false := by
      intro s
      cases hi : hasInfix (slotName s) t with
      | false => rfl
      | true => exact absurd ⟨s, hpl s hi⟩ hk
    have heq : ∀ s, (t == slotName s) = false := by
      intro s
      cases he : t == slotName s with
      | false => rfl
      | true => exact absurd ⟨s, by simpa using he⟩ hk
    -- the head of a tag is a prefix of it: if the head were a reserved name, that name would occur in the tag
    have hpre : ∀ (pat t : Tag), pat.isPrefixOf t = true → hasInfix pat t = true := by
      intro pat t h
      cases t with
      | nil => cases pat <;> simp_all [hasInfix]
      | cons c cs => simp [hasInfix, h]
    have htake : ∀ (t : Tag), (t.takeWhile (· ≠ ',')).isPrefixOf t = true :=
      fun t => List.isPrefixOf_iff_prefix.mpr (List.takeWhile_prefix _)
    have hhead : ∀ s, (head t == slotName s) = false := by
      intro s
      cases he : head t == slotName s with
      | false => rfl
      | true =>
        have e : head t = slotName s := by simpa using he
        have := hpre (head t) t (htake t)
        rw [e, hno s] at this
        contradiction
    have hs : headSlot t = none := by
      simp [headSlot, allSlots, hhead]
    have fe : ∀ s', fires legacy.enc t s' = false := by
      intro s'; cases s' <;> simp [fires, legacy, Preds.get, holdsPred, hno, heq]
    have fd : ∀ s', fires legacy.dec t s' = false := by
      intro s'; cases s' <;> simp [fires, legacy, Preds.get, holdsPred, hno]
    exact ⟨by rw [enc_none legacy t fe, hs]; rfl, by rw [dec_none legacy t fd, hs]; rfl⟩

/-! ## value conversions -/

namespace Values
open Hv.SdkValues

/-- the codec that returns containers exactly: the SDK's own part of the round trip -/
def idLib : Lib := ⟨fun _ c => c⟩
theorem idLib_lawful : idLib.Lawful := fun _ _ _ => rfl

/-- The full-strength VALUE statement: every well-typed value of every supported kind (arrays and
    non-UTF-8 strings are refused with an explicit error and are not part of the claim), with or
    without `omitempty`, comes back equal — as THE value and as a map-body field. -/
def Holds (cfg : SdkValues.Cfg) : Prop :=
  ∀ (k : Kind) (om : Bool) (v : Val), WellTyped k v → k ≠ .array → (∀ s, v ≠ .str false s) →
    (∀ s n, v = .time s n → inRange (true, 64) s) →
    valueRT cfg idLib k om v = .ok v ∧ bodyRT cfg k om v = .ok v ∧
    (∀ v1, WellTyped k v1 → valueUpdRT cfg idLib k om v1 v = valueRT cfg idLib k om v)   -- an overwrite reads back the LAST value

/-- values for which the code as it is round-trips exactly through the value slot -/
def ExactValue (cfg : SdkValues.Cfg) (lib : Lib) (k : Kind) (om : Bool) : Val → Prop
  | .str valid _ => valid = true
  | .bool _ => True
  | .num _ => True
  | .flt b => om = true → cfg.emptyNegZero = true → b ≠ signBit k
  | .bytes b => om = true → cfg.emptyLenZero = true → b ≠ some []
  | .cont c => (om = true → cfg.emptyLenZero = true → k ≠ .ptr → c ≠ some []) ∧
               ((k = .ptr ∧ c = none) ∨ lib.norm k c = c)      -- the codec returns this container exactly
  | .time s n => isEmpty cfg k (.time s n) = true ∨ (inRange (true, 64) s ∧ (cfg.timeAsUnixSeconds = true → n = 0))
  | .stru x => k = .struct ∧ (cfg.structValueEncoded = true ∨ x = 0)

/-- …and through a map-body field -/
def ExactBody (cfg : SdkValues.Cfg) (k : Kind) (om : Bool) : Val → Prop
  | .flt b => om = true → cfg.emptyNegZero = true → b ≠ signBit k
  | .bytes b => (om = true → cfg.emptyLenZero = true → b ≠ some []) ∧ (b = none → om = true ∨ cfg.bodySkipsNil = true)
  | .cont c => (om = true → cfg.emptyLenZero = true → k ≠ .ptr → c ≠ some []) ∧ (c = none → om = true ∨ cfg.bodySkipsNil = true)
  | _ => True

theorem kind_in_intKinds (k : Kind) (t : IntTy) (h : kindInt k = some t) : k ∈ intKinds := by
  cases k <;> simp [kindInt] at h <;> simp [intKinds]

theorem intOK_of_table (cfg : SdkValues.Cfg) (ht : tableOK cfg = true) (k : Kind) (t : IntTy) (h : kindInt k = some t) :
    intOK cfg k t = true := by
  simp only [tableOK, Bool.and_eq_true, List.all_eq_true] at ht
  have := ht.1.1.1.1.1.1.1.1.1 k (kind_in_intKinds k t h)
  simpa [intKindOK, h] using this

/-- `om ∧ empty` sends nothing and the field keeps its zero value — which IS the value on the exact domain -/
theorem empty_is_zero (cfg : SdkValues.Cfg) (k : Kind) (v : Val) (hw : WellTyped k v)
    (he : isEmpty cfg k v = true)
    (hf : ∀ b, v = .flt b → cfg.emptyNegZero = true → b ≠ signBit k)
    (hb : ∀ b, v = .bytes b → cfg.emptyLenZero = true → b ≠ some [])
    (hc : ∀ c, v = .cont c → cfg.emptyLenZero = true → k ≠ .ptr → c ≠ some [])
    (hs : ∀ valid s, v = .str valid s → valid = true) : zero k = v := by
  cases v with
  | str valid s =>
    have := hs valid s rfl
    simp only [WellTyped] at hw; subst hw; subst this
    simp only [isEmpty, List.isEmpty_iff] at he; subst he; rfl
  | bool b => simp [isEmpty] at he
  | num n =>
    obtain ⟨t, ht, _⟩ := hw
    simp only [isEmpty, beq_iff_eq] at he; subst he
    cases k <;> simp [kindInt] at ht <;> rfl
  | flt b =>
    simp only [isEmpty, Bool.or_eq_true, Bool.and_eq_true, beq_iff_eq] at he
    rcases he with he | ⟨hz, he⟩
    · subst he; rcases hw with ⟨rfl, _⟩ | ⟨rfl, _⟩ <;> rfl
    · exact absurd he (hf b rfl hz)
  | bytes b =>
    simp only [WellTyped] at hw; subst hw
    simp only [isEmpty, Bool.or_eq_true, Bool.and_eq_true, beq_iff_eq, Option.isNone_iff_eq_none] at he
    rcases he with he | ⟨hz, he⟩
    · subst he; rfl
    · exact absurd he (hb b rfl hz)
  | cont c =>
    simp only [isEmpty] at he
    by_cases hp : k = .ptr
    · subst hp; simp only [beq_self_eq_true, if_true, Option.isNone_iff_eq_none] at he; subst he; rfl
    · have hp' : (k == Kind.ptr) = false := by simpa using hp
      simp only [hp', Bool.false_eq_true, if_false, Bool.or_eq_true, Bool.and_eq_true, beq_iff_eq,
        Option.isNone_iff_eq_none] at he
      rcases he with he | ⟨hz, he⟩
      · subst he
        rcases hw with rfl | rfl | ⟨rfl, _⟩
        · rfl
        · rfl
        · exact absurd rfl hp
      · exact absurd he (hc c rfl hz hp)
  | time s n =>
    simp only [WellTyped] at hw
    simp only [isEmpty, Bool.and_eq_true, beq_iff_eq] at he
    obtain ⟨rfl, _⟩ := hw
    obtain ⟨rfl, rfl⟩ := he
    rfl
  | stru x => simp [isEmpty] at he

/-- a lawful codec returns every NON-EMPTY container exactly -/
theorem lawful_nonempty_exact (lib : Lib) (hl : lib.Lawful) (k : Kind) (x : Nat) (xs : List Nat) :
    lib.norm k (some (x :: xs)) = some (x :: xs) := hl k x xs

/-- Round trip through the VALUE slot, per kind: whatever the tables are, as long as they connect
    every kind to itself without a narrowing hop (`tableOK`), for every value of the exact domain. -/
theorem convert_roundtrip (cfg : SdkValues.Cfg) (lib : Lib) (ht : tableOK cfg = true)
    (k : Kind) (om : Bool) (v : Val) (hw : WellTyped k v) (hx : ExactValue cfg lib k om v) :
    valueRT cfg lib k om v = .ok v := by
  have htab := ht
  simp only [tableOK, Bool.and_eq_true] at htab
  obtain ⟨⟨⟨⟨⟨⟨⟨⟨⟨_, hTime⟩, hStr⟩, hBool⟩, hF32⟩, hF64⟩, hBytes⟩, hSlice⟩, hMap⟩, hPtr⟩ := htab
  unfold valueRT
  have hka : (k == Kind.array) = false := by
    cases v <;> simp only [WellTyped, ExactValue] at hw hx
    · subst hw; rfl
    · subst hw; rfl
    · obtain ⟨t, h, _⟩ := hw; cases k <;> simp [kindInt] at h <;> rfl
    · rcases hw with ⟨rfl, _⟩ | ⟨rfl, _⟩ <;> rfl
    · subst hw; rfl
    · rcases hw with rfl | rfl | ⟨rfl, _⟩ <;> rfl
    · obtain ⟨rfl, _⟩ := hw; rfl
    · obtain ⟨rfl, _⟩ := hx; rfl
  simp only [hka, Bool.false_eq_true, if_false]
  by_cases hoe : (om && isEmpty cfg k v) = true
  · simp only [hoe, if_true]
    simp only [Bool.and_eq_true] at hoe
    obtain ⟨hom, he⟩ := hoe
    congr 1
    apply empty_is_zero cfg k v hw he
    · intro b hv; subst hv; exact hx hom
    · intro b hv; subst hv; exact hx hom
    · intro c hv hz hp; subst hv; exact hx.1 hom hz hp
    · intro valid s hv; subst hv; exact hx
  · simp only [hoe, Bool.false_eq_true, if_false]
    cases v with
    | str valid s =>
      simp only [ExactValue] at hx; subst hx
      simp only [WellTyped] at hw; subst hw
      simp [hStr]
    | bool b => simp only [WellTyped] at hw; subst hw; simp [hBool]
    | num n =>
      obtain ⟨t, hk, hr⟩ := hw
      simp only [hk, intHops_id cfg k t n (intOK_of_table cfg ht k t hk) hr]
    | flt b =>
      rcases hw with ⟨rfl, _⟩ | ⟨rfl, _⟩
      · simp [hF32]
      · simp [hF64]
    | bytes b =>
      simp only [WellTyped] at hw; subst hw
      cases b with
      | none => simp
      | some bs => simp [hBytes]
    | cont c =>
      obtain ⟨_, hx⟩ := hx
      rcases hx with ⟨rfl, rfl⟩ | hn
      · simp
      · rcases hw with rfl | rfl | ⟨rfl, _⟩
        · simp [hSlice, hn]
        · simp [hMap, hn]
        · cases c with
          | none => simp
          | some l => simp [hPtr, hn]
    | time s n =>
      simp only [ExactValue] at hx
      rcases hx with he | ⟨hr, hn⟩
      · simp [he]
      · by_cases he : isEmpty cfg k (.time s n) = true
        · simp [he]
        · simp only [he, Bool.false_eq_true, if_false]
          cases hts : cfg.timeAsUnixSeconds with
          | false => simp
          | true =>
            have := hn hts; subst this
            simp only [if_true, intHops_id cfg .time (true, 64) s hTime hr]
    | stru x =>
      obtain ⟨hk, hx⟩ := hx
      subst hk
      rcases hx with hx | hx
      · simp [hx]
      · subst hx; cases cfg.structValueEncoded <;> simp [zero]

/-- Round trip through a MAP-BODY field (msgpack of the value itself is assumed exact). -/
theorem body_roundtrip (cfg : SdkValues.Cfg) (k : Kind) (om : Bool) (v : Val) (hw : WellTyped k v)
    (hs : ∀ s, v ≠ .str false s) (hx : ExactBody cfg k om v) : bodyRT cfg k om v = .ok v := by
  unfold bodyRT
  by_cases hoe : (om && isEmpty cfg k v) = true
  · simp only [hoe, if_true]
    simp only [Bool.and_eq_true] at hoe
    obtain ⟨hom, he⟩ := hoe
    congr 1
    apply empty_is_zero cfg k v hw he
    · intro b hv; subst hv; exact hx hom
    · intro b hv; subst hv; exact hx.1 hom
    · intro c hv hz hp; subst hv; exact hx.1 hom hz hp
    · intro valid s hv; subst hv
      cases valid with
      | true => rfl
      | false => exact absurd rfl (hs s)
  · simp only [hoe, Bool.false_eq_true, if_false]
    cases v with
    | cont c =>
      cases c with
      | none =>
        rcases hx.2 rfl with h | h
        · subst h
          have : isEmpty cfg k (.cont none) = true := by simp [isEmpty]
          simp [this] at hoe
        · simp [h]
      | some l => rfl
    | bytes b =>
      cases b with
      | none =>
        rcases hx.2 rfl with h | h
        · subst h
          have : isEmpty cfg k (.bytes none) = true := by simp [isEmpty]
          simp [this] at hoe
        · simp [h]
      | some l => rfl
    | _ => rfl

/-! ### the tables of the current tree, and what does not come back -/

def shipped : SdkValues.Cfg :=
  { enc := [(.str, .stringVal), (.bool, .boolVal), (.u8, .uint8Val), (.u16, .uint16Val), (.u32, .uint32Val), (.u64, .uint64Val),
            (.uint, .uint64Val), (.i8, .int8Val), (.i16, .int16Val), (.i32, .int32Val), (.i64, .int64Val), (.int, .int64Val),
            (.f32, .float32Val), (.f64, .float64Val), (.bytes, .bytesVal), (.slice, .bytesVal), (.map, .bytesVal),
            (.ptr, .bytesVal), (.time, .int64Val)],
    store := [(.int8Val, .cInt8), (.int16Val, .cInt16), (.int32Val, .cInt32), (.int64Val, .cInt64), (.uint8Val, .cUint8),
              (.uint16Val, .cUint16), (.uint32Val, .cUint32), (.uint64Val, .cUint64), (.float32Val, .cFloat32),
              (.float64Val, .cFloat64), (.stringVal, .cString), (.boolVal, .cBool), (.bytesVal, .cBytes)],
    read := [(.cInt8, .int8Val), (.cInt16, .int16Val), (.cInt32, .int32Val), (.cInt64, .int64Val), (.cUint8, .uint8Val),
             (.cUint16, .uint16Val), (.cUint32, .uint32Val), (.cUint64, .uint64Val), (.cFloat32, .float32Val),
             (.cFloat64, .float64Val), (.cString, .stringVal), (.cBool, .boolVal), (.cBytes, .bytesVal)],
    dec := [(.stringVal, [.str]), (.uint8Val, [.u8]), (.uint16Val, [.u16]), (.uint32Val, [.u32]), (.uint64Val, [.u64, .uint]),
            (.int8Val, [.i8]), (.int16Val, [.i16]), (.int32Val, [.i32]), (.int64Val, [.i64, .int, .time]),
            (.float32Val, [.f32]), (.float64Val, [.f64]), (.boolVal, [.bool]), (.bytesVal, [.bytes, .slice, .map, .ptr])],
    timeAsUnixSeconds := true, structValueEncoded := false, bodySkipsNil := false, emptyLenZero := true, emptyNegZero := true,
    voidClearsContent := false }

example : tableOK shipped = true := by decide

/-- non-vacuity: boundary values of the narrowest and widest kinds, a time, a pointer, a map -/
example : valueRT shipped gobLib .i8 false (.num (-128)) = .ok (.num (-128)) ∧
          valueRT shipped gobLib .u64 true (.num 18446744073709551615) = .ok (.num 18446744073709551615) ∧
          valueRT shipped gobLib .time false (.time 1928117106 0) = .ok (.time 1928117106 0) ∧
          valueRT shipped gobLib .time false (.time (-315619200) 0) = .ok (.time (-315619200) 0) ∧
          valueRT shipped gobLib .ptr false (.cont (some [7])) = .ok (.cont (some [7])) ∧
          bodyRT shipped .map false (.cont (some [])) = .ok (.cont (some [])) ∧
          bodyRT shipped .time false (.time 1928117106 789000000) = .ok (.time 1928117106 789000000) := by decide

/-- a narrowing hop IS visible in the model: store uint16 values as a uint8 content and 300 comes back as 44 -/
example : valueRT { shipped with store := (.uint16Val, .cUint8) :: shipped.store, read := (.cUint8, .uint16Val) :: shipped.read }
            gobLib .u16 false (.num 300) = .ok (.num 44) := by decide

/-- a time VALUE is sent as Unix seconds: the sub-second part is lost -/
theorem time_value_truncated :
    valueRT shipped gobLib .time false (.time 1928117106 789000000) = .ok (.time 1928117106 0) := by decide

/-- a struct VALUE (other than time.Time) is silently not sent at all -/
theorem struct_value_dropped : valueRT shipped gobLib .struct false (.stru 5) = .ok (.stru 0) := by decide

/-- a nil slice / map / pointer in a map-body field is saved as msgpack nil and cannot be read back -/
theorem nil_body_field_unreadable :
    bodyRT shipped .slice false (.cont none) = .err ∧ bodyRT shipped .ptr false (.cont none) = .err := by decide

/-- `omitempty` turns an empty non-nil []byte into nil and -0.0 into +0.0 -/
theorem omitempty_normalises :
    valueRT shipped gobLib .bytes true (.bytes (some [])) = .ok (.bytes none) ∧
    valueRT shipped gobLib .f64 true (.flt (2 ^ 63)) = .ok (.flt 0) ∧
    bodyRT shipped .slice true (.cont (some [])) = .ok (.cont none) := by decide

/-- gob itself (a parameter): an empty slice comes back nil, a nil map comes back empty -/
theorem gob_nil_empty_witness :
    valueRT shipped gobLib .slice false (.cont (some [])) = .ok (.cont none) ∧
    valueRT shipped gobLib .map false (.cont none) = .ok (.cont (some [])) := by decide

/-- arrays and non-UTF-8 strings are refused with an error -/
example : valueRT shipped gobLib .array false (.stru 1) = .err ∧ valueRT shipped gobLib .str false (.str false [255]) = .err := by decide

/-! ### the full statement for repaired flags, its negation for each flag -/

def flagsGood (cfg : SdkValues.Cfg) : Bool :=
  !cfg.timeAsUnixSeconds && cfg.structValueEncoded && cfg.bodySkipsNil && !cfg.emptyLenZero && !cfg.emptyNegZero &&
  cfg.voidClearsContent

theorem holds_of_good (cfg : SdkValues.Cfg) (ht : tableOK cfg = true) (hf : flagsGood cfg = true) : Holds cfg := by
  simp only [flagsGood, Bool.and_eq_true, Bool.not_eq_true'] at hf
  obtain ⟨⟨⟨⟨⟨h1, h2⟩, h3⟩, h4⟩, h5⟩, h6⟩ := hf
  intro k om v hw hka hs ht64
  refine ⟨convert_roundtrip cfg idLib ht k om v hw ?_, body_roundtrip cfg k om v hw hs ?_,
    fun v1 _ => by simp [valueUpdRT, h6]⟩
  · cases v with
    | str valid s => cases valid with
      | true => rfl
      | false => exact absurd rfl (hs s)
    | bool b => trivial
    | num n => trivial
    | flt b => intro _ h; simp [h5] at h
    | bytes b => intro _ h; simp [h4] at h
    | cont c => exact ⟨fun _ h => by simp [h4] at h, Or.inr rfl⟩
    | time s n => exact Or.inr ⟨ht64 s n rfl, fun h => by simp [h1] at h⟩
    | stru x =>
      rcases hw with rfl | rfl
      · exact ⟨rfl, Or.inl h2⟩
      · exact absurd rfl hka
  · cases v with
    | flt b => intro _ h; simp [h5] at h
    | bytes b => exact ⟨fun _ h => by simp [h4] at h, fun _ => Or.inr h3⟩
    | cont c => exact ⟨fun _ h => by simp [h4] at h, fun _ => Or.inr h3⟩
    | _ => trivial

theorem refutes_time_seconds (cfg : SdkValues.Cfg) (h : cfg.timeAsUnixSeconds = true) : ¬ Holds cfg := by
  intro hh
  have := (hh .time false (.time 0 5) ⟨rfl, by decide⟩ (by decide) (by intro s; simp) (by
    intro s n e; injection e with e1 _; subst e1; decide)).1
  simp only [valueRT, isEmpty, h] at this
  revert this
  cases intHops cfg .time (true, 64) 0 <;> simp [zero]

theorem refutes_struct_dropped (cfg : SdkValues.Cfg) (h : cfg.structValueEncoded = false) : ¬ Holds cfg := by
  intro hh
  have := (hh .struct false (.stru 5) (Or.inl rfl) (by decide) (by intro s; simp) (by intro s n e; simp at e)).1
  simp [valueRT, isEmpty, h, zero] at this

theorem refutes_body_nil (cfg : SdkValues.Cfg) (h : cfg.bodySkipsNil = false) : ¬ Holds cfg := by
  intro hh
  have := (hh .slice false (.cont none) (Or.inl rfl) (by decide) (by intro s; simp) (by intro s n e; simp at e)).2.1
  simp [bodyRT, h] at this

theorem refutes_empty_len_zero (cfg : SdkValues.Cfg) (h : cfg.emptyLenZero = true) : ¬ Holds cfg := by
  intro hh
  have := (hh .slice true (.cont (some [])) (Or.inl rfl) (by decide) (by intro s; simp) (by intro s n e; simp at e)).2.1
  simp [bodyRT, isEmpty, h, zero] at this

theorem refutes_empty_neg_zero (cfg : SdkValues.Cfg) (h : cfg.emptyNegZero = true) : ¬ Holds cfg := by
  intro hh
  have := (hh .f64 true (.flt (2 ^ 63)) (Or.inr ⟨rfl, by decide⟩) (by decide) (by intro s; simp) (by intro s n e; simp at e)).2.1
  simp [bodyRT, isEmpty, h, zero, signBit] at this

/-- Overwriting a stored value with nothing (nil pointer here; also nil []byte, zero time, or a zero value
    under omitempty) leaves the OLD value in the treasure: the server's SetContentVoid does not clear a
    typed content. -/
theorem void_overwrite_keeps_old_value :
    valueUpdRT shipped gobLib .ptr false (.cont (some [2])) (.cont none) = .ok (.cont (some [2])) ∧
    valueUpdRT shipped gobLib .u8 true (.num 255) (.num 0) = .ok (.num 255) := by decide

/-- Profile models keep one treasure per field.  A field that became empty between two saves is removed when it is
    tagged `deletable` (it reads back as its zero value), and — as documented — LEFT IN PLACE when it is only tagged
    `omitempty`: the old value is read back. -/
theorem profile_field_update :
    profileUpdRT { shipped with voidClearsContent := true } gobLib .u8 true true (.num 255) (.num 0) = .ok (.num 0) ∧
    profileUpdRT { shipped with voidClearsContent := true } gobLib .u8 true false (.num 255) (.num 0) = .ok (.num 255) ∧
    profileUpdRT { shipped with voidClearsContent := true } gobLib .ptr false false (.cont (some [2])) (.cont none) = .ok (.cont none) ∧
    profileUpdRT { shipped with voidClearsContent := true } gobLib .u8 false false (.num 255) (.num 0) = .ok (.num 0) := by decide

theorem refutes_void_keeps (cfg : SdkValues.Cfg) (ht : tableOK cfg = true) (h : cfg.voidClearsContent = false) : ¬ Holds cfg := by
  intro hh
  have hv := hh .ptr false (.cont none) (Or.inr (Or.inr ⟨rfl, by simp⟩)) (by decide) (by intro s; simp)
    (by intro s n e; simp at e)
  have h3 := hv.2.2 (.cont (some [2])) (Or.inr (Or.inr ⟨rfl, by simp⟩))
  simp only [tableOK, Bool.and_eq_true] at ht
  have hPtr := ht.2
  simp [valueUpdRT, sendsVoid, isEmpty, h, valueRT, hPtr, idLib] at h3

end Values
/-! ### Decision over the extracted facts -/

structure Facts where
  encKey : Pred
  encValue : Pred
  encExpireAt : Pred
  encCreatedBy : Pred
  encCreatedAt : Pred
  encUpdatedBy : Pred
  encUpdatedAt : Pred
  decKey : Pred
  decValue : Pred
  decExpireAt : Pred
  decCreatedBy : Pred
  decCreatedAt : Pred
  decUpdatedBy : Pred
  decUpdatedAt : Pred
  loopOrder : Tri          -- both loops test the slots in the modelled order, value falls through only in the encoder
  shapeUsesHead : Tri      -- inspectCatalogModel compares `strings.Split(raw, ",")[0]` with the reserved names
  -- value conversions
  valEnc : List (SdkValues.Kind × SdkValues.Field)
  valStore : List (SdkValues.Field × SdkValues.Content)
  valRead : List (SdkValues.Content × SdkValues.Field)
  valDec : List (SdkValues.Field × List SdkValues.Kind)
  valTablesRecognised : Tri   -- the four switch tables were read completely
  timeAsUnixSeconds : Tri
  structValueEncoded : Tri
  bodySkipsNil : Tri
  emptyLenZero : Tri
  emptyNegZero : Tri
  voidClearsContent : Tri
  -- structural shapes (tested against a table of expected outcomes, not modelled)
  bodySkipsUnexported : Tri
  profileSkipsUnexported : Tri
  dashIsSkip : Tri
  deriving Repr

def cfgOf (f : Facts) : Cfg :=
  ⟨⟨f.encKey, f.encValue, f.encExpireAt, f.encCreatedBy, f.encCreatedAt, f.encUpdatedBy, f.encUpdatedAt⟩,
   ⟨f.decKey, f.decValue, f.decExpireAt, f.decCreatedBy, f.decCreatedAt, f.decUpdatedBy, f.decUpdatedAt⟩⟩

def valCfgOf (f : Facts) : SdkValues.Cfg :=
  ⟨f.valEnc, f.valStore, f.valRead, f.valDec, f.timeAsUnixSeconds.isYes, f.structValueEncoded.isYes,
   f.bodySkipsNil.isYes, f.emptyLenZero.isYes, f.emptyNegZero.isYes, f.voidClearsContent.isYes⟩

/-- The full-strength statement: tags AND values. -/
def Holds (f : Facts) : Prop := TagHolds (cfgOf f) ∧ Values.Holds (valCfgOf f)

def hasUnknownPred (c : Cfg) : Bool :=
  allSlots.any (fun s => c.enc.get s == .unknown || c.dec.get s == .unknown)

def valFlagsKnown (f : Facts) : Bool :=
  f.valTablesRecognised == .yes && f.timeAsUnixSeconds != .unknown && f.structValueEncoded != .unknown &&
  f.bodySkipsNil != .unknown && f.emptyLenZero != .unknown && f.emptyNegZero != .unknown && f.voidClearsContent != .unknown

def tagFindings (c : Cfg) : List String :=
  (if c.enc.noContains && c.dec.noContains then [] else ["C22-substring-tag-match"]) ++
  (if allSlots.any (fun s => c.enc.get s == .eq || c.dec.get s == .eq) then ["C22-whole-tag-equality"] else [])

def valFindings (v : SdkValues.Cfg) : List String :=
  (if v.bodySkipsNil then [] else ["C22-nil-body-field-unreadable"]) ++
  (if v.timeAsUnixSeconds then ["C22-value-time-truncated"] else []) ++
  (if v.structValueEncoded then [] else ["C22-struct-value-dropped"]) ++
  (if v.emptyLenZero || v.emptyNegZero then ["C22-omitempty-normalises"] else []) ++
  (if v.voidClearsContent then [] else ["C22-void-overwrite-keeps-old-value"])

def classify (f : Facts) : Verdict :=
  if f.loopOrder != .yes || f.shapeUsesHead != .yes then .undetermined "loop structure of the SDK conversions not recognised"
  else if hasUnknownPred (cfgOf f) then .undetermined "a tag predicate of the SDK conversions was not recognised"
  else if !valFlagsKnown f then .undetermined "a value conversion of the SDK / gateway was not recognised"
  else if !SdkValues.tableOK (valCfgOf f) then .undetermined "the value tables do not connect every kind to itself without narrowing"
  else if (cfgOf f).allHeadEq && Values.flagsGood (valCfgOf f) then .holds
  else .violated (tagFindings (cfgOf f) ++ valFindings (valCfgOf f))

/-- What the code as it is guarantees: plain tags are classified consistently, and every value of
    the exact domains round-trips through both slots (for any lawful container codec). -/
def HoldsPartial (f : Facts) : Prop :=
  (cfgOf f = legacy → ∀ t, Plain t → Agree (cfgOf f) t) ∧
  (∀ lib k om v, SdkValues.WellTyped k v → Values.ExactValue (valCfgOf f) lib k om v →
      SdkValues.valueRT (valCfgOf f) lib k om v = .ok v) ∧
  (∀ k om v, SdkValues.WellTyped k v → (∀ s, v ≠ .str false s) → Values.ExactBody (valCfgOf f) k om v →
      SdkValues.bodyRT (valCfgOf f) k om v = .ok v)

theorem classify_sound (f : Facts) : (classify f).Sound (Holds f) (HoldsPartial f) := by
  unfold classify
  split
  · trivial
  · split
    · trivial
    · split
      · trivial
      · split
        · trivial
        · rename_i _ _ _ htab
          have htab' : SdkValues.tableOK (valCfgOf f) = true := by simpa using htab
          split
          · rename_i h
            simp only [Bool.and_eq_true] at h
            exact ⟨(slots_agree _).mpr h.1, Values.holds_of_good _ htab' h.2⟩
          · rename_i h
            refine ⟨?_, fun e t ht => e ▸ agree_plain_partial t ht,
              fun lib k om v hw hx => Values.convert_roundtrip _ lib htab' k om v hw hx,
              fun k om v hw hs hx => Values.body_roundtrip _ k om v hw hs hx⟩
            intro hh
            simp only [Bool.and_eq_true, not_and, Bool.not_eq_true] at h
            cases ha : (cfgOf f).allHeadEq with
            | false => exact not_holds_of_not_allHeadEq _ ha hh.1
            | true =>
              have hg := h ha
              simp only [Values.flagsGood, Bool.and_eq_false_iff, Bool.not_eq_false', Bool.not_eq_false] at hg
              rcases hg with ((((hg | hg) | hg) | hg) | hg) | hg
              · exact Values.refutes_time_seconds _ hg hh.2
              · exact Values.refutes_struct_dropped _ hg hh.2
              · exact Values.refutes_body_nil _ hg hh.2
              · exact Values.refutes_empty_len_zero _ hg hh.2
              · exact Values.refutes_empty_neg_zero _ hg hh.2
              · exact Values.refutes_void_keeps _ htab' hg hh.2

end Hv.C22
