/-
  C09 — Concurrent writes on a key are linearizable; no lost updates.

  "For any set of clients concurrently issuing sets, increments, patches, deletes and shifts
   against the same swamp, every response and the final state are consistent with some serial
   order of those requests that respects their real-time order.  In particular no acknowledged
   increment or patch is lost, under every swamp configuration, including immediate-write mode."

  Quantifiers: any number of calls (thread ids), any read-modify-write function per call
  (`op t : Int → Int`: increments, sets, clears …), any initial value, any schedule, both
  write modes (guard released inside `Save` or not).
  Models: `Hv/Conc/Linearize.lean` (bodies on the guard LTS of C15), `Hv/Conc/Stale.lean`
  (object identity under delete).
-/
import Hv.Conc.LinearizeLemmas
import Hv.Conc.StaleLemmas
import Hv.Props.C15
import Hv.Basic.Verdict

namespace Hv.C09
open Hv.Guard Hv.Lin

/-- `order` never puts a call in front of one that was acknowledged before it was invoked -/
def RealTime (s : Lin.St) (order : List Entry) : Prop :=
  order.Pairwise (fun a b => ¬ ((s.th b.tid).pc = 5 ∧ (s.th b.tid).ack < (s.th a.tid).inv))

structure Linearizable (op : Nat → Int → Int) (v0 : Int) (s : Lin.St) : Prop where
  /-- some serial order of the calls that took effect, respecting real time, explains every
      response and the current value -/
  order : ∃ order, order.Perm s.log ∧ RealTime s order ∧ replay op v0 order = some s.val
  /-- every call whose write happened — in particular every acknowledged call — is in it -/
  complete : ∀ t, 3 ≤ (s.th t).pc → ∃ e ∈ s.log, e.tid = t
  /-- exactly once -/
  once : s.log.Pairwise (fun a b => a.tid ≠ b.tid)

structure Cfg where
  guard : Guard.Cfg
  /-- `SaveFunction` contains the in-save release, so swamps with write interval 0 run with
      `releaseInSave = true` and all others with `false` -/
  releasesWhenImmediate : Bool
  shape : Shape
  stale : Stale.Cfg
  deriving DecidableEq, Repr

def Cfg.lin (c : Cfg) (ris : Bool) : Lin.Cfg := { guard := c.guard, releaseInSave := ris, shape := c.shape }

/-- The full-strength statement. -/
structure Holds (c : Cfg) : Prop where
  lin : ∀ ris, (ris = true → c.releasesWhenImmediate = true) → ∀ op v0 sched s,
      Lin.run (c.lin ris) op (Lin.init v0) sched = some s → Linearizable op v0 s
  /-- …also when deletes replace the object under the key -/
  objects : ∀ persisted kinds v0 sched s, Stale.run c.stale persisted kinds (Stale.init v0) sched = some s →
      (∀ t ∈ sched, (s.th t).pc = 5) → Stale.Linearizable kinds v0 s

/-! ### the generic theorem -/

structure Inv (cfg : Lin.Cfg) (op : Nat → Int → Int) (v0 : Int) (s : Lin.St) : Prop where
  k : KInv cfg s
  v : VInv op v0 s

theorem reach_inv (cfg : Lin.Cfg) (hsh : cfg.shape = .guarded)
    (hex : ∀ gs g, Guard.run cfg.guard Guard.init gs = some g → g.holders.length ≤ 1)
    (op : Nat → Int → Int) (v0 : Int) (sched : List Lin.Act) (s : Lin.St)
    (h : Lin.run cfg op (Lin.init v0) sched = some s) : Inv cfg op v0 s :=
  LTS.inv_run (Lin.step cfg op) (Inv cfg op v0)
    (fun s a s' hi hs => ⟨kinv_step cfg hsh op s a s' hi.k hs, vinv_step cfg hsh op v0 s a s' hex hi.k hi.v hs⟩)
    (Lin.init v0) sched s ⟨kinv_init cfg v0, vinv_init op v0⟩ h

/-- If the guard is exclusive and each body's read and write lie between its acquire and its
    (first) release, the order of the writes is a linearization: it respects real time, replays
    as a sequential history with exactly the responses given, and ends in the current value. -/
theorem linearizable_of_exclusive (cfg : Lin.Cfg) (hsh : cfg.shape = .guarded)
    (hex : ∀ gs g, Guard.run cfg.guard Guard.init gs = some g → g.holders.length ≤ 1)
    (op : Nat → Int → Int) (v0 : Int) (sched : List Lin.Act) (s : Lin.St)
    (h : Lin.run cfg op (Lin.init v0) sched = some s) : Linearizable op v0 s := by
  have hi := reach_inv cfg hsh hex op v0 sched s h
  refine ⟨⟨s.log, List.Perm.refl _, ?_, hi.v.legal⟩, hi.v.complete, ?_⟩
  · refine List.Pairwise.imp_of_mem ?_ hi.v.sorted
    intro a b ha hb hab hbad
    obtain ⟨_, _, ha3, _, _⟩ := hi.v.logged a ha
    obtain ⟨_, _, _, _, hb5⟩ := hi.v.logged b hb
    have := hb5 hbad.1
    omega
  · exact List.Pairwise.imp (fun h => h.2) hi.v.sorted

/-- at most one call is between its read and its (first) release -/
theorem critical_sections_exclusive (cfg : Lin.Cfg) (hsh : cfg.shape = .guarded)
    (hex : ∀ gs g, Guard.run cfg.guard Guard.init gs = some g → g.holders.length ≤ 1)
    (op : Nat → Int → Int) (v0 : Int) (sched : List Lin.Act) (s : Lin.St)
    (h : Lin.run cfg op (Lin.init v0) sched = some s) (t u : Nat)
    (ht : (s.th t).pc = 2 ∨ (s.th t).pc = 3) (hu : (s.th u).pc = 2 ∨ (s.th u).pc = 3) : t = u :=
  excl cfg s (reach_inv cfg hsh hex op v0 sched s h).k hex t u ht hu

theorem replay_add (d : Nat → Int) (v w : Int) (l : List Entry)
    (h : replay (fun t x => x + d t) v l = some w) : w = v + (l.map (fun e => d e.tid)).sum := by
  induction l generalizing v with
  | nil => simp [replay] at h; simp [h]
  | cons e l ih =>
    simp only [replay] at h
    split at h
    · rename_i he
      have := ih _ h
      simp only [List.map_cons, List.sum_cons]; omega
    · simp at h

/-- Corollary (counters): the value is the initial value plus every increment whose write
    happened, each exactly once — so no acknowledged increment is lost. -/
theorem no_lost_update (cfg : Lin.Cfg) (hsh : cfg.shape = .guarded)
    (hex : ∀ gs g, Guard.run cfg.guard Guard.init gs = some g → g.holders.length ≤ 1)
    (d : Nat → Int) (v0 : Int) (sched : List Lin.Act) (s : Lin.St)
    (h : Lin.run cfg (fun t x => x + d t) (Lin.init v0) sched = some s) :
    s.val = v0 + (s.log.map (fun e => d e.tid)).sum ∧
    (∀ t, (s.th t).pc = 5 → ∃ e ∈ s.log, e.tid = t) ∧ s.log.Pairwise (fun a b => a.tid ≠ b.tid) := by
  have hi := reach_inv cfg hsh hex _ v0 sched s h
  refine ⟨replay_add d v0 s.val s.log hi.v.legal, ?_, List.Pairwise.imp (fun h => h.2) hi.v.sorted⟩
  intro t ht; exact hi.v.complete t (by omega)

/-- With guard IDs never reused the guard is exclusive whatever is released how often: the
    second release in immediate-write mode is harmless. -/
theorem exclusive_with_double_release (ris : Bool) (op : Nat → Int → Int) (v0 : Int) (sched : List Lin.Act) (s : Lin.St)
    (h : Lin.run (wf noReset ris) op (Lin.init v0) sched = some s) :
    Linearizable op v0 s ∧
    (∀ t u, ((s.th t).pc = 2 ∨ (s.th t).pc = 3) → ((s.th u).pc = 2 ∨ (s.th u).pc = 3) → t = u) :=
  ⟨linearizable_of_exclusive (wf noReset ris) rfl (fun gs g hg => C15.holds_noReset.mutex gs g hg) op v0 sched s h,
   fun t u ht hu => critical_sections_exclusive (wf noReset ris) rfl
     (fun gs g hg => C15.holds_noReset.mutex gs g hg) op v0 sched s h t u ht hu⟩

def ths (l : List Nat) : List Lin.Act := l.map .th

/-- Non-vacuity: immediate-write mode, three calls, the third queued behind the second, every
    call releasing twice, and a file-writer session (environment) queued in between; the
    history replays and the sum is right. -/
example : (Lin.run (wf noReset true) (fun _ x => x + 1) (Lin.init 0)
    ([.th 1, .th 1, .th 2, .th 3, .th 1, .th 1, .envStart, .th 2, .th 1, .th 2, .th 2, .th 3, .th 2, .th 3, .th 3,
      .envRelease 4, .th 3])).map
    (fun s => (s.val, s.log.map (·.resp), [1, 2, 3].map (fun t => (s.th t).pc), s.g.queue)) =
    some (3, [1, 2, 3], [5, 5, 5], []) := by decide

/-! ### counterexamples for defective facts -/

def inc1 : Nat → Int → Int := fun _ x => x + 1

/-- ID reuse + double release (write interval 0), three calls A B C:
    A runs up to its in-save release (queue empty, counter reset); B acquires (ID 1 again) and
    reads 1; A's deferred release of ID 1 pops B; C acquires (ID 1 again) and reads 1; both
    write 2.  Three increments acknowledged, value 2. -/
def witnessReset : List Lin.Act := ths [1, 1, 1, 1, 2, 2, 1, 3, 3, 2, 3, 2, 2, 3, 3]

theorem lost_update_with_reset :
    (Lin.run (wf C15.withReset true) inc1 (Lin.init 0) witnessReset).map
      (fun s => (s.val, s.log.length, [1, 2, 3].map (fun t => (s.th t).pc))) = some (2, 3, [5, 5, 5]) := by decide

def witnessReadFirst : List Lin.Act := ths [1, 2, 1, 1, 1, 2, 2, 2]

theorem lost_update_read_first (gc : Guard.Cfg) (ris : Bool) :
    (Lin.run { guard := gc, releaseInSave := ris, shape := .readBeforeAcquire } inc1 (Lin.init 0) witnessReadFirst).map
      (fun s => (s.val, s.log.length)) = some (1, 2) := by
  cases gc with | mk r => cases r <;> cases ris <;> decide

/-- the conditional Set (`Overwrite = false`: write only when the key is absent, 0 = absent; call `t` writes `t`):
    both calls test before the guard, both see "absent", both write and both answer "written" -/
def setIfAbsent : Nat → Int → Int := fun t v => if v = 0 then (t : Int) else v

theorem set_if_absent_both_write (gc : Guard.Cfg) (ris : Bool) :
    (Lin.run { guard := gc, releaseInSave := ris, shape := .readBeforeAcquire } setIfAbsent (Lin.init 0) witnessReadFirst).map
      (fun s => (s.val, s.log.map (fun e => (e.tid, e.resp)), replay setIfAbsent 0 s.log)) = some (2, [(1, 1), (2, 2)], none) := by
  cases gc with | mk r => cases r <;> cases ris <;> decide

def witnessWriteLate : List Lin.Act := ths [1, 1, 1, 2, 2, 2, 1, 2]

theorem lost_update_write_late (gc : Guard.Cfg) (ris : Bool) :
    (Lin.run { guard := gc, releaseInSave := ris, shape := .writeAfterRelease } inc1 (Lin.init 0) witnessWriteLate).map
      (fun s => (s.val, s.log.length)) = some (1, 2) := by
  cases gc with | mk r => cases r <;> cases ris <;> decide

theorem perm_pair' {α : Type} (l : List α) (a b : α) (h : l.Perm [a, b]) : l = [a, b] ∨ l = [b, a] := by
  have hl := h.length_eq
  match l, hl with
  | [x, y], _ =>
    have hx : x ∈ [a, b] := h.subset (by simp)
    have hy : y ∈ [a, b] := h.subset (by simp)
    have ha : a ∈ [x, y] := h.symm.subset (by simp)
    have hb : b ∈ [x, y] := h.symm.subset (by simp)
    simp at hx hy ha hb
    rcases hx with rfl | rfl <;> rcases hy with rfl | rfl
    · rcases hb with rfl | rfl <;> simp
    · simp
    · simp
    · rcases ha with rfl | rfl <;> simp

/-- the response is read back after `Save` has released the guard (immediate-write mode): A writes 1 and releases,
    B writes 2, then both read their response from the object: 2 and 2 -/
def witnessRespLate : List Lin.Act := ths [1, 1, 1, 1, 2, 2, 2, 2, 1, 2, 1, 2]

theorem stale_response_after_save (gc : Guard.Cfg) :
    (Lin.run { guard := gc, releaseInSave := true, shape := .respAfterSave } inc1 (Lin.init 0) witnessRespLate).map
      (fun s => (s.val, s.log.map (·.resp))) = some (2, [2, 2]) := by
  cases gc with | mk r => cases r <;> decide

/-- no serial order of two increments from 0 answers 2 twice -/
theorem no_order_answers_twice (l : List Entry) (h : l.map (·.resp) = [2, 2]) (order : List Entry) (hp : order.Perm l) :
    replay inc1 0 order ≠ some 2 := by
  match l, h with
  | [a, b], h =>
    simp at h
    rcases perm_pair' order a b hp with rfl | rfl <;> simp [replay, inc1, h.1, h.2]
  | [], h => simp at h
  | [_], h => simp at h
  | _ :: _ :: _ :: _, h => simp at h

/-- a value that is not "initial + number of calls" cannot be explained by any serial order -/
theorem not_linearizable_of_count (s : Lin.St) (n : Nat) (v : Int) (hl : s.log.length = n) (hv : s.val = v)
    (hne : v ≠ 0 + (n : Int)) : ¬ Linearizable inc1 0 s := by
  intro h
  obtain ⟨order, hp, _, hr⟩ := h.order
  have := replay_add (fun _ => 1) 0 s.val order hr
  have hlen : order.length = n := by rw [hp.length_eq, hl]
  have hsum : ∀ l : List Entry, (l.map (fun _ : Entry => (1 : Int))).sum = (l.length : Int) := by
    intro l
    induction l with
    | nil => simp
    | cons x xs ih => simp only [List.map_cons, List.sum_cons, List.length_cons]; rw [ih]; omega
  rw [hsum order, hlen, hv] at this
  exact hne this

theorem refutes_lin (c : Cfg) (ris : Bool) (hris : ris = true → c.releasesWhenImmediate = true)
    (sched : List Lin.Act) (v : Int) (n : Nat)
    (hw : (Lin.run (c.lin ris) inc1 (Lin.init 0) sched).map (fun s => (s.val, s.log.length)) = some (v, n))
    (hne : v ≠ 0 + (n : Int)) : ¬ Holds c := by
  intro hh
  cases hr : Lin.run (c.lin ris) inc1 (Lin.init 0) sched with
  | none => rw [hr] at hw; simp at hw
  | some s =>
    rw [hr] at hw; simp at hw
    exact not_linearizable_of_count s n v hw.2 hw.1 hne (hh.lin ris hris inc1 0 sched s hr)

/-! ### delete racing an increment that already fetched the object -/

def staleKinds : Nat → Stale.Kind := fun t => if t = 1 then .inc 1 else .del

/-- call 1 (increment) fetches the object; call 2 (delete) fetches, takes the guard, removes
    the object from the key and is acknowledged; call 1 then takes the orphan's guard, reads 5,
    writes 6 and its save re-inserts the orphan. -/
def witnessStale : List Nat := [1, 2, 2, 2, 2, 1, 1, 1, 1]

theorem stale_run :
    (Stale.run { recheck := false } false staleKinds (Stale.init 5) witnessStale).map
      (fun s => (s.log, Stale.final s, (s.th 1).pc, (s.th 2).pc)) =
    some ([⟨2, .deleted⟩, ⟨1, .val 6⟩], some 6, 5, 5) := by decide

theorem perm_pair {α : Type} (l : List α) (a b : α) (h : l.Perm [a, b]) : l = [a, b] ∨ l = [b, a] := by
  have hl := h.length_eq
  match l, hl with
  | [x, y], _ =>
    have hx : x ∈ [a, b] := h.subset (by simp)
    have hy : y ∈ [a, b] := h.subset (by simp)
    have ha : a ∈ [x, y] := h.symm.subset (by simp)
    have hb : b ∈ [x, y] := h.symm.subset (by simp)
    simp at hx hy ha hb
    rcases hx with rfl | rfl <;> rcases hy with rfl | rfl
    · rcases hb with rfl | rfl <;> simp
    · simp
    · simp
    · rcases ha with rfl | rfl <;> simp

/-- … and no serial order explains two "written" answers: whoever comes second finds the key present -/
theorem set_if_absent_no_order (e1 e2 : Entry) (h1 : e1.tid = 1 ∧ e1.resp = 1) (h2 : e2.tid = 2 ∧ e2.resp = 2)
    (order : List Entry) (hp : order.Perm [e1, e2]) : replay setIfAbsent 0 order = none := by
  rcases perm_pair order e1 e2 hp with rfl | rfl <;> simp [replay, setIfAbsent, h1.1, h1.2, h2.1, h2.2]

/-- Neither serial order explains the acknowledged delete, the response 6 and the final value 6. -/
theorem stale_object_not_linearizable (s : Stale.St)
    (h : Stale.run { recheck := false } false staleKinds (Stale.init 5) witnessStale = some s) :
    ¬ Stale.Linearizable staleKinds 5 s := by
  have hw := stale_run; rw [h] at hw; simp at hw
  obtain ⟨hlog, hfin, _, _⟩ := hw
  rintro ⟨order, hp, hr⟩
  rw [hlog] at hp; rw [hfin] at hr
  rcases perm_pair order _ _ hp with rfl | rfl
  · revert hr; decide
  · revert hr; decide

theorem refutes_stale (c : Cfg) (hc : c.stale = { recheck := false }) : ¬ Holds c := by
  intro hh
  cases hr : Stale.run { recheck := false } false staleKinds (Stale.init 5) witnessStale with
  | none => have := stale_run; rw [hr] at this; simp at this
  | some s =>
    have hw := stale_run; rw [hr] at hw; simp at hw
    refine stale_object_not_linearizable s hr (hh.objects false staleKinds 5 witnessStale s (by rw [hc]; exact hr) ?_)
    intro t ht
    simp [witnessStale] at ht
    rcases ht with rfl | rfl | rfl
    · exact hw.2.2.1
    · exact hw.2.2.2
    · exact hw.2.2.1

/-- With the re-check under the guard (an operation whose object is no longer the key's object starts
    over), every reachable state's completion log replays on the register Spec to exactly what a client
    reads — for every schedule, any mix of increments and deletes, persisted or not. -/
theorem linearizable_repaired (persisted : Bool) (kinds : Nat → Stale.Kind) (v0 : Int) (sched : List Nat) (s : Stale.St)
    (h : Stale.run Stale.repaired persisted kinds (Stale.init v0) sched = some s) : Stale.Linearizable kinds v0 s := by
  have hi : Stale.Inv kinds v0 s := LTS.inv_run (Stale.step Stale.repaired persisted kinds) (Stale.Inv kinds v0)
    (fun s a s' hi hs => Stale.inv_step kinds v0 persisted s a s' hi hs) (Stale.init v0) sched s (Stale.inv_init kinds v0) h
  exact ⟨s.log, List.Perm.refl _, hi.replay⟩

/-- Non-vacuity: the schedule of the stale-object witness under the repaired protocol — the increment
    notices that its object is gone, starts over on a fresh object and returns 1. -/
example : (Stale.run Stale.repaired false staleKinds (Stale.init 5) [1, 2, 2, 2, 2, 1, 1, 1, 1, 1, 1]).map
    (fun s => (s.log, Stale.final s)) = some ([⟨2, .deleted⟩, ⟨1, .val 1⟩], some 1) := by decide

/-- C09 for the repaired facts: both write modes, any number of calls and guard clients, objects
    replaced under deletes. -/
theorem holds_repaired (rel : Bool) :
    Holds { guard := noReset, releasesWhenImmediate := rel, shape := .guarded, stale := Stale.repaired } := by
  constructor
  · intro ris _ op v0 sched s h
    exact (exclusive_with_double_release ris op v0 sched s h).1
  · intro persisted kinds v0 sched s h _
    exact linearizable_repaired persisted kinds v0 sched s h

/-! ### decision over the extracted facts -/

inductive ShapeFact where
  | guarded | readBeforeAcquire | writeAfterRelease | respAfterSave | unknown
  deriving DecidableEq, Repr

structure Facts where
  resetsIdOnEmpty : Tri
  releasesGuardWhenImmediate : Tri
  bodyShape : ShapeFact
  createSingleFlight : Tri
  rechecksObjectUnderGuard : Tri
  /-- gateway `Set`: the existence tests behind `Overwrite = false` / `CreateIfNotExist = false` are (also) made
      after `StartTreasureGuard`; `no`: the decision to write is taken from a test made before the guard, i.e. the
      conditional Sets are bodies of shape `readBeforeAcquire` -/
  setTestsExistenceUnderGuard : Tri
  /-- gateway Set / Uint32SlicePush / Uint32SliceDelete take object and guard from the re-checking helper -/
  gatewayWritesRecheckObject : Tri
  /-- ShiftByKeys takes its copy in the guard session of the delete itself (`no`: it copies in one session and deletes
      in another — the value it hands out was read outside the session that removes the record) -/
  shiftByKeysOneSession : Tri
  /-- DeleteTreasure answers from what deleteHandler found under the guard (`no`: from the existence test it made
      before taking the guard) -/
  deleteTrustsHandlerResult : Tri
  deriving Repr

def shapeOf : ShapeFact → Shape
  | .readBeforeAcquire => .readBeforeAcquire
  | .writeAfterRelease => .writeAfterRelease
  | .respAfterSave => .respAfterSave
  | _ => .guarded

def cfgOf (f : Facts) : Cfg :=
  { guard := { resetsIdOnEmpty := f.resetsIdOnEmpty.isYes },
    releasesWhenImmediate := !f.releasesGuardWhenImmediate.isNo,
    shape := if f.setTestsExistenceUnderGuard.isNo || f.shiftByKeysOneSession.isNo || f.deleteTrustsHandlerResult.isNo
             then .readBeforeAcquire else shapeOf f.bodyShape,
    stale := { recheck := f.rechecksObjectUnderGuard.isYes && f.gatewayWritesRecheckObject.isYes } }

def findings (c : Cfg) : List String :=
  (match c.shape with
   | .guarded => if c.guard.resetsIdOnEmpty && c.releasesWhenImmediate then ["C09-lost-update-guard-id-reuse"] else []
   | .readBeforeAcquire => ["C09-read-outside-guard"]
   | .writeAfterRelease => ["C09-write-outside-guard"]
   | .respAfterSave => if c.releasesWhenImmediate then ["C09-response-read-after-save"] else []) ++
  (if c.stale.recheck then [] else ["C09-delete-increment-stale-object"])

def classify (f : Facts) : Verdict :=
  if f.resetsIdOnEmpty = .unknown then .undetermined "guard.resetsIdOnEmpty" else
  if f.releasesGuardWhenImmediate = .unknown then .undetermined "save.releasesGuardWhenImmediate" else
  if f.bodyShape = .unknown then .undetermined "bodies.shape" else
  if f.createSingleFlight ≠ .yes then .undetermined "create.singleFlight: no theorem without the in-flight tracker" else
  if f.rechecksObjectUnderGuard = .unknown then .undetermined "increment.rechecksObjectUnderGuard" else
  if f.setTestsExistenceUnderGuard = .unknown then .undetermined "set.testsExistenceUnderGuard" else
  if f.gatewayWritesRecheckObject = .unknown then .undetermined "gateway.writesRecheckObject" else
  if f.shiftByKeysOneSession = .unknown then .undetermined "shiftByKeys.oneSession" else
  if f.deleteTrustsHandlerResult = .unknown then .undetermined "delete.trustsHandlerResult" else
  match findings (cfgOf f) with
  | [] => if f.resetsIdOnEmpty = .no ∧ (cfgOf f).shape = .guarded then .holds
          else .undetermined "no theorem covers this combination (guard ID reuse without the in-save release / response read after Save without it)"
  | fs => .violated fs

/-- The `_partial` statement: with guard IDs never reused and well-formed bodies, every history
    on one live object is linearizable in both write modes — whatever the object-identity fact is. -/
def HoldsPartial (c : Cfg) : Prop :=
  c.guard = noReset → c.shape = .guarded → ∀ ris op v0 sched s,
    Lin.run (c.lin ris) op (Lin.init v0) sched = some s → Linearizable op v0 s

theorem holds_partial (c : Cfg) : HoldsPartial c := by
  intro hg hs ris op v0 sched s h
  have hc : c.lin ris = wf noReset ris := by simp [Cfg.lin, wf, hg, hs]
  rw [hc] at h
  exact (exclusive_with_double_release ris op v0 sched s h).1

theorem refutes_of_findings (c : Cfg) (h : findings c ≠ []) : ¬ Holds c := by
  by_cases hst : c.stale.recheck = false
  · exact refutes_stale c (by cases hc : c.stale; simp [hc] at hst; simp [hst])
  · have hst' : c.stale.recheck = true := by simpa using hst
    cases hsh : c.shape with
    | guarded =>
      simp only [findings, hsh, hst', if_true, List.append_nil] at h
      have hb : (c.guard.resetsIdOnEmpty && c.releasesWhenImmediate) = true := by
        cases hx : (c.guard.resetsIdOnEmpty && c.releasesWhenImmediate) <;> simp [hx] at h ⊢
      simp at hb
      have hl : c.lin true = wf C15.withReset true := by
        cases hg : c.guard; simp [hg] at hb; simp [Cfg.lin, wf, C15.withReset, hg, hsh, hb.1]
      exact refutes_lin c true (fun _ => hb.2) witnessReset 2 3
        (by rw [hl]; have := lost_update_with_reset; revert this; generalize Lin.run _ _ _ _ = r
            intro this; cases r <;> simp at this ⊢; exact ⟨this.1, this.2.1⟩) (by decide)
    | readBeforeAcquire =>
      exact refutes_lin c false (fun h => by simp at h) witnessReadFirst 1 2
        (by simp only [Cfg.lin, hsh]; exact lost_update_read_first _ _) (by decide)
    | writeAfterRelease =>
      exact refutes_lin c false (fun h => by simp at h) witnessWriteLate 1 2
        (by simp only [Cfg.lin, hsh]; exact lost_update_write_late _ _) (by decide)
    | respAfterSave =>
      have hb : c.releasesWhenImmediate = true := by
        cases hx : c.releasesWhenImmediate <;> simp [findings, hsh, hst', hx] at h ⊢
      intro hh
      have hw := stale_response_after_save c.guard
      have hl : c.lin true = { guard := c.guard, releaseInSave := true, shape := .respAfterSave } := by simp [Cfg.lin, hsh]
      cases hr : Lin.run (c.lin true) inc1 (Lin.init 0) witnessRespLate with
      | none => rw [hl] at hr; rw [hr] at hw; simp at hw
      | some s =>
        have hr' := hr
        rw [hl] at hr'; rw [hr'] at hw; simp at hw
        obtain ⟨order, hp, _, hrep⟩ := (hh.lin true (fun _ => hb) inc1 0 witnessRespLate s hr).order
        rw [hw.1] at hrep
        exact no_order_answers_twice s.log hw.2 order hp hrep

theorem classify_sound (f : Facts) : (classify f).Sound (Holds (cfgOf f)) (HoldsPartial (cfgOf f)) := by
  unfold classify
  split; · trivial
  split; · trivial
  split; · trivial
  split; · trivial
  split; · trivial
  split; · trivial
  split; · trivial
  split; · trivial
  split; · trivial
  split
  · rename_i hf
    split
    · rename_i hres0
      rename_i hu1 hu2 hu3 hu4 hu5 hu6 hu7 hu8 hu9
      obtain ⟨hres, hsh⟩ := hres0
      -- no findings: guarded bodies, re-check present; IDs never reused
      have hre : (cfgOf f).stale.recheck = true := by
        cases hr : (cfgOf f).stale.recheck <;> simp [findings, hr] at hf ⊢
      have hc : cfgOf f = { guard := noReset, releasesWhenImmediate := (cfgOf f).releasesWhenImmediate, shape := .guarded,
                            stale := Stale.repaired } := by
        have hg : (cfgOf f).guard = noReset := by simp [cfgOf, noReset, hres, Tri.isYes]
        have hst : (cfgOf f).stale = Stale.repaired := by
          cases hx : (cfgOf f).stale; simp [hx] at hre; simp [Stale.repaired, hre]
        cases hcc : cfgOf f; simp [hcc] at hsh hg hst; simp [hsh, hg, hst]
      show Holds (cfgOf f)
      rw [hc]; exact holds_repaired _
    · trivial
  · rename_i fs hne
    exact ⟨refutes_of_findings _ (fun he => hne he), holds_partial _⟩

end Hv.C09
