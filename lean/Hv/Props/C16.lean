/-
  C16 — Acknowledged writes survive eviction, auto-destroy and shutdown.

  "A write that a client was told succeeded is never lost because the swamp was concurrently
   idle-evicted, automatically destroyed after its last record was removed, or closed during
   server shutdown.  After the swamp is re-opened, the write is present unless a later
   acknowledged operation removed it."

  Quantifiers: every schedule of summon / begin-vigil / write / delete (with auto-destroy) /
  cease / listener read + decide / close flush + done / periodic flush actions, any number of
  request threads, any initial file.  Model: `Hv/Conc/Lifecycle.lean`.
-/
import Hv.Conc.Lifecycle
import Hv.Basic.Verdict

namespace Hv.C16
open Hv.Life

/-- The full-strength statement. -/
structure Holds (c : Cfg) : Prop where
  durable : ∀ file sched s, run c (init file) sched = some s → Durable s

def repaired : Cfg := { destroyRechecks := true, atomicSummon := true }

structure Inv (s : St) : Prop where
  dur : Durable s
  inVigil : ∀ t, (s.th t).pc = 2 → (s.th t).gen = s.gen ∧ s.live = true ∧ s.stage = 0 ∧ t ∈ s.holders
  closeOwns : s.stage ≠ 0 → s.closing = true ∧ s.holders = []
  inDestroy : ∀ t, (s.th t).pc = 4 → (s.th t).gen = s.gen ∧ s.live = true ∧ s.closing = true ∧ s.stage = 0 ∧ s.destroying = true
  noBare : ∀ t, (s.th t).pc ≠ 1
  oneDestroyer : ∀ t u, (s.th t).pc = 4 → (s.th u).pc = 4 → t = u

theorem inv_init (file : List Nat) : Inv (init file) := by
  refine ⟨⟨?_, ?_⟩, ?_, ?_, ?_, ?_, ?_⟩ <;> simp [init]

theorem setT_same (f : Nat → TSt) (t : Nat) (v : TSt) : setT f t v t = v := by simp [setT]
theorem setT_other (f : Nat → TSt) (t u : Nat) (v : TSt) (h : u ≠ t) : setT f t v u = f u := by simp [setT, h]

theorem inv_step (s : St) (a : Act) (s' : St) (h : Inv s) (hN : s.unmapPending = false) (hDb : s.debt = 0)
    (hs : step repaired s a = some s') : Inv s' := by
  obtain ⟨⟨hd1, hd2⟩, hV, hC, hD, hB, hO⟩ := h
  cases a with
  | staleUnmap => simp [step, hN] at hs
  | exit =>
    simp only [step, repaired] at hs
    cases hl : s.live with
    | true => simp [hl] at hs
    | false =>
      simp [hl] at hs; subst hs
      refine ⟨⟨fun hc => by simp at hc, fun _ => hd2 (by simp [hl])⟩, ?_, hC, ?_, hB, hO⟩
      · intro t ht; have := (hV t ht).2.1; rw [hl] at this; simp at this
      · intro t ht; have := (hD t ht).2.1; rw [hl] at this; simp at this
  | summon t =>
    simp only [step, repaired] at hs
    split at hs
    · simp at hs
    · rename_i hpc
      have hpc0 : (s.th t).pc = 0 := by simpa using hpc
      split at hs
      · rename_i hl
        split at hs
        · simp at hs
        · rename_i hcl
          have hncl : s.closing = false := by simpa using hcl
          have hst : s.stage = 0 := by
            cases hz : s.stage with
            | zero => rfl
            | succ n => have := (hC (by omega)).1; rw [hncl] at this; simp at this
          simp at hs; subst hs
          refine ⟨⟨hd1, hd2⟩, ?_, ?_, ?_, ?_, ?_⟩
          · intro u hu
            by_cases hut : u = t
            · subst hut; simp only [setT_same] at hu ⊢
              exact ⟨by simp, hl, hst, by simp⟩
            · simp only [setT_other _ _ _ _ hut] at hu ⊢
              obtain ⟨a1, a2, a3, a4⟩ := hV u hu
              exact ⟨a1, a2, a3, List.mem_append_left _ a4⟩
          · intro hne; exact absurd hst hne
          · intro u hu
            by_cases hut : u = t
            · subst hut; simp only [setT_same] at hu; simp at hu
            · simp only [setT_other _ _ _ _ hut] at hu ⊢; exact hD u hu
          · intro u
            by_cases hut : u = t
            · subst hut; simp [setT_same]
            · simp only [setT_other _ _ _ _ hut]; exact hB u
          · intro u w hu hw
            have hu' : (s.th u).pc = 4 := by
              by_cases hut : u = t
              · subst hut; simp [setT_same] at hu
              · simpa [setT_other _ _ _ _ hut] using hu
            have hw' : (s.th w).pc = 4 := by
              by_cases hwt : w = t
              · subst hwt; simp [setT_same] at hw
              · simpa [setT_other _ _ _ _ hwt] using hw
            exact hO u w hu' hw'
      · rename_i hl
        have hnl : s.live = false := by simpa using hl
        simp at hs; subst hs
        have hfile : ∀ k ∈ s.acked, k ∈ s.file := hd2 (by simp [hnl])
        refine ⟨⟨fun _ => hfile, fun hc => absurd ⟨rfl, by simp⟩ hc⟩, ?_, ?_, ?_, ?_, ?_⟩
        · intro u hu
          by_cases hut : u = t
          · subst hut; simp only [setT_same]; exact ⟨by simp, by simp, by simp, by simp⟩
          · simp only [setT_other _ _ _ _ hut] at hu
            have := (hV u hu).2.1; rw [hnl] at this; simp at this
        · intro hne; simp at hne
        · intro u hu
          by_cases hut : u = t
          · subst hut; simp [setT_same] at hu
          · simp only [setT_other _ _ _ _ hut] at hu
            have := (hD u hu).2.1; rw [hnl] at this; simp at this
        · intro u
          by_cases hut : u = t
          · subst hut; simp [setT_same]
          · simp only [setT_other _ _ _ _ hut]; exact hB u
        · intro u w hu hw
          have hu' : (s.th u).pc = 4 := by
            by_cases hut : u = t
            · subst hut; simp [setT_same] at hu
            · simpa [setT_other _ _ _ _ hut] using hu
          have := (hD u hu').2.1; rw [hnl] at this; simp at this
  | begin t =>
    simp only [step] at hs
    split at hs
    · simp at hs
    · rename_i hpc; simp at hpc; exact absurd hpc (hB t)
  | write t k =>
    simp only [step] at hs
    split at hs
    · simp at hs
    · rename_i hpc
      have hpc2 : (s.th t).pc = 2 := by simpa using hpc
      obtain ⟨hg, hl, hst, _⟩ := hV t hpc2
      have hlt : s.stage < 2 := by omega
      have hcur : current s t = true := by simp [current, hl, hg, hst]
      have hold := hd1 ⟨hl, hlt⟩
      simp at hs; subst hs
      refine ⟨⟨?_, fun hc => absurd ⟨hl, hlt⟩ hc⟩, hV, hC, hD, hB, hO⟩
      intro _ x hx
      have hxa : x ∈ s.acked ∨ x = k := by
        by_cases hka : k ∈ s.acked
        · simp [hka] at hx; exact Or.inl hx
        · simp [hka] at hx; exact hx
      show x ∈ (if current s t = true ∧ ¬k ∈ s.mem then s.mem ++ [k] else s.mem)
      by_cases hkm : k ∈ s.mem
      · simp [hkm]
        rcases hxa with h1 | h1
        · exact hold x h1
        · rw [h1]; exact hkm
      · simp [hkm, hcur]
        rcases hxa with h1 | h1
        · exact Or.inl (hold x h1)
        · exact Or.inr h1
  | del t k =>
    simp only [step] at hs
    split at hs
    · simp at hs
    · rename_i hpc
      have hpc2 : (s.th t).pc = 2 := by simpa using hpc
      obtain ⟨hg, hl, hst, hth⟩ := hV t hpc2
      split at hs
      · simp at hs; subst hs; exact ⟨⟨hd1, hd2⟩, hV, hC, hD, hB, hO⟩
      · have hlt : s.stage < 2 := by omega
        have hold := hd1 ⟨hl, hlt⟩
        have hdur : ∀ x ∈ s.acked.filter (· != k), x ∈ s.mem.filter (· != k) := by
          intro x hx
          rw [List.mem_filter] at hx ⊢
          exact ⟨hold x hx.1, hx.2⟩
        split at hs
        · split at hs
          · -- a destroy is already under way: just cease
            simp at hs; subst hs
            refine ⟨⟨fun _ => hdur, fun hc => absurd ⟨hl, hlt⟩ hc⟩, ?_, fun hne => absurd hst hne, ?_, ?_, ?_⟩
            · intro u hu
              by_cases hut : u = t
              · subst hut; simp [setT_same] at hu
              · simp only [setT_other _ _ _ _ hut] at hu ⊢
                obtain ⟨a1, a2, a3, a4⟩ := hV u hu
                exact ⟨a1, a2, a3, by simp [List.mem_filter, a4, hut]⟩
            · intro u hu
              by_cases hut : u = t
              · subst hut; simp [setT_same] at hu
              · simp only [setT_other _ _ _ _ hut] at hu ⊢; exact hD u hu
            · intro u
              by_cases hut : u = t
              · subst hut; simp [setT_same]
              · simp only [setT_other _ _ _ _ hut]; exact hB u
            · intro u w hu hw
              have hu' : (s.th u).pc = 4 := by
                by_cases hut : u = t
                · subst hut; simp [setT_same] at hu
                · simpa [setT_other _ _ _ _ hut] using hu
              have hw' : (s.th w).pc = 4 := by
                by_cases hwt : w = t
                · subst hwt; simp [setT_same] at hw
                · simpa [setT_other _ _ _ _ hwt] using hw
              exact hO u w hu' hw'
          · -- this thread starts the destroy
            rename_i hnd
            have hnd' : s.destroying = false := by simpa using hnd
            simp at hs; subst hs
            have hno4 : ∀ u, (s.th u).pc ≠ 4 := by
              intro u hu; have := (hD u hu).2.2.2.2; rw [hnd'] at this; simp at this
            refine ⟨⟨fun _ => hdur, fun hc => absurd ⟨hl, hlt⟩ hc⟩, ?_, fun hne => absurd hst hne, ?_, ?_, ?_⟩
            · intro u hu
              by_cases hut : u = t
              · subst hut; simp [setT_same] at hu
              · simp only [setT_other _ _ _ _ hut] at hu ⊢
                obtain ⟨a1, a2, a3, a4⟩ := hV u hu
                exact ⟨a1, a2, a3, by simp [List.mem_filter, a4, hut]⟩
            · intro u hu
              by_cases hut : u = t
              · subst hut; simp only [setT_same]; exact ⟨hg, hl, by simp, hst, by simp⟩
              · simp only [setT_other _ _ _ _ hut] at hu; exact absurd hu (hno4 u)
            · intro u
              by_cases hut : u = t
              · subst hut; simp [setT_same]
              · simp only [setT_other _ _ _ _ hut]; exact hB u
            · intro u w hu hw
              by_cases hut : u = t
              · by_cases hwt : w = t
                · rw [hut, hwt]
                · simp only [setT_other _ _ _ _ hwt] at hw; exact absurd hw (hno4 w)
              · simp only [setT_other _ _ _ _ hut] at hu; exact absurd hu (hno4 u)
        · simp at hs; subst hs
          exact ⟨⟨fun _ => hdur, fun hc => absurd ⟨hl, hlt⟩ hc⟩, hV, hC, hD, hB, hO⟩
  | cease t =>
    simp only [step] at hs
    split at hs
    · simp at hs
    · rename_i hpc
      have hpc2 : (s.th t).pc = 2 := by simpa using hpc
      obtain ⟨hg, hl, hst, _⟩ := hV t hpc2
      simp at hs; subst hs
      refine ⟨⟨hd1, hd2⟩, ?_, fun hne => absurd hst hne, ?_, ?_, ?_⟩
      · intro u hu
        by_cases hut : u = t
        · subst hut; simp [setT_same] at hu
        · simp only [setT_other _ _ _ _ hut] at hu ⊢
          obtain ⟨a1, a2, a3, a4⟩ := hV u hu
          exact ⟨a1, a2, a3, by simp [hg, hl, List.mem_filter, a4, hut]⟩
      · intro u hu
        by_cases hut : u = t
        · subst hut; simp [setT_same] at hu
        · simp only [setT_other _ _ _ _ hut] at hu ⊢; exact hD u hu
      · intro u
        by_cases hut : u = t
        · subst hut; simp [setT_same]
        · simp only [setT_other _ _ _ _ hut]; exact hB u
      · intro u w hu hw
        have hu' : (s.th u).pc = 4 := by
          by_cases hut : u = t
          · subst hut; simp [setT_same] at hu
          · simpa [setT_other _ _ _ _ hut] using hu
        have hw' : (s.th w).pc = 4 := by
          by_cases hwt : w = t
          · subst hwt; simp [setT_same] at hw
          · simpa [setT_other _ _ _ _ hwt] using hw
        exact hO u w hu' hw'
  | destroyFinish t =>
    simp only [step, repaired, quiet_zero s hDb] at hs
    split at hs
    · simp at hs
    · rename_i hpc
      have hpc4 : (s.th t).pc = 4 := by simpa using hpc
      obtain ⟨hg, hl, hcl, hst, hdes⟩ := hD t hpc4
      have hlt : s.stage < 2 := by omega
      split at hs
      · simp at hs
      · rename_i hh
        have hhe : s.holders = [] := by simpa using hh
        have hno2 : ∀ u, (s.th u).pc ≠ 2 := by
          intro u hu; have := (hV u hu).2.2.2; rw [hhe] at this; simp at this
        have hthr : ∀ u v, (setT s.th t v u).pc = 4 → v.pc ≠ 4 → False := by
          intro u v hu hv
          by_cases hut : u = t
          · subst hut; rw [setT_same] at hu; exact hv hu
          · rw [setT_other _ _ _ _ hut] at hu; exact hut (hO u t hu hpc4)
        by_cases hme : s.mem.isEmpty = true
        · have hmem : s.mem = [] := by simpa using hme
          have hack : ∀ x ∈ s.acked, False := by
            intro x hx; have := hd1 ⟨hl, hlt⟩ x hx; rw [hmem] at this; simp at this
          simp [hme] at hs; subst hs
          refine ⟨⟨fun hc => by simp at hc, fun _ x hx => absurd (hack x hx) id⟩, ?_, fun hne => absurd hst hne, ?_, ?_, ?_⟩
          · intro u hu
            by_cases hut : u = t
            · subst hut; simp [setT_same] at hu
            · simp only [setT_other _ _ _ _ hut] at hu; exact absurd hu (hno2 u)
          · intro u hu; exact absurd (hthr u _ hu (by simp)) id
          · intro u
            by_cases hut : u = t
            · subst hut; simp [setT_same]
            · simp only [setT_other _ _ _ _ hut]; exact hB u
          · intro u w hu _; exact absurd (hthr u _ hu (by simp)) id
        · -- a record appeared during the drain: close instead of deleting
          simp [hme] at hs; subst hs
          refine ⟨⟨fun _ => hd1 ⟨hl, hlt⟩, fun hc2 => absurd ⟨hl, by simp⟩ hc2⟩, ?_, fun _ => ⟨hcl, hhe⟩, ?_, ?_, ?_⟩
          · intro u hu
            by_cases hut : u = t
            · subst hut; simp [setT_same] at hu
            · simp only [setT_other _ _ _ _ hut] at hu; exact absurd hu (hno2 u)
          · intro u hu; exact absurd (hthr u _ hu (by simp)) id
          · intro u
            by_cases hut : u = t
            · subst hut; simp [setT_same]
            · simp only [setT_other _ _ _ _ hut]; exact hB u
          · intro u w hu _; exact absurd (hthr u _ hu (by simp)) id
  | tickRead =>
    simp only [step] at hs; simp at hs; subst hs
    exact ⟨⟨hd1, hd2⟩, hV, hC, hD, hB, hO⟩
  | tickDecide =>
    simp only [step, repaired, quiet_zero s hDb] at hs
    split at hs
    · simp at hs
    · by_cases hc : (s.live && s.holders.isEmpty && !s.closing && (!true || !s.touched)) = true
      · simp only [hc, if_true] at hs
        simp at hc
        obtain ⟨⟨⟨hl, hh⟩, hncl⟩, _⟩ := hc
        have hst : s.stage = 0 := by
          cases hz : s.stage with
          | zero => rfl
          | succ n => have := (hC (by omega)).1; rw [hncl] at this; simp at this
        have hlt : s.stage < 2 := by omega
        cases hs
        refine ⟨⟨fun _ => hd1 ⟨hl, hlt⟩, fun hc2 => absurd ⟨hl, by simp⟩ hc2⟩, ?_, fun _ => ⟨rfl, hh⟩, ?_, hB, hO⟩
        · intro u hu; have := (hV u hu).2.2.2; rw [hh] at this; simp at this
        · intro u hu; have := (hD u hu).2.2.1; rw [hncl] at this; simp at this
      · simp only [hc, if_false] at hs
        cases hs
        exact ⟨⟨hd1, hd2⟩, hV, hC, hD, hB, hO⟩
  | closeFlush =>
    simp only [step] at hs
    split at hs
    · rename_i hc
      simp at hc
      have hlt : s.stage < 2 := by omega
      cases hs
      refine ⟨⟨fun hc2 => by simp at hc2, fun _ => hd1 ⟨hc.1, hlt⟩⟩, ?_, fun _ => hC (by omega), ?_, hB, hO⟩
      · intro u hu; have := (hV u hu).2.2.1; omega
      · intro u hu; have := (hD u hu).2.2.2.1; omega
    · simp at hs
  | closeDone =>
    simp only [step] at hs
    split at hs
    · rename_i hc
      simp at hc
      have hnlt : ¬ (s.live = true ∧ s.stage < 2) := by intro h2; omega
      cases hs
      refine ⟨⟨fun hc2 => by simp at hc2, fun _ => hd2 hnlt⟩, ?_, hC, ?_, hB, hO⟩
      · intro u hu; have := (hV u hu).2.2.1; omega
      · intro u hu; have := (hD u hu).2.2.2.1; omega
    · simp at hs
  | flushTick =>
    simp only [step] at hs
    split at hs
    · rename_i hc
      simp at hc
      have hlt : s.stage < 2 := by omega
      cases hs
      exact ⟨⟨hd1, fun hc2 => absurd ⟨hc.1.1, hlt⟩ hc2⟩, hV, hC, hD, hB, hO⟩
    · simp at hs

/-- with the waiting summon no close callback is ever left behind -/
theorem pending_step (s : St) (a : Act) (s' : St) (hN : s.unmapPending = false) (hs : step repaired s a = some s') :
    s'.unmapPending = false := by
  have key : ∀ (o : Option St), (∀ x, o = some x → x.unmapPending = false) → o = some s' → s'.unmapPending = false :=
    fun o h e => h s' e
  cases a with
  | summon t =>
    simp only [step, repaired] at hs
    by_cases h0 : ((s.th t).pc != 0) = true
    · simp [h0] at hs
    · simp only [h0] at hs
      cases hl : s.live <;> cases hc : s.closing <;> simp [hl, hc] at hs <;> subst hs <;> simp [hN]
  | begin t =>
    simp only [step] at hs
    by_cases h0 : ((s.th t).pc != 1) = true
    · simp [h0] at hs
    · simp [h0] at hs; subst hs; simp [hN]
  | write t k =>
    simp only [step] at hs
    by_cases h0 : ((s.th t).pc != 2) = true
    · simp [h0] at hs
    · simp [h0] at hs; subst hs; simp [hN]
  | del t k =>
    simp only [step] at hs
    split at hs
    · simp at hs
    · split at hs
      · cases hs; exact hN
      · split at hs
        · split at hs <;> (cases hs; exact hN)
        · cases hs; exact hN
  | cease t =>
    simp only [step] at hs
    by_cases h0 : ((s.th t).pc != 2) = true
    · simp [h0] at hs
    · simp [h0] at hs; subst hs; simp [hN]
  | destroyFinish t =>
    simp only [step, repaired] at hs
    by_cases h0 : ((s.th t).pc != 4) = true
    · simp [h0] at hs
    · simp only [h0] at hs
      by_cases h1 : (!quiet s) = true
      · simp [h1] at hs
      · simp only [h1] at hs
        by_cases h2 : (true && !s.mem.isEmpty) = true
        · simp only [h2] at hs; simp at hs; subst hs; simp [hN]
        · simp only [h2] at hs; simp at hs; subst hs; simp [hN]
  | tickRead => simp [step] at hs; subst hs; simp [hN]
  | tickDecide =>
    simp only [step, repaired] at hs
    by_cases h0 : (!s.armed) = true
    · simp [h0] at hs
    · simp only [h0] at hs
      by_cases h1 : (s.live && quiet s && !s.closing && (!true || !s.touched)) = true
      · simp only [h1] at hs; simp at hs; subst hs; simp [hN]
      · simp only [h1] at hs; simp at hs; subst hs; simp [hN]
  | closeFlush =>
    simp only [step] at hs
    by_cases h0 : (s.live && s.stage == 1) = true
    · simp only [h0] at hs; simp at hs; subst hs; simp [hN]
    · simp [h0] at hs
  | closeDone =>
    simp only [step] at hs
    by_cases h0 : (s.live && s.stage == 2) = true
    · simp only [h0] at hs; simp at hs; subst hs; simp [hN]
    · simp [h0] at hs
  | flushTick =>
    simp only [step] at hs
    by_cases h0 : (s.live && !s.closing && s.stage == 0) = true
    · simp only [h0] at hs; simp at hs; subst hs; simp [hN]
    · simp [h0] at hs
  | staleUnmap => simp [step, hN] at hs
  | exit =>
    simp only [step, repaired] at hs
    cases hl : s.live <;> simp [hl] at hs
    subst hs; exact hN

/-- requests give their vigil back exactly once: the counter never owes anything -/
theorem debt_step (s : St) (a : Act) (s' : St) (hN : s.debt = 0) (hs : step repaired s a = some s') :
    s'.debt = 0 := by
  have key : ∀ (o : Option St), (∀ x, o = some x → x.debt = 0) → o = some s' → s'.debt = 0 :=
    fun o h e => h s' e
  cases a with
  | summon t =>
    simp only [step, repaired] at hs
    by_cases h0 : ((s.th t).pc != 0) = true
    · simp [h0] at hs
    · simp only [h0] at hs
      cases hl : s.live <;> cases hc : s.closing <;> simp [hl, hc] at hs <;> subst hs <;> simp [hN]
  | begin t =>
    simp only [step] at hs
    by_cases h0 : ((s.th t).pc != 1) = true
    · simp [h0] at hs
    · simp [h0] at hs; subst hs; simp [hN]
  | write t k =>
    simp only [step] at hs
    by_cases h0 : ((s.th t).pc != 2) = true
    · simp [h0] at hs
    · simp [h0] at hs; subst hs; simp [hN]
  | del t k =>
    simp only [step] at hs
    split at hs
    · simp at hs
    · split at hs
      · cases hs; exact hN
      · split at hs
        · split at hs <;> (cases hs; exact hN)
        · cases hs; exact hN
  | cease t =>
    simp only [step] at hs
    by_cases h0 : ((s.th t).pc != 2) = true
    · simp [h0] at hs
    · simp [h0] at hs; subst hs; simp [hN]
  | destroyFinish t =>
    simp only [step, repaired] at hs
    by_cases h0 : ((s.th t).pc != 4) = true
    · simp [h0] at hs
    · simp only [h0] at hs
      by_cases h1 : (!quiet s) = true
      · simp [h1] at hs
      · simp only [h1] at hs
        by_cases h2 : (true && !s.mem.isEmpty) = true
        · simp only [h2] at hs; simp at hs; subst hs; simp [hN]
        · simp only [h2] at hs; simp at hs; subst hs; simp [hN]
  | tickRead => simp [step] at hs; subst hs; simp [hN]
  | tickDecide =>
    simp only [step, repaired] at hs
    by_cases h0 : (!s.armed) = true
    · simp [h0] at hs
    · simp only [h0] at hs
      by_cases h1 : (s.live && quiet s && !s.closing && (!true || !s.touched)) = true
      · simp only [h1] at hs; simp at hs; subst hs; simp [hN]
      · simp only [h1] at hs; simp at hs; subst hs; simp [hN]
  | closeFlush =>
    simp only [step] at hs
    by_cases h0 : (s.live && s.stage == 1) = true
    · simp only [h0] at hs; simp at hs; subst hs; simp [hN]
    · simp [h0] at hs
  | closeDone =>
    simp only [step] at hs
    by_cases h0 : (s.live && s.stage == 2) = true
    · simp only [h0] at hs; simp at hs; subst hs; simp [hN]
    · simp [h0] at hs
  | flushTick =>
    simp only [step] at hs
    by_cases h0 : (s.live && !s.closing && s.stage == 0) = true
    · simp only [h0] at hs; simp at hs; subst hs; simp [hN]
    · simp [h0] at hs
  | staleUnmap =>
    simp only [step] at hs
    split at hs
    · cases hs; exact hN
    · simp at hs
  | exit =>
    simp only [step, repaired] at hs
    cases hl : s.live <;> simp [hl] at hs
    subst hs; exact hN

/-- For the repaired protocol every acknowledged, not deleted write is durable in every reachable
    state — in particular whenever the swamp is re-opened after a close or a destroy. -/
theorem durable_repaired : Holds repaired := by
  constructor
  intro file sched s hr
  exact (LTS.inv_run (step repaired) (fun s => Inv s ∧ s.unmapPending = false ∧ s.debt = 0)
    (fun s a s' hi hs => ⟨inv_step s a s' hi.1 hi.2.1 hi.2.2 hs, pending_step s a s' hi.2.1 hs, debt_step s a s' hi.2.2 hs⟩)
    (init file) sched s ⟨inv_init file, rfl, rfl⟩ hr).1.dur

/-- Non-vacuity: a destroy that finds a record after the drain closes the swamp instead (flush, unmap). -/
example : (run repaired (init [1]) [.summon 1, .summon 2, .del 2 1, .write 1 5, .cease 1, .destroyFinish 2,
    .closeFlush, .closeDone]).map (fun s => (s.live, s.file, s.acked)) = some (false, [5], [5]) := by decide

/-! ### the current protocol -/

def current_ : Cfg := { destroyRechecks := false, atomicSummon := false }

/-- (1) A holds a vigil; B deletes the last key and enters Destroy; A inserts and is acknowledged;
    B's drain completes; the file is deleted. -/
def witnessDestroy : List Act :=
  [.summon 1, .begin 1, .summon 2, .begin 2, .del 2 1, .write 1 5, .cease 1, .destroyFinish 2]

/-- the same schedule when summon already takes the vigil (no separate begin step) -/
def witnessDestroyA : List Act := [.summon 1, .summon 2, .del 2 1, .write 1 5, .cease 1, .destroyFinish 2]

theorem destroy_loses_acked_write (as w x y : Bool) :
    (run { destroyRechecks := false, atomicSummon := as, summonWaitsForUnmap := w, stopWaitsUntilClosed := x, ceasesOnce := y } (init [1])
      (if as then witnessDestroyA else witnessDestroy)).map
      (fun s => (s.live, s.file, s.acked)) = some (false, [], [5]) := by
  cases as <;> cases w <;> cases x <;> cases y <;> decide

/-- (2) the listener reads a stale last-interaction time; a request summons the instance; the
    listener closes it; the request's write lands in the closed instance. -/
def witnessIdle : List Act :=
  [.summon 9, .begin 9, .cease 9, .tickRead, .summon 1, .tickDecide, .closeFlush, .closeDone, .begin 1, .write 1 5]

theorem idle_close_loses_acked_write (dr w x y : Bool) :
    (run { destroyRechecks := dr, atomicSummon := false, summonWaitsForUnmap := w, stopWaitsUntilClosed := x, ceasesOnce := y } (init [1]) witnessIdle).map
      (fun s => (s.live, s.file, s.acked)) = some (false, [1], [1, 5]) := by
  cases dr <;> cases w <;> cases x <;> cases y <;> decide

/-- (3) an idle close has flushed the instance; a request summons, does not wait for the map entry to go away and
    gets a fresh instance; the old instance's close callback then removes *that* instance from the map; the
    request's acknowledged write stays in an instance nobody will find again. -/
def witnessUnmap : List Act :=
  [.summon 9, .cease 9, .tickRead, .tickDecide, .closeFlush, .summon 1, .write 1 5, .cease 1, .staleUnmap]

theorem stale_unmap_loses_acked_write (x y : Bool) :
    (run { destroyRechecks := true, atomicSummon := true, summonWaitsForUnmap := false, stopWaitsUntilClosed := x, ceasesOnce := y } (init [1]) witnessUnmap).map
      (fun s => (s.live, s.file, s.acked)) = some (false, [1], [1, 5]) := by cases x <;> cases y <;> decide

/-- (4) GracefulStop returns while the swamp is still mapped (its close has not flushed yet) and the process exits -/
def witnessExit : List Act := [.summon 1, .write 1 5, .cease 1, .exit]

theorem early_exit_loses_acked_write (y : Bool) :
    (run { destroyRechecks := true, atomicSummon := true, summonWaitsForUnmap := true, stopWaitsUntilClosed := false, ceasesOnce := y } (init [1]) witnessExit).map
      (fun s => (s.live, s.file, s.acked)) = some (false, [1], [1, 5]) := by cases y <;> decide

/-- (5) the vigil counter loses somebody else's vigil: W (1) holds a vigil; D1 (4) deletes the last record and drains;
    E (2) inserts 7 meanwhile; D2 (3) deletes 7 — the swamp is empty again, D2 gives its vigil back, finds the swamp
    already being destroyed, and its handler gives the vigil back once more; D1's drain now passes although W is
    still in flight; the file is deleted; W's insert is acknowledged into the destroyed instance. -/
def witnessDebt : List Act :=
  [.summon 1, .summon 2, .summon 3, .summon 4, .del 4 1, .write 2 7, .cease 2, .del 3 7, .destroyFinish 4, .write 1 5]

theorem double_cease_loses_acked_write :
    (run { destroyRechecks := true, atomicSummon := true, summonWaitsForUnmap := true, stopWaitsUntilClosed := true, ceasesOnce := false }
      (init [1]) witnessDebt).map (fun s => (s.live, s.file, s.acked)) = some (false, [], [5]) := by decide

/-- the same schedule with one cease per request: the drain waits for W (the step is not enabled) -/
example : (run repaired (init [1]) witnessDebt) = none := by decide

theorem refute (c : Cfg) (file : List Nat) (sched : List Act) (f a : List Nat)
    (hw : (run c (init file) sched).map (fun s => (s.live, s.file, s.acked)) = some (false, f, a))
    (hbad : ∃ k ∈ a, k ∉ f) : ¬ Holds c := by
  intro hh
  cases hr : run c (init file) sched with
  | none => rw [hr] at hw; simp at hw
  | some s =>
    rw [hr] at hw; simp at hw
    obtain ⟨hl, hf, ha⟩ := hw
    obtain ⟨k, hk, hnk⟩ := hbad
    have := (hh.durable file sched s hr).2 (by simp [hl]) k (by rw [ha]; exact hk)
    rw [hf] at this; exact hnk this

/-! ### decision over the extracted facts -/

structure Facts where
  /-- Destroy re-checks `beaconKey.Count()` after `WaitForActiveVigilsClosed` -/
  destroyRechecksAfterDrain : Tri
  /-- the listener reads lastInteractionTime inside the closeWriteMutex section -/
  listenerReadsTouchUnderLock : Tri
  /-- SummonSwamp hands the instance out with its vigil already taken, under the lock the close decision holds -/
  summonTakesVigil : Tri
  /-- SummonSwamp goes back to look at the swamp map after WaitForGracefulClose (it does not create an instance
      while the closing one is still mapped) -/
  summonWaitsForUnmap : Tri
  /-- hydra.GracefulStop leaves its wait loop only when CountActiveSwamps() is 0 (or after the forced close) -/
  stopWaitsUntilClosed : Tri
  /-- no request path calls CeaseVigil twice for one BeginVigil (the swamp methods that auto-destroy do not cease a
      vigil that the gateway handler's deferred CeaseVigil gives back as well) -/
  ceasesVigilOnce : Tri
  /-- (not used by `classify`: acknowledged deletes are outside the Lean statement; the schedule driver uses it)
      DeleteTreasure refuses to work on a closed instance and the gateway goes on with the mapped one -/
  deleteRefusesClosedInstance : Tri
  /-- (not used by `classify`; the schedule driver uses it) SaveFunction drops a queued delete marker when a key
      is re-created and deleteHandler queues a marker only for an object that has a file pointer -/
  recreateDropsDeleteMarker : Tri
  deriving Repr

def cfgOf (f : Facts) : Cfg :=
  { destroyRechecks := f.destroyRechecksAfterDrain.isYes,
    atomicSummon := f.listenerReadsTouchUnderLock.isYes && f.summonTakesVigil.isYes,
    summonWaitsForUnmap := !f.summonWaitsForUnmap.isNo,
    stopWaitsUntilClosed := !f.stopWaitsUntilClosed.isNo,
    ceasesOnce := !f.ceasesVigilOnce.isNo }

def findings (c : Cfg) : List String :=
  (if c.destroyRechecks then [] else ["C16-auto-destroy-loses-acked-write"]) ++
  (if c.atomicSummon then [] else ["C16-idle-close-loses-acked-write"]) ++
  (if c.summonWaitsForUnmap then [] else ["C16-summon-replaces-closing-instance"]) ++
  (if c.stopWaitsUntilClosed then [] else ["C16-stop-returns-before-swamps-closed"]) ++
  (if c.ceasesOnce then [] else ["C16-double-cease-unblocks-drain"])

def classify (f : Facts) : Verdict :=
  if f.destroyRechecksAfterDrain = .unknown then .undetermined "autoDestroy.rechecksAfterDrain" else
  if f.listenerReadsTouchUnderLock = .unknown then .undetermined "listener.readsTouchUnderLock" else
  if f.summonTakesVigil = .unknown then .undetermined "summon.takesVigil" else
  if f.summonWaitsForUnmap = .unknown then .undetermined "summon.waitsForUnmap" else
  if f.stopWaitsUntilClosed = .unknown then .undetermined "gracefulStop.waitsUntilClosed" else
  if f.ceasesVigilOnce = .unknown then .undetermined "vigil.ceasedOncePerRequest" else
  match findings (cfgOf f) with
  | [] => .holds
  | fs => .violated fs

theorem cfg_eta (c : Cfg) :
    c = ⟨c.destroyRechecks, c.atomicSummon, c.summonWaitsForUnmap, c.stopWaitsUntilClosed, c.ceasesOnce⟩ := by
  cases c; rfl

theorem classify_sound (f : Facts) : (classify f).Sound (Holds (cfgOf f)) := by
  unfold classify
  split; · trivial
  split; · trivial
  split; · trivial
  split; · trivial
  split; · trivial
  split; · trivial
  generalize cfgOf f = c
  split
  · rename_i hf
    have h1 : c.destroyRechecks = true := by cases hx : c.destroyRechecks <;> simp [findings, hx] at hf ⊢
    have h2 : c.atomicSummon = true := by cases hx : c.atomicSummon <;> simp [findings, hx] at hf ⊢
    have h3 : c.summonWaitsForUnmap = true := by cases hx : c.summonWaitsForUnmap <;> simp [findings, hx] at hf ⊢
    have h4 : c.stopWaitsUntilClosed = true := by cases hx : c.stopWaitsUntilClosed <;> simp [findings, hx] at hf ⊢
    have h5 : c.ceasesOnce = true := by cases hx : c.ceasesOnce <;> simp [findings, hx] at hf ⊢
    have : c = repaired := by rw [cfg_eta c, h1, h2, h3, h4, h5]; rfl
    show Holds c
    rw [this]; exact durable_repaired
  · rename_i fs hne
    refine ⟨?_, trivial⟩
    rw [cfg_eta c]
    cases h1 : c.destroyRechecks with
    | false => exact refute _ [1] _ [] [5] (destroy_loses_acked_write _ _ _ _) ⟨5, by simp, by simp⟩
    | true =>
      cases h2 : c.atomicSummon with
      | false => exact refute _ [1] _ [1] [1, 5] (idle_close_loses_acked_write _ _ _ _) ⟨5, by simp, by simp⟩
      | true =>
        cases h3 : c.summonWaitsForUnmap with
        | false => exact refute _ [1] _ [1] [1, 5] (stale_unmap_loses_acked_write _ _) ⟨5, by simp, by simp⟩
        | true =>
          cases h4 : c.stopWaitsUntilClosed with
          | false => exact refute _ [1] _ [1] [1, 5] (early_exit_loses_acked_write _) ⟨5, by simp, by simp⟩
          | true =>
            cases h5 : c.ceasesOnce with
            | false => exact refute _ [1] _ [] [5] double_cease_loses_acked_write ⟨5, by simp, by simp⟩
            | true => exfalso; apply hne; simp [findings, h1, h2, h3, h4, h5]

end Hv.C16
