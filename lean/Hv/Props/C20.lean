/-
  C20 — Swamp addressing is deterministic, in range and SDK/server-consistent.

  "For every swamp name and every supported folder configuration, the island number and on-disk
   location are pure functions of the name.  The island number is always within 1..N and the SDK
   and the server compute the same one.  Computing the location never fails, and two different
   names never resolve to each other's location."

  Quantifiers: every 64-bit hash VALUE `h` (so every name, for every hash function — nothing
  below depends on xxhash), every island count `N > 0`, every depth ≥ 0 and every
  folders-per-level value (any Go int), every name triple (arbitrary bytes).
  Model: Hv/Misc/Name.lean (+ NameBase for `canon` / `Load`).  The model functions are Lean
  functions of (name, configuration): purity is by construction; the per-object caches are shown
  idempotent (`island_cache_idem`).

  "Never resolve to each other's location" at full strength is false for ANY 64-bit hash
  (pigeonhole).  What is proved is: equal locations ⇒ equal hash values (`location_inj`), and
  different names ⇒ different hashed strings (`canon` injective on accepted names) — i.e.
  injectivity modulo collisions of the hash function.
-/
import Hv.Misc.NameLemmas
import Hv.Misc.Routing
import Hv.Misc.Stack
import Hv.Basic.Verdict

namespace Hv.C20
open Hv.Name Hv.Routing Hv.Stack

/-- island `i` has a route, and the routed server is the only configured one whose range contains it -/
def RoutedToOne (servers : List Server) (i : Nat) : Prop :=
  ∃ s ∈ servers, route servers i = some s ∧ ∀ s' ∈ servers, covers s' i = true → s' = s

/-- configurations `client.New` + `Connect` go along with: everything, unless the ranges are validated -/
def Accepted (cfg : Cfg) (servers : List Server) (N : Nat) : Prop :=
  cfg.validatesRanges = true → Partition servers N

/-- The full-strength statement, for a given value of the code facts. -/
structure Holds (cfg : Cfg) : Prop where
  sdkRange : ∀ h N, 0 < N → N < 2 ^ 64 → ∃ i, sdkIsland cfg h N = some i ∧ 1 ≤ i ∧ i ≤ N
  srvRange : ∀ h N, 0 < N → N ≤ 65535 → ∃ i, srvIsland cfg h N = some i ∧ 1 ≤ i ∧ i ≤ N
  agree : ∀ h N, 0 < N → N ≤ 65535 → sdkIsland cfg h N = srvIsland cfg h N
  /-- computing the location never fails: every hash value, every depth ≥ 0, every per-level value -/
  noPanic : ∀ h (depth : Nat) (per : Int), h < 2 ^ 64 → (hashedLevels cfg h depth per).isSome = true
  /-- different accepted names hash different strings -/
  distinct : ∀ a b : Name, Valid cfg a → Valid cfg b → a ≠ b → canon a ≠ canon b
  /-- equal locations ⇒ equal hash values and islands (injective modulo hash collisions) -/
  locInj : ∀ h1 h2 i1 i2 (depth per : Int) l, h1 < 2 ^ 64 → h2 < 2 ^ 64 →
      location cfg h1 i1 depth per = some l → location cfg h2 i2 depth per = some l → h1 = h2 ∧ i1 = i2
  /-- asking the same name object again, for another island count, answers for THAT count -/
  cacheSound : ∀ h N1 N2, 0 < N1 → 0 < N2 → N1 < 2 ^ 64 → N2 < 2 ^ 64 → secondCall cfg h N1 N2 = sdkIsland cfg h N2
  /-- the location is a function of (name, island, depth, per-level) also on a name object that was asked before -/
  pathCacheSound : ∀ h i1 d1 p1 i2 d2 p2, (location cfg h i1 d1 p1).isSome = true →
      secondLocation cfg h i1 d1 p1 i2 d2 p2 = location cfg h i2 d2 p2
  /-- an island without a route never yields a nil client (a nil-pointer panic in the caller) -/
  unroutedSafe : ∀ servers i, lookup cfg.unroutedIsError servers i ≠ .nilClient
  /-- every server configuration the SDK client accepts routes every island of 1..N to exactly one
      configured server -/
  routed : ∀ servers N, Accepted cfg servers N → ∀ i, 1 ≤ i → i ≤ N → RoutedToOne servers i
  /-- END TO END (Hv/Misc/Stack.lean): the server's folder is a function of (name, request.IslandID); when the requests come
      from SDK clients sharing the island count N — each RPC carries GetIslandID(N) of its name — every folder on disk
      sits under the hash-derived island of its name, and no name has folders under two islands -/
  endToEnd : ∀ N depth per reqs, (∀ r ∈ reqs, ReqTied (fun h => sdkIsland cfg h N) r) →
      (∀ l ∈ (run cfg N depth per Srv.empty reqs).disk, Tied (fun h => sdkIsland cfg h N) l) ∧
      OneFolderPerName (run cfg N depth per Srv.empty reqs).disk
  /-- the on-disk location is a function of the name ALONE: whatever IslandID the requests carry, the server never keeps
      one name under two islands -/
  islandTied : ∀ N depth per reqs, (∀ r ∈ reqs, Req.hashBounded r) → OneFolderPerName (run cfg N depth per Srv.empty reqs).disk

/-! ### island -/

theorem island_range (cfg : Cfg) (hg : cfg.goodIsland = true) (h N : Nat) (h0 : 0 < N) (hN : N < 2 ^ 64) :
    ∃ i, sdkIsland cfg h N = some i ∧ 1 ≤ i ∧ i ≤ N := by
  simp only [Cfg.goodIsland, Bool.and_eq_true, beq_iff_eq] at hg
  have := Nat.mod_lt h h0
  refine ⟨h % N + 1, ?_, by omega, by omega⟩
  have hn : N ≠ 0 := by omega
  simp only [sdkIsland, hn, if_false, hg.1.1, if_true]
  rw [Nat.mod_eq_of_lt (by omega)]

theorem island_range_server (cfg : Cfg) (hg : cfg.goodIsland = true) (h N : Nat) (h0 : 0 < N) (hN : N ≤ 65535) :
    ∃ i, srvIsland cfg h N = some i ∧ 1 ≤ i ∧ i ≤ N := by
  simp only [Cfg.goodIsland, Bool.and_eq_true, beq_iff_eq] at hg
  have := Nat.mod_lt h h0
  refine ⟨h % N + 1, ?_, by omega, by omega⟩
  have hn : N ≠ 0 := by omega
  simp only [srvIsland, hn, if_false, hg.1.2, if_true, hg.2]
  rw [Nat.mod_eq_of_lt (show h % N < 2 ^ 16 by omega), Nat.mod_eq_of_lt (by omega)]

/-- N ≤ 65535 → the SDK and the server compute the same island (uint16 narrowing is lossless). -/
theorem island_sdk_eq_server (cfg : Cfg) (hg : cfg.goodIsland = true) (h N : Nat) (h0 : 0 < N) (hN : N ≤ 65535) :
    sdkIsland cfg h N = srvIsland cfg h N := by
  obtain ⟨i, hi, _, _⟩ := island_range cfg hg h N h0 (by omega)
  obtain ⟨j, hj, _, _⟩ := island_range_server cfg hg h N h0 hN
  simp only [Cfg.goodIsland, Bool.and_eq_true, beq_iff_eq] at hg
  have := Nat.mod_lt h h0
  have hn : N ≠ 0 := by omega
  simp only [sdkIsland, srvIsland, hn, if_false, hg.1.1, hg.1.2, if_true, hg.2]
  rw [Nat.mod_eq_of_lt (show h % N < 2 ^ 16 by omega), Nat.mod_eq_of_lt (show h % N + 1 < 2 ^ 16 by omega),
    Nat.mod_eq_of_lt (show h % N + 1 < 2 ^ 64 by omega)]

/-- the per-object cache returns what a fresh computation with the same N returns -/
theorem island_cache_idem (fresh : Option Nat) (i : Nat) (h : fresh = some i) (hi : 1 ≤ i) :
    islandCached i fresh = fresh := by
  have : i ≠ 0 := by omega
  simp [islandCached, this, h]

/-- …but it ignores a different N: closed example, 7 cached, asked again with N = 5 -/
theorem island_cache_stale_witness : islandCached 7 (some 3) = some 7 := by decide

/-! ### location -/

/-- Path computation does not panic ⇔ (depth−1)·cpl ≤ hexLen(hash) (or depth = 0), for the code
    as it is (start not clamped). -/
theorem path_no_panic_iff (cfg : Cfg) (hc : cfg.clampStart = false) (h : Nat) (depth : Nat) (per : Int) :
    (hashedLevels cfg h depth per).isSome = true ↔
      (depth = 0 ∨ (depth - 1) * charsPerLevel cfg per ≤ (hashHex cfg h).length) := by
  rw [hashedLevels_isSome]; simp [hc]

/-- The shipped configuration (depth ≤ 1) never panics, for EVERY hash value. -/
theorem path_no_panic_default (cfg : Cfg) (hd : cfg.defDepth ≤ 1) (h : Nat) :
    (hashedLevels cfg h cfg.defDepth cfg.defPer).isSome = true := by
  rw [hashedLevels_isSome]
  have : cfg.defDepth = 0 ∨ cfg.defDepth - 1 = 0 := by omega
  rcases this with h0 | h0
  · exact Or.inr (Or.inl h0)
  · right; right; rw [h0]; simp

/-- With `start` clamped as well, no configuration panics. -/
theorem path_no_panic_clamped (cfg : Cfg) (hc : cfg.clampStart = true) (h : Nat) (depth : Nat) (per : Int) :
    (hashedLevels cfg h depth per).isSome = true := by
  rw [hashedLevels_isSome]; exact Or.inl hc

theorem location_inj (cfg : Cfg) (h1 h2 i1 i2 : Nat) (depth per : Int) (l : Loc) (b1 : h1 < 2 ^ 64) (b2 : h2 < 2 ^ 64)
    (e1 : location cfg h1 i1 depth per = some l) (e2 : location cfg h2 i2 depth per = some l) : h1 = h2 ∧ i1 = i2 := by
  simp only [location, Option.map_eq_some_iff] at e1 e2
  obtain ⟨_, _, rfl⟩ := e1
  obtain ⟨_, _, e2⟩ := e2
  injection e2 with ei _ ef
  exact ⟨(hexDigits_inj _ _ b2 b1 ef).symm, ei.symm⟩

/-- names are BYTE strings: the precomposed "é" (NFC, c3 a9) and "e" + combining acute (NFD, 65 cc 81) are different
    names with different canonical paths — no Unicode normalisation is applied, by design -/
theorem nfc_nfd_are_different_names :
    canon ⟨[0xc3, 0xa9], [0x62], [0x63]⟩ ≠ canon ⟨[0x65, 0xcc, 0x81], [0x62], [0x63]⟩ := by decide

/-- distinct names give distinct canonical path strings when no part contains '/' -/
theorem distinct_names_distinct_paths (a b : Name) (ha : a.NoSlash) (hb : b.NoSlash) (h : a ≠ b) : canon a ≠ canon b :=
  fun e => h (canon_inj a b ha hb e)

/-! ### the per-object island cache across different island counts -/

theorem second_call_sound (cfg : Cfg) (hg : cfg.goodIsland = true) (hk : cfg.cacheKeyedByN = true) (h N1 N2 : Nat)
    (h1 : 0 < N1) (h2 : 0 < N2) (b1 : N1 < 2 ^ 64) (b2 : N2 < 2 ^ 64) : secondCall cfg h N1 N2 = sdkIsland cfg h N2 := by
  obtain ⟨i, hi, hi1, _⟩ := island_range cfg hg h N1 h1 b1
  simp only [secondCall, hi, hk, Bool.true_and]
  by_cases e : N1 = N2
  · subst e
    have hi0 : i ≠ 0 := by omega
    simp [hi, islandCached, hi0]
  · simp [e]

/-- N = 0 is outside every claim: both packages panic with an integer divide by zero -/
theorem island_zero_panics (cfg : Cfg) (h : Nat) : sdkIsland cfg h 0 = none ∧ srvIsland cfg h 0 = none := by
  simp [sdkIsland, srvIsland]

/-! ### client routing table -/

/-- When the configured ranges partition 1..N, every island routes to exactly one configured server. -/
theorem route_partition (servers : List Server) (N : Nat) (hp : Partition servers N) (i : Nat) (h1 : 1 ≤ i) (hN : i ≤ N) :
    RoutedToOne servers i := by
  obtain ⟨s, hs, hc, hu⟩ := hp i h1 hN
  have hsome : (servers.reverse.find? (covers · i)).isSome = true := by
    rw [List.find?_isSome]; exact ⟨s, List.mem_reverse.mpr hs, hc⟩
  cases hf : servers.reverse.find? (covers · i) with
  | none => rw [hf] at hsome; simp at hsome
  | some s' =>
    have hm : s' ∈ servers := List.mem_reverse.mp (List.mem_of_find?_eq_some hf)
    have hc' : covers s' i = true := List.find?_some (p := fun x => covers x i) hf
    have : s' = s := hu s' hm hc'
    subst this
    exact ⟨s', hs, hf, hu⟩

/-- …hence every swamp name (every hash value) reaches exactly one server. -/
theorem every_name_routed (cfg : Cfg) (hg : cfg.goodIsland = true) (servers : List Server) (N : Nat)
    (hp : Partition servers N) (h0 : 0 < N) (hN : N < 2 ^ 64) (h : Nat) :
    ∃ i, sdkIsland cfg h N = some i ∧ RoutedToOne servers i := by
  obtain ⟨i, hi, h1, h2⟩ := island_range cfg hg h N h0 hN
  exact ⟨i, hi, route_partition servers N hp i h1 h2⟩

/-- a gap: islands 1..5 and 7..10 are configured, island 6 has no route (GetServiceClient returns nil) -/
def gapServers : List Server := [⟨1, 5, 0⟩, ⟨7, 10, 1⟩]
/-- an overlap: 5 and 6 are claimed twice; the later entry silently wins -/
def overlapServers : List Server := [⟨1, 6, 0⟩, ⟨5, 10, 1⟩]

theorem routing_gap_witness : route gapServers 6 = none ∧ route gapServers 5 = some ⟨1, 5, 0⟩ := by decide
theorem routing_overlap_witness :
    route overlapServers 5 = some ⟨5, 10, 1⟩ ∧ covers ⟨1, 6, 0⟩ 5 = true ∧ coverCount overlapServers 5 = 2 := by decide

/-- non-vacuity: a partitioning configuration (three servers, given out of order) -/
def partServers : List Server := [⟨4, 7, 0⟩, ⟨1, 3, 1⟩, ⟨8, 10, 2⟩]
example : gapOrOverlap partServers 10 = none ∧ gapOrOverlap gapServers 10 = some (6, 0) ∧
          gapOrOverlap overlapServers 10 = some (5, 2) ∧ route partServers 2 = some ⟨1, 3, 1⟩ := by decide
example : Partition partServers 10 := by
  intro i h1 hN
  have hcase : i ≤ 3 ∨ (4 ≤ i ∧ i ≤ 7) ∨ 8 ≤ i := by omega
  rcases hcase with h | h | h
  · refine ⟨⟨1, 3, 1⟩, by simp [partServers], by simp [covers]; omega, ?_⟩
    intro s' hs' hc
    simp only [partServers, List.mem_cons, List.mem_nil_iff, or_false] at hs'
    rcases hs' with rfl | rfl | rfl <;> simp [covers] at hc ⊢ <;> omega
  · refine ⟨⟨4, 7, 0⟩, by simp [partServers], by simp [covers]; omega, ?_⟩
    intro s' hs' hc
    simp only [partServers, List.mem_cons, List.mem_nil_iff, or_false] at hs'
    rcases hs' with rfl | rfl | rfl <;> simp [covers] at hc ⊢ <;> omega
  · refine ⟨⟨8, 10, 2⟩, by simp [partServers], by simp [covers]; omega, ?_⟩
    intro s' hs' hc
    simp only [partServers, List.mem_cons, List.mem_nil_iff, or_false] at hs'
    rcases hs' with rfl | rfl | rfl <;> simp [covers] at hc ⊢ <;> omega

theorem second_location_sound (cfg : Cfg) (hk : cfg.pathCacheKeyedByArgs = true) (h i1 : Nat) (d1 p1 : Int) (i2 : Nat) (d2 p2 : Int)
    (hs : (location cfg h i1 d1 p1).isSome = true) : secondLocation cfg h i1 d1 p1 i2 d2 p2 = location cfg h i2 d2 p2 := by
  cases hl : location cfg h i1 d1 p1 with
  | none => rw [hl] at hs; simp at hs
  | some l1 =>
    simp only [secondLocation, hl, hk, Bool.true_and]
    by_cases e : (i1, d1, p1) = (i2, d2, p2)
    · have e1 : i1 = i2 := (Prod.mk.inj e).1
      have e2 : d1 = d2 := (Prod.mk.inj (Prod.mk.inj e).2).1
      have e3 : p1 = p2 := (Prod.mk.inj (Prod.mk.inj e).2).2
      subst e1 e2 e3; simp [hl]
    · simp [e]

theorem refutes_stale_path (cfg : Cfg) (hk : cfg.pathCacheKeyedByArgs = false) : ¬ Holds cfg := by
  intro hh
  have hs : (location cfg 5 1 0 1).isSome = true := by simp [location, hashedLevels, levelsFrom]
  have := hh.pathCacheSound 5 1 0 1 2 0 1 hs
  simp [secondLocation, location, hashedLevels, levelsFrom, hk] at this

theorem unrouted_is_error (cfg : Cfg) (h : cfg.unroutedIsError = true) (servers : List Server) (i : Nat) :
    lookup cfg.unroutedIsError servers i ≠ .nilClient := by
  simp only [lookup, h, if_true]
  cases route servers i <;> simp

/-- island 6 of the gap configuration: the caller receives a nil client -/
theorem unrouted_nil_witness : lookup false gapServers 6 = .nilClient := by decide

theorem refutes_unrouted_nil (cfg : Cfg) (h : cfg.unroutedIsError = false) : ¬ Holds cfg := by
  intro hh
  exact hh.unroutedSafe gapServers 6 (by rw [h]; exact unrouted_nil_witness)

/-- the client accepts the gap configuration silently, so "every island is routed" fails -/
theorem refutes_unvalidated (cfg : Cfg) (hv : cfg.validatesRanges = false) : ¬ Holds cfg := by
  intro hh
  obtain ⟨s, _, hr, _⟩ := hh.routed gapServers 10 (fun h => by simp [hv] at h) 6 (by decide) (by decide)
  rw [routing_gap_witness.1] at hr
  cases hr

/-! ### the full statement for repaired facts -/

/-- the server as it is: one name written under island 1 and, after the swamp closed, under island 2 is two swamps -/
theorem refutes_island_unchecked (cfg : Cfg) (hc : cfg.srvChecksIsland = false) : ¬ Holds cfg := by
  intro hh
  exact unchecked_two_swamps cfg hc (hh.islandTied 1 0 1 twoIslands (by
    intro r hm
    simp only [twoIslands, List.mem_cons, List.not_mem_nil, or_false] at hm
    rcases hm with e | e | e <;> subst e <;> simp [Req.hashBounded]))

theorem holds_repaired (cfg : Cfg) (hg : cfg.goodIsland = true) (hc : cfg.clampStart = true)
    (hs : cfg.rejectsSlash = true) (hv : cfg.validatesRanges = true) (hk : cfg.cacheKeyedByN = true)
    (hu : cfg.unroutedIsError = true) (hpc : cfg.pathCacheKeyedByArgs = true) (hci : cfg.srvChecksIsland = true) : Holds cfg :=
  ⟨island_range cfg hg, island_range_server cfg hg, island_sdk_eq_server cfg hg,
   fun h depth per _ => path_no_panic_clamped cfg hc h depth per,
   fun a b va vb hne => distinct_names_distinct_paths a b (va hs) (vb hs) hne,
   fun h1 h2 i1 i2 depth per l b1 b2 e1 e2 => location_inj cfg h1 h2 i1 i2 depth per l b1 b2 e1 e2,
   fun h N1 N2 h1 h2 b1 b2 => second_call_sound cfg hg hk h N1 N2 h1 h2 b1 b2,
   fun h i1 d1 p1 i2 d2 p2 hs => second_location_sound cfg hpc h i1 d1 p1 i2 d2 p2 hs,
   unrouted_is_error cfg hu,
   fun servers N ha i h1 hN => route_partition servers N (ha hv) i h1 hN,
   fun N depth per reqs hr => sdk_requests_one_folder cfg N depth per reqs hr,
   fun N depth per reqs hb => checked_requests_one_folder cfg hci N depth per reqs hb⟩

/-- What holds for the code as it is. -/
structure HoldsPartial (cfg : Cfg) : Prop where
  sdkRange : ∀ h N, 0 < N → N < 2 ^ 64 → ∃ i, sdkIsland cfg h N = some i ∧ 1 ≤ i ∧ i ≤ N
  srvRange : ∀ h N, 0 < N → N ≤ 65535 → ∃ i, srvIsland cfg h N = some i ∧ 1 ≤ i ∧ i ≤ N
  agree : ∀ h N, 0 < N → N ≤ 65535 → sdkIsland cfg h N = srvIsland cfg h N
  noPanicIff : cfg.clampStart = false → ∀ h (depth : Nat) (per : Int), (hashedLevels cfg h depth per).isSome = true ↔
      (depth = 0 ∨ (depth - 1) * charsPerLevel cfg per ≤ (hashHex cfg h).length)
  noPanicDefault : cfg.defDepth ≤ 1 → ∀ h, (hashedLevels cfg h cfg.defDepth cfg.defPer).isSome = true
  distinctNoSlash : ∀ a b : Name, a.NoSlash → b.NoSlash → a ≠ b → canon a ≠ canon b
  locInj : ∀ h1 h2 i1 i2 (depth per : Int) l, h1 < 2 ^ 64 → h2 < 2 ^ 64 →
      location cfg h1 i1 depth per = some l → location cfg h2 i2 depth per = some l → h1 = h2 ∧ i1 = i2
  routedWhenPartition : ∀ servers N, Partition servers N → ∀ i, 1 ≤ i → i ≤ N → RoutedToOne servers i
  /-- the end-to-end clause holds as it stands: SDK requests alone never put one name under two islands -/
  endToEnd : ∀ N depth per reqs, (∀ r ∈ reqs, ReqTied (fun h => sdkIsland cfg h N) r) →
      (∀ l ∈ (run cfg N depth per Srv.empty reqs).disk, Tied (fun h => sdkIsland cfg h N) l) ∧
      OneFolderPerName (run cfg N depth per Srv.empty reqs).disk

theorem holds_partial (cfg : Cfg) (hg : cfg.goodIsland = true) : HoldsPartial cfg :=
  ⟨island_range cfg hg, island_range_server cfg hg, island_sdk_eq_server cfg hg,
   fun hc h depth per => path_no_panic_iff cfg hc h depth per,
   fun hd h => path_no_panic_default cfg hd h,
   distinct_names_distinct_paths,
   fun h1 h2 i1 i2 depth per l b1 b2 e1 e2 => location_inj cfg h1 h2 i1 i2 depth per l b1 b2 e1 e2,
   route_partition,
   fun N depth per reqs hr => sdk_requests_one_folder cfg N depth per reqs hr⟩

/-! ### non-vacuity -/

/-- the facts of the tree before the clamp repair (`start` not clamped) -/
def current : Cfg := ⟨true, true, 16, false, 2, false, false, 1, 1000, false, false, false, false, false⟩
/-- the facts after it: only the separator finding is left -/
def clamped : Cfg := { current with clampStart := true }
/-- repaired facts -/
def repaired : Cfg := { current with clampStart := true, rejectsSlash := true, validatesRanges := true, cacheKeyedByN := true, unroutedIsError := true, pathCacheKeyedByArgs := true, srvChecksIsland := true }

example : current.goodIsland = true ∧ repaired.goodIsland = true := by decide
/-- hash 0xd24ec4f1a98c6e5b, N = 1000: island 956 on both sides -/
example : sdkIsland current 0xd24ec4f1a98c6e5b 1000 = some 956 ∧ srvIsland current 0xd24ec4f1a98c6e5b 1000 = some 956 := by decide
/-- depth 3, 2000 folders per level (the repository's test rig): 3 hex chars per level -/
example : hashedLevels current 0xd24ec4f1a98c6e5b 3 2000 = some [[13, 2, 4], [14, 12, 4], [15, 1, 10]] := by decide
example : charsPerLevel current 2000 = 3 ∧ charsPerLevel current 1 = 2 ∧ charsPerLevel current 70000 = 5 ∧
          charsPerLevel current (-300) = 4 := by decide
/-- the shipped configuration: one level of 3 chars -/
example : hashedLevels current 0xd24ec4f1a98c6e5b 1 1000 = some [[13, 2, 4]] := by decide
example : (⟨[0x61], [0x62], [0x63]⟩ : Name).NoSlash := by decide
/-- with `start` clamped the deep layout yields three full levels, one partial level and two empty ones
    (which `filepath.Join` drops), and a one-digit hash no longer panics at depth 2 -/
example : hashedLevels clamped 0xd24ec4f1a98c6e5b 6 70000 =
    some [[13, 2, 4, 14, 12], [4, 15, 1, 10, 9], [8, 12, 6, 14, 5], [11], [], []] ∧
    hashedLevels clamped 0xf 2 1 = some [[15], []] := by decide

/-! ### witnesses for the code as it is -/

/-- the same name (hash 0xd24ec4f1a98c6e5b) written with IslandID 956 and, once the swamp has closed, with IslandID 7:
    two folders — and while the swamp is still open the second request is served from the first folder -/
theorem same_name_two_islands :
    (run current 1000 3 2000 Srv.empty [.data 956 0xd24ec4f1a98c6e5b, .closeAll, .data 7 0xd24ec4f1a98c6e5b]).disk.map (·.island) = [7, 956] ∧
    (run current 1000 3 2000 Srv.empty [.data 956 0xd24ec4f1a98c6e5b, .data 7 0xd24ec4f1a98c6e5b]).disk.map (·.island) = [956] := by decide

/-- asked for island 1 and then for island 2, the same name object still answers with the island-1 location -/
theorem stale_path_witness : secondLocation current 0xd24ec4f1a98c6e5b 1 1 1000 2 1 1000 = location current 0xd24ec4f1a98c6e5b 1 1 1000 ∧
    location current 0xd24ec4f1a98c6e5b 1 1 1000 ≠ location current 0xd24ec4f1a98c6e5b 2 1 1000 := by decide



/-- hash 0xd24ec4f1a98c6e5b: island 956 of 1000; asked again for 5 islands the same object still says 956 -/
theorem stale_cache_witness : secondCall current 0xd24ec4f1a98c6e5b 1000 5 = some 956 ∧
    sdkIsland current 0xd24ec4f1a98c6e5b 5 = some 1 := by decide

theorem refutes_stale_cache (cfg : Cfg) (hg : cfg.goodIsland = true) (hk : cfg.cacheKeyedByN = false) : ¬ Holds cfg := by
  intro hh
  have := hh.cacheSound 0xd24ec4f1a98c6e5b 1000 5 (by decide) (by decide) (by decide) (by decide)
  simp only [Cfg.goodIsland, Bool.and_eq_true, beq_iff_eq] at hg
  simp [secondCall, sdkIsland, islandCached, hk, hg.1.1] at this



/-- depth 6 with 70 000 folders per level (5 chars per level): level 5 starts at 25 > 16 — the
    slice `hashHex[20:16]` of level 4 already panics, for every hash value. -/
theorem deep_layout_panics (cfg : Cfg) (hc : cfg.clampStart = false) (hm : cfg.cplMin ≤ 5) (h : Nat)
    (hl : (hashHex cfg h).length ≤ 16) : hashedLevels cfg h 6 70000 = none := by
  have : ¬ ((hashedLevels cfg h (6 : Nat) 70000).isSome = true) := by
    rw [path_no_panic_iff cfg hc]
    have : charsPerLevel cfg 70000 = 5 := by
      simp only [charsPerLevel]
      have : hexLenInt (70000 - 1) = 5 := by decide
      rw [this]; omega
    rw [this]; omega
  cases hq : hashedLevels cfg h (6 : Nat) 70000 with
  | none => rfl
  | some _ => rw [hq] at this; simp at this

theorem deep_layout_panics_current : hashedLevels current 0xd24ec4f1a98c6e5b 6 70000 = none := by decide

/-- "%x" does not pad: a hash with a leading zero nibble has 15 digits, and a tiny hash has one;
    with depth 2 and the minimal 2 chars per level the second level of hash 0xf is `"f"[2:1]`. -/
theorem short_hash_witness :
    (hashHex current 0x0fffffffffffffff).length = 15 ∧ (hashHex current 0xf).length = 1 ∧
    hashedLevels current 0xf 2 1 = none ∧ hashedLevels current 0xfff 2 1 = some [[15, 15], [15]] := by decide

theorem refutes_unclamped (cfg : Cfg) (hc : cfg.clampStart = false) : ¬ Holds cfg := by
  intro hh
  have := hh.noPanic 0 (18 : Nat) 1 (by decide)
  rw [path_no_panic_iff cfg hc] at this
  have hlen : (hashHex cfg 0).length ≤ 16 := by
    simp only [hashHex]; split <;> simp [hexDigits, hexDigitsFuel]
  have hcpl : 1 ≤ charsPerLevel cfg 1 := by
    simp only [charsPerLevel]
    have : hexLenInt (1 - 1) = 1 := by decide
    rw [this]; omega
  rcases this with h | h
  · omega
  · have : 17 * 1 ≤ 17 * charsPerLevel cfg 1 := Nat.mul_le_mul_left 17 hcpl
    omega

/-- the closed separator collision of NameBase, against `distinct` -/
theorem refutes_separator (cfg : Cfg) (hs : cfg.rejectsSlash = false) : ¬ Holds cfg := by
  intro hh
  exact hh.distinct collideA collideB (fun h => by simp [hs] at h) (fun h => by simp [hs] at h)
    canon_collision.1 canon_collision.2

/-- without the `+1` an island can be 0 -/
theorem refutes_no_plus_one (cfg : Cfg) (hp : cfg.sdkPlusOne = false ∨ cfg.srvPlusOne = false) : ¬ Holds cfg := by
  intro hh
  rcases hp with hp | hp
  · obtain ⟨i, hi, h1, _⟩ := hh.sdkRange 0 5 (by decide) (by decide)
    simp [sdkIsland, hp] at hi; omega
  · obtain ⟨i, hi, h1, _⟩ := hh.srvRange 0 5 (by decide) (by decide)
    simp [srvIsland, hp] at hi; omega

/-! ### Decision over the extracted facts -/

structure Facts where
  sdkPlusOne : Tri
  srvPlusOne : Tri
  sdkModHashByN : Tri       -- `hash % allIslands` with these operands, on uint64
  srvModHashByN : Tri       -- `hash % uint64(allFolders)`
  srvBits : Option Nat      -- width of the server's conversion / parameter
  islandHashConcat : Tri    -- both packages hash SanctuaryID+RealmName+SwampName
  hexVerb : Tri             -- yes: "%x" (unpadded) for hash and per-level width; no: "%016x"
  folderVerb : Tri          -- yes: folder name is "%x" of the hash of the same Path
  cplMin : Option Nat
  sliceClampsEnd : Tri      -- `if end > len(hashHex) { end = len(hashHex) }` then `hashHex[start:end]`
  sliceClampsStart : Tri
  loadFixedIndices : Tri    -- Load = Split on "/" + indices 0,1,2 without a length check (both packages)
  ctorsRejectSlash : Tri
  defDepth : Option Nat
  defPer : Option Nat
  routeLastWins : Tri          -- Connect fills c.serviceClients[island] range by range, in the order of the server list
  routeLookupByIsland : Tri    -- GetServiceClient indexes the map with swampName.GetIslandID(c.allIslands); nil when absent
  routeValidatesRanges : Tri   -- the ranges are checked to partition 1..allIslands
  islandCacheKeyedByN : Tri    -- GetIslandID / GetFolderNumber return the memoised island only for the same N
  pathCacheKeyedByArgs : Tri   -- GetFullHashPath returns the memoised path only for the same arguments
  unroutedReturnsError : Tri   -- GetServiceClient(AndHost): an island without a route yields an error-returning client, not nil
  rpcIslandFromName : Tri      -- every `IslandID:` the SDK puts into a request is <name>.GetIslandID(h.client.GetAllIslands()) of the request's own swamp name
  serverPathPerRequest : Tri   -- hydra computes GetFullHashPath(data root, islandID parameter, depth, per-level) directly in IsExistSwamp and createNewSwamp (no memo keyed by the name)
  gatewayThreeParts : Tri      -- the gateway refuses names that do not have exactly three non-empty parts
  serverChecksIsland : Tri     -- no: nothing under app/ derives an island from a name; the gateway hands request.IslandID to hydra as it is
  deriving Repr

def cfgOf (f : Facts) : Cfg :=
  ⟨f.sdkPlusOne.isYes, f.srvPlusOne.isYes, f.srvBits.getD 0, f.hexVerb.isNo, f.cplMin.getD 0,
   f.sliceClampsStart.isYes, f.ctorsRejectSlash.isYes, f.defDepth.getD 0, f.defPer.getD 0, f.routeValidatesRanges.isYes, f.islandCacheKeyedByN.isYes, f.pathCacheKeyedByArgs.isYes, f.unroutedReturnsError.isYes, f.serverChecksIsland.isYes⟩

/-- every structural fact the model relies on was recognised -/
def recognised (f : Facts) : Bool :=
  f.sdkModHashByN == .yes && f.srvModHashByN == .yes && f.islandHashConcat == .yes &&
  f.hexVerb != .unknown && f.folderVerb == .yes && f.sliceClampsEnd == .yes && f.loadFixedIndices == .yes &&
  f.sdkPlusOne != .unknown && f.srvPlusOne != .unknown && f.sliceClampsStart != .unknown &&
  f.ctorsRejectSlash != .unknown && f.routeLastWins == .yes && f.routeLookupByIsland == .yes &&
  f.routeValidatesRanges != .unknown && f.islandCacheKeyedByN != .unknown && f.unroutedReturnsError != .unknown && f.pathCacheKeyedByArgs != .unknown &&
  f.rpcIslandFromName == .yes && f.serverPathPerRequest == .yes && f.gatewayThreeParts == .yes && f.serverChecksIsland != .unknown && f.srvBits.isSome && f.cplMin.isSome && f.defDepth.isSome && f.defPer.isSome

def findings (f : Facts) : List String :=
  (if (cfgOf f).sdkPlusOne && (cfgOf f).srvPlusOne then [] else ["C20-island-off-by-one"]) ++
  (if (cfgOf f).clampStart then [] else ["C20-slice-out-of-range"]) ++
  (if (cfgOf f).clampStart || decide ((cfgOf f).defDepth ≤ 1) then [] else ["C20-default-config-panics"]) ++
  (if (cfgOf f).rejectsSlash then [] else ["C20-separator-collision"]) ++
  (if (cfgOf f).validatesRanges then [] else ["C20-routing-unvalidated"]) ++
  (if (cfgOf f).cacheKeyedByN then [] else ["C20-island-cache-stale"]) ++
  (if (cfgOf f).unroutedIsError then [] else ["C20-unrouted-island-panics"]) ++
  (if (cfgOf f).pathCacheKeyedByArgs then [] else ["C20-path-cache-stale"]) ++
  (if (cfgOf f).srvChecksIsland then [] else ["C20-island-unvalidated"])

def classify (f : Facts) : Verdict :=
  if !recognised f then .undetermined "a structural pattern (name.go of server or SDK, the SDK request literals, hydra.go, the gateway) was not recognised or is not the modelled one"
  else if (cfgOf f).srvBits != 16 then .undetermined "server island width is not 16 bits"
  else if (cfgOf f).sdkPlusOne && (cfgOf f).srvPlusOne && (cfgOf f).clampStart && (cfgOf f).rejectsSlash &&
      (cfgOf f).validatesRanges && (cfgOf f).cacheKeyedByN && (cfgOf f).unroutedIsError && (cfgOf f).pathCacheKeyedByArgs && (cfgOf f).srvChecksIsland then .holds
  else .violated (findings f)

theorem classify_sound (f : Facts) :
    (classify f).Sound (Holds (cfgOf f)) ((cfgOf f).goodIsland = true → HoldsPartial (cfgOf f)) := by
  unfold classify
  split
  · trivial
  · split
    · trivial
    · rename_i hb
      have hb16 : (cfgOf f).srvBits = 16 := by simpa using hb
      split
      · rename_i h
        simp only [Bool.and_eq_true] at h
        obtain ⟨⟨⟨⟨⟨⟨⟨⟨h1, h2⟩, h3⟩, h4⟩, h5⟩, h6⟩, h7⟩, h8⟩, h9⟩ := h
        exact holds_repaired _ (by simp [Cfg.goodIsland, h1, h2, hb16]) h3 h4 h5 h6 h7 h8 h9
      · rename_i h
        refine ⟨?_, fun hg => holds_partial _ hg⟩
        simp only [Bool.and_eq_true, not_and, Bool.not_eq_true] at h
        cases h1 : (cfgOf f).sdkPlusOne with
        | false => exact refutes_no_plus_one _ (Or.inl h1)
        | true =>
          cases h2 : (cfgOf f).srvPlusOne with
          | false => exact refutes_no_plus_one _ (Or.inr h2)
          | true =>
            cases h3 : (cfgOf f).clampStart with
            | false => exact refutes_unclamped _ h3
            | true =>
              cases h4 : (cfgOf f).rejectsSlash with
              | false => exact refutes_separator _ h4
              | true =>
                cases h5 : (cfgOf f).validatesRanges with
                | false => exact refutes_unvalidated _ h5
                | true =>
                  cases h6 : (cfgOf f).cacheKeyedByN with
                  | false => exact refutes_stale_cache _ (by simp [Cfg.goodIsland, h1, h2, hb16]) h6
                  | true =>
                    cases h7 : (cfgOf f).unroutedIsError with
                    | false => exact refutes_unrouted_nil _ h7
                    | true =>
                      cases h8 : (cfgOf f).pathCacheKeyedByArgs with
                      | false => exact refutes_stale_path _ h8
                      | true => exact refutes_island_unchecked _ (h ⟨⟨⟨⟨⟨⟨⟨h1, h2⟩, h3⟩, h4⟩, h5⟩, h6⟩, h7⟩, h8⟩)

end Hv.C20
