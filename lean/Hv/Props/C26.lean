/-
  C26 — Malformed requests fail cleanly without side effects.

  "Any request the server receives, however malformed (empty or short swamp names, empty key
   lists, nil fields, out-of-range enums, oversized keys), produces an error or a well-defined
   response.  It never crashes the process, never corrupts stored data, and never leaves the
   server unable to shut down or the swamp unable to close."

  Quantifier: every handler of the gateway (as extracted), every request shape — any number of
  swamp entries, every combination of the features the validation prefixes inspect — and
  every behaviour of the engine below the prefix.

  Model: `Hv/Misc/Request.lean` (guard programs with Go's panic / defer / recover rules).
  What is proved: the *prefix* and the *defer discipline*.  The engine below the first
  `SummonSwamp` (what it answers for out-of-range enums, oversized keys …) is a parameter
  (`Entry.engine`); that it never panics is an assumption of `defined`, tested by the
  correspondence run on the real server, not proved.
-/
import Hv.Misc.RequestLemmas

namespace Hv.C26
open Hv.Request

/-- **The unproved part, made explicit.**  Below the validation prefix the engine is a parameter of the model.
    What is *known* about it from the code (engine facts: it panics on a negative paging offset unless the beacon
    clamps it; `SummonSwamp` creates the swamp a reader names; the V2 writer refuses keys it cannot encode) is part
    of the programs as `need` steps and is decided by the checker like any other guard.  What remains is this
    assumption: apart from those cases the engine answers (possibly with an error) instead of panicking.  It is an
    hypothesis of `defined`, never discharged in Lean; the correspondence run *tests* it on every generated request
    (an engine panic shows up as a recovered panic and fails the check). -/
def EngineSafe (h : Handler) (sh : Shape) : Prop := ∀ e ∈ entriesOf h sh, e.engine ≠ .panics

abbrev EnginesAnswer := EngineSafe
def EnginesOk (h : Handler) (sh : Shape) : Prop := ∀ e ∈ entriesOf h sh, e.engine = .ok

/-- The statement, relative to assumptions `A` on the request (atoms assumed false on every entry). -/
structure HoldsUnder (A : Known) (cfg : Cfg) : Prop where
  /-- every request is answered by a response or a gRPC error: never `(nil, nil)`, never a panic
      that leaves the handler or kills the process -/
  defined : ∀ h ∈ cfg.handlers, ∀ sh, (∀ e ∈ entriesOf h sh, Assumed A e) → EnginesAnswer h sh →
      (exec cfg h sh).out.defined = true
  /-- the safeops lock counter and the vigil counters are back at their pre-request value on every
      path, including recovered and escaping panics, whatever the engine does -/
  balanced : ∀ h ∈ cfg.handlers, ∀ sh, (exec cfg h sh).lock = 0 ∧ (exec cfg h sh).vigil = 0
  /-- a request rejected by the prefix of a writing handler has not entered the engine -/
  rejectPure : ∀ h ∈ cfg.handlers, h.writes = true → ∀ sh, EnginesOk h sh →
      isGrpcError (exec cfg h sh).out = true → (exec cfg h sh).bodies = 0

/-- The full-strength statement: no assumption on the request. -/
def Holds (cfg : Cfg) : Prop := HoldsUnder [] cfg

/-! ### The theorems, for every configuration the static checker accepts -/

theorem checkH_of_checkCfg {cfg : Cfg} {A : Known} (hc : checkCfg cfg A = true) {h : Handler}
    (hh : h ∈ cfg.handlers) : checkH cfg A h = true := by
  simp only [checkCfg, List.all_eq_true] at hc
  exact hc h hh

/-- `outcome_defined`: for all rpcs and all shapes. -/
theorem outcome_defined (cfg : Cfg) (A : Known) (hc : checkCfg cfg A = true) :
    ∀ h ∈ cfg.handlers, ∀ sh, (∀ e ∈ entriesOf h sh, Assumed A e) → EnginesAnswer h sh →
      (exec cfg h sh).out.defined = true := by
  intro h hh sh ha he
  have := checkH_of_checkCfg hc hh
  simp only [checkH, Bool.and_eq_true, Bool.not_eq_true'] at this
  obtain ⟨⟨⟨⟨_, hn⟩, hs⟩, _⟩, _⟩ := this
  exact exec_defined cfg A h hs hn sh (fun e hm => ⟨ha e hm, he e hm⟩)

/-- `counters_balanced`: for all rpcs, shapes, engine behaviours and defer orders. -/
theorem counters_balanced (cfg : Cfg) (hb : ∀ h ∈ cfg.handlers, balancedH h = true) :
    ∀ h ∈ cfg.handlers, ∀ sh, (exec cfg h sh).lock = 0 ∧ (exec cfg h sh).vigil = 0 :=
  fun h hh sh => exec_balanced cfg h (hb h hh) sh

theorem reject_pure (cfg : Cfg) (he : ∀ h ∈ cfg.handlers, effectSafe cfg h = true) :
    ∀ h ∈ cfg.handlers, h.writes = true → ∀ sh, EnginesOk h sh →
      isGrpcError (exec cfg h sh).out = true → (exec cfg h sh).bodies = 0 :=
  fun h hh hw sh hok hr => exec_rejectPure cfg h hw (he h hh) sh hok hr

theorem holdsUnder_of_check (cfg : Cfg) (A : Known) (hc : checkCfg cfg A = true) : HoldsUnder A cfg := by
  have parts : ∀ h ∈ cfg.handlers, balancedH h = true ∧ effectSafe cfg h = true := by
    intro h hh
    have := checkH_of_checkCfg hc hh
    simp only [checkH, Bool.and_eq_true] at this
    exact ⟨this.1.2, this.2⟩
  exact ⟨outcome_defined cfg A hc, counters_balanced cfg (fun h hh => (parts h hh).1),
         reject_pure cfg (fun h hh => (parts h hh).2)⟩

theorem holds_of_check (cfg : Cfg) (hc : checkCfg cfg [] = true) : Holds cfg :=
  holdsUnder_of_check cfg [] hc

/-! ### Refutation from a counterexample shape -/

theorem not_holds_of_violates (cfg : Cfg) (h : Handler) (hh : h ∈ cfg.handlers) (sh : Shape)
    (hv : violatesB cfg h sh = true) : ¬ Holds cfg := by
  intro H
  simp only [violatesB, Bool.or_eq_true, Bool.and_eq_true, Bool.not_eq_true', bne_iff_ne, ne_eq] at hv
  rcases hv with ((⟨ha, hd⟩ | hl) | hvg) | ⟨⟨⟨hw, hok⟩, hg⟩, hb⟩
  · have hans : EnginesAnswer h sh := by
      intro e he
      simp only [enginesAnswerB, List.all_eq_true, bne_iff_ne, ne_eq] at ha
      exact ha e he
    have := H.defined h hh sh (fun e _ => assumed_nil e) hans
    rw [hd] at this; cases this
  · exact hl (H.balanced h hh sh).1
  · exact hvg (H.balanced h hh sh).2
  · have hok' : EnginesOk h sh := by
      intro e he
      simp only [enginesOkB, List.all_eq_true, beq_iff_eq] at hok
      exact hok e he
    exact hb (H.rejectPure h hh hw sh hok' hg)

theorem not_holds_of_firstBad (cfg : Cfg) (h : Handler) (p : String × Shape)
    (hf : firstBad cfg cfg.handlers = some (h, p)) : ¬ Holds cfg := by
  have := firstBad_spec cfg cfg.handlers h p hf
  exact not_holds_of_violates cfg h this.1 p.2 this.2

/-! ### The gateway as it was (commit bb38e3b): closed witnesses

  `checkSwampName` rejects only the empty string before `name.Load` indexes three parts;
  `Get` tests `keys == nil` before `keys[0]`; `DestroyBulk` calls `name.Load` in its worker
  goroutines. -/

def legacyCheckName : List Step :=
  [ .guard (.atom .nameEmpty) (.reject .invalidArgument "SwampName_cannot_be_empty"),
    .load,
    .guard (.atom .notExistChk) (.reject .failedPrecondition "Swamp_does_not_exist") ]

def luh : List Dfr := [.lock, .deferUnlock, .deferRecover]

def legacyCount : Handler :=
  { name := "Count", multi := true, defers := luh, val := [.checkName .yes .nfEarly], main := [.body] }

def legacyGet : Handler :=
  { name := "Get", multi := true, defers := luh,
    val := [ .checkName .ifSingle .propagate,
             .guard (.or (.atom .keysNil) (.atom .key0Empty)) (.reject .invalidArgument "Keys_cannot_be_empty") ],
    main := [.load, .body] }

def legacySet : Handler :=
  { name := "Set", multi := true, writes := true, defers := luh,
    val := [ .checkName .no .propagate, .guard (.atom .kvNil) (.reject .invalidArgument "KeyValues_cannot_be_empty") ],
    main := [.load, .body] }

def legacyPatchMany : Handler :=
  { name := "PatchTreasuresMany", multi := true, writes := true, defers := luh,
    main := [ .guard (.atom .nameEmpty) .early, .guard (.atom .patchesEmpty) .early,
              .guard (.atom .bodyCapErr) .early, .checkName .no .allEarly, .body ] }

def legacyDestroyBulk : Handler :=
  { name := "DestroyBulk", stream := true, multi := true, writes := true,
    defers := [.deferRecover, .lock, .deferUnlock], main := [.loadGo, .body] }

def legacyCfg : Cfg :=
  { loadChecksLen := false, checkName := legacyCheckName,
    handlers := [legacyCount, legacyGet, legacySet, legacyPatchMany, legacyDestroyBulk] }

/-- `Count` with the swamp name "ab" (one part): `(nil, nil)`. -/
theorem count_shortname_witness :
    (exec legacyCfg legacyCount { entries := [{ nameParts := 1 }] }).out = .nilNil := by decide

/-- `Get` with `Keys = []` (non-nil, empty) on an existing swamp: `(nil, nil)`. -/
theorem get_emptykeys_witness :
    (exec legacyCfg legacyGet { entries := [{ keys := .empty }] }).out = .nilNil := by decide

/-- `Get` with `Keys = nil` is rejected cleanly — the defect is the *non-nil* empty list only. -/
theorem get_nilkeys_rejected :
    (exec legacyCfg legacyGet { entries := [{ keys := .nil }] }).out =
      .grpcError .invalidArgument "Keys_cannot_be_empty" := by decide

/-- `PatchTreasuresMany [valid, short name]`: the first entry is applied, the second one panics,
    and the client gets `(nil, nil)` although the store changed. -/
theorem patchMany_partial_witness :
    let r := exec legacyCfg legacyPatchMany { entries := [{}, { nameParts := 2 }] }
    r.out = .nilNil ∧ r.bodies = 1 := by decide

/-- `DestroyBulk` with a short name: the panic is raised in a worker goroutine and cannot be recovered. -/
theorem destroyBulk_crash_witness :
    (exec legacyCfg legacyDestroyBulk { entries := [{ nameParts := 1 }] }).out = .panicEscapes := by decide

/-- Even then the counters are balanced: the deferred unlock runs during the panic. -/
theorem legacy_counters_balanced :
    ∀ h ∈ legacyCfg.handlers, ∀ sh, (exec legacyCfg h sh).lock = 0 ∧ (exec legacyCfg h sh).vigil = 0 :=
  counters_balanced legacyCfg (by decide)

theorem refutes_legacy : ¬ Holds legacyCfg :=
  not_holds_of_violates legacyCfg legacyCount (List.mem_cons_self ..) { entries := [{ nameParts := 1 }] } (by decide)

/-- the fragment excluded by the defects seen so far: names with exactly three non-empty parts, no non-nil
    empty key list, and — for the engine hazards — existing swamps, non-negative offsets, storable keys -/
def A0 : Known := [.nameInvalid, .keysEmptyNN, .notExist, .fromNeg, .keyInvalid]

/-- `_partial`: on that fragment the legacy gateway satisfies the whole statement. -/
theorem legacy_partial : HoldsUnder A0 legacyCfg := holdsUnder_of_check legacyCfg A0 (by decide)

/-- Non-vacuity of the fragment: an ordinary entry satisfies the assumptions … -/
example : Assumed A0 ({} : Entry) := by
  intro a ha _ cx
  simp only [A0, List.mem_cons, List.mem_nil_iff, or_false] at ha
  rcases ha with rfl | rfl | rfl | rfl | rfl <;> rfl

/-- … and the witnesses above do not. -/
example : ¬ Assumed A0 ({ nameParts := 1 } : Entry) := by
  intro h
  have := h .nameInvalid (by simp [A0]) (by decide) ⟨false, false⟩
  exact absurd this (by decide)

/-! ### Defer discipline: what breaks the counters -/

/-- `UnlockSystem()` called as a plain statement instead of `defer`: a recovered panic leaks the lock
    (and `StopHydra` then waits forever in `WaitForUnlock`). -/
def plainUnlock : Handler :=
  { name := "Count", multi := true, defers := [.lock, .unlockAtEnd, .deferRecover],
    val := [.checkName .yes .nfEarly], main := [.body] }

theorem plainUnlock_leaks :
    (exec { legacyCfg with handlers := [plainUnlock] } plainUnlock { entries := [{ nameParts := 1 }] }).lock = 1 := by
  decide

/-- A vigil ceased by a plain call instead of `defer` leaks when the engine panics. -/
def plainCease : Handler :=
  { name := "GetAll", defers := luh, vigilDeferred := false, main := [.checkName .yes .propagate, .body] }

theorem plainCease_leaks :
    (exec { legacyCfg with handlers := [plainCease] } plainCease { top := { engine := .panics } }).vigil = 1 := by
  decide

/-- Registering `handlePanic` *before* the lock's defer is harmless: deferred calls run during
    the panic either way.  (The order is extracted and shown in the evidence, but no theorem needs it.) -/
theorem recoverFirst_balanced (cfg : Cfg) (h : Handler)
    (hd : h.defers = [.deferRecover, .lock, .deferUnlock]) (hv : h.vigilDeferred = true) (sh : Shape) :
    (exec cfg h sh).lock = 0 ∧ (exec cfg h sh).vigil = 0 :=
  exec_balanced cfg h (by simp [balancedH, hd, hv]) sh

/-! ### The repaired gateway -/

def fixedCfgBase : Cfg :=
  { loadChecksLen := false, handlers := [],
    checkName := [ .guard (.atom .nameEmpty) (.reject .invalidArgument "SwampName_cannot_be_empty"),
                   .guard (.atom .nameInvalid) (.reject .invalidArgument "SwampName_must_have_exactly"),
                   .load,
                   .guard (.atom .notExistChk) (.reject .failedPrecondition "Swamp_does_not_exist") ] }

def fixedCheckName : List Step :=
  [ .guard (.atom .nameEmpty) (.reject .invalidArgument "SwampName_cannot_be_empty"),
    .guard (.atom .nameInvalid) (.reject .invalidArgument "SwampName_must_have_exactly"),
    .load,
    .guard (.atom .notExistChk) (.reject .failedPrecondition "Swamp_does_not_exist") ]

def fixedGet : Handler :=
  { legacyGet with
    val := [ .checkName .ifSingle .propagate,
             .guard (.or (.atom .keysLen0) (.atom .key0Empty)) (.reject .invalidArgument "Keys_cannot_be_empty") ] }

def fixedDestroyBulk : Handler :=
  { legacyDestroyBulk with main := [.guard (.atom .nameInvalid) .early, .loadGo, .body] }

def fixedCfg : Cfg :=
  { loadChecksLen := false, checkName := fixedCheckName,
    handlers := [legacyCount, fixedGet, legacySet, legacyPatchMany, fixedDestroyBulk] }

/-- Non-vacuity of `holds_of_check`: the repaired programs pass the checker … -/
example : checkCfg fixedCfg [] = true := by decide

/-- … so the full statement holds for them, for every shape. -/
theorem holds_fixed : Holds fixedCfg := holds_of_check fixedCfg (by decide)

example : (exec fixedCfg legacyCount { entries := [{ nameParts := 1 }] }).out =
    .grpcError .invalidArgument "SwampName_must_have_exactly" := by decide

/-! ### Engine facts: what the engine below the prefix is known to mishandle

  The extractor puts a `need a tag` step in front of the engine call whenever the code below is known to mishandle
  requests on which `a` is true: `fromNeg` while `swamp.GetTreasuresByBeacon` does not clamp a negative offset (it
  panics on `treasuresByOrder[start+from]`), `notExist` in a handler that does not write (`SummonSwamp` creates the
  swamp it is asked for), `keyInvalid` in a handler that creates treasures while the V2 writer refuses such keys (the
  acknowledged record is gone after the flush).  The checker accepts the program only when a guard excludes `a`. -/

def sizeUnchecked : Handler :=
  { name := "Uint32SliceSize", defers := luh,
    main := [.guard (.atom .nameEmpty) (.reject .invalidArgument "SwampName_cannot_be_empty"),
             .checkName .no .propagate, .need .notExist "missingswamp", .body] }

/-- `Uint32SliceSize` on a well-formed name of a swamp that does not exist: the reader enters `SummonSwamp`. -/
theorem reader_creates_swamp_witness :
    (exec { fixedCfgBase with handlers := [sizeUnchecked] } sizeUnchecked { top := { exist := false } }).out
      = .engineHazard "missingswamp" := by decide

def byIndexUnclamped : Handler :=
  { name := "GetByIndex", defers := luh, main := [.checkName .yes .propagate, .need .fromNeg "negfrom", .need .notExist "missingswamp", .body] }

/-- `GetByIndex` with `From = -1` while the beacon does not clamp it. -/
theorem negative_from_witness :
    (exec { fixedCfgBase with handlers := [byIndexUnclamped] } byIndexUnclamped { top := { fromNeg := true } }).out
      = .engineHazard "negfrom" := by decide

def setUnvalidated : Handler :=
  { legacySet with main := [.load, .need .keyInvalid "badkey", .body] }

/-- `Set` with an empty or over-long key and no key guard: acknowledged, then refused by the writer. -/
theorem unstorable_key_witness :
    (exec { fixedCfgBase with handlers := [setUnvalidated] } setUnvalidated { entries := [{ keyBad := true }] }).out
      = .engineHazard "badkey" := by decide

def lockDetached : Handler :=
  { name := "Lock", defers := [.deferRecover],
    main := [.guard (.atom .lockKeyEmpty) (.reject .invalidArgument "Lock_key_cannot_be_empty"), .need .lockHeld "ctxignored", .body] }

/-- `Lock` on a key another caller holds, while the handler hands the locker a context detached from its caller's
    (`context.WithoutCancel(ctx)`): the wait cannot be ended by the caller — the handler is not back when the client's
    deadline has passed, its goroutine stays queued, and the lock it is granted later belongs to nobody until its TTL. -/
theorem lock_ignores_context_witness :
    (exec { fixedCfgBase with handlers := [lockDetached] } lockDetached { top := { lockHeld := true } }).out
      = .engineHazard "ctxignored" := by decide

/-- nothing else about `Lock` is affected: on a free key the same handler answers -/
example : (exec { fixedCfgBase with handlers := [lockDetached] } lockDetached { top := {} }).out = .response := by decide

/-- with the existence check in place the same reader passes the checker (non-vacuity of the `need` rule) -/
example : checkH { fixedCfgBase with handlers := [] } []
    { sizeUnchecked with main := [.checkName .yes .propagate, .need .notExist "missingswamp", .body] } = true := by decide

/-! ### Decision over the extracted facts -/

structure Facts where
  /-- `name.Load` checks `len(splitPath)` before indexing -/
  loadChecksLen : Tri
  /-- body of `checkSwampName` (grammar of `Hv/Misc/Request.lean`) -/
  checkName : String
  /-- one string per method of `Gateway` with a gRPC signature -/
  handlers : List String
  deriving Repr

def cfgOf (f : Facts) : Cfg :=
  { loadChecksLen := f.loadChecksLen.isYes,
    checkName := parseSteps f.checkName,
    handlers := f.handlers.map parseHandler }

def classify (f : Facts) : Verdict :=
  let cfg := cfgOf f
  if f.loadChecksLen == .unknown then .undetermined "name.Load-not-recognised"
  else if cfg.checkName.isEmpty || !cfg.checkName.all stepKnown then .undetermined "checkSwampName-not-recognised"
  else if cfg.handlers.isEmpty then .undetermined "no-handlers-found"
  else match cfg.handlers.find? (fun h => !h.recognised) with
    | some h => .undetermined ("handler-not-recognised:" ++ h.name)
    | none =>
      if checkCfg cfg [] then .holds
      else match firstBad cfg cfg.handlers with
        | some _ => .violated (findingIds cfg)
        | none => .undetermined "checker-rejects-but-no-counterexample-among-representative-shapes"

theorem classify_sound (f : Facts) :
    (classify f).Sound (Holds (cfgOf f)) (checkCfg (cfgOf f) A0 = true → HoldsUnder A0 (cfgOf f)) := by
  unfold classify
  simp only
  split
  · trivial
  · split
    · trivial
    · split
      · trivial
      · split
        · trivial
        · split
          · rename_i hc; exact holds_of_check _ hc
          · split
            · rename_i hb
              rename_i hp _
              exact ⟨not_holds_of_firstBad _ _ _ hb, holdsUnder_of_check _ A0⟩
            · trivial

end Hv.C26
