/-
  C01 — Storage log replays to the last-writer-wins state.

  "Whatever sequence of inserts, updates and deletes a swamp writes to its storage file, across
   any number of open/append/close sessions and for any key and payload the API accepts, reading
   the file back yields exactly the last value written for every key that was not deleted
   afterwards, and nothing else.  A write the engine cannot encode faithfully (for example an
   oversized key) is rejected instead of being stored in a form that reads back differently."

  Quantifiers: every history `ops : List Op` (write / flush / sync / close / reopen, any length,
  any keys and payloads), every block size up to 1 GiB, every swamp name shorter than 65536 bytes
  (longer names are C29's subject), every creation time, every lawful codec, every checksum.
  Two physical bounds are explicit hypotheses, not code facts: a payload is at most 1 GiB and the
  block size at most 1 GiB (so 32-bit size fields cannot wrap; the API cannot deliver more).

  Model: Hv/Storage/{Format,Reader,Writer}.lean.  Spec: `specFold` (Hv/Storage/Writer.lean) with
  `find_specOf` / `keysNodup_specOf` showing it is "last writer wins, delete removes, nothing else".
-/
import Hv.Storage.WriterLemmas
import Hv.Storage.SpecLemmas
import Hv.Storage.OverflowLemmas
import Hv.Storage.CompactLemmas
import Hv.Storage.ChronWrite
import Hv.Basic.Verdict

namespace Hv.C01
open Hv.Storage

/-- payloads the API can deliver -/
def PayloadsSane (ops : List Op) : Prop := ∀ e ∈ writesOf ops, e.data.length ≤ 2 ^ 30

/-- The full-strength statement for given code facts. -/
structure Holds (cfg : Cfg) : Prop where
  /-- a write the engine cannot encode faithfully is rejected by `WriteEntry` -/
  rejects : ∀ e : Entry, e.data.length ≤ 2 ^ 30 → accepts cfg e = true → Encodable e
  /-- …and the layer the engine actually calls, `chroniclerV2.Write`, lets its caller know: a
      treasure whose entry cannot be encoded is reported, not silently dropped -/
  apiRejects : ∀ t : Treasure, t.data.length ≤ 2 ^ 30 → ¬ Encodable (entryOf t) → apiReports cfg t = true
  /-- a swamp name whose file the writer refuses to create is refused by the API as well (otherwise
      every write to that swamp is acknowledged and silently lost) -/
  apiNameRejects : ∀ name : Bytes, createFileCfg cfg name 0 = none → apiAcceptsName cfg name = false
  /-- the chronicler's INSERT / UPDATE choice cannot change what is read back -/
  opChoice : ∀ ts : List Treasure, specOf ((ts.map entryOf).map asInsert) = specOf (ts.map entryOf)
  /-- compaction of a closed file keeps every record and the name -/
  compaction : ∀ (codec : Codec) (crc : Checksum) (bs : Nat) (name : Bytes) (now now' : Nat) (ops : List Op),
    maxSizeOf bs ≤ 2 ^ 30 → name.length < 2 ^ 16 → name ≠ [] → PayloadsSane ops →
    ∃ idx idx',
      loadIndex cfg codec.toDecoder crc (runOps cfg codec crc bs (createFile name now) (ops ++ [.close])).file = .ok (idx, name) ∧
      loadIndex cfg codec.toDecoder crc
        (compactSt cfg codec crc bs now' (runOps cfg codec crc bs (createFile name now) (ops ++ [.close]))).1.file = .ok (idx', name) ∧
      ∀ k, idx'.find k = idx.find k
  /-- `chroniclerV2.Load` (with or without its self-heal compaction) delivers the Spec state's decodable records -/
  chronLoads : ∀ (codec : Codec) (crc : Checksum) (bs : Nat) (name : Bytes) (now now' : Nat) (ops : List Op) (heals : Bool),
    maxSizeOf bs ≤ 2 ^ 30 → name.length < 2 ^ 16 → name ≠ [] → PayloadsSane ops →
    (chronLoad cfg codec crc bs now' name heals (runOps cfg codec crc bs (createFile name now) (ops ++ [.close]))).1
      = (specFold cfg (ops ++ [.close])).filter (fun p => !p.2.isEmpty)
  /-- whatever has left the write buffer loads to the Spec state of exactly those acknowledged
      writes (after flush/sync/close: of all acknowledged writes) -/
  replays : ∀ (codec : Codec) (crc : Checksum) (bs : Nat) (name : Bytes) (now : Nat) (ops : List Op),
    maxSizeOf bs ≤ 2 ^ 30 → name.length < 2 ^ 16 → PayloadsSane ops →
    ∃ flushed n,
      flushed ++ (runOps cfg codec crc bs (createFile name now) ops).pending = accepted cfg true ops ∧
      loadIndex cfg codec.toDecoder crc (runOps cfg codec crc bs (createFile name now) ops).file
        = .ok (specOf flushed, n)

/-- the statement restricted to the fragment the current format can carry: block sizes for which
    the 16-bit entry count cannot wrap, and histories whose acknowledged writes are encodable -/
def HoldsPartial (cfg : Cfg) : Prop :=
  ∀ (codec : Codec) (crc : Checksum) (bs : Nat) (name : Bytes) (now : Nat) (ops : List Op),
    Params cfg bs → name.length < 2 ^ 16 → WritesOK cfg ops →
    ∃ flushed n,
      flushed ++ (runOps cfg codec crc bs (createFile name now) ops).pending = accepted cfg true ops ∧
      loadIndex cfg codec.toDecoder crc (runOps cfg codec crc bs (createFile name now) ops).file
        = .ok (specOf flushed, n)

/-- `_partial`: with the delete case present, every history of encodable writes replays to the
    Spec state, for every block size the entry count field can serve. -/
theorem replays_partial (cfg : Cfg) (hd : cfg.deleteRemoves = true) : HoldsPartial cfg := by
  intro codec crc bs name now ops hP hn hW
  obtain ⟨flushed, hfl, hload⟩ := loadIndex_runOps cfg codec crc bs hP name now hn ops hW
  exact ⟨flushed, _, hfl, by rw [hload, replay_eq_specOf cfg hd]⟩

/-- the facts under which the property holds in full -/
def Good (cfg : Cfg) : Prop :=
  cfg.rejectsEmptyKey = true ∧ cfg.rejectsLongKey = true ∧ cfg.deleteRemoves = true ∧ cfg.flushAtCount = true ∧
  (cfg.chronSurfacesError = true ∨ cfg.apiValidatesKeys = true) ∧
  (cfg.rejectsLongName = true → cfg.apiBoundsNameLength = true)

theorem encodable_of_accepts (cfg : Cfg) (h1 : cfg.rejectsEmptyKey = true) (h2 : cfg.rejectsLongKey = true)
    (e : Entry) (hd : e.data.length ≤ 2 ^ 30) (ha : accepts cfg e = true) : Encodable e := by
  simp only [accepts, h1, h2, Bool.true_and, Bool.and_eq_true, Bool.not_eq_true', decide_eq_false_iff_not] at ha
  obtain ⟨hk, hl⟩ := ha
  refine ⟨?_, by omega, by omega⟩
  cases hkey : e.key with
  | nil => simp [hkey] at hk
  | cons _ _ => simp

/-! ### Non-vacuity: a three-session history with updates and deletes meets every hypothesis -/

def demoOps : List Op :=
  [.write ⟨1, [0x61], [1, 2, 3]⟩, .write ⟨1, [0x62], [4]⟩, .close, .reopen,
   .write ⟨2, [0x61], [9]⟩, .write ⟨3, [0x62], []⟩, .sync, .close, .reopen,
   .write ⟨1, [0x63], []⟩, .flush, .write ⟨1, [], [7]⟩, .close]

example : Good goodCfg := ⟨rfl, rfl, rfl, rfl, Or.inl rfl, fun _ => rfl⟩
example : PayloadsSane demoOps := by
  intro e he; simp [demoOps, writesOf] at he; rcases he with h | h | h | h | h | h <;> subst h <;> decide
example : specFold goodCfg demoOps = [([0x63], []), ([0x61], [9])] := by decide
example : WritesOK goodCfg demoOps := by
  intro e he ha
  simp [demoOps, writesOf] at he
  rcases he with h | h | h | h | h | h <;> subst h <;> first | (exact ⟨by decide, by decide⟩) | (simp [accepts, goodCfg] at ha)

/-! ### The defects of the code as it is: closed witnesses -/

/-- an empty key: accepted when `WriteEntry` does not validate, not encodable -/
def emptyKeyEntry : Entry := ⟨1, [], []⟩
/-- a 65536-byte key: its 16-bit length field reads 0 -/
def longKey : Bytes := List.replicate 65536 0x41
theorem longKey_length : longKey.length = 65536 := List.length_replicate
def longKeyEntry : Entry := ⟨1, longKey, []⟩
theorem longKey_isEmpty : longKey.isEmpty = false := by
  have := longKey_length
  cases h : longKey with
  | nil => rw [h] at this; simp at this
  | cons _ _ => rfl

theorem emptyKey_misreads : decodeEntry (encodeEntry emptyKeyEntry) = .error .emptyKey := by
  have h : encodeEntry emptyKeyEntry = 1 :: 0 :: 0 :: le 4 0 := by
    simp [encodeEntry, emptyKeyEntry, le]
  rw [h]
  exact decodeEntry_zeroKeyLen 1 _ (by simp)

theorem longKey_misreads (rest : Bytes) : decodeEntry (encodeEntry longKeyEntry ++ rest) = .error .emptyKey := by
  have h2 : le 2 65536 = [0, 0] := by decide
  have h : encodeEntry longKeyEntry ++ rest = 1 :: 0 :: 0 :: (longKey ++ (le 4 0 ++ rest)) := by
    simp only [encodeEntry, longKeyEntry, longKey_length, h2, List.length_nil, List.cons_append, List.nil_append,
      List.append_assoc, List.append_nil]
  rw [h]
  exact decodeEntry_zeroKeyLen 1 _ (by simp; omega)

theorem not_holds_of_acceptsEmptyKey (cfg : Cfg) (h : cfg.rejectsEmptyKey = false) : ¬ Holds cfg := by
  intro hh
  have := hh.rejects emptyKeyEntry (by decide) (by simp [accepts, h, emptyKeyEntry])
  exact absurd this.1 (by decide)

theorem not_holds_of_acceptsLongKey (cfg : Cfg) (h : cfg.rejectsLongKey = false) : ¬ Holds cfg := by
  intro hh
  have := hh.rejects longKeyEntry (by simp [longKeyEntry]) (by simp [accepts, h, longKeyEntry, longKey_isEmpty])
  have h2 := this.2.1
  simp only [longKeyEntry, longKey_length] at h2
  omega

/-- a chronicler that only logs the writer's refusal: the caller of `Write` (the swamp, hence the
    gateway that already acknowledged the `Set`) never learns that the record was not stored -/
theorem not_holds_of_silentDrop (cfg : Cfg) (h : cfg.chronSurfacesError = false) (h' : cfg.apiValidatesKeys = false) :
    ¬ Holds cfg := by
  intro hh
  have := hh.apiRejects ⟨[], [], false, false⟩ (by decide) (by decide)
  simp [apiReports, h, h'] at this

/-- the writer refuses a name longer than 65535 bytes but the gateway accepts it: `Set` answers NEW,
    every `Write` fails in `ensureWriter` and is only logged -/
theorem not_holds_of_apiAcceptsLongName (cfg : Cfg) (h : cfg.rejectsLongName = true) (h' : cfg.apiBoundsNameLength = false) :
    ¬ Holds cfg := by
  intro hh
  have hl : (List.replicate 65536 (0x61 : UInt8)).length = 65536 := List.length_replicate
  have := hh.apiNameRejects (List.replicate 65536 0x61) (by unfold createFileCfg; rw [hl]; simp [h])
  unfold apiAcceptsName at this
  rw [hl] at this
  simp [h'] at this

/-- wherever a block holding one of these two accepted entries sits in a file, `LoadIndex` of the
    whole file fails with `ErrEmptyKey`: every record of the swamp becomes unreadable.  (With the
    zero-filled-tail rule the same block, when it is the last one and ends in a zero byte — an
    empty payload does — is silently taken for the end of the data instead: the record is lost
    without an error; `readNextBlock_of_core_err`.) -/
theorem badEntry_poisons_file (cfg : Cfg) (hzt : cfg.zeroTailIsEOF = false) (codec : Codec) (crc : Checksum) (h : FileHeader) (name : Bytes)
    (before : List (List Entry)) (tail : Bytes) (e : Entry) (he : e = emptyKeyEntry ∨ e = longKeyEntry)
    (hv : h.Valid) (hn : NameOk h name) (hg : ∀ b ∈ before, GoodBlock b) :
    loadIndex cfg codec.toDecoder crc
      (encodeFileHeader h ++ (name ++ (renderBlocks codec crc before ++ (encodeBlock codec crc [e] ++ tail))))
      = .error .emptyKey := by
  apply loadIndex_poisoned cfg codec crc h name before [e] tail hv hn hg
  have hsz : sizeSum [e] < 2 ^ 31 + 2 ^ 17 := by
    rcases he with h | h <;> subst h <;> simp [sizeSum, Entry.size, emptyKeyEntry, longKeyEntry, longKey_length]
  apply readNextBlock_of_core_err' _ (fun _ => csize_encodeBlock_ne_zero codec crc [e] tail hsz (by simp)) hzt
  rw [readNextBlockCore_encodeBlock_gen cfg codec crc [e] tail (by simp) hsz]
  have : parseEntries 1 (encodeEntries [e]) = .error .emptyKey := by
    have hd : decodeEntry (encodeEntries [e]) = .error .emptyKey := by
      rcases he with h | h <;> subst h
      · simpa [encodeEntries] using emptyKey_misreads
      · simpa [encodeEntries] using longKey_misreads []
    simp [parseEntries, hd]
  simp only [List.length_singleton, this]
  rfl

/-- a `LoadIndex` without the delete case resurrects deleted keys -/
def deleteOps : List Op := [.write ⟨1, [0x6b], [0x76]⟩, .write ⟨3, [0x6b], []⟩, .close]

theorem pending_after_close (cfg : Cfg) (codec : Codec) (crc : Checksum) (bs : Nat) (st : St) (ops : List Op) :
    (runOps cfg codec crc bs st (ops ++ [.close])).pending = [] := by
  simp only [runOps, List.foldl_append, List.foldl_cons, List.foldl_nil]
  generalize List.foldl (fun s o => (step cfg codec crc bs s o).1) st ops = s
  obtain ⟨f, sess⟩ := s
  cases sess <;> simp [step, St.pending]

theorem not_holds_of_noDelete (cfg : Cfg) (h : cfg.deleteRemoves = false) : ¬ Holds cfg := by
  intro hh
  obtain ⟨fl, n, hfl, hload⟩ := hh.replays idCodec crc0 0 [] 0 deleteOps (by decide) (by decide)
    (by intro e he; simp [deleteOps, writesOf] at he; rcases he with h | h <;> subst h <;> decide)
  have hP : Params cfg 0 := ⟨by decide, Or.inr (by decide)⟩
  have hW : WritesOK cfg deleteOps := by
    intro e he _
    simp [deleteOps, writesOf] at he
    rcases he with h | h <;> subst h <;> exact ⟨by decide, by decide⟩
  obtain ⟨fl', hfl', hload'⟩ := loadIndex_runOps cfg idCodec crc0 0 hP [] 0 (by decide) deleteOps hW
  have hpend : (runOps cfg idCodec crc0 0 (createFile [] 0) deleteOps).pending = [] :=
    pending_after_close cfg idCodec crc0 0 _ [.write ⟨1, [0x6b], [0x76]⟩, .write ⟨3, [0x6b], []⟩]
  have hacc : accepted cfg true deleteOps = [⟨1, [0x6b], [0x76]⟩, ⟨3, [0x6b], []⟩] := by
    simp [deleteOps, accepted, acceptedBy, accepts, openAfter]
  rw [hpend, List.append_nil, hacc] at hfl hfl'
  subst hfl; subst hfl'
  rw [hload'] at hload
  have : replay cfg [⟨1, [0x6b], [0x76]⟩, ⟨3, [0x6b], []⟩] = specOf [⟨1, [0x6b], [0x76]⟩, ⟨3, [0x6b], []⟩] := by
    injection hload with h1; injection h1
  simp [replay, applyEntry, h, specOf, specStep, opDelete, opInsert, opUpdate, Index.put, Index.del] at this

/-- a buffer that does not flush at 65535 entries: 65536 eight-byte inserts of the same key into
    one 1 MiB block are acknowledged, and after `Close` the record is gone (or the file unreadable) -/
theorem writesOf_overflow (N : Nat) : ∀ e ∈ writesOf (overflowOpsN N), e = tiny := by
  unfold overflowOpsN
  induction N with
  | zero => intro e he; simp [writesOf] at he
  | succ n ih => intro e he; simp only [List.replicate_succ, List.cons_append, writesOf, List.mem_cons] at he; rcases he with h | h; exact h; exact ih e h

theorem not_holds_of_noCountFlush (cfg : Cfg) (h : cfg.flushAtCount = false) : ¬ Holds cfg := by
  intro hh
  obtain ⟨N, hN, hN0, hmod, hfit⟩ : ∃ N : Nat, N = 65535 + 1 ∧ 0 < N ∧ N % 2 ^ 16 = 0 ∧ N * 8 < 1048576 :=
    ⟨65536, by decide, by decide, by decide, by decide⟩
  obtain ⟨fl, n, hfl, hload⟩ := hh.replays idCodec crc0 1048576 [] 0 (overflowOpsN N) (by decide) (by decide)
    (by intro e he; rw [writesOf_overflow N e he]; decide)
  have hpend : (runOps cfg idCodec crc0 1048576 (createFile [] 0) (overflowOpsN N)).pending = [] :=
    pending_after_close cfg idCodec crc0 1048576 _ _
  have hacc : accepted cfg true (overflowOpsN N) = List.replicate N tiny := by
    unfold overflowOpsN
    rw [accepted_tiny]; simp [accepted, acceptedBy]
  rw [hpend, List.append_nil, hacc] at hfl
  subst hfl
  rw [hN, specOf_tiny] at hload
  rw [← hN] at hload
  exact overflow_load_gen cfg h idCodec crc0 N hN0 hmod hfit [] n hload

/-- The header counters are advisory.  After any history that ends with `Close`, a crash-window
    header (counters rewound to 0/0) followed by any further history still loads everything that
    was acknowledged and has left the buffer. -/
theorem stale_header_harmless (cfg : Cfg) (hd : cfg.deleteRemoves = true) (codec : Codec) (crc : Checksum) (bs : Nat)
    (hP : Params cfg bs) (name : Bytes) (now : Nat) (hn : name.length < 2 ^ 16) (ops1 ops2 : List Op)
    (hW1 : WritesOK cfg ops1) (hW2 : WritesOK cfg ops2) :
    ∃ flushed n,
      flushed ++ (runOps cfg codec crc bs (zeroCounts (runOps cfg codec crc bs (createFile name now) (ops1 ++ [.close]))) ops2).pending
        = accepted cfg true (ops1 ++ [.close]) ++ accepted cfg false ops2 ∧
      loadIndex cfg codec.toDecoder crc
        (runOps cfg codec crc bs (zeroCounts (runOps cfg codec crc bs (createFile name now) (ops1 ++ [.close]))) ops2).file
        = .ok (specOf flushed, n) := by
  have hW1' : WritesOK cfg (ops1 ++ [.close]) := by
    intro e he ha
    apply hW1 e _ ha
    have : ∀ l : List Op, writesOf (l ++ [.close]) = writesOf l := by
      intro l; induction l with
      | nil => rfl
      | cons o l ih => cases o <;> simp [writesOf, ih]
    rwa [this] at he
  have hI := runOps_inv cfg codec crc bs hP name (ops1 ++ [.close]) _ [] true (createFile_inv cfg codec crc bs name now hn) hW1'
  have hclosed : openAfterAll true (ops1 ++ [.close]) = false := by
    have : ∀ (b : Bool) (l : List Op), openAfterAll b (l ++ [.close]) = false := by
      intro b l; induction l generalizing b with
      | nil => rfl
      | cons o l ih => simp [openAfterAll, ih]
    exact this true ops1
  rw [hclosed] at hI
  have hI' := zeroCounts_inv cfg codec crc bs name _ _ hI
  obtain ⟨fl, hfl, hload⟩ := loadIndex_runOps_from cfg codec crc bs hP name _ _ false hI' ops2 hW2
  exact ⟨fl, _, by simpa using hfl, by rw [hload, replay_eq_specOf cfg hd]⟩

/-! ### The shape the migration property (C23) needs: a fresh file written from distinct-key INSERTs -/

theorem find_foldl_inserts (k : Bytes) (kvs : List (Bytes × Bytes)) (hnd : (kvs.map (·.1)).Nodup) (m : Index) :
    ((kvs.map fun p => (⟨opInsert, p.1, p.2⟩ : Entry)).foldl specStep m).find k
      = match List.lookup k kvs with
        | some v => some v
        | none => m.find k := by
  induction kvs generalizing m with
  | nil => rfl
  | cons p rest ih =>
    obtain ⟨k1, v1⟩ := p
    simp only [List.map_cons, List.nodup_cons] at hnd
    simp only [List.map_cons, List.foldl_cons]
    rw [ih hnd.2]
    have hstep : specStep m ⟨opInsert, k1, v1⟩ = m.put k1 v1 := by simp [specStep, opInsert, opDelete]
    rw [hstep]
    by_cases hk : k = k1
    · subst hk
      have hnone : List.lookup k rest = none := by
        rw [List.lookup_eq_none_iff]
        intro p hp
        have : p.1 ≠ k := fun heq => hnd.1 (List.mem_map.mpr ⟨p, hp, heq⟩)
        simpa using fun h => this h.symm
      simp [hnone, List.lookup_cons, find_put_self]
    · have hne : (k == k1) = false := by simpa using hk
      simp only [List.lookup_cons, hne]
      cases List.lookup k rest with
      | some v => rfl
      | none => exact find_put_other k k1 v1 m hk

/-- **Export for C23.**  A fresh file written under `name` from INSERTs of pairwise distinct,
    encodable keys (1..65535 bytes, payload ≤ 1 GiB) and closed, loads back to exactly those records
    and reports `name` — for every lawful codec, checksum and block size within `Params`, and every
    value of the writer-side facts (only the delete case of `LoadIndex` is needed). -/
theorem inserts_roundtrip (cfg : Cfg) (hd : cfg.deleteRemoves = true) (codec : Codec) (crc : Checksum) (bs : Nat)
    (hP : Params cfg bs) (name : Bytes) (now : Nat) (hn : name.length < 2 ^ 16)
    (kvs : List (Bytes × Bytes)) (hnd : (kvs.map (·.1)).Nodup)
    (henc : ∀ p ∈ kvs, EntryOK ⟨opInsert, p.1, p.2⟩) :
    ∃ idx, loadIndex cfg codec.toDecoder crc
        (runOps cfg codec crc bs (createFile name now) ((kvs.map fun p => Op.write ⟨opInsert, p.1, p.2⟩) ++ [.close])).file
          = .ok (idx, if name.isEmpty then [] else name) ∧
      (∀ k, idx.find k = List.lookup k kvs) ∧
      readSwampName cfg codec.toDecoder crc
        (runOps cfg codec crc bs (createFile name now) ((kvs.map fun p => Op.write ⟨opInsert, p.1, p.2⟩) ++ [.close])).file
          = .ok name := by
  have hwr : ∀ l : List (Bytes × Bytes), writesOf ((l.map fun p => Op.write ⟨opInsert, p.1, p.2⟩) ++ [.close])
      = l.map fun p => (⟨opInsert, p.1, p.2⟩ : Entry) := by
    intro l; induction l with
    | nil => rfl
    | cons p l ih => simp [writesOf, ih]
  have hW : WritesOK cfg ((kvs.map fun p => Op.write ⟨opInsert, p.1, p.2⟩) ++ [.close]) := by
    intro e he _
    rw [hwr] at he
    obtain ⟨p, hp, rfl⟩ := List.mem_map.mp he
    exact henc p hp
  have hacc : ∀ l : List (Bytes × Bytes), (∀ p ∈ l, EntryOK ⟨opInsert, p.1, p.2⟩) →
      accepted cfg true ((l.map fun p => Op.write ⟨opInsert, p.1, p.2⟩) ++ [.close])
        = l.map fun p => (⟨opInsert, p.1, p.2⟩ : Entry) := by
    intro l hl; induction l with
    | nil => simp [accepted, acceptedBy]
    | cons p l ih =>
      have hp := (hl p (by simp)).1
      have hacc1 : accepts cfg ⟨opInsert, p.1, p.2⟩ = true := by
        obtain ⟨h0, h1, _⟩ := hp
        simp only at h0 h1
        have : p.1.isEmpty = false := by cases hk : p.1 with | nil => simp [hk] at h0 | cons _ _ => rfl
        simp [accepts, this]; omega
      simp [accepted, acceptedBy, hacc1, openAfter, ih (fun q hq => hl q (by simp [hq]))]
  obtain ⟨fl, hfl, hload⟩ := loadIndex_runOps cfg codec crc bs hP name now hn _ hW
  rw [pending_after_close, List.append_nil, hacc kvs henc] at hfl
  subst hfl
  have hmeta : metaName (kvs.map fun p => (⟨opInsert, p.1, p.2⟩ : Entry)) = [] := by
    unfold metaName
    rw [List.find?_eq_none.mpr]
    intro e he
    obtain ⟨p, _, rfl⟩ := List.mem_map.mp he
    simp [opInsert, opMetadata]
  refine ⟨_, by rw [hload, hmeta], ?_, C29_name⟩
  · intro k
    rw [replay_eq_specOf cfg hd]
    have := find_foldl_inserts k kvs hnd []
    unfold specOf
    rw [this]
    cases List.lookup k kvs <;> rfl
where
  C29_name : readSwampName cfg codec.toDecoder crc
        (runOps cfg codec crc bs (createFile name now) ((kvs.map fun p => Op.write ⟨opInsert, p.1, p.2⟩) ++ [.close])).file
          = .ok name := by
    have hs := runOps_shape cfg codec crc bs 3 name ((kvs.map fun p => Op.write ⟨opInsert, p.1, p.2⟩) ++ [.close]) _
      (createFile_shape name now hn)
    obtain ⟨hdr, ho, hver⟩ := openReader_shape 3 name _ hs
    unfold readSwampName
    rw [ho]
    simp [hver]

/-! ### Compaction and `chroniclerV2.Load` on top of the same writer -/

theorem accepted_ok (cfg : Cfg) (ops : List Op) (hW : WritesOK cfg ops) (b : Bool) : ∀ e ∈ accepted cfg b ops, EntryOK e := by
  induction ops generalizing b with
  | nil => intro e he; simp [accepted] at he
  | cons op ops ih =>
    obtain ⟨h1, h2⟩ := writesOK_cons cfg op ops hW
    intro e he
    simp only [accepted, List.mem_append] at he
    rcases he with he | he
    · cases op <;> cases b <;> simp [acceptedBy] at he
      rename_i e'
      obtain ⟨ha, rfl⟩ := he
      exact h1 e rfl ha
    · exact ih h2 _ e he

/-- rewriting a file from its live index (one INSERT per record, then `Close`) yields a file that
    loads to the same map under the same name — the common core of `Compactor.Compact` and
    `CompactFromIndex` -/
theorem rewrite_preserves_index (cfg : Cfg) (hd : cfg.deleteRemoves = true) (codec : Codec) (crc : Checksum) (bs : Nat)
    (hP : Params cfg bs) (now : Nat) (nm : Bytes) (hn : nm.length < 2 ^ 16) (es : List Entry) (hes : ∀ e ∈ es, EntryOK e) :
    ∃ idx', loadIndex cfg codec.toDecoder crc
        (runOps cfg codec crc bs (createFile nm now) (((specOf es).map fun p => Op.write ⟨opInsert, p.1, p.2⟩) ++ [.close])).file
          = .ok (idx', if nm.isEmpty then [] else nm) ∧
      ∀ k, idx'.find k = (specOf es).find k := by
  have hok : ∀ p ∈ specOf es, EntryOK ⟨opInsert, p.1, p.2⟩ :=
    mem_specOf es (fun k v => EntryOK ⟨opInsert, k, v⟩) (fun e he => by
      obtain ⟨⟨h0, h1, h2⟩, h3⟩ := hes e he
      exact ⟨⟨h0, h1, h2⟩, h3⟩)
  obtain ⟨idx', hload, hfind, _⟩ := inserts_roundtrip cfg hd codec crc bs hP nm now hn (specOf es) (keysNodup_specOf es) hok
  exact ⟨idx', hload, fun k => by rw [hfind k]; rfl⟩

/-- **compaction_preserves_index**: after any history that ends with `Close`, `Compactor.Compact`
    (forced) leaves a file that loads to the same records under the same name. -/
theorem compaction_preserves_index (cfg : Cfg) (hd : cfg.deleteRemoves = true) (codec : Codec) (crc : Checksum) (bs : Nat)
    (hP : Params cfg bs) (name : Bytes) (now now' : Nat) (hn : name.length < 2 ^ 16) (hne : name ≠ [])
    (ops : List Op) (hW : WritesOK cfg ops) :
    ∃ idx idx',
      loadIndex cfg codec.toDecoder crc (runOps cfg codec crc bs (createFile name now) (ops ++ [.close])).file = .ok (idx, name) ∧
      loadIndex cfg codec.toDecoder crc
        (compactSt cfg codec crc bs now' (runOps cfg codec crc bs (createFile name now) (ops ++ [.close]))).1.file = .ok (idx', name) ∧
      ∀ k, idx'.find k = idx.find k := by
  have hW' : WritesOK cfg (ops ++ [.close]) := by
    intro e he ha
    apply hW e _ ha
    have : ∀ l : List Op, writesOf (l ++ [.close]) = writesOf l := by
      intro l; induction l with
      | nil => rfl
      | cons o l ih => cases o <;> simp [writesOf, ih]
    rwa [this] at he
  have hemp : name.isEmpty = false := by cases name with | nil => exact absurd rfl hne | cons _ _ => rfl
  obtain ⟨fl, hfl, hload⟩ := loadIndex_runOps cfg codec crc bs hP name now hn (ops ++ [.close]) hW'
  rw [pending_after_close, List.append_nil] at hfl
  subst hfl
  simp only [hemp, Bool.false_eq_true, if_false] at hload
  have hes := accepted_ok cfg (ops ++ [.close]) hW' true
  obtain ⟨idx', hload', hfind⟩ := rewrite_preserves_index cfg hd codec crc bs hP now' name hn _ hes
  simp only [hemp, Bool.false_eq_true, if_false] at hload'
  have hsess : (runOps cfg codec crc bs (createFile name now) (ops ++ [.close])).sess = none := by
    simp only [runOps, List.foldl_append, List.foldl_cons, List.foldl_nil]
    generalize List.foldl (fun s o => (step cfg codec crc bs s o).1) (createFile name now) ops = s
    obtain ⟨f, sess⟩ := s
    cases sess <;> simp [step]
  have hcf : createFileCfg cfg name now' = some (createFile name now') := by
    unfold createFileCfg
    rw [if_neg]
    simp only [Bool.and_eq_true, decide_eq_true_eq, not_and, Nat.not_lt]
    intro _; omega
  refine ⟨_, idx', hload, ?_, fun k => by rw [hfind k, replay_eq_specOf cfg hd]⟩
  simp only [compactSt, hsess, hload, hcf]
  rw [replay_eq_specOf cfg hd]
  exact hload'

/-- **load_replays**: `chroniclerV2.Load` hands the swamp exactly the records of the Spec state that
    have a non-empty payload (an empty one cannot be decoded into a treasure and is skipped), and —
    whether or not it self-heals by `CompactFromIndex` — leaves a file that loads to the same map. -/
theorem load_replays (cfg : Cfg) (hd : cfg.deleteRemoves = true) (codec : Codec) (crc : Checksum) (bs : Nat)
    (hP : Params cfg bs) (name : Bytes) (now now' : Nat) (hn : name.length < 2 ^ 16) (hne : name ≠ [])
    (ops : List Op) (hW : WritesOK cfg ops) (heals : Bool) :
    let st := runOps cfg codec crc bs (createFile name now) (ops ++ [.close])
    (chronLoad cfg codec crc bs now' name heals st).1 = (specFold cfg (ops ++ [.close])).filter (fun p => !p.2.isEmpty) ∧
    ∃ idx', loadIndex cfg codec.toDecoder crc (chronLoad cfg codec crc bs now' name heals st).2.file = .ok (idx', name) ∧
      ∀ k, idx'.find k = (specFold cfg (ops ++ [.close])).find k := by
  intro st
  have hW' : WritesOK cfg (ops ++ [.close]) := by
    intro e he ha
    apply hW e _ ha
    have : ∀ l : List Op, writesOf (l ++ [.close]) = writesOf l := by
      intro l; induction l with
      | nil => rfl
      | cons o l ih => cases o <;> simp [writesOf, ih]
    rwa [this] at he
  have hemp : name.isEmpty = false := by cases name with | nil => exact absurd rfl hne | cons _ _ => rfl
  obtain ⟨fl, hfl, hload⟩ := loadIndex_runOps cfg codec crc bs hP name now hn (ops ++ [.close]) hW'
  rw [pending_after_close, List.append_nil] at hfl
  subst hfl
  simp only [hemp, Bool.false_eq_true, if_false] at hload
  rw [replay_eq_specOf cfg hd] at hload
  have hsess : st.sess = none := by
    simp only [st, runOps, List.foldl_append, List.foldl_cons, List.foldl_nil]
    generalize List.foldl (fun s o => (step cfg codec crc bs s o).1) (createFile name now) ops = s
    obtain ⟨f, sess⟩ := s
    cases sess <;> simp [step]
  have hcf : createFileCfg cfg name now' = some (createFile name now') := by
    unfold createFileCfg
    rw [if_neg]
    simp only [Bool.and_eq_true, decide_eq_true_eq, not_and, Nat.not_lt]
    intro _; omega
  obtain ⟨idx', hload', hfind⟩ := rewrite_preserves_index cfg hd codec crc bs hP now' name hn _ (accepted_ok cfg (ops ++ [.close]) hW' true)
  simp only [hemp, Bool.false_eq_true, if_false] at hload'
  unfold chronLoad
  simp only [st] at hsess ⊢
  rw [hload]
  simp only [hemp, Bool.false_eq_true, if_false, hsess, Option.isNone_none, Bool.and_true]
  refine ⟨rfl, ?_⟩
  cases heals with
  | false => exact ⟨_, hload, fun _ => rfl⟩
  | true =>
    simp only [if_true, compactFromIndexSt, hcf]
    exact ⟨idx', hload', hfind⟩

/-- **C01 holds** for every history, block size, name, codec and checksum when `WriteEntry`
    validates keys, the buffer flushes before the 16-bit count wraps and `LoadIndex` handles deletes. -/
theorem holds_of_good (cfg : Cfg) (hg : Good cfg) : Holds cfg := by
  obtain ⟨h1, h2, h3, h4, h5, h6⟩ := hg
  refine ⟨encodable_of_accepts cfg h1 h2, ?_, ?_, fun ts => insert_update_equivalent _, ?_, ?_, ?_⟩
  · intro t hd hne
    have h5' : (cfg.chronSurfacesError || cfg.apiValidatesKeys) = true := by
      rcases h5 with h | h <;> simp [h]
    simp only [apiReports, h5', Bool.true_and, Bool.not_eq_true']
    cases ha : accepts cfg (entryOf t) with
    | false => rfl
    | true =>
      exfalso; apply hne
      apply encodable_of_accepts cfg h1 h2 _ _ ha
      unfold entryOf; split <;> simp <;> omega
  · intro name hc
    unfold createFileCfg at hc
    split at hc
    · rename_i hcond
      simp only [Bool.and_eq_true, decide_eq_true_eq] at hcond
      simp [apiAcceptsName, h6 hcond.1, hcond.2]
    · cases hc
  · intro codec crc bs name now now' ops hbs hn hne hp
    have hW : WritesOK cfg ops := fun e he ha => ⟨encodable_of_accepts cfg h1 h2 e (hp e he) ha, hp e he⟩
    exact compaction_preserves_index cfg h3 codec crc bs ⟨hbs, Or.inl h4⟩ name now now' hn hne ops hW
  · intro codec crc bs name now now' ops heals hbs hn hne hp
    have hW : WritesOK cfg ops := fun e he ha => ⟨encodable_of_accepts cfg h1 h2 e (hp e he) ha, hp e he⟩
    exact (load_replays cfg h3 codec crc bs ⟨hbs, Or.inl h4⟩ name now now' hn hne ops hW heals).1
  intro codec crc bs name now ops hbs hn hp
  have hP : Params cfg bs := ⟨hbs, Or.inl h4⟩
  have hW : WritesOK cfg ops := fun e he ha => ⟨encodable_of_accepts cfg h1 h2 e (hp e he) ha, hp e he⟩
  exact replays_partial cfg h3 codec crc bs name now ops hP hn hW

/-! ### Decision over the extracted facts -/

/-- which write of `flushLocked` comes first, second, third -/
inductive FlushOrder where
  | blockHeaderDataFileHeader   -- block header, compressed data, then the file-header rewrite
  | other
  | unknown
  deriving DecidableEq, Repr

inductive Cmp where
  | ge | gt | unknown
  deriving DecidableEq, Repr

structure Facts where
  keyLenBytes : Option Nat
  dataLenBytes : Option Nat
  entryCountBytes : Option Nat
  blockSizeFieldBytes : Option Nat
  rejectsEmptyKey : Tri
  rejectsLongKey : Tri
  flushCmp : Cmp
  flushAtCount : Tri
  flushOrder : FlushOrder
  deleteRemoves : Tri
  metadataIgnored : Tri
  /-- `WriteEntries` flushes after every `Add` that asks for it (as `WriteEntry` does) -/
  writeEntriesFlushesPerEntry : Tri
  /-- both compaction paths write the live set entry by entry through `WriteEntry` -/
  compactionWritesPerEntry : Tri
  /-- `ReadAllEntries`/`ReadAllBlocks` read blocks until EOF, not up to a header counter -/
  readerScansToEOF : Tri
  /-- `chroniclerV2.Write` picks DELETE for `GetDeletedAt() > 0`, else INSERT iff `GetFileName() == nil`, else UPDATE -/
  chronOpChoice : Tri
  /-- after a refused / unencodable treasure `Write` goes on with the rest of the batch (`continue`) -/
  chronContinuesAfterError : Tri
  /-- `Write` reports a refused entry to its caller -/
  chronSurfacesError : Tri
  /-- the API layer (gateway `isValidKey`) refuses empty and > 65535-byte keys with an error before a
      treasure is created, so that no unencodable key can reach `Write` through the API -/
  apiValidatesKeys : Tri
  /-- `openExistingFile` truncates the file behind the last complete block (proved to be the identity
      on every file the writer leaves behind: `openExisting_ok`) -/
  openCutsTornTail : Tri
  /-- the walk stops at a zero size field (`next == end+BlockHeaderSize`) -/
  openStopsAtZeroSize : Tri
  /-- a header of 64 zero bytes: the file is replaced by a fresh one (`startOver`) -/
  openRestartsZeroHeader : Tri
  /-- the last walked block is cut as well when its checksum does not match (`blockIntactAt`) -/
  openChecksLastBlock : Tri
  /-- open fails and leaves the file alone when an intact block lies behind the cut point
      (`intactBlockBehind`) -/
  openSparesMidDamage : Tri
  /-- `createNewFile` refuses a swamp name longer than 65535 bytes (the C29 fact) -/
  writerRejectsLongName : Tri
  /-- `isValidSwampName` bounds the name length by 65535 -/
  apiBoundsNameLength : Tri
  deriving Repr

def cfgOf (f : Facts) : Cfg :=
  { goodCfg with
    rejectsEmptyKey := f.rejectsEmptyKey.isYes
    rejectsLongKey := f.rejectsLongKey.isYes
    flushGe := f.flushCmp != .gt
    flushAtCount := f.flushAtCount.isYes
    deleteRemoves := f.deleteRemoves.isYes
    chronSurfacesError := f.chronSurfacesError.isYes
    apiValidatesKeys := f.apiValidatesKeys.isYes
    rejectsLongName := f.writerRejectsLongName.isYes
    apiBoundsNameLength := f.apiBoundsNameLength.isYes
    openCutsTornTail := f.openCutsTornTail.isYes
    openStopsAtZeroSize := f.openStopsAtZeroSize.isYes }

/-- the model's fixed layout is the code's layout -/
def layoutOk (f : Facts) : Bool :=
  f.keyLenBytes == some 2 && f.dataLenBytes == some 4 && f.entryCountBytes == some 2 &&
  f.blockSizeFieldBytes == some 4 && f.flushOrder == .blockHeaderDataFileHeader && f.metadataIgnored == .yes &&
  f.writeEntriesFlushesPerEntry == .yes && f.compactionWritesPerEntry == .yes && f.readerScansToEOF == .yes &&
  f.chronOpChoice == .yes && f.chronContinuesAfterError == .yes

def hasUnknown (f : Facts) : Bool :=
  f.rejectsEmptyKey == .unknown || f.rejectsLongKey == .unknown || f.flushCmp == .unknown ||
  f.flushAtCount == .unknown || f.deleteRemoves == .unknown || f.openCutsTornTail == .unknown ||
  f.writerRejectsLongName == .unknown || (f.writerRejectsLongName == .yes && f.apiBoundsNameLength == .unknown) ||
  (f.chronSurfacesError != .yes && f.apiValidatesKeys != .yes && (f.chronSurfacesError == .unknown || f.apiValidatesKeys == .unknown))

/-- the branches of `openExistingFile` for files the writer alone never leaves behind: whether they
    are there does not matter to `Holds` (`openExisting_ok`: none is taken on a writer-produced
    file), an unrecognised shape of that code does -/
def openUnknown (f : Facts) : Bool :=
  f.openStopsAtZeroSize == .unknown || f.openRestartsZeroHeader == .unknown ||
  f.openChecksLastBlock == .unknown || f.openSparesMidDamage == .unknown

def findings (f : Facts) : List String :=
  (if f.rejectsEmptyKey == .no then ["C01-empty-key-accepted"] else []) ++
  (if f.rejectsLongKey == .no then ["C01-long-key-accepted"] else []) ++
  (if f.deleteRemoves == .no then ["C01-delete-not-replayed"] else []) ++
  (if f.flushAtCount == .no then ["C01-block-entry-count-overflow"] else []) ++
  (if f.chronSurfacesError == .no && f.apiValidatesKeys == .no then ["C01-chronicler-drops-refused-entry"] else []) ++
  (if f.writerRejectsLongName == .yes && f.apiBoundsNameLength == .no then ["C01-api-acks-unstorable-name"] else [])

def classify (f : Facts) : Verdict :=
  if !layoutOk f then .undetermined "storage layout facts (field widths / flush order / metadata handling / per-entry flush in WriteEntries and compaction / scan-to-EOF) differ from the model"
  else if openUnknown f then .undetermined "openExistingFile (zero header / torn-tail walk / last-block check / mid-file damage) was not recognised"
  else if hasUnknown f then .undetermined "a WriteEntry / WriteBuffer.Add / LoadIndex pattern was not recognised"
  else if !(findings f).isEmpty then .violated (findings f)
  else .holds

/-- the `_partial` statement attached to a `violated` verdict -/
def Partial (f : Facts) : Prop := f.deleteRemoves = .yes → HoldsPartial (cfgOf f)

theorem classify_sound (f : Facts) : (classify f).Sound (Holds (cfgOf f)) (Partial f) := by
  unfold classify
  split
  · trivial
  · split
    · trivial
    · split
      · trivial
      · rename_i hl ho hu
        simp only [hasUnknown, Bool.or_eq_true, beq_iff_eq, not_or] at hu
        obtain ⟨⟨⟨⟨⟨⟨⟨⟨hu1, hu2⟩, _⟩, hu4⟩, hu5⟩, _⟩, hu7⟩, hu8⟩, hu6⟩ := hu
        have hpart : Partial f := by
          intro hd
          exact replays_partial (cfgOf f) (by simp [cfgOf, hd, Tri.isYes])
        split
        · rename_i hf
          refine ⟨?_, hpart⟩
          by_cases h1 : f.rejectsEmptyKey = .no
          · exact not_holds_of_acceptsEmptyKey _ (by simp [cfgOf, h1, Tri.isYes])
          · by_cases h2 : f.rejectsLongKey = .no
            · exact not_holds_of_acceptsLongKey _ (by simp [cfgOf, h2, Tri.isYes])
            · by_cases h3 : f.deleteRemoves = .no
              · exact not_holds_of_noDelete _ (by simp [cfgOf, h3, Tri.isYes])
              · by_cases h4 : f.flushAtCount = .no
                · exact not_holds_of_noCountFlush _ (by simp [cfgOf, h4, Tri.isYes])
                · by_cases h5 : f.chronSurfacesError = .no ∧ f.apiValidatesKeys = .no
                  · exact not_holds_of_silentDrop _ (by simp [cfgOf, h5.1, Tri.isYes]) (by simp [cfgOf, h5.2, Tri.isYes])
                  · by_cases h6 : f.writerRejectsLongName = .yes ∧ f.apiBoundsNameLength = .no
                    · exact not_holds_of_apiAcceptsLongName _ (by simp [cfgOf, h6.1, Tri.isYes]) (by simp [cfgOf, h6.2, Tri.isYes])
                    · exfalso
                      have e5 : (f.chronSurfacesError == .no && f.apiValidatesKeys == .no) = false := by
                        cases ha : f.chronSurfacesError <;> cases hb : f.apiValidatesKeys <;> simp_all
                      have e6 : (f.writerRejectsLongName == .yes && f.apiBoundsNameLength == .no) = false := by
                        cases ha : f.writerRejectsLongName <;> cases hb : f.apiBoundsNameLength <;> simp_all
                      simp [findings, h1, h2, h3, h4, e5, e6] at hf
        · rename_i hf
          have h1 : f.rejectsEmptyKey = .yes := by
            cases h : f.rejectsEmptyKey <;> simp_all [findings]
          have h2 : f.rejectsLongKey = .yes := by
            cases h : f.rejectsLongKey <;> simp_all [findings]
          have h3 : f.deleteRemoves = .yes := by
            cases h : f.deleteRemoves <;> simp_all [findings]
          have h4 : f.flushAtCount = .yes := by
            cases h : f.flushAtCount <;> simp_all [findings]
          have h5 : f.chronSurfacesError.isYes = true ∨ f.apiValidatesKeys.isYes = true := by
            cases ha : f.chronSurfacesError <;> cases hb : f.apiValidatesKeys <;> simp_all [findings, Tri.isYes]
          have h6 : f.writerRejectsLongName.isYes = true → f.apiBoundsNameLength.isYes = true := by
            cases ha : f.writerRejectsLongName <;> cases hb : f.apiBoundsNameLength <;> simp_all [findings, Tri.isYes]
          exact holds_of_good _ ⟨by simp [cfgOf, h1, Tri.isYes], by simp [cfgOf, h2, Tri.isYes],
            by simp [cfgOf, h3, Tri.isYes], by simp [cfgOf, h4, Tri.isYes], by simpa [cfgOf] using h5, by simpa [cfgOf] using h6⟩

end Hv.C01
