/-
  C11 — Claims hand out disjoint, matching, oldest-first records.

  "Concurrent shift-expired, shift-matching and patch-expired callers on the same swamp never
   receive the same record.  Every record a caller receives satisfied the selection criteria
   (expired, in the time window, matching the filters) at the moment it was claimed; callers
   receive at most the requested number, in index order.  A record deleted by someone else is
   never returned or brought back to life by a claim."

  Quantifiers: every schedule of seed / setStatus / expiry write + index refresh / delete /
  candidate snapshot / shift claim / PatchExpired select–patch–reindex actions, any number of
  callers and records, both deletion flavours (persisted or never-written records).
  Model: `Hv/Conc/Claim.lean`.
-/
import Hv.Conc.ClaimLemmas
import Hv.Conc.LockOrder
import Hv.Basic.Verdict

namespace Hv.C11
open Hv.Claim

structure Safe (sp : St × Bool) : Prop where
  /-- (a) no record is handed out twice by shift claims … -/
  disjoint : sp.1.claimed.Pairwise (fun a b => a.key ≠ b.key)
  /-- … and a handed-out record is not in the index any more -/
  notIndexed : ∀ cl ∈ sp.1.claimed, cl.key ∉ sp.1.index
  /-- (b) every claim (shift or patch-expired) satisfied its criteria on the state of the claim step -/
  matching : ∀ cl ∈ sp.1.claimed ++ sp.1.pclaimed, cl.ok = true
  /-- (c) at most the requested number, in index order -/
  bounded : ∀ b ∈ sp.1.batches, b.got.length ≤ b.howMany ∧ b.got.Sublist b.before
  /-- (d) the index only lists live records, and an acknowledged delete stays deleted -/
  noGhosts : ∀ k ∈ sp.1.index, (sp.1.recs k).present = true
  noResurrection : ∀ k ∈ sp.1.deleted, (sp.1.recs k).present = false

/-- The full-strength statement. -/
structure Holds (c : Cfg) : Prop where
  safe : ∀ persisted sched sp, run c (init persisted) sched = some sp → Safe sp

theorem safe_of_inv (pred : Bool) (sp : St × Bool) (h : Inv pred sp) (hp : pred = true) : Safe sp := by
  refine ⟨h.once, ?_, ?_, h.bat, h.live, fun k hk => (h.dead k hk).2⟩
  · intro cl hcl hin
    have := h.live _ hin
    rw [(h.gone cl hcl).2] at this; exact absurd this (by simp)
  · intro cl hcl
    rcases List.mem_append.mp hcl with hc | hc
    · exact h.ok hp cl hc
    · exact h.pok hp cl hc

/-- All six clauses, for every schedule, when every fact has its repaired value. -/
theorem claims_safe : Holds good := by
  constructor
  intro persisted sched sp hr
  have hi : Inv true sp := LTS.inv_run (step good) (Inv true)
    (fun s a s' hi hs => inv_step good true rfl rfl rfl (fun _ => ⟨rfl, rfl, rfl⟩) s a s' (fun _ => ⟨rfl, rfl⟩) hi hs)
    (init persisted) sched sp (inv_init true persisted) hr
  exact safe_of_inv true sp hi rfl

/-- (a) on its own: claimed sets are pairwise disjoint. -/
theorem claims_disjoint (persisted : Bool) (sched : List Act) (sp : St × Bool)
    (hr : run good (init persisted) sched = some sp) :
    sp.1.claimed.Pairwise (fun a b => a.key ≠ b.key) ∧ ∀ cl ∈ sp.1.claimed, cl.key ∉ sp.1.index :=
  ⟨(claims_safe.safe persisted sched sp hr).disjoint, (claims_safe.safe persisted sched sp hr).notIndexed⟩

/-- Non-vacuity: two shift claimers and a PatchExpired call in flight around a delete. -/
example : (run good (init false)
    [.seed 1 1 (-30), .seed 2 1 (-20), .seed 3 2 (-10), .seed 4 1 (-5), .snapshot 1 1, .setStatus 2 2,
     .pselect 3 1 false, .shift 1 5 (some 1), .shiftDel 1 4, .delete 3, .ppatch 3 1 4 5000, .preindex 3, .shift 2 5 none,
     .shiftDel 2 2]).map
    (fun sp => (sp.1.claimed.map (·.key), sp.1.index, sp.1.batches.map (·.got), sp.1.deleted)) =
    some ([4, 2], [1], [[1], [4], [2]], [3]) := by decide

/-- Non-vacuity of the re-validating delete step: record 1's expiry is moved to the future between the selection pass
    and its delete step — it is not handed out and goes back into the index; record 2 is claimed. -/
example : (run good (init false)
    [.seed 1 1 (-10), .seed 2 1 (-5), .shift 1 5 none, .expWrite 1 5000, .shiftDel 1 1, .shiftDel 1 2]).map
    (fun sp => (sp.1.claimed.map (·.key), sp.1.index, (sp.1.recs 1).present, (sp.1.recs 2).present)) =
    some ([2], [1], true, false) := by decide

/-! ### the `_partial` statement

  Whatever the predicate facts and the two PatchExpired-tail facts are: as long as selection is
  atomic and uses `<`, schedules that contain no PatchExpired patch / reindex steps keep (a), (c)
  and (d). -/

structure SafeStructural (sp : St × Bool) : Prop where
  disjoint : sp.1.claimed.Pairwise (fun a b => a.key ≠ b.key)
  notIndexed : ∀ cl ∈ sp.1.claimed, cl.key ∉ sp.1.index
  bounded : ∀ b ∈ sp.1.batches, b.got.length ≤ b.howMany ∧ b.got.Sublist b.before
  noGhosts : ∀ k ∈ sp.1.index, (sp.1.recs k).present = true
  noResurrection : ∀ k ∈ sp.1.deleted, (sp.1.recs k).present = false

def HoldsPartial (c : Cfg) : Prop :=
  c.selectAtomic = true → c.counterLe = false → c.deleteRevalidates = true →
  ∀ persisted sched sp, (∀ a ∈ sched, a.isTail = false) → run c (init persisted) sched = some sp → SafeStructural sp

theorem inv_run_noTail (c : Cfg) (hsa : c.selectAtomic = true) (hle : c.counterLe = false) (hdr : c.deleteRevalidates = true)
    (sched : List Act) (s sp : St × Bool) (hnt : ∀ a ∈ sched, a.isTail = false)
    (h0 : Inv false s) (hr : run c s sched = some sp) : Inv false sp := by
  induction sched generalizing s with
  | nil => simp [run, LTS.run] at hr; exact hr ▸ h0
  | cons a as ih =>
    simp only [run, LTS.run] at hr
    cases hs : step c s a with
    | none => simp [hs] at hr
    | some s1 =>
      simp only [hs] at hr
      have ha : a.isTail = false := hnt a (by simp)
      exact ih s1 (fun b hb => hnt b (by simp [hb]))
        (inv_step c false hsa hle hdr (fun h => by simp at h) s a s1 (fun h => by rw [ha] at h; simp at h) h0 hs) hr

theorem holds_partial (c : Cfg) : HoldsPartial c := by
  intro hsa hle hdr persisted sched sp hnt hr
  have h := inv_run_noTail c hsa hle hdr sched (init persisted) sp hnt (inv_init false persisted) hr
  refine ⟨h.once, ?_, h.bat, h.live, fun k hk => (h.dead k hk).2⟩
  intro cl hcl hin
  have := h.live _ hin
  rw [(h.gone cl hcl).2] at this; exact absurd this (by simp)

/-! ### counterexamples for defective facts -/

/-- selection under a read lock: two passes read the same list, both take record 1 -/
def wNonAtomic : List Act := [.seed 1 1 (-10), .shiftRead 1 5 none, .shiftRead 2 5 none, .shiftWrite 1, .shiftWrite 2]

theorem w_nonatomic (c : Cfg) (h : c.selectAtomic = false) :
    (run c (init false) wNonAtomic).map (fun sp => sp.1.claimed.map (·.key)) = some [1, 1] := by
  obtain ⟨a, b, c1, d, e, f, g, r⟩ := c
  simp at h; subst h
  cases b <;> cases c1 <;> cases d <;> cases e <;> cases f <;> cases g <;> cases r <;> decide

/-- `counter <= howMany`: a request for one record takes two -/
def wCounter : List Act := [.seed 1 1 (-20), .seed 2 1 (-10), .shift 1 1 none]

theorem w_counter (c : Cfg) (h1 : c.selectAtomic = true) (h2 : c.counterLe = true) :
    (run c (init false) wCounter).map (fun sp => sp.1.batches.map (fun b => (b.howMany, b.got))) = some [(1, [1, 2])] := by
  obtain ⟨a, b, c1, d, e, f, g, r⟩ := c
  simp at h1 h2; subst h1; subst h2
  cases c1 <;> cases d <;> cases e <;> cases f <;> cases g <;> cases r <;> decide

/-- no `exp != 0` test: a record whose expiry was just cleared (object written, index not yet
    refreshed) is selected as expired -/
def wExpZero : List Act := [.seed 1 1 (-10), .expWrite 1 0, .pselect 3 5 false]

theorem w_expzero (c : Cfg) (h1 : c.selectAtomic = true) (h2 : c.counterLe = false) (h3 : c.checksExpNonZero = false) :
    (run c (init false) wExpZero).map (fun sp => sp.1.pclaimed.map (fun cl => (cl.key, cl.ok))) = some [(1, false)] := by
  obtain ⟨a, b, c1, d, e, f, g, r⟩ := c
  simp at h1 h2 h3; subst h1; subst h2; subst h3
  cases d <;> cases e <;> cases f <;> cases g <;> cases r <;> decide

/-- stale candidate set: record 1 leaves the filter between the snapshot and the selection -/
def wStale : List Act := [.seed 1 1 (-10), .snapshot 1 1, .setStatus 1 2, .shift 1 5 (some 1), .shiftDel 1 1]

theorem w_stale (c : Cfg) (h1 : c.selectAtomic = true) (h2 : c.counterLe = false) (h3 : c.checksExpNonZero = true)
    (h4 : c.rechecksIndexedLeg = false) :
    (run c (init false) wStale).map (fun sp => sp.1.claimed.map (fun cl => (cl.key, cl.ok))) = some [(1, false)] := by
  obtain ⟨a, b, c1, d, e, f, g, r⟩ := c
  simp at h1 h2 h3 h4; subst h1; subst h2; subst h3; subst h4
  cases e <;> cases f <;> cases g <;> cases r <;> decide

/-- the same schedule shape with an *empty* snapshot: nothing matches `status = 1`, the nil key set
    lets record 1 (status 2) through -/
def wEmpty : List Act := [.seed 1 2 (-10), .snapshot 1 1, .shift 1 5 (some 1), .shiftDel 1 1]

theorem w_empty (e f r : Bool) :
    (run { selectAtomic := true, counterLe := false, checksExpNonZero := true, rechecksIndexedLeg := false,
           reindexChecksExists := e, patchChecksExists := f, emptyCandMeansAll := true, deleteRevalidates := r } (init false) wEmpty).map
      (fun sp => sp.1.claimed.map (fun cl => (cl.key, cl.ok))) = some [(1, false)] := by
  cases e <;> cases f <;> cases r <;> decide

/-- delete between PatchExpired's selection and its patch: the patch's save re-inserts the record -/
def wPatch : List Act := [.seed 1 1 (-10), .pselect 3 5 false, .delete 1, .ppatch 3 1 4 5000]

theorem w_patch (c : Cfg) (h1 : c.selectAtomic = true) (h2 : c.counterLe = false) (h3 : c.checksExpNonZero = true)
    (h4 : c.rechecksIndexedLeg = true) (h5 : c.patchChecksExists = false) :
    (run c (init false) wPatch).map (fun sp => (sp.1.deleted, (sp.1.recs 1).present)) = some ([1], true) := by
  obtain ⟨a, b, c1, d, e, f, g, r⟩ := c
  simp at h1 h2 h3 h4 h5; subst h1; subst h2; subst h3; subst h4; subst h5
  cases e <;> cases g <;> cases r <;> decide

/-- delete between the patches and ReindexExpiration: the deleted record is appended to the index -/
def wReindex : List Act := [.seed 1 1 (-10), .pselect 3 5 false, .ppatch 3 1 5 (-5), .delete 1, .preindex 3]

theorem w_reindex (c : Cfg) (h1 : c.selectAtomic = true) (h2 : c.counterLe = false) (h3 : c.checksExpNonZero = true)
    (h4 : c.rechecksIndexedLeg = true) (h5 : c.patchChecksExists = true) (h6 : c.reindexChecksExists = false) :
    (run c (init false) wReindex).map (fun sp => (sp.1.index, (sp.1.recs 1).present)) = some ([1], false) := by
  obtain ⟨a, b, c1, d, e, f, g, r⟩ := c
  simp at h1 h2 h3 h4 h5 h6; subst h1; subst h2; subst h3; subst h4; subst h5; subst h6
  cases g <;> cases r <;> decide

/-- the delete step of a shift claim does not look again: record 1 is deleted by somebody else between the
    selection pass and the claim's delete step, and is handed out all the same -/
def wShiftDeleted : List Act := [.seed 1 1 (-10), .shift 1 5 none, .delete 1, .shiftDel 1 1]

theorem w_shift_deleted (c : Cfg) (h1 : c.selectAtomic = true) (h7 : c.deleteRevalidates = false) :
    (run c (init false) wShiftDeleted).map (fun sp => (sp.1.claimed.map (fun cl => (cl.key, cl.ok)), sp.1.deleted)) =
      some ([(1, false)], [1]) := by
  obtain ⟨a, b, c1, d, e, f, g, r⟩ := c
  simp at h1 h7; subst h1; subst h7
  cases b <;> cases c1 <;> cases d <;> cases e <;> cases f <;> cases g <;> decide

/-- … and a write acknowledged between the two steps is dropped: the copy handed out is the one of the selection pass -/
def wShiftStaleCopy : List Act := [.seed 1 1 (-10), .shift 1 5 none, .setStatus 1 2, .shiftDel 1 1]

theorem w_shift_stale_copy (c : Cfg) (h1 : c.selectAtomic = true) (h7 : c.deleteRevalidates = false) :
    (run c (init false) wShiftStaleCopy).map (fun sp => (sp.1.claimed.map (fun cl => (cl.key, cl.ok)), (sp.1.recs 1).present)) =
      some ([(1, false)], false) := by
  obtain ⟨a, b, c1, d, e, f, g, r⟩ := c
  simp at h1 h7; subst h1; subst h7
  cases b <;> cases c1 <;> cases d <;> cases e <;> cases f <;> cases g <;> decide

/-- from a closed run with an observable that contradicts `Safe` -/
theorem refute {β : Type} (c : Cfg) (persisted : Bool) (sched : List Act) (obs : St × Bool → β) (v : β)
    (hw : (run c (init persisted) sched).map obs = some v) (hbad : ∀ sp, obs sp = v → ¬ Safe sp) : ¬ Holds c := by
  intro hh
  cases hr : run c (init persisted) sched with
  | none => rw [hr] at hw; simp at hw
  | some sp =>
    rw [hr] at hw; simp at hw
    exact hbad sp hw (hh.safe persisted sched sp hr)

def findings (c : Cfg) : List String :=
  (if c.selectAtomic then [] else ["C11-selection-not-atomic"]) ++
  (if c.counterLe then ["C11-claims-more-than-requested"] else []) ++
  (if c.checksExpNonZero then [] else ["C11-claims-unexpiring-record"]) ++
  (if c.rechecksIndexedLeg then [] else ["C11-stale-candidate-set"]) ++
  (if c.emptyCandMeansAll && !c.rechecksIndexedLeg then ["C11-empty-candidate-set-matches-all"] else []) ++
  (if c.patchChecksExists then [] else ["C11-patch-resurrects-deleted"]) ++
  (if c.reindexChecksExists then [] else ["C11-reindex-resurrects-deleted"]) ++
  (if c.deleteRevalidates then [] else ["C11-shift-delete-not-revalidated"])

theorem refutes_of_findings (c : Cfg) (h : findings c ≠ []) : ¬ Holds c := by
  by_cases h1 : c.selectAtomic = true
  · by_cases h2 : c.counterLe = false
    · by_cases h3 : c.checksExpNonZero = true
      · by_cases h4 : c.rechecksIndexedLeg = true
        · by_cases h5 : c.patchChecksExists = true
          · by_cases h6 : c.reindexChecksExists = true
            · by_cases h7 : c.deleteRevalidates = true
              · exfalso; apply h; simp [findings, h1, h2, h3, h4, h5, h6, h7]
              · have h7' : c.deleteRevalidates = false := by simpa using h7
                refine refute c false wShiftDeleted _ _ (w_shift_deleted c h1 h7') ?_
                intro sp ho hs
                have ho1 := (Prod.mk.inj ho).1
                cases hc : sp.1.claimed with
                | nil => rw [hc] at ho1; simp at ho1
                | cons x xs =>
                  rw [hc] at ho1; simp at ho1
                  have := hs.matching x (by rw [hc]; simp)
                  rw [ho1.1.2] at this; exact absurd this (by simp)
            · have h6' : c.reindexChecksExists = false := by simpa using h6
              refine refute c false wReindex _ _ (w_reindex c h1 h2 h3 h4 h5 h6') ?_
              intro sp ho hs
              simp at ho
              have := hs.noGhosts 1 (by rw [ho.1]; simp)
              rw [ho.2] at this; exact absurd this (by simp)
          · have h5' : c.patchChecksExists = false := by simpa using h5
            refine refute c false wPatch _ _ (w_patch c h1 h2 h3 h4 h5') ?_
            intro sp ho hs
            simp at ho
            have := hs.noResurrection 1 (by rw [ho.1]; simp)
            rw [ho.2] at this; exact absurd this (by simp)
        · have h4' : c.rechecksIndexedLeg = false := by simpa using h4
          refine refute c false wStale _ _ (w_stale c h1 h2 h3 h4') ?_
          intro sp ho hs
          have hm := hs.matching
          have hcl : sp.1.claimed ≠ [] := by
            intro he; rw [he] at ho; simp at ho
          cases hc : sp.1.claimed with
          | nil => exact hcl hc
          | cons x xs =>
            rw [hc] at ho; simp at ho
            have := hm x (by rw [hc]; simp)
            rw [ho.1.2] at this; exact absurd this (by simp)
      · have h3' : c.checksExpNonZero = false := by simpa using h3
        refine refute c false wExpZero _ _ (w_expzero c h1 h2 h3') ?_
        intro sp ho hs
        cases hc : sp.1.pclaimed with
        | nil => rw [hc] at ho; simp at ho
        | cons x xs =>
          rw [hc] at ho; simp at ho
          have := hs.matching x (by rw [hc]; simp)
          rw [ho.1.2] at this; exact absurd this (by simp)
    · have h2' : c.counterLe = true := by simpa using h2
      refine refute c false wCounter _ _ (w_counter c h1 h2') ?_
      intro sp ho hs
      cases hb : sp.1.batches with
      | nil => rw [hb] at ho; simp at ho
      | cons x xs =>
        rw [hb] at ho; simp at ho
        have := (hs.bounded x (by rw [hb]; simp)).1
        rw [ho.1.1, ho.1.2] at this; simp at this
  · have h1' : c.selectAtomic = false := by simpa using h1
    refine refute c false wNonAtomic _ _ (w_nonatomic c h1') ?_
    intro sp ho hs
    have hd := hs.disjoint
    have ho' : sp.1.claimed.map (·.key) = [1, 1] := ho
    match hc : sp.1.claimed with
    | [] => rw [hc] at ho'; simp at ho'
    | [x] => rw [hc] at ho'; simp at ho'
    | x :: y :: rest =>
      rw [hc] at ho' hd; simp at ho'
      rw [List.pairwise_cons] at hd
      exact hd.1 y (by simp) (by rw [ho'.1, ho'.2.1])

/-! ### deadlock freedom (beacon locks and record guards)

  Locks: `0` the lock of the index beacon a selection pass walks (expiration / value / bucket index),
  `1` the lock of the key index, `k + 2` the guard of record `k`.  Request kinds, as lock programs:

  * `claim ks`   ShiftExpired / ShiftMatching over the indexed records `ks`: takes lock 0 and, per record, the
                 guard.  `waitsUnderLock`: it *waits* for the guard (`StartTreasureGuard(true)`); otherwise it
                 only tries (`StartTreasureGuard(false)`, a busy record is skipped).
  * `clone ks`   CloneUnorderedTreasures (GetAll, first build of a field bucket): lock 1, per record the guard;
                 `waitsUnderLock` as above, otherwise the list is taken under lock 1 and the records are cloned
                 after it was released.
  * `delete k`   deleteHandler: guard of `k`, and — `beaconUnderGuard` — the key index and the index beacons are
                 updated while the guard is held; otherwise after it was released.
  * `save k`     a Save that (re-)indexes the record: guard of `k`, then lock 0, nested the same way.

  Two consistent orders exist: guard → beacon lock (no pass waits for a guard under a beacon lock) and beacon lock
  → guard (no guard holder touches a beacon).  The code before the repair mixed them. -/

structure LockCfg where
  waitsUnderLock : Bool
  beaconUnderGuard : Bool
  deriving DecidableEq, Repr

inductive Req where
  | claim (ks : List Nat)
  | clone (ks : List Nat)
  | delete (k : Nat)
  | save (k : Nat)
  | idle
  deriving Repr

open Hv.LockOrder in
def passBody (wait : Bool) : List Nat → List Op
  | [] => []
  | k :: ks => (if wait then Op.acq (k + 2) else Op.try (k + 2) 1) :: Op.rel (k + 2) :: passBody wait ks

open Hv.LockOrder in
def guardEach : List Nat → List Op
  | [] => []
  | k :: ks => Op.acq (k + 2) :: Op.rel (k + 2) :: guardEach ks

open Hv.LockOrder in
def prog (c : LockCfg) : Req → List Op
  | .claim ks => Op.acq 0 :: (passBody c.waitsUnderLock ks ++ [Op.rel 0])
  | .clone ks => if c.waitsUnderLock then Op.acq 1 :: (passBody true ks ++ [Op.rel 1])
                 else Op.acq 1 :: Op.rel 1 :: guardEach ks
  | .delete k => if c.beaconUnderGuard then [.acq (k + 2), .acq 1, .rel 1, .acq 0, .rel 0, .rel (k + 2)]
                 else [.acq (k + 2), .rel (k + 2), .acq 1, .rel 1, .acq 0, .rel 0]
  | .save k => if c.beaconUnderGuard then [.acq (k + 2), .acq 0, .rel 0, .rel (k + 2)]
               else [.acq (k + 2), .rel (k + 2), .acq 0, .rel 0]
  | .idle => []

/-- No reachable state of any assignment of requests to threads is a deadlock. -/
def DeadlockFree (c : LockCfg) : Prop :=
  ∀ (reqs : Nat → Req) (sched : List Nat) (s : LockOrder.St),
    LockOrder.run (LockOrder.init (fun t => prog c (reqs t))) sched = some s → ¬ LockOrder.Stuck s

/-- guards first: a guard ranks below the beacon locks -/
def rankGuardFirst (l : Nat) : Nat := if l < 2 then 1 else 0
/-- beacon locks first -/
def rankBeaconFirst (l : Nat) : Nat := if l < 2 then 0 else 1

open Hv.LockOrder in
private theorem ordered_guardEach (rank : Nat → Nat) (ks : List Nat) : Ordered rank [] (guardEach ks) := by
  induction ks with
  | nil => exact .nil
  | cons k ks ih =>
    refine .acq (by simp) (.rel (by simp) ?_)
    simpa using ih

open Hv.LockOrder in
private theorem ordered_try_pass (rank : Nat → Nat) (b : Nat) (hb : b < 2) (ks : List Nat) :
    Ordered rank [b] (passBody false ks ++ [Op.rel b]) := by
  induction ks with
  | nil => exact .rel (by simp) (by simpa using Ordered.nil)
  | cons k ks ih =>
    have hne : (b != k + 2) = true := by simp; omega
    refine .try (.rel (by simp) ?_) (by simpa [passBody] using ih)
    simpa [List.filter, hne] using ih

open Hv.LockOrder in
private theorem ordered_wait_pass (b : Nat) (hb : b < 2) (ks : List Nat) :
    Ordered rankBeaconFirst [b] (passBody true ks ++ [Op.rel b]) := by
  induction ks with
  | nil => exact .rel (by simp) (by simpa using Ordered.nil)
  | cons k ks ih =>
    have hne : (b != k + 2) = true := by simp; omega
    refine .acq ?_ (.rel (by simp) ?_)
    · intro h hh
      simp at hh; subst hh
      have : ¬ k + 2 < 2 := by omega
      simp [rankBeaconFirst, hb, this]
    · simpa [List.filter, hne] using ih

open Hv.LockOrder in
theorem ordered_guardFirst (bug : Bool) (r : Req) :
    Ordered rankGuardFirst [] (prog { waitsUnderLock := false, beaconUnderGuard := bug } r) := by
  cases r with
  | claim ks => exact .acq (by simp) (ordered_try_pass _ 0 (by omega) ks)
  | clone ks =>
    refine .acq (by simp) (.rel (by simp) ?_)
    simpa using ordered_guardEach _ ks
  | delete k =>
    cases bug
    · refine .acq (by simp) (.rel (by simp) (.acq (by simp) (.rel (by simp) (.acq (by simp) (.rel (by simp) ?_)))))
      simpa using Ordered.nil
    · have h1 : (k + 2 != 1) = true := by simp
      have h0 : (k + 2 != 0) = true := by simp
      refine .acq (by simp) (.acq (by simp [rankGuardFirst]) (.rel (by simp) ?_))
      simp only [List.filter, bne_self_eq_false, h1]
      refine .acq (by simp [rankGuardFirst]) (.rel (by simp) ?_)
      simp only [List.filter, bne_self_eq_false, h0]
      refine .rel (by simp) ?_
      simpa using Ordered.nil
  | save k =>
    cases bug
    · refine .acq (by simp) (.rel (by simp) (.acq (by simp) (.rel (by simp) ?_)))
      simpa using Ordered.nil
    · have h0 : (k + 2 != 0) = true := by simp
      refine .acq (by simp) (.acq (by simp [rankGuardFirst]) (.rel (by simp) ?_))
      simp only [List.filter, bne_self_eq_false, h0]
      refine .rel (by simp) ?_
      simpa using Ordered.nil
  | idle => exact .nil

open Hv.LockOrder in
theorem ordered_beaconFirst (r : Req) :
    Ordered rankBeaconFirst [] (prog { waitsUnderLock := true, beaconUnderGuard := false } r) := by
  cases r with
  | claim ks => exact .acq (by simp) (ordered_wait_pass 0 (by omega) ks)
  | clone ks => exact .acq (by simp) (ordered_wait_pass 1 (by omega) ks)
  | delete k =>
    refine .acq (by simp) (.rel (by simp) (.acq (by simp) (.rel (by simp) (.acq (by simp) (.rel (by simp) ?_)))))
    simpa using Ordered.nil
  | save k =>
    refine .acq (by simp) (.rel (by simp) (.acq (by simp) (.rel (by simp) ?_)))
    simpa using Ordered.nil
  | idle => exact .nil

/-- **The repaired order** (what the code does after the repair: selection passes only *try* the guards, the clone
    passes clone outside the beacon lock; deleteHandler and Save still update the beacons under the guard):
    guard → beacon lock is a consistent global order, so the wait-for graph is acyclic in every reachable state —
    for any number of threads, any mix of the four request kinds and any key lists. -/
theorem no_deadlock_repaired : DeadlockFree { waitsUnderLock := false, beaconUnderGuard := true } := by
  intro reqs sched s hr
  exact LockOrder.no_deadlock rankGuardFirst 1 (fun l => by unfold rankGuardFirst; split <;> omega) _
    (fun t => ordered_guardFirst true (reqs t)) sched s hr

/-- The other consistent order (beacon lock → guard): passes may wait for guards under the beacon lock as long as
    no guard holder touches a beacon. -/
theorem no_deadlock_beacon_first : DeadlockFree { waitsUnderLock := true, beaconUnderGuard := false } := by
  intro reqs sched s hr
  exact LockOrder.no_deadlock rankBeaconFirst 1 (fun l => by unfold rankBeaconFirst; split <;> omega) _
    (fun t => ordered_beaconFirst (reqs t)) sched s hr

theorem no_deadlock_neither (bug : Bool) : DeadlockFree { waitsUnderLock := false, beaconUnderGuard := bug } := by
  intro reqs sched s hr
  exact LockOrder.no_deadlock rankGuardFirst 1 (fun l => by unfold rankGuardFirst; split <;> omega) _
    (fun t => ordered_guardFirst bug (reqs t)) sched s hr

def lockWitnessReqs (other : Req) : Nat → Req := fun t => if t = 1 then other else if t = 2 then .claim [1] else .idle

/-- **The current order deadlocks**: a delete (or an index-refreshing save) that holds the guard of record 1 and a
    selection pass that holds the beacon lock wait for each other.  Closed witness, two threads, two steps. -/
theorem deadlock_mixed_order (viaSave : Bool) : ¬ DeadlockFree { waitsUnderLock := true, beaconUnderGuard := true } := by
  intro h
  cases viaSave
  · -- delete k1 ‖ claim: D takes the guard, then the key-index lock, releases it; S takes lock 0; both wait
    refine h (lockWitnessReqs (.delete 1)) [1, 2, 1, 1] _ rfl ⟨⟨1, by decide⟩, fun t => ?_⟩
    by_cases h1 : t = 1
    · subst h1; rfl
    · by_cases h2 : t = 2
      · subst h2; rfl
      · simp [LockOrder.step, LockOrder.upd, LockOrder.init, lockWitnessReqs, prog, h1, h2]
  · refine h (lockWitnessReqs (.save 1)) [1, 2] _ rfl ⟨⟨1, by decide⟩, fun t => ?_⟩
    by_cases h1 : t = 1
    · subst h1; rfl
    · by_cases h2 : t = 2
      · subst h2; rfl
      · simp [LockOrder.step, LockOrder.upd, LockOrder.init, lockWitnessReqs, prog, h1, h2]

/-- the same inversion through the key index: deleteHandler against GetAll / the first build of a field bucket -/
theorem deadlock_mixed_order_clone : ∃ sched s,
    LockOrder.run (LockOrder.init (fun t => prog { waitsUnderLock := true, beaconUnderGuard := true }
      (if t = 1 then .delete 1 else if t = 2 then .clone [1] else .idle))) sched = some s ∧ LockOrder.Stuck s := by
  refine ⟨[1, 2], _, rfl, ⟨1, by decide⟩, fun t => ?_⟩
  by_cases h1 : t = 1
  · subst h1; rfl
  · by_cases h2 : t = 2
    · subst h2; rfl
    · simp [LockOrder.step, LockOrder.upd, LockOrder.init, prog, h1, h2]

/-! ### decision over the extracted facts -/

inductive Cmp where | lt | le | unknown
  deriving DecidableEq, Repr

structure Facts where
  selectUnderLock : Tri
  counterCmp : Cmp
  checksExpNonZero : Tri
  rechecksIndexedLeg : Tri
  reindexChecksExists : Tri
  patchChecksExists : Tri
  emptyCandMeansAll : Tri
  /-- CloneAndDelete…Treasures: the per-record delete after the selection pass re-validates under the record guard -/
  shiftDeleteRevalidates : Tri
  /-- lock-order facts: some beacon method waits for a record guard while holding the beacon lock;
      deleteHandler updates the beacons while holding the record guard -/
  guardUnderBeaconLock : Tri
  beaconUnderGuard : Tri
  deriving Repr

def cfgOf (f : Facts) : Cfg :=
  { selectAtomic := f.selectUnderLock.isYes, counterLe := f.counterCmp == .le,
    checksExpNonZero := f.checksExpNonZero.isYes, rechecksIndexedLeg := f.rechecksIndexedLeg.isYes,
    reindexChecksExists := f.reindexChecksExists.isYes, patchChecksExists := f.patchChecksExists.isYes,
    emptyCandMeansAll := !f.emptyCandMeansAll.isNo, deleteRevalidates := f.shiftDeleteRevalidates.isYes }

def lockCfgOf (f : Facts) : LockCfg :=
  { waitsUnderLock := !f.guardUnderBeaconLock.isNo, beaconUnderGuard := !f.beaconUnderGuard.isNo }

/-- the full statement: safe claims and no deadlock between beacon locks and record guards -/
def HoldsAll (f : Facts) : Prop := Holds (cfgOf f) ∧ DeadlockFree (lockCfgOf f)

def lockFindings (c : LockCfg) : List String :=
  if c.waitsUnderLock && c.beaconUnderGuard then ["C11-claim-delete-deadlock"] else []

def classify (f : Facts) : Verdict :=
  if f.selectUnderLock = .unknown then .undetermined "claim.selectUnderLock" else
  if f.counterCmp = .unknown then .undetermined "claim.counterCmp" else
  if f.checksExpNonZero = .unknown then .undetermined "claim.checksExpNonZero" else
  if f.rechecksIndexedLeg = .unknown then .undetermined "claim.rechecksIndexedLeg" else
  if f.reindexChecksExists = .unknown then .undetermined "patchExpired.reindexChecksExists" else
  if f.patchChecksExists = .unknown then .undetermined "patchExpired.patchChecksExists" else
  if f.emptyCandMeansAll = .unknown then .undetermined "shiftMatching.emptyCandMeansAll" else
  if f.shiftDeleteRevalidates = .unknown then .undetermined "shift.deleteRevalidates" else
  if f.guardUnderBeaconLock = .unknown then .undetermined "claim.guardUnderBeaconLock" else
  if f.beaconUnderGuard = .unknown then .undetermined "delete.beaconUnderGuard" else
  match findings (cfgOf f) ++ lockFindings (lockCfgOf f) with
  | [] => if cfgOf f = good then .holds else .undetermined "no theorem covers this combination of facts"
  | fs => .violated fs

theorem deadlockFree_of_no_findings (c : LockCfg) (h : lockFindings c = []) : DeadlockFree c := by
  obtain ⟨w, b⟩ := c
  cases w
  · exact no_deadlock_neither b
  · cases b
    · exact no_deadlock_beacon_first
    · simp [lockFindings] at h

theorem classify_sound (f : Facts) : (classify f).Sound (HoldsAll f) (HoldsPartial (cfgOf f)) := by
  unfold classify
  split; · trivial
  split; · trivial
  split; · trivial
  split; · trivial
  split; · trivial
  split; · trivial
  split; · trivial
  split; · trivial
  split; · trivial
  split; · trivial
  split
  · rename_i hnil
    have hn := List.append_eq_nil_iff.mp hnil
    split
    · rename_i hg
      show Holds (cfgOf f) ∧ DeadlockFree (lockCfgOf f)
      exact ⟨by rw [hg]; exact claims_safe, deadlockFree_of_no_findings _ hn.2⟩
    · trivial
  · rename_i fs hne
    refine ⟨fun hh => ?_, holds_partial _⟩
    by_cases h1 : findings (cfgOf f) = []
    · have h2 : lockFindings (lockCfgOf f) ≠ [] := fun h2 => hne (by rw [h1, h2]; rfl)
      have hc : lockCfgOf f = { waitsUnderLock := true, beaconUnderGuard := true } := by
        generalize lockCfgOf f = c at h2
        obtain ⟨w, b⟩ := c
        cases w <;> cases b <;> simp [lockFindings] at h2 ⊢
      exact deadlock_mixed_order false (hc ▸ hh.2)
    · exact refutes_of_findings _ h1 hh.1

end Hv.C11
