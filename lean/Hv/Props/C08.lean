/-
  C08 — Accelerated and full-scan query routes agree.

  "For every filter, paging request and swamp contents, a streamed query that the server answers
   through the auto-built field index returns the same records, in the same order (up to ties),
   with the same match labels, as the same query answered by a full scan.  Equality and IN
   matching on body fields follow one canonical value-equality rule on both routes."

  Model: `Hv/Query/{Value,Filter,Routes}.lean`; lemmas: `Hv/Query/Lemmas.lean`.
  Both routes are given the same tie order (attribute, then key), so "up to ties" is equality of
  the modelled outputs.
-/
import Hv.Query.Lemmas
import Hv.Query.Bucket
import Hv.Query.SameKind

namespace Hv.C08
open Hv.Query

/-- Full-strength statement: same items (keys, in order, with labels) on both routes, for every
    store, filter tree, ordering, window, offset, limit and MaxResults. -/
def HoldsStore (cfg : Cfg) : Prop :=
  ∀ (store : List Rec) (q : Query), bucketRoute cfg store q = scanRoute cfg store q

/-- …and with the field buckets as the state the code keeps (built lazily over a snapshot, told
    about mutations, buffering those that arrive during a build): after every history of saves,
    deletes, reloads and build steps, the accelerated route over the buckets as they are agrees
    with the full scan of the current contents. -/
def HoldsS (cfg : Cfg) : Prop :=
  ∀ (h : List MOp) (q : Query), bucketRouteS cfg (runB cfg h) q = scanRoute cfg (runB cfg h).store q

def recA (k : String) (v : Int) : Rec :=
  { key := k, body := some (.map [("a", .int v)]), created := 1, updated := 0, expire := 0 }
def qA1 : Query :=
  { slot := .key, asc := true, from_ := 0, limit := 0, fromT := none, toT := none, maxResults := 0,
    filter := some (.mk false [{ path := [.field "a"], op := .eq, cv := .i64 1, strVals := [], intVals := [], label := "" }] []) }

/-- the Save-order witness: the Save of a new key `k2` is cut in two by a whole build of the bucket of
    `a` (publish + snapshot between the halves, build + drain after): whichever half comes first in the
    code, the bucket must end up with `k2`. -/
def saveWitnessOk (cfg : Cfg) : Bool :=
  let p : Path := [.field "a"]
  let r := recA "k2" 1
  let st0 := runB cfg [.put (recA "k1" 1)]
  let st1 := if cfg.bucketNotifyAfterAdd then stepPutStore st0 r else stepPutNotify st0 r
  let st2 := [MOp.beginBuild p, .snapshot p].foldl (stepB cfg) st1
  let st3 := if cfg.bucketNotifyAfterAdd then stepPutNotify st2 r else stepPutStore st2 r
  let st4 := [MOp.build p, .drain p].foldl (stepB cfg) st3
  bucketRouteS cfg st4 qA1 == scanRoute cfg st4.store qA1

def HoldsSave (cfg : Cfg) : Prop := saveWitnessOk cfg = true

def Holds (cfg : Cfg) : Prop := HoldsStore cfg ∧ HoldsS cfg ∧ HoldsSave cfg

def keysOf (l : List Item) : List String := l.map (·.1)

/-! ### 1. planner and legs (proved in `Hv/Query/Lemmas.lean`, restated) -/

/-- `eval g t ↔ (hintMatches t ∧ eval residual t)` for AND plans, `↔ ∃ hint …` for OR-unions,
    given `hintMatches ↔ legMatches` for the leaves of the tree — for every tree and record. -/
theorem planner_sound (cfg : Cfg) (hb : cfg.planOrBypassOnSubGroups = true) (r : Rec) (g : Group)
    (hlegs : LegsAgree cfg r (topLeaves g)) :
    planMatches cfg r g (planFilter cfg g) = evalGroup (evalLeaf cfg r.body) g :=
  Hv.Query.planner_sound cfg hb r g hlegs

/-- the premise of `planner_sound` holds for every leaf and record when equality on the scan
    route is canonical, special paths are not hinted and only EQUAL / …_IN are -/
theorem leg_agree (cfg : Cfg) (hg : legGoodB cfg = true) (r : Rec) (ls : List Leaf) : LegsAgree cfg r ls :=
  fun l _ h hi => Hv.Query.leg_agree cfg hg l h hi r

/-! ### 2. routes -/

theorem exec_agree (cfg : Cfg) (store : List Rec) (q : Query) (g : Group) (hq : q.filter = some g)
    (hints : List Hint) (residual : Option Group) (ha : Aligned cfg store q)
    (hsound : ∀ r ∈ store, (hints.any (fun h => hintMatch h r) && passOf cfg residual r) = evalGroup (evalLeaf cfg r.body) g)
    (hres : ∀ res, residual = some res → res.hasLabels = true → g.hasLabels = true) :
    keysOf (bucketExec cfg store q g hints residual) = keysOf (scanRoute cfg store q) ∧
    (cfg.labelReattach = true → bucketExec cfg store q g hints residual = scanRoute cfg store q) := by
  -- the group the bucket route evaluates: the whole filter (when it re-attaches labels) or the residual
  have hsound' : ∀ r ∈ store, (hints.any (fun h => hintMatch h r) && passOf cfg (residOf cfg g residual) r) =
      evalGroup (evalLeaf cfg r.body) g := by
    intro r hr
    unfold residOf
    split
    · have := hsound r hr
      simp only [passOf]
      cases he : evalGroup (evalLeaf cfg r.body) g
      · simp
      · rw [he] at this
        have : (hints.any fun h => hintMatch h r) = true := by
          cases hh : (hints.any fun h => hintMatch h r)
          · rw [hh] at this; simp at this
          · rfl
        simp [this]
    · exact hsound r hr
  have hrows : (rowsB cfg store q hints).filter (passOf cfg (residOf cfg g residual)) =
      (indexRead q store).filter (passOf cfg (some g)) :=
    rows_agree cfg store q g hints (residOf cfg g residual) ha hsound'
  -- labels: equal as soon as labels are re-attached
  have hlab : cfg.labelReattach = true → ∀ r, labOf cfg (residOf cfg g residual) r = labOf cfg (some g) r := by
    intro hl r
    unfold residOf
    cases hg : g.hasLabels
    · simp only [hl, hg, Bool.and_false, Bool.false_eq_true, if_false]
      cases hr : residual with
      | none => simp [labOf, hg]
      | some res =>
        have : res.hasLabels = false := by
          cases h1 : res.hasLabels
          · rfl
          · have := hres res hr h1; rw [hg] at this; cases this
        simp [labOf, hg, this]
    · simp [hl, hg]
  rw [bucketExec_eq, scanRoute_eq, hq]
  rcases ha.paging with ⟨hb, hs⟩ | ⟨hb, hs, h0, h1⟩
  · simp only [hb, hs, if_true, hrows]
    refine ⟨?_, ?_⟩
    · simp only [keysOf, capMax_map, List.map_map]
      rfl
    · intro hl
      have := hlab hl
      congr 2
      funext r
      rw [this r]
  · simp only [hb, hs, Bool.false_eq_true, if_false, h0, h1, pageOf_zero, hrows]
    refine ⟨?_, ?_⟩
    · simp only [keysOf, capMax_map, List.map_map]
      rfl
    · intro hl
      have := hlab hl
      congr 2
      funext r
      rw [this r]

/-- **Route agreement, conditionally.**  Whatever the facts: if the query is one on which the two
    routes' shared machinery is aligned (`Aligned`: no paging or paging after the predicate,
    ordering attribute carried or checked, window treated alike) and every hint the planner can
    emit for this filter agrees with its leg on the records of the store, the routes return the
    same keys in the same order; with labels re-attached, the same items. -/
theorem routes_agree_of (cfg : Cfg) (hb : cfg.planOrBypassOnSubGroups = true) (store : List Rec) (q : Query)
    (ha : Aligned cfg store q)
    (hlegs : ∀ g, q.filter = some g → ∀ r ∈ store, LegsAgree cfg r (topLeaves g)) :
    keysOf (bucketRoute cfg store q) = keysOf (scanRoute cfg store q) ∧
    (cfg.labelReattach = true → bucketRoute cfg store q = scanRoute cfg store q) := by
  unfold bucketRoute
  cases hq : q.filter with
  | none => exact ⟨rfl, fun _ => rfl⟩
  | some g =>
    simp only []
    split
    · exact ⟨rfl, fun _ => rfl⟩
    · cases hp : planFilter cfg g with
      | bypass => exact ⟨rfl, fun _ => rfl⟩
      | and hints res =>
        simp only []
        apply exec_agree cfg store q g hq hints (some res) ha
        · intro r hr
          have := Hv.Query.planner_sound cfg hb r g (hlegs g hq r hr)
          rw [hp] at this
          simpa [planMatches, passOf] using this
        · intro res' he hl
          simp only [Option.some.injEq] at he
          subst he
          exact residual_hasLabels cfg g hints res hp hl
      | orUnion hints =>
        simp only []
        apply exec_agree cfg store q g hq hints none ha
        · intro r hr
          have := Hv.Query.planner_sound cfg hb r g (hlegs g hq r hr)
          rw [hp] at this
          simpa [planMatches, passOf] using this
        · intro res' he; cases he

/-- offset/limit cannot make the routes differ: applied after the whole predicate on both, or
    applied before it on both while paged queries never take the bucket route -/
def pagingGoodB (cfg : Cfg) : Bool :=
  (cfg.bucketPagingAfterFilter && cfg.scanPagingAfterFilter) ||
  (!cfg.bucketPagingAfterFilter && !cfg.scanPagingAfterFilter && cfg.pagedQueriesBypass)

/-- the facts of the shared machinery of the two routes (everything but how a leg compares) -/
def routesGoodB (cfg : Cfg) : Bool :=
  cfg.planOrBypassOnSubGroups && cfg.lookupInDedupes && cfg.unionDedupes &&
  pagingGoodB cfg && cfg.labelReattach && cfg.bucketChecksAttr && cfg.bucketWindowTimeOnly

/-- the facts of the two routes are sound -/
def goodStoreB (cfg : Cfg) : Bool := legGoodB cfg && routesGoodB cfg

/-- all facts sound -/
def goodB (cfg : Cfg) : Bool := goodStoreB cfg && trackGoodB cfg && saveWitnessOk cfg

/-- **Full theorem (repaired facts)**: `paging_agree` and `labels_agree` together — same records,
    same order, same labels, for every store and every query. -/
theorem agree_of_legs (cfg : Cfg) (h : routesGoodB cfg = true) (store : List Rec) (q : Query)
    (hlegs : ∀ g, q.filter = some g → ∀ r ∈ store, LegsAgree cfg r (topLeaves g)) :
    bucketRoute cfg store q = scanRoute cfg store q := by
  simp only [routesGoodB, Bool.and_eq_true] at h
  obtain ⟨⟨⟨⟨⟨⟨hb, hd1⟩, hd2⟩, hpg⟩, hlab⟩, hattr⟩, hwin⟩ := h
  simp only [pagingGoodB, Bool.or_eq_true, Bool.and_eq_true, Bool.not_eq_true'] at hpg
  rcases hpg with ⟨hp1, hp2⟩ | ⟨⟨hp1, hp2⟩, hby⟩
  · have ha : Aligned cfg store q :=
      { dedupIn := hd1, dedupUnion := hd2, paging := Or.inl ⟨hp1, hp2⟩, attr := Or.inl hattr, window := Or.inl hwin }
    exact (routes_agree_of cfg hb store q ha hlegs).2 hlab
  · by_cases hpaged : (q.from_ != 0 || q.limit != 0) = true
    · -- a paged query is answered by the scan route itself
      unfold bucketRoute
      cases hq : q.filter with
      | none => rfl
      | some g => simp [hby, hpaged]
    · have h0 : q.from_ = 0 ∧ q.limit = 0 := by
        simp only [Bool.or_eq_true, bne_iff_ne, ne_eq, not_or, Decidable.not_not] at hpaged
        exact hpaged
      have ha : Aligned cfg store q :=
        { dedupIn := hd1, dedupUnion := hd2, paging := Or.inr ⟨hp1, hp2, h0.1, h0.2⟩, attr := Or.inl hattr, window := Or.inl hwin }
      exact (routes_agree_of cfg hb store q ha hlegs).2 hlab

theorem holdsStore_of_good (cfg : Cfg) (h : goodStoreB cfg = true) : HoldsStore cfg := by
  simp only [goodStoreB, Bool.and_eq_true] at h
  intro store q
  exact agree_of_legs cfg h.2 store q (fun g _ r _ => leg_agree cfg h.1 r _)

/-- every hinted leg of the filter sees, in every record of the store, a field that is not a number
    or is a number of the kind it compares with (`Hv/Query/SameKind.lean`) -/
def SameKindStore (store : List Rec) (q : Query) : Prop :=
  ∀ g, q.filter = some g → ∀ r ∈ store, ∀ l ∈ topLeaves g, sameKindRec r l = true

/-- **Partial theorem: same-kind operands.**  Whatever equality the scan route uses: on a store whose
    hinted fields are all same-kind for the query's legs, the two routes return the same items. -/
theorem routes_agree_same_kind (cfg : Cfg) (h : routesGoodB cfg = true) (hl : legBaseB cfg = true)
    (store : List Rec) (q : Query) (hk : SameKindStore store q) :
    bucketRoute cfg store q = scanRoute cfg store q :=
  agree_of_legs cfg h store q (fun g hq r hr l hlm hh hi => leg_agree_of_same_kind cfg hl l hh hi r (hk g hq r hr l hlm))

/-- …also over the buckets as a history left them -/
theorem routesS_agree_same_kind (cfg : Cfg) (h : routesGoodB cfg = true) (hl : legBaseB cfg = true) (ht : trackGoodB cfg = true)
    (hist : List MOp) (q : Query) (hk : SameKindStore (runB cfg hist).store q) :
    bucketRouteS cfg (runB cfg hist) q = scanRoute cfg (runB cfg hist).store q := by
  rw [bucketRouteS_run cfg ht hist q]
  exact routes_agree_same_kind cfg h hl _ q hk

/-- with every mutation reaching the buckets, the stateful accelerated route is the specified one -/
theorem holdsS_of (cfg : Cfg) (hs : HoldsStore cfg) (ht : trackGoodB cfg = true) : HoldsS cfg := by
  intro h q
  rw [bucketRouteS_run cfg ht h q]
  exact hs _ q

theorem holds_of_good (cfg : Cfg) (h : goodB cfg = true) : Holds cfg := by
  simp only [goodB, Bool.and_eq_true] at h
  exact ⟨holdsStore_of_good cfg h.1.1, holdsS_of cfg (holdsStore_of_good cfg h.1.1) h.1.2, h.2⟩

/-- what remains proved whatever the facts are: the conditional agreement of keys -/
def Partial (cfg : Cfg) : Prop :=
  (cfg.planOrBypassOnSubGroups = true →
    ∀ (store : List Rec) (q : Query), Aligned cfg store q →
      (∀ g, q.filter = some g → ∀ r ∈ store, LegsAgree cfg r (topLeaves g)) →
      keysOf (bucketRoute cfg store q) = keysOf (scanRoute cfg store q)) ∧
  -- same-kind operands: full agreement, on any store and after any history
  (routesGoodB cfg = true → legBaseB cfg = true →
    (∀ (store : List Rec) (q : Query), SameKindStore store q → bucketRoute cfg store q = scanRoute cfg store q) ∧
    (trackGoodB cfg = true → ∀ (hist : List MOp) (q : Query), SameKindStore (runB cfg hist).store q →
      bucketRouteS cfg (runB cfg hist) q = scanRoute cfg (runB cfg hist).store q))

theorem routes_agree_partial (cfg : Cfg) : Partial cfg :=
  ⟨fun hb store q ha hl => (routes_agree_of cfg hb store q ha hl).1,
   fun h hl => ⟨fun store q hk => routes_agree_same_kind cfg h hl store q hk,
                fun ht hist q hk => routesS_agree_same_kind cfg h hl ht hist q hk⟩⟩

/-! ### 3. counterexamples: witness queries evaluated in the model -/

def witnessFails (cfg : Cfg) (store : List Rec) (q : Query) : Bool :=
  bucketRoute cfg store q != scanRoute cfg store q

theorem refutes_of_witness (cfg : Cfg) (store : List Rec) (q : Query) (h : witnessFails cfg store q = true) :
    ¬ HoldsStore cfg := by
  intro hh
  simp [witnessFails, hh store q] at h

def witnessFailsS (cfg : Cfg) (h : List MOp) (q : Query) : Bool :=
  bucketRouteS cfg (runB cfg h) q != scanRoute cfg (runB cfg h).store q

theorem refutes_of_witnessS (cfg : Cfg) (h : List MOp) (q : Query) (hw : witnessFailsS cfg h q = true) :
    ¬ HoldsS cfg := by
  intro hh
  simp [witnessFailsS, hh h q] at hw

def body (fs : List (String × Value)) : Option Value := some (.map fs)
def rec (k : String) (b : Option Value) (c : Int) : Rec := { key := k, body := b, created := c, updated := 0, expire := 0 }
def leaf (p : Path) (op : Op) (cv : CV) (label : String := "") : Leaf :=
  { path := p, op := op, cv := cv, strVals := [], intVals := [], label := label }
def qKey (g : Group) : Query :=
  { slot := .key, asc := true, from_ := 0, limit := 0, fromT := none, toT := none, maxResults := 0, filter := some g }

/-- (finding id, store, query).  The first seven fail under the facts of the tree before the
    `fix:` commit — each reproduced on the real code by corpus cases 0–4b of harness/c08.go (the two
    special-path ones no longer after it); the rest fail only under facts the tree does not have (hint for NOT_EQUAL, OR-union despite a sub-group, no de-duplication). -/
def witnesses : List (String × List Rec × Query) := [
  ("C08-scan-equality-not-canonical",
    [rec "k1" (body [("a", .flt 23)]) 1, rec "k2" (body [("a", .int 5)]) 2],
    qKey (.mk false [leaf [.field "a"] .eq (.i64 5)] [])),
  ("C08-special-path-hinted",
    [rec "k1" (body [("l", .arr [.str "a", .str "b"])]) 1, rec "k2" (body [("l", .arr [.str "b"])]) 2],
    qKey (.mk false [leaf [.wild "l"] .eq (.str "a")] [])),
  ("C08-special-path-hinted",
    [rec "k1" (body [("l", .arr [.str "a", .str "b"])]) 1, rec "k2" (body [("l", .arr [.str "b"])]) 2],
    qKey (.mk false [leaf [.field "l", .len] .eq (.i64 2)] [])),
  ("C08-paging-before-residual",
    [rec "k1" (body [("a", .int 1)]) 1, rec "k2" (body [("a", .int 2)]) 2, rec "k3" (body [("a", .int 2)]) 3],
    { qKey (.mk false [leaf [.field "a"] .eq (.i64 2)] []) with from_ := 1 }),
  ("C08-indexed-leg-label-dropped",
    [rec "k1" (body [("a", .int 1), ("b", .str "a")]) 1],
    qKey (.mk false [leaf [.field "a"] .eq (.i64 1) "L1", leaf [.field "b"] .eq (.str "a") "L2"] [])),
  ("C08-bucket-route-ignores-index-attribute",
    [rec "k1" (body [("a", .int 1)]) 0, rec "k2" (body [("a", .int 1)]) 2],
    { qKey (.mk false [leaf [.field "a"] .eq (.i64 1)] []) with slot := .created }),
  ("C08-window-on-key-index",
    [rec "k1" (body [("a", .int 1)]) 1, rec "k2" (body [("a", .int 1)]) 2],
    { qKey (.mk false [leaf [.field "a"] .eq (.i64 1)] []) with fromT := some 1 }),
  ("C08-non-equality-operator-hinted",
    [rec "k1" (body [("a", .int 5)]) 1],
    qKey (.mk false [leaf [.field "a"] .ne (.i64 5)] [])),
  ("C08-or-union-with-subgroups",
    [rec "k1" (body [("a", .int 2), ("b", .str "x")]) 1],
    qKey (.mk true [leaf [.field "a"] .eq (.i64 1)] [.mk false [leaf [.field "b"] .eq (.str "x")] []])),
  ("C08-duplicate-candidates",
    [rec "k1" (body [("a", .int 1)]) 1],
    qKey (.mk false [{ leaf [.field "a"] .i64In .none with intVals := [1, 1] }] []))]

def storeFindings (cfg : Cfg) : List String :=
  ((witnesses.filter (fun w => witnessFails cfg w.2.1 w.2.2)).map (·.1)).eraseDups

theorem refutes_of_storeFindings (cfg : Cfg) (h : storeFindings cfg ≠ []) : ¬ HoldsStore cfg := by
  unfold storeFindings at h
  have : witnesses.filter (fun w => witnessFails cfg w.2.1 w.2.2) ≠ [] := by
    intro he; rw [he] at h; exact h (by simp)
  obtain ⟨w, hw⟩ := List.exists_mem_of_ne_nil _ this
  exact refutes_of_witness cfg w.2.1 w.2.2 (List.mem_filter.mp hw).2

/-- the four steps of `GetOrBuildBucket` for field `a`, back to back (a sequential first query) -/
def buildA : List MOp := [.beginBuild [.field "a"], .snapshot [.field "a"], .build [.field "a"], .drain [.field "a"]]

/-- (finding id, history, query): one per mutation kind that might not reach a built bucket, and one
    for a mutation that falls between snapshot and build.  None fails under the facts of the tree. -/
def trackWitnesses : List (String × List MOp × Query) := [
  ("C08-bucket-misses-insert", [.put (recA "k1" 1)] ++ buildA ++ [.put (recA "k2" 1)], qA1),
  ("C08-bucket-misses-update", [.put (recA "k1" 1)] ++ buildA ++ [.put (recA "k1" 2)], qA1),
  ("C08-bucket-misses-delete", [.put (recA "k1" 1), .put (recA "k2" 1)] ++ buildA ++ [.del "k2"], qA1),
  ("C08-bucket-build-drops-pending",
    [.put (recA "k1" 1), .beginBuild [.field "a"], .snapshot [.field "a"], .put (recA "k2" 1), .build [.field "a"], .drain [.field "a"]],
    qA1),
  -- the builder has built and not drained yet; a save arrives (buffered); a reader comes
  ("C08-bucket-served-before-drain",
    [.put (recA "k1" 1), .beginBuild [.field "a"], .snapshot [.field "a"], .build [.field "a"], .put (recA "k2" 1)],
    qA1)]

def trackFindings (cfg : Cfg) : List String :=
  ((trackWitnesses.filter (fun w => witnessFailsS cfg w.2.1 w.2.2)).map (·.1)).eraseDups

theorem refutes_of_trackFindings (cfg : Cfg) (h : trackFindings cfg ≠ []) : ¬ HoldsS cfg := by
  unfold trackFindings at h
  have : trackWitnesses.filter (fun w => witnessFailsS cfg w.2.1 w.2.2) ≠ [] := by
    intro he; rw [he] at h; exact h (by simp)
  obtain ⟨w, hw⟩ := List.exists_mem_of_ne_nil _ this
  exact refutes_of_witnessS cfg w.2.1 w.2.2 (List.mem_filter.mp hw).2

def findings (cfg : Cfg) : List String :=
  storeFindings cfg ++ trackFindings cfg ++ (if !saveWitnessOk cfg then ["C08-bucket-notified-before-add"] else [])

theorem refutes_of_findings (cfg : Cfg) (h : findings cfg ≠ []) : ¬ Holds cfg := by
  intro hh
  unfold findings at h
  by_cases hs : storeFindings cfg = []
  · by_cases ht : trackFindings cfg = []
    · by_cases hv : saveWitnessOk cfg = true
      · simp [hs, ht, hv] at h
      · exact hv hh.2.2
    · exact refutes_of_trackFindings cfg ht hh.2.1
  · exact refutes_of_storeFindings cfg hs hh.1

/-- the facts of the tree before the five `fix:` commits on the accelerated route -/
def beforeFix : Cfg := {
  indexableOps := [.eq, .strIn, .i32In, .i64In], excludesSpecialPaths := false, planOrBypassOnSubGroups := true,
  scanEqCanonical := false, bucketPagingAfterFilter := false, scanPagingAfterFilter := false, labelReattach := false,
  pagedQueriesBypass := false, bucketChecksAttr := false, lookupInDedupes := true, unionDedupes := true,
  bucketWindowTimeOnly := false,
  bucketNotifyInsert := true, bucketNotifyUpdate := true, bucketNotifyDelete := true, bucketPendingReplayed := true,
  readerDrainsInFlight := false, bucketNotifyAfterAdd := true }

/-- the facts of the tree as of this writing: special paths are not hinted, paged queries take the
    index walk, labelled filters are evaluated whole on the candidates, time-ordered candidates must
    carry the timestamp, the key index ignores the window; a field bucket is served only once the
    buffer of its build is drained.  Left: equality on the scan route. -/
def current : Cfg := { beforeFix with
  excludesSpecialPaths := true, pagedQueriesBypass := true, labelReattach := true, bucketChecksAttr := true,
  bucketWindowTimeOnly := true, readerDrainsInFlight := true }

def repaired : Cfg := { current with scanEqCanonical := true }

/-- float 5.75 against integer 5: only the scan route returns `k1` -/
theorem witness_float_vs_int :
    let store := [rec "k1" (body [("a", .flt 23)]) 1, rec "k2" (body [("a", .int 5)]) 2]
    let q := qKey (.mk false [leaf [.field "a"] .eq (.i64 5)] [])
    keysOf (bucketRoute current store q) = ["k2"] ∧ keysOf (scanRoute current store q) = ["k1", "k2"] := by decide

/-- path `l[*]` (facts before the fix): the bucket finds nothing, the scan route finds `k1` -/
theorem witness_wildcard_path :
    let store := [rec "k1" (body [("l", .arr [.str "a", .str "b"])]) 1, rec "k2" (body [("l", .arr [.str "b"])]) 2]
    let q := qKey (.mk false [leaf [.wild "l"] .eq (.str "a")] [])
    keysOf (bucketRoute beforeFix store q) = [] ∧ keysOf (scanRoute beforeFix store q) = ["k1"] ∧
    bucketRoute current store q = scanRoute current store q := by decide

/-- From = 1 with a selective indexed leg -/
theorem witness_paging :
    let store := [rec "k1" (body [("a", .int 1)]) 1, rec "k2" (body [("a", .int 2)]) 2, rec "k3" (body [("a", .int 2)]) 3]
    let q := { qKey (.mk false [leaf [.field "a"] .eq (.i64 2)] []) with from_ := 1 }
    keysOf (bucketRoute beforeFix store q) = ["k3"] ∧ keysOf (scanRoute beforeFix store q) = ["k2", "k3"] := by decide

/-- the label of the indexed leg is missing on the accelerated route -/
theorem witness_label :
    let store := [rec "k1" (body [("a", .int 1), ("b", .str "a")]) 1]
    let q := qKey (.mk false [leaf [.field "a"] .eq (.i64 1) "L1", leaf [.field "b"] .eq (.str "a") "L2"] [])
    bucketRoute beforeFix store q = [("k1", ["L2"])] ∧ scanRoute beforeFix store q = [("k1", ["L1", "L2"])] := by decide

/-- a record without CreatedAt in a creation-time ordered query -/
theorem witness_attribute :
    let store := [rec "k1" (body [("a", .int 1)]) 0, rec "k2" (body [("a", .int 1)]) 2]
    let q := { qKey (.mk false [leaf [.field "a"] .eq (.i64 1)] []) with slot := .created }
    keysOf (bucketRoute beforeFix store q) = ["k1", "k2"] ∧ keysOf (scanRoute beforeFix store q) = ["k2"] := by decide

theorem findings_beforeFix : findings beforeFix =
    ["C08-scan-equality-not-canonical", "C08-special-path-hinted", "C08-paging-before-residual",
     "C08-indexed-leg-label-dropped", "C08-bucket-route-ignores-index-attribute", "C08-window-on-key-index",
     "C08-bucket-served-before-drain"] := by decide

theorem findings_current : findings current = ["C08-scan-equality-not-canonical"] := by decide

theorem refutes_current : ¬ Holds current := refutes_of_findings current (by rw [findings_current]; simp)

/-- the premise of `planner_sound` fails under the current facts: leg and hint disagree on a record -/
theorem not_leg_agree_current :
    ¬ (∀ (r : Rec) (ls : List Leaf), LegsAgree current r ls) := by
  intro h
  have := h (rec "k1" (body [("a", .flt 23)]) 1) [leaf [.field "a"] .eq (.i64 5)] (leaf [.field "a"] .eq (.i64 5)) (by simp)
    ⟨[.field "a"], [.i 5], leaf [.field "a"] .eq (.i64 5)⟩ (by decide)
  revert this
  decide

/-- non-vacuity: the repaired facts are sound, none of the witnesses fails, and the extra witnesses
    do fail under the facts they are meant for -/
example : goodB repaired = true := by decide
example : findings repaired = [] := by decide
theorem holds_repaired : Holds repaired := holds_of_good repaired (by decide)
example : findings { repaired with indexableOps := [.eq, .ne, .strIn, .i32In, .i64In] } = ["C08-non-equality-operator-hinted"] := by decide
example : findings { repaired with planOrBypassOnSubGroups := false } = ["C08-or-union-with-subgroups"] := by decide
example : findings { repaired with lookupInDedupes := false } = ["C08-duplicate-candidates"] := by decide
example : findings { repaired with bucketNotifyInsert := false } =
    ["C08-bucket-misses-insert", "C08-bucket-build-drops-pending", "C08-bucket-served-before-drain"] := by decide
example : findings { repaired with bucketNotifyUpdate := false } = ["C08-bucket-misses-update"] := by decide
example : findings { repaired with bucketNotifyDelete := false } = ["C08-bucket-misses-delete"] := by decide
example : findings { repaired with bucketPendingReplayed := false } =
    ["C08-bucket-build-drops-pending", "C08-bucket-served-before-drain"] := by decide
example : findings { repaired with readerDrainsInFlight := false } = ["C08-bucket-served-before-drain"] := by decide
example : findings { repaired with bucketNotifyAfterAdd := false } = ["C08-bucket-notified-before-add"] := by decide

/-- Closed witness: were an update of an existing key not passed on, a record whose field moved from 1
    to 2 after the bucket was built would still be served for `a = 1`. -/
theorem witness_bucket_misses_update :
    let cfg := { repaired with bucketNotifyUpdate := false }
    let h := [MOp.put (recA "k1" 1)] ++ buildA ++ [.put (recA "k1" 2)]
    keysOf (bucketRouteS cfg (runB cfg h) qA1) = ["k1"] ∧ keysOf (scanRoute cfg (runB cfg h).store qA1) = [] := by decide

/-- Closed witness: a save that falls between the builder's snapshot and its build is only in the
    pending buffer; a drain that did not replay it would lose it. -/
theorem witness_bucket_drops_pending :
    let cfg := { repaired with bucketPendingReplayed := false }
    let h := [MOp.put (recA "k1" 1), .beginBuild [.field "a"], .snapshot [.field "a"], .put (recA "k2" 1),
              .build [.field "a"], .drain [.field "a"]]
    keysOf (bucketRouteS cfg (runB cfg h) qA1) = ["k1"] ∧ keysOf (scanRoute cfg (runB cfg h).store qA1) = ["k1", "k2"] ∧
    bucketRouteS repaired (runB repaired h) qA1 = scanRoute repaired (runB repaired h).store qA1 := by decide

/-- **What holds on the current tree for equality**: with same-kind operands (the field is not a
    number, or a number of the compare value's kind) the accelerated route over the buckets as any
    history left them and the full scan return the same items — although `scanEqCanonical` is false. -/
theorem current_same_kind (hist : List MOp) (q : Query) (hk : SameKindStore (runB current hist).store q) :
    bucketRouteS current (runB current hist) q = scanRoute current (runB current hist).store q :=
  routesS_agree_same_kind current (by decide) (by decide) (by decide) hist q hk

/-- non-vacuity: integers against an integer compare value are same-kind (and the answer is not empty);
    the float of the witness is not -/
example : SameKindStore [recA "k1" 1, recA "k2" 2] qA1 := by
  intro g hq r hr l hl
  simp only [qA1, qKey, Option.some.injEq] at hq
  subst hq
  simp only [topLeaves, Group.leaves, Group.subs, List.flatMap_nil, List.append_nil, List.mem_singleton] at hl
  subst hl
  simp only [List.mem_cons, List.not_mem_nil, or_false] at hr
  rcases hr with rfl | rfl <;> decide
example : sameKindRec (rec "k1" (body [("a", .flt 23)]) 1) (leaf [.field "a"] .eq (.i64 5)) = false := by decide

/-- `bucket_tracks_store`, restated: under the facts of the tree every settled bucket files exactly
    the live records under the canonical key of their current body, after every history. -/
theorem bucket_tracks_store_current (h : List MOp) :
    ∀ b ∈ (runB current h).buckets, b.init = true → b.inFlight = false →
      b.ents = entsOf b.path (runB current h).store ∧ b.pending = [] :=
  bucket_tracks_store current (by decide) h

/-- Closed witness: a bucket is `EqualityInitialized` as soon as `BuildEquality` returns, before its
    builder has drained the buffer; a save that completed meanwhile sits in that buffer, and a reader
    that comes now is served without it. -/
theorem witness_bucket_served_before_drain :
    let cfg := { repaired with readerDrainsInFlight := false }
    let h := [MOp.put (recA "k1" 1), .beginBuild [.field "a"], .snapshot [.field "a"], .build [.field "a"], .put (recA "k2" 1)]
    keysOf (bucketRouteS cfg (runB cfg h) qA1) = ["k1"] ∧ keysOf (scanRoute cfg (runB cfg h).store qA1) = ["k1", "k2"] ∧
    bucketRouteS repaired (runB repaired h) qA1 = scanRoute repaired (runB repaired h).store qA1 := by decide

/-- non-vacuity of the conditional theorem under the current facts: an unpaged key-ordered query
    over integer fields is `Aligned`, and the routes do return the same non-empty answer -/
example : bucketRoute current [rec "k1" (body [("a", .int 1)]) 1, rec "k2" (body [("a", .uint 1)]) 2]
      (qKey (.mk false [leaf [.field "a"] .eq (.i64 1)] [])) = [("k1", []), ("k2", [])] := by decide

/-! ### 4. decision over the extracted facts -/

structure Facts where
  indexableOps : Option (List Op)
  excludesSpecialPaths : Tri
  planOrBypassOnSubGroups : Tri
  /-- PlanFilter / planAnd / planOr have the modelled shape -/
  planShape : Tri
  scanEqCanonical : Tri
  bucketPagingAfterFilter : Tri
  scanPagingAfterFilter : Tri
  labelReattach : Tri
  pagedQueriesBypass : Tri
  bucketChecksAttr : Tri
  lookupInDedupes : Tri
  unionDedupes : Tri
  bucketWindowTimeOnly : Tri
  /-- the bucket branch is taken for the key and the three time orderings only -/
  execPreconditions : Tri
  /-- both `extractFieldByPath` have the modelled shape -/
  extractorsStandard : Tri
  /-- `valuecanon.Canonicalize / Equal` have the modelled shape -/
  canonStandard : Tri
  /-- `evaluateBytesFieldFilterAgainstMap` has the modelled shape -/
  scanLeafStandard : Tri
  bucketNotifyInsert : Tri
  bucketNotifyUpdate : Tri
  bucketNotifyDelete : Tri
  bucketPendingReplayed : Tri
  readerDrainsInFlight : Tri
  bucketNotifyAfterAdd : Tri
  /-- `GetOrBuildBucket` publishes the bucket in flight, then snapshots, builds, drains; `OnInsert` /
      `OnUpdate` / `OnDelete` buffer while in flight and apply otherwise -/
  bucketLifecycleStandard : Tri
  /-- `applyTimeRange` (bucket route) and `findTimeRangeBounds` (scan route) convert the window bounds
      to int64 nanoseconds the same way (both through `WindowNanos`, or both by a bare `UnixNano()`) -/
  windowConversionAlike : Tri
  deriving Repr

def cfgOf (f : Facts) : Cfg := {
  indexableOps := f.indexableOps.getD [], excludesSpecialPaths := f.excludesSpecialPaths.isYes,
  planOrBypassOnSubGroups := f.planOrBypassOnSubGroups.isYes, scanEqCanonical := f.scanEqCanonical.isYes,
  bucketPagingAfterFilter := f.bucketPagingAfterFilter.isYes, scanPagingAfterFilter := f.scanPagingAfterFilter.isYes,
  labelReattach := f.labelReattach.isYes, pagedQueriesBypass := f.pagedQueriesBypass.isYes,
  bucketChecksAttr := f.bucketChecksAttr.isYes,
  lookupInDedupes := f.lookupInDedupes.isYes, unionDedupes := f.unionDedupes.isYes,
  bucketWindowTimeOnly := f.bucketWindowTimeOnly.isYes,
  bucketNotifyInsert := f.bucketNotifyInsert.isYes, bucketNotifyUpdate := f.bucketNotifyUpdate.isYes,
  bucketNotifyDelete := f.bucketNotifyDelete.isYes, bucketPendingReplayed := f.bucketPendingReplayed.isYes,
  readerDrainsInFlight := f.readerDrainsInFlight.isYes, bucketNotifyAfterAdd := f.bucketNotifyAfterAdd.isYes }

def unknownFact (f : Facts) : Option String :=
  if f.indexableOps.isNone then some "indexableHint operators" else
  if !f.planShape.isYes then some "PlanFilter / planAnd / planOr shape" else
  if !f.execPreconditions.isYes then some "bucketExecPreconditions" else
  if !f.extractorsStandard.isYes then some "an extractFieldByPath" else
  if !f.canonStandard.isYes then some "valuecanon" else
  if f.scanLeafStandard == .unknown && f.scanEqCanonical != .yes then some "evaluateBytesFieldFilterAgainstMap" else
  if [f.excludesSpecialPaths, f.planOrBypassOnSubGroups, f.scanEqCanonical, f.bucketPagingAfterFilter,
      f.scanPagingAfterFilter, f.labelReattach, f.pagedQueriesBypass, f.bucketChecksAttr, f.lookupInDedupes, f.unionDedupes,
      f.bucketWindowTimeOnly].any (· == .unknown) then some "a fact of GetByIndexStream / bucket_exec / bucket" else
  if !f.bucketLifecycleStandard.isYes then some "GetOrBuildBucket / OnInsert / OnUpdate / OnDelete shape" else
  if !f.windowConversionAlike.isYes then some "window bound conversion of applyTimeRange vs findTimeRangeBounds" else
  if [f.bucketNotifyInsert, f.bucketNotifyUpdate, f.bucketNotifyDelete, f.bucketPendingReplayed, f.readerDrainsInFlight, f.bucketNotifyAfterAdd].any (· == .unknown) then
    some "a bucket notification of SaveFunction / deleteHandler / DrainPending" else
  none

def classify (f : Facts) : Verdict :=
  match unknownFact f with
  | some why => .undetermined why
  | none =>
    if goodB (cfgOf f) then .holds
    else if findings (cfgOf f) != [] then .violated (findings (cfgOf f))
    else .undetermined "facts are neither the sound ones nor refuted by a witness"

theorem classify_sound (f : Facts) : (classify f).Sound (Holds (cfgOf f)) (Partial (cfgOf f)) := by
  unfold classify
  split
  · trivial
  · split
    · rename_i hg; exact holds_of_good _ hg
    · split
      · rename_i hf
        refine ⟨refutes_of_findings _ ?_, routes_agree_partial _⟩
        intro he; rw [he] at hf; simp at hf
      · trivial

end Hv.C08
