/-
  C30 — Expiry semantics are consistent across every read and claim path.

  "A record is expired exactly when it has a non-zero expiry time that lies in the past, and a
   record without expiry never expires. Every path that looks at expiry (expired-shift,
   expired-patch, expiry-ordered reads, expiry filters, clearing or sliding the expiry through a
   patch) agrees on this, before and after a reload."

  Statement: for the comparison operator and zero-guard extracted at every site (`ExpCfg`), each
  claim path's predicate equals `expired`, each index-membership site keeps exactly `exp ≠ 0`,
  IS_EMPTY is `exp = 0`, a zero time means "none", clear wins over set, and a reply shows
  ExpiredAt exactly when the record has an expiry — for ALL times, pre-epoch ones included.
  Reload: `Hv.Data.reload_keeps_meta` (the expiry is an int64 field of the persisted record;
  0 already means "none", so gob's zero omission cannot change it).
-/
import Hv.Data.Expiry
import Hv.Props.C05

namespace Hv.C30
open Hv.Data

structure Holds (c : ExpCfg) : Prop where
  claims : ∀ exp now, c.isExpired.eval exp now = expired exp now ∧ c.shift.eval exp now = expired exp now ∧
    c.selectCap.eval exp now = expired exp now ∧
    filterLt c.filterGuard0 exp now = expired exp now
  members : ∀ exp, member c.coldBuildNe0 exp = decide (exp ≠ 0) ∧ member c.addBeaconsNe0 exp = decide (exp ≠ 0) ∧
    member c.saveBranchNe0 exp = decide (exp ≠ 0) ∧ member c.reindexNe0 exp = decide (exp ≠ 0) ∧
    member c.patchReaddNe0 exp = decide (exp ≠ 0)
  isEmpty : c.isEmptyEq0 = true
  zeroNone : c.setZeroNone = true
  clear : ∀ set old, patchExp c.clearWins true set old = 0
  wire : ∀ exp, c.wireGet.shows exp = decide (exp ≠ 0)
  reload : ∀ (e : Encoding) (t : MRec), (reloadView e t).m.exp = t.m.exp

/-- the same, with reply visibility required only for times at or after the epoch -/
structure HoldsNonneg (c : ExpCfg) : Prop where
  claims : ∀ exp now, c.isExpired.eval exp now = expired exp now ∧ c.shift.eval exp now = expired exp now ∧
    c.selectCap.eval exp now = expired exp now ∧
    filterLt c.filterGuard0 exp now = expired exp now
  members : ∀ exp, member c.coldBuildNe0 exp = decide (exp ≠ 0) ∧ member c.addBeaconsNe0 exp = decide (exp ≠ 0) ∧
    member c.saveBranchNe0 exp = decide (exp ≠ 0) ∧ member c.reindexNe0 exp = decide (exp ≠ 0) ∧
    member c.patchReaddNe0 exp = decide (exp ≠ 0)
  clear : ∀ set old, patchExp c.clearWins true set old = 0
  wire : ∀ exp, exp ≥ 0 → c.wireGet.shows exp = decide (exp ≠ 0)
  reload : ∀ (e : Encoding) (t : MRec), (reloadView e t).m.exp = t.m.exp

theorem reload_exp (e : Encoding) (t : MRec) : (reloadView e t).m.exp = t.m.exp := by
  rw [reload_keeps_meta]

theorem good_fields (c : ExpCfg) (h : c.good = true) : c.isEmptyEq0 = true ∧ c.setZeroNone = true := by
  simp only [ExpCfg.good, Bool.and_eq_true] at h
  exact ⟨h.1.1.2, h.1.2⟩

/-- **paths_agree, partial form**: good sites ⇒ everything agrees on every time ≥ 0 … -/
theorem holds_nonneg (c : ExpCfg) (h : c.good = true) : HoldsNonneg c := by
  refine ⟨fun exp now => ?_, fun exp => ?_, ?_, fun exp he => wire_agrees_nonneg _ exp he, reload_exp⟩
  · obtain ⟨a, b, d, e, _⟩ := paths_agree c h exp now
    exact ⟨a, b, d, e⟩
  · obtain ⟨_, _, _, _, a, b, c', d, e, _⟩ := paths_agree c h exp 0
    exact ⟨a, b, c', d, e⟩
  · exact (paths_agree c h 0 0).2.2.2.2.2.2.2.2.2

/-- … and on ALL times when replies show every non-zero expiry -/
theorem holds_good (c : ExpCfg) (h : c.good = true) (hw : c.wireGet = .ne0) : Holds c := by
  obtain ⟨a, b, cl, _, r⟩ := holds_nonneg c h
  obtain ⟨e1, e2⟩ := good_fields c h
  exact ⟨a, b, e1, e2, cl, fun exp => by rw [hw]; rfl, r⟩

/-- with `> 0` on the wire, a pre-epoch expiry is expired, indexed and not shown -/
theorem not_holds_gt0 (c : ExpCfg) (hw : c.wireGet = .gt0) : ¬ Holds c := by
  intro hh
  have := hh.wire (-5000000000)
  rw [hw] at this
  revert this; decide

theorem site_bad (s : Site) (h : s.good = false) :
    s.eval 0 1 ≠ expired 0 1 ∨ s.eval 7 7 ≠ expired 7 7 := by
  obtain ⟨g, st⟩ := s
  cases g <;> cases st <;> simp [Site.good] at h <;> decide

theorem not_holds_of_not_good (c : ExpCfg) (h : c.good = false) : ¬ Holds c := by
  intro hh
  have w0 := hh.claims 0 1
  have w7 := hh.claims 7 7
  have m0 := hh.members 0
  have cl := hh.clear (some 9) 3
  have hi := hh.isEmpty
  have hz := hh.zeroNone
  have bad : ∀ (s : Site), s.eval 0 1 = expired 0 1 → s.eval 7 7 = expired 7 7 → s.good = true := by
    intro s a b
    cases hg : s.good with
    | true => rfl
    | false => rcases site_bad s hg with x | x <;> contradiction
  have g1 := bad _ w0.1 w7.1
  have g2 := bad _ w0.2.1 w7.2.1
  have g3 := bad _ w0.2.2.1 w7.2.2.1
  have memb : ∀ b : Bool, member b 0 = decide ((0 : Int) ≠ 0) → b = true := by
    intro b hb; cases b
    · revert hb; decide
    · rfl
  have m1 := memb _ m0.1
  have m2 := memb _ m0.2.1
  have m3 := memb _ m0.2.2.1
  have m4 := memb _ m0.2.2.2.1
  have m5 := memb _ m0.2.2.2.2
  have fg : c.filterGuard0 = true := by
    cases hf : c.filterGuard0 with
    | true => rfl
    | false => have := w0.2.2.2; rw [hf] at this; revert this; decide
  have cw : c.clearWins = true := by
    cases hc : c.clearWins with
    | true => rfl
    | false => rw [hc] at cl; revert cl; decide
  simp [ExpCfg.good, g1, g2, g3, m1, m2, m3, m4, m5, fg, hi, hz, cw] at h

/-! ### witnesses in the request model (closed terms, today's facts) -/

def goodSites : ExpCfg :=
  { isExpired := ⟨true, true⟩, shift := ⟨true, true⟩, selectCap := ⟨true, true⟩,
    coldBuildNe0 := true, addBeaconsNe0 := true, saveBranchNe0 := true, reindexNe0 := true, patchReaddNe0 := true,
    filterGuard0 := true, isEmptyEq0 := true, setZeroNone := true, clearWins := true, wireGet := .gt0 }

example : goodSites.good = true := by decide
example : ({ goodSites with wireGet := .ne0 } : ExpCfg).good = true := by decide

/-- a pre-epoch expiry set through patch metadata: ShiftExpired claims the record, its reply
    (like Get) carries no ExpiredAt -/
theorem preepoch_patch_witness :
    let s1 := (Model30.step Hv.C06.current goodSites Hv.C06.ar0 0 {} (.kv (.set true true [{ key := "k", val := .bytes "c70080" }]))).s
    let s2 := (Model30.step Hv.C06.current goodSites Hv.C06.ar0 0 s1 (.patch false "k" (some { setExp := some (-5000000000) }))).s
    (Model30.step Hv.C06.current goodSites Hv.C06.ar0 1000000000 s2 (.shiftExp 0)).r
      = .recs [("k", { val := .bytes "c70080" })] ∧
    (Model.abs s2) = [("k", { val := .bytes "c70080", m := { exp := -5000000000 } })] := by
  decide

/-- a failed conditional increment moves the expiry of the live record without re-indexing it:
    the `ExpiredAt < now` filter sees an expired record that GetByIndex / ShiftExpired do not -/
theorem stale_index_witness :
    let s1 := (Model30.step Hv.C06.current goodSites Hv.C06.ar0 0 {}
      (.kv (.set true true [{ key := "a", val := .int .i64 5 }, { key := "b", val := .int .i64 6, exp := 100 }]))).s
    let s2 := (Model30.step Hv.C06.current goodSites Hv.C06.ar0 0 s1 (.getIdx false 0 0)).s
    let s3 := (Model30.step Hv.C06.current goodSites Hv.C06.ar0 0 s2
      (.kv (.inc (.int .i64) "a" 1 (some (.eq, 77)) none (some { exp := some 200 })))).s
    (Model30.step Hv.C06.current goodSites Hv.C06.ar0 1000 s3 (.filterExp .lt 1000)).r = .keys ["a", "b"] ∧
    (Model30.step Hv.C06.current goodSites Hv.C06.ar0 1000 s3 (.shiftExp 0)).r
      = .recs [("b", { val := .int .i64 6, m := { exp := 100 } })] := by
  decide

/-! ### decision over the extracted facts -/

inductive WireFact where
  | gt0 | ne0 | unknown
  deriving DecidableEq, Repr, Inhabited

structure Facts where
  isExpiredGuard0 : Tri
  isExpiredStrict : Tri
  shiftGuard0 : Tri
  shiftStrict : Tri
  selectCapGuard0 : Tri
  selectCapStrict : Tri
  coldBuildNe0 : Tri
  addBeaconsNe0 : Tri
  saveBranchNe0 : Tri
  reindexNe0 : Tri
  patchReaddNe0 : Tri
  filterGuard0 : Tri
  isEmptyEq0 : Tri
  setZeroNone : Tri
  clearWins : Tri
  wireGet : WireFact
  -- request-handler facts of the shared model (used by the correspondence run only)
  kv : Hv.C05.Facts
  deriving DecidableEq, Repr

def hasUnknown (f : Facts) : Bool :=
  f.isExpiredGuard0 == .unknown || f.isExpiredStrict == .unknown || f.shiftGuard0 == .unknown ||
  f.shiftStrict == .unknown ||
  f.selectCapGuard0 == .unknown || f.selectCapStrict == .unknown || f.coldBuildNe0 == .unknown ||
  f.addBeaconsNe0 == .unknown || f.saveBranchNe0 == .unknown || f.reindexNe0 == .unknown ||
  f.patchReaddNe0 == .unknown || f.filterGuard0 == .unknown || f.isEmptyEq0 == .unknown ||
  f.setZeroNone == .unknown || f.clearWins == .unknown || f.wireGet == .unknown

def cfgOf (f : Facts) : ExpCfg :=
  { isExpired := ⟨f.isExpiredGuard0.isYes, f.isExpiredStrict.isYes⟩, shift := ⟨f.shiftGuard0.isYes, f.shiftStrict.isYes⟩,
    selectCap := ⟨f.selectCapGuard0.isYes, f.selectCapStrict.isYes⟩,
    coldBuildNe0 := f.coldBuildNe0.isYes, addBeaconsNe0 := f.addBeaconsNe0.isYes, saveBranchNe0 := f.saveBranchNe0.isYes,
    reindexNe0 := f.reindexNe0.isYes, patchReaddNe0 := f.patchReaddNe0.isYes, filterGuard0 := f.filterGuard0.isYes,
    isEmptyEq0 := f.isEmptyEq0.isYes, setZeroNone := f.setZeroNone.isYes, clearWins := f.clearWins.isYes,
    wireGet := match f.wireGet with | .ne0 => .ne0 | _ => .gt0 }

/-! ### the write path that bypasses the index

  Every claim path reads the expiration index, every filter reads the records.  They can only
  agree if no request moves a record's expiry without going through `SaveFunction` (which
  re-files the record in the index).  The one request with a second exit is the conditional
  Increment: its failure branch. -/

/-- a conditional Increment that answers "not incremented" leaves every record's expiry as it was -/
def FailKeepsExpiry (kc : Cfg) : Prop :=
  ∀ (ar : Arith) (now : Int) (i : Inst) (ty : NumTy) (k : Key) (by_ : Int) (cond : Option (RelOp × Int))
    (ine ie : Option IncMeta) (v : Val) (m : Option Meta),
    (Model.incCore kc ar now i ty k by_ cond ine ie).r = .inc v false m →
    ∀ k', (AL.find k' (Model.incCore kc ar now i ty k by_ cond ine ie).i.recs).map (·.m.exp)
        = (AL.find k' i.recs).map (·.m.exp)

theorem fail_keeps_expiry (kc : Cfg) (h : kc.incFailClean = true) : FailKeepsExpiry kc := by
  intro ar now i ty k by_ cond ine ie v m hr k'
  unfold Model.incCore at hr ⊢
  cases hs : Model.incStart ty (Model.createTreasure i k).1 with
  | none => simp only [hs] at hr; cases hr
  | some x =>
    obtain ⟨t1, cur, u⟩ := x
    simp only [hs] at hr ⊢
    cases hc : condHolds ar ty cond cur with
    | true => simp only [hc, if_true] at hr; injection hr with _ hb _; cases hb
    | false =>
      simp only [hc, h, if_true, Bool.false_eq_true, if_false]
      split <;> rfl

theorem not_fail_keeps_expiry (kc : Cfg) (h : kc.incFailClean = false) : ¬ FailKeepsExpiry kc := by
  intro hh
  have := hh Hv.C06.ar0 0 { recs := [("a", { c := { val := .int .i64 5 } })] } (.int .i64) "a" 1 (some (.eq, 77)) none
    (some { exp := some 200 }) (.int .i64 5) (some { exp := 200 })
    (by simp [Model.incCore, Model.createTreasure, AL.find, Model.incStart, Content.vis, condHolds, numCmp, numWrap, IntTy.wrap, IntTy.bits, IntTy.signed, numOf, numVal,
          Model.applyIncMeta, metaResp, h, Val.scalar]) "a"
  revert this
  simp [Model.incCore, Model.createTreasure, AL.find, AL.has, AL.insert, Model.incStart, Content.vis, condHolds, numCmp, numWrap, IntTy.wrap, IntTy.bits, IntTy.signed, numOf,
    numVal, Model.applyIncMeta, Model.park, h, Val.scalar]

/-- **C30**, as far as it is proved: every expiry-aware site decides by the definition (`Holds`),
    and no request moves an expiry past the index (`FailKeepsExpiry`).  That the handlers then
    answer alike on every history is validated by the correspondence run. -/
def Full (kc : Cfg) (c : ExpCfg) : Prop := Holds c ∧ FailKeepsExpiry kc

def kcOf (f : Facts) : Cfg := Hv.C05.cfgOf f.kv

def findings (f : Facts) : List String :=
  (match f.wireGet with | .ne0 => [] | _ => ["C30-preepoch-expiry-invisible"]) ++
  (if f.kv.incFailClean = .yes then [] else ["C30-failed-increment-leaves-trace"])

def classify (f : Facts) : Verdict :=
  if hasUnknown f || f.kv.incFailClean == .unknown then .undetermined "an expiry comparison site was not recognised"
  else if !(cfgOf f).good then .violated ["C30-expiry-site-deviates"]
  else if findings f = [] then .holds
  else .violated (findings f)

/-- the fragment proved whenever the sites are good: all times at or after the epoch -/
def Partial (c : ExpCfg) : Prop := c.good = true → HoldsNonneg c

theorem kc_incFail (f : Facts) : (kcOf f).incFailClean = f.kv.incFailClean.isYes := by
  simp [kcOf, Hv.C05.cfgOf, Hv.C06.cfgOf, Hv.C05.kvFacts]

theorem classify_sound (f : Facts) : (classify f).Sound (Full (kcOf f) (cfgOf f)) (Partial (cfgOf f)) := by
  unfold classify
  split
  · trivial
  · split
    · rename_i h
      exact ⟨fun hf => not_holds_of_not_good _ (by simpa using h) hf.1, fun hg => holds_nonneg _ hg⟩
    · rename_i h
      have hg : (cfgOf f).good = true := by
        cases hh : (cfgOf f).good with
        | true => rfl
        | false => simp [hh] at h
      split
      · rename_i hfd
        -- no finding: the wire shows every non-zero expiry and the failure branch is clean
        have hw : f.wireGet = .ne0 := by
          cases hw : f.wireGet <;> simp [findings, hw] at hfd
          rfl
        have hi : f.kv.incFailClean = .yes := by
          by_cases hi : f.kv.incFailClean = .yes
          · exact hi
          · simp [findings, hi] at hfd
        exact ⟨holds_good _ hg (by simp [cfgOf, hw]), fail_keeps_expiry _ (by rw [kc_incFail, hi]; rfl)⟩
      · rename_i hfd
        refine ⟨fun hf => ?_, fun hg' => holds_nonneg _ hg'⟩
        cases hw : f.wireGet with
        | gt0 => exact not_holds_gt0 _ (by simp [cfgOf, hw]) hf.1
        | unknown => exact not_holds_gt0 _ (by simp [cfgOf, hw]) hf.1
        | ne0 =>
          have hi : f.kv.incFailClean ≠ .yes := by
            intro hi; simp [findings, hw, hi] at hfd
          refine not_fail_keeps_expiry _ ?_ hf.2
          rw [kc_incFail]
          cases hx : f.kv.incFailClean <;> simp_all [Tri.isYes]

end Hv.C30
