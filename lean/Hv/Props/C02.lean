/-
  C02 — Crash at any point never loses durable data or the swamp.

  "If the server process dies, or the machine loses power, at any moment while a swamp is
   writing, the next load of that swamp contains every record that was durably synced before the
   crash, reflects a consistent state as of some flush boundary, and never comes back empty or
   unreadable because the tail of the file was torn.  Writes made after such a recovery are
   themselves recoverable."

  Quantifiers: every list of chronicler acts (`Write(batch)` with any entry sizes, `Sync`,
  `Close`, lazy reopen) from an empty directory, any name length and block size, any block
  encoder (`MkOk`), and every crash point `(i, j, k)` of the resulting operation log: operation
  `i` in flight, the data of the writes since `j ≥ last completed fsync` lost, write `j` torn
  after `k` bytes (`lossyImageAt`, Hv/Storage/Disk.lean).

  Model: Hv/Storage/Chron.lean (`runActs`: ensureWriter / createNewFile / openExistingFile /
  WriteEntry / flushLocked / Sync / Close), Hv/Storage/Disk.lean (reader, `Load`).
-/
import Hv.Storage.SessionCrash
import Hv.Basic.Verdict

namespace Hv.C02
open Hv.BlockStore

/-- the disk as `Load` reads it (after its own temp cleanup) -/
def afterLoad (c : Cfg) (img : Disk) : Disk := img.applyAll (loadOps c img)

/-- the main file as it stood when the last fsync completed before operation `i` was issued -/
def syncedFile (ops : List FsOp) (i : Nat) : Option (List Cell) :=
  if lastSyncIdx ops i = 0 then none else (({} : Disk).applyAll (ops.take (lastSyncIdx ops i))).main

/-- the entries a (crash-free) load of that file returns: what was durably synced -/
def syncedEntries (c : Cfg) (ops : List FsOp) (i : Nat) : List Op :=
  match syncedFile ops i with
  | none => []
  | some f => loadEntries c.r f

/-- Clause 1: the next load returns a prefix of the written entries (a consistent earlier state)
    that contains everything durably synced; an unreadable file would load as the empty state. -/
def Recovers (c : Cfg) : Prop :=
  ∀ (mk : Mk), MkOk mk → ∀ (nl bs : Nat) (acts : List Act) (i j k : Nat),
    CrashPoint (runActs c mk nl bs acts).ops i j →
    ∃ es, es <+: written acts ∧ syncedEntries c (runActs c mk nl bs acts).ops i <+: es ∧
      recover c (afterLoad c (lossyImageAt {} (runActs c mk nl bs acts).ops i j k)) = Index.replay [] es

/-- Clause 2: after that recovery a fresh chronicler can write and sync, and the next load has
    the recovered records plus the new ones. -/
def Appendable (c : Cfg) : Prop :=
  ∀ (mk : Mk), MkOk mk → ∀ (nl bs : Nat) (acts : List Act) (i j k : Nat),
    CrashPoint (runActs c mk nl bs acts).ops i j →
    ∀ items : List (Op × Nat), items ≠ [] →
      let d := afterLoad c (lossyImageAt {} (runActs c mk nl bs acts).ops i j k)
      let w1 := cWrite c mk d { w := none, nlName := nl, bs := bs } items
      let w2 := cSync c mk w1.1
      recover c ((d.applyAll w1.2).applyAll w2.2) = Index.replay (recover c d) (items.map (·.1))

/-- Clause 1b (nothing that reached the disk is thrown away): every whole-block prefix of the
    written file that is contained in the crash image is recovered — the loader stops only at the
    torn part.  For a plain process death (no power loss) the image contains every completed write,
    so every completely written block is recovered, synced or not. -/
def Maximal (c : Cfg) : Prop :=
  ∀ (mk : Mk), MkOk mk → ∀ (nl bs : Nat) (acts : List Act) (i j k : Nat),
    CrashPoint (runActs c mk nl bs acts).ops i j →
    (runActs c mk nl bs acts).d.main = none ∨
    ∃ blocks, (runActs c mk nl bs acts).d.main = some (fileCells nl blocks) ∧
      ∀ g, (afterLoad c (lossyImageAt {} (runActs c mk nl bs acts).ops i j k)).main = some g →
      ∀ sb, sb <+: blocks → fileCells nl sb <+: g →
        ∃ es, recover c (afterLoad c (lossyImageAt {} (runActs c mk nl bs acts).ops i j k)) = Index.replay [] es ∧
          entsOf sb <+: es

/-- the run of a chronicler that starts on the clean file a recovery (or a `Close` and a `Load`)
    left behind — `bs0` are the blocks the load returned; the repaired open has cut everything
    behind them.  Its log starts with operations that produce exactly that file and ends with an
    fsync: what survived a crash is on the disk, so a later crash can only lose writes of the
    resumed session. -/
def resumedRun (nl bs : Nat) (bs0 : List Block) : Run :=
  { cs := { w := none, nlName := nl, bs := bs },
    d := { main := some (fileCells nl bs0), temp := none },
    ops := sessionOps nl (bs0.map Ev.blk ++ ([Ev.sync] ++ [])) }

/-- Clause 3 (the history goes on): a chronicler that resumes on the file a recovery — or a
    `Close` followed by a `Load` — left behind, runs any acts and crashes again at any point of the
    resumed session still loads a prefix of `recovered ++ written` that contains everything
    recovered before and everything synced since. -/
def Resumes (c : Cfg) : Prop :=
  ∀ (mk : Mk), MkOk mk → ∀ (nl bs : Nat) (bs0 : List Block), (∀ b ∈ bs0, b.WF) → ∀ (acts : List Act) (i j k : Nat),
    CrashPoint (acts.foldl (Run.step c mk) (resumedRun nl bs bs0)).ops i j → (resumedRun nl bs bs0).ops.length ≤ i →
    ∃ es, es <+: entsOf bs0 ++ written acts ∧ entsOf bs0 <+: es ∧
      syncedEntries c (acts.foldl (Run.step c mk) (resumedRun nl bs bs0)).ops i <+: es ∧
      recover c (afterLoad c (lossyImageAt {} (acts.foldl (Run.step c mk) (resumedRun nl bs bs0)).ops i j k)) =
        Index.replay [] es

/-- Clause 4 (power loss leaves zeros): the file size can reach the disk while the data does not —
    the tail then reads as zeros.  Behind a file of whole blocks such a tail of any length changes
    nothing for the load, and a fresh chronicler that writes and syncs afterwards is readable. -/
def ZeroTail (c : Cfg) : Prop :=
  (∀ (nl : Nat) (bs : List Block), (∀ b ∈ bs, b.WF) → ∀ n, loadFile c.r (fileCells nl bs ++ zeros n) = .ok (entsOf bs)) ∧
  (∀ (mk : Mk), MkOk mk → ∀ (nl bsz : Nat) (bs : List Block), (∀ b ∈ bs, b.WF) → ∀ (n : Nat) (items : List (Op × Nat)), items ≠ [] →
      recover c ((({ main := some (fileCells nl bs ++ zeros n), temp := none } : Disk).applyAll
          (cWrite c mk { main := some (fileCells nl bs ++ zeros n), temp := none } { w := none, nlName := nl, bs := bsz } items).2).applyAll
          (cSync c mk (cWrite c mk { main := some (fileCells nl bs ++ zeros n), temp := none } { w := none, nlName := nl, bs := bsz } items).1).2) =
        Index.replay (Index.replay [] (entsOf bs)) (items.map (·.1)))

/-- The full-strength statement.  (Histories are chronicler sessions from an empty directory, or
    resumed on a recovered file, without compaction; a crash during the recovery itself — the
    truncate of the repaired open — is covered by the metadata rule of the crash model only.) -/
structure Holds (c : Cfg) : Prop where
  recovers : Recovers c
  maximal : Maximal c
  appendable : Appendable c
  resumes : Resumes c
  zeroTail : ZeroTail c

/-! ### The repaired reader: every crash image recovers -/

theorem afterLoad_of_no_temp (c : Cfg) (img : Disk) (h : img.temp = none) : afterLoad c img = img := by
  simp [afterLoad, loadOps, rmTempOps, h, Disk.applyAll]

/-- crash images of a session, as `Load` sees them -/
theorem session_crash_image (c : Cfg) (nl : Nat) (evs : List Ev) (i j k : Nat)
    (hcp : CrashPoint (sessionOps nl evs) i j) :
    ∃ img, afterLoad c (lossyImageAt {} (sessionOps nl evs) i j k) = img ∧ img.temp = none ∧
      ((img.main = none ∧ sessionDurable nl evs i = []) ∨
       ∃ g, img.main = some g ∧ sessionDurable nl evs i <+: g ∧ g <+: fileCells nl (evBlocks evs)) := by
  obtain ⟨_, hls, hji⟩ := hcp
  have hplain : ∃ j', lossyImageAt {} (sessionOps nl evs) i j k = imageAt {} (sessionOps nl evs) j' k ∧
      lastSyncIdx (sessionOps nl evs) i ≤ j' ∧ j' ≤ i := by
    by_cases h : j < i
    · exact ⟨j, session_lossy_eq nl evs i j k h, hls, hji⟩
    · have : i ≤ j := by omega
      exact ⟨i, by simp [lossyImageAt, this], lastSyncIdx_le _ _, Nat.le_refl _⟩
  obtain ⟨j', hj', h1, h2⟩ := hplain
  have htemp := imageAt_onlyMain_temp (sessionOps nl evs) (sessionOps_onlyMain nl evs) j' k
  refine ⟨_, rfl, ?_, ?_⟩
  · rw [hj', afterLoad_of_no_temp c _ htemp]; exact htemp
  · rw [hj', afterLoad_of_no_temp c _ htemp]
    exact session_image nl evs i j' k h1 h2

theorem syncedFile_session (nl : Nat) (evs : List Ev) (i : Nat) :
    syncedFile (sessionOps nl evs) i =
      if lastSyncIdx (sessionOps nl evs) i = 0 then none else some (sessionDurable nl evs i) := by
  unfold syncedFile
  split
  · rfl
  · rename_i h; exact sessionDurable_is_synced_file nl evs i (by omega)

theorem loadEntries_nil (c : RCfg) : loadEntries c [] = [] := by
  cases hs : c.shortFileIsEmpty <;> simp [loadEntries, loadFile, headerOf, hs]

theorem recover_eq_loadEntries (c : Cfg) (d : Disk) (g : List Cell) (h : d.main = some g) :
    recover c d = Index.replay [] (loadEntries c.r g) := by
  simp only [recover, mainIndex, h, loadEntries]
  cases loadFile c.r g <;> simp [Index.replay]

theorem sessionDurable_shape (nl : Nat) (evs : List Ev) (i : Nat) :
    sessionDurable nl evs i = [] ∨ ∃ t, sessionDurable nl evs i = fileCells nl (evBlocks (evs.take t)) := by
  unfold sessionDurable
  split
  · exact Or.inl rfl
  · rcases durAt_shape evs (fileCells nl []) [] (i - (createOps .main nl).length) with h | ⟨t, h⟩
    · exact Or.inl h
    · exact Or.inr ⟨t, by rw [h]; simp [fileCells, render, List.append_assoc]⟩

/-- what a load of the synced file returns is contained in what a load of the crash image returns -/
theorem durable_entries_prefix (c : Cfg) (hc : GoodR c.r) (nl : Nat) (evs : List Ev)
    (hwf : ∀ b ∈ evBlocks evs, b.WF) (i : Nat) (g : List Cell) (hdg : sessionDurable nl evs i <+: g) (m : Nat)
    (hm : ∀ sb : List Block, sb <+: evBlocks evs → fileCells nl sb <+: g → sb.length ≤ m) :
    syncedEntries c (sessionOps nl evs) i <+: entsOf ((evBlocks evs).take m) := by
  unfold syncedEntries
  rw [syncedFile_session]
  by_cases h0 : lastSyncIdx (sessionOps nl evs) i = 0
  · simp [h0]
  · simp only [h0, if_false]
    rcases sessionDurable_shape nl evs i with h | ⟨t, h⟩
    · rw [h]; simp only [loadEntries_nil]; exact List.nil_prefix
    · rw [h] at hdg ⊢
      have hwft : ∀ b ∈ evBlocks (evs.take t), b.WF :=
        fun b hb => hwf b ((evBlocks_take_prefix evs t).subset hb)
      simp only [loadEntries, loadFile_clean c.r nl _ hwft]
      have hlen := hm _ (evBlocks_take_prefix evs t) hdg
      have e : evBlocks (evs.take t) = (evBlocks evs).take (evBlocks (evs.take t)).length :=
        List.prefix_iff_eq_take.mp (evBlocks_take_prefix evs t)
      rw [e]
      have hp : (evBlocks evs).take (evBlocks (evs.take t)).length <+: (evBlocks evs).take m := by
        have h1 : (evBlocks evs).take (evBlocks (evs.take t)).length =
            ((evBlocks evs).take m).take (evBlocks (evs.take t)).length := by
          rw [List.take_take]; congr 1; omega
        rw [h1]; exact List.take_prefix _ _
      obtain ⟨r, hr⟩ := hp
      rw [← hr, entsOf_append]; exact List.prefix_append _ _

/-- what the session invariant gives for any run that satisfies it: every crash image recovers to
    a flush boundary no older than the last completed fsync -/
theorem recover_of_inv (c : Cfg) (hc : GoodR c.r) (mk : Mk) (nl bs : Nat) (r : Run) (wr : List Op)
    (hinv : RInv mk nl bs r wr) (i j k : Nat) (hcp : CrashPoint r.ops i j) :
    ∃ es, es <+: wr ∧ syncedEntries c r.ops i <+: es ∧
      recover c (afterLoad c (lossyImageAt {} r.ops i j k)) = Index.replay [] es := by
  rcases hinv.shape with ⟨hops, _, _, _⟩ | ⟨evs, hst⟩
  · -- nothing was ever written
    rw [hops] at hcp ⊢
    refine ⟨[], List.nil_prefix, ?_, ?_⟩
    · simp [syncedEntries, syncedFile, lastSyncIdx_nil]
    · obtain ⟨hi, _, _⟩ := hcp
      have : i = 0 := by simpa using hi
      subst this
      simp [lossyImageAt, imageAt, Disk.applyAll, afterLoad, loadOps, rmTempOps, recover, mainIndex, Index.replay]
  · have hops : r.ops = sessionOps nl evs := hst.ops
    rw [hops] at hcp ⊢
    -- the flushed blocks hold a prefix of what was written
    have hwr : entsOf (evBlocks evs) <+: wr := by
      have := hst.writer
      split at this
      · rw [this]; exact List.prefix_refl _
      · obtain ⟨_, _, h, _⟩ := this; rw [← h]; exact List.prefix_append _ _
    obtain ⟨img, himg, _, hshape⟩ := session_crash_image c nl evs i j k hcp
    rw [himg]
    rcases hshape with ⟨hnone, hdur⟩ | ⟨g, hg, hdg, hgf⟩
    · refine ⟨[], List.nil_prefix, ?_, by simp [recover, mainIndex, hnone, Index.replay]⟩
      have := durable_entries_prefix c hc nl evs hst.wf i [] (by rw [hdur]; exact List.prefix_refl _) 0 (by
        intro sb _ hp
        have := hp.length_le
        simp [fileCells] at this)
      simpa [entsOf] using this
    · obtain ⟨m, hm, hload, hmax⟩ := loadFile_prefix_good c.r hc nl (evBlocks evs) hst.wf g hgf
      refine ⟨entsOf ((evBlocks evs).take m), ?_, durable_entries_prefix c hc nl evs hst.wf i g hdg m hmax, ?_⟩
      · have : (evBlocks evs).take m <+: evBlocks evs := List.take_prefix _ _
        obtain ⟨r, hr⟩ := this
        refine List.IsPrefix.trans ?_ hwr
        conv => rhs; rw [← hr, entsOf_append]
        exact List.prefix_append _ _
      · rw [recover_eq_loadEntries c _ g hg, hload]

/-- **Every crash image recovers (repaired reader).**  With a reader that treats a torn tail
    (short block header, short payload, short file header) as the end of the data, for every
    history and every crash point the load returns the entries of a prefix of the flushed blocks
    — a flush boundary — that is no older than the last completed fsync. -/
theorem recover_total_prefix (c : Cfg) (hc : GoodR c.r) : Recovers c := by
  intro mk hmk nl bs acts i j k hcp
  exact recover_of_inv c hc mk nl bs _ _ (run_inv c mk hmk nl bs acts) i j k hcp

/-- every whole block contained in the image is loaded (repaired reader) -/
theorem recover_maximal (c : Cfg) (hc : GoodR c.r) : Maximal c := by
  intro mk hmk nl bs acts i j k hcp
  have hinv := run_inv c mk hmk nl bs acts
  rcases hinv.shape with ⟨_, hd, _, _⟩ | ⟨evs, hst⟩
  · left; rw [hd]
  · right
    refine ⟨evBlocks evs, by rw [hst.disk], ?_⟩
    have hops : (runActs c mk nl bs acts).ops = sessionOps nl evs := hst.ops
    rw [hops] at hcp ⊢
    obtain ⟨img, himg, _, hshape⟩ := session_crash_image c nl evs i j k hcp
    rw [himg]
    intro g hg sb hsb hpre
    rcases hshape with ⟨hnone, _⟩ | ⟨g', hg', _, hgf⟩
    · rw [hnone] at hg; cases hg
    · rw [hg'] at hg; cases hg
      obtain ⟨m, hm, hload, hmax⟩ := loadFile_prefix_good c.r hc nl (evBlocks evs) hst.wf g hgf
      refine ⟨entsOf ((evBlocks evs).take m), by rw [recover_eq_loadEntries c _ g hg', hload], ?_⟩
      have hlen := hmax sb hsb hpre
      have e : sb = (evBlocks evs).take sb.length := List.prefix_iff_eq_take.mp hsb
      rw [e]
      have hp : (evBlocks evs).take sb.length <+: (evBlocks evs).take m := by
        have h1 : (evBlocks evs).take sb.length = ((evBlocks evs).take m).take sb.length := by
          rw [List.take_take]; congr 1; omega
        rw [h1]; exact List.take_prefix _ _
      obtain ⟨r, hr⟩ := hp
      rw [← hr, entsOf_append]; exact List.prefix_append _ _

/-- **Writes after a recovery are recoverable (repaired reader and repaired open).**  With an
    `openExistingFile` that cuts a torn tail (and recreates a file whose header never made it to
    disk), a fresh chronicler can write and sync on every crash image, and the next load returns
    the recovered records plus the new ones. -/
theorem append_after_recovery (c : Cfg) (hc : GoodR c.r) (ht : c.truncatesTornTail = true) : Appendable c := by
  intro mk hmk nl bs acts i j k hcp items hne
  have hinv := run_inv c mk hmk nl bs acts
  -- the image `Load` sees: no temp, main file missing or a prefix of a clean file
  have himg : ∃ blocks : List Block, (∀ b ∈ blocks, b.WF) ∧
      (afterLoad c (lossyImageAt {} (runActs c mk nl bs acts).ops i j k)).temp = none ∧
      ((afterLoad c (lossyImageAt {} (runActs c mk nl bs acts).ops i j k)).main = none ∨
        ∃ g, (afterLoad c (lossyImageAt {} (runActs c mk nl bs acts).ops i j k)).main = some g ∧
          g <+: fileCells nl blocks) := by
    rcases hinv.shape with ⟨hops, _, _, _⟩ | ⟨evs, hst⟩
    · rw [hops] at hcp ⊢
      obtain ⟨hi, _, _⟩ := hcp
      have : i = 0 := by simpa using hi
      subst this
      exact ⟨[], by simp, by simp [lossyImageAt, imageAt, Disk.applyAll, afterLoad, loadOps, rmTempOps],
        Or.inl (by simp [lossyImageAt, imageAt, Disk.applyAll, afterLoad, loadOps, rmTempOps])⟩
    · have hops : (runActs c mk nl bs acts).ops = sessionOps nl evs := hst.ops
      rw [hops] at hcp ⊢
      obtain ⟨img, himg, htemp, hshape⟩ := session_crash_image c nl evs i j k hcp
      rw [himg]
      refine ⟨evBlocks evs, hst.wf, htemp, ?_⟩
      rcases hshape with ⟨h, _⟩ | ⟨g, hg, _, hgf⟩
      · exact Or.inl h
      · exact Or.inr ⟨g, hg, hgf⟩
  obtain ⟨blocks, hwf, htemp, hmain⟩ := himg
  generalize afterLoad c (lossyImageAt {} (runActs c mk nl bs acts).ops i j k) = d at htemp hmain ⊢
  obtain ⟨bs0, w, o, hopen, hwinv, hp, hbuf, hwf0, hrec⟩ := open_repaired c hc ht nl bs blocks hwf d htemp hmain
  have hemp : items.isEmpty = false := by cases items <;> simp_all
  obtain ⟨a, ha, pa⟩ := addManyW_spec mk hmk items (d.applyAll o) w (fileCells nl bs0) hwinv (by rw [hbuf]; exact maxEnts_pos)
  obtain ⟨nbs, hn, hnwf, hget⟩ := syncW_spec c mk hmk _ _ _ pa.inv (Nat.le_of_lt pa.cnt)
  have hpath : (addManyW mk w items).1.path = .main := by rw [pa.path, hp]
  rw [hpath] at hget
  simp only [cWrite, hemp, ensureW, hopen, cSync, Bool.false_eq_true, if_false]
  rw [Disk.applyAll_append]
  have hfin : (((d.applyAll o).applyAll (addManyW mk w items).2).applyAll (syncW c mk (addManyW mk w items).1).2).main =
      some (fileCells nl (bs0 ++ a ++ nbs)) := by
    simp only [Disk.get] at hget
    rw [hget]; simp [fileCells, render_append, List.append_assoc]
  have hall : ∀ b ∈ bs0 ++ a ++ nbs, b.WF := by
    intro b hb
    rcases List.mem_append.mp hb with hb | hb
    · rcases List.mem_append.mp hb with hb | hb
      · exact hwf0 b hb
      · exact pa.wf b hb
    · exact hnwf b hb
  simp only [recover, mainIndex, hfin, loadFile_clean c.r nl _ hall]
  rw [entsOf_append, entsOf_append, List.append_assoc, hn, ha, hbuf, List.nil_append, Index.replay_append]
  simp only [recover] at hrec
  rw [← hrec]
  rfl

/-! ### Histories that go on after a recovery (or a Load): a second crash -/

/-- what is durable only grows -/
theorem durAt_mono (evs : List Ev) : ∀ (f D : List Cell) (i : Nat), D <+: f → D <+: durAt evs f D i := by
  induction evs with
  | nil => intro f D i _; exact List.prefix_refl _
  | cons e r ih =>
    intro f D i h
    cases e with
    | sync =>
      simp only [durAt]
      split
      · exact List.prefix_refl _
      · exact h.trans (ih f f (i - 1) (List.prefix_refl _))
    | hdr =>
      simp only [durAt]
      split
      · exact List.prefix_refl _
      · exact ih f D (i - 1) h
    | blk b =>
      simp only [durAt]
      split
      · exact List.prefix_refl _
      · exact ih (f ++ blockCells b) D (i - 3) (h.trans (List.prefix_append _ _))

/-- once the fsync behind the blocks `bs0` has completed, they are durable -/
theorem durAt_blks_sync (bs0 : List Block) (t : List Ev) : ∀ (f D : List Cell) (i : Nat), 3 * bs0.length + 1 ≤ i →
    f ++ render bs0 <+: durAt (bs0.map Ev.blk ++ ([Ev.sync] ++ t)) f D i := by
  induction bs0 with
  | nil =>
    intro f D i hi
    simp only [List.map_nil, List.nil_append, List.cons_append, durAt, render, List.flatMap_nil, List.append_nil]
    rw [if_neg (by omega)]
    exact durAt_mono t f f (i - 1) (List.prefix_refl _)
  | cons b r ih =>
    intro f D i hi
    simp only [List.map_cons, List.cons_append, durAt]
    rw [if_neg (by simp only [List.length_cons] at hi; omega)]
    have := ih (f ++ blockCells b) D (i - 3) (by simp only [List.length_cons] at hi; omega)
    simpa [render, List.append_assoc] using this

theorem evBlocks_blks (bs0 : List Block) (t : List Ev) : evBlocks (bs0.map Ev.blk ++ t) = bs0 ++ evBlocks t := by
  induction bs0 with
  | nil => rfl
  | cons b r ih => simp [evBlocks, ih]

theorem evOps_blks_length (nl : Nat) (bs0 : List Block) (t : List Ev) : ∀ L,
    (evOps nl L (bs0.map Ev.blk ++ t)).length = 3 * bs0.length + (evOps nl (L + (render bs0).length) t).length := by
  induction bs0 with
  | nil => intro L; simp [render]
  | cons b r ih =>
    intro L
    simp only [List.map_cons, List.cons_append, evOps, List.length_cons, ih]
    have : L + 16 + b.plen + (render r).length = L + (render (b :: r)).length := by
      simp [render]; omega
    rw [this]; omega

theorem resumed_started (mk : Mk) (nl bs : Nat) (bs0 : List Block) (hwf : ∀ b ∈ bs0, b.WF) :
    Started mk nl bs (resumedRun nl bs bs0) (entsOf bs0) (bs0.map Ev.blk ++ ([Ev.sync] ++ [])) := by
  refine ⟨rfl, ?_, ?_, ?_⟩
  · simp [resumedRun, evBlocks_blks, evBlocks]
  · intro b hb; rw [evBlocks_blks] at hb; simp [evBlocks] at hb; exact hwf b hb
  · show entsOf (evBlocks (bs0.map Ev.blk ++ ([Ev.sync] ++ []))) = entsOf bs0
    rw [evBlocks_blks]; simp [evBlocks]

/-- **A second crash loses nothing the first recovery returned.**  A chronicler resumes on the
    file a recovery left behind (blocks `bs0`), runs any acts, and crashes again at any point of
    the resumed session (in-flight operation torn anywhere, any suffix of the writes since the last
    fsync lost): the next load returns a prefix of `recovered ++ written` that contains everything
    recovered before and everything synced since. -/
theorem second_crash_recovers (c : Cfg) (hc : GoodR c.r) (mk : Mk) (hmk : MkOk mk) (nl bs : Nat) (bs0 : List Block)
    (hwf : ∀ b ∈ bs0, b.WF) (acts : List Act) (i j k : Nat)
    (hcp : CrashPoint (acts.foldl (Run.step c mk) (resumedRun nl bs bs0)).ops i j)
    (hi : (resumedRun nl bs bs0).ops.length ≤ i) :
    ∃ es, es <+: entsOf bs0 ++ written acts ∧ entsOf bs0 <+: es ∧
      syncedEntries c (acts.foldl (Run.step c mk) (resumedRun nl bs bs0)).ops i <+: es ∧
      recover c (afterLoad c (lossyImageAt {} (acts.foldl (Run.step c mk) (resumedRun nl bs bs0)).ops i j k)) =
        Index.replay [] es := by
  obtain ⟨e2, hst⟩ := run_started c mk hmk nl bs acts _ _ _ rfl (resumed_started mk nl bs bs0 hwf)
  have hops := hst.ops
  rw [show createOps Path.main nl ++ evOps nl (64 + nl) (bs0.map Ev.blk ++ ([Ev.sync] ++ []) ++ e2) =
      sessionOps nl (bs0.map Ev.blk ++ ([Ev.sync] ++ e2)) by simp [sessionOps, List.append_assoc]] at hops
  have hblocks : evBlocks (bs0.map Ev.blk ++ ([Ev.sync] ++ []) ++ e2) = bs0 ++ evBlocks e2 := by
    rw [List.append_assoc, evBlocks_blks]; simp [evBlocks]
  have hwfall : ∀ b ∈ bs0 ++ evBlocks e2, b.WF := by rw [← hblocks]; exact hst.wf
  have hblocks' : evBlocks (bs0.map Ev.blk ++ ([Ev.sync] ++ e2)) = bs0 ++ evBlocks e2 := by
    rw [evBlocks_blks]; simp [evBlocks]
  rw [hops] at hcp ⊢
  -- the flushed blocks hold a prefix of what was written
  have hwr : entsOf (bs0 ++ evBlocks e2) <+: entsOf bs0 ++ written acts := by
    have := hst.writer
    rw [hblocks] at this
    split at this
    · rw [this]; exact List.prefix_refl _
    · obtain ⟨_, _, h, _⟩ := this; rw [← h]; exact List.prefix_append _ _
  -- the recovered file is durable throughout the resumed session
  have hlen0 : (resumedRun nl bs bs0).ops.length = (createOps .main nl).length + (3 * bs0.length + 1) := by
    simp only [resumedRun, sessionOps, List.length_append, evOps_blks_length]
    simp [evOps]
  have hbase : fileCells nl bs0 <+: sessionDurable nl (bs0.map Ev.blk ++ ([Ev.sync] ++ e2)) i := by
    unfold sessionDurable
    rw [if_neg (by omega)]
    have := durAt_blks_sync bs0 e2 (fileCells nl []) [] (i - (createOps .main nl).length) (by omega)
    simpa [fileCells, render, List.append_assoc] using this
  obtain ⟨img, himg, _, hshape⟩ := session_crash_image c nl _ i j k hcp
  rw [himg]
  have hwf' : ∀ b ∈ evBlocks (bs0.map Ev.blk ++ ([Ev.sync] ++ e2)), b.WF := by rw [hblocks']; exact hwfall
  rcases hshape with ⟨_, hdur⟩ | ⟨g, hg, hdg, hgf⟩
  · rw [hdur] at hbase
    have := hbase.length_le
    simp [fileCells] at this
  · obtain ⟨m, hm, hload, hmax⟩ := loadFile_prefix_good c.r hc nl _ hwf' g hgf
    have hsyn := durable_entries_prefix c hc nl _ hwf' i g hdg m hmax
    rw [hblocks'] at hload hmax hsyn hm
    refine ⟨entsOf ((bs0 ++ evBlocks e2).take m), ?_, ?_, hsyn, ?_⟩
    · have : (bs0 ++ evBlocks e2).take m <+: bs0 ++ evBlocks e2 := List.take_prefix _ _
      obtain ⟨r, hr⟩ := this
      refine List.IsPrefix.trans ?_ hwr
      conv => rhs; rw [← hr, entsOf_append]
      exact List.prefix_append _ _
    · have hl := hmax bs0 (List.prefix_append _ _) (hbase.trans hdg)
      have e : bs0 = (bs0 ++ evBlocks e2).take bs0.length := by simp
      have hp : (bs0 ++ evBlocks e2).take bs0.length <+: (bs0 ++ evBlocks e2).take m := by
        have h1 : (bs0 ++ evBlocks e2).take bs0.length = ((bs0 ++ evBlocks e2).take m).take bs0.length := by
          rw [List.take_take]; congr 1; omega
        rw [h1]; exact List.take_prefix _ _
      obtain ⟨r, hr⟩ := hp
      rw [← hr, entsOf_append, ← e]; exact List.prefix_append _ _
    · rw [recover_eq_loadEntries c _ g hg, hload]

/-- the repaired open on `clean file ++ zeros`: the zeros are cut, the writer sits at the clean end -/
theorem open_zero_tail (c : Cfg) (ht : c.truncatesTornTail = true) (nl bsz : Nat) (bs : List Block) (hwf : ∀ b ∈ bs, b.WF)
    (n : Nat) :
    ∃ w o, openWriter c { main := some (fileCells nl bs ++ zeros n), temp := none } .main nl bsz = some (w, o) ∧
      WInv (({ main := some (fileCells nl bs ++ zeros n), temp := none } : Disk).applyAll o) w (fileCells nl bs) ∧
      w.path = .main ∧ w.buf = [] := by
  have hh : headerOf (fileCells nl bs ++ zeros n) = some nl := by
    simp only [fileCells, List.append_assoc]; exact headerOf_file nl _
  have hv := validLen_zero_tail nl bs hwf n
  have htb : tailHoldsBlock ((fileCells nl bs ++ zeros n).drop (fileCells nl bs).length) = false := by
    rw [List.drop_left']
    · unfold tailHoldsBlock
      rw [List.any_eq_false]
      intro i hi
      by_cases h1 : i ≥ 1
      · have : ((zeros n).drop i).head? = some Cell.zero ∨ ((zeros n).drop i).head? = none := by
          rw [List.head?_drop]
          by_cases hin : i < n
          · left; simp [zeros, List.getElem?_replicate, hin]
          · right; apply List.getElem?_eq_none; simp [zeros]; omega
        rcases this with h | h <;> simp [h]
      · simp [h1]
    · rfl
  refine ⟨{ path := .main, pos := (fileCells nl bs).length, nl := nl, buf := [], bufSize := 0, bs := bsz },
    (if (fileCells nl bs).length < (fileCells nl bs ++ zeros n).length then [.truncate .main (fileCells nl bs).length] else []),
    ?_, ?_, rfl, rfl⟩
  · have htb' : tailHoldsBlock (zeros n) = false := by
      have e : (fileCells nl bs ++ zeros n).drop (fileCells nl bs).length = zeros n := List.drop_left' rfl
      rw [e] at htb; exact htb
    simp [openWriter, Disk.get, hh, ht, hv, htb']
  · refine ⟨?_, rfl, fileCells_hdr nl bs⟩
    split
    · simp only [Disk.applyAll_cons, Disk.applyAll_nil, Disk.apply, Disk.get, Disk.set]
      rw [List.take_left']
      · simp
      · rfl
    · rename_i hge
      have hn : n = 0 := by simp [zeros] at hge; omega
      subst hn
      simp [Disk.applyAll_nil, Disk.get, zeros]

/-- **Repaired reader and open: a zero-filled tail is harmless.** -/
theorem zero_tail_of_repaired (c : Cfg) (hc : GoodR c.r) (hz : c.r.zeroTailIsEOF = true) (ht : c.truncatesTornTail = true) :
    ZeroTail c := by
  refine ⟨fun nl bs hwf n => loadFile_zero_tail c.r hc.1 hz nl bs hwf n, ?_⟩
  intro mk hmk nl bsz bs hwf n items hne
  obtain ⟨w, o, hopen, hwinv, hp, hbuf⟩ := open_zero_tail c ht nl bsz bs hwf n
  have hemp : items.isEmpty = false := by cases items <;> simp_all
  obtain ⟨a, ha, pa⟩ := addManyW_spec mk hmk items _ w (fileCells nl bs) hwinv (by rw [hbuf]; exact maxEnts_pos)
  obtain ⟨nbs, hn, hnwf, hget⟩ := syncW_spec c mk hmk _ _ _ pa.inv (Nat.le_of_lt pa.cnt)
  have hpath : (addManyW mk w items).1.path = .main := by rw [pa.path, hp]
  rw [hpath] at hget
  simp only [cWrite, hemp, ensureW, hopen, cSync, Bool.false_eq_true, if_false]
  rw [Disk.applyAll_append]
  have hfin : (((({ main := some (fileCells nl bs ++ zeros n), temp := none } : Disk).applyAll o).applyAll (addManyW mk w items).2).applyAll
      (syncW c mk (addManyW mk w items).1).2).main = some (fileCells nl (bs ++ a ++ nbs)) := by
    simp only [Disk.get] at hget
    rw [hget]; simp [fileCells, render_append, List.append_assoc]
  have hall : ∀ b ∈ bs ++ a ++ nbs, b.WF := by
    intro b hb
    rcases List.mem_append.mp hb with hb | hb
    · rcases List.mem_append.mp hb with hb | hb
      · exact hwf b hb
      · exact pa.wf b hb
    · exact hnwf b hb
  simp only [recover, mainIndex, hfin, loadFile_clean c.r nl _ hall]
  rw [entsOf_append, entsOf_append, List.append_assoc, hn, ha, hbuf, List.nil_append, Index.replay_append]
  rfl

/-- **The zero-filled tail wipes the swamp** for a reader that takes the zero header for a block:
    a synced file followed by 16 zero bytes does not load. -/
theorem zero_tail_wipes_swamp (c : Cfg) (hz : c.r.zeroTailIsEOF = false) : ¬ ZeroTail c := by
  intro h
  have h1 := h.1 0 [] (by simp) 16
  rw [loadFile_zero_tail_error c.r hz 0 [] (by simp) 16 (Nat.le_refl _)] at h1
  cases h1

/-- C02 holds for the repaired reader and the repaired open. -/
theorem holds_of_repaired (c : Cfg) (hc : GoodR c.r) (ht : c.truncatesTornTail = true) (hz : c.r.zeroTailIsEOF = true) : Holds c :=
  ⟨recover_total_prefix c hc, recover_maximal c hc, append_after_recovery c hc ht,
   fun mk hmk nl bs bs0 hwf acts i j k hcp hi => second_crash_recovers c hc mk hmk nl bs bs0 hwf acts i j k hcp hi,
   zero_tail_of_repaired c hc hz ht⟩

/-! ### The code as it is: closed witnesses -/

/-- encoder of the witnesses: two payload bytes per block -/
def mk2 : Mk := mkP 2

theorem mk2_ok : MkOk mk2 := mkP_ok 2 (by decide)

theorem mk2_wf (es : List Op) (h : es ≠ []) (hl : es.length ≤ maxEnts) : (mk2 es).WF := (mk2_ok es h hl).1

/-- **A torn payload is a load error** (for any reader that does not map the short read to EOF):
    whole blocks followed by a block cut inside its payload do not load at all. -/
theorem torn_block_load_error (c : RCfg) (h : c.tornDataIsEOF = false) (nl : Nat) (bs : List Block)
    (hwf : ∀ b ∈ bs, b.WF) (b : Block) (hb : b.WF) (r : Nat) (h1 : 16 < r) (h2 : r < 16 + b.plen) :
    loadFile c (fileCells nl bs ++ (blockCells b).take r) = .errLoad := by
  rw [loadFile_base_tail c nl bs hwf b hb r h2]
  have : tailStop r = .torn := by
    unfold tailStop
    have a : ¬ r = 0 := by omega
    have b' : ¬ r < 16 := by omega
    have c' : ¬ r = 16 := by omega
    simp [a, b', c']
  simp [this, stopOk, h]

/-- … and with the current `Load` (any error ⇒ return) the swamp then comes back empty although
    a block had been synced.  History: write k1 (flushed), Sync, write k2 (flushed); crash one
    byte into the payload of the second block. -/
theorem not_recovers_of_torn_error (c : Cfg) (h : c.r.tornDataIsEOF = false) (hs : c.syncFsyncs = true) :
    ¬ Recovers c := by
  intro hr
  let b1 := mk2 [Op.put 1 1]
  let b2 := mk2 [Op.put 2 2]
  let acts : List Act := [.w [(Op.put 1 1, 200)], .sync, .w [(Op.put 2 2, 200)]]
  have hops : (runActs c mk2 0 100 acts).ops = sessionOps 0 [.blk b1, .hdr, .sync, .blk b2] := by
    simp [acts, runActs, Run.step, cWrite, cSync, ensureW, openWriter, Disk.get, addManyW, addW, flushW, syncW,
      createOps, hs, mk2, mkP, WSt.push, WSt.full, maxEnts, Disk.applyAll, Disk.apply, Disk.set, splice, List.drop_of_length_le, sessionOps, evOps, b1, b2]
  have hwf1 : ∀ b ∈ [b1], b.WF := by intro b hb; simp at hb; subst hb; exact mk2_wf _ (by simp) (by decide)
  have hexp : sessionOps 0 [.blk b1, .hdr, .sync, .blk b2] =
      sessionOps 0 [.blk b1, .hdr, .sync] ++
        [.write .main 82 (hdrCells b2), .write .main 98 (payCells b2), .write .main 0 (fhCells 0)] := by
    simp [sessionOps, evOps, createOps, b1, mk2, mkP]
  have hlen7 : (sessionOps 0 [.blk b1, .hdr, .sync]).length = 7 := by simp [sessionOps, evOps, createOps]
  have hls : lastSyncIdx (sessionOps 0 [.blk b1, .hdr, .sync, .blk b2]) 8 = 7 := by
    simp [sessionOps, evOps, createOps, lastSyncIdx, FsOp.isSync]
  obtain ⟨es, hpre, hsyn, hrec⟩ := hr mk2 mk2_ok 0 100 acts 8 8 1 (by
    rw [hops]; exact ⟨by simp [sessionOps, evOps, createOps], by rw [hls]; omega, by omega⟩)
  rw [hops] at hsyn hrec
  -- what was synced: the first block
  have hsf : syncedFile (sessionOps 0 [.blk b1, .hdr, .sync, .blk b2]) 8 = some (fileCells 0 [b1]) := by
    simp only [syncedFile, hls]
    rw [hexp, List.take_left' hlen7, applyAll_sessionOps]
    simp [evBlocks]
  have hse : syncedEntries c (sessionOps 0 [.blk b1, .hdr, .sync, .blk b2]) 8 = [Op.put 1 1] := by
    simp only [syncedEntries, hsf, loadEntries, loadFile_clean c.r 0 [b1] hwf1]
    simp [entsOf, b1, mk2, mkP]
  rw [hse] at hsyn
  -- the image: first block whole, second cut one byte into its payload
  have himg : (afterLoad c (lossyImageAt {} (sessionOps 0 [.blk b1, .hdr, .sync, .blk b2]) 8 8 1)).main =
      some (fileCells 0 [b1] ++ (blockCells b2).take 17) := by
    have h17 : (blockCells b2).take 17 = hdrCells b2 ++ (payCells b2).take 1 := by
      rw [take_blockCells_ge _ 17 (by omega)]
    have htake : (sessionOps 0 [.blk b1, .hdr, .sync, .blk b2]).take 8 =
        sessionOps 0 [.blk b1, .hdr, .sync] ++ [.write .main 82 (hdrCells b2)] := by
      rw [hexp, List.take_append, hlen7]
      simp [List.take_of_length_le, hlen7]
    have hget : (sessionOps 0 [.blk b1, .hdr, .sync, .blk b2])[8]? = some (.write .main 98 (payCells b2)) := by
      rw [hexp, List.getElem?_append_right (by omega), hlen7]; rfl
    have hfl : (fileCells 0 [b1]).length = 82 := by simp [fileCells, render, nmCells, b1, mk2, mkP]
    have htemp : (lossyImageAt {} (sessionOps 0 [.blk b1, .hdr, .sync, .blk b2]) 8 8 1).temp = none := by
      simp only [lossyImageAt, Nat.le_refl, if_true]
      exact imageAt_onlyMain_temp _ (sessionOps_onlyMain _ _) 8 1
    rw [afterLoad_of_no_temp c _ htemp]
    have d7 : ({} : Disk).applyAll (sessionOps 0 [.blk b1, .hdr, .sync]) =
        { main := some (fileCells 0 [b1]), temp := none } := by
      rw [applyAll_sessionOps]; simp [evBlocks]
    have d8 : ({ main := some (fileCells 0 [b1]), temp := none } : Disk).apply (.write .main 82 (hdrCells b2)) =
        { main := some (fileCells 0 [b1] ++ hdrCells b2), temp := none } := by
      rw [apply_write_main _ (fileCells 0 [b1]) rfl, ← hfl, splice_end]
    have d9 : ({ main := some (fileCells 0 [b1] ++ hdrCells b2), temp := none } : Disk).apply
          (.write .main 98 ((payCells b2).take 1)) =
        { main := some (fileCells 0 [b1] ++ hdrCells b2 ++ (payCells b2).take 1), temp := none } := by
      have h98 : 98 = (fileCells 0 [b1] ++ hdrCells b2).length := by simp [hfl]
      rw [apply_write_main _ (fileCells 0 [b1] ++ hdrCells b2) rfl, h98, splice_end]
    simp only [lossyImageAt, Nat.le_refl, if_true, imageAt, hget, htake, Disk.applyAll_append, d7,
      Disk.applyAll_cons, Disk.applyAll_nil, Disk.applyTorn, d8, d9, h17, List.append_assoc]
  have hload := torn_block_load_error c.r h 0 [b1] hwf1 b2 (mk2_wf _ (by simp) (by decide)) 17 (by omega) (by show 17 < 16 + 2; omega)
  have hrec0 : recover c (afterLoad c (lossyImageAt {} (sessionOps 0 [.blk b1, .hdr, .sync, .blk b2]) 8 8 1)) = [] := by
    simp [recover, mainIndex, himg, hload]
  rw [hrec0] at hrec
  -- es starts with `put 1 1` and has at most one more put: its replay is not empty
  obtain ⟨r, hr'⟩ := hsyn
  subst hr'
  have hw : written acts = [Op.put 1 1, Op.put 2 2] := by simp [acts, written]
  rw [hw] at hpre
  have : r = [] ∨ r = [Op.put 2 2] := by
    have h2 : r <+: [Op.put 2 2] := by simpa using hpre
    rcases r with _ | ⟨x, t⟩
    · exact Or.inl rfl
    · right
      obtain ⟨u, hu⟩ := h2
      simp at hu
      obtain ⟨rfl, ht, _⟩ := hu
      simp [ht]
  rcases this with rfl | rfl <;> simp [Index.replay, Index.apply, Index.put, Index.del] at hrec

/-- **A crash while the file is being created bricks the swamp.**  The header of a new file is
    not synced; a crash image with a partial header cannot be opened by `openExistingFile`, the
    file exists, so `ensureWriter` never recreates it: every later `Write` is dropped. -/
theorem torn_create_bricks (c : Cfg) (ht : c.truncatesTornTail = false) : ¬ Appendable c := by
  intro ha
  let acts : List Act := [.w [(Op.put 1 1, 10)]]
  have hops : (runActs c mk2 0 100 acts).ops = sessionOps 0 [] := by
    simp [acts, runActs, Run.step, cWrite, ensureW, openWriter, Disk.get, addManyW, addW, createOps, sessionOps, evOps,
      WSt.push, WSt.full, maxEnts]
  have h := ha mk2 mk2_ok 0 100 acts 1 1 10 (by
    rw [hops]; exact ⟨by simp [sessionOps, evOps, createOps], by simp [lastSyncIdx, sessionOps, createOps, evOps, FsOp.isSync], by omega⟩)
    [(Op.put 3 3, 10)] (by simp)
  rw [hops] at h
  have himg : afterLoad c (lossyImageAt {} (sessionOps 0 []) 1 1 10) =
      { main := some ((fhCells 0).take 10), temp := none } := by
    simp [afterLoad, loadOps, rmTempOps, lossyImageAt, imageAt, sessionOps, createOps, evOps, Disk.applyAll,
      Disk.applyTorn, Disk.apply, Disk.set, Disk.get, splice]
  have hshort : ((fhCells 0).take 10).length < 64 := by simp
  have hopen : openWriter c { main := some ((fhCells 0).take 10), temp := none } .main 0 100 = none := by
    simp [openWriter, Disk.get, headerOf_short _ hshort, ht]
  have hrec : recover c { main := some ((fhCells 0).take 10), temp := none } = [] := by
    rw [recover_eq_loadEntries c _ _ rfl]
    cases hs : c.r.shortFileIsEmpty <;> simp [loadEntries, loadFile, headerOf_short _ hshort, hs, Index.replay]
  simp only [himg, cWrite, ensureW, hopen, cSync] at h
  have h' : recover c { main := some ((fhCells 0).take 10), temp := none } =
      Index.replay (recover c { main := some ((fhCells 0).take 10), temp := none }) [Op.put 3 3] := h
  rw [hrec] at h'
  simp [Index.replay, Index.apply, Index.put, Index.del] at h'

/-- **Appending behind a torn tail strands the new blocks.**  `openExistingFile` seeks to the
    end without truncating; after a crash inside a block's payload the new block lands behind
    the fragment and the reader never reaches it — whatever it does with the short read. -/
theorem append_after_torn_tail_strands (c : Cfg) (ht : c.truncatesTornTail = false) : ¬ Appendable c := by
  intro ha
  let b1 := mk2 [Op.put 1 1]
  let acts : List Act := [.w [(Op.put 1 1, 200)]]
  have hops : (runActs c mk2 0 100 acts).ops = sessionOps 0 [.blk b1] := by
    simp [acts, runActs, Run.step, cWrite, ensureW, openWriter, Disk.get, addManyW, addW, flushW, createOps,
      sessionOps, evOps, mk2, mkP, WSt.push, WSt.full, maxEnts, b1]
  have h := ha mk2 mk2_ok 0 100 acts 3 3 1 (by
    rw [hops]; exact ⟨by simp [sessionOps, evOps, createOps], by simp [lastSyncIdx, sessionOps, createOps, evOps, FsOp.isSync], by omega⟩)
    [(Op.put 3 3, 200)] (by simp)
  rw [hops] at h
  -- the image: header, then the block cut one byte into its payload
  let g := fileCells 0 [] ++ (blockCells b1).take 17
  have himg : afterLoad c (lossyImageAt {} (sessionOps 0 [.blk b1]) 3 3 1) = { main := some g, temp := none } := by
    have hexp : sessionOps 0 [.blk b1] = sessionOps 0 [] ++
        [.write .main 64 (hdrCells b1), .write .main 80 (payCells b1), .write .main 0 (fhCells 0)] := by
      simp [sessionOps, evOps, createOps]
    have hlen2 : (sessionOps 0 []).length = 2 := by simp [sessionOps, evOps, createOps]
    have htake : (sessionOps 0 [.blk b1]).take 3 = sessionOps 0 [] ++ [.write .main 64 (hdrCells b1)] := by
      rw [hexp, List.take_append, hlen2]; simp [List.take_of_length_le, hlen2]
    have hget : (sessionOps 0 [.blk b1])[3]? = some (.write .main 80 (payCells b1)) := by
      rw [hexp, List.getElem?_append_right (by omega), hlen2]; rfl
    have hfl : (fileCells 0 []).length = 64 := by simp [fileCells, render, nmCells]
    have d2 : ({} : Disk).applyAll (sessionOps 0 []) = { main := some (fileCells 0 []), temp := none } := by
      rw [applyAll_sessionOps]; simp [evBlocks]
    have d3 : ({ main := some (fileCells 0 []), temp := none } : Disk).apply (.write .main 64 (hdrCells b1)) =
        { main := some (fileCells 0 [] ++ hdrCells b1), temp := none } := by
      rw [apply_write_main _ (fileCells 0 []) rfl, ← hfl, splice_end]
    have d4 : ({ main := some (fileCells 0 [] ++ hdrCells b1), temp := none } : Disk).apply
          (.write .main 80 ((payCells b1).take 1)) =
        { main := some (fileCells 0 [] ++ hdrCells b1 ++ (payCells b1).take 1), temp := none } := by
      have h80 : 80 = (fileCells 0 [] ++ hdrCells b1).length := by simp [hfl]
      rw [apply_write_main _ (fileCells 0 [] ++ hdrCells b1) rfl, h80, splice_end]
    have h17 : (blockCells b1).take 17 = hdrCells b1 ++ (payCells b1).take 1 := by
      rw [take_blockCells_ge _ 17 (by omega)]
    have himg0 : lossyImageAt {} (sessionOps 0 [.blk b1]) 3 3 1 = { main := some g, temp := none } := by
      simp only [lossyImageAt, Nat.le_refl, if_true, imageAt, hget, htake, Disk.applyAll_append, d2,
        Disk.applyAll_cons, Disk.applyAll_nil, Disk.applyTorn, d3, d4, g, h17, List.append_assoc]
    rw [himg0, afterLoad_of_no_temp c _ rfl]
  -- the non-truncating open puts the writer at the end of the image
  have hhdr : HdrOk g 0 := by
    show HdrOk (fileCells 0 [] ++ (blockCells b1).take 17) 0
    exact (fileCells_hdr 0 []).append _
  have hopen : openWriter c { main := some g, temp := none } .main 0 100 =
      some ({ path := .main, pos := g.length, nl := 0, buf := [], bufSize := 0, bs := 100 }, []) := by
    simp [openWriter, Disk.get, hhdr.headerOf, ht]
  have hwinv : WInv { main := some g, temp := none }
      { path := .main, pos := g.length, nl := 0, buf := [], bufSize := 0, bs := 100 } g := ⟨rfl, rfl, hhdr⟩
  obtain ⟨a, hae, pa⟩ := addManyW_spec mk2 mk2_ok [(Op.put 3 3, 200)] _ _ _ hwinv maxEnts_pos
  obtain ⟨nbs, hn, hnwf, hget⟩ := syncW_spec c mk2 mk2_ok _ _ _ pa.inv (Nat.le_of_lt pa.cnt)
  rw [pa.path] at hget
  simp only [himg, cWrite, List.isEmpty_cons, Bool.false_eq_true, if_false, ensureW, hopen, cSync, List.nil_append,
    Disk.applyAll_nil] at h
  -- the file after the append: image ++ whole new blocks, which hold the new entry
  have hfin : ((({ main := some g, temp := none } : Disk).applyAll
      (addManyW mk2 { path := .main, pos := g.length, nl := 0, buf := [], bufSize := 0, bs := 100 } [(Op.put 3 3, 200)]).2).applyAll
      (syncW c mk2 (addManyW mk2 { path := .main, pos := g.length, nl := 0, buf := [], bufSize := 0, bs := 100 } [(Op.put 3 3, 200)]).1).2).main =
      some (g ++ render (a ++ nbs)) := by
    simp only [Disk.get] at hget
    rw [hget, render_append, List.append_assoc]
  have hents : entsOf (a ++ nbs) = [Op.put 3 3] := by
    rw [entsOf_append, hn]; simpa using hae
  have hne : a ++ nbs ≠ [] := by intro e; rw [e] at hents; simp [entsOf] at hents
  have hrest : (render (a ++ nbs)).head? ≠ some (Cell.bp b1 (17 - 16)) := by
    cases hab : a ++ nbs with
    | nil => exact absurd hab hne
    | cons b' t => simp [render, blockCells, hdrCells_eq]
  have hstr := loadEntries_strands c.r 0 [] (by simp) b1 (mk2_wf _ (by simp) (by decide)) 17 (by omega) (by show 17 < 16 + 2; omega)
    (render (a ++ nbs)) hrest
  have hg : g ++ render (a ++ nbs) = fileCells 0 [] ++ ((blockCells b1).take 17 ++ render (a ++ nbs)) := by
    simp [g, List.append_assoc]
  have hl0 : loadEntries c.r (g ++ render (a ++ nbs)) = [] := by
    rw [hg]; rcases hstr with h' | h' <;> simpa [entsOf] using h'
  have hr1 := recover_eq_loadEntries c _ _ hfin
  have hr0 : recover c { main := some g, temp := none } = [] := by
    rw [recover_eq_loadEntries c _ g rfl]
    have := loadFile_base_tail c.r 0 [] (by simp) b1 (mk2_wf _ (by simp) (by decide)) 17 (by show 17 < 16 + 2; omega)
    simp only [loadEntries, g, this]
    cases stopOk c.r (tailStop 17) <;> simp [entsOf, Index.replay]
  rw [hr1, hl0, hr0] at h
  simp [Index.replay, Index.apply, Index.put, Index.del] at h

/-! ### What holds for the current reader: crash points that leave at most a block header behind -/

/-- **Partial result for the current reader** (torn payloads excluded): a main file consisting of
    whole blocks followed by at most 16 bytes of the next block header loads to exactly the whole
    blocks, provided a short header read is treated as EOF.  This covers every crash point at an
    operation boundary of a session after the file header was written, and torn block-header and
    file-header writes.  Missing for the full statement: torn payload writes (the reader must map
    the short read to EOF) and crashes while the file header itself is being created. -/
theorem C02_partial (c : RCfg) (h : c.shortHeaderIsEOF = true) (nl : Nat) (bs : List Block) (hwf : ∀ b ∈ bs, b.WF)
    (b : Block) (hb : b.WF) (r : Nat) (hr : r ≤ 16) :
    loadFile c (fileCells nl bs ++ (blockCells b).take r) = .ok (entsOf bs) := by
  have hr' : r < 16 + b.plen := by have := hb.2.2; omega
  rw [loadFile_base_tail c nl bs hwf b hb r hr']
  have : stopOk c (tailStop r) = true := by
    unfold tailStop
    split
    · rfl
    · split
      · exact h
      · have : r = 16 := by omega
        simp [this, stopOk]
  simp [this]

/-- Non-vacuity: the hypotheses of the theorems are met by a real session. -/
example : MkOk mk2 ∧ (runActs ⟨⟨true, true, false, true⟩, true, true, true, true, true, true, true, true, true⟩ mk2 0 100
    [.w [(Op.put 1 1, 200)], .sync]).ops.length = 7 := by
  refine ⟨mk2_ok, ?_⟩
  simp [runActs, Run.step, cWrite, cSync, ensureW, openWriter, Disk.get, addManyW, addW, flushW, syncW, createOps, mk2, mkP,
    WSt.push, WSt.full, maxEnts]

/-! ### Decision over the extracted facts -/

structure Facts where
  /-- `n < BlockHeaderSize` after the header read returns io.EOF -/
  shortHeaderIsEOF : Tri
  /-- io.ErrUnexpectedEOF from the payload ReadFull is mapped to io.EOF -/
  tornDataIsEOF : Tri
  /-- flushLocked writes block header, payload, file header, in this order -/
  flushOrderCanonical : Tri
  /-- FileWriter.Sync / Close end with file.Sync() -/
  syncFsyncs : Tri
  closeFsyncs : Tri
  /-- openExistingFile opens without O_TRUNC and seeks to the end -/
  opensExistingForAppend : Tri
  /-- openExistingFile truncates a torn tail (repair; not in the tree) -/
  truncatesTornTail : Tri
  /-- Load returns (empty swamp) on any reader error -/
  loadAbortsOnError : Tri
  /-- fileWriterHandler calls chronicler.Sync() after every Write -/
  handlerSyncsAfterWrite : Tri
  /-- chroniclerV2.Sync forwards to FileWriter.Sync -/
  chronSyncForwards : Tri
  /-- readNextBlock: a zero size field, and an unparseable block that runs out in zeros with only zeros
      behind it, are the end of the data -/
  zeroTailIsEOF : Tri
  /-- openExistingFile stops its walk at a zero size field, checks the last block it accepted and restarts a zero-header file -/
  openCutsZeroTail : Tri
  /-- openExistingFile does not cut when an intact block lies behind the cut point -/
  openSparesMidFileDamage : Tri
  /-- `WriteBuffer.Add` reports full at `math.MaxUint16` entries: a fault-free writer never hands
      `CompressEntries` more than the 16-bit count field holds (the bound of `MkOk`) -/
  flushesAtCountBound : Tri
  /-- the reader assumptions of the model (established by C04): a payload that is not the one
      written fails the checksum; the decoded length and the entry count are checked -/
  validatesCrc : Tri
  crcBeforeDecompress : Tri
  validatesULen : Tri
  boundsDecodedLen : Tri
  parseConsumesAll : Tri
  deriving Repr

def cfgOf (f : Facts) : Cfg :=
  { r := ⟨f.shortHeaderIsEOF.isYes, f.tornDataIsEOF.isYes, false, f.zeroTailIsEOF.isYes⟩,
    syncFsyncs := f.syncFsyncs.isYes, closeFsyncs := f.closeFsyncs.isYes,
    truncatesTornTail := f.truncatesTornTail.isYes,
    loadCleansTemp := true, rmTempLocked := true, rmTempFromIndex := true, rmTempCompactor := true,
    restartsZeroHeader := f.openCutsZeroTail.isYes, sparesMidFileDamage := f.openSparesMidFileDamage.isYes }

/-- the model describes this code: canonical flush order, append-mode open, Load aborts on error,
    the periodic tick really fsyncs (otherwise nothing is ever durable and the statement is void) -/
def modelApplies (f : Facts) : Bool :=
  f.flushOrderCanonical.isYes && f.opensExistingForAppend.isYes && f.loadAbortsOnError.isYes &&
  f.syncFsyncs.isYes && f.closeFsyncs.isYes && f.handlerSyncsAfterWrite.isYes && f.chronSyncForwards.isYes &&
  f.shortHeaderIsEOF.isYes && f.tornDataIsEOF != .unknown && f.truncatesTornTail != .unknown &&
  f.flushesAtCountBound.isYes && f.validatesCrc.isYes && f.validatesULen.isYes && f.parseConsumesAll.isYes &&
  f.zeroTailIsEOF != .unknown && f.openCutsZeroTail != .unknown && f.openSparesMidFileDamage != .unknown

def findings (f : Facts) : List String :=
  (if f.tornDataIsEOF.isYes then [] else ["C02-torn-payload-load-error"]) ++
  (if f.truncatesTornTail.isYes then [] else ["C02-append-after-torn-tail-strands", "C02-torn-create-bricks-swamp"]) ++
  (if f.zeroTailIsEOF.isYes then [] else ["C02-zero-filled-tail-wipes-swamp"])

def classify (f : Facts) : Verdict :=
  if !modelApplies f then .undetermined "a storage fact was not recognised or the durability barrier is missing (the model does not describe this code)"
  else if findings f = [] then
    (if f.openCutsZeroTail.isYes && f.openSparesMidFileDamage.isYes then .holds
     else .undetermined "the open walks through a zero-filled tail or cuts a file that is damaged in the middle: no theorem for this open")
  else .violated (findings f)

/-- the fragment proved for every reader that treats a short header as EOF -/
def Partial (c : Cfg) : Prop :=
  c.r.shortHeaderIsEOF = true → ∀ (nl : Nat) (bs : List Block), (∀ b ∈ bs, b.WF) → ∀ (b : Block), b.WF → ∀ r, r ≤ 16 →
    loadFile c.r (fileCells nl bs ++ (blockCells b).take r) = .ok (entsOf bs)

theorem classify_sound (f : Facts) : (classify f).Sound (Holds (cfgOf f)) (Partial (cfgOf f)) := by
  unfold classify
  split
  · trivial
  · rename_i hm
    simp only [Bool.not_eq_true', Bool.not_eq_false] at hm
    simp only [modelApplies, Bool.and_eq_true] at hm
    obtain ⟨⟨⟨⟨⟨⟨⟨⟨⟨⟨⟨⟨⟨⟨⟨⟨_, _⟩, _⟩, hsf⟩, _⟩, _⟩, _⟩, hsh⟩, _⟩, _⟩, _⟩, _⟩, _⟩, _⟩, _⟩, _⟩, _⟩ := hm
    split
    · rename_i hfnd
      simp only [findings, List.append_eq_nil_iff] at hfnd
      obtain ⟨⟨h1, h2⟩, h3⟩ := hfnd
      have ht : f.tornDataIsEOF.isYes = true := by revert h1; cases f.tornDataIsEOF.isYes <;> simp
      have htr : f.truncatesTornTail.isYes = true := by revert h2; cases f.truncatesTornTail.isYes <;> simp
      have hz : f.zeroTailIsEOF.isYes = true := by revert h3; cases f.zeroTailIsEOF.isYes <;> simp
      split
      · exact holds_of_repaired (cfgOf f) ⟨hsh, ht⟩ htr hz
      · trivial
    · rename_i hfnd
      refine ⟨?_, fun h nl bs hwf b hb r hr => C02_partial (cfgOf f).r h nl bs hwf b hb r hr⟩
      intro hh
      apply hfnd
      simp only [findings, List.append_eq_nil_iff]
      refine ⟨⟨?_, ?_⟩, ?_⟩
      · cases ht : f.tornDataIsEOF.isYes
        · exact absurd hh.recovers (not_recovers_of_torn_error (cfgOf f) ht hsf)
        · simp
      · cases htr : f.truncatesTornTail.isYes
        · exact absurd hh.appendable (append_after_torn_tail_strands (cfgOf f) htr)
        · simp
      · cases hz : f.zeroTailIsEOF.isYes
        · exact absurd hh.zeroTail (zero_tail_wipes_swamp (cfgOf f) hz)
        · simp

end Hv.C02
