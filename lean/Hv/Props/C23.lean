/-
  C23 — V1 → V2 migration preserves exactly the loadable data.

  "Migrating a legacy multi-file swamp to the single-file format yields a file that loads to
   exactly the records the legacy engine would load, with the swamp name preserved.  If migration
   fails or verification fails, the legacy data is left intact."

  Quantifier: every legacy folder (any number of chunk files, any segments — the theorems do not
  even need the folder to come from a V1 history), every option combination, every injected
  failure of one step; every lawful V2 codec (`V2.Lawful`: with distinct keys a written file
  loads back to the inserted records — the byte-level codec belongs to C01/C05 and is an
  explicit assumption here).

  The legacy `Load` folds the chunk files in Go map iteration order, so for a folder in which a
  key occurs in more than one file "what the legacy engine would load" is a *relation*
  (`LoadsV1`).  The statement is: the migrated file loads to a member of that relation, and to
  *the* legacy result whenever the keys are distinct (every folder a V1 history produces,
  unless the chunk-overflow defect of the V1 writer duplicated a key — see `Overflow` below).
-/
import Hv.Storage.MigrateLemmas

namespace Hv.C23
open Hv.Migrate

def NoEmptyKey (fo : Folder) : Prop := ∀ s ∈ allSegs fo, s.key ≠ ""

/-- The full-strength statement, for given migrator facts. -/
structure Holds (cfg : MCfg) : Prop where
  /-- a successful live migration: the file loads to what the legacy engine can load, under the
      name from the meta file; to exactly the legacy result when the keys are distinct -/
  preserves : ∀ {File : Type} (v : V2 File), v.Lawful → ∀ (o : Opts) (nm : String) (d : Disk File),
      d.hyd = none → o.dryRun = false → NoEmptyKey d.v1 → allSegs d.v1 ≠ [] →
      (migrate cfg v o .none nm d).1 = .success ∧
      ∃ f, (migrate cfg v o .none nm d).2.hyd = some f ∧ LoadsV1 d.v1 (v.loadMap f) ∧ v.nameOf f = nm ∧
        (UniqueKeys d.v1 → ∀ m, LoadsV1 d.v1 m → m = v.loadMap f)
  /-- a failed migration (whatever step failed) leaves the disk exactly as it was: the V1 files
      untouched and no .hyd file behind -/
  failureAtomic : ∀ {File : Type} (v : V2 File) (o : Opts) (ft : Fault) (nm : String) (d : Disk File),
      d.hyd = none → ∀ ph, (migrate cfg v o ft nm d).1 = .failed ph → (migrate cfg v o ft nm d).2 = d
  /-- V1 files are removed only with `DeleteOld`, and only after the .hyd file was written
      (and verified, when asked) — or when the swamp has no records at all -/
  deleteLast : ∀ {File : Type} (v : V2 File) (o : Opts) (ft : Fault) (nm : String) (d : Disk File),
      d.hyd = none → (migrate cfg v o ft nm d).2.v1 ≠ d.v1 →
      o.deleteOld = true ∧ o.dryRun = false ∧
      (((migrate cfg v o ft nm d).1 = .success ∧
          ∃ f, (migrate cfg v o ft nm d).2.hyd = some f ∧
               (o.verify = true → verifyOk cfg v f (dedupe cfg (allSegs d.v1)) = true)) ∨
       ((migrate cfg v o ft nm d).1 = .skippedEmpty ∧ allSegs d.v1 = []))
  /-- a dry run changes nothing -/
  dryRunNoop : ∀ {File : Type} (v : V2 File) (o : Opts) (ft : Fault) (nm : String) (d : Disk File),
      o.dryRun = true → (migrate cfg v o ft nm d).2 = d

/-! ### The migrator as extracted (write, then verify, then delete; last segment wins) -/

theorem no_empty_any (fo : Folder) (h : NoEmptyKey fo) : (allSegs fo).any (fun s => s.key == "") = false := by
  rw [List.any_eq_false]
  intro s hs
  simpa using h s hs

theorem verify_good {File : Type} (v : V2 File) (hv : v.Lawful) (nm : String) (es : List Entry) :
    verifyOk good v (v.write nm es) es = true := by
  simp only [verifyOk, good, Bool.not_false, Bool.true_or, Bool.and_true, List.all_eq_true]
  intro e he
  rw [hv.keys]
  exact lookup_isSome_of_mem es e he

theorem deleteV1_hyd {File : Type} (ft : Fault) (d : Disk File) : (deleteV1 ft d).hyd = d.hyd := by
  simp only [deleteV1]
  split
  · split <;> rfl
  · rfl

theorem migrate_good_eq {File : Type} (v : V2 File) (o : Opts) (ft : Fault) (nm : String) (d : Disk File) :
    migrate good v o ft nm d = migrateGood v o ft nm d := by
  simp only [migrate, migrateGood, good, Bool.true_and]
  cases ft with
  | write st => cases st <;> rfl
  | _ => rfl

theorem migrate_preserves : ∀ {File : Type} (v : V2 File), v.Lawful → ∀ (o : Opts) (nm : String) (d : Disk File),
    d.hyd = none → o.dryRun = false → NoEmptyKey d.v1 → allSegs d.v1 ≠ [] →
    (migrate good v o .none nm d).1 = .success ∧
    ∃ f, (migrate good v o .none nm d).2.hyd = some f ∧ LoadsV1 d.v1 (v.loadMap f) ∧ v.nameOf f = nm ∧
      (UniqueKeys d.v1 → ∀ m, LoadsV1 d.v1 m → m = v.loadMap f) := by
  intro File v hv o nm d _ hdry hne hseg
  have hany := no_empty_any d.v1 hne
  have hemp : (dedupe good (allSegs d.v1)).isEmpty = false := by
    rw [dedupe_isEmpty]; simpa [List.isEmpty_iff] using hseg
  have hver := verify_good v hv nm (dedupe good (allSegs d.v1))
  have hdd := dedupe_last good rfl (allSegs d.v1)
  have hload : v.loadMap (v.write nm (dedupe good (allSegs d.v1))) = loadV1In d.v1 := by
    funext k
    rw [hv.load nm _ hdd.1 k, hdd.2 k]; rfl
  have hres : migrate good v o .none nm d =
      (.success, if o.deleteOld then deleteV1 .none { d with hyd := some (v.write nm (dedupe good (allSegs d.v1))) }
                 else { d with hyd := some (v.write nm (dedupe good (allSegs d.v1))) }) := by
    rw [migrate_good_eq]
    simp [migrateGood, hany, hemp, hdry, hver, Fault.isWrite]
  rw [hres]
  refine ⟨rfl, v.write nm (dedupe good (allSegs d.v1)), ?_, ?_, hv.name _ _, ?_⟩
  · simp only
    split
    · rw [deleteV1_hyd]
    · rfl
  · exact ⟨d.v1, List.Perm.refl _, hload⟩
  · intro hu m hm
    rw [loadsV1_unique d.v1 hu m hm, hload]

theorem migrate_failure_atomic : ∀ {File : Type} (v : V2 File) (o : Opts) (ft : Fault) (nm : String) (d : Disk File),
    d.hyd = none → ∀ ph, (migrate good v o ft nm d).1 = .failed ph → (migrate good v o ft nm d).2 = d := by
  intro File v o ft nm d hh ph
  obtain ⟨v1, fol, hyd⟩ := d
  simp only at hh
  subst hh
  rw [migrate_good_eq]
  simp only [migrateGood]
  by_cases hl : ft = Fault.load
  · simp [hl]
  by_cases ha : ((allSegs v1).any fun s => s.key == "") = true
  · simp [ha]
  by_cases h2 : (dedupe good (allSegs v1)).isEmpty = true
  · simp [hl, ha, h2]
  by_cases h3 : o.dryRun = true
  · simp [hl, ha, h2, h3]
  by_cases h4 : ft.isWrite = true
  · simp [hl, ha, h2, h3, h4]
  by_cases hv : o.verify = true
  · by_cases hfv : ft = Fault.verify
    · subst hfv; simp [ha, h2, h3, hv, Fault.isWrite]
    · by_cases hok : verifyOk good v (v.write nm (dedupe good (allSegs v1))) (dedupe good (allSegs v1)) = true
      · simp [hl, ha, h2, h3, h4, hv, hfv, hok]
      · simp [hl, ha, h2, h3, h4, hv, hfv, hok]
  · simp [hl, ha, h2, h3, h4, hv]

theorem migrate_dryRun_noop : ∀ {File : Type} (v : V2 File) (o : Opts) (ft : Fault) (nm : String) (d : Disk File),
    o.dryRun = true → (migrate good v o ft nm d).2 = d := by
  intro File v o ft nm d hdry
  rw [migrate_good_eq]
  simp only [migrateGood, hdry]
  by_cases hl : ft = Fault.load
  · simp [hl]
  by_cases ha : ((allSegs d.v1).any fun s => s.key == "") = true
  · simp [ha]
  by_cases h2 : (dedupe good (allSegs d.v1)).isEmpty = true
  · simp [hl, ha, h2]
  · simp [hl, ha, h2]

theorem migrate_delete_last : ∀ {File : Type} (v : V2 File) (o : Opts) (ft : Fault) (nm : String) (d : Disk File),
    d.hyd = none → (migrate good v o ft nm d).2.v1 ≠ d.v1 →
    o.deleteOld = true ∧ o.dryRun = false ∧
    (((migrate good v o ft nm d).1 = .success ∧
        ∃ f, (migrate good v o ft nm d).2.hyd = some f ∧
             (o.verify = true → verifyOk good v f (dedupe good (allSegs d.v1)) = true)) ∨
     ((migrate good v o ft nm d).1 = .skippedEmpty ∧ allSegs d.v1 = [])) := by
  intro File v o ft nm d _
  rw [migrate_good_eq]
  simp only [migrateGood]
  by_cases hl : ft = Fault.load
  · simp [hl]
  by_cases ha : ((allSegs d.v1).any fun s => s.key == "") = true
  · simp [ha]
  by_cases hd : o.deleteOld = true
  · by_cases h3 : o.dryRun = true
    · by_cases h2 : (dedupe good (allSegs d.v1)).isEmpty = true
      · simp [hl, ha, h2, h3, hd]
      · simp [hl, ha, h2, h3]
    have hr' : o.dryRun = false := by simpa using h3
    by_cases h2 : (dedupe good (allSegs d.v1)).isEmpty = true
    · have hnil : allSegs d.v1 = [] := by
        rw [dedupe_isEmpty] at h2; simpa [List.isEmpty_iff] using h2
      intro _
      refine ⟨hd, hr', Or.inr ⟨?_, hnil⟩⟩
      simp [hl, ha, h2]
    by_cases h4 : ft.isWrite = true
    · simp [hl, ha, h2, h3, h4]
    by_cases h5 : (o.verify && (decide (ft = Fault.verify) ||
        !verifyOk good v (v.write nm (dedupe good (allSegs d.v1))) (dedupe good (allSegs d.v1)))) = true
    · simp only [hl, ha, h2, h3, h4, h5]; simp
    · intro _
      refine ⟨hd, hr', Or.inl ?_⟩
      simp only [hl, ha, h2, h3, h4, h5, hd]
      simp only [decide_false, Bool.false_or, Bool.false_eq_true, if_false, if_true, true_and]
      refine ⟨v.write nm (dedupe good (allSegs d.v1)), ?_, ?_⟩
      · rw [deleteV1_hyd]
      · intro hver
        simp only [hver, Bool.true_and, Bool.or_eq_true, decide_eq_true_eq, Bool.not_eq_true',
          not_or, Bool.not_eq_false] at h5
        exact h5.2
  · -- without DeleteOld nothing is ever removed
    have hd' : o.deleteOld = false := by simpa using hd
    by_cases h2 : (dedupe good (allSegs d.v1)).isEmpty = true
    · simp [hl, ha, h2, hd']
    by_cases h3 : o.dryRun = true
    · simp [hl, ha, h2, h3]
    by_cases h4 : ft.isWrite = true
    · simp [hl, ha, h2, h3, h4]
    by_cases h5 : (o.verify && (decide (ft = Fault.verify) ||
        !verifyOk good v (v.write nm (dedupe good (allSegs d.v1))) (dedupe good (allSegs d.v1)))) = true
    · simp only [hl, ha, h2, h3, h4, h5]; simp
    · simp only [hl, ha, h2, h3, h4, h5, hd']; simp

theorem holds_good : Holds good :=
  ⟨migrate_preserves, migrate_failure_atomic, migrate_delete_last, migrate_dryRun_noop⟩

/-! ### Non-vacuity: a two-chunk folder with a rewritten key, every option, every single failure -/

def exFolder : Folder :=
  [("chunk-a", [⟨"k1", "v1"⟩, ⟨"k2", "v2"⟩]), ("chunk-b", [⟨"k3", "v3"⟩])]

def exDisk : Disk (String × List Entry) := { v1 := exFolder, v1Folder := true, hyd := none }

example : (migrate good idV2 ⟨true, true, false⟩ .none "s/r/n" exDisk).1 = .success := by decide
example : (migrate good idV2 ⟨true, true, false⟩ .none "s/r/n" exDisk).2.v1 = [] := by decide
example : (migrate good idV2 ⟨true, true, false⟩ .verify "s/r/n" exDisk).1 = .failed "verify" := by decide
example : (migrate good idV2 ⟨true, true, false⟩ .verify "s/r/n" exDisk).2.v1 = exFolder := by decide
example : (migrate good idV2 ⟨true, true, false⟩ (.write 0) "s/r/n" exDisk).2.hyd = none := by decide
example : (migrate good idV2 ⟨true, true, false⟩ (.unlink 1) "s/r/n" exDisk).2.v1 = [("chunk-b", [⟨"k3", "v3"⟩])] := by decide

theorem idV2_lawful : idV2.Lawful := ⟨fun _ _ _ _ => rfl, fun _ _ => rfl, fun _ _ _ => rfl⟩

/-! ### `verify_weaker` — an observation, not a violation of C23

  `verifyMigration` only checks that every key is present in the new file's index.  A file whose
  values differ passes.  (With a lawful codec the written values are right, so this does not
  break `preserves`; it means verification would not notice a codec defect.) -/
theorem verify_weaker :
    verifyOk good idV2 ("n", [("k1", "CORRUPTED"), ("k2", "v2")]) [("k1", "v1"), ("k2", "v2")] = true := by decide

/-! ### Facts that break the statement: closed witnesses -/

/-- deleting the V1 files *before* verification: a verification failure then loses everything -/
def deleteFirst : MCfg := { good with verifyBeforeDelete := false }

theorem deleteFirst_loses_data :
    let r := migrate deleteFirst idV2 ⟨true, true, false⟩ .verify "s/r/n" exDisk
    r.1 = .failed "verify" ∧ r.2.v1 = [] ∧ r.2.hyd = none := by decide

theorem refutes_deleteFirst : ¬ Holds deleteFirst := by
  intro h
  have := h.failureAtomic idV2 ⟨true, true, false⟩ .verify "s/r/n" exDisk rfl "verify" (by decide)
  have h2 : (migrate deleteFirst idV2 ⟨true, true, false⟩ .verify "s/r/n" exDisk).2.v1 = exDisk.v1 := by rw [this]
  exact absurd h2 (by decide)

/-- keeping the *first* value of a key: differs from every legacy load when a chunk holds a key twice -/
def dedupeFirst : MCfg := { good with dedupeLast := false }

def dupFolder : Folder := [("chunk-a", [⟨"k", "old"⟩, ⟨"k", "new"⟩])]

theorem dedupeFirst_witness :
    (migrate dedupeFirst idV2 ⟨true, false, false⟩ .none "n" { v1 := dupFolder, v1Folder := true, hyd := none }).2.hyd
      = some ("n", [("k", "old")]) := by decide

theorem legacy_loads_new (m : String → Option String) (h : LoadsV1 dupFolder m) : m "k" = some "new" := by
  obtain ⟨perm, hp, rfl⟩ := h
  have : perm = dupFolder := List.perm_singleton.mp hp
  subst this
  decide

theorem refutes_dedupeFirst : ¬ Holds dedupeFirst := by
  intro h
  have := h.preserves idV2 idV2_lawful ⟨true, false, false⟩ "n" { v1 := dupFolder, v1Folder := true, hyd := none }
    rfl rfl (by intro s hs; simp [allSegs, dupFolder] at hs; rcases hs with rfl | rfl <;> decide) (by decide)
  obtain ⟨_, f, hf, hl, _, _⟩ := this
  rw [dedupeFirst_witness] at hf
  cases hf
  have := legacy_loads_new _ hl
  exact absurd this (by decide)

/-- leaving the .hyd file behind after a failed verification -/
def keepHyd : MCfg := { good with removeOnVerifyFail := false }

theorem refutes_keepHyd : ¬ Holds keepHyd := by
  intro h
  have := h.failureAtomic idV2 ⟨true, false, false⟩ .verify "s/r/n" exDisk rfl "verify" (by decide)
  have h2 : (migrate keepHyd idV2 ⟨true, false, false⟩ .verify "s/r/n" exDisk).2.hyd = exDisk.hyd := by rw [this]
  exact absurd h2 (by decide)

/-- a failure while *creating* the .hyd file (header or swamp name cannot be written) leaves the
    partly written file behind: the migration has failed, yet a `.hyd` now shadows the intact V1 folder -/
def keepPartial : MCfg := { good with removeOnOpenFail := false }

theorem keepPartial_leaves_file :
    let r := migrate keepPartial idV2 ⟨true, false, false⟩ (.write 0) "s/r/n" exDisk
    r.1 = .failed "write" ∧ r.2.v1 = exFolder ∧ r.2.hyd = some ("s/r/n", []) := by decide

theorem refutes_keepPartial : ¬ Holds keepPartial := by
  intro h
  have := h.failureAtomic idV2 ⟨true, false, false⟩ (.write 0) "s/r/n" exDisk rfl "write" (by decide)
  have h2 : (migrate keepPartial idV2 ⟨true, false, false⟩ (.write 0) "s/r/n" exDisk).2.hyd = exDisk.hyd := by rw [this]
  exact absurd h2 (by decide)

/-- `_partial`: apart from that one failure point the whole statement holds for `keepPartial`:
    it differs from `good` only in what a stage-0 write failure leaves behind -/
theorem keepPartial_partial {File : Type} (v : V2 File) (o : Opts) (ft : Fault) (nm : String) (d : Disk File)
    (hft : ft ≠ .write 0) : migrate keepPartial v o ft nm d = migrate good v o ft nm d := by
  simp only [migrate, keepPartial, good]
  cases ft with
  | write st =>
    cases st with
    | zero => exact absurd rfl hft
    | succ n => rfl
  | _ => rfl

/-! ### The V1 writer's chunk-overflow path (`writeNewTreasures`)

  A batch of new treasures is appended to the actual chunk; when the running size estimate exceeds the
  limit at treasure `k` and more treasures follow, `k` *is* written to the old chunk, a new chunk is
  started for the rest — and the loop `break`s before it records `k`'s file-pointer event.  The swamp
  therefore never learns where `k` lives; the next save of `k` is treated as a new treasure and is
  appended to the current chunk: the key is on disk twice, in two files, and the legacy `Load`
  (map iteration order) returns either value.

  Model: each treasure has size 1, a chunk overflows when it holds more than `max` treasures. -/
namespace Overflow

structure St where
  chunks   : List (List Seg)        -- oldest first; the last one is the actual chunk
  pointers : List String            -- keys whose chunk the swamp knows
  deriving Repr, DecidableEq

/-- `recordsOverflowKey`: the repaired behaviour (record the pointer before `break`) -/
def writeNew (recordsOverflowKey : Bool) (max : Nat) : St → List Seg → St
  | st, [] => st
  | st, s :: rest =>
    let cur := st.chunks.getLastD []
    let init := st.chunks.dropLast
    let cur' := cur ++ [s]
    if cur'.length > max && !rest.isEmpty then
      -- overflow at `s` with treasures still to come: roll a new chunk for the rest
      let st' : St := { chunks := init ++ [cur', []],
                        pointers := if recordsOverflowKey then s.key :: st.pointers else st.pointers }
      writeNew recordsOverflowKey max st' rest
    else
      writeNew recordsOverflowKey max { chunks := init ++ [cur'], pointers := s.key :: st.pointers } rest

/-- a save: treasures whose chunk is known are rewritten in place, the others are appended as new -/
def save (rec : Bool) (max : Nat) (st : St) (batch : List Seg) : St :=
  let known := batch.filter (fun s => st.pointers.contains s.key)
  let fresh := batch.filter (fun s => !st.pointers.contains s.key)
  let st1 : St := { st with chunks := st.chunks.map (fun c => c.map (fun x =>
      match known.find? (fun s => s.key == x.key) with
      | some s => s
      | none => x)) }
  writeNew rec max st1 fresh

def keysOf (st : St) : List String := (st.chunks.flatMap id).map (·.key)

/-- current writer: three new treasures with room for two, then `b` is saved again — `b` is on disk twice -/
theorem overflow_duplicates_key :
    keysOf (save false 2 (save false 2 ⟨[[]], []⟩ [⟨"a", "1"⟩, ⟨"b", "1"⟩, ⟨"c", "1"⟩, ⟨"d", "1"⟩]) [⟨"c", "2"⟩])
      = ["a", "b", "c", "d", "c"] := by decide

/-- with the pointer recorded the same history keeps the keys distinct and rewrites `c` in place -/
theorem no_duplicate_when_recorded :
    (save true 2 (save true 2 ⟨[[]], []⟩ [⟨"a", "1"⟩, ⟨"b", "1"⟩, ⟨"c", "1"⟩, ⟨"d", "1"⟩]) [⟨"c", "2"⟩]).chunks
      = [[⟨"a", "1"⟩, ⟨"b", "1"⟩, ⟨"c", "2"⟩], [⟨"d", "1"⟩]] := by decide

end Overflow

/-! ### Decision over the extracted facts -/

structure Facts where
  dedupeLast         : Tri    -- `entryMap[entry.Key] = entry` unconditionally
  writeBeforeDelete  : Tri    -- order of the calls in `migrateSwamp`
  verifyBeforeDelete : Tri
  removeOnVerifyFail : Tri    -- `os.Remove(hydFilePath)` in the verify-failure branch
  removeOnWriteFail  : Tri    -- `os.Remove(filePath)` in both error branches of `writeV2File`
  removeOnOpenFail   : Tri    -- nothing is left when `NewFileWriterWithName` fails after creating the file
  emptyKeyIsError    : Tri
  verifyValues       : Tri    -- `verifyMigration` looks at entry data (currently: keys only)
  skipsZeroLength    : Tri    -- `parseV1Segments`: `if length == 0 { continue }`
  nameFromMeta       : Tri    -- the name written into the .hyd header comes from the meta file
  v1LoadIteratesMap  : Tri    -- legacy `Load` ranges over a Go map of file contents
  deriving Repr

def cfgOf (f : Facts) : MCfg :=
  ⟨f.dedupeLast.isYes, f.verifyBeforeDelete.isYes, f.writeBeforeDelete.isYes, f.removeOnVerifyFail.isYes,
   f.removeOnWriteFail.isYes, f.removeOnOpenFail.isYes, f.emptyKeyIsError.isYes, f.verifyValues.isYes⟩

def anyUnknown (f : Facts) : Bool :=
  [f.dedupeLast, f.writeBeforeDelete, f.verifyBeforeDelete, f.removeOnVerifyFail, f.removeOnWriteFail, f.removeOnOpenFail,
   f.emptyKeyIsError, f.verifyValues, f.skipsZeroLength, f.nameFromMeta, f.v1LoadIteratesMap].any (· == .unknown)

def classify (f : Facts) : Verdict :=
  if anyUnknown f then .undetermined "a-migrator-pattern-was-not-recognised"
  else if f.nameFromMeta == .no then .undetermined "swamp-name-does-not-come-from-the-meta-file"
  else if cfgOf f = good then .holds
  else if cfgOf f = deleteFirst then .violated ["C23-delete-before-verify"]
  else if cfgOf f = dedupeFirst then .violated ["C23-dedupe-keeps-first"]
  else if cfgOf f = keepHyd then .violated ["C23-hyd-left-after-failed-verify"]
  else if cfgOf f = keepPartial then .violated ["C23-hyd-left-after-failed-create"]
  else .undetermined "no-theorem-covers-this-combination-of-migrator-facts"

theorem classify_sound (f : Facts) : (classify f).Sound (Holds (cfgOf f)) := by
  unfold classify
  split
  · trivial
  · split
    · trivial
    · split
      · rename_i h; rw [h]; exact holds_good
      · split
        · rename_i h; rw [h]; exact ⟨refutes_deleteFirst, trivial⟩
        · split
          · rename_i h; rw [h]; exact ⟨refutes_dedupeFirst, trivial⟩
          · split
            · rename_i h; rw [h]; exact ⟨refutes_keepHyd, trivial⟩
            · split
              · rename_i h; rw [h]; exact ⟨refutes_keepPartial, trivial⟩
              · trivial

end Hv.C23
