/-
  C23 — V1 → V2 migration preserves exactly the loadable data.

  "Migrating a legacy multi-file swamp to the single-file format yields a file that loads to
   exactly the records the legacy engine would load, with the swamp name preserved.  If migration
   fails or verification fails, the legacy data is left intact."

  Quantifier: every legacy folder (any number of chunk files, any segments — the theorems do not
  even need the folder to come from a V1 history), every option combination, every injected
  failure of one step; every lawful V2 codec (`V2.Lawful`: with distinct keys a written file
  loads back to the inserted records — the byte-level codec belongs to C01/C05 and is an
  explicit assumption here).

  The legacy `Load` folds the chunk files in Go map iteration order, so for a folder in which a
  key occurs in more than one file "what the legacy engine would load" is a *relation*
  (`LoadsV1`).  The statement is: the migrated file loads to a member of that relation, and to
  *the* legacy result whenever the keys are distinct (every folder a V1 history produces,
  unless the chunk-overflow defect of the V1 writer duplicated a key — see `Overflow` below).
-/
import Hv.Storage.MigrateLemmas
import Hv.Storage.MigrateV2

set_option linter.unusedSectionVars false

namespace Hv.C23
open Hv.Migrate

def NoEmptyKey {α : Type} [DecidableEq α] [Inhabited α] (fo : Folder α) : Prop := ∀ s ∈ allSegs fo, s.key ≠ default

/-- The full-strength statement, for given migrator facts: for every type of keys / payloads / names, every V2
    codec that is lawful on the records and name at hand. -/
structure Holds (cfg : MCfg) : Prop where
  /-- a successful live migration: the file loads to what the legacy engine can load, under the
      name from the meta file; to exactly the legacy result when the keys are distinct -/
  preserves : ∀ {α : Type} [DecidableEq α] [Inhabited α] {File : Type} (v : V2 α File) (okE : Entry α → Prop) (okN : α → Prop),
      v.Lawful okE okN → ∀ (o : Opts) (nm : α) (d : Disk α File),
      d.hyd = none → o.dryRun = false → okN nm → (∀ s ∈ allSegs d.v1, okE (s.key, s.data)) →
      NoEmptyKey d.v1 → allSegs d.v1 ≠ [] →
      (migrate cfg v o .none nm d).1 = .success ∧
      ∃ f, (migrate cfg v o .none nm d).2.hyd = some f ∧ LoadsV1 d.v1 (v.loadMap f) ∧ v.nameOf f = nm ∧
        (UniqueKeys d.v1 → ∀ m, LoadsV1 d.v1 m → m = v.loadMap f)
  /-- a failed migration (whatever step failed, whatever was at the target path) leaves the disk exactly as it
      was: the V1 files untouched, no .hyd file behind — and a .hyd file that was already there still there -/
  failureAtomic : ∀ {α : Type} [DecidableEq α] [Inhabited α] {File : Type} (v : V2 α File) (o : Opts) (ft : Fault)
      (nm : α) (d : Disk α File),
      ∀ ph, (migrate cfg v o ft nm d).1 = .failed ph → (migrate cfg v o ft nm d).2 = d
  /-- V1 files are removed only with `DeleteOld`, and only after the .hyd file was written (and verified, when asked) —
      or after a file that was already there passed the target-equals-legacy test, or when the swamp has no records at all -/
  deleteLast : ∀ {α : Type} [DecidableEq α] [Inhabited α] {File : Type} (v : V2 α File) (o : Opts) (ft : Fault)
      (nm : α) (d : Disk α File),
      (migrate cfg v o ft nm d).2.v1 ≠ d.v1 →
      o.deleteOld = true ∧ o.dryRun = false ∧
      (((migrate cfg v o ft nm d).1 = .success ∧
          ((d.hyd = none ∧ ∃ f, (migrate cfg v o ft nm d).2.hyd = some f ∧
               (o.verify = true → verifyOk cfg v f (dedupe cfg (allSegs d.v1)) = true)) ∨
           (∃ g, d.hyd = some g ∧ (migrate cfg v o ft nm d).2.hyd = some g ∧
               sameTarget v g (if ft = .metaRead then default else nm) (dedupe cfg (allSegs d.v1)) = true))) ∨
       ((migrate cfg v o ft nm d).1 = .skippedEmpty ∧ allSegs d.v1 = []))
  /-- when the meta file — the only place the swamp name is stored — cannot be read, no .hyd file without
      the name is produced (the name would be lost for good once `DeleteOld` removes the meta file) -/
  nameNotDropped : ∀ {α : Type} [DecidableEq α] [Inhabited α] {File : Type} (v : V2 α File) (o : Opts)
      (nm : α) (d : Disk α File),
      (migrate cfg v o .metaRead nm d).2.hyd = d.hyd
  /-- a dry run changes nothing -/
  dryRunNoop : ∀ {α : Type} [DecidableEq α] [Inhabited α] {File : Type} (v : V2 α File) (o : Opts) (ft : Fault)
      (nm : α) (d : Disk α File),
      o.dryRun = true → (migrate cfg v o ft nm d).2 = d
  /-- a .hyd file that is already at the target path (an earlier run, a V2 engine that has been writing to it
      since, a planted file) is never appended to, replaced or removed; a live run reports success next to it only
      when it passed the target-equals-legacy test -/
  existingKept : ∀ {α : Type} [DecidableEq α] [Inhabited α] {File : Type} (v : V2 α File) (o : Opts) (ft : Fault)
      (nm : α) (d : Disk α File) (f : File),
      d.hyd = some f → (migrate cfg v o ft nm d).2.hyd = some f ∧
        ((migrate cfg v o ft nm d).1 = .success → o.dryRun = true ∨
           sameTarget v f (if ft = .metaRead then default else nm) (dedupe cfg (allSegs d.v1)) = true)
  /-- the re-run: after a run without `DeleteOld` the target holds exactly the legacy data; a later run — with
      `DeleteOld` — then succeeds without writing and removes the V1 folder (the tool can finish its job) -/
  rerunCompletes : ∀ {α : Type} [DecidableEq α] [Inhabited α] {File : Type} (v : V2 α File) (o : Opts)
      (nm : α) (d : Disk α File) (f : File),
      d.hyd = some f → sameTarget v f nm (dedupe cfg (allSegs d.v1)) = true → NoEmptyKey d.v1 → allSegs d.v1 ≠ [] →
      o.dryRun = false →
      (migrate cfg v o .none nm d).1 = .success ∧ (o.deleteOld = true → (migrate cfg v o .none nm d).2.v1 = [])
  /-- V1 files go only after the new file was fsync'ed -/
  durableBeforeDelete : ∀ {α : Type} [DecidableEq α] [Inhabited α] {File : Type} (v : V2 α File) (o : Opts) (ft : Fault)
      (nm : α) (d : Disk α File),
      d.hyd = none → (migrate cfg v o ft nm d).2.v1 ≠ d.v1 → (migrate cfg v o ft nm d).1 = .success →
      (migrate cfg v o ft nm d).2.hydSynced = true
  /-- no record is dropped silently: a live run that writes succeeds only if the V2 writer accepted every record
      (a V1 record with a key the format cannot carry — longer than 65535 bytes — fails the swamp instead) -/
  noSilentDrop : ∀ {α : Type} [DecidableEq α] [Inhabited α] {File : Type} (v : V2 α File) (o : Opts) (ft : Fault)
      (nm : α) (d : Disk α File),
      d.hyd = none → (migrate cfg v o ft nm d).1 = .success → o.dryRun = false →
      ∀ e ∈ dedupe cfg (allSegs d.v1), v.accepts e = true

/-! ### The migrator as extracted (write, then verify, then delete; last segment wins) -/

section
variable {α : Type} [DecidableEq α] [Inhabited α] {File : Type}

theorem no_empty_any (fo : Folder α) (h : NoEmptyKey fo) : (allSegs fo).any (fun s => s.key == default) = false := by
  rw [List.any_eq_false]
  intro s hs
  simpa using h s hs

theorem verify_good (v : V2 α File) (okE : Entry α → Prop) (okN : α → Prop) (hv : v.Lawful okE okN) (nm : α)
    (es : List (Entry α)) (hn : okN nm) (he : ∀ e ∈ es, okE e) (hnd : (es.map Prod.fst).Nodup) :
    verifyOk good v (v.write nm es) es = true := by
  simp only [verifyOk, good, Bool.not_false, Bool.true_or, Bool.and_true, List.all_eq_true]
  intro e hm
  rw [hv.keys nm es e.1 hn he hnd]
  exact lookup_isSome_of_mem es e hm

theorem deleteV1_hyd (ft : Fault) (d : Disk α File) : (deleteV1 ft d).hyd = d.hyd := by
  simp only [deleteV1]
  split
  · split <;> rfl
  · rfl
  · rfl

theorem migrate_good_eq (v : V2 α File) (o : Opts) (ft : Fault) (nm : α) (d : Disk α File) :
    migrate good v o ft nm d = migrateGood v o ft nm d := by
  obtain ⟨v1, fol, hyd, syn⟩ := d
  cases hyd with
  | some f =>
    simp only [migrate, migrateGood, good, Bool.true_and, Option.isSome_some, if_true]
    rfl
  | none =>
    simp only [migrate, migrateGood, good, Bool.true_and, Option.isSome_none, Bool.false_eq_true, if_false, if_true]
    generalize (if ft = Fault.metaRead then default else nm) = nm'
    by_cases hn : v.acceptsName nm' = true
    · simp only [hn, if_true, Option.isNone_some, Bool.or_false, Bool.not_true]
      cases ft with
      | write st => cases st <;> simp [Fault.isWrite]
      | _ => simp [Fault.isWrite]
    · simp only [hn, if_false, Bool.false_eq_true, Option.isNone_none, Bool.or_true, Bool.true_or, if_true]
      simp

/-- the prefix of the good migrator that does not look at the target path -/
inductive Early where
  | load | empty | dry | live
  deriving DecidableEq

def early (o : Opts) (ft : Fault) (d : Disk α File) : Early :=
  if ft = Fault.load || ft = Fault.metaRead || (allSegs d.v1).any (fun s => s.key == default) then .load
  else if (dedupe good (allSegs d.v1)).isEmpty then .empty
  else if o.dryRun then .dry else .live

theorem early_load_iff (o : Opts) (ft : Fault) (d : Disk α File) :
    early o ft d = .load ↔ (ft = Fault.load || ft = Fault.metaRead || (allSegs d.v1).any (fun s => s.key == default)) = true := by
  unfold early
  by_cases hc : (ft = Fault.load || ft = Fault.metaRead || (allSegs d.v1).any (fun s => s.key == default)) = true
  · simp only [hc, if_true]
  · simp only [hc, if_false, Bool.false_eq_true, iff_false]
    by_cases he : (dedupe good (allSegs d.v1)).isEmpty = true
    · simp only [he, if_true]; intro h; cases h
    · simp only [he, if_false, Bool.false_eq_true]
      by_cases hd : o.dryRun = true
      · simp only [hd, if_true]; intro h; cases h
      · simp only [hd, if_false, Bool.false_eq_true]; intro h; cases h

theorem migrateGood_load (v : V2 α File) (o : Opts) (ft : Fault) (nm : α) (d : Disk α File) (h : early o ft d = .load) :
    migrateGood v o ft nm d = (.failed "load", d) := by
  have hc := (early_load_iff o ft d).mp h
  simp only [migrateGood, hc, if_true]

theorem migrateGood_empty (v : V2 α File) (o : Opts) (ft : Fault) (nm : α) (d : Disk α File) (h : early o ft d = .empty) :
    migrateGood v o ft nm d = (.skippedEmpty, if o.deleteOld && !o.dryRun then deleteV1 ft d else d) ∧ allSegs d.v1 = [] := by
  unfold early at h
  by_cases hc : (ft = Fault.load || ft = Fault.metaRead || (allSegs d.v1).any (fun s => s.key == default)) = true
  · simp only [hc, if_true] at h; cases h
  · by_cases he : (dedupe good (allSegs d.v1)).isEmpty = true
    · refine ⟨by simp only [migrateGood, hc, he, if_true, if_false, Bool.false_eq_true], ?_⟩
      rw [dedupe_isEmpty] at he; simpa [List.isEmpty_iff] using he
    · simp only [hc, he, if_false, Bool.false_eq_true] at h
      by_cases hd : o.dryRun = true
      · simp only [hd, if_true] at h; cases h
      · simp only [hd, if_false, Bool.false_eq_true] at h; cases h

theorem migrateGood_dry (v : V2 α File) (o : Opts) (ft : Fault) (nm : α) (d : Disk α File) (h : early o ft d = .dry) :
    migrateGood v o ft nm d = (.success, d) ∧ o.dryRun = true := by
  unfold early at h
  by_cases hc : (ft = Fault.load || ft = Fault.metaRead || (allSegs d.v1).any (fun s => s.key == default)) = true
  · simp only [hc, if_true] at h; cases h
  · by_cases he : (dedupe good (allSegs d.v1)).isEmpty = true
    · simp only [hc, he, if_true, if_false, Bool.false_eq_true] at h; cases h
    · by_cases hd : o.dryRun = true
      · exact ⟨by simp only [migrateGood, hc, he, hd, if_true, if_false, Bool.false_eq_true], hd⟩
      · simp only [hc, he, hd, if_false, Bool.false_eq_true] at h; cases h

/-- the live part: what happens once records are there and the run is not a dry run -/
theorem migrateGood_live (v : V2 α File) (o : Opts) (ft : Fault) (nm : α) (d : Disk α File) (h : early o ft d = .live) :
    o.dryRun = false ∧ ft ≠ .metaRead ∧
    migrateGood v o ft nm d =
      (match d.hyd with
       | some f => if sameTarget v f nm (dedupe good (allSegs d.v1)) then (.success, if o.deleteOld then deleteV1 ft d else d)
                   else (.failed "write", d)
       | none =>
         if ft.isWrite || !v.acceptsName nm || (dedupe good (allSegs d.v1)).any (fun e => !v.accepts e) then (.failed "write", d)
         else if o.verify && (ft = .verify || !verifyOk good v (v.write nm (dedupe good (allSegs d.v1))) (dedupe good (allSegs d.v1)))
           then (.failed "verify", d)
         else (.success, if o.deleteOld then deleteV1 ft { d with hyd := some (v.write nm (dedupe good (allSegs d.v1))), hydSynced := true }
                         else { d with hyd := some (v.write nm (dedupe good (allSegs d.v1))), hydSynced := true })) := by
  unfold early at h
  by_cases hc : (ft = Fault.load || ft = Fault.metaRead || (allSegs d.v1).any (fun s => s.key == default)) = true
  · simp only [hc, if_true] at h; cases h
  · by_cases he : (dedupe good (allSegs d.v1)).isEmpty = true
    · simp only [hc, he, if_true, if_false, Bool.false_eq_true] at h; cases h
    · by_cases hd : o.dryRun = true
      · simp only [hc, he, hd, if_true, if_false, Bool.false_eq_true] at h; cases h
      · have hm : ft ≠ .metaRead := by
          intro hft; simp [hft] at hc
        refine ⟨by simpa using hd, hm, ?_⟩
        simp only [migrateGood]
        rw [if_neg hc]
        simp only [he, hd, hm, if_false, Bool.false_eq_true]
        cases d.hyd <;> rfl

theorem early_cases (o : Opts) (ft : Fault) (d : Disk α File) :
    early o ft d = .load ∨ early o ft d = .empty ∨ early o ft d = .dry ∨ early o ft d = .live := by
  cases early o ft d <;> simp

theorem migrate_preserves (v : V2 α File) (okE : Entry α → Prop) (okN : α → Prop) (hv : v.Lawful okE okN)
    (o : Opts) (nm : α) (d : Disk α File) (h0 : d.hyd = none) (hdry : o.dryRun = false) (hn : okN nm)
    (hok : ∀ s ∈ allSegs d.v1, okE (s.key, s.data)) (hne : NoEmptyKey d.v1) (hseg : allSegs d.v1 ≠ []) :
    (migrate good v o .none nm d).1 = .success ∧
    ∃ f, (migrate good v o .none nm d).2.hyd = some f ∧ LoadsV1 d.v1 (v.loadMap f) ∧ v.nameOf f = nm ∧
      (UniqueKeys d.v1 → ∀ m, LoadsV1 d.v1 m → m = v.loadMap f) := by
  have hany := no_empty_any d.v1 hne
  have hemp : (dedupe good (allSegs d.v1)).isEmpty = false := by
    rw [dedupe_isEmpty]; simpa [List.isEmpty_iff] using hseg
  have hdd := dedupe_last good rfl (allSegs d.v1)
  have hes : ∀ e ∈ dedupe good (allSegs d.v1), okE e := by
    intro e he
    obtain ⟨s, hs, rfl⟩ := mem_dedupe good _ e he
    exact hok s hs
  have hacc : (dedupe good (allSegs d.v1)).any (fun e => !v.accepts e) = false := by
    rw [List.any_eq_false]
    intro e he
    simp [hv.acc e (hes e he)]
  have haccN := hv.accN nm hn
  have hver := verify_good v okE okN hv nm (dedupe good (allSegs d.v1)) hn hes hdd.1
  have hload : v.loadMap (v.write nm (dedupe good (allSegs d.v1))) = loadV1In d.v1 := by
    funext k
    rw [hv.load nm _ hn hes hdd.1 k, hdd.2 k]; rfl
  have hres : migrate good v o .none nm d =
      (.success, if o.deleteOld then deleteV1 .none { d with hyd := some (v.write nm (dedupe good (allSegs d.v1))), hydSynced := true }
                 else { d with hyd := some (v.write nm (dedupe good (allSegs d.v1))), hydSynced := true }) := by
    rw [migrate_good_eq]
    simp [migrateGood, hany, hemp, hdry, hver, Fault.isWrite, h0, hacc, haccN]
  rw [hres]
  refine ⟨rfl, v.write nm (dedupe good (allSegs d.v1)), ?_, ?_, hv.name _ _ hn hes, ?_⟩
  · simp only
    split
    · rw [deleteV1_hyd]
    · rfl
  · exact ⟨d.v1, List.Perm.refl _, hload⟩
  · intro hu m hm
    rw [loadsV1_unique d.v1 hu m hm, hload]

theorem migrate_failure_atomic (v : V2 α File) (o : Opts) (ft : Fault) (nm : α) (d : Disk α File)
    (ph : String) : (migrate good v o ft nm d).1 = .failed ph → (migrate good v o ft nm d).2 = d := by
  rw [migrate_good_eq]
  rcases early_cases o ft d with h | h | h | h
  · rw [migrateGood_load v o ft nm d h]; intro _; rfl
  · rw [(migrateGood_empty v o ft nm d h).1]; intro hc; cases hc
  · rw [(migrateGood_dry v o ft nm d h).1]; intro hc; cases hc
  · rw [(migrateGood_live v o ft nm d h).2.2]
    cases hh : d.hyd with
    | some f =>
      simp only
      split
      · intro hc; cases hc
      · intro _; rfl
    | none =>
      simp only
      split
      · intro _; rfl
      · split
        · intro _; rfl
        · intro hc; cases hc

theorem migrate_dryRun_noop (v : V2 α File) (o : Opts) (ft : Fault) (nm : α) (d : Disk α File)
    (hdry : o.dryRun = true) : (migrate good v o ft nm d).2 = d := by
  rw [migrate_good_eq]
  rcases early_cases o ft d with h | h | h | h
  · rw [migrateGood_load v o ft nm d h]
  · rw [(migrateGood_empty v o ft nm d h).1]; simp [hdry]
  · rw [(migrateGood_dry v o ft nm d h).1]
  · have := (migrateGood_live v o ft nm d h).1
    rw [hdry] at this; cases this

theorem migrate_delete_last (v : V2 α File) (o : Opts) (ft : Fault) (nm : α) (d : Disk α File) :
    (migrate good v o ft nm d).2.v1 ≠ d.v1 →
    o.deleteOld = true ∧ o.dryRun = false ∧
    (((migrate good v o ft nm d).1 = .success ∧
        ((d.hyd = none ∧ ∃ f, (migrate good v o ft nm d).2.hyd = some f ∧
             (o.verify = true → verifyOk good v f (dedupe good (allSegs d.v1)) = true)) ∨
         (∃ g, d.hyd = some g ∧ (migrate good v o ft nm d).2.hyd = some g ∧
             sameTarget v g (if ft = .metaRead then default else nm) (dedupe good (allSegs d.v1)) = true))) ∨
     ((migrate good v o ft nm d).1 = .skippedEmpty ∧ allSegs d.v1 = [])) := by
  rw [migrate_good_eq]
  rcases early_cases o ft d with h | h | h | h
  · rw [migrateGood_load v o ft nm d h]; intro hc; exact absurd rfl hc
  · obtain ⟨he, hnil⟩ := migrateGood_empty v o ft nm d h
    rw [he]
    intro hc
    cases hd : o.deleteOld with
    | false => rw [hd] at hc; simp at hc
    | true =>
      cases hr : o.dryRun with
      | true => rw [hd, hr] at hc; simp at hc
      | false => exact ⟨rfl, rfl, Or.inr ⟨by first | rfl | trivial, hnil⟩⟩
  · rw [(migrateGood_dry v o ft nm d h).1]; intro hc; exact absurd rfl hc
  · obtain ⟨hdry, hm, he⟩ := migrateGood_live v o ft nm d h
    rw [he, if_neg hm]
    cases hh : d.hyd with
    | some f =>
      simp only
      by_cases hs : sameTarget v f nm (dedupe good (allSegs d.v1)) = true
      · simp only [hs, if_true]
        intro hc
        have hd : o.deleteOld = true := by
          cases hdo : o.deleteOld with
          | true => rfl
          | false => rw [hdo] at hc; simp at hc
        refine ⟨hd, hdry, Or.inl ⟨by first | rfl | trivial, Or.inr ⟨f, by first | rfl | trivial, ?_, hs⟩⟩⟩
        simp only [hd, if_true]
        rw [deleteV1_hyd]; exact hh
      · simp only [hs, if_false, Bool.false_eq_true]
        intro hc; exact absurd rfl hc
    | none =>
      simp only
      split
      · intro hc; exact absurd rfl hc
      · split
        · intro hc; exact absurd rfl hc
        · rename_i hw hv'
          intro hc
          have hd : o.deleteOld = true := by
            cases hdo : o.deleteOld with
            | true => rfl
            | false => rw [hdo] at hc; simp at hc
          refine ⟨hd, hdry, Or.inl ⟨by first | rfl | trivial, Or.inl ⟨by first | rfl | trivial, v.write nm (dedupe good (allSegs d.v1)), ?_, ?_⟩⟩⟩
          · simp only [hd, if_true]; rw [deleteV1_hyd]
          · intro hver
            simp only [hver, Bool.true_and, Bool.or_eq_true, decide_eq_true_eq, Bool.not_eq_true',
              not_or, Bool.not_eq_false] at hv'
            exact hv'.2

theorem migrate_existing_kept (v : V2 α File) (o : Opts) (ft : Fault) (nm : α) (d : Disk α File) (f : File)
    (hf : d.hyd = some f) :
    (migrate good v o ft nm d).2.hyd = some f ∧
    ((migrate good v o ft nm d).1 = .success → o.dryRun = true ∨
      sameTarget v f (if ft = .metaRead then default else nm) (dedupe good (allSegs d.v1)) = true) := by
  rw [migrate_good_eq]
  rcases early_cases o ft d with h | h | h | h
  · rw [migrateGood_load v o ft nm d h]; exact ⟨hf, fun hc => by cases hc⟩
  · rw [(migrateGood_empty v o ft nm d h).1]
    refine ⟨?_, fun hc => by cases hc⟩
    simp only
    split
    · rw [deleteV1_hyd]; exact hf
    · exact hf
  · obtain ⟨he, hd⟩ := migrateGood_dry v o ft nm d h
    rw [he]; exact ⟨hf, fun _ => Or.inl hd⟩
  · obtain ⟨_, hm, he⟩ := migrateGood_live v o ft nm d h
    rw [he, if_neg hm, hf]
    simp only
    by_cases hs : sameTarget v f nm (dedupe good (allSegs d.v1)) = true
    · simp only [hs, if_true]
      refine ⟨?_, fun _ => Or.inr (by first | rfl | trivial)⟩
      split
      · rw [deleteV1_hyd]; exact hf
      · exact hf
    · simp only [hs, if_false, Bool.false_eq_true]
      exact ⟨hf, fun hc => by cases hc⟩

theorem migrate_rerun_completes (v : V2 α File) (o : Opts) (nm : α) (d : Disk α File) (f : File)
    (hf : d.hyd = some f) (hs : sameTarget v f nm (dedupe good (allSegs d.v1)) = true) (hne : NoEmptyKey d.v1)
    (hseg : allSegs d.v1 ≠ []) (hdry : o.dryRun = false) :
    (migrate good v o .none nm d).1 = .success ∧ (o.deleteOld = true → (migrate good v o .none nm d).2.v1 = []) := by
  have hany := no_empty_any d.v1 hne
  have hemp : (dedupe good (allSegs d.v1)).isEmpty = false := by
    rw [dedupe_isEmpty]; simpa [List.isEmpty_iff] using hseg
  have hl : early o Fault.none d = .live := by simp [early, hany, hemp, hdry]
  rw [migrate_good_eq, (migrateGood_live v o .none nm d hl).2.2, hf]
  simp only [hs, if_true]
  refine ⟨by first | rfl | trivial, fun hd => ?_⟩
  simp [hd, deleteV1]

theorem migrate_durable_before_delete (v : V2 α File) (o : Opts) (ft : Fault) (nm : α) (d : Disk α File)
    (h0 : d.hyd = none) : (migrate good v o ft nm d).2.v1 ≠ d.v1 → (migrate good v o ft nm d).1 = .success →
    (migrate good v o ft nm d).2.hydSynced = true := by
  rw [migrate_good_eq]
  rcases early_cases o ft d with h | h | h | h
  · rw [migrateGood_load v o ft nm d h]; intro hc; exact absurd rfl hc
  · rw [(migrateGood_empty v o ft nm d h).1]; intro _ hc; cases hc
  · rw [(migrateGood_dry v o ft nm d h).1]; intro hc; exact absurd rfl hc
  · rw [(migrateGood_live v o ft nm d h).2.2, h0]
    simp only
    split
    · intro hc; exact absurd rfl hc
    · split
      · intro hc; exact absurd rfl hc
      · intro _ _
        split
        · simp only [deleteV1]
          split
          · split <;> rfl
          · rfl
          · rfl
        · rfl

theorem migrate_no_silent_drop (v : V2 α File) (o : Opts) (ft : Fault) (nm : α) (d : Disk α File)
    (h0 : d.hyd = none) :
    (migrate good v o ft nm d).1 = .success → o.dryRun = false →
    ∀ e ∈ dedupe good (allSegs d.v1), v.accepts e = true := by
  rw [migrate_good_eq]
  rcases early_cases o ft d with h | h | h | h
  · rw [migrateGood_load v o ft nm d h]; intro hc; cases hc
  · rw [(migrateGood_empty v o ft nm d h).1]; intro hc; cases hc
  · intro _ hd; rw [(migrateGood_dry v o ft nm d h).2] at hd; cases hd
  · rw [(migrateGood_live v o ft nm d h).2.2, h0]
    simp only
    split
    · intro hc; cases hc
    · rename_i hw
      intro _ _ e he
      simp only [Bool.or_eq_true, not_or, Bool.not_eq_true, List.any_eq_false] at hw
      have := hw.2 e he
      simpa using this

end

theorem migrate_name_not_dropped {α : Type} [DecidableEq α] [Inhabited α] {File : Type} (v : V2 α File) (o : Opts)
    (nm : α) (d : Disk α File) : (migrate good v o .metaRead nm d).2.hyd = d.hyd := by
  rw [migrate_good_eq]
  simp [migrateGood]

/-- **The re-run scenario** `migrate(no DeleteOld) ; migrate(DeleteOld)`: the first run writes the file and leaves the
    folder; the second finds the target equal to the legacy data, writes nothing, removes the folder; the file still
    loads to what the legacy engine could load, under the name from the meta file. -/
theorem migrate_twice {α : Type} [DecidableEq α] [Inhabited α] {File : Type} (v : V2 α File) (okE : Entry α → Prop)
    (okN : α → Prop) (hv : v.Lawful okE okN) (vf : Bool) (nm : α) (d : Disk α File) (h0 : d.hyd = none) (hn : okN nm)
    (hok : ∀ s ∈ allSegs d.v1, okE (s.key, s.data)) (hne : NoEmptyKey d.v1) (hseg : allSegs d.v1 ≠ []) :
    let r1 := migrate good v ⟨vf, false, false⟩ .none nm d
    let r2 := migrate good v ⟨vf, true, false⟩ .none nm r1.2
    r1.1 = .success ∧ r1.2.v1 = d.v1 ∧ r2.1 = .success ∧ r2.2.v1 = [] ∧
    ∃ f, r2.2.hyd = some f ∧ LoadsV1 d.v1 (v.loadMap f) ∧ v.nameOf f = nm := by
  have hany := no_empty_any d.v1 hne
  have hemp : (dedupe good (allSegs d.v1)).isEmpty = false := by
    rw [dedupe_isEmpty]; simpa [List.isEmpty_iff] using hseg
  have hdd := dedupe_last good rfl (allSegs d.v1)
  have hes : ∀ e ∈ dedupe good (allSegs d.v1), okE e := by
    intro e he
    obtain ⟨s, hs, rfl⟩ := mem_dedupe good _ e he
    exact hok s hs
  have hacc : (dedupe good (allSegs d.v1)).any (fun e => !v.accepts e) = false := by
    rw [List.any_eq_false]
    intro e he
    simp [hv.acc e (hes e he)]
  have hver := verify_good v okE okN hv nm (dedupe good (allSegs d.v1)) hn hes hdd.1
  have hr1 : migrate good v ⟨vf, false, false⟩ .none nm d =
      (.success, { d with hyd := some (v.write nm (dedupe good (allSegs d.v1))), hydSynced := true }) := by
    rw [migrate_good_eq]
    simp [migrateGood, hany, hemp, hver, Fault.isWrite, h0, hacc, hv.accN nm hn]
  have hsame := sameTarget_written v okE okN hv nm (dedupe good (allSegs d.v1)) hn hes hdd.1
  have hload : v.loadMap (v.write nm (dedupe good (allSegs d.v1))) = loadV1In d.v1 := by
    funext k
    rw [hv.load nm _ hn hes hdd.1 k, hdd.2 k]; rfl
  simp only [hr1]
  have hr2 := migrate_rerun_completes v ⟨vf, true, false⟩ nm
    { d with hyd := some (v.write nm (dedupe good (allSegs d.v1))), hydSynced := true } _ rfl hsame hne hseg rfl
  have hk := migrate_existing_kept v ⟨vf, true, false⟩ .none nm
    { d with hyd := some (v.write nm (dedupe good (allSegs d.v1))), hydSynced := true } _ rfl
  exact ⟨by first | rfl | trivial, by first | rfl | trivial, hr2.1, hr2.2 rfl, _, hk.1, ⟨d.v1, List.Perm.refl _, hload⟩, hv.name _ _ hn hes⟩

theorem holds_good : Holds good :=
  ⟨fun v okE okN hv o nm d h1 h2 h3 h4 h5 h6 => migrate_preserves v okE okN hv o nm d h1 h2 h3 h4 h5 h6,
   fun v o ft nm d ph => migrate_failure_atomic v o ft nm d ph,
   fun v o ft nm d => migrate_delete_last v o ft nm d,
   fun v o nm d => migrate_name_not_dropped v o nm d,
   fun v o ft nm d h => migrate_dryRun_noop v o ft nm d h,
   fun v o ft nm d f h => migrate_existing_kept v o ft nm d f h,
   fun v o nm d f h1 h2 h3 h4 h5 => migrate_rerun_completes v o nm d f h1 h2 h3 h4 h5,
   fun v o ft nm d h => migrate_durable_before_delete v o ft nm d h,
   fun v o ft nm d h0 h1 h2 => migrate_no_silent_drop v o ft nm d h0 h1 h2⟩

/-! ### With the V2 storage model of C01 in place of the assumption

  `Hv.MigrateV2.storV2_lawful` proves `V2.Lawful` for the file the C01 writer model produces and the C01
  `loadIndex` reads (via `Hv.Storage.loadIndex_runOps`, `replay_eq_specOf`, `find_specOf`).  So for byte-string
  records the writer accepts (`okE`: non-empty key < 65536 bytes, payload ≤ 1 GiB) and a non-empty name < 65536
  bytes, `preserves` needs no assumption about the V2 engine beyond a lawful block codec (snappy). -/
theorem migrate_preserves_c01 (codec : Hv.Storage.Codec) (crc : Hv.Storage.Checksum) (o : Opts) (nm : Hv.MigrateV2.B)
    (d : Disk Hv.MigrateV2.B Hv.MigrateV2.B) (h0 : d.hyd = none) (hdry : o.dryRun = false) (hn : Hv.MigrateV2.okN nm)
    (hok : ∀ s ∈ allSegs d.v1, Hv.MigrateV2.okE (s.key, s.data)) (hseg : allSegs d.v1 ≠ []) :
    let v := Hv.MigrateV2.storV2 codec crc
    (migrate good v o .none nm d).1 = .success ∧
    ∃ f, (migrate good v o .none nm d).2.hyd = some f ∧ LoadsV1 d.v1 (v.loadMap f) ∧ v.nameOf f = nm ∧
      (UniqueKeys d.v1 → ∀ m, LoadsV1 d.v1 m → m = v.loadMap f) := by
  have hne : NoEmptyKey d.v1 := by
    intro s hs he
    have := (hok s hs).1.1
    simp only [Hv.MigrateV2.entOf, he] at this
    exact absurd this (by decide)
  exact migrate_preserves _ _ _ (Hv.MigrateV2.storV2_lawful codec crc) o nm d h0 hdry hn hok hne hseg

/-! ### Non-vacuity: a two-chunk folder with a rewritten key, every option, every single failure -/

def exFolder : Folder String :=
  [("chunk-a", [⟨"k1", "v1"⟩, ⟨"k2", "v2"⟩]), ("chunk-b", [⟨"k3", "v3"⟩])]

def exDisk : Disk String (String × List (Entry String)) := { v1 := exFolder, v1Folder := true, hyd := none }

example : (migrate good idV2 ⟨true, true, false⟩ .none "s/r/n" exDisk).1 = .success := by decide
example : (migrate good idV2 ⟨true, true, false⟩ .none "s/r/n" exDisk).2.v1 = [] := by decide
example : (migrate good idV2 ⟨true, true, false⟩ .verify "s/r/n" exDisk).1 = .failed "verify" := by decide
example : (migrate good idV2 ⟨true, true, false⟩ .verify "s/r/n" exDisk).2.v1 = exFolder := by decide
example : (migrate good idV2 ⟨true, true, false⟩ (.write 0) "s/r/n" exDisk).2.hyd = none := by decide
example : (migrate good idV2 ⟨true, true, false⟩ (.unlink 1) "s/r/n" exDisk).2.v1 = [("chunk-b", [⟨"k3", "v3"⟩])] := by decide

theorem idV2_lawful {α : Type} [DecidableEq α] [Inhabited α] : (idV2 : V2 α _).Lawful (fun _ => True) (fun _ => True) :=
  ⟨fun _ _ _ _ _ _ => rfl, fun _ _ _ _ => rfl, fun _ _ _ _ _ _ => rfl, fun _ _ => rfl, fun _ _ => rfl,
   fun f k h => mem_keys_of_lookup f.2 k h, fun _ es k _ _ _ h => lookup_isSome_of_key es k h⟩

/-! ### `verify_weaker` — an observation, not a violation of C23

  `verifyMigration` only checks that every key is present in the new file's index.  A file whose
  values differ passes.  (With a lawful codec the written values are right, so this does not
  break `preserves`; it means verification would not notice a codec defect.) -/
theorem verify_weaker :
    verifyOk good idV2 ("n", [("k1", "CORRUPTED"), ("k2", "v2")]) [("k1", "v1"), ("k2", "v2")] = true := by decide

/-! ### Facts that break the statement: closed witnesses -/

/-- deleting the V1 files *before* verification: a verification failure then loses everything -/
def deleteFirst : MCfg := { good with verifyBeforeDelete := false }

theorem deleteFirst_loses_data :
    let r := migrate deleteFirst idV2 ⟨true, true, false⟩ .verify "s/r/n" exDisk
    r.1 = .failed "verify" ∧ r.2.v1 = [] ∧ r.2.hyd = none := by decide

theorem refutes_deleteFirst : ¬ Holds deleteFirst := by
  intro h
  have := h.failureAtomic idV2 ⟨true, true, false⟩ .verify "s/r/n" exDisk "verify" (by decide)
  have h2 : (migrate deleteFirst idV2 ⟨true, true, false⟩ .verify "s/r/n" exDisk).2.v1 = exDisk.v1 := by rw [this]
  exact absurd h2 (by decide)

/-- keeping the *first* value of a key: differs from every legacy load when a chunk holds a key twice -/
def dedupeFirst : MCfg := { good with dedupeLast := false }

def dupFolder : Folder String := [("chunk-a", [⟨"k", "old"⟩, ⟨"k", "new"⟩])]

theorem dedupeFirst_witness :
    (migrate dedupeFirst idV2 ⟨true, false, false⟩ .none "n" { v1 := dupFolder, v1Folder := true, hyd := none }).2.hyd
      = some ("n", [("k", "old")]) := by decide

theorem legacy_loads_new (m : String → Option String) (h : LoadsV1 dupFolder m) : m "k" = some "new" := by
  obtain ⟨perm, hp, rfl⟩ := h
  have : perm = dupFolder := List.perm_singleton.mp hp
  subst this
  decide

theorem refutes_dedupeFirst : ¬ Holds dedupeFirst := by
  intro h
  have := h.preserves (idV2 : V2 String _) _ _ idV2_lawful ⟨true, false, false⟩ "n" { v1 := dupFolder, v1Folder := true, hyd := none }
    rfl rfl trivial (fun _ _ => trivial)
    (by intro s hs; simp [allSegs, dupFolder] at hs; rcases hs with rfl | rfl <;> decide) (by decide)
  obtain ⟨_, f, hf, hl, _, _⟩ := this
  rw [dedupeFirst_witness] at hf
  cases hf
  have := legacy_loads_new _ hl
  exact absurd this (by decide)

/-- leaving the .hyd file behind after a failed verification -/
def keepHyd : MCfg := { good with removeOnVerifyFail := false }

theorem refutes_keepHyd : ¬ Holds keepHyd := by
  intro h
  have := h.failureAtomic idV2 ⟨true, false, false⟩ .verify "s/r/n" exDisk "verify" (by decide)
  have h2 : (migrate keepHyd idV2 ⟨true, false, false⟩ .verify "s/r/n" exDisk).2.hyd = exDisk.hyd := by rw [this]
  exact absurd h2 (by decide)

/-- a failure while *creating* the .hyd file (header or swamp name cannot be written) leaves the
    partly written file behind: the migration has failed, yet a `.hyd` now shadows the intact V1 folder -/
def keepPartial : MCfg := { good with removeOnOpenFail := false }

theorem keepPartial_leaves_file :
    let r := migrate keepPartial idV2 ⟨true, false, false⟩ (.write 0) "s/r/n" exDisk
    r.1 = .failed "write" ∧ r.2.v1 = exFolder ∧ r.2.hyd = some ("s/r/n", []) := by decide

theorem refutes_keepPartial : ¬ Holds keepPartial := by
  intro h
  have := h.failureAtomic idV2 ⟨true, false, false⟩ (.write 0) "s/r/n" exDisk "write" (by decide)
  have h2 : (migrate keepPartial idV2 ⟨true, false, false⟩ (.write 0) "s/r/n" exDisk).2.hyd = exDisk.hyd := by rw [this]
  exact absurd h2 (by decide)

/-- `_partial`: apart from that one failure point the whole statement holds for `keepPartial`:
    it differs from `good` only in what a stage-0 write failure leaves behind -/
theorem keepPartial_partial {α : Type} [DecidableEq α] [Inhabited α] {File : Type} (v : V2 α File) (o : Opts) (ft : Fault) (nm : α) (d : Disk α File)
    (hft : ft ≠ .write 0) : migrate keepPartial v o ft nm d = migrate good v o ft nm d := by
  simp only [migrate, keepPartial, good]
  cases ft with
  | write st =>
    cases st with
    | zero => exact absurd rfl hft
    | succ n => rfl
  | _ => rfl

/-- an unreadable meta file is only logged: the migration goes on and writes a .hyd without the swamp name;
    with `DeleteOld` the meta file — the only copy of the name — is then deleted -/
def nameDropped : MCfg := { good with metaErrorAborts := false }

theorem nameDropped_witness :
    let r := migrate nameDropped idV2 ⟨true, true, false⟩ .metaRead "s/r/n" exDisk
    r.1 = .success ∧ r.2.v1 = [] ∧ r.2.hyd.map (·.1) = some "" := by decide

theorem refutes_nameDropped : ¬ Holds nameDropped := by
  intro h
  have := h.nameNotDropped (idV2 : V2 String _) ⟨true, true, false⟩ "s/r/n" exDisk
  exact absurd this (by decide)

theorem nameDropped_partial {α : Type} [DecidableEq α] [Inhabited α] {File : Type} (v : V2 α File) (o : Opts) (ft : Fault)
    (nm : α) (d : Disk α File) (hft : ft ≠ .metaRead) : migrate nameDropped v o ft nm d = migrate good v o ft nm d := by
  simp only [migrate, nameDropped, good, hft, dedupe, verifyOk]
  simp

/-- `writeV2File` on a target path that is not free.  `NewFileWriterWithName` opens a file that exists for
    appending: its header — and with it its swamp name — stays, its records stay under the appended ones.  A
    later `WriteEntry` / `Close` error or a failed verification then `os.Remove`s the file: the one that was there
    before the run.  (How a file gets there: an earlier run without `DeleteOld`, after which the V2 engine has been
    writing to it; an interrupted run; a file put there.) -/
def appendsExisting : MCfg := { good with refusesExisting := false }

def preFile : String × List (Entry String) := ("other/swamp/name", [("k1", "written-by-the-v2-engine-since"), ("zz", "only-in-v2")])
def preDisk : Disk String (String × List (Entry String)) := { v1 := exFolder, v1Folder := true, hyd := some preFile }

/-- success is reported, the V1 folder is deleted — and the file loads a record the legacy engine never had,
    under another swamp's name -/
theorem appendsExisting_mixes :
    let r := migrate appendsExisting idV2 ⟨true, true, false⟩ .none "s/r/n" preDisk
    r.1 = .success ∧ r.2.v1 = [] ∧ (r.2.hyd.map fun f => (idV2.nameOf f, idV2.loadMap f "zz", idV2.loadMap f "k1"))
      = some ("other/swamp/name", some "only-in-v2", some "v1") := by decide

/-- a failing block write, or a failing verification, removes the file that was there before the run -/
theorem appendsExisting_destroys :
    (migrate appendsExisting idV2 ⟨true, false, false⟩ (.write 1) "s/r/n" preDisk).2.hyd = none ∧
    (migrate appendsExisting idV2 ⟨true, false, false⟩ .verify "s/r/n" preDisk).2.hyd = none := by decide

theorem refutes_appendsExisting : ¬ Holds appendsExisting := by
  intro h
  have := (h.existingKept idV2 ⟨true, true, false⟩ .none "s/r/n" preDisk preFile rfl).2 (by decide)
  exact absurd this (by decide)

/-- `_partial`: on a free target path — every first migration — `appendsExisting` is the good migrator -/
theorem appendsExisting_partial {α : Type} [DecidableEq α] [Inhabited α] {File : Type} (v : V2 α File) (o : Opts) (ft : Fault)
    (nm : α) (d : Disk α File) (h0 : d.hyd = none) : migrate appendsExisting v o ft nm d = migrate good v o ft nm d := by
  obtain ⟨v1, fol, hyd⟩ := d
  simp only at h0
  subst h0
  simp only [migrate, appendsExisting, good, dedupe, verifyOk]
  rfl

/-- the good migrator on the same disk: reports the swamp as failed and touches nothing -/
theorem good_refuses_existing :
    let r := migrate good idV2 ⟨true, true, false⟩ .none "s/r/n" preDisk
    r.1 = .failed "write" ∧ r.2.v1 = exFolder ∧ r.2.hyd = some preFile := by decide

/-- the target-exists refusal without the target-equals-legacy test: after a first run without `DeleteOld` every later
    run fails each swamp ("target exists"), so the tool can never remove the V1 folders -/
def refusesEqual : MCfg := { good with acceptsEqualTarget := false }

def migratedDisk : Disk String (String × List (Entry String)) :=
  (migrate good idV2 ⟨true, false, false⟩ .none "s/r/n" exDisk).2

theorem first_run_keeps_folder : migratedDisk.v1 = exFolder ∧ migratedDisk.hyd.isSome = true := by decide

theorem refusesEqual_never_finishes :
    let r := migrate refusesEqual idV2 ⟨true, true, false⟩ .none "s/r/n" migratedDisk
    r.1 = .failed "write" ∧ r.2.v1 = exFolder := by decide

/-- the good migrator on the same disk: already migrated, the folder goes, the file stays -/
theorem good_finishes_rerun :
    let r := migrate good idV2 ⟨true, true, false⟩ .none "s/r/n" migratedDisk
    r.1 = .success ∧ r.2.v1 = [] ∧ r.2.hyd = migratedDisk.hyd := by decide

theorem refutes_refusesEqual : ¬ Holds refusesEqual := by
  intro h
  have := (h.rerunCompletes (idV2 : V2 String _) ⟨true, true, false⟩ "s/r/n" migratedDisk
    ("s/r/n", [("k1", "v1"), ("k2", "v2"), ("k3", "v3")]) (by decide) (by decide)
    (by
      intro s hs
      have hv1 : migratedDisk.v1 = exFolder := by decide
      rw [hv1] at hs
      simp [allSegs, exFolder] at hs
      rcases hs with rfl | rfl | rfl <;> decide) (by decide) rfl).1
  exact absurd this (by decide)

/-- `DeleteOld` without a preceding fsync of the new file: a power loss after the unlinks leaves neither copy -/
def noSync : MCfg := { good with syncsBeforeDelete := false }

theorem refutes_noSync : ¬ Holds noSync := by
  intro h
  have := h.durableBeforeDelete (idV2 : V2 String _) ⟨true, true, false⟩ .none "s/r/n" exDisk rfl (by decide) (by decide)
  exact absurd this (by decide)

/-- a V1 record whose key the V2 format cannot carry (an empty key fails the load phase before; here: a writer
    that refuses the key "k2", as `WriteEntry` refuses a key longer than 65535 bytes — `Hv.MigrateV2.long_key_refused`):
    the swamp fails in phase "write", nothing is dropped, nothing is left behind, the V1 folder stays -/
def pickyV2 : V2 String (String × List (Entry String)) := { (idV2 : V2 String _) with accepts := fun e => e.1 != "k2" }

theorem unstorable_key_aborts :
    let r := migrate good pickyV2 ⟨true, true, false⟩ .none "s/r/n" exDisk
    r.1 = .failed "write" ∧ r.2.v1 = exFolder ∧ r.2.hyd = none := by decide

/-! ### The V1 writer's chunk-overflow path (`writeNewTreasures`)

  A batch of new treasures is appended to the actual chunk; when the running size estimate exceeds the
  limit at treasure `k` and more treasures follow, `k` *is* written to the old chunk, a new chunk is
  started for the rest — and the loop `break`s before it records `k`'s file-pointer event.  The swamp
  therefore never learns where `k` lives; the next save of `k` is treated as a new treasure and is
  appended to the current chunk: the key is on disk twice, in two files, and the legacy `Load`
  (map iteration order) returns either value.

  Model: each treasure has size 1, a chunk overflows when it holds more than `max` treasures. -/
namespace Overflow

structure St where
  chunks   : List (List (Seg String))        -- oldest first; the last one is the actual chunk
  pointers : List String            -- keys whose chunk the swamp knows
  deriving Repr, DecidableEq

/-- `recordsOverflowKey`: the repaired behaviour (record the pointer before `break`) -/
def writeNew (recordsOverflowKey : Bool) (max : Nat) : St → List (Seg String) → St
  | st, [] => st
  | st, s :: rest =>
    let cur := st.chunks.getLastD []
    let init := st.chunks.dropLast
    let cur' := cur ++ [s]
    if cur'.length > max && !rest.isEmpty then
      -- overflow at `s` with treasures still to come: roll a new chunk for the rest
      let st' : St := { chunks := init ++ [cur', []],
                        pointers := if recordsOverflowKey then s.key :: st.pointers else st.pointers }
      writeNew recordsOverflowKey max st' rest
    else
      writeNew recordsOverflowKey max { chunks := init ++ [cur'], pointers := s.key :: st.pointers } rest

/-- a save: treasures whose chunk is known are rewritten in place, the others are appended as new -/
def save (rec : Bool) (max : Nat) (st : St) (batch : List (Seg String)) : St :=
  let known := batch.filter (fun s => st.pointers.contains s.key)
  let fresh := batch.filter (fun s => !st.pointers.contains s.key)
  let st1 : St := { st with chunks := st.chunks.map (fun c => c.map (fun x =>
      match known.find? (fun s => s.key == x.key) with
      | some s => s
      | none => x)) }
  writeNew rec max st1 fresh

def keysOf (st : St) : List String := (st.chunks.flatMap id).map (·.key)

/-- current writer: three new treasures with room for two, then `b` is saved again — `b` is on disk twice -/
theorem overflow_duplicates_key :
    keysOf (save false 2 (save false 2 ⟨[[]], []⟩ [⟨"a", "1"⟩, ⟨"b", "1"⟩, ⟨"c", "1"⟩, ⟨"d", "1"⟩]) [⟨"c", "2"⟩])
      = ["a", "b", "c", "d", "c"] := by decide

/-- with the pointer recorded the same history keeps the keys distinct and rewrites `c` in place -/
theorem no_duplicate_when_recorded :
    (save true 2 (save true 2 ⟨[[]], []⟩ [⟨"a", "1"⟩, ⟨"b", "1"⟩, ⟨"c", "1"⟩, ⟨"d", "1"⟩]) [⟨"c", "2"⟩]).chunks
      = [[⟨"a", "1"⟩, ⟨"b", "1"⟩, ⟨"c", "2"⟩], [⟨"d", "1"⟩]] := by decide

end Overflow

/-! ### Decision over the extracted facts -/

structure Facts where
  dedupeLast         : Tri    -- `entryMap[entry.Key] = entry` unconditionally
  writeBeforeDelete  : Tri    -- order of the calls in `migrateSwamp`
  verifyBeforeDelete : Tri
  removeOnVerifyFail : Tri    -- `os.Remove(hydFilePath)` in the verify-failure branch
  removeOnWriteFail  : Tri    -- `os.Remove(filePath)` in both error branches of `writeV2File`
  removeOnOpenFail   : Tri    -- nothing is left when `NewFileWriterWithName` fails after creating the file
  emptyKeyIsError    : Tri
  metaErrorAborts    : Tri    -- a failing `loadSwampNameFromMeta` (other than: no meta file) fails the migration
  verifyValues       : Tri    -- `verifyMigration` looks at entry data (currently: keys only)
  refusesExisting    : Tri    -- `migrateSwamp` fails the swamp before `writeV2File` when the target path is not free
  acceptsEqualTarget : Tri    -- … unless `targetEqualsLegacy` (same name, same keys, same values): then it goes on to the delete step
  syncsBeforeDelete  : Tri    -- `FileWriter.Close` fsyncs before it closes, and `writeV2File` fails on its error
  skipsZeroLength    : Tri    -- `parseV1Segments`: `if length == 0 { continue }`
  nameFromMeta       : Tri    -- the name written into the .hyd header comes from the meta file
  v1LoadIteratesMap  : Tri    -- legacy `Load` ranges over a Go map of file contents
  deriving Repr

def cfgOf (f : Facts) : MCfg :=
  ⟨f.dedupeLast.isYes, f.verifyBeforeDelete.isYes, f.writeBeforeDelete.isYes, f.removeOnVerifyFail.isYes,
   f.removeOnWriteFail.isYes, f.removeOnOpenFail.isYes, f.emptyKeyIsError.isYes, f.metaErrorAborts.isYes, f.verifyValues.isYes,
   f.refusesExisting.isYes, f.acceptsEqualTarget.isYes, f.syncsBeforeDelete.isYes⟩

def anyUnknown (f : Facts) : Bool :=
  [f.dedupeLast, f.writeBeforeDelete, f.verifyBeforeDelete, f.removeOnVerifyFail, f.removeOnWriteFail, f.removeOnOpenFail,
   f.emptyKeyIsError, f.metaErrorAborts, f.verifyValues, f.refusesExisting, f.acceptsEqualTarget, f.syncsBeforeDelete, f.skipsZeroLength, f.nameFromMeta, f.v1LoadIteratesMap].any (· == .unknown)

def classify (f : Facts) : Verdict :=
  if anyUnknown f then .undetermined "a-migrator-pattern-was-not-recognised"
  else if f.nameFromMeta == .no then .undetermined "swamp-name-does-not-come-from-the-meta-file"
  else if cfgOf f = good then .holds
  else if cfgOf f = deleteFirst then .violated ["C23-delete-before-verify"]
  else if cfgOf f = dedupeFirst then .violated ["C23-dedupe-keeps-first"]
  else if cfgOf f = keepHyd then .violated ["C23-hyd-left-after-failed-verify"]
  else if cfgOf f = keepPartial then .violated ["C23-hyd-left-after-failed-create"]
  else if cfgOf f = nameDropped then .violated ["C23-name-lost-when-meta-unreadable"]
  else if cfgOf f = appendsExisting then .violated ["C23-existing-hyd-appended"]
  else if cfgOf f = refusesEqual then .violated ["C23-rerun-never-completes"]
  else if cfgOf f = noSync then .violated ["C23-delete-before-fsync"]
  else .undetermined "no-theorem-covers-this-combination-of-migrator-facts"

theorem classify_sound (f : Facts) : (classify f).Sound (Holds (cfgOf f)) := by
  unfold classify
  split
  · trivial
  · split
    · trivial
    · split
      · rename_i h; rw [h]; exact holds_good
      · split
        · rename_i h; rw [h]; exact ⟨refutes_deleteFirst, trivial⟩
        · split
          · rename_i h; rw [h]; exact ⟨refutes_dedupeFirst, trivial⟩
          · split
            · rename_i h; rw [h]; exact ⟨refutes_keepHyd, trivial⟩
            · split
              · rename_i h; rw [h]; exact ⟨refutes_keepPartial, trivial⟩
              · split
                · rename_i h; rw [h]; exact ⟨refutes_nameDropped, trivial⟩
                · split
                  · rename_i h; rw [h]; exact ⟨refutes_appendsExisting, trivial⟩
                  · split
                    · rename_i h; rw [h]; exact ⟨refutes_refusesEqual, trivial⟩
                    · split
                      · rename_i h; rw [h]; exact ⟨refutes_noSync, trivial⟩
                      · trivial

end Hv.C23
