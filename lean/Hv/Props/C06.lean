/-
  C06 — Single-client API behaves like a simple key-value model.

  "For any sequence of requests issued one at a time against a swamp, every response (statuses,
   returned values, counts, existence flags) and the resulting contents match a straightforward
   reference key-value model of the documented semantics. This covers set with create/overwrite
   flags, get, delete with automatic removal of empty swamps, typed increments with conditions,
   uint32-set push/delete, shift by keys, counts and existence checks, and every such request
   returns."

  Quantifier: every finite history of `Hv.Data.Req` (all non-streaming data RPCs), every swamp
  kind, every float arithmetic.  Model: `Hv/Data/KV.lean` (`Model.step`, mirrors gateway.go /
  swamp.go / treasure.go at mechanism level, parametrised by the extracted facts); reference:
  `Spec.step` in the same file (documented semantics, DESIGN App. F).
-/
import Hv.Data.KVLemmas6
import Hv.Basic.Verdict

namespace Hv.C06
open Hv.Data

/-- a history: server clock at each request, and the request -/
abbrev Hist := List (Int × Req)

/-- model run: replies, final state, quirk tags raised -/
def runM (cfg : Cfg) (ar : Arith) : State → Hist → List Resp × State × List Tag
  | s, [] => ([], s, [])
  | s, (now, r) :: rest =>
    let o := Model.step cfg ar now s r
    let x := runM cfg ar o.s rest
    (o.r :: x.1, x.2.1, o.tags ++ x.2.2)

/-- reference run -/
def runS (ar : Arith) : Spec.Store → Hist → List Resp × Spec.Store
  | st, [] => ([], st)
  | st, (now, r) :: rest =>
    let o := Spec.step ar now st r
    let x := runS ar o.1 rest
    (o.2 :: x.1, x.2)

def init (kind : Kind) : State := { kind := kind }

/-- The full-strength statement for given code facts: on a fresh swamp of any kind, every
    history is answered exactly as the reference answers it, the stored contents agree at the
    end, and no request hangs. -/
structure Holds (cfg : Cfg) : Prop where
  refines : ∀ (ar : Arith) (kind : Kind) (h : Hist),
    (runM cfg ar (init kind) h).1 = (runS ar [] h).1 ∧
    Model.abs (runM cfg ar (init kind) h).2.1 = (runS ar [] h).2
  returns : ∀ (ar : Arith) (kind : Kind) (h : Hist), (runM cfg ar (init kind) h).2.1.dead = false

theorem inv_init (cfg : Cfg) (kind : Kind) : Inv cfg (init kind) :=
  ⟨rfl, rfl, fun i hi => by cases hi⟩

/-- simulation over a whole history, from any state satisfying the invariant -/
theorem run_sim (cfg : Cfg) (ar : Arith) (h : Hist) :
    ∀ (s : State), Inv cfg s → Q cfg (runM cfg ar s h).2.2 →
    (runM cfg ar s h).1 = (runS ar (Model.abs s) h).1 ∧
    Model.abs (runM cfg ar s h).2.1 = (runS ar (Model.abs s) h).2 ∧
    Inv cfg (runM cfg ar s h).2.1 := by
  induction h with
  | nil => intro s hinv _; exact ⟨rfl, rfl, hinv⟩
  | cons p rest ih =>
    intro s hinv hq
    obtain ⟨now, r⟩ := p
    simp only [runM, runS] at hq ⊢
    obtain ⟨a1, a2, a3⟩ := step_sim cfg ar now s r hinv hq.left
    obtain ⟨b1, b2, b3⟩ := ih (Model.step cfg ar now s r).s a3 hq.right
    rw [a2] at b1 b2
    exact ⟨by rw [a1, b1], b2, b3⟩

/-- **C06 for good facts**: every history, every kind, every arithmetic. -/
theorem model_refines_spec (cfg : Cfg) (hg : cfg.good = true) : Holds cfg := by
  refine ⟨fun ar kind h => ?_, fun ar kind h => ?_⟩
  · obtain ⟨a, b, _⟩ := run_sim cfg ar h (init kind) (inv_init cfg kind) (Or.inl hg)
    exact ⟨a, b⟩
  · exact (run_sim cfg ar h (init kind) (inv_init cfg kind) (Or.inl hg)).2.2.alive

/-- **C06_partial**, for ANY facts: a history during which the model exercises none of the quirk
    mechanisms is answered exactly as the reference answers it, and does not hang. -/
def HoldsPartial (cfg : Cfg) : Prop :=
  ∀ (ar : Arith) (kind : Kind) (h : Hist), (runM cfg ar (init kind) h).2.2 = [] →
    (runM cfg ar (init kind) h).1 = (runS ar [] h).1 ∧
    Model.abs (runM cfg ar (init kind) h).2.1 = (runS ar [] h).2 ∧
    (runM cfg ar (init kind) h).2.1.dead = false

theorem C06_partial (cfg : Cfg) : HoldsPartial cfg := by
  intro ar kind h ht
  obtain ⟨a, b, c⟩ := run_sim cfg ar h (init kind) (inv_init cfg kind) (Or.inr ht)
  exact ⟨a, b, c.alive⟩

/-! ### invariants of reachable states (good facts) -/

/-- states reached from a fresh swamp -/
def Reach (cfg : Cfg) (ar : Arith) (kind : Kind) (s : State) : Prop :=
  ∃ h, (runM cfg ar (init kind) h).2.1 = s

theorem reach_inv (cfg : Cfg) (hg : cfg.good = true) (ar : Arith) (kind : Kind) (s : State)
    (hr : Reach cfg ar kind s) : Inv cfg s := by
  obtain ⟨h, rfl⟩ := hr
  exact (run_sim cfg ar h (init kind) (inv_init cfg kind) (Or.inl hg)).2.2

/-- a swamp exists (IsSwampExist) iff it holds at least one record — for every kind, in
    particular for persistent swamps -/
theorem exists_iff_nonempty (cfg : Cfg) (hg : cfg.good = true) (ar : Arith) (kind : Kind) (s : State)
    (hr : Reach cfg ar kind s) : Model.exists_ s = !(Model.abs s).isEmpty :=
  (touch cfg s (reach_inv cfg hg ar kind s hr)).2.2

/-- the Count reply is the size of the reference store -/
theorem count_eq_size (cfg : Cfg) (hg : cfg.good = true) (ar : Arith) (kind : Kind) (s : State)
    (hr : Reach cfg ar kind s) : (Model.summon s).recs.length = (Model.abs s).length := by
  obtain ⟨_, b, _⟩ := touch cfg s (reach_inv cfg hg ar kind s hr)
  rw [← b, absI, AL.length_mapV]

/-- IsKeyExist / AreKeysExist agree with lookup in the reference store -/
theorem exists_iff_find (cfg : Cfg) (hg : cfg.good = true) (ar : Arith) (kind : Kind) (s : State)
    (hr : Reach cfg ar kind s) (k : Key) :
    AL.has k (Model.summon s).recs = (AL.find k (Model.abs s)).isSome := by
  obtain ⟨_, b, _⟩ := touch cfg s (reach_inv cfg hg ar kind s hr)
  rw [← b, ← has_absI]; rfl

theorem errOr_ne_hang (e : Bool) : errOr e ≠ .hang := by cases e <;> simp [errOr]

/-- the reference never answers "hang" -/
theorem specV_ne_hang (ar : Arith) (now : Int) (st : Spec.Store) (req : Req) :
    (Spec.stepV ar now st req).2 ≠ .hang := by
  cases req with
  | set c o items => simp only [Spec.stepV]; split <;> (try split) <;> (try split) <;> simp
  | get keys => simp only [Spec.stepV]; split <;> simp
  | getAll => simp only [Spec.stepV]; split <;> simp
  | getByKeys keys => simp only [Spec.stepV]; split <;> simp
  | shift keys => simp only [Spec.stepV]; split <;> simp
  | del keys => simp only [Spec.stepV]; split <;> simp
  | count => simp [Spec.stepV]
  | isKey k => simp only [Spec.stepV]; split <;> simp
  | areKeys keys => simp [Spec.stepV]
  | isSwamp => simp [Spec.stepV]
  | inc ty k b c i1 i2 =>
    simp only [Spec.stepV, Spec.incStep, Spec.incCore]
    split
    · simp
    · split
      · simp
      · split <;> simp
  | push pairs => simp only [Spec.stepV]; exact errOr_ne_hang _
  | u32del pairs => simp only [Spec.stepV]; exact errOr_ne_hang _
  | size k => simp only [Spec.stepV]; split <;> (try split) <;> simp
  | hasVal k v => simp only [Spec.stepV]; split <;> (try split) <;> simp

theorem spec_ne_hang (ar : Arith) (now : Int) (st : Spec.Store) (req : Req) :
    (Spec.step ar now st req).2 ≠ .hang := by
  unfold Spec.step
  split
  · simp
  · exact specV_ne_hang ar now st req

/-- no request hangs (`step_total`) -/
theorem step_total (cfg : Cfg) (hg : cfg.good = true) (ar : Arith) (kind : Kind) (s : State)
    (hr : Reach cfg ar kind s) (now : Int) (r : Req) : (Model.step cfg ar now s r).r ≠ .hang := by
  have hinv := reach_inv cfg hg ar kind s hr
  rw [(step_sim cfg ar now s r hinv (Or.inl hg)).1]
  exact spec_ne_hang ar now _ r

/-! ### counterexamples: one closed history per bad fact, valid whatever the other facts are -/

/-- arithmetic for the witnesses (none of them uses floats) -/
def ar0 : Arith := { fadd := fun _ _ _ => 0, flt := fun _ _ _ => false, feq := fun _ _ _ => false }

def k5 : Item := { key := "k", val := .int .i64 5 }
def k5u : Item := { key := "k", val := .int .i64 5, cb := "u1" }
def kNeg : Item := { key := "k", val := .int .i64 5, exp := -500000000 }
def kVoid : Item := { key := "k", val := .none }
def kS1 : Item := { key := "k", val := .u32s [1] }
def kS2 : Item := { key := "k", val := .u32s [2] }

def hSticky : Hist := [(0, .set true true [k5]), (0, .set true true [k5])]
def hMeta : Hist := [(0, .set true true [k5u]), (0, .set true true [k5u])]
def hTs : Hist := [(0, .set true true [kNeg])]
def hVoid : Hist := [(0, .set true true [k5]), (0, .set true true [kVoid]), (0, .get ["k"])]
def hPushTyped : Hist := [(0, .set true true [k5]), (0, .push [("k", [1])])]
def hSliceMerge : Hist := [(0, .set true true [kS1]), (0, .set true true [kS2]), (0, .get ["k"])]
def hDeadlock : Hist := [(0, .push [("k", [1])]), (0, .u32del [("k", [1])])]
def hDelTyped : Hist := [(0, .set true true [k5]), (0, .u32del [("k", [1])])]
def hIncFail : Hist := [(0, .inc (.int .i64) "k" 1 (some (.eq, 5)) none none), (0, .isSwamp)]
def hEmptyLive : Hist := [(0, .size "k"), (0, .isSwamp)]
def hArek : Hist := [(0, .areKeys ["k"])]
def hCount : Hist := [(0, .count)]
def hSetErr : Hist := [(0, .set false false [k5])]
/-- a Set under the empty key -/
def hKey : Hist := [(0, .set true true [{ key := "", val := .int .i64 5 }])]
theorem validKey_k : validKey "k" = true := by decide
theorem validKey_empty : validKey "" = false := by decide
/-- `cur > ref` under an arithmetic in which no two numbers are ordered or equal (every operand a NaN) -/
def hNan : Hist := [(0, .inc (.flt .f64) "k" 4607182418800017408 (some (.gt, 0)) none none)]

/-- a history on which replies or final stores differ refutes `Holds` -/
theorem not_holds_of (cfg : Cfg) (ar : Arith) (kind : Kind) (h : Hist)
    (hne : ¬ ((runM cfg ar (init kind) h).1 = (runS ar [] h).1 ∧
              Model.abs (runM cfg ar (init kind) h).2.1 = (runS ar [] h).2)) : ¬ Holds cfg :=
  fun hh => hne (hh.refines ar kind h)

/-- evaluation of a closed history with symbolic facts -/
macro "kv_eval" "[" hs:Lean.Parser.Tactic.simpLemma,* "]" : tactic => `(tactic|
  simp [$hs,*, runM, runS, init, Model.step, Model.stepCore, Spec.step, Model.ghost, Model.exists_, Model.abs, AL.mapV,
    Model.summon, Model.setLoop, Model.setOne, Spec.setAll, Spec.setOne, Spec.applyItem, AL.has, AL.find,
    Model.createTreasure, Model.applyItem, normVal, dedupVal, setValue, setScalar, setVoid, pushRaw, delRaw,
    Content.fresh, Content.vis, Content.ofVal, Model.validTs, Model.itemSupplied, Model.metaFlag, itemMeta,
    Model.valueTags, Model.tsTags, Model.save, AL.insert, AL.erase, Model.settleAfterTouch,
    Model.settleAfterDelete, Model.withLive, Model.destroy, Cfg.setters, MRec.abs, wire, pushU32, delU32,
    dedupAcc, Model.pushLoop, Model.pushOne, Model.pushSet, Spec.foldPairs, Spec.pushOne, Spec.u32delOne,
    Model.u32delLoop, Model.u32delOne, Model.u32delFinish, Model.deleteRec, Model.idxRemove, Model.idxAdd,
    errOr, Val.scalar, Val.isSlice, Val.sliceD, Model.incStep, Model.incCore, Model.incStart, Model.incApply,
    Model.park, Model.applyIncMeta, Spec.incStep, Spec.incCore, Spec.incStart, Spec.applyIncMeta, numIsZero,
    numZero, numVal, numOf, numAdd, numCmp, numWrap, IntTy.wrap, IntTy.bits, IntTy.signed, condHolds, metaResp, flagMap, loadRec,
    k5, k5u, kNeg, kVoid, kS1, kS2, hSticky, hMeta, hTs, hVoid, hPushTyped, hSliceMerge, hDeadlock, hDelTyped,
    hIncFail, hEmptyLive, hArek, hCount, hSetErr, hNan, hKey, Model.stepCoreV, Spec.stepV, Req.badKey, validKey_k, validKey_empty, Model.cmpArith, Model.negCmp, Model.isFltOrd, fltIsZero, ar0])


theorem wit_setErr (cfg : Cfg) (h : cfg.setErrSingle = false) : ¬ Holds cfg := by
  apply not_holds_of cfg ar0 .mem hSetErr
  kv_eval [h]
theorem wit_count (cfg : Cfg) (h : cfg.countMissingOk = false) : ¬ Holds cfg := by
  apply not_holds_of cfg ar0 .mem hCount
  kv_eval [h]
theorem wit_arek (cfg : Cfg) (h : cfg.arekAllFalse = false) : ¬ Holds cfg := by
  apply not_holds_of cfg ar0 .mem hArek
  kv_eval [h]
theorem wit_sticky (cfg : Cfg) (h : cfg.resetsFlags = false) : ¬ Holds cfg := by
  apply not_holds_of cfg ar0 .mem hSticky
  kv_eval [h]
theorem wit_meta (cfg : Cfg) (h : cfg.metaCompare = false) : ¬ Holds cfg := by
  apply not_holds_of cfg ar0 .mem hMeta
  kv_eval [h]
theorem wit_ts (cfg : Cfg) (h : cfg.tsPositive = false) : ¬ Holds cfg := by
  apply not_holds_of cfg ar0 .mem hTs
  cases h0 : cfg.resetsFlags <;> kv_eval [h, h0]
theorem wit_void (cfg : Cfg) (h : cfg.voidClears = false) : ¬ Holds cfg := by
  apply not_holds_of cfg ar0 .mem hVoid
  cases h0 : cfg.resetsFlags <;> kv_eval [h, h0]
theorem wit_pushTyped (cfg : Cfg) (h : cfg.pushChecksType = false) : ¬ Holds cfg := by
  apply not_holds_of cfg ar0 .mem hPushTyped
  kv_eval [h]
theorem wit_sliceMerge (cfg : Cfg) (h : cfg.setSliceReplaces = false) : ¬ Holds cfg := by
  apply not_holds_of cfg ar0 .mem hSliceMerge
  cases h0 : cfg.resetsFlags <;> kv_eval [h, h0]
theorem wit_deadlock (cfg : Cfg) (h : cfg.u32delReleases = false) : ¬ Holds cfg := by
  apply not_holds_of cfg ar0 .mem hDeadlock
  cases h0 : cfg.resetsFlags <;> cases h1 : cfg.u32delChecksType <;> kv_eval [h, h0, h1]
theorem wit_delTyped (cfg : Cfg) (h : cfg.u32delChecksType = false) : ¬ Holds cfg := by
  apply not_holds_of cfg ar0 .mem hDelTyped
  cases h0 : cfg.resetsFlags <;> cases h1 : cfg.u32delReleases <;> kv_eval [h, h0, h1]
theorem wit_incFail (cfg : Cfg) (h : cfg.incFailClean = false) : ¬ Holds cfg := by
  apply not_holds_of cfg ar0 .mem hIncFail
  kv_eval [h]
theorem wit_nanCond (cfg : Cfg) (h : cfg.fltCondDirect = false) : ¬ Holds cfg := by
  apply not_holds_of cfg ar0 .mem hNan
  cases h0 : cfg.resetsFlags <;> cases h1 : cfg.incFailClean <;> kv_eval [h, h0, h1]
theorem wit_key (cfg : Cfg) (h : cfg.keyChecked = false) : ¬ Holds cfg := by
  apply not_holds_of cfg ar0 .mem hKey
  kv_eval [h]
theorem wit_emptyLive (cfg : Cfg) (h : cfg.noEmptyLive = false) : ¬ Holds cfg := by
  apply not_holds_of cfg ar0 .mem hEmptyLive
  kv_eval [h]

/-- any bad fact refutes the full statement -/
theorem not_holds_of_not_good (cfg : Cfg) (h : cfg.good = false) : ¬ Holds cfg := by
  cases h1 : cfg.resetsFlags with
  | false => exact wit_sticky cfg h1
  | true =>
  cases h2 : cfg.metaCompare with
  | false => exact wit_meta cfg h2
  | true =>
  cases h3 : cfg.tsPositive with
  | false => exact wit_ts cfg h3
  | true =>
  cases h4 : cfg.voidClears with
  | false => exact wit_void cfg h4
  | true =>
  cases h5 : cfg.pushChecksType with
  | false => exact wit_pushTyped cfg h5
  | true =>
  cases h6 : cfg.setSliceReplaces with
  | false => exact wit_sliceMerge cfg h6
  | true =>
  cases h7 : cfg.u32delReleases with
  | false => exact wit_deadlock cfg h7
  | true =>
  cases h8 : cfg.u32delChecksType with
  | false => exact wit_delTyped cfg h8
  | true =>
  cases h9 : cfg.incFailClean with
  | false => exact wit_incFail cfg h9
  | true =>
  cases h10 : cfg.noEmptyLive with
  | false => exact wit_emptyLive cfg h10
  | true =>
  cases h11 : cfg.arekAllFalse with
  | false => exact wit_arek cfg h11
  | true =>
  cases h12 : cfg.countMissingOk with
  | false => exact wit_count cfg h12
  | true =>
  cases h13 : cfg.setErrSingle with
  | false => exact wit_setErr cfg h13
  | true =>
  cases h14 : cfg.fltCondDirect with
  | false => exact wit_nanCond cfg h14
  | true =>
  cases h15 : cfg.keyChecked with
  | false => exact wit_key cfg h15
  | true => simp [Cfg.good, h1, h2, h3, h4, h5, h6, h7, h8, h9, h10, h11, h12, h13, h14, h15] at h

/-- non-vacuity: the repaired facts are good, the current ones are not; and the partial theorem's
    hypothesis is met by real histories (a create, a read and a delete raise no tag even with
    the current facts) -/
def repaired : Cfg :=
  { resetsFlags := true, metaCompare := true, tsPositive := true, voidClears := true, pushChecksType := true,
    setSliceReplaces := true, u32delReleases := true, u32delChecksType := true, incFailClean := true,
    noEmptyLive := true, arekAllFalse := true, countMissingOk := true, setErrSingle := true, fltCondDirect := true,
    keyChecked := true, recreateKeepsPointer := true, patchAsksFirst := true, saveReleasesImmediate := true, encoding := .gobOmitZero }
def current : Cfg :=
  { resetsFlags := false, metaCompare := false, tsPositive := false, voidClears := false, pushChecksType := false,
    setSliceReplaces := false, u32delReleases := false, u32delChecksType := false, incFailClean := false,
    noEmptyLive := false, arekAllFalse := false, countMissingOk := false, setErrSingle := false, fltCondDirect := false,
    keyChecked := false, recreateKeepsPointer := false, patchAsksFirst := false, saveReleasesImmediate := true, encoding := .gobOmitZero }
example : repaired.good = true := by decide
example : current.good = false := by decide
example : (runM current ar0 (init .mem)
    [(0, .set true true [k5]), (0, .get ["k"]), (0, .inc (.int .i64) "k" 1 none none none), (0, .del ["k"])]).2.2 = [] := by
  decide

/-- the two witnesses of DESIGN §8, for the facts of the pinned commit (`current`; closed terms).
    The deadlock has since been repaired in the repository (`fix:` commit), the fact then reads `yes`. -/
theorem current_sticky_witness :
    (runM current ar0 (init .mem) hSticky).1 = [.sts [.new], .sts [.upd]] ∧
    (runS ar0 [] hSticky).1 = [.sts [.new], .sts [.same]] := by decide

theorem current_deadlock_witness :
    (runM current ar0 (init .mem) hDeadlock).1 = [.ok, .hang] ∧
    (runS ar0 [] hDeadlock).1 = [.ok, .ok] := by decide

/-! ### decision over the extracted facts -/

structure Facts where
  resetsFlags : Tri
  metaCompare : Tri
  tsPositive : Tri
  voidClears : Tri
  pushChecksType : Tri
  setSliceReplaces : Tri
  u32delReleases : Tri
  u32delChecksType : Tri
  incFailClean : Tri
  noEmptyLive : Tri
  arekAllFalse : Tri
  countMissingOk : Tri
  setErrSingle : Tri
  fltCondDirect : Tri
  keyChecked : Tri
  /-- write-buffer bookkeeping, invisible without a close (C05's subject) -/
  recreateKeepsPointer : Tri
  /-- PatchTreasures is outside the request universe of `Holds`; the fact feeds the model of the correspondence run -/
  patchAsksFirst : Tri
  /-- the float setters compare bit patterns (no: with `==`; a narrow deviation the driver reproduces, outside `Holds`'s
      arithmetic-free model of "same value") -/
  fltSetBitwise : Tri
  saveReleasesImmediate : Tri
  /-- replies show every non-zero ExpiredAt (environment of the run, see `Arith.expNe0`; not part of
      the refinement statement, which holds for either value) -/
  wireExpNe0 : Tri
  deriving DecidableEq, Repr

def hasUnknown (f : Facts) : Bool :=
  f.resetsFlags == .unknown || f.metaCompare == .unknown || f.tsPositive == .unknown ||
  f.voidClears == .unknown || f.pushChecksType == .unknown || f.setSliceReplaces == .unknown ||
  f.u32delReleases == .unknown || f.u32delChecksType == .unknown || f.incFailClean == .unknown ||
  f.noEmptyLive == .unknown || f.arekAllFalse == .unknown || f.countMissingOk == .unknown ||
  f.setErrSingle == .unknown || f.fltCondDirect == .unknown || f.keyChecked == .unknown || f.recreateKeepsPointer == .unknown || f.patchAsksFirst == .unknown || f.fltSetBitwise == .unknown ||
  f.saveReleasesImmediate == .unknown || f.wireExpNe0 == .unknown

/-- the storage encoding does not occur in any request handler (it matters for C05 only) -/
def cfgOf (f : Facts) : Cfg :=
  { resetsFlags := f.resetsFlags.isYes, metaCompare := f.metaCompare.isYes, tsPositive := f.tsPositive.isYes,
    voidClears := f.voidClears.isYes, pushChecksType := f.pushChecksType.isYes,
    setSliceReplaces := f.setSliceReplaces.isYes, u32delReleases := f.u32delReleases.isYes,
    u32delChecksType := f.u32delChecksType.isYes, incFailClean := f.incFailClean.isYes,
    noEmptyLive := f.noEmptyLive.isYes, arekAllFalse := f.arekAllFalse.isYes,
    countMissingOk := f.countMissingOk.isYes, setErrSingle := f.setErrSingle.isYes,
    fltCondDirect := f.fltCondDirect.isYes, keyChecked := f.keyChecked.isYes,
    recreateKeepsPointer := f.recreateKeepsPointer.isYes, patchAsksFirst := f.patchAsksFirst.isYes, saveReleasesImmediate := f.saveReleasesImmediate.isYes, encoding := .gobOmitZero }

def findings (c : Cfg) : List String :=
  (if c.resetsFlags then [] else ["C06-sticky-changed-flags"]) ++
  (if c.metaCompare then [] else ["C06-meta-always-changed"]) ++
  (if c.tsPositive then [] else ["C06-preepoch-subsecond-accepted"]) ++
  (if c.voidClears then [] else ["C06-set-void-keeps-value"]) ++
  (if c.pushChecksType then [] else ["C06-hidden-uint32-slice"]) ++
  (if c.setSliceReplaces then [] else ["C06-set-slice-merges"]) ++
  (if c.u32delReleases then [] else ["C06-u32del-self-deadlock"]) ++
  (if c.u32delChecksType then [] else ["C06-u32del-deletes-non-slice"]) ++
  (if c.incFailClean then [] else ["C06-failed-increment-leaves-trace"]) ++
  (if c.noEmptyLive then [] else ["C06-empty-swamp-materialised"]) ++
  (if c.arekAllFalse then [] else ["C06-arekeysexist-missing-swamp-error"]) ++
  (if c.countMissingOk then [] else ["C06-count-missing-swamp-error"]) ++
  (if c.setErrSingle then [] else ["C06-set-error-entry-duplicated"]) ++
  (if c.fltCondDirect then [] else ["C06-nan-condition-passes"]) ++
  (if c.keyChecked then [] else ["C06-unstorable-key-acknowledged"])

def classify (f : Facts) : Verdict :=
  if hasUnknown f then .undetermined "a request-handler pattern of gateway.go / swamp.go / treasure.go was not recognised"
  else if (cfgOf f).good then .holds
  else .violated (findings (cfgOf f))

theorem classify_sound (f : Facts) : (classify f).Sound (Holds (cfgOf f)) (HoldsPartial (cfgOf f)) := by
  unfold classify
  split
  · trivial
  · split
    · rename_i h; exact model_refines_spec _ h
    · rename_i h
      exact ⟨not_holds_of_not_good _ (by simpa using h), C06_partial _⟩

end Hv.C06
