/-
  C03 — Compaction never changes the stored state.

  "Compaction, whether triggered on write, on close, on load, forced by the API or run by the
   command-line tool, leaves the set of live records and their values exactly as before.  This
   holds whatever files happen to be present when it runs, including a leftover temporary file
   from an earlier interrupted compaction, and a crash at any point of a compaction leaves either
   the complete old state or the complete new state."

  Quantifiers: every cleanly written main file (any name length, any list of well-formed
  blocks), every content of the temp file (absent, garbage, a stale parseable file, a truncated
  one: `Option (List Cell)`), every entry point, every order in which the map iteration hands out
  the live keys, every block size, every block encoder (`MkOk`), and every crash point
  `(i, j, k)`: operation `i` in flight, the data of all writes since `j ≥ last fsync` lost, write
  `j` torn after `k` bytes, metadata operations issued in between kept (`lossyImageAt`).

  Model: `Hv/Storage/Chron.lean` (`compactVia`, mirrors Compactor.Compact / CompactFromIndex /
  runCompactionLocked, including that `NewFileWriterWithName` appends to an existing temp).
-/
import Hv.Storage.Compact
import Hv.Storage.Session
import Hv.Basic.Verdict

namespace Hv.C03
open Hv.BlockStore

/-- the order covers exactly the live keys (the code iterates over the index map) -/
def Covers (order : List (Nat × Nat)) (idx : Index) : Prop :=
  ∀ k, k ∈ order.map (·.1) ↔ k ∈ idx.keys

/-- compaction through `ep` leaves a loadable file with the same live records -/
def Preserves (c : Cfg) (ep : EP) : Prop :=
  ∀ (mk : Mk), MkOk mk → ∀ (nl bs : Nat) (blocks : List Block), (∀ b ∈ blocks, b.WF) →
  ∀ (temp : Option (List Cell)) (order : List (Nat × Nat)),
    Covers order (Index.replay [] (entsOf blocks)) →
    ∃ idx', mainIndex c ((cleanDisk nl blocks temp).applyAll
              (compactVia c mk (cleanDisk nl blocks temp) ep order bs)) = some idx' ∧
            idx'.Same (Index.replay [] (entsOf blocks))

/-- every crash image has the old main file or is the finished compaction -/
def Atomic (c : Cfg) : Prop :=
  ∀ (mk : Mk), MkOk mk → ∀ (nl bs : Nat) (blocks : List Block), (∀ b ∈ blocks, b.WF) →
  ∀ (temp : Option (List Cell)) (ep : EP) (order : List (Nat × Nat)) (i j k : Nat),
    CrashPoint (compactVia c mk (cleanDisk nl blocks temp) ep order bs) i j →
    (lossyImageAt (cleanDisk nl blocks temp) (compactVia c mk (cleanDisk nl blocks temp) ep order bs) i j k).main
        = (cleanDisk nl blocks temp).main ∨
    lossyImageAt (cleanDisk nl blocks temp) (compactVia c mk (cleanDisk nl blocks temp) ep order bs) i j k
        = (cleanDisk nl blocks temp).applyAll (compactVia c mk (cleanDisk nl blocks temp) ep order bs)

/-- main file as a crash can leave it: a clean file followed by nothing or the beginning of one more block -/
def tornMain (nl : Nat) (blocks : List Block) (b : Block) (r : Nat) : List Cell :=
  fileCells nl blocks ++ (blockCells b).take r

/-- … and on a main file with a torn tail (the input of the Load self-heal after a crash, or of a
    CLI run on a crash image): the compaction either does not start (the file does not load) or
    leaves a file that loads to what the torn file loaded to. -/
def PreservesTorn (c : Cfg) (ep : EP) : Prop :=
  ∀ (mk : Mk), MkOk mk → ∀ (nl bs : Nat) (blocks : List Block), (∀ b ∈ blocks, b.WF) →
  ∀ (b : Block), b.WF → ∀ r, r < 16 + b.plen →
  ∀ (temp : Option (List Cell)) (order : List (Nat × Nat)),
    let d := mainDisk (tornMain nl blocks b r) temp
    (mainIndex c d = none ∧ compactVia c mk d ep order bs = []) ∨
    ∃ idx, mainIndex c d = some idx ∧ (Covers order idx →
      ∃ idx', mainIndex c (d.applyAll (compactVia c mk d ep order bs)) = some idx' ∧ idx'.Same idx)

/-! ### Histories: sessions, single chronicler calls, compactions in between -/

/-- a history at session granularity: a writing session (`Write(items)` … `Close`) or a compaction -/
inductive SAct where
  | session (items : List (Op × Nat))
  | compact (ep : EP) (order : List (Nat × Nat))

def sStep (c : Cfg) (mk : Mk) (nl bs : Nat) (d : Disk) : SAct → Disk
  | .session items =>
    let w1 := cWrite c mk d { w := none, nlName := nl, bs := bs } items
    (d.applyAll w1.2).applyAll (cClose c mk w1.1).2
  | .compact ep order => d.applyAll (compactVia c mk d ep order bs)

def sWritten : List SAct → List Op
  | [] => []
  | .session items :: r => items.map (·.1) ++ sWritten r
  | .compact _ _ :: r => sWritten r

/-- every compaction goes through an entry point that removes the temp, and iterates over exactly the live keys -/
def sValid (c : Cfg) (mk : Mk) (nl bs : Nat) : Disk → List SAct → Prop
  | _, [] => True
  | d, .session items :: r => sValid c mk nl bs (sStep c mk nl bs d (.session items)) r
  | d, .compact ep order :: r =>
    ep.rmFirst c = true ∧ (∀ idx, mainIndex c d = some idx → Covers order idx) ∧
      sValid c mk nl bs (sStep c mk nl bs d (.compact ep order)) r

/-- the disk between sessions: nothing, or a clean main file and no temp -/
def Between (nl : Nat) (d : Disk) (idx : Index) : Prop :=
  (d = {} ∧ idx = []) ∨ ∃ blocks, (∀ b ∈ blocks, b.WF) ∧ d = cleanDisk nl blocks none ∧ idx = Index.replay [] (entsOf blocks)

inductive MAct where
  | w (items : List (Op × Nat))
  | sync
  | close
  | compactLocked (order : List (Nat × Nat))            -- whatever the writer holds at that moment
  | compactOff (ep : EP) (order : List (Nat × Nat))     -- CLI / Load self-heal: no writer is open

structure MSt where
  cs : CSt
  d : Disk

def mStep (c : Cfg) (mk : Mk) (s : MSt) : MAct → MSt
  | .w items => ⟨(cWrite c mk s.d s.cs items).1, s.d.applyAll (cWrite c mk s.d s.cs items).2⟩
  | .sync => ⟨(cSync c mk s.cs).1, s.d.applyAll (cSync c mk s.cs).2⟩
  | .close => ⟨(cClose c mk s.cs).1, s.d.applyAll (cClose c mk s.cs).2⟩
  | .compactLocked order => ⟨(cCompactLocked c mk s.d s.cs order).1, s.d.applyAll (cCompactLocked c mk s.d s.cs order).2⟩
  | .compactOff ep order =>
    match s.cs.w with
    | some _ => s
    | none => ⟨s.cs, s.d.applyAll (compactVia c mk s.d ep order s.cs.bs)⟩

def mWritten : List MAct → List Op
  | [] => []
  | .w items :: r => items.map (·.1) ++ mWritten r
  | _ :: r => mWritten r

/-- every compaction removes the temp first and iterates over exactly the keys that are live in
    the file it reads (for the locked entry point: the file after the writer was closed) -/
def mValid (c : Cfg) (mk : Mk) : MSt → List MAct → Prop
  | _, [] => True
  | s, .compactLocked order :: r =>
    EP.rmFirst c .locked = true ∧
      (∀ idx, mainIndex c (s.d.applyAll (cClose c mk s.cs).2) = some idx → Covers order idx) ∧
      mValid c mk (mStep c mk s (.compactLocked order)) r
  | s, .compactOff ep order :: r =>
    ep.rmFirst c = true ∧ (∀ idx, mainIndex c s.d = some idx → Covers order idx) ∧
      mValid c mk (mStep c mk s (.compactOff ep order)) r
  | s, a :: r => mValid c mk (mStep c mk s a) r


/-- The full-strength statement: every single compaction preserves the live set (also on a main
    file with a torn tail) and is crash-atomic, and whole histories — compactions between writing
    sessions, and locked compactions in the middle of a session, on an open writer that still
    buffers entries — load to the replay of everything written. -/
structure Holds (c : Cfg) : Prop where
  preserves : ∀ ep, Preserves c ep
  preservesTorn : ∀ ep, PreservesTorn c ep
  atomic : Atomic c
  anywhere : ∀ (mk : Mk), MkOk mk → ∀ (nl bs : Nat) (acts : List SAct), sValid c mk nl bs {} acts →
    ∃ idx, Between nl (acts.foldl (sStep c mk nl bs) {}) idx ∧ idx.Same (Index.replay [] (sWritten acts))
  midSession : ∀ (mk : Mk), MkOk mk → ∀ (nl bs : Nat) (acts : List MAct),
    mValid c mk ⟨{ w := none, nlName := nl, bs := bs }, {}⟩ acts →
    ∃ idx, Between nl (mStep c mk (acts.foldl (mStep c mk) ⟨{ w := none, nlName := nl, bs := bs }, {}⟩) .close).d idx ∧
      idx.Same (Index.replay [] (mWritten acts))

/-! ### Theorems -/

/-- An entry point that removes the temp file before opening it preserves the live set,
    for every leftover temp content and every iteration order. -/
theorem compact_preserves (c : Cfg) (ep : EP) (hrm : ep.rmFirst c = true) : Preserves c ep := by
  intro mk hmk nl bs blocks hwf temp order hcov
  have hidx := mainIndex_clean c nl blocks hwf temp
  simp only [compactVia, hidx, hrm]
  obtain ⟨nbs, hnwf, hents, hfin⟩ := compactOps_rm c mk hmk nl bs blocks temp
    (liveEntries (Index.replay [] (entsOf blocks)) order)
  rw [hfin]
  refine ⟨_, mainIndex_clean c nl nbs hnwf none, ?_⟩
  intro k
  rw [hents, liveEntries_fst, Index.get_replay_puts]
  by_cases hk : k ∈ order.map (·.1)
  · simp only [hk, if_true]
    cases h : Index.get (Index.replay [] (entsOf blocks)) k <;> simp [Index.get_nil]
  · simp only [hk, if_false, Index.get_nil]
    exact (Index.get_eq_none_of_not_mem _ _ (fun hm => hk ((hcov k).mpr hm))).symm

theorem mainNl_torn (nl : Nat) (blocks : List Block) (b : Block) (r : Nat) (t : Option (List Cell)) :
    mainNl (mainDisk (tornMain nl blocks b r) t) = nl := by
  simp [mainNl, mainDisk, tornMain, fileCells, List.append_assoc, headerOf_file]

/-- The same on a main file with a torn tail. -/
theorem compact_preserves_torn (c : Cfg) (ep : EP) (hrm : ep.rmFirst c = true) : PreservesTorn c ep := by
  intro mk hmk nl bs blocks hwf b hb r hr temp order
  simp only
  cases hm : mainIndex c (mainDisk (tornMain nl blocks b r) temp) with
  | none => left; exact ⟨rfl, by simp [compactVia, hm]⟩
  | some idx =>
    right
    refine ⟨idx, rfl, ?_⟩
    intro hcov
    simp only [compactVia, hm, hrm]
    obtain ⟨nbs, hnwf, hents, hfin⟩ := compactOps_rm_gen c mk hmk nl bs (tornMain nl blocks b r) temp
      (fun t => mainNl_torn nl blocks b r t) (liveEntries idx order)
    rw [hfin]
    refine ⟨_, mainIndex_clean c nl nbs hnwf none, ?_⟩
    intro k
    rw [hents, liveEntries_fst, Index.get_replay_puts]
    by_cases hk : k ∈ order.map (·.1)
    · simp only [hk, if_true]
      cases h : Index.get idx k <;> simp [Index.get_nil]
    · simp only [hk, if_false, Index.get_nil]
      exact (Index.get_eq_none_of_not_mem _ _ (fun hm' => hk ((hcov k).mpr hm'))).symm

/-- the encoder used by the closed witnesses: one payload byte per block -/
def mk0 : Mk := mkP 1

theorem mk0_ok : MkOk mk0 := mkP_ok 1 Nat.one_pos

/-- An entry point that opens the temp without removing it resurrects whatever a stale,
    parseable temp file contains: a key `z` that is not live before is live afterwards.
    (General form: any main file, any stale block list.) -/
theorem compact_stale_temp_resurrects (c : Cfg) (hc : c.truncatesTornTail = false) (ep : EP)
    (hrm : ep.rmFirst c = false) (mk : Mk) (hmk : MkOk mk) (nl bs snl : Nat) (blocks sbs : List Block)
    (hwf : ∀ b ∈ blocks, b.WF) (hswf : ∀ b ∈ sbs, b.WF) (order : List (Nat × Nat)) (z v : Nat)
    (hz : z ∉ order.map (·.1)) (hs : Index.get (Index.replay [] (entsOf sbs)) z = some v) :
    ∃ idx', mainIndex c ((cleanDisk nl blocks (some (fileCells snl sbs))).applyAll
              (compactVia c mk (cleanDisk nl blocks (some (fileCells snl sbs))) ep order bs)) = some idx' ∧
            idx'.get z = some v := by
  have hidx := mainIndex_clean c nl blocks hwf (some (fileCells snl sbs))
  simp only [compactVia, hidx, hrm]
  obtain ⟨nbs, hnwf, hents, hfin⟩ := compactOps_stale c hc mk hmk nl bs blocks sbs snl
    (liveEntries (Index.replay [] (entsOf blocks)) order)
  rw [hfin]
  have hall : ∀ b ∈ sbs ++ nbs, b.WF := by
    intro b hb
    rcases List.mem_append.mp hb with hb | hb
    · exact hswf b hb
    · exact hnwf b hb
  refine ⟨_, mainIndex_clean c snl (sbs ++ nbs) hall none, ?_⟩
  rw [entsOf_append, Index.replay_append, hents, liveEntries_fst, Index.get_replay_puts]
  simp [hz, hs]

theorem not_preserves_of_stale (c : Cfg) (hc : c.truncatesTornTail = false) (ep : EP)
    (hrm : ep.rmFirst c = false) : ¬ Preserves c ep := by
  intro hp
  -- empty main file, stale temp holding key 7
  have hwz : ∀ b ∈ [mk0 [Op.put 7 1]], b.WF := by
    intro b hb; simp only [List.mem_cons, List.not_mem_nil, or_false] at hb; subst hb; exact (mk0_ok _ (by simp) (by decide)).1
  obtain ⟨idx1, h1, hsame⟩ := hp mk0 mk0_ok 0 100 [] (by simp) (some (fileCells 0 [mk0 [Op.put 7 1]])) []
    (by intro k; simp [entsOf, Index.replay, Index.keys])
  obtain ⟨idx2, h2, hget⟩ := compact_stale_temp_resurrects c hc ep hrm mk0 mk0_ok 0 100 0 [] [mk0 [Op.put 7 1]]
    (by simp) hwz [] 7 1 (by simp) (by decide)
  rw [h1] at h2
  cases h2
  have := hsame 7
  rw [hget] at this
  simp [entsOf, Index.replay, Index.get] at this

/-- With the fsync in `Close` and the rename after it, every crash image — including power
    loss that drops unsynced data but keeps the rename — has the complete old main file or is
    the complete new state.  Holds for every entry point, whether or not it removes the temp. -/
theorem compact_crash_atomic (c : Cfg) (hf : c.closeFsyncs = true) : Atomic c := by
  intro mk _ nl bs blocks _ temp ep order i j k hcp
  unfold compactVia at hcp ⊢
  cases hm : mainIndex c (cleanDisk nl blocks temp) with
  | none =>
    left
    simp only [hm]
    exact onlyTemp_lossy_main _ _ (by simp) i j k
  | some idx =>
    simp only [hm] at hcp ⊢
    rcases compactOps_shape c mk (cleanDisk nl blocks temp) (ep.rmFirst c) (liveEntries idx order) bs with h | ⟨pre, hpre, hot, hs⟩
    · left; exact onlyTemp_lossy_main _ _ h i j k
    · obtain ⟨P, hP⟩ := hs hf
      have hops : compactOps c mk (cleanDisk nl blocks temp) (ep.rmFirst c) (liveEntries idx order) bs =
          P ++ [.sync .temp, .rename .temp .main] := by rw [hpre, hP]; simp
      rw [hops] at hcp ⊢
      exact atomic_of_shape _ P (fun o ho => hot o (by rw [hP]; simp [ho])) i j k hcp

/-- Without an fsync before the rename a power loss can keep the rename and lose the data:
    the main file comes back empty.  Closed witness: one live record, crash after the rename
    with all writes since the creation of the temp file lost. -/
theorem compact_no_fsync_loses (c : Cfg) (hf : c.closeFsyncs = false) : ¬ Atomic c := by
  intro ha
  have hwf : ∀ b ∈ [mk0 [Op.put 1 1]], b.WF := by
    intro b hb; simp only [List.mem_cons, List.not_mem_nil, or_false] at hb; subst hb; exact (mk0_ok _ (by simp) (by decide)).1
  have hidx := mainIndex_clean c 0 [mk0 [Op.put 1 1]] hwf none
  have hops : compactVia c mk0 (cleanDisk 0 [mk0 [Op.put 1 1]] none) .cli [(1, 10)] 100 =
      [.create .temp, .write .temp 0 (fhCells 0),
       .write .temp 64 (hdrCells (mk0 [Op.put 1 1])), .write .temp 80 (payCells (mk0 [Op.put 1 1])),
       .write .temp 0 (fhCells 0), .write .temp 0 (fhCells 0), .rename .temp .main] := by
    simp only [compactVia, hidx]
    simp [compactOps, rmTempOps, cleanDisk, openWriter, Disk.get, mainNl_clean, createOps, liveEntries, entsOf,
      Index.replay, Index.apply, Index.put, Index.del, Index.get, addManyW, addW, closeW, flushW, hf, mk0, mkP, WSt.push, WSt.full, maxEnts,
      Disk.applyAll, mainNl, fileCells, headerOf_file]
  have h := ha mk0 mk0_ok 0 100 [mk0 [Op.put 1 1]] hwf none .cli [(1, 10)] 7 1 0
  rw [hops] at h
  have hcp : CrashPoint [FsOp.create .temp, .write .temp 0 (fhCells 0),
       .write .temp 64 (hdrCells (mk0 [Op.put 1 1])), .write .temp 80 (payCells (mk0 [Op.put 1 1])),
       .write .temp 0 (fhCells 0), .write .temp 0 (fhCells 0), .rename .temp .main] 7 1 := by
    refine ⟨by simp, ?_, by omega⟩
    simp [lastSyncIdx, FsOp.isSync]
  have himg : lossyImageAt (cleanDisk 0 [mk0 [Op.put 1 1]] none) [FsOp.create .temp, .write .temp 0 (fhCells 0),
       .write .temp 64 (hdrCells (mk0 [Op.put 1 1])), .write .temp 80 (payCells (mk0 [Op.put 1 1])),
       .write .temp 0 (fhCells 0), .write .temp 0 (fhCells 0), .rename .temp .main] 7 1 0 =
      { main := some [], temp := none } := by
    simp [lossyImageAt, imageAt, Disk.applyAll, Disk.applyTorn, Disk.apply, Disk.set, Disk.get, cleanDisk, FsOp.isWrite, splice]
  rcases h hcp with h | h
  · rw [himg] at h
    have : (fileCells 0 [mk0 [Op.put 1 1]]).length = 0 := by
      simp only [cleanDisk] at h
      have := congrArg (fun o => (o.map List.length)) h
      simpa using this.symm
    simp [fileCells] at this
  · rw [himg] at h
    have hm := congrArg Disk.main h
    simp only [Disk.applyAll, List.foldl, Disk.apply, Disk.set, Disk.get, cleanDisk] at hm
    have := congrArg (fun o => (o.map List.length)) hm
    simp [splice] at this
    omega

/-- Non-vacuity of the hypotheses: a well-formed encoder, a non-empty main file, a covering order. -/
example : MkOk mk0 ∧ (∀ b ∈ [mk0 [Op.put 1 1, Op.put 2 5], mk0 [Op.del 1]], b.WF) ∧
    Covers [(2, 9)] (Index.replay [] (entsOf [mk0 [Op.put 1 1, Op.put 2 5], mk0 [Op.del 1]])) := by
  refine ⟨mk0_ok, ?_, ?_⟩
  · intro b hb
    simp only [List.mem_cons, List.not_mem_nil, or_false] at hb
    rcases hb with rfl | rfl <;> exact (mk0_ok _ (by simp) (by decide)).1
  · intro k
    simp [entsOf, mk0, mkP, Index.replay, Index.apply, Index.put, Index.del, Index.keys]

/-! ### Compaction anywhere in a history -/

theorem Same_replay {a b : Index} (h : a.Same b) (es : List Op) : (Index.replay a es).Same (Index.replay b es) := by
  induction es generalizing a b with
  | nil => exact h
  | cons e r ih =>
    apply ih
    intro k
    cases e with
    | put k' v =>
      simp only [Index.apply, Index.get_put]
      split
      · rfl
      · exact h k
    | del k' =>
      simp only [Index.apply, Index.get_del]
      split
      · rfl
      · exact h k

theorem disk_ext (d : Disk) (m t : Option (List Cell)) (hm : d.get .main = m) (ht : d.get .temp = t) :
    d = { main := m, temp := t } := by
  cases d; simp_all [Disk.get]

theorem session_step (c : Cfg) (mk : Mk) (hmk : MkOk mk) (nl bs : Nat) (d : Disk) (idx : Index) (h : Between nl d idx)
    (items : List (Op × Nat)) :
    Between nl (sStep c mk nl bs d (.session items)) (Index.replay idx (items.map (·.1))) := by
  by_cases hemp : items = []
  · subst hemp
    simpa [sStep, cWrite, cClose, Disk.applyAll, Index.replay] using h
  have hne : items.isEmpty = false := by cases items <;> simp_all
  -- the writer after `ensureWriter`, on a clean (possibly brand-new) file
  have key : ∀ (d1 : Disk) (w : WSt) (blocks : List Block), (∀ b ∈ blocks, b.WF) → WInv d1 w (fileCells nl blocks) →
      w.path = .main → w.buf = [] → d1.get .temp = none →
      Between nl ((d1.applyAll (addManyW mk w items).2).applyAll (closeW c mk (addManyW mk w items).1))
        (Index.replay (Index.replay [] (entsOf blocks)) (items.map (·.1))) := by
    intro d1 w blocks hwf hinv hp hbuf htemp
    obtain ⟨a, ha, pa⟩ := addManyW_spec mk hmk items d1 w _ hinv (by rw [hbuf]; exact maxEnts_pos)
    obtain ⟨b, hb, hbwf, hfile, hother⟩ := closeW_spec c mk hmk _ _ _ pa.inv (Nat.le_of_lt pa.cnt)
    rw [pa.path, hp] at hfile
    have ht : ((d1.applyAll (addManyW mk w items).2).applyAll (closeW c mk (addManyW mk w items).1)).get .temp = none := by
      rw [hother .temp (by rw [pa.path, hp]; decide), pa.other .temp (by rw [hp]; decide)]; exact htemp
    right
    refine ⟨blocks ++ a ++ b, ?_, ?_, ?_⟩
    · intro x hx
      rcases List.mem_append.mp hx with hx | hx
      · rcases List.mem_append.mp hx with hx | hx
        · exact hwf x hx
        · exact pa.wf x hx
      · exact hbwf x hx
    · rw [disk_ext _ _ _ hfile ht]
      simp [cleanDisk, fileCells, render_append, List.append_assoc]
    · rw [entsOf_append, entsOf_append, hb, List.append_assoc, ha, hbuf, List.nil_append, Index.replay_append]
  rcases h with ⟨hd, hidx⟩ | ⟨blocks, hwf, hd, hidx⟩
  · subst hd; subst hidx
    have hopen : ensureW c {} { w := none, nlName := nl, bs := bs } =
        some ({ path := .main, pos := 64 + nl, nl := nl, buf := [], bufSize := 0, bs := bs }, createOps .main nl) := by
      simp [ensureW, openWriter, Disk.get]
    simp only [sStep, cWrite, hne, Bool.false_eq_true, if_false, hopen, cClose, Disk.applyAll_append, createOps_apply_main]
    have := key { main := some (fhCells nl ++ nmCells nl), temp := none }
      { path := .main, pos := 64 + nl, nl := nl, buf := [], bufSize := 0, bs := bs } [] (by simp)
      ⟨by simp [Disk.get, fileCells_nil], by simp [fileCells_nil], fileCells_hdr nl []⟩ rfl rfl rfl
    simpa [entsOf, Index.replay] using this
  · subst hd; subst hidx
    have hopen : ensureW c (cleanDisk nl blocks none) { w := none, nlName := nl, bs := bs } =
        some ({ path := .main, pos := (fileCells nl blocks).length, nl := nl, buf := [], bufSize := 0, bs := bs }, []) := by
      simp only [ensureW, cleanDisk]; exact openWriter_clean c nl bs blocks hwf none nl
    simp only [sStep, cWrite, hne, Bool.false_eq_true, if_false, hopen, cClose, List.nil_append]
    exact key (cleanDisk nl blocks none) _ blocks hwf ⟨rfl, rfl, fileCells_hdr nl blocks⟩ rfl rfl rfl

theorem compact_step (c : Cfg) (mk : Mk) (hmk : MkOk mk) (nl bs : Nat) (d : Disk) (idx : Index) (h : Between nl d idx)
    (ep : EP) (hrm : ep.rmFirst c = true) (order : List (Nat × Nat))
    (hcov : ∀ i, mainIndex c d = some i → Covers order i) :
    ∃ idx', Between nl (sStep c mk nl bs d (.compact ep order)) idx' ∧ idx'.Same idx := by
  rcases h with ⟨hd, hidx⟩ | ⟨blocks, hwf, hd, hidx⟩
  · subst hd; subst hidx
    exact ⟨[], Or.inl ⟨by simp [sStep, compactVia, mainIndex, Disk.applyAll], rfl⟩, Index.Same.refl _⟩
  · subst hd; subst hidx
    have hi := mainIndex_clean c nl blocks hwf none
    have hc := hcov _ hi
    simp only [sStep, compactVia, hi, hrm]
    obtain ⟨nbs, hnwf, hents, hfin⟩ := compactOps_rm c mk hmk nl bs blocks none
      (liveEntries (Index.replay [] (entsOf blocks)) order)
    rw [hfin]
    refine ⟨_, Or.inr ⟨nbs, hnwf, rfl, rfl⟩, ?_⟩
    intro k
    rw [hents, liveEntries_fst, Index.get_replay_puts]
    by_cases hk : k ∈ order.map (·.1)
    · simp only [hk, if_true]
      cases h : Index.get (Index.replay [] (entsOf blocks)) k <;> simp [Index.get_nil]
    · simp only [hk, if_false, Index.get_nil]
      exact (Index.get_eq_none_of_not_mem _ _ (fun hm => hk ((hc k).mpr hm))).symm

/-- **Compaction anywhere.**  Whatever compactions (through entry points that remove the temp,
    iterating over the live keys in any order) are inserted between the writing sessions of a
    history, the file loads, at the end, to the replay of everything that was written. -/
theorem compaction_anywhere (c : Cfg) (mk : Mk) (hmk : MkOk mk) (nl bs : Nat) (acts : List SAct)
    (hv : sValid c mk nl bs {} acts) :
    ∃ idx, Between nl (acts.foldl (sStep c mk nl bs) {}) idx ∧ idx.Same (Index.replay [] (sWritten acts)) := by
  have gen : ∀ (acts : List SAct) (d : Disk) (idx spec : Index), Between nl d idx → idx.Same spec → sValid c mk nl bs d acts →
      ∃ idx', Between nl (acts.foldl (sStep c mk nl bs) d) idx' ∧ idx'.Same (Index.replay spec (sWritten acts)) := by
    intro acts
    induction acts with
    | nil => intro d idx spec hb hs _; exact ⟨idx, hb, by simpa [sWritten, Index.replay] using hs⟩
    | cons a rest ih =>
      intro d idx spec hb hs hv
      cases a with
      | session items =>
        have h1 := session_step c mk hmk nl bs d idx hb items
        obtain ⟨idx', hb', hs'⟩ := ih _ _ (Index.replay spec (items.map (·.1))) h1 (Same_replay hs _) hv
        refine ⟨idx', hb', ?_⟩
        simpa [sWritten, Index.replay_append] using hs'
      | compact ep order =>
        obtain ⟨hrm, hcov, hv'⟩ := hv
        obtain ⟨idx1, hb1, hs1⟩ := compact_step c mk hmk nl bs d idx hb ep hrm order hcov
        obtain ⟨idx', hb', hs'⟩ := ih _ idx1 spec hb1 (hs1.trans hs) hv'
        exact ⟨idx', hb', by simpa [sWritten] using hs'⟩
  exact gen acts {} [] [] (Or.inl ⟨rfl, rfl⟩) (Index.Same.refl _) hv

/-! ### Compaction in the middle of a session

The write- and close-triggers and `ForceCompaction` go through `runCompactionLocked`, which runs
while the chronicler holds an open writer with buffered, not yet flushed entries: it closes the
writer (flushing them), compacts, and the next `Write` reopens the file.  Histories here are at the
granularity of single chronicler calls. -/

/-- the chronicler between two calls: no writer and a clean file, or an open writer at the end of a
    clean file with some entries still buffered; `spec` is what a load must return once they are flushed -/
def MInv (nl bs : Nat) (s : MSt) (spec : Index) : Prop :=
  s.cs.nlName = nl ∧ s.cs.bs = bs ∧
  match s.cs.w with
  | none => ∃ idx, Between nl s.d idx ∧ idx.Same spec
  | some w => ∃ blocks, (∀ b ∈ blocks, b.WF) ∧ WInv s.d w (fileCells nl blocks) ∧ w.path = .main ∧
      s.d.get .temp = none ∧ w.buf.length < maxEnts ∧ (Index.replay [] (entsOf blocks ++ w.buf)).Same spec

/-- `Sync` as a writer step: the buffered entries become whole blocks, nothing else changes -/
theorem syncW_post (c : Cfg) (mk : Mk) (hmk : MkOk mk) (d : Disk) (w : WSt) (f : List Cell) (h : WInv d w f)
    (hlen : w.buf.length ≤ maxEnts) :
    ∃ nbs, entsOf nbs = w.buf ∧ (syncW c mk w).1.buf = [] ∧
      WPost d w f (d.applyAll (syncW c mk w).2) (syncW c mk w).1 nbs := by
  obtain ⟨nbs, he, hbuf, hp⟩ := flushW_spec mk hmk d w f h hlen
  refine ⟨nbs, he, hbuf, ?_⟩
  have hd : d.applyAll (syncW c mk w).2 = d.applyAll (flushW mk w).2 := by
    simp only [syncW, Disk.applyAll_append, Disk.applyAll_cons, Disk.applyAll_nil]
    have hno := header_rewrite_noop _ _ _ hp.inv
    rw [hp.path, hp.nl] at hno
    rw [hno]
    cases c.syncFsyncs <;> simp [Disk.applyAll, Disk.apply]
  rw [hd]
  exact hp

/-- closing a writer in the invariant leaves a clean file that loads to `spec` -/
theorem close_between (c : Cfg) (mk : Mk) (hmk : MkOk mk) (nl : Nat) (d : Disk) (w : WSt) (blocks : List Block)
    (hwf : ∀ b ∈ blocks, b.WF) (hinv : WInv d w (fileCells nl blocks)) (hp : w.path = .main) (htemp : d.get .temp = none)
    (hcnt : w.buf.length < maxEnts) :
    Between nl (d.applyAll (closeW c mk w)) (Index.replay [] (entsOf blocks ++ w.buf)) := by
  obtain ⟨b, hb, hbwf, hfile, hother⟩ := closeW_spec c mk hmk _ _ _ hinv (Nat.le_of_lt hcnt)
  rw [hp] at hfile
  have ht : (d.applyAll (closeW c mk w)).get .temp = none := by
    rw [hother .temp (by rw [hp]; decide)]; exact htemp
  right
  refine ⟨blocks ++ b, ?_, ?_, ?_⟩
  · intro x hx
    rcases List.mem_append.mp hx with hx | hx
    · exact hwf x hx
    · exact hbwf x hx
  · rw [disk_ext _ _ _ hfile ht]
    simp [cleanDisk, fileCells, render_append, List.append_assoc]
  · rw [entsOf_append, hb]

theorem Same_symm {a b : Index} (h : a.Same b) : b.Same a := fun k => (h k).symm

/-- one chronicler call keeps the invariant -/
theorem mStep_inv (c : Cfg) (mk : Mk) (hmk : MkOk mk) (nl bs : Nat) (s : MSt) (spec : Index) (h : MInv nl bs s spec)
    (a : MAct) (hv : mValid c mk s [a]) :
    ∃ spec', MInv nl bs (mStep c mk s a) spec' ∧ spec'.Same (Index.replay spec (mWritten [a])) := by
  obtain ⟨hnl, hbs, hw⟩ := h
  -- writing from an open writer
  have wr : ∀ (d0 : Disk) (w : WSt) (blocks : List Block) (items : List (Op × Nat)), (∀ b ∈ blocks, b.WF) →
      WInv d0 w (fileCells nl blocks) → w.path = .main → d0.get .temp = none → w.buf.length < maxEnts →
      (Index.replay [] (entsOf blocks ++ w.buf)).Same spec →
      ∃ blocks', (∀ b ∈ blocks', b.WF) ∧
        WInv (d0.applyAll (addManyW mk w items).2) (addManyW mk w items).1 (fileCells nl blocks') ∧
        (addManyW mk w items).1.path = .main ∧ (d0.applyAll (addManyW mk w items).2).get .temp = none ∧
        (addManyW mk w items).1.buf.length < maxEnts ∧
        (Index.replay [] (entsOf blocks' ++ (addManyW mk w items).1.buf)).Same (Index.replay spec (items.map (·.1))) := by
    intro d0 w blocks items hwf hinv hp htemp hcnt hs
    obtain ⟨a', ha, pa⟩ := addManyW_spec mk hmk items d0 w _ hinv hcnt
    refine ⟨blocks ++ a', ?_, ?_, by rw [pa.path, hp], ?_, pa.cnt, ?_⟩
    · intro x hx
      rcases List.mem_append.mp hx with hx | hx
      · exact hwf x hx
      · exact pa.wf x hx
    · have : fileCells nl (blocks ++ a') = fileCells nl blocks ++ render a' := by
        simp [fileCells, render_append, List.append_assoc]
      rw [this]; exact pa.inv
    · rw [pa.other .temp (by rw [hp]; decide)]; exact htemp
    · rw [entsOf_append, List.append_assoc, ha, ← List.append_assoc, Index.replay_append]
      exact Same_replay hs _
  cases a with
  | w items =>
    simp only [mStep, mWritten, List.append_nil]
    by_cases hemp : items.isEmpty = true
    · have : items = [] := by simpa using hemp
      subst this
      refine ⟨spec, ?_, by simp [Index.replay, Index.Same.refl]⟩
      simp only [cWrite, List.isEmpty_nil, if_true, Disk.applyAll_nil]
      exact ⟨hnl, hbs, hw⟩
    · simp only [cWrite, hemp, if_false, Bool.false_eq_true]
      refine ⟨Index.replay spec (items.map (·.1)), ?_, Index.Same.refl _⟩
      cases hcw : s.cs.w with
      | some w0 =>
        rw [hcw] at hw
        obtain ⟨blocks, hwf, hinv, hp, htemp, hcnt, hs⟩ := hw
        have he : ensureW c s.d s.cs = some (w0, []) := by simp [ensureW, hcw]
        simp only [he, List.nil_append]
        obtain ⟨bl', h1, h2, h3, h4, h5, h6⟩ := wr s.d w0 blocks items hwf hinv hp htemp hcnt hs
        exact ⟨hnl, hbs, bl', h1, h2, h3, h4, h5, h6⟩
      | none =>
        rw [hcw] at hw
        obtain ⟨idx, hb, hs⟩ := hw
        rcases hb with ⟨hd, hidx⟩ | ⟨blocks, hwf, hd, hidx⟩
        · -- the file is created
          have hopen : ensureW c {} s.cs =
              some ({ path := .main, pos := 64 + nl, nl := nl, buf := [], bufSize := 0, bs := bs }, createOps .main nl) := by
            simp [ensureW, hcw, openWriter, Disk.get, hnl, hbs]
          rw [hd]
          simp only [hopen, Disk.applyAll_append, createOps_apply_main]
          obtain ⟨bl', h1, h2, h3, h4, h5, h6⟩ := wr { main := some (fhCells nl ++ nmCells nl), temp := none }
            { path := .main, pos := 64 + nl, nl := nl, buf := [], bufSize := 0, bs := bs } [] items (by simp)
            ⟨by simp [Disk.get, fileCells_nil], by simp [fileCells_nil], fileCells_hdr nl []⟩ rfl rfl maxEnts_pos
            (by subst hidx; simpa [entsOf, Index.replay] using hs)
          exact ⟨hnl, hbs, bl', h1, h2, h3, h4, h5, h6⟩
        · have hopen : ensureW c s.d s.cs =
              some ({ path := .main, pos := (fileCells nl blocks).length, nl := nl, buf := [], bufSize := 0, bs := bs }, []) := by
            simp only [ensureW, hcw, hd, cleanDisk, hnl, hbs]; exact openWriter_clean c nl bs blocks hwf none nl
          simp only [hopen, List.nil_append]
          obtain ⟨bl', h1, h2, h3, h4, h5, h6⟩ := wr s.d
            { path := .main, pos := (fileCells nl blocks).length, nl := nl, buf := [], bufSize := 0, bs := bs } blocks items hwf
            (by rw [hd]; exact ⟨rfl, rfl, fileCells_hdr nl blocks⟩) rfl (by rw [hd]; rfl) maxEnts_pos
            (by subst hidx; simpa using hs)
          exact ⟨hnl, hbs, bl', h1, h2, h3, h4, h5, h6⟩
  | sync =>
    simp only [mStep, mWritten, Index.replay, List.foldl_nil]
    refine ⟨spec, ?_, Index.Same.refl _⟩
    cases hcw : s.cs.w with
    | none =>
      simp only [cSync, hcw, Disk.applyAll_nil]
      refine ⟨hnl, hbs, ?_⟩
      rw [hcw] at hw ⊢; exact hw
    | some w0 =>
      rw [hcw] at hw
      obtain ⟨blocks, hwf, hinv, hp, htemp, hcnt, hs⟩ := hw
      simp only [cSync, hcw]
      obtain ⟨nbs, he, hbuf, pa⟩ := syncW_post c mk hmk s.d w0 _ hinv (Nat.le_of_lt hcnt)
      refine ⟨hnl, hbs, blocks ++ nbs, ?_, ?_, by rw [pa.path, hp], ?_, pa.cnt, ?_⟩
      · intro x hx
        rcases List.mem_append.mp hx with hx | hx
        · exact hwf x hx
        · exact pa.wf x hx
      · have : fileCells nl (blocks ++ nbs) = fileCells nl blocks ++ render nbs := by
          simp [fileCells, render_append, List.append_assoc]
        rw [this]; exact pa.inv
      · rw [pa.other .temp (by rw [hp]; decide)]; exact htemp
      · rw [hbuf, List.append_nil, entsOf_append, he]; exact hs
  | close =>
    simp only [mStep, mWritten, Index.replay, List.foldl_nil]
    refine ⟨spec, ?_, Index.Same.refl _⟩
    cases hcw : s.cs.w with
    | none =>
      simp only [cClose, hcw, Disk.applyAll_nil]
      refine ⟨hnl, hbs, ?_⟩
      rw [hcw] at hw ⊢; exact hw
    | some w0 =>
      rw [hcw] at hw
      obtain ⟨blocks, hwf, hinv, hp, htemp, hcnt, hs⟩ := hw
      simp only [cClose, hcw]
      exact ⟨hnl, hbs, _, close_between c mk hmk nl s.d w0 blocks hwf hinv hp htemp hcnt, hs⟩
  | compactLocked order =>
    obtain ⟨hrm, hcov, _⟩ := hv
    simp only [mStep, mWritten, Index.replay, List.foldl_nil]
    -- the disk after the writer was closed is between sessions
    have hclosed : ∃ idx1, Between nl (s.d.applyAll (cClose c mk s.cs).2) idx1 ∧ idx1.Same spec ∧ (cClose c mk s.cs).1.w = none ∧
        (cClose c mk s.cs).1.nlName = nl ∧ (cClose c mk s.cs).1.bs = bs := by
      cases hcw : s.cs.w with
      | none =>
        rw [hcw] at hw
        obtain ⟨idx, hb, hs⟩ := hw
        have e : cClose c mk s.cs = (s.cs, []) := by simp [cClose, hcw]
        rw [e]
        exact ⟨idx, by rw [Disk.applyAll_nil]; exact hb, hs, hcw, hnl, hbs⟩
      | some w0 =>
        rw [hcw] at hw
        obtain ⟨blocks, hwf, hinv, hp, htemp, hcnt, hs⟩ := hw
        have e : cClose c mk s.cs = ({ s.cs with w := none }, closeW c mk w0) := by simp [cClose, hcw]
        rw [e]
        exact ⟨_, close_between c mk hmk nl s.d w0 blocks hwf hinv hp htemp hcnt, hs, rfl, hnl, hbs⟩
    obtain ⟨idx1, hb1, hs1, hwn, hnl1, hbs1⟩ := hclosed
    obtain ⟨idx', hb', hs'⟩ := compact_step c mk hmk nl bs _ idx1 hb1 .locked hrm order hcov
    refine ⟨spec, ⟨?_, ?_, ?_⟩, Index.Same.refl _⟩
    · simp only [cCompactLocked]; exact hnl1
    · simp only [cCompactLocked]; exact hbs1
    · simp only [cCompactLocked, hwn]
      refine ⟨idx', ?_, hs'.trans hs1⟩
      rw [Disk.applyAll_append]
      simpa [sStep, hbs] using hb'
  | compactOff ep order =>
    obtain ⟨hrm, hcov, _⟩ := hv
    simp only [mStep, mWritten, Index.replay, List.foldl_nil]
    refine ⟨spec, ?_, Index.Same.refl _⟩
    cases hcw : s.cs.w with
    | some w0 => exact ⟨hnl, hbs, by rw [hcw] at hw ⊢; exact hw⟩
    | none =>
      rw [hcw] at hw
      obtain ⟨idx, hb, hs⟩ := hw
      obtain ⟨idx', hb', hs'⟩ := compact_step c mk hmk nl bs _ idx hb ep hrm order hcov
      refine ⟨hnl, hbs, ?_⟩
      simp only [hcw]
      exact ⟨idx', by simpa [sStep, hbs] using hb', hs'.trans hs⟩

theorem mWritten_cons (a : MAct) (r : List MAct) : mWritten (a :: r) = mWritten [a] ++ mWritten r := by
  cases a <;> simp [mWritten]

theorem mValid_head (c : Cfg) (mk : Mk) (s : MSt) (a : MAct) (r : List MAct) (h : mValid c mk s (a :: r)) :
    mValid c mk s [a] ∧ mValid c mk (mStep c mk s a) r := by
  cases a with
  | w items => exact ⟨trivial, h⟩
  | sync => exact ⟨trivial, h⟩
  | close => exact ⟨trivial, h⟩
  | compactLocked order => exact ⟨⟨h.1, h.2.1, trivial⟩, h.2.2⟩
  | compactOff ep order => exact ⟨⟨h.1, h.2.1, trivial⟩, h.2.2⟩

/-- **Compaction in the middle of a session.**  Whatever chronicler calls a history is made of —
    writes, syncs, closes, locked compactions at any moment (also between two writes of an open
    writer that still buffers entries), offline compactions while no writer is open — once the
    chronicler is closed the file loads to the replay of everything that was written. -/
theorem compaction_mid_session (c : Cfg) (mk : Mk) (hmk : MkOk mk) (nl bs : Nat) (acts : List MAct)
    (hv : mValid c mk ⟨{ w := none, nlName := nl, bs := bs }, {}⟩ acts) :
    ∃ idx, Between nl (mStep c mk (acts.foldl (mStep c mk) ⟨{ w := none, nlName := nl, bs := bs }, {}⟩) .close).d idx ∧
      idx.Same (Index.replay [] (mWritten acts)) := by
  have gen : ∀ (acts : List MAct) (s : MSt) (spec : Index), MInv nl bs s spec → mValid c mk s acts →
      ∃ spec', MInv nl bs (acts.foldl (mStep c mk) s) spec' ∧ spec'.Same (Index.replay spec (mWritten acts)) := by
    intro acts
    induction acts with
    | nil => intro s spec h _; exact ⟨spec, h, by simp [mWritten, Index.replay, Index.Same.refl]⟩
    | cons a rest ih =>
      intro s spec h hv
      obtain ⟨hv1, hv2⟩ := mValid_head c mk s a rest hv
      obtain ⟨spec1, h1, hs1⟩ := mStep_inv c mk hmk nl bs s spec h a hv1
      obtain ⟨spec2, h2, hs2⟩ := ih _ spec1 h1 hv2
      refine ⟨spec2, h2, ?_⟩
      rw [mWritten_cons, Index.replay_append]
      exact hs2.trans (Same_replay hs1 _)
  have h0 : MInv nl bs ⟨{ w := none, nlName := nl, bs := bs }, {}⟩ [] :=
    ⟨rfl, rfl, [], Or.inl ⟨rfl, rfl⟩, Index.Same.refl _⟩
  obtain ⟨spec, hinv, hs⟩ := gen acts _ _ h0 hv
  obtain ⟨spec', hinv', hs'⟩ := mStep_inv c mk hmk nl bs _ spec hinv .close trivial
  obtain ⟨_, _, hw⟩ := hinv'
  have hnone : (mStep c mk (acts.foldl (mStep c mk) ⟨{ w := none, nlName := nl, bs := bs }, {}⟩) .close).cs.w = none := by
    simp only [mStep, cClose]; split <;> simp_all
  rw [hnone] at hw
  obtain ⟨idx, hb, hsi⟩ := hw
  refine ⟨idx, hb, hsi.trans (hs'.trans ?_)⟩
  simpa [mWritten, Index.replay] using hs


/-! ### The fragment that always holds, and the decision over the extracted facts -/

/-- what is proved whatever the facts: entry points that remove the temp preserve the live
    set; with the fsync before the rename every crash image is old or new -/
def Partial (c : Cfg) : Prop :=
  (∀ ep, ep.rmFirst c = true → Preserves c ep ∧ PreservesTorn c ep) ∧ (c.closeFsyncs = true → Atomic c)

theorem C03_partial (c : Cfg) : Partial c :=
  ⟨fun ep h => ⟨compact_preserves c ep h, compact_preserves_torn c ep h⟩, fun h => compact_crash_atomic c h⟩

theorem holds_of_good (c : Cfg) (h1 : ∀ ep : EP, ep.rmFirst c = true) (h2 : c.closeFsyncs = true) : Holds c :=
  ⟨fun ep => compact_preserves c ep (h1 ep), fun ep => compact_preserves_torn c ep (h1 ep), compact_crash_atomic c h2,
   fun mk hmk nl bs acts hv => compaction_anywhere c mk hmk nl bs acts hv,
   fun mk hmk nl bs acts hv => compaction_mid_session c mk hmk nl bs acts hv⟩

structure Facts where
  /-- `CleanupCompactionTemp` precedes `NewCompactor(...).Compact()` in runCompactionLocked -/
  rmTempLocked : Tri
  /-- `os.Remove(tempPath)` precedes `NewFileWriterWithName` in CompactFromIndex -/
  rmTempFromIndex : Tri
  /-- a removal of the temp precedes `NewFileWriterWithName` in Compactor.Compact -/
  rmTempCompactor : Tri
  /-- `Load` calls `CleanupCompactionTemp` before reading -/
  loadCleansTemp : Tri
  /-- `NewFileWriterWithName` opens an existing path for append (no truncation) -/
  opensExistingForAppend : Tri
  /-- `FileWriter.Close` fsyncs before closing -/
  closeFsyncs : Tri
  /-- in both compaction bodies `os.Rename` comes after `writer.Close()` and is the last file operation -/
  renameAfterClose : Tri
  /-- … and a failing `writer.Close()` (flush or fsync error) returns before the rename -/
  closeErrorAborts : Tri
  /-- flushLocked writes block header, payload, file header, in this order -/
  flushOrderCanonical : Tri
  /-- the CLI's compactSwamp only calls NewCompactor(...).Compact() / ShouldCompact() -/
  cliUsesCompactorOnly : Tri
  /-- the inline triggers (Write, Close, ForceCompaction) all go through runCompactionLocked -/
  triggersUseLocked : Tri
  /-- Load's self-heal goes through CompactFromIndex -/
  loadUsesFromIndex : Tri
  /-- reader facts: not used by any C03 theorem (clean files load under every reader
      configuration); they steer the correspondence driver on images with a damaged temp -/
  shortHeaderIsEOF : Tri
  tornDataIsEOF : Tri
  truncatesTornTail : Tri
  /-- `WriteBuffer.Add` reports full at `math.MaxUint16` entries: a fault-free writer never hands
      `CompressEntries` more than the 16-bit count field holds (the bound of `MkOk`) -/
  flushesAtCountBound : Tri
  /-- readNextBlock takes a zero-filled tail for the end of the data -/
  zeroTailIsEOF : Tri
  /-- runCompactionLocked closes the writer first whenever one is open (`cCompactLocked`: close, then compact) -/
  lockedClosesWriterFirst : Tri
  /-- hydraidectl compact ends when the instance cannot be stopped: the offline compaction of the model
      (`mStep … (.compactOff …)`: nothing happens while a writer is open) never meets a running server -/
  cliAbortsWhenStopFails : Tri
  /-- CompactIfNeeded / ForceCompact / CompactDirectory are `Compactor.Compact` on one file (or nothing): the
      statements about one compaction of one file are statements about each of them -/
  wrappersDelegate : Tri
  /-- the reader assumptions of the model (established by C04): a payload that is not the one
      written fails the checksum; the decoded length and the entry count are checked -/
  validatesCrc : Tri
  crcBeforeDecompress : Tri
  validatesULen : Tri
  boundsDecodedLen : Tri
  parseConsumesAll : Tri
  deriving Repr

def cfgOf (f : Facts) : Cfg :=
  { r := ⟨f.shortHeaderIsEOF.isYes, f.tornDataIsEOF.isYes, false, f.zeroTailIsEOF.isYes⟩, syncFsyncs := true, closeFsyncs := f.closeFsyncs.isYes,
    truncatesTornTail := f.truncatesTornTail.isYes, loadCleansTemp := f.loadCleansTemp.isYes,
    rmTempLocked := f.rmTempLocked.isYes, rmTempFromIndex := f.rmTempFromIndex.isYes,
    rmTempCompactor := f.rmTempCompactor.isYes }

def modelApplies (f : Facts) : Bool :=
  f.opensExistingForAppend.isYes && f.renameAfterClose.isYes && f.closeErrorAborts.isYes && f.flushOrderCanonical.isYes &&
  f.cliUsesCompactorOnly.isYes && f.triggersUseLocked.isYes && f.loadUsesFromIndex.isYes &&
  f.rmTempLocked != .unknown && f.rmTempFromIndex != .unknown && f.rmTempCompactor != .unknown &&
  f.loadCleansTemp != .unknown && f.closeFsyncs != .unknown &&
  f.shortHeaderIsEOF != .unknown && f.tornDataIsEOF != .unknown && f.truncatesTornTail != .unknown &&
  f.flushesAtCountBound.isYes && f.validatesCrc.isYes && f.validatesULen.isYes && f.parseConsumesAll.isYes &&
  f.zeroTailIsEOF != .unknown && f.lockedClosesWriterFirst.isYes && f.cliAbortsWhenStopFails.isYes && f.wrappersDelegate.isYes

def findings (f : Facts) : List String :=
  (if EP.rmFirst (cfgOf f) .locked then [] else ["C03-locked-stale-temp"]) ++
  (if EP.rmFirst (cfgOf f) .fromIndex then [] else ["C03-load-stale-temp"]) ++
  (if EP.rmFirst (cfgOf f) .cli then [] else ["C03-cli-stale-temp"]) ++
  (if (cfgOf f).closeFsyncs then [] else ["C03-rename-without-fsync"])

def classify (f : Facts) : Verdict :=
  if !modelApplies f then .undetermined "a compaction fact was not recognised (the model does not describe this code)"
  else if findings f = [] then .holds
  else if f.truncatesTornTail.isYes then
    .undetermined "an entry point does not remove the temp and the open truncates: no witness theorem for this combination"
  else .violated (findings f)

theorem ite_nil_iff (b : Bool) (x : String) : (if b = true then ([] : List String) else [x]) = [] ↔ b = true := by
  cases b <;> simp

theorem classify_sound (f : Facts) : (classify f).Sound (Holds (cfgOf f)) (Partial (cfgOf f)) := by
  unfold classify
  split
  · trivial
  · split
    · rename_i hfnd
      simp only [findings, List.append_eq_nil_iff, ite_nil_iff] at hfnd
      obtain ⟨⟨⟨h1, h2⟩, h3⟩, h4⟩ := hfnd
      refine holds_of_good _ ?_ h4
      intro ep
      cases ep
      · exact h1
      · exact h2
      · exact h3
    · split
      · trivial
      rename_i hfnd htr
      refine ⟨?_, C03_partial _⟩
      intro hh
      apply hfnd
      have hc : (cfgOf f).truncatesTornTail = false := by simpa [cfgOf] using htr
      simp only [findings, List.append_eq_nil_iff, ite_nil_iff]
      refine ⟨⟨⟨?_, ?_⟩, ?_⟩, ?_⟩
      · cases h : EP.rmFirst (cfgOf f) .locked
        · exact absurd (hh.preserves .locked) (not_preserves_of_stale _ hc _ h)
        · rfl
      · cases h : EP.rmFirst (cfgOf f) .fromIndex
        · exact absurd (hh.preserves .fromIndex) (not_preserves_of_stale _ hc _ h)
        · rfl
      · cases h : EP.rmFirst (cfgOf f) .cli
        · exact absurd (hh.preserves .cli) (not_preserves_of_stale _ hc _ h)
        · rfl
      · cases h : (cfgOf f).closeFsyncs
        · exact absurd hh.atomic (compact_no_fsync_loses _ h)
        · rfl

end Hv.C03
