/-
  C03 — Compaction never changes the stored state.

  "Compaction, whether triggered on write, on close, on load, forced by the API or run by the
   command-line tool, leaves the set of live records and their values exactly as before.  This
   holds whatever files happen to be present when it runs, including a leftover temporary file
   from an earlier interrupted compaction, and a crash at any point of a compaction leaves either
   the complete old state or the complete new state."

  Quantifiers: every cleanly written main file (any name length, any list of well-formed
  blocks), every content of the temp file (absent, garbage, a stale parseable file, a truncated
  one: `Option (List Cell)`), every entry point, every order in which the map iteration hands out
  the live keys, every block size, every block encoder (`MkOk`), and every crash point
  `(i, j, k)`: operation `i` in flight, the data of all writes since `j ≥ last fsync` lost, write
  `j` torn after `k` bytes, metadata operations issued in between kept (`lossyImageAt`).

  Model: `Hv/Storage/Chron.lean` (`compactVia`, mirrors Compactor.Compact / CompactFromIndex /
  runCompactionLocked, including that `NewFileWriterWithName` appends to an existing temp).
-/
import Hv.Storage.Compact
import Hv.Basic.Verdict

namespace Hv.C03
open Hv.BlockStore

/-- the order covers exactly the live keys (the code iterates over the index map) -/
def Covers (order : List (Nat × Nat)) (idx : Index) : Prop :=
  ∀ k, k ∈ order.map (·.1) ↔ k ∈ idx.keys

/-- compaction through `ep` leaves a loadable file with the same live records -/
def Preserves (c : Cfg) (ep : EP) : Prop :=
  ∀ (mk : Mk), MkOk mk → ∀ (nl bs : Nat) (blocks : List Block), (∀ b ∈ blocks, b.WF) →
  ∀ (temp : Option (List Cell)) (order : List (Nat × Nat)),
    Covers order (Index.replay [] (entsOf blocks)) →
    ∃ idx', mainIndex c ((cleanDisk nl blocks temp).applyAll
              (compactVia c mk (cleanDisk nl blocks temp) ep order bs)) = some idx' ∧
            idx'.Same (Index.replay [] (entsOf blocks))

/-- every crash image has the old main file or is the finished compaction -/
def Atomic (c : Cfg) : Prop :=
  ∀ (mk : Mk), MkOk mk → ∀ (nl bs : Nat) (blocks : List Block), (∀ b ∈ blocks, b.WF) →
  ∀ (temp : Option (List Cell)) (ep : EP) (order : List (Nat × Nat)) (i j k : Nat),
    CrashPoint (compactVia c mk (cleanDisk nl blocks temp) ep order bs) i j →
    (lossyImageAt (cleanDisk nl blocks temp) (compactVia c mk (cleanDisk nl blocks temp) ep order bs) i j k).main
        = (cleanDisk nl blocks temp).main ∨
    lossyImageAt (cleanDisk nl blocks temp) (compactVia c mk (cleanDisk nl blocks temp) ep order bs) i j k
        = (cleanDisk nl blocks temp).applyAll (compactVia c mk (cleanDisk nl blocks temp) ep order bs)

/-- The full-strength statement. -/
structure Holds (c : Cfg) : Prop where
  preserves : ∀ ep, Preserves c ep
  atomic : Atomic c

/-! ### Theorems -/

/-- An entry point that removes the temp file before opening it preserves the live set,
    for every leftover temp content and every iteration order. -/
theorem compact_preserves (c : Cfg) (ep : EP) (hrm : ep.rmFirst c = true) : Preserves c ep := by
  intro mk hmk nl bs blocks hwf temp order hcov
  have hidx := mainIndex_clean c nl blocks hwf temp
  simp only [compactVia, hidx, hrm]
  obtain ⟨nbs, hnwf, hents, hfin⟩ := compactOps_rm c mk hmk nl bs blocks temp
    (liveEntries (Index.replay [] (entsOf blocks)) order)
  rw [hfin]
  refine ⟨_, mainIndex_clean c nl nbs hnwf none, ?_⟩
  intro k
  rw [hents, liveEntries_fst, Index.get_replay_puts]
  by_cases hk : k ∈ order.map (·.1)
  · simp only [hk, if_true]
    cases h : Index.get (Index.replay [] (entsOf blocks)) k <;> simp [Index.get_nil]
  · simp only [hk, if_false, Index.get_nil]
    exact (Index.get_eq_none_of_not_mem _ _ (fun hm => hk ((hcov k).mpr hm))).symm

/-- the encoder used by the closed witnesses: one payload byte per block -/
def mk0 : Mk := fun es => { hdr := [1, 0, 0, 0, 0, 0, 0, 0, 0, 0, 0, 0, 0, 0, 0, 0], plen := 1, ents := es }

theorem mk0_ok : MkOk mk0 := by
  intro es _
  exact ⟨⟨rfl, rfl, Nat.one_pos⟩, rfl⟩

/-- An entry point that opens the temp without removing it resurrects whatever a stale,
    parseable temp file contains: a key `z` that is not live before is live afterwards.
    (General form: any main file, any stale block list.) -/
theorem compact_stale_temp_resurrects (c : Cfg) (hc : c.truncatesTornTail = false) (ep : EP)
    (hrm : ep.rmFirst c = false) (mk : Mk) (hmk : MkOk mk) (nl bs snl : Nat) (blocks sbs : List Block)
    (hwf : ∀ b ∈ blocks, b.WF) (hswf : ∀ b ∈ sbs, b.WF) (order : List (Nat × Nat)) (z v : Nat)
    (hz : z ∉ order.map (·.1)) (hs : Index.get (Index.replay [] (entsOf sbs)) z = some v) :
    ∃ idx', mainIndex c ((cleanDisk nl blocks (some (fileCells snl sbs))).applyAll
              (compactVia c mk (cleanDisk nl blocks (some (fileCells snl sbs))) ep order bs)) = some idx' ∧
            idx'.get z = some v := by
  have hidx := mainIndex_clean c nl blocks hwf (some (fileCells snl sbs))
  simp only [compactVia, hidx, hrm]
  obtain ⟨nbs, hnwf, hents, hfin⟩ := compactOps_stale c hc mk hmk nl bs blocks sbs snl
    (liveEntries (Index.replay [] (entsOf blocks)) order)
  rw [hfin]
  have hall : ∀ b ∈ sbs ++ nbs, b.WF := by
    intro b hb
    rcases List.mem_append.mp hb with hb | hb
    · exact hswf b hb
    · exact hnwf b hb
  refine ⟨_, mainIndex_clean c snl (sbs ++ nbs) hall none, ?_⟩
  rw [entsOf_append, Index.replay_append, hents, liveEntries_fst, Index.get_replay_puts]
  simp [hz, hs]

theorem not_preserves_of_stale (c : Cfg) (hc : c.truncatesTornTail = false) (ep : EP)
    (hrm : ep.rmFirst c = false) : ¬ Preserves c ep := by
  intro hp
  -- empty main file, stale temp holding key 7
  have hwz : ∀ b ∈ [mk0 [Op.put 7 1]], b.WF := by
    intro b hb; simp only [List.mem_cons, List.not_mem_nil, or_false] at hb; subst hb; exact (mk0_ok _ (by simp)).1
  obtain ⟨idx1, h1, hsame⟩ := hp mk0 mk0_ok 0 100 [] (by simp) (some (fileCells 0 [mk0 [Op.put 7 1]])) []
    (by intro k; simp [entsOf, Index.replay, Index.keys])
  obtain ⟨idx2, h2, hget⟩ := compact_stale_temp_resurrects c hc ep hrm mk0 mk0_ok 0 100 0 [] [mk0 [Op.put 7 1]]
    (by simp) hwz [] 7 1 (by simp) (by decide)
  rw [h1] at h2
  cases h2
  have := hsame 7
  rw [hget] at this
  simp [entsOf, Index.replay, Index.get] at this

/-- With the fsync in `Close` and the rename after it, every crash image — including power
    loss that drops unsynced data but keeps the rename — has the complete old main file or is
    the complete new state.  Holds for every entry point, whether or not it removes the temp. -/
theorem compact_crash_atomic (c : Cfg) (hf : c.closeFsyncs = true) : Atomic c := by
  intro mk _ nl bs blocks _ temp ep order i j k hcp
  unfold compactVia at hcp ⊢
  cases hm : mainIndex c (cleanDisk nl blocks temp) with
  | none =>
    left
    simp only [hm]
    exact onlyTemp_lossy_main _ _ (by simp) i j k
  | some idx =>
    simp only [hm] at hcp ⊢
    rcases compactOps_shape c mk (cleanDisk nl blocks temp) (ep.rmFirst c) (liveEntries idx order) bs with h | ⟨pre, hpre, hot, hs⟩
    · left; exact onlyTemp_lossy_main _ _ h i j k
    · obtain ⟨P, hP⟩ := hs hf
      have hops : compactOps c mk (cleanDisk nl blocks temp) (ep.rmFirst c) (liveEntries idx order) bs =
          P ++ [.sync .temp, .rename .temp .main] := by rw [hpre, hP]; simp
      rw [hops] at hcp ⊢
      exact atomic_of_shape _ P (fun o ho => hot o (by rw [hP]; simp [ho])) i j k hcp

/-- Without an fsync before the rename a power loss can keep the rename and lose the data:
    the main file comes back empty.  Closed witness: one live record, crash after the rename
    with all writes since the creation of the temp file lost. -/
theorem compact_no_fsync_loses (c : Cfg) (hf : c.closeFsyncs = false) : ¬ Atomic c := by
  intro ha
  have hwf : ∀ b ∈ [mk0 [Op.put 1 1]], b.WF := by
    intro b hb; simp only [List.mem_cons, List.not_mem_nil, or_false] at hb; subst hb; exact (mk0_ok _ (by simp)).1
  have hidx := mainIndex_clean c 0 [mk0 [Op.put 1 1]] hwf none
  have hops : compactVia c mk0 (cleanDisk 0 [mk0 [Op.put 1 1]] none) .cli [(1, 10)] 100 =
      [.create .temp, .write .temp 0 (fhCells 0),
       .write .temp 64 (hdrCells (mk0 [Op.put 1 1])), .write .temp 80 (payCells (mk0 [Op.put 1 1])),
       .write .temp 0 (fhCells 0), .write .temp 0 (fhCells 0), .rename .temp .main] := by
    simp only [compactVia, hidx]
    simp [compactOps, rmTempOps, cleanDisk, openWriter, Disk.get, mainNl_clean, createOps, liveEntries, entsOf,
      Index.replay, Index.apply, Index.put, Index.del, Index.get, addManyW, addW, closeW, flushW, hf, mk0,
      Disk.applyAll, mainNl, fileCells, headerOf_file]
  have h := ha mk0 mk0_ok 0 100 [mk0 [Op.put 1 1]] hwf none .cli [(1, 10)] 7 1 0
  rw [hops] at h
  have hcp : CrashPoint [FsOp.create .temp, .write .temp 0 (fhCells 0),
       .write .temp 64 (hdrCells (mk0 [Op.put 1 1])), .write .temp 80 (payCells (mk0 [Op.put 1 1])),
       .write .temp 0 (fhCells 0), .write .temp 0 (fhCells 0), .rename .temp .main] 7 1 := by
    refine ⟨by simp, ?_, by omega⟩
    simp [lastSyncIdx, FsOp.isSync]
  have himg : lossyImageAt (cleanDisk 0 [mk0 [Op.put 1 1]] none) [FsOp.create .temp, .write .temp 0 (fhCells 0),
       .write .temp 64 (hdrCells (mk0 [Op.put 1 1])), .write .temp 80 (payCells (mk0 [Op.put 1 1])),
       .write .temp 0 (fhCells 0), .write .temp 0 (fhCells 0), .rename .temp .main] 7 1 0 =
      { main := some [], temp := none } := by
    simp [lossyImageAt, imageAt, Disk.applyAll, Disk.applyTorn, Disk.apply, Disk.set, Disk.get, cleanDisk, FsOp.isWrite, splice]
  rcases h hcp with h | h
  · rw [himg] at h
    have : (fileCells 0 [mk0 [Op.put 1 1]]).length = 0 := by
      simp only [cleanDisk] at h
      have := congrArg (fun o => (o.map List.length)) h
      simpa using this.symm
    simp [fileCells] at this
  · rw [himg] at h
    have hm := congrArg Disk.main h
    simp only [Disk.applyAll, List.foldl, Disk.apply, Disk.set, Disk.get, cleanDisk] at hm
    have := congrArg (fun o => (o.map List.length)) hm
    simp [splice] at this
    omega

/-- Non-vacuity of the hypotheses: a well-formed encoder, a non-empty main file, a covering order. -/
example : MkOk mk0 ∧ (∀ b ∈ [mk0 [Op.put 1 1, Op.put 2 5], mk0 [Op.del 1]], b.WF) ∧
    Covers [(2, 9)] (Index.replay [] (entsOf [mk0 [Op.put 1 1, Op.put 2 5], mk0 [Op.del 1]])) := by
  refine ⟨mk0_ok, ?_, ?_⟩
  · intro b hb
    simp only [List.mem_cons, List.not_mem_nil, or_false] at hb
    rcases hb with rfl | rfl <;> exact ⟨rfl, rfl, Nat.one_pos⟩
  · intro k
    simp [entsOf, mk0, Index.replay, Index.apply, Index.put, Index.del, Index.keys]

/-! ### The fragment that always holds, and the decision over the extracted facts -/

/-- what is proved whatever the facts: entry points that remove the temp preserve the live
    set; with the fsync before the rename every crash image is old or new -/
def Partial (c : Cfg) : Prop :=
  (∀ ep, ep.rmFirst c = true → Preserves c ep) ∧ (c.closeFsyncs = true → Atomic c)

theorem C03_partial (c : Cfg) : Partial c :=
  ⟨fun ep h => compact_preserves c ep h, fun h => compact_crash_atomic c h⟩

theorem holds_of_good (c : Cfg) (h1 : ∀ ep : EP, ep.rmFirst c = true) (h2 : c.closeFsyncs = true) : Holds c :=
  ⟨fun ep => compact_preserves c ep (h1 ep), compact_crash_atomic c h2⟩

structure Facts where
  /-- `CleanupCompactionTemp` precedes `NewCompactor(...).Compact()` in runCompactionLocked -/
  rmTempLocked : Tri
  /-- `os.Remove(tempPath)` precedes `NewFileWriterWithName` in CompactFromIndex -/
  rmTempFromIndex : Tri
  /-- a removal of the temp precedes `NewFileWriterWithName` in Compactor.Compact -/
  rmTempCompactor : Tri
  /-- `Load` calls `CleanupCompactionTemp` before reading -/
  loadCleansTemp : Tri
  /-- `NewFileWriterWithName` opens an existing path for append (no truncation) -/
  opensExistingForAppend : Tri
  /-- `FileWriter.Close` fsyncs before closing -/
  closeFsyncs : Tri
  /-- in both compaction bodies `os.Rename` comes after `writer.Close()` and is the last file operation -/
  renameAfterClose : Tri
  /-- flushLocked writes block header, payload, file header, in this order -/
  flushOrderCanonical : Tri
  /-- the CLI's compactSwamp only calls NewCompactor(...).Compact() / ShouldCompact() -/
  cliUsesCompactorOnly : Tri
  /-- the inline triggers (Write, Close, ForceCompaction) all go through runCompactionLocked -/
  triggersUseLocked : Tri
  /-- Load's self-heal goes through CompactFromIndex -/
  loadUsesFromIndex : Tri
  /-- reader facts: not used by any C03 theorem (clean files load under every reader
      configuration); they steer the correspondence driver on images with a damaged temp -/
  shortHeaderIsEOF : Tri
  tornDataIsEOF : Tri
  deriving Repr

def cfgOf (f : Facts) : Cfg :=
  { r := ⟨f.shortHeaderIsEOF.isYes, f.tornDataIsEOF.isYes, false⟩, syncFsyncs := true, closeFsyncs := f.closeFsyncs.isYes,
    truncatesTornTail := false, loadCleansTemp := f.loadCleansTemp.isYes,
    rmTempLocked := f.rmTempLocked.isYes, rmTempFromIndex := f.rmTempFromIndex.isYes,
    rmTempCompactor := f.rmTempCompactor.isYes }

def modelApplies (f : Facts) : Bool :=
  f.opensExistingForAppend.isYes && f.renameAfterClose.isYes && f.flushOrderCanonical.isYes &&
  f.cliUsesCompactorOnly.isYes && f.triggersUseLocked.isYes && f.loadUsesFromIndex.isYes &&
  f.rmTempLocked != .unknown && f.rmTempFromIndex != .unknown && f.rmTempCompactor != .unknown &&
  f.loadCleansTemp != .unknown && f.closeFsyncs != .unknown &&
  f.shortHeaderIsEOF != .unknown && f.tornDataIsEOF != .unknown

def findings (f : Facts) : List String :=
  (if EP.rmFirst (cfgOf f) .locked then [] else ["C03-locked-stale-temp"]) ++
  (if EP.rmFirst (cfgOf f) .fromIndex then [] else ["C03-load-stale-temp"]) ++
  (if EP.rmFirst (cfgOf f) .cli then [] else ["C03-cli-stale-temp"]) ++
  (if (cfgOf f).closeFsyncs then [] else ["C03-rename-without-fsync"])

def classify (f : Facts) : Verdict :=
  if !modelApplies f then .undetermined "a compaction fact was not recognised (the model does not describe this code)"
  else if findings f = [] then .holds
  else .violated (findings f)

theorem ite_nil_iff (b : Bool) (x : String) : (if b = true then ([] : List String) else [x]) = [] ↔ b = true := by
  cases b <;> simp

theorem classify_sound (f : Facts) : (classify f).Sound (Holds (cfgOf f)) (Partial (cfgOf f)) := by
  unfold classify
  split
  · trivial
  · split
    · rename_i hfnd
      simp only [findings, List.append_eq_nil_iff, ite_nil_iff] at hfnd
      obtain ⟨⟨⟨h1, h2⟩, h3⟩, h4⟩ := hfnd
      refine holds_of_good _ ?_ h4
      intro ep
      cases ep
      · exact h1
      · exact h2
      · exact h3
    · rename_i hfnd
      refine ⟨?_, C03_partial _⟩
      intro hh
      apply hfnd
      have hc : (cfgOf f).truncatesTornTail = false := rfl
      simp only [findings, List.append_eq_nil_iff, ite_nil_iff]
      refine ⟨⟨⟨?_, ?_⟩, ?_⟩, ?_⟩
      · cases h : EP.rmFirst (cfgOf f) .locked
        · exact absurd (hh.preserves .locked) (not_preserves_of_stale _ hc _ h)
        · rfl
      · cases h : EP.rmFirst (cfgOf f) .fromIndex
        · exact absurd (hh.preserves .fromIndex) (not_preserves_of_stale _ hc _ h)
        · rfl
      · cases h : EP.rmFirst (cfgOf f) .cli
        · exact absurd (hh.preserves .cli) (not_preserves_of_stale _ hc _ h)
        · rfl
      · cases h : (cfgOf f).closeFsyncs
        · exact absurd hh.atomic (compact_no_fsync_loses _ h)
        · rfl

end Hv.C03
