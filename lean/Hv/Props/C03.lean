/-
  C03 — Compaction never changes the stored state.

  "Compaction, whether triggered on write, on close, on load, forced by the API or run by the
   command-line tool, leaves the set of live records and their values exactly as before.  This
   holds whatever files happen to be present when it runs, including a leftover temporary file
   from an earlier interrupted compaction, and a crash at any point of a compaction leaves either
   the complete old state or the complete new state."

  Quantifiers: every cleanly written main file (any name length, any list of well-formed
  blocks), every content of the temp file (absent, garbage, a stale parseable file, a truncated
  one: `Option (List Cell)`), every entry point, every order in which the map iteration hands out
  the live keys, every block size, every block encoder (`MkOk`), and every crash point
  `(i, j, k)`: operation `i` in flight, the data of all writes since `j ≥ last fsync` lost, write
  `j` torn after `k` bytes, metadata operations issued in between kept (`lossyImageAt`).

  Model: `Hv/Storage/Chron.lean` (`compactVia`, mirrors Compactor.Compact / CompactFromIndex /
  runCompactionLocked, including that `NewFileWriterWithName` appends to an existing temp).
-/
import Hv.Storage.Compact
import Hv.Storage.Session
import Hv.Basic.Verdict

namespace Hv.C03
open Hv.BlockStore

/-- the order covers exactly the live keys (the code iterates over the index map) -/
def Covers (order : List (Nat × Nat)) (idx : Index) : Prop :=
  ∀ k, k ∈ order.map (·.1) ↔ k ∈ idx.keys

/-- compaction through `ep` leaves a loadable file with the same live records -/
def Preserves (c : Cfg) (ep : EP) : Prop :=
  ∀ (mk : Mk), MkOk mk → ∀ (nl bs : Nat) (blocks : List Block), (∀ b ∈ blocks, b.WF) →
  ∀ (temp : Option (List Cell)) (order : List (Nat × Nat)),
    Covers order (Index.replay [] (entsOf blocks)) →
    ∃ idx', mainIndex c ((cleanDisk nl blocks temp).applyAll
              (compactVia c mk (cleanDisk nl blocks temp) ep order bs)) = some idx' ∧
            idx'.Same (Index.replay [] (entsOf blocks))

/-- every crash image has the old main file or is the finished compaction -/
def Atomic (c : Cfg) : Prop :=
  ∀ (mk : Mk), MkOk mk → ∀ (nl bs : Nat) (blocks : List Block), (∀ b ∈ blocks, b.WF) →
  ∀ (temp : Option (List Cell)) (ep : EP) (order : List (Nat × Nat)) (i j k : Nat),
    CrashPoint (compactVia c mk (cleanDisk nl blocks temp) ep order bs) i j →
    (lossyImageAt (cleanDisk nl blocks temp) (compactVia c mk (cleanDisk nl blocks temp) ep order bs) i j k).main
        = (cleanDisk nl blocks temp).main ∨
    lossyImageAt (cleanDisk nl blocks temp) (compactVia c mk (cleanDisk nl blocks temp) ep order bs) i j k
        = (cleanDisk nl blocks temp).applyAll (compactVia c mk (cleanDisk nl blocks temp) ep order bs)

/-- main file as a crash can leave it: a clean file followed by nothing or the beginning of one more block -/
def tornMain (nl : Nat) (blocks : List Block) (b : Block) (r : Nat) : List Cell :=
  fileCells nl blocks ++ (blockCells b).take r

/-- … and on a main file with a torn tail (the input of the Load self-heal after a crash, or of a
    CLI run on a crash image): the compaction either does not start (the file does not load) or
    leaves a file that loads to what the torn file loaded to. -/
def PreservesTorn (c : Cfg) (ep : EP) : Prop :=
  ∀ (mk : Mk), MkOk mk → ∀ (nl bs : Nat) (blocks : List Block), (∀ b ∈ blocks, b.WF) →
  ∀ (b : Block), b.WF → ∀ r, r < 16 + b.plen →
  ∀ (temp : Option (List Cell)) (order : List (Nat × Nat)),
    let d := mainDisk (tornMain nl blocks b r) temp
    (mainIndex c d = none ∧ compactVia c mk d ep order bs = []) ∨
    ∃ idx, mainIndex c d = some idx ∧ (Covers order idx →
      ∃ idx', mainIndex c (d.applyAll (compactVia c mk d ep order bs)) = some idx' ∧ idx'.Same idx)

/-- The full-strength statement. -/
structure Holds (c : Cfg) : Prop where
  preserves : ∀ ep, Preserves c ep
  preservesTorn : ∀ ep, PreservesTorn c ep
  atomic : Atomic c

/-! ### Theorems -/

/-- An entry point that removes the temp file before opening it preserves the live set,
    for every leftover temp content and every iteration order. -/
theorem compact_preserves (c : Cfg) (ep : EP) (hrm : ep.rmFirst c = true) : Preserves c ep := by
  intro mk hmk nl bs blocks hwf temp order hcov
  have hidx := mainIndex_clean c nl blocks hwf temp
  simp only [compactVia, hidx, hrm]
  obtain ⟨nbs, hnwf, hents, hfin⟩ := compactOps_rm c mk hmk nl bs blocks temp
    (liveEntries (Index.replay [] (entsOf blocks)) order)
  rw [hfin]
  refine ⟨_, mainIndex_clean c nl nbs hnwf none, ?_⟩
  intro k
  rw [hents, liveEntries_fst, Index.get_replay_puts]
  by_cases hk : k ∈ order.map (·.1)
  · simp only [hk, if_true]
    cases h : Index.get (Index.replay [] (entsOf blocks)) k <;> simp [Index.get_nil]
  · simp only [hk, if_false, Index.get_nil]
    exact (Index.get_eq_none_of_not_mem _ _ (fun hm => hk ((hcov k).mpr hm))).symm

theorem mainNl_torn (nl : Nat) (blocks : List Block) (b : Block) (r : Nat) (t : Option (List Cell)) :
    mainNl (mainDisk (tornMain nl blocks b r) t) = nl := by
  simp [mainNl, mainDisk, tornMain, fileCells, List.append_assoc, headerOf_file]

/-- The same on a main file with a torn tail. -/
theorem compact_preserves_torn (c : Cfg) (ep : EP) (hrm : ep.rmFirst c = true) : PreservesTorn c ep := by
  intro mk hmk nl bs blocks hwf b hb r hr temp order
  simp only
  cases hm : mainIndex c (mainDisk (tornMain nl blocks b r) temp) with
  | none => left; exact ⟨rfl, by simp [compactVia, hm]⟩
  | some idx =>
    right
    refine ⟨idx, rfl, ?_⟩
    intro hcov
    simp only [compactVia, hm, hrm]
    obtain ⟨nbs, hnwf, hents, hfin⟩ := compactOps_rm_gen c mk hmk nl bs (tornMain nl blocks b r) temp
      (fun t => mainNl_torn nl blocks b r t) (liveEntries idx order)
    rw [hfin]
    refine ⟨_, mainIndex_clean c nl nbs hnwf none, ?_⟩
    intro k
    rw [hents, liveEntries_fst, Index.get_replay_puts]
    by_cases hk : k ∈ order.map (·.1)
    · simp only [hk, if_true]
      cases h : Index.get idx k <;> simp [Index.get_nil]
    · simp only [hk, if_false, Index.get_nil]
      exact (Index.get_eq_none_of_not_mem _ _ (fun hm' => hk ((hcov k).mpr hm'))).symm

/-- the encoder used by the closed witnesses: one payload byte per block -/
def mk0 : Mk := mkP 1

theorem mk0_ok : MkOk mk0 := mkP_ok 1 Nat.one_pos

/-- An entry point that opens the temp without removing it resurrects whatever a stale,
    parseable temp file contains: a key `z` that is not live before is live afterwards.
    (General form: any main file, any stale block list.) -/
theorem compact_stale_temp_resurrects (c : Cfg) (hc : c.truncatesTornTail = false) (ep : EP)
    (hrm : ep.rmFirst c = false) (mk : Mk) (hmk : MkOk mk) (nl bs snl : Nat) (blocks sbs : List Block)
    (hwf : ∀ b ∈ blocks, b.WF) (hswf : ∀ b ∈ sbs, b.WF) (order : List (Nat × Nat)) (z v : Nat)
    (hz : z ∉ order.map (·.1)) (hs : Index.get (Index.replay [] (entsOf sbs)) z = some v) :
    ∃ idx', mainIndex c ((cleanDisk nl blocks (some (fileCells snl sbs))).applyAll
              (compactVia c mk (cleanDisk nl blocks (some (fileCells snl sbs))) ep order bs)) = some idx' ∧
            idx'.get z = some v := by
  have hidx := mainIndex_clean c nl blocks hwf (some (fileCells snl sbs))
  simp only [compactVia, hidx, hrm]
  obtain ⟨nbs, hnwf, hents, hfin⟩ := compactOps_stale c hc mk hmk nl bs blocks sbs snl
    (liveEntries (Index.replay [] (entsOf blocks)) order)
  rw [hfin]
  have hall : ∀ b ∈ sbs ++ nbs, b.WF := by
    intro b hb
    rcases List.mem_append.mp hb with hb | hb
    · exact hswf b hb
    · exact hnwf b hb
  refine ⟨_, mainIndex_clean c snl (sbs ++ nbs) hall none, ?_⟩
  rw [entsOf_append, Index.replay_append, hents, liveEntries_fst, Index.get_replay_puts]
  simp [hz, hs]

theorem not_preserves_of_stale (c : Cfg) (hc : c.truncatesTornTail = false) (ep : EP)
    (hrm : ep.rmFirst c = false) : ¬ Preserves c ep := by
  intro hp
  -- empty main file, stale temp holding key 7
  have hwz : ∀ b ∈ [mk0 [Op.put 7 1]], b.WF := by
    intro b hb; simp only [List.mem_cons, List.not_mem_nil, or_false] at hb; subst hb; exact (mk0_ok _ (by simp) (by decide)).1
  obtain ⟨idx1, h1, hsame⟩ := hp mk0 mk0_ok 0 100 [] (by simp) (some (fileCells 0 [mk0 [Op.put 7 1]])) []
    (by intro k; simp [entsOf, Index.replay, Index.keys])
  obtain ⟨idx2, h2, hget⟩ := compact_stale_temp_resurrects c hc ep hrm mk0 mk0_ok 0 100 0 [] [mk0 [Op.put 7 1]]
    (by simp) hwz [] 7 1 (by simp) (by decide)
  rw [h1] at h2
  cases h2
  have := hsame 7
  rw [hget] at this
  simp [entsOf, Index.replay, Index.get] at this

/-- With the fsync in `Close` and the rename after it, every crash image — including power
    loss that drops unsynced data but keeps the rename — has the complete old main file or is
    the complete new state.  Holds for every entry point, whether or not it removes the temp. -/
theorem compact_crash_atomic (c : Cfg) (hf : c.closeFsyncs = true) : Atomic c := by
  intro mk _ nl bs blocks _ temp ep order i j k hcp
  unfold compactVia at hcp ⊢
  cases hm : mainIndex c (cleanDisk nl blocks temp) with
  | none =>
    left
    simp only [hm]
    exact onlyTemp_lossy_main _ _ (by simp) i j k
  | some idx =>
    simp only [hm] at hcp ⊢
    rcases compactOps_shape c mk (cleanDisk nl blocks temp) (ep.rmFirst c) (liveEntries idx order) bs with h | ⟨pre, hpre, hot, hs⟩
    · left; exact onlyTemp_lossy_main _ _ h i j k
    · obtain ⟨P, hP⟩ := hs hf
      have hops : compactOps c mk (cleanDisk nl blocks temp) (ep.rmFirst c) (liveEntries idx order) bs =
          P ++ [.sync .temp, .rename .temp .main] := by rw [hpre, hP]; simp
      rw [hops] at hcp ⊢
      exact atomic_of_shape _ P (fun o ho => hot o (by rw [hP]; simp [ho])) i j k hcp

/-- Without an fsync before the rename a power loss can keep the rename and lose the data:
    the main file comes back empty.  Closed witness: one live record, crash after the rename
    with all writes since the creation of the temp file lost. -/
theorem compact_no_fsync_loses (c : Cfg) (hf : c.closeFsyncs = false) : ¬ Atomic c := by
  intro ha
  have hwf : ∀ b ∈ [mk0 [Op.put 1 1]], b.WF := by
    intro b hb; simp only [List.mem_cons, List.not_mem_nil, or_false] at hb; subst hb; exact (mk0_ok _ (by simp) (by decide)).1
  have hidx := mainIndex_clean c 0 [mk0 [Op.put 1 1]] hwf none
  have hops : compactVia c mk0 (cleanDisk 0 [mk0 [Op.put 1 1]] none) .cli [(1, 10)] 100 =
      [.create .temp, .write .temp 0 (fhCells 0),
       .write .temp 64 (hdrCells (mk0 [Op.put 1 1])), .write .temp 80 (payCells (mk0 [Op.put 1 1])),
       .write .temp 0 (fhCells 0), .write .temp 0 (fhCells 0), .rename .temp .main] := by
    simp only [compactVia, hidx]
    simp [compactOps, rmTempOps, cleanDisk, openWriter, Disk.get, mainNl_clean, createOps, liveEntries, entsOf,
      Index.replay, Index.apply, Index.put, Index.del, Index.get, addManyW, addW, closeW, flushW, hf, mk0, mkP, WSt.push, WSt.full, maxEnts,
      Disk.applyAll, mainNl, fileCells, headerOf_file]
  have h := ha mk0 mk0_ok 0 100 [mk0 [Op.put 1 1]] hwf none .cli [(1, 10)] 7 1 0
  rw [hops] at h
  have hcp : CrashPoint [FsOp.create .temp, .write .temp 0 (fhCells 0),
       .write .temp 64 (hdrCells (mk0 [Op.put 1 1])), .write .temp 80 (payCells (mk0 [Op.put 1 1])),
       .write .temp 0 (fhCells 0), .write .temp 0 (fhCells 0), .rename .temp .main] 7 1 := by
    refine ⟨by simp, ?_, by omega⟩
    simp [lastSyncIdx, FsOp.isSync]
  have himg : lossyImageAt (cleanDisk 0 [mk0 [Op.put 1 1]] none) [FsOp.create .temp, .write .temp 0 (fhCells 0),
       .write .temp 64 (hdrCells (mk0 [Op.put 1 1])), .write .temp 80 (payCells (mk0 [Op.put 1 1])),
       .write .temp 0 (fhCells 0), .write .temp 0 (fhCells 0), .rename .temp .main] 7 1 0 =
      { main := some [], temp := none } := by
    simp [lossyImageAt, imageAt, Disk.applyAll, Disk.applyTorn, Disk.apply, Disk.set, Disk.get, cleanDisk, FsOp.isWrite, splice]
  rcases h hcp with h | h
  · rw [himg] at h
    have : (fileCells 0 [mk0 [Op.put 1 1]]).length = 0 := by
      simp only [cleanDisk] at h
      have := congrArg (fun o => (o.map List.length)) h
      simpa using this.symm
    simp [fileCells] at this
  · rw [himg] at h
    have hm := congrArg Disk.main h
    simp only [Disk.applyAll, List.foldl, Disk.apply, Disk.set, Disk.get, cleanDisk] at hm
    have := congrArg (fun o => (o.map List.length)) hm
    simp [splice] at this
    omega

/-- Non-vacuity of the hypotheses: a well-formed encoder, a non-empty main file, a covering order. -/
example : MkOk mk0 ∧ (∀ b ∈ [mk0 [Op.put 1 1, Op.put 2 5], mk0 [Op.del 1]], b.WF) ∧
    Covers [(2, 9)] (Index.replay [] (entsOf [mk0 [Op.put 1 1, Op.put 2 5], mk0 [Op.del 1]])) := by
  refine ⟨mk0_ok, ?_, ?_⟩
  · intro b hb
    simp only [List.mem_cons, List.not_mem_nil, or_false] at hb
    rcases hb with rfl | rfl <;> exact (mk0_ok _ (by simp) (by decide)).1
  · intro k
    simp [entsOf, mk0, mkP, Index.replay, Index.apply, Index.put, Index.del, Index.keys]

/-! ### The fragment that always holds, and the decision over the extracted facts -/

/-- what is proved whatever the facts: entry points that remove the temp preserve the live
    set; with the fsync before the rename every crash image is old or new -/
def Partial (c : Cfg) : Prop :=
  (∀ ep, ep.rmFirst c = true → Preserves c ep ∧ PreservesTorn c ep) ∧ (c.closeFsyncs = true → Atomic c)

theorem C03_partial (c : Cfg) : Partial c :=
  ⟨fun ep h => ⟨compact_preserves c ep h, compact_preserves_torn c ep h⟩, fun h => compact_crash_atomic c h⟩

theorem holds_of_good (c : Cfg) (h1 : ∀ ep : EP, ep.rmFirst c = true) (h2 : c.closeFsyncs = true) : Holds c :=
  ⟨fun ep => compact_preserves c ep (h1 ep), fun ep => compact_preserves_torn c ep (h1 ep), compact_crash_atomic c h2⟩

structure Facts where
  /-- `CleanupCompactionTemp` precedes `NewCompactor(...).Compact()` in runCompactionLocked -/
  rmTempLocked : Tri
  /-- `os.Remove(tempPath)` precedes `NewFileWriterWithName` in CompactFromIndex -/
  rmTempFromIndex : Tri
  /-- a removal of the temp precedes `NewFileWriterWithName` in Compactor.Compact -/
  rmTempCompactor : Tri
  /-- `Load` calls `CleanupCompactionTemp` before reading -/
  loadCleansTemp : Tri
  /-- `NewFileWriterWithName` opens an existing path for append (no truncation) -/
  opensExistingForAppend : Tri
  /-- `FileWriter.Close` fsyncs before closing -/
  closeFsyncs : Tri
  /-- in both compaction bodies `os.Rename` comes after `writer.Close()` and is the last file operation -/
  renameAfterClose : Tri
  /-- … and a failing `writer.Close()` (flush or fsync error) returns before the rename -/
  closeErrorAborts : Tri
  /-- flushLocked writes block header, payload, file header, in this order -/
  flushOrderCanonical : Tri
  /-- the CLI's compactSwamp only calls NewCompactor(...).Compact() / ShouldCompact() -/
  cliUsesCompactorOnly : Tri
  /-- the inline triggers (Write, Close, ForceCompaction) all go through runCompactionLocked -/
  triggersUseLocked : Tri
  /-- Load's self-heal goes through CompactFromIndex -/
  loadUsesFromIndex : Tri
  /-- reader facts: not used by any C03 theorem (clean files load under every reader
      configuration); they steer the correspondence driver on images with a damaged temp -/
  shortHeaderIsEOF : Tri
  tornDataIsEOF : Tri
  truncatesTornTail : Tri
  /-- `WriteBuffer.Add` reports full at `math.MaxUint16` entries: a fault-free writer never hands
      `CompressEntries` more than the 16-bit count field holds (the bound of `MkOk`) -/
  flushesAtCountBound : Tri
  /-- the reader assumptions of the model (established by C04): a payload that is not the one
      written fails the checksum; the decoded length and the entry count are checked -/
  validatesCrc : Tri
  crcBeforeDecompress : Tri
  validatesULen : Tri
  boundsDecodedLen : Tri
  parseConsumesAll : Tri
  deriving Repr

def cfgOf (f : Facts) : Cfg :=
  { r := ⟨f.shortHeaderIsEOF.isYes, f.tornDataIsEOF.isYes, false⟩, syncFsyncs := true, closeFsyncs := f.closeFsyncs.isYes,
    truncatesTornTail := f.truncatesTornTail.isYes, loadCleansTemp := f.loadCleansTemp.isYes,
    rmTempLocked := f.rmTempLocked.isYes, rmTempFromIndex := f.rmTempFromIndex.isYes,
    rmTempCompactor := f.rmTempCompactor.isYes }

def modelApplies (f : Facts) : Bool :=
  f.opensExistingForAppend.isYes && f.renameAfterClose.isYes && f.closeErrorAborts.isYes && f.flushOrderCanonical.isYes &&
  f.cliUsesCompactorOnly.isYes && f.triggersUseLocked.isYes && f.loadUsesFromIndex.isYes &&
  f.rmTempLocked != .unknown && f.rmTempFromIndex != .unknown && f.rmTempCompactor != .unknown &&
  f.loadCleansTemp != .unknown && f.closeFsyncs != .unknown &&
  f.shortHeaderIsEOF != .unknown && f.tornDataIsEOF != .unknown && f.truncatesTornTail != .unknown &&
  f.flushesAtCountBound.isYes && f.validatesCrc.isYes && f.validatesULen.isYes && f.parseConsumesAll.isYes

def findings (f : Facts) : List String :=
  (if EP.rmFirst (cfgOf f) .locked then [] else ["C03-locked-stale-temp"]) ++
  (if EP.rmFirst (cfgOf f) .fromIndex then [] else ["C03-load-stale-temp"]) ++
  (if EP.rmFirst (cfgOf f) .cli then [] else ["C03-cli-stale-temp"]) ++
  (if (cfgOf f).closeFsyncs then [] else ["C03-rename-without-fsync"])

def classify (f : Facts) : Verdict :=
  if !modelApplies f then .undetermined "a compaction fact was not recognised (the model does not describe this code)"
  else if findings f = [] then .holds
  else if f.truncatesTornTail.isYes then
    .undetermined "an entry point does not remove the temp and the open truncates: no witness theorem for this combination"
  else .violated (findings f)

theorem ite_nil_iff (b : Bool) (x : String) : (if b = true then ([] : List String) else [x]) = [] ↔ b = true := by
  cases b <;> simp

theorem classify_sound (f : Facts) : (classify f).Sound (Holds (cfgOf f)) (Partial (cfgOf f)) := by
  unfold classify
  split
  · trivial
  · split
    · rename_i hfnd
      simp only [findings, List.append_eq_nil_iff, ite_nil_iff] at hfnd
      obtain ⟨⟨⟨h1, h2⟩, h3⟩, h4⟩ := hfnd
      refine holds_of_good _ ?_ h4
      intro ep
      cases ep
      · exact h1
      · exact h2
      · exact h3
    · split
      · trivial
      rename_i hfnd htr
      refine ⟨?_, C03_partial _⟩
      intro hh
      apply hfnd
      have hc : (cfgOf f).truncatesTornTail = false := by simpa [cfgOf] using htr
      simp only [findings, List.append_eq_nil_iff, ite_nil_iff]
      refine ⟨⟨⟨?_, ?_⟩, ?_⟩, ?_⟩
      · cases h : EP.rmFirst (cfgOf f) .locked
        · exact absurd (hh.preserves .locked) (not_preserves_of_stale _ hc _ h)
        · rfl
      · cases h : EP.rmFirst (cfgOf f) .fromIndex
        · exact absurd (hh.preserves .fromIndex) (not_preserves_of_stale _ hc _ h)
        · rfl
      · cases h : EP.rmFirst (cfgOf f) .cli
        · exact absurd (hh.preserves .cli) (not_preserves_of_stale _ hc _ h)
        · rfl
      · cases h : (cfgOf f).closeFsyncs
        · exact absurd hh.atomic (compact_no_fsync_loses _ h)
        · rfl

end Hv.C03

namespace Hv.C03
open Hv.BlockStore

/-! ### Compaction anywhere in a history -/

/-- a history at session granularity: a writing session (`Write(items)` … `Close`) or a compaction -/
inductive SAct where
  | session (items : List (Op × Nat))
  | compact (ep : EP) (order : List (Nat × Nat))

def sStep (c : Cfg) (mk : Mk) (nl bs : Nat) (d : Disk) : SAct → Disk
  | .session items =>
    let w1 := cWrite c mk d { w := none, nlName := nl, bs := bs } items
    (d.applyAll w1.2).applyAll (cClose c mk w1.1).2
  | .compact ep order => d.applyAll (compactVia c mk d ep order bs)

def sWritten : List SAct → List Op
  | [] => []
  | .session items :: r => items.map (·.1) ++ sWritten r
  | .compact _ _ :: r => sWritten r

/-- every compaction goes through an entry point that removes the temp, and iterates over exactly the live keys -/
def sValid (c : Cfg) (mk : Mk) (nl bs : Nat) : Disk → List SAct → Prop
  | _, [] => True
  | d, .session items :: r => sValid c mk nl bs (sStep c mk nl bs d (.session items)) r
  | d, .compact ep order :: r =>
    ep.rmFirst c = true ∧ (∀ idx, mainIndex c d = some idx → Covers order idx) ∧
      sValid c mk nl bs (sStep c mk nl bs d (.compact ep order)) r

theorem Same_replay {a b : Index} (h : a.Same b) (es : List Op) : (Index.replay a es).Same (Index.replay b es) := by
  induction es generalizing a b with
  | nil => exact h
  | cons e r ih =>
    apply ih
    intro k
    cases e with
    | put k' v =>
      simp only [Index.apply, Index.get_put]
      split
      · rfl
      · exact h k
    | del k' =>
      simp only [Index.apply, Index.get_del]
      split
      · rfl
      · exact h k

/-- the disk between sessions: nothing, or a clean main file and no temp -/
def Between (nl : Nat) (d : Disk) (idx : Index) : Prop :=
  (d = {} ∧ idx = []) ∨ ∃ blocks, (∀ b ∈ blocks, b.WF) ∧ d = cleanDisk nl blocks none ∧ idx = Index.replay [] (entsOf blocks)

theorem disk_ext (d : Disk) (m t : Option (List Cell)) (hm : d.get .main = m) (ht : d.get .temp = t) :
    d = { main := m, temp := t } := by
  cases d; simp_all [Disk.get]

theorem session_step (c : Cfg) (mk : Mk) (hmk : MkOk mk) (nl bs : Nat) (d : Disk) (idx : Index) (h : Between nl d idx)
    (items : List (Op × Nat)) :
    Between nl (sStep c mk nl bs d (.session items)) (Index.replay idx (items.map (·.1))) := by
  by_cases hemp : items = []
  · subst hemp
    simpa [sStep, cWrite, cClose, Disk.applyAll, Index.replay] using h
  have hne : items.isEmpty = false := by cases items <;> simp_all
  -- the writer after `ensureWriter`, on a clean (possibly brand-new) file
  have key : ∀ (d1 : Disk) (w : WSt) (blocks : List Block), (∀ b ∈ blocks, b.WF) → WInv d1 w (fileCells nl blocks) →
      w.path = .main → w.buf = [] → d1.get .temp = none →
      Between nl ((d1.applyAll (addManyW mk w items).2).applyAll (closeW c mk (addManyW mk w items).1))
        (Index.replay (Index.replay [] (entsOf blocks)) (items.map (·.1))) := by
    intro d1 w blocks hwf hinv hp hbuf htemp
    obtain ⟨a, ha, pa⟩ := addManyW_spec mk hmk items d1 w _ hinv (by rw [hbuf]; exact maxEnts_pos)
    obtain ⟨b, hb, hbwf, hfile, hother⟩ := closeW_spec c mk hmk _ _ _ pa.inv (Nat.le_of_lt pa.cnt)
    rw [pa.path, hp] at hfile
    have ht : ((d1.applyAll (addManyW mk w items).2).applyAll (closeW c mk (addManyW mk w items).1)).get .temp = none := by
      rw [hother .temp (by rw [pa.path, hp]; decide), pa.other .temp (by rw [hp]; decide)]; exact htemp
    right
    refine ⟨blocks ++ a ++ b, ?_, ?_, ?_⟩
    · intro x hx
      rcases List.mem_append.mp hx with hx | hx
      · rcases List.mem_append.mp hx with hx | hx
        · exact hwf x hx
        · exact pa.wf x hx
      · exact hbwf x hx
    · rw [disk_ext _ _ _ hfile ht]
      simp [cleanDisk, fileCells, render_append, List.append_assoc]
    · rw [entsOf_append, entsOf_append, hb, List.append_assoc, ha, hbuf, List.nil_append, Index.replay_append]
  rcases h with ⟨hd, hidx⟩ | ⟨blocks, hwf, hd, hidx⟩
  · subst hd; subst hidx
    have hopen : ensureW c {} { w := none, nlName := nl, bs := bs } =
        some ({ path := .main, pos := 64 + nl, nl := nl, buf := [], bufSize := 0, bs := bs }, createOps .main nl) := by
      simp [ensureW, openWriter, Disk.get]
    simp only [sStep, cWrite, hne, Bool.false_eq_true, if_false, hopen, cClose, Disk.applyAll_append, createOps_apply_main]
    have := key { main := some (fhCells nl ++ nmCells nl), temp := none }
      { path := .main, pos := 64 + nl, nl := nl, buf := [], bufSize := 0, bs := bs } [] (by simp)
      ⟨by simp [Disk.get, fileCells_nil], by simp [fileCells_nil], fileCells_hdr nl []⟩ rfl rfl rfl
    simpa [entsOf, Index.replay] using this
  · subst hd; subst hidx
    have hopen : ensureW c (cleanDisk nl blocks none) { w := none, nlName := nl, bs := bs } =
        some ({ path := .main, pos := (fileCells nl blocks).length, nl := nl, buf := [], bufSize := 0, bs := bs }, []) := by
      simp only [ensureW, cleanDisk]; exact openWriter_clean c nl bs blocks hwf none nl
    simp only [sStep, cWrite, hne, Bool.false_eq_true, if_false, hopen, cClose, List.nil_append]
    exact key (cleanDisk nl blocks none) _ blocks hwf ⟨rfl, rfl, fileCells_hdr nl blocks⟩ rfl rfl rfl

theorem compact_step (c : Cfg) (mk : Mk) (hmk : MkOk mk) (nl bs : Nat) (d : Disk) (idx : Index) (h : Between nl d idx)
    (ep : EP) (hrm : ep.rmFirst c = true) (order : List (Nat × Nat))
    (hcov : ∀ i, mainIndex c d = some i → Covers order i) :
    ∃ idx', Between nl (sStep c mk nl bs d (.compact ep order)) idx' ∧ idx'.Same idx := by
  rcases h with ⟨hd, hidx⟩ | ⟨blocks, hwf, hd, hidx⟩
  · subst hd; subst hidx
    exact ⟨[], Or.inl ⟨by simp [sStep, compactVia, mainIndex, Disk.applyAll], rfl⟩, Index.Same.refl _⟩
  · subst hd; subst hidx
    have hi := mainIndex_clean c nl blocks hwf none
    have hc := hcov _ hi
    simp only [sStep, compactVia, hi, hrm]
    obtain ⟨nbs, hnwf, hents, hfin⟩ := compactOps_rm c mk hmk nl bs blocks none
      (liveEntries (Index.replay [] (entsOf blocks)) order)
    rw [hfin]
    refine ⟨_, Or.inr ⟨nbs, hnwf, rfl, rfl⟩, ?_⟩
    intro k
    rw [hents, liveEntries_fst, Index.get_replay_puts]
    by_cases hk : k ∈ order.map (·.1)
    · simp only [hk, if_true]
      cases h : Index.get (Index.replay [] (entsOf blocks)) k <;> simp [Index.get_nil]
    · simp only [hk, if_false, Index.get_nil]
      exact (Index.get_eq_none_of_not_mem _ _ (fun hm => hk ((hc k).mpr hm))).symm

/-- **Compaction anywhere.**  Whatever compactions (through entry points that remove the temp,
    iterating over the live keys in any order) are inserted between the writing sessions of a
    history, the file loads, at the end, to the replay of everything that was written. -/
theorem compaction_anywhere (c : Cfg) (mk : Mk) (hmk : MkOk mk) (nl bs : Nat) (acts : List SAct)
    (hv : sValid c mk nl bs {} acts) :
    ∃ idx, Between nl (acts.foldl (sStep c mk nl bs) {}) idx ∧ idx.Same (Index.replay [] (sWritten acts)) := by
  have gen : ∀ (acts : List SAct) (d : Disk) (idx spec : Index), Between nl d idx → idx.Same spec → sValid c mk nl bs d acts →
      ∃ idx', Between nl (acts.foldl (sStep c mk nl bs) d) idx' ∧ idx'.Same (Index.replay spec (sWritten acts)) := by
    intro acts
    induction acts with
    | nil => intro d idx spec hb hs _; exact ⟨idx, hb, by simpa [sWritten, Index.replay] using hs⟩
    | cons a rest ih =>
      intro d idx spec hb hs hv
      cases a with
      | session items =>
        have h1 := session_step c mk hmk nl bs d idx hb items
        obtain ⟨idx', hb', hs'⟩ := ih _ _ (Index.replay spec (items.map (·.1))) h1 (Same_replay hs _) hv
        refine ⟨idx', hb', ?_⟩
        simpa [sWritten, Index.replay_append] using hs'
      | compact ep order =>
        obtain ⟨hrm, hcov, hv'⟩ := hv
        obtain ⟨idx1, hb1, hs1⟩ := compact_step c mk hmk nl bs d idx hb ep hrm order hcov
        obtain ⟨idx', hb', hs'⟩ := ih _ idx1 spec hb1 (hs1.trans hs) hv'
        exact ⟨idx', hb', by simpa [sWritten] using hs'⟩
  exact gen acts {} [] [] (Or.inl ⟨rfl, rfl⟩) (Index.Same.refl _) hv

end Hv.C03
