/-
  C17 — Lifecycle waits always terminate.

  "Destroying, closing or shutting down a swamp, and any request that waits for one of these,
   always finishes once the operations already in flight have finished.  No interleaving can
   leave such a wait blocked forever."

  Quantifier: every schedule, of any length, of operation begin / end (decrement, broadcast —
  with or without the mutex) and of any number of drain waiters going through Go's `sync.Cond`
  decomposition (lock, check, ticket, unlock+sleep, wake, re-lock), followed by the drain owner's
  context cancel and `WaitForGracefulClose` callers.  Model: `Hv/Conc/Vigil.lean`.
  `defer_balance` covers the other half of "operations in flight finish": every RPC handler
  shape returns both counters (safeops, vigil) to their entry value on every exit, panics included.
-/
import Hv.Conc.VigilLemmas
import Hv.Conc.VigilMu
import Hv.Basic.Verdict

namespace Hv.C17
open Hv.Vigil

/-- all operations have finished: nothing begun is un-decremented, nobody still has to broadcast -/
def OpsFinished (s : St) : Prop := s.vigils = 0 ∧ s.pendingB = 0

/-- The full-strength statement. -/
structure Holds (cfg : Cfg) (handlers : List (String × List Tok)) (ceaseBeforeDestroy : Bool := true)
    (closeAlwaysCancels : Bool := true) (drainBeforeSwampMu : Bool := true) (autoDestroyRetakes : Bool := true) : Prop where
  /-- `destroy` never waits for the vigil drain while it holds the swamp's write lock `s.mu`: the
      write path holds its vigil across `s.mu.RLock()` (BeginVigil → Save → SaveFunction → RLock),
      so a destroyer that locks first and drains second blocks the operations it waits for -/
  noMuDeadlock : ∀ as s, VigilMu.run ⟨!drainBeforeSwampMu⟩ VigilMu.init as = some s → ¬ VigilMu.Stuck s
  /-- every path through `Close()` after `closing = 1` reaches `goRoutineCancelFunction()`: a
      `WaitForGracefulClose` caller can return once Close has run -/
  closeCompletes : (run cfg init (closeTrace closeAlwaysCancels)).isSome = true
  /-- the auto-destroy path (a goroutine that holds a vigil on the swamp and destroys it) gets
      through its own drain: it gives its vigil back first -/
  autoDestroyReturns : (run cfg init (autoDestroyTrace cfg ceaseBeforeDestroy)).map (fun s => s.wpc 0 == .done) = some true
  /-- no reachable state has a sleeping waiter that nobody will wake -/
  noLostWakeup : ∀ as s, run cfg init as = some s → ¬ Stuck s
  /-- once the operations have finished nobody sleeps or sits inside the wait's critical section
      with a stale positive check, and some waiter that has not returned yet can take a step -/
  progress : ∀ as s w, run cfg init as = some s → OpsFinished s →
      s.wpc w ≠ .idle → s.wpc w ≠ .done →
      ∃ w', (step cfg s (.wLock w')).isSome ∨ (step cfg s (.wCheck w')).isSome
  /-- …and its check then lets it return -/
  checkReturns : ∀ as s w, run cfg init as = some s → OpsFinished s → s.wpc w = .locked →
      ∃ s', step cfg s (.wCheck w) = some s' ∧ s'.wpc w = .done
  /-- after the drain its owner can cancel the swamp's context; the cancellation is permanent and
      every `WaitForGracefulClose` can return from then on -/
  graceful : (∀ s w, s.wpc w = .done → ∃ s', step cfg s (.wCancel w) = some s' ∧ s'.cancelled = true) ∧
      (∀ s a s', step cfg s a = some s' → s.cancelled = true → s'.cancelled = true) ∧
      (∀ s, s.cancelled = true → (step cfg s .gReturn).isSome)
  /-- every handler leaves both counters as it found them, whichever statement it leaves after … -/
  balance : ∀ h ∈ handlers, ∀ n c, exitAt h.2 n c = c
  /-- … also when an auto-destroy fired inside it.  The swamp methods that destroy an emptied swamp
      give the CALLER's vigil back before the drain (`s.CeaseVigil(); s.destroyIfEmpty()`); unless they
      take it again afterwards (`autoDestroyRetakes`), the caller's deferred `CeaseVigil` runs once more
      and the counter of that instance ends one below its entry value per fired auto-destroy
      (`defer_balance_autodestroy`): a vigil that belongs to another request is lost, and a drain of
      that instance no longer waits for it -/
  balanceAutoDestroy : ∀ h ∈ handlers, ∀ n c, exitAt h.2 n c (!autoDestroyRetakes) = c

theorem reach_inv (as : List Act) (s : St) (h : run good init as = some s) : Inv s :=
  LTS.inv_run (step good) Inv (fun s a s' hi hs => inv_step s a s' hi hs) init as s inv_init h

/-- `no_lost_wakeup`: with the decrement under the condition variable's mutex no schedule
    reaches a stuck waiter. -/
theorem no_lost_wakeup (as : List Act) (s : St) (h : run good init as = some s) : ¬ Stuck s := by
  intro ⟨w, _, hn, hv, hp⟩
  have := ((reach_inv as s h).notif w hn).2
  omega

/-- `defer_balance` for paired shapes, at every exit point (early return or panic). -/
theorem defer_balance (shape : List Tok) (hp : Paired shape = true) (n : Nat) (c : Counters) :
    exitAt shape n c = c := by
  unfold exitAt
  rw [exec_paired false _ (paired_take shape hp n)]
  simp

/-- with a fired auto-destroy: safeops exact, vigil one below per auto-destroy, never above -/
theorem defer_balance_autodestroy (shape : List Tok) (hp : Paired shape = true) (n : Nat) (c : Counters) :
    (exitAt shape n c true).sys = c.sys ∧
    (exitAt shape n c true).vig = c.vig - ((shape.take n).count .autoDestroy : Int) := by
  unfold exitAt
  rw [exec_paired true _ (paired_take shape hp n)]
  simp

theorem graceful_any (cfg : Cfg) :
    (∀ s w, s.wpc w = .done → ∃ s', step cfg s (.wCancel w) = some s' ∧ s'.cancelled = true) ∧
    (∀ s a s', step cfg s a = some s' → s.cancelled = true → s'.cancelled = true) ∧
    (∀ s, s.cancelled = true → (step cfg s .gReturn).isSome) := by
  refine ⟨?_, ?_, ?_⟩
  · intro s w hw; exact ⟨{ s with cancelled := true }, by simp [step, hw], rfl⟩
  · intro s a s' hs hc
    cases a <;> simp only [step] at hs <;> (repeat' split at hs) <;> simp at hs <;>
      first
        | (subst hs; first | exact hc | rfl)
        | (obtain ⟨_, hs⟩ := hs; subst hs; first | exact hc | rfl)
  · intro s hc; simp [step, hc]

theorem holds_good (handlers : List (String × List Tok))
    (hp : ∀ h ∈ handlers, Paired h.2 = true) : Holds good handlers true true true true := by
  refine ⟨VigilMu.no_mu_deadlock, by decide, by decide, no_lost_wakeup, ?_, ?_, graceful_any good, ?_, fun h hh n c => defer_balance h.2 (hp h hh) n c⟩
  · intro as s w h ⟨hv, hb⟩ hni hnd
    have hi := reach_inv as s h
    -- nobody is in `checked`/`added` (they would need vigils > 0), nobody is parked or ticketed
    have hnotify : s.notify = [] := by
      cases hn : s.notify with
      | nil => rfl
      | cons x xs => have := (hi.notif x (by simp [hn])).2; omega
    have hpc : s.wpc w = .locked ∨ s.wpc w = .woken := by
      cases hw : s.wpc w with
      | idle => exact absurd hw hni
      | done => exact absurd hw hnd
      | locked => exact Or.inl rfl
      | woken => exact Or.inr rfl
      | checked => have := hi.holdPos w (Or.inl hw); omega
      | added => have := hi.holdPos w (Or.inr hw); omega
      | parked => have := hi.parkedIn w hw; simp [hnotify] at this
    rcases hpc with hl | hwk
    · exact ⟨w, Or.inr (by simp only [step, hl, if_true]; split <;> rfl)⟩
    · -- the lock is free or held by a waiter in `locked`
      cases hlk : s.lock with
      | free => exact ⟨w, Or.inl (by simp [step, hwk, hlk])⟩
      | waiter x =>
        have hx := (hi.lockW x).mp hlk
        rcases hx with e | e | e
        · exact ⟨x, Or.inr (by simp only [step, e, if_true]; split <;> rfl)⟩
        · have := hi.holdPos x (Or.inl e); omega
        · have := hi.holdPos x (Or.inr e); omega
      | ceaser b =>
        cases b with
        | false => have := hi.ceaserPos hlk; omega
        | true => have := hi.ceaserPend hlk; omega
  · intro as s w h ⟨hv, _⟩ hl
    refine ⟨{ s with wpc := setPc s w .done, lock := .free }, ?_, ?_⟩
    · simp only [step, hl, if_true]
      have : ¬ (0 < s.vigils ∨ good.checkStrict = false) := by simp [good, hv]
      simp only [this, if_false]
    · simp [setPc]
  · intro h hh n c
    exact defer_balance h.2 (hp h hh) n c

/-- Non-vacuity: two waiters and two operations under the repaired facts; the second waiter takes
    its ticket just before the last broadcast, both are woken and return; the drain's owner
    cancels and a graceful-close waiter returns. -/
example : (run good init [.begin, .begin, .wLock 0, .wCheck 0, .wAdd 0, .wPark 0, .cLock, .cDec, .cUnlock,
      .wLock 1, .wCheck 1, .wAdd 1, .bcast, .wPark 1, .wLock 0, .wCheck 0, .wAdd 0, .wPark 0,
      .cLock, .cDec, .cUnlock, .bcast, .wLock 1, .wCheck 1, .wLock 0, .wCheck 0, .wCancel 0, .gReturn]).map
    (fun s => s.wpc 0 == .done && s.wpc 1 == .done && s.vigils == 0 && s.pendingB == 0 && s.notify == [] &&
      s.cancelled && s.gReturned == 1) = some true := by decide

/-! ### The code as it is: the decrement is a bare atomic add -/

def current : Cfg := { decUnderLock := false, checkStrict := true }

/-- check, dec, broadcast, add, park -/
def witness : List Act := [.begin, .wLock 0, .wCheck 0, .cDec, .bcast, .wAdd 0, .wPark 0]

theorem witness_stuck : (run current init witness).map (fun s => stuckB s 0) = some true := by decide

theorem stuck_of_stuckB (s : St) (w : Nat) (h : stuckB s w = true) : Stuck s := by
  simp only [stuckB, Bool.and_eq_true, beq_iff_eq, List.contains_iff_mem] at h
  exact ⟨w, h.1.1.1, h.1.1.2, h.1.2, h.2⟩

theorem refutes_current (handlers : List (String × List Tok)) (cb cc : Bool) : ¬ Holds current handlers cb cc := by
  intro h
  cases hs : run current init witness with
  | none => have := witness_stuck; simp [hs] at this
  | some s =>
    have hw := witness_stuck
    simp [hs] at hw
    exact h.noLostWakeup witness s hs (stuck_of_stuckB s 0 hw)

/-- `HasActiveVigils() >= 0`: the waiter goes to sleep although nothing is in flight. -/
def witnessLoose : List Act := [.wLock 0, .wCheck 0, .wAdd 0, .wPark 0]

theorem refutes_looseCheck (b : Bool) (handlers : List (String × List Tok)) (cb cc : Bool) :
    ¬ Holds { decUnderLock := b, checkStrict := false } handlers cb cc := by
  intro h
  have hw : (run { decUnderLock := b, checkStrict := false } init witnessLoose).map (fun s => stuckB s 0) = some true := by
    cases b <;> decide
  cases hs : run { decUnderLock := b, checkStrict := false } init witnessLoose with
  | none => simp [hs] at hw
  | some s =>
    simp [hs] at hw
    exact h.noLostWakeup witnessLoose s hs (stuck_of_stuckB s 0 hw)

/-- a return in `Close()` between `closing = 1` and the cancel: the context is never cancelled and
    `WaitForGracefulClose` has nothing to return on. -/
theorem refutes_closeAborts (cfg : Cfg) (handlers : List (String × List Tok)) (cb : Bool) : ¬ Holds cfg handlers cb false := by
  intro h
  have := h.closeCompletes
  have hr : (run cfg init (closeTrace false)) = none := by
    cases cfg with
    | mk d c => cases d <;> cases c <;> decide
  rw [hr] at this; simp at this

/-- `Destroy()` called while the caller still holds its own vigil: the drain waits for the caller
    itself (check sees 1, ticket, sleep — nobody else will ever decrement). -/
theorem refutes_destroyHoldingVigil (cfg : Cfg) (handlers : List (String × List Tok)) (cc : Bool) : ¬ Holds cfg handlers false cc := by
  intro h
  have := h.autoDestroyReturns
  have hr : (run cfg init (autoDestroyTrace cfg false)).map (fun s => s.wpc 0 == .done) = some false := by
    cases cfg with
    | mk d c => cases d <;> cases c <;> decide
  rw [hr] at this; simp at this

/-- `s.mu.Lock()` before the drain: one Save in flight when `destroy` starts is enough — the
    writer waits for the read lock, the destroyer for the writer's vigil (`VigilMu.witness_stuck`,
    permanent by `VigilMu.stuck_forever`) -/
theorem refutes_lockBeforeDrain (cfg : Cfg) (handlers : List (String × List Tok)) (c cl : Bool) :
    ¬ Holds cfg handlers c cl false := by
  intro h
  have hw := VigilMu.witness_stuck
  cases hs : VigilMu.run ⟨true⟩ VigilMu.init VigilMu.witness with
  | none => simp [hs] at hw
  | some s =>
    simp [hs] at hw
    exact h.noMuDeadlock VigilMu.witness s hs ⟨hw.1, hw.2.1, by omega, hw.2.2.2.1, hw.2.2.2.2⟩

/-! ### Counter leaks found on the extracted handler shapes -/

/-- some statement boundary of the shape at which leaving (early return, or a panic in the code that
    follows — every handler recovers panics) does not restore the counters -/
def leakAt (fires : Bool) (h : String × List Tok) : Bool :=
  (List.range (h.2.length + 1)).any fun n => exitAt h.2 n ⟨0, 0⟩ fires != ⟨0, 0⟩

theorem leak_witness (fires : Bool) (hs : List (String × List Tok)) (h : hs.any (leakAt fires) = true) :
    ∃ x ∈ hs, ∃ n, exitAt x.2 n ⟨0, 0⟩ fires ≠ ⟨0, 0⟩ := by
  rw [List.any_eq_true] at h
  obtain ⟨x, hx, hl⟩ := h
  unfold leakAt at hl
  rw [List.any_eq_true] at hl
  obtain ⟨n, _, hn⟩ := hl
  exact ⟨x, hx, n, by simpa using hn⟩

/-- a counter statement outside a call+defer pair (`x.BeginVigil(); …; x.CeaseVigil()`): leaving in
    between keeps the vigil for ever — every later drain of that instance waits for it -/
theorem refutes_leak (cfg : Cfg) (handlers : List (String × List Tok)) (c cl m r : Bool)
    (hw : handlers.any (leakAt false) = true) : ¬ Holds cfg handlers c cl m r := by
  intro h
  obtain ⟨x, hx, n, hn⟩ := leak_witness false handlers hw
  exact hn (h.balance x hx n ⟨0, 0⟩)

/-- the auto-destroy sites do not take the caller's vigil again: a handler that reaches one ends with
    the counter below its entry value (the `-1` of `defer_balance_autodestroy`) -/
theorem refutes_doubleCease (cfg : Cfg) (handlers : List (String × List Tok)) (c cl m : Bool)
    (hw : handlers.any (leakAt true) = true) : ¬ Holds cfg handlers c cl m false := by
  intro h
  obtain ⟨x, hx, n, hn⟩ := leak_witness true handlers hw
  exact hn (h.balanceAutoDestroy x hx n ⟨0, 0⟩)

/-- the witness on the shape of `gateway.Delete`'s closure: BeginVigil+defer, DeleteTreasure fires -/
example : exitAt [.vigPair, .autoDestroy] 2 ⟨0, 0⟩ true = ⟨0, -1⟩ := by decide

/-- `_partial`: what survives the lost wake-up — handler balance and the latch part. -/
structure HoldsPartial (cfg : Cfg) (handlers : List (String × List Tok)) : Prop where
  graceful : (∀ s w, s.wpc w = .done → ∃ s', step cfg s (.wCancel w) = some s' ∧ s'.cancelled = true) ∧
      (∀ s a s', step cfg s a = some s' → s.cancelled = true → s'.cancelled = true) ∧
      (∀ s, s.cancelled = true → (step cfg s .gReturn).isSome)
  balance : ∀ h ∈ handlers, ∀ n c, exitAt h.2 n c = c

theorem holds_partial (cfg : Cfg) (handlers : List (String × List Tok))
    (hp : ∀ h ∈ handlers, Paired h.2 = true) : HoldsPartial cfg handlers :=
  ⟨graceful_any cfg, fun h hh n c => defer_balance h.2 (hp h hh) n c⟩

/-! ### Decision over the extracted facts -/

structure Facts where
  /-- `v.cond = sync.NewCond(&v.mu)` -/
  condOnMu : Tri
  /-- `WaitForActiveVigilsClosed`: `cond.L.Lock(); defer cond.L.Unlock(); for v.HasActiveVigils() { cond.Wait() }` -/
  waitLoopUnderLock : Tri
  /-- `HasActiveVigils` returns `… > 0` -/
  checkStrict : Tri
  /-- the `AddInt64(-1)` in `CeaseVigil` is between `Lock()` and `Unlock()` of `v.mu` / `cond.L` -/
  decrementUnderCondLock : Tri
  /-- `Broadcast()` follows the decrement in `CeaseVigil` -/
  broadcastAfterDec : Tri
  /-- `Destroy`: drain, then `goRoutineCancelFunction()`, both unconditional; `Close` cancels too;
      `WaitForGracefulClose` selects on `goRoutineContext.Done()` -/
  destroyDrainsThenCancels : Tri
  closeCancels : Tri
  gracefulWaitsOnContext : Tri
  /-- `safeops.WaitForUnlock` and hydra's graceful stop poll (re-check in a loop): no wake-up to lose -/
  safeopsWaitPolls : Tri
  /-- every auto-destroy site of swamp.go (`DeleteTreasure`, `CloneAndDelete…`) calls `s.CeaseVigil()`
      immediately before `s.Destroy()` -/
  ceasePrecedesDestroy : Tri
  /-- `destroy`: `s.Vigil.WaitForActiveVigilsClosed()` comes before `s.mu.Lock()` (the swamp mutex the
      write path read-locks while it holds its vigil) -/
  drainBeforeSwampMu : Tri
  /-- every auto-destroy site takes the caller's vigil again right after the destroy call
      (`s.CeaseVigil(); s.destroyIfEmpty(); s.BeginVigil()`) -/
  autoDestroyRetakesVigil : Tri
  /-- every RPC handler (and closure) of the gateway with its counter statements in source order -/
  handlers : List (String × List Tok)
  deriving Repr

def structural (f : Facts) : Bool :=
  f.condOnMu.isYes && f.waitLoopUnderLock.isYes && f.broadcastAfterDec.isYes &&
  f.destroyDrainsThenCancels.isYes && f.gracefulWaitsOnContext.isYes &&
  f.safeopsWaitPolls.isYes

def allPaired (f : Facts) : Bool := f.handlers.all (fun h => Paired h.2)

def triBool : Tri → Option Bool
  | .yes => some true | .no => some false | .unknown => none

def classify (f : Facts) : Verdict :=
  if !structural f then .undetermined "vigil.go / swamp.go / safeops.go no longer have the modelled shape" else
  if !allPaired f then
    (if f.handlers.any (leakAt false) then .violated ["C17-counter-leaks-on-early-exit"]
     else .undetermined "a gateway handler changes a counter outside a paired call+defer") else
  match triBool f.autoDestroyRetakesVigil with
  | none => .undetermined "swamp.autoDestroyRetakesVigil"
  | some false =>
    if f.handlers.any (leakAt true) then .violated ["C17-double-cease-after-auto-destroy"]
    else .undetermined "no handler reaches an auto-destroying swamp method"
  | some true =>
  match triBool f.drainBeforeSwampMu with
  | none => .undetermined "swamp.drainBeforeSwampMu"
  | some false => .violated ["C17-destroy-locks-swamp-before-drain"]
  | some true =>
  match triBool f.closeCancels, triBool f.ceasePrecedesDestroy, triBool f.decrementUnderCondLock, triBool f.checkStrict with
  | some false, some _, some _, some _ => .violated ["C17-close-never-completes"]
  | some true, some false, some _, some _ => .violated ["C17-destroy-holding-own-vigil"]
  | some true, some true, some true, some true => .holds
  | some true, some true, some _, some false => .violated ["C17-wait-never-returns"]
  | some true, some true, some false, some true => .violated ["C17-lost-wakeup"]
  | _, _, _, _ => .undetermined "vigil.decrementUnderCondLock / vigil.checkStrict / swamp.ceasePrecedesDestroy"

def cfgOf (f : Facts) : Cfg :=
  { decUnderLock := f.decrementUnderCondLock.isYes, checkStrict := f.checkStrict.isYes }
def ceaseOf (f : Facts) : Bool := f.ceasePrecedesDestroy.isYes
def closeOf (f : Facts) : Bool := f.closeCancels.isYes
def muOf (f : Facts) : Bool := f.drainBeforeSwampMu.isYes
def retOf (f : Facts) : Bool := f.autoDestroyRetakesVigil.isYes
/-- the fragment the `_partial` statement speaks about: the handlers without a finding of their own -/
def pairedOf (f : Facts) : List (String × List Tok) := f.handlers.filter (fun h => Paired h.2)

theorem paired_filter (f : Facts) : ∀ h ∈ pairedOf f, Paired h.2 = true := by
  intro h hh
  exact (List.mem_filter.mp hh).2

theorem classify_sound (f : Facts) :
    (classify f).Sound (Holds (cfgOf f) f.handlers (ceaseOf f) (closeOf f) (muOf f) (retOf f)) (HoldsPartial (cfgOf f) (pairedOf f)) := by
  have part := holds_partial (cfgOf f) (pairedOf f) (paired_filter f)
  unfold classify
  split
  · simp [Verdict.Sound]
  · split
    · split
      · rename_i hl
        exact ⟨refutes_leak _ _ _ _ _ _ hl, part⟩
      · simp [Verdict.Sound]
    · rename_i hs hp
      have hp' : ∀ h ∈ f.handlers, Paired h.2 = true := by
        simp only [allPaired, Bool.not_eq_true, Bool.not_eq_false'] at hp
        simpa [List.all_eq_true] using hp
      cases hr : f.autoDestroyRetakesVigil
      · -- yes
        simp only [triBool]
        cases hm : f.drainBeforeSwampMu <;>
        cases hy : f.closeCancels <;> cases hx : f.ceasePrecedesDestroy <;> cases hd : f.decrementUnderCondLock <;> cases hc : f.checkStrict <;>
          simp only [triBool, Verdict.Sound, cfgOf, ceaseOf, closeOf, muOf, retOf, hr, hm, hy, hx, hd, hc, Tri.isYes] <;>
          first
            | trivial
            | exact ⟨refutes_lockBeforeDrain _ _ _ _, holds_partial _ _ (paired_filter f)⟩
            | exact ⟨refutes_closeAborts _ _ _, holds_partial _ _ (paired_filter f)⟩
            | exact holds_good f.handlers hp'
            | exact ⟨refutes_looseCheck _ _ _ _, holds_partial _ _ (paired_filter f)⟩
            | exact ⟨refutes_current _ _ _, holds_partial _ _ (paired_filter f)⟩
            | exact ⟨refutes_destroyHoldingVigil _ _ _, holds_partial _ _ (paired_filter f)⟩
      · -- no
        simp only [triBool]
        split
        · rename_i hl
          simp only [Verdict.Sound, retOf, hr, Tri.isYes]
          exact ⟨refutes_doubleCease _ _ _ _ _ hl, part⟩
        · simp [Verdict.Sound]
      · simp [triBool, Verdict.Sound]

end Hv.C17
