/-
  C21 — Swamp settings resolve deterministically from registered patterns.

  "Which registered pattern's settings apply to a swamp (in-memory or persistent, idle timeout,
   write interval) is a deterministic function of the set of registered patterns.  The most
   specific matching pattern wins, regardless of registration order, and the same settings
   apply again after a restart."

  Quantifier: every registry reachable through the gateway (`WF`: separator-free parts, one
  entry per canonical key — any number of overlapping exact / realm-wildcard / swamp-wildcard
  patterns), every name, every iteration order of the Go map, every reload.
  Model: Hv/Misc/Settings.lean.  `ResolvesTo` is a RELATION: the result for some map order.
-/
import Hv.Misc.SettingsLemmas
import Hv.Basic.Verdict

namespace Hv.C21
open Hv.Name Hv.Settings

/-- `q` is strictly more specific than `p` (for two patterns that match a common name):
    `q`'s wildcards are a proper subset of `p`'s. -/
def MoreSpecific (q p : Name) : Prop :=
  (q.r = star → p.r = star) ∧ (q.w = star → p.w = star) ∧
  ((p.r = star ∧ q.r ≠ star) ∨ (p.w = star ∧ q.w ≠ star))

/-- Semantic reading of `MoreSpecific`: every name matched by the more specific pattern is
    matched by the other one (when both match some common name). -/
theorem moreSpecific_subsumes (n q p : Name) (hq : matchesPat n q = true) (hp : matchesPat n p = true)
    (h : MoreSpecific q p) : ∀ m, matchesPat m q = true → matchesPat m p = true := by
  intro m hm
  rw [matchesPat_iff] at *
  obtain ⟨h1, h2, _⟩ := h
  refine ⟨hm.1.trans (hq.1.symm.trans hp.1), ?_, ?_⟩
  · by_cases hpr : p.r = star
    · exact Or.inl hpr
    · have hqr : q.r ≠ star := fun e => hpr (h1 e)
      exact Or.inr ((hm.2.1.resolve_left hqr).trans ((hq.2.1.resolve_left hqr).symm.trans (hp.2.1.resolve_left hpr)))
  · by_cases hpw : p.w = star
    · exact Or.inl hpw
    · have hqw : q.w ≠ star := fun e => hpw (h2 e)
      exact Or.inr ((hm.2.2.resolve_left hqw).trans ((hq.2.2.resolve_left hqw).symm.trans (hp.2.2.resolve_left hpw)))

/-- The full-strength statement, for a given value of the code facts. -/
structure Holds (cfg : Cfg) : Prop where
  /-- the result does not depend on the order in which the map is iterated / the patterns were
      registered: it is a function of the SET of registered entries -/
  orderIndependent : ∀ reg reg' n, WF reg → reg'.Perm reg → lookupIn cfg reg' n = lookupIn cfg reg n
  /-- nothing matches ⇒ the default; otherwise a registered matching entry such that no
      registered matching entry is strictly more specific -/
  mostSpecific : ∀ reg n e, WF reg → ResolvesTo cfg reg n e →
      ((∀ x ∈ reg, matchesPat n x.pat = false) ∧ e = defaultEntry n) ∨
      (e ∈ reg ∧ matchesPat n e.pat = true ∧
        ∀ x ∈ reg, matchesPat n x.pat = true → ¬ MoreSpecific x.pat e.pat)
  /-- a second `settings.New` on the same root resolves every name to the same entry -/
  restart : ∀ reg n e, WF reg → (ResolvesTo cfg (reload cfg reg) n e ↔ ResolvesTo cfg reg n e)
  /-- …also when the last save of settings.json failed part-way: what was persisted before still applies -/
  crashSafe : ∀ reg n e, WF reg → (ResolvesTo cfg (afterTornSave cfg reg) n e ↔ ResolvesTo cfg reg n e)
  /-- every ACKNOWLEDGED registration survives a restart: after any history of registrations (some of whose saves
      were torn) and deregistrations, settings.json holds, for every key whose last operation was an untorn
      registration, exactly that registration -/
  ackDurable : ∀ h, (∀ op ∈ h, op.pat.NoSlash) →
      ∀ k x, specDisk h k = some x → entryFor (runRD cfg ⟨[], [], false⟩ h).disk k = x
  /-- after ANY history of registrations, re-registrations and deregistrations (from any reachable
      registry) the entry stored for every key is its LAST registration, nothing after a deregistration -/
  registered : ∀ reg h, WF reg → (∀ op ∈ h, op.pat.NoSlash) →
      entryFor (runOps cfg reg h) = specRun (entryFor reg) h

/-- consequence of `orderIndependent`: the relation is functional -/
theorem Holds.functional {cfg : Cfg} (h : Holds cfg) (reg : List Entry) (n : Name) (e1 e2 : Entry)
    (hw : WF reg) (h1 : ResolvesTo cfg reg n e1) (h2 : ResolvesTo cfg reg n e2) : e1 = e2 := by
  obtain ⟨o1, p1, rfl⟩ := h1
  obtain ⟨o2, p2, rfl⟩ := h2
  rw [h.orderIndependent reg o1 n hw p1, h.orderIndependent reg o2 n hw p2]

/-! ### the ranked lookup -/

/-- a more specific pattern has a strictly larger rank -/
theorem rank_lt_of_moreSpecific (cfg : Cfg) (hr : 0 < cfg.wRealm) (hs : 0 < cfg.wSwamp) (q p : Name)
    (h : MoreSpecific q p) : rank cfg p < rank cfg q := by
  obtain ⟨h1, h2, h3⟩ := h
  simp only [rank]
  by_cases a : q.r = star <;> by_cases b : q.w = star <;> by_cases c : p.r = star <;> by_cases d : p.w = star <;>
    simp only [a, b, c, d, if_true, if_false] <;>
    first
      | omega
      | (exfalso; first | exact c (h1 a) | exact d (h2 b) | (rcases h3 with ⟨_, h⟩ | ⟨_, h⟩ <;> first | exact h a | exact h b | contradiction))

theorem resolve_perm (cfg : Cfg) (hg : cfg.goodRank = true) (reg reg' : List Entry) (n : Name)
    (hw : WF reg) (hp : reg'.Perm reg) : lookupIn cfg reg' n = lookupIn cfg reg n := by
  have hg' := hg
  simp only [Cfg.goodRank, Bool.and_eq_true, beq_iff_eq, decide_eq_true_eq] at hg'
  obtain ⟨⟨⟨⟨_, _⟩, hr⟩, hs⟩, hne⟩ := hg'
  rcases lookupIn_ranked_spec cfg hg reg n with ⟨ha, ea⟩ | ⟨ma, mma, xa⟩ <;>
  rcases lookupIn_ranked_spec cfg hg reg' n with ⟨hb, eb⟩ | ⟨mb, mmb, xb⟩
  · rw [ea, eb]
  · have := ha _ (hp.mem_iff.mp mb); rw [this] at mmb; contradiction
  · have := hb _ (hp.mem_iff.mpr ma); rw [this] at mma; contradiction
  · have l1 := xa _ (hp.mem_iff.mp mb) mmb
    have l2 := xb _ (hp.mem_iff.mpr ma) mma
    have hpat := rank_inj cfg hr hs hne n _ _ mmb mma (by omega)
    exact hw.keyed _ (hp.mem_iff.mp mb) _ ma (by rw [hpat])

theorem resolve_most_specific (cfg : Cfg) (hg : cfg.goodRank = true) (reg : List Entry) (n : Name) (e : Entry)
    (hw : WF reg) (h : ResolvesTo cfg reg n e) :
    ((∀ x ∈ reg, matchesPat n x.pat = false) ∧ e = defaultEntry n) ∨
    (e ∈ reg ∧ matchesPat n e.pat = true ∧ ∀ x ∈ reg, matchesPat n x.pat = true → ¬ MoreSpecific x.pat e.pat) := by
  have hg' := hg
  simp only [Cfg.goodRank, Bool.and_eq_true, beq_iff_eq, decide_eq_true_eq] at hg'
  obtain ⟨⟨⟨⟨_, _⟩, hr⟩, hs⟩, _⟩ := hg'
  obtain ⟨o, po, rfl⟩ := h
  rw [resolve_perm cfg hg reg o n hw po]
  rcases lookupIn_ranked_spec cfg hg reg n with ⟨ha, ea⟩ | ⟨ma, mma, xa⟩
  · exact Or.inl ⟨ha, ea⟩
  · refine Or.inr ⟨ma, mma, ?_⟩
    intro x hx hmx hms
    have := xa x hx hmx
    have := rank_lt_of_moreSpecific cfg hr hs _ _ hms
    omega

theorem resolve_restart (cfg : Cfg) (hp : cfg.persistsAll = true) (reg : List Entry) (n : Name) (e : Entry)
    (hw : WF reg) : ResolvesTo cfg (reload cfg reg) n e ↔ ResolvesTo cfg reg n e := by
  rw [reload_id cfg hp reg hw]

/-- C21 holds for every reachable registry when the lookup ranks all matches strictly and
    every field is persisted. -/
theorem holds_ranked (cfg : Cfg) (hg : cfg.goodRank = true) (hp : cfg.persistsAll = true)
    (hc : cfg.unchangedChecksType = true) (ha : cfg.saveAtomic = true) (hd : cfg.unchangedChecksDisk = true) : Holds cfg :=
  ⟨fun reg reg' n hw p => resolve_perm cfg hg reg reg' n hw p,
   fun reg n e hw h => resolve_most_specific cfg hg reg n e hw h,
   fun reg n e hw => resolve_restart cfg hp reg n e hw,
   fun reg n e hw => by simp only [afterTornSave, ha, if_true]; exact resolve_restart cfg hp reg n e hw,
   fun h hns => (acknowledged_is_durable cfg hc hd ha h hns).diskSpec,
   fun reg h hw hns => (registry_follows_history cfg hc h reg hw hns).1⟩

theorem entryFor_nil : entryFor [] = fun _ => none := funext fun _ => rfl

/-- Names resolve to the LAST registration of the winning pattern: the entry a lookup returns from
    the registry reached by a history is what the Spec function of that history holds for its key. -/
theorem resolves_to_last_registration (cfg : Cfg) (hg : cfg.goodRank = true) (hc : cfg.unchangedChecksType = true)
    (h : List RegOp) (hns : ∀ op ∈ h, op.pat.NoSlash) (n : Name) (e : Entry)
    (hr : ResolvesTo cfg (runOps cfg [] h) n e) (hm : ∃ x ∈ runOps cfg [] h, matchesPat n x.pat = true) :
    specRun (fun _ => none) h (canon e.pat) = some e := by
  obtain ⟨hspec, hwf⟩ := registry_follows_history cfg hc h [] wf_nil hns
  have hres := resolve_most_specific cfg hg _ n e hwf hr
  rcases hres with ⟨hnone, _⟩ | ⟨hmem, _, _⟩
  · obtain ⟨x, hx, hmx⟩ := hm
    rw [hnone x hx] at hmx; contradiction
  · have : entryFor (runOps cfg [] h) (canon e.pat) = some e := by
      unfold entryFor
      cases hf : (runOps cfg [] h).find? (hasKey (canon e.pat)) with
      | none =>
        have := List.find?_eq_none.mp hf e hmem
        simp [hasKey] at this
      | some e' =>
        have hk : canon e'.pat = canon e.pat := by
          have := List.find?_some hf
          simpa [hasKey] using this
        rw [hwf.keyed e' (List.mem_of_find?_eq_some hf) e hmem hk]
    rw [hspec, entryFor_nil] at this
    exact this

/-! ### non-vacuity: a reachable registry with four overlapping patterns -/

def bA : Bytes := [0x61]
def bB : Bytes := [0x62]
def bC : Bytes := [0x63]
def fixedCfg : Cfg := ⟨.ranked, .gt, 2, 1, true, true, true, true, true, true, true⟩

/-- exact, swamp-wildcard, realm-wildcard and double-wildcard patterns of sanctuary "a" -/
def overlapping : List Entry :=
  register fixedCfg (register fixedCfg (register fixedCfg (register fixedCfg [] ⟨bA, star, star⟩ false 9 9 9) ⟨bA, star, bC⟩ true 8 0 0)
    ⟨bA, bB, star⟩ false 7 7 7) ⟨bA, bB, bC⟩ true 6 0 0

example : fixedCfg.goodRank = true ∧ fixedCfg.persistsAll = true ∧ fixedCfg.unchangedChecksType = true := by decide
example : WF overlapping :=
  wf_register _ _ (wf_register _ _ (wf_register _ _ (wf_register _ _ wf_nil _ (by decide) _ _ _ _) _ (by decide) _ _ _ _)
    _ (by decide) _ _ _ _) _ (by decide) _ _ _ _
example : overlapping.length = 4 ∧ (overlapping.filter (fun e => matchesPat ⟨bA, bB, bC⟩ e.pat)).length = 4 := by decide
/-- all four match a/b/c; the exact one wins in this order and in the reversed one -/
example : lookupIn fixedCfg overlapping ⟨bA, bB, bC⟩ = ⟨⟨bA, bB, bC⟩, ⟨true, 6, 0, 0⟩⟩ ∧
          lookupIn fixedCfg overlapping.reverse ⟨bA, bB, bC⟩ = ⟨⟨bA, bB, bC⟩, ⟨true, 6, 0, 0⟩⟩ := by decide
/-- a/x/c falls to the realm wildcard, a/b/x to the swamp wildcard, z/b/c to the default -/
example : (lookupIn fixedCfg overlapping ⟨bA, [0x78], bC⟩).f = ⟨true, 8, 0, 0⟩ ∧
          (lookupIn fixedCfg overlapping ⟨bA, bB, [0x78]⟩).f = ⟨false, 7, 7, 7⟩ ∧
          lookupIn fixedCfg overlapping ⟨[0x7a], bB, bC⟩ = defaultEntry ⟨[0x7a], bB, bC⟩ := by decide

/-! ### the current code: first match in map iteration order -/

/-- exact persistent pattern + realm wildcard in-memory pattern -/
def witnessReg : List Entry := [⟨⟨bA, bB, bC⟩, ⟨false, 5, 1, 8192⟩⟩, ⟨⟨bA, star, bC⟩, ⟨true, 5, 0, 0⟩⟩]
def witnessName : Name := ⟨bA, bB, bC⟩

theorem witnessReg_wf : WF witnessReg := by
  constructor
  · intro e he
    simp only [witnessReg, List.mem_cons, List.mem_nil_iff, or_false] at he
    rcases he with rfl | rfl <;> decide
  · intro a ha b hb
    simp only [witnessReg, List.mem_cons, List.mem_nil_iff, or_false] at ha hb
    rcases ha with rfl | rfl <;> rcases hb with rfl | rfl <;> decide

/-- Closed witness: the same registry resolves a/b/c to a persistent entry under one map
    order and to an in-memory entry under the other. -/
theorem map_order_witness (cfg : Cfg) (h : cfg.lookup = .iteratesMap) :
    (lookupIn cfg witnessReg witnessName).f.inMem = false ∧
    (lookupIn cfg witnessReg.reverse witnessName).f.inMem = true := by
  simp only [lookupIn, h]
  decide

theorem refutes_iteratesMap (cfg : Cfg) (h : cfg.lookup = .iteratesMap) : ¬ Holds cfg := by
  intro hh
  have := hh.orderIndependent witnessReg witnessReg.reverse witnessName witnessReg_wf (List.reverse_perm _)
  have w := map_order_witness cfg h
  rw [this] at w
  rw [w.1] at w
  exact Bool.noConfusion w.2

/-- What still holds with map-order lookup: when at most one registered entry matches a name,
    its resolution is unique (this is the only situation the baseline tests exercise). -/
theorem functional_nonoverlap_partial (cfg : Cfg) (h : cfg.lookup = .iteratesMap) (reg : List Entry) (n : Name)
    (hone : ∀ a ∈ reg, ∀ b ∈ reg, matchesPat n a.pat = true → matchesPat n b.pat = true → a = b)
    (e1 e2 : Entry) (h1 : ResolvesTo cfg reg n e1) (h2 : ResolvesTo cfg reg n e2) : e1 = e2 := by
  obtain ⟨o1, p1, rfl⟩ := h1
  obtain ⟨o2, p2, rfl⟩ := h2
  simp only [lookupIn, h]
  cases f1 : o1.find? (fun e => matchesPat n e.pat) with
  | none =>
    cases f2 : o2.find? (fun e => matchesPat n e.pat) with
    | none => rfl
    | some b =>
      have hb := List.find?_some f2
      have mb := List.mem_of_find?_eq_some f2
      have := List.find?_eq_none.mp f1 b (p1.mem_iff.mpr (p2.mem_iff.mp mb))
      simp [hb] at this
  | some a =>
    have ha := List.find?_some f1
    have ma := List.mem_of_find?_eq_some f1
    cases f2 : o2.find? (fun e => matchesPat n e.pat) with
    | none =>
      have := List.find?_eq_none.mp f2 a (p2.mem_iff.mpr (p1.mem_iff.mp ma))
      simp [ha] at this
    | some b =>
      have hb := List.find?_some f2
      have mb := List.mem_of_find?_eq_some f2
      simp only [Option.getD_some]
      exact hone a (p1.mem_iff.mp ma) b (p2.mem_iff.mp mb) ha hb

/-- The fragment that survives map-order lookup. -/
def HoldsNonOverlap (cfg : Cfg) : Prop :=
  ∀ reg n, (∀ a ∈ reg, ∀ b ∈ reg, matchesPat n a.pat = true → matchesPat n b.pat = true → a = b) →
    ∀ e1 e2, ResolvesTo cfg reg n e1 → ResolvesTo cfg reg n e2 → e1 = e2

/-! ### a field that is not carried through settings.json -/

def restartRegMem : List Entry := [⟨⟨bA, bB, bC⟩, ⟨true, 7, 0, 0⟩⟩]
def restartRegDisk : List Entry := [⟨⟨bA, bB, bC⟩, ⟨false, 7, 3, 9⟩⟩]

theorem lookupIn_single (cfg : Cfg) (hg : cfg.goodRank = true) (e : Entry) : lookupIn cfg [e] e.pat = e := by
  simp only [Cfg.goodRank, Bool.and_eq_true, beq_iff_eq, decide_eq_true_eq] at hg
  obtain ⟨⟨⟨⟨hl, hc⟩, hr⟩, hs⟩, _⟩ := hg
  have hm : matchesPat e.pat e.pat = true := by rw [matchesPat_iff]; simp
  have hb : better cfg.cmp (rank cfg e.pat) (-1) = true := by
    have := rank_nonneg cfg hr hs e.pat
    simp only [hc, better, decide_eq_true_eq]; omega
  simp [lookupIn, hl, rankedLoop, hm, hb]

theorem wf_single (e : Entry) (h : e.pat.NoSlash) : WF [e] := by
  constructor
  · intro x hx; simp only [List.mem_singleton] at hx; subst hx; exact h
  · intro a ha b hb _; simp only [List.mem_singleton] at ha hb; rw [ha, hb]

/-- With a ranked lookup but a persisted field dropped on load, a restart changes a result. -/
theorem refutes_dropped_field (cfg : Cfg) (hg : cfg.goodRank = true) (hp : cfg.persistsAll = false) : ¬ Holds cfg := by
  intro hh
  have key : ∀ e : Entry, e.pat.NoSlash → (load (canon e.pat)) = some e.pat → ofPM cfg (toPM e) ≠ e → False := by
    intro e hns hl hne
    have hw := wf_single e hns
    have r1 : ResolvesTo cfg [e] e.pat e := ⟨[e], List.Perm.refl _, lookupIn_single cfg hg e⟩
    have r2 := (hh.restart [e] e.pat e hw).mpr r1
    obtain ⟨o, po, ho⟩ := r2
    simp only [reload, List.map_cons, List.map_nil] at po
    have : o = [ofPM cfg (toPM e)] := List.perm_singleton.mp po
    subst this
    have hpat : (ofPM cfg (toPM e)).pat = e.pat := by simp [ofPM, toPM, hl]
    have := lookupIn_single cfg hg (ofPM cfg (toPM e))
    rw [hpat, ho] at this
    exact hne this.symm
  simp only [Cfg.persistsAll, Bool.and_eq_false_iff] at hp
  rcases hp with ((h | h) | h) | h
  · exact key ⟨⟨bA, bB, bC⟩, ⟨true, 7, 0, 0⟩⟩ (by decide) (by decide) (by simp [ofPM, toPM, h])
  · exact key ⟨⟨bA, bB, bC⟩, ⟨false, 7, 3, 9⟩⟩ (by decide) (by decide) (by simp [ofPM, toPM, h])
  · exact key ⟨⟨bA, bB, bC⟩, ⟨false, 7, 3, 9⟩⟩ (by decide) (by decide) (by simp [ofPM, toPM, h])
  · exact key ⟨⟨bA, bB, bC⟩, ⟨false, 7, 3, 9⟩⟩ (by decide) (by decide) (by simp [ofPM, toPM, h])

/-! ### settings.json rewritten in place -/

/-- one registered in-memory pattern; the next save fails part-way; after the restart the pattern is gone and
    a/b/c resolves to the default (persistent) settings -/
theorem torn_save_witness (cfg : Cfg) (h : cfg.saveAtomic = false) :
    afterTornSave cfg restartRegMem = [] ∧
    lookupIn cfg (afterTornSave cfg restartRegMem) ⟨bA, bB, bC⟩ = defaultEntry ⟨bA, bB, bC⟩ := by
  simp only [afterTornSave, h, Bool.false_eq_true, if_false, true_and]
  simp only [lookupIn]
  split <;> simp [rankedLoop]

theorem refutes_torn_save (cfg : Cfg) (hg : cfg.goodRank = true) (h : cfg.saveAtomic = false) : ¬ Holds cfg := by
  intro hh
  let e : Entry := ⟨⟨bA, bB, bC⟩, ⟨true, 7, 0, 0⟩⟩
  have hw : WF [e] := wf_single e (by decide)
  have r1 : ResolvesTo cfg [e] e.pat e := ⟨[e], List.Perm.refl _, lookupIn_single cfg hg e⟩
  obtain ⟨o, po, ho⟩ := (hh.crashSafe [e] e.pat e hw).mpr r1
  simp only [afterTornSave, h, Bool.false_eq_true, if_false] at po
  have : o = [] := List.perm_nil.mp po
  subst this
  have hd := (torn_save_witness cfg h).2
  simp only [afterTornSave, h, Bool.false_eq_true, if_false, restartRegMem] at hd
  rw [show e.pat = ⟨bA, bB, bC⟩ from rfl, hd] at ho
  exact absurd ho (by decide)

/-! ### an acknowledged registration that never reaches the file -/

/-- the save of `a/b/c` is torn (the pattern is in the runtime map, not in the file); the client registers it again —
    the call is acknowledged but the "not changed" early return, which looks at the runtime map only, skips the save -/
def lostHistory : List POp := [.torn ⟨bA, bB, bC⟩ false 2 1 8192, .reg ⟨bA, bB, bC⟩ false 2 1 8192]

theorem acknowledged_registration_lost_witness (cfg : Cfg) (ha : cfg.saveAtomic = true) (hd : cfg.unchangedChecksDisk = false) :
    (runRD cfg ⟨[], [], false⟩ lostHistory).disk = [] ∧
    specDisk lostHistory (canon ⟨bA, bB, bC⟩) = some (some ⟨⟨bA, bB, bC⟩, ⟨false, 2, 1, 8192⟩⟩) := by
  constructor
  · simp [runRD, lostHistory, stepRD, earlyRD, unchanged, regForce, hasKey, entryOf, ha, hd]
  · decide

theorem refutes_ack_lost (cfg : Cfg) (ha : cfg.saveAtomic = true) (hd : cfg.unchangedChecksDisk = false) : ¬ Holds cfg := by
  intro hh
  have w := acknowledged_registration_lost_witness cfg ha hd
  have := hh.ackDurable lostHistory (by
    intro op hop
    simp only [lostHistory, List.mem_cons, List.mem_nil_iff, or_false] at hop
    rcases hop with rfl | rfl <;> decide) _ _ w.2
  rw [w.1] at this
  simp [entryFor] at this

/-! ### the re-registration quirk of the original RegisterPattern -/

/-- a/x/p is registered in-memory (idle 4) and then persistent with idle 4, interval 0, size 0 -/
def quirkHistory : List RegOp := [.reg ⟨bA, bB, bC⟩ true 4 0 0, .reg ⟨bA, bB, bC⟩ false 4 0 0]

/-- The "not changed" early return compares idle / interval / size only: the second registration is
    dropped and the pattern stays in-memory. -/
theorem reregistration_ignored_witness (cfg : Cfg) (h : cfg.unchangedChecksType = false) :
    runOps cfg [] quirkHistory = [⟨⟨bA, bB, bC⟩, ⟨true, 4, 0, 0⟩⟩] ∧
    specRun (fun _ => none) quirkHistory (canon ⟨bA, bB, bC⟩) = some ⟨⟨bA, bB, bC⟩, ⟨false, 4, 0, 0⟩⟩ := by
  constructor
  · simp only [runOps, quirkHistory, List.foldl_cons, List.foldl_nil, applyOp]
    simp [register, unchanged, h, hasKey, entryOf]
  · decide

theorem refutes_reregistration (cfg : Cfg) (h : cfg.unchangedChecksType = false) : ¬ Holds cfg := by
  intro hh
  have := hh.registered [] quirkHistory wf_nil (by
    intro op hop
    simp only [quirkHistory, List.mem_cons, List.mem_nil_iff, or_false] at hop
    rcases hop with rfl | rfl <;> decide)
  rw [entryFor_nil] at this
  have h1 := congrFun this (canon ⟨bA, bB, bC⟩)
  rw [(reregistration_ignored_witness cfg h).1, (reregistration_ignored_witness cfg h).2] at h1
  simp [entryFor, hasKey] at h1

/-- non-vacuity of the history clause: register, re-register with other numbers, deregister, register again -/
example : (runOps fixedCfg [] [.reg ⟨bA, bB, bC⟩ true 4 0 0, .reg ⟨bA, bB, bC⟩ false 4 0 0, .reg ⟨bA, star, bC⟩ false 3 2 1,
            .dereg ⟨bA, bB, bC⟩, .reg ⟨bA, bB, bC⟩ true 9 0 0]).map (·.f) = [⟨false, 3, 2, 1⟩, ⟨true, 9, 0, 0⟩] := by decide

/-! ### Decision over the extracted facts -/

structure Facts where
  lookup : Lookup
  cmp : Cmp
  wRealm : Option Nat
  wSwamp : Option Nat
  persistsInMem : Tri
  persistsIdle : Tri
  persistsWi : Tri
  persistsSize : Tri
  unchangedChecksType : Tri   -- RegisterPattern's early return also requires the stored entry to be persistent
  saveAtomic : Tri            -- SaveSettingsToFilesystem writes a temp file and renames it over settings.json
  unchangedChecksDisk : Tri   -- the early return also requires s.model.Patterns[key] to equal the new registration
  comparePatternExact : Tri   -- name.ComparePattern is the exact, case-sensitive comparison `matchesPat` models
  summonResolvesFresh : Tri   -- hydra.createNewSwamp resolves the settings with GetBySwampName each time (no memo keyed by the name)
  deriving Repr

def cfgOf (f : Facts) : Cfg :=
  ⟨f.lookup, f.cmp, (f.wRealm.getD 0 : Nat), (f.wSwamp.getD 0 : Nat),
   f.persistsInMem.isYes, f.persistsIdle.isYes, f.persistsWi.isYes, f.persistsSize.isYes, f.unchangedChecksType.isYes, f.saveAtomic.isYes, f.unchangedChecksDisk.isYes⟩

def persistKnown (f : Facts) : Bool :=
  f.persistsInMem != .unknown && f.persistsIdle != .unknown && f.persistsWi != .unknown && f.persistsSize != .unknown &&
  f.unchangedChecksType != .unknown && f.saveAtomic != .unknown && f.unchangedChecksDisk != .unknown &&
  f.comparePatternExact == .yes && f.summonResolvesFresh == .yes

def classify (f : Facts) : Verdict :=
  if !persistKnown f then .undetermined "a persisted field of the pattern model, name.ComparePattern or the settings resolution of hydra.createNewSwamp was not recognised"
  else match f.lookup with
  | .iteratesMap =>
    .violated (["C21-map-order-lookup"] ++ (if (cfgOf f).persistsAll then [] else ["C21-restart-loses-field"]) ++
      (if (cfgOf f).unchangedChecksType then [] else ["C21-reregistration-ignored"]) ++
      (if (cfgOf f).saveAtomic then [] else ["C21-settings-save-not-atomic"]) ++
      (if (cfgOf f).unchangedChecksDisk then [] else ["C21-acknowledged-registration-lost"]))
  | .ranked =>
    if (cfgOf f).goodRank then
      (if (cfgOf f).persistsAll && (cfgOf f).unchangedChecksType && (cfgOf f).saveAtomic && (cfgOf f).unchangedChecksDisk then .holds
       else .violated ((if (cfgOf f).persistsAll then [] else ["C21-restart-loses-field"]) ++
                       (if (cfgOf f).unchangedChecksType then [] else ["C21-reregistration-ignored"]) ++
      (if (cfgOf f).saveAtomic then [] else ["C21-settings-save-not-atomic"]) ++
      (if (cfgOf f).unchangedChecksDisk then [] else ["C21-acknowledged-registration-lost"])))
    else .undetermined "the ranking in GetBySwampName is not a strict most-specific order"
  | .unknown => .undetermined "lookup loop of GetBySwampName not recognised"

/-- `holds` ⇒ the full statement; `violated` ⇒ its negation, and (map-order lookup) the
    non-overlapping fragment. -/
theorem classify_sound (f : Facts) :
    (classify f).Sound (Holds (cfgOf f)) (f.lookup = .iteratesMap → HoldsNonOverlap (cfgOf f)) := by
  unfold classify
  split
  · trivial
  · cases hl : f.lookup with
    | iteratesMap =>
      have hc : (cfgOf f).lookup = .iteratesMap := hl
      exact ⟨refutes_iteratesMap _ hc,
        fun _ reg n hone e1 e2 h1 h2 => functional_nonoverlap_partial _ hc reg n hone e1 e2 h1 h2⟩
    | ranked =>
      simp only
      split
      · rename_i hg
        split
        · rename_i hp
          simp only [Bool.and_eq_true] at hp
          exact holds_ranked _ hg hp.1.1.1 hp.1.1.2 hp.1.2 hp.2
        · rename_i hp
          refine ⟨?_, fun h => by simp at h⟩
          simp only [Bool.and_eq_true, not_and, Bool.not_eq_true] at hp
          cases h1 : (cfgOf f).persistsAll with
          | false => exact refutes_dropped_field _ hg h1
          | true =>
            cases h2 : (cfgOf f).unchangedChecksType with
            | false => exact refutes_reregistration _ h2
            | true =>
              cases h3 : (cfgOf f).saveAtomic with
              | false => exact refutes_torn_save _ hg h3
              | true => exact refutes_ack_lost _ h3 (hp ⟨⟨h1, h2⟩, h3⟩)
      · trivial
    | unknown => trivial

end Hv.C21
