/-
  C15 — Record guard gives exclusive, arrival-ordered access.

  "For any interleaving of guarded operations on one record, at most one operation holds the
   record's guard at a time, waiting operations acquire it in arrival order, and releasing a
   guard you do not hold has no effect on the current holder."

  Quantifier: every schedule of `startWait | startNoWait | release sid | releaseRaw id`
  (acquire waiting and non-waiting, release, duplicate release, release of a foreign ID),
  of any length.  Model: `Hv/Conc/Guard.lean` (mirrors guard.go, one action per method
  body, each under `g.cond.L`).
-/
import Hv.Conc.GuardLemmas
import Hv.Basic.Verdict

namespace Hv.C15
open Hv.Guard

/-- The full-strength statement, for a given value of the code facts. -/
structure Holds (cfg : Cfg) : Prop where
  /-- at most one session believes it holds the guard, in every reachable state -/
  mutex : ∀ as s, run cfg init as = some s → s.holders.length ≤ 1
  /-- and that session is the one at the head of the code's queue -/
  holderIsHead : ∀ as s, run cfg init as = some s → s.holders = (headSid s).toList
  /-- sessions are granted in arrival order (session ids are arrival numbers) -/
  fifo : ∀ as s, run cfg init as = some s → s.grants.Pairwise (· < ·)
  /-- a release by any session other than the current holder (stale, duplicate, foreign)
      leaves the code's queue — hence the holder — untouched -/
  staleNoop : ∀ as s sid s', run cfg init as = some s → headSid s ≠ some sid →
      step cfg s (.release sid) = some s' → s'.queue = s.queue ∧ s'.holders = s.holders
  /-- a release with any ID that is not the current head's (garbage, never issued, a waiter's)
      changes nothing at all -/
  rawNoop : ∀ as s id s', run cfg init as = some s →
      step cfg s (.releaseRaw id) = some s' → s' = s

theorem reach_inv (as : List Act) (s : St) (h : run noReset init as = some s) : Inv s :=
  LTS.inv_run (step noReset) Inv (fun s a s' hi hs => inv_step s a s' hi hs) init as s inv_init h

/-- C15 holds for every schedule when guard IDs are never reused. -/
theorem holds_noReset : Holds noReset := by
  refine ⟨?_, ?_, ?_, ?_, ?_⟩
  rotate_left 4
  · intro as s id s' h hs
    simp only [step] at hs
    split at hs
    · simp at hs
    · rename_i hne
      simp at hs
      rw [inv_releaseRaw s (reach_inv as s h) id hne] at hs
      exact hs.symm
  · intro as s h
    have := (reach_inv as s h).holders
    rw [this]; cases headSid s <;> simp
  · intro as s h; exact (reach_inv as s h).holders
  · intro as s h; exact (reach_inv as s h).gSorted
  · intro as s sid s' h hne hs
    have hi := reach_inv as s h
    simp only [step] at hs
    cases hid : idOf s sid with
    | none => simp [hid] at hs
    | some id =>
      simp only [hid] at hs
      split at hs
      · simp at hs
      · simp at hs
        have hmem : (sid, id) ∈ s.issued := mem_of_find _ _ _ hid
        cases hq : s.queue with
        | nil =>
          have hh : s.holders = [] := by simpa [headSid, hq] using hi.holders
          subst hs; simp [releaseId, hq, hh]
        | cons x rest =>
          obtain ⟨h0, hs0⟩ := x
          have hx : (hs0, h0) ∈ s.issued := hi.qIssued (h0, hs0) (by simp [hq])
          have hiff := issued_inj _ hi.iSorted (hs0, h0) (sid, id) hx hmem
          have hsid : hs0 ≠ sid := by simpa [headSid, hq] using hne
          have hne' : h0 ≠ id := fun e => hsid (hiff.mpr e)
          have hh : s.holders = [hs0] := by simpa [headSid, hq] using hi.holders
          subst hs; simp [releaseId, hq, hne', hh, hsid]

/-- Non-vacuity: a schedule with a waiter, a stale duplicate release and a refused
    non-waiting start is accepted by the model and ends with the second session holding. -/
example : (run noReset init [.startWait, .startWait, .startNoWait, .release 1, .release 1]).map
    (fun s => (s.queue, s.holders, s.grants)) = some ([(2, 2)], [2], [1, 2]) := by decide

/-! ### The current code: IDs restart at 1 whenever the queue empties -/

def withReset : Cfg := { resetsIdOnEmpty := true }

/-- Witness schedule: A acquires and releases; B acquires (and is again given ID 1); A's
    duplicate release (the one `SaveFunction` + the caller's `defer` perform in immediate-write
    mode) pops B; C's non-waiting start now succeeds while B still believes it holds. -/
def witness : List Act := [.startWait, .release 1, .startWait, .release 1, .startNoWait]

theorem witness_two_holders :
    (run withReset init witness).map (·.holders) = some [2, 3] := by decide

/-- With ID reuse the mutual-exclusion clause is false. -/
theorem refutes_reset : ¬ Holds withReset := by
  intro h
  have hr : run withReset init witness =
      some { queue := [(1, 3)], counter := 1, nextSid := 3, issued := [(1, 1), (2, 1), (3, 1)],
             holders := [2, 3], grants := [1, 2, 3] } := by decide
  have := h.mutex witness _ hr
  simp at this

/-- …and so is the stale-release clause: the release of session 1 (not the holder) pops session 2. -/
theorem refutes_reset_stale :
    ∃ as s sid s', run withReset init as = some s ∧ headSid s ≠ some sid ∧
      step withReset s (.release sid) = some s' ∧ s'.queue ≠ s.queue :=
  ⟨[.startWait, .release 1, .startWait],
   { queue := [(1, 2)], counter := 1, nextSid := 2, issued := [(1, 1), (2, 1)], holders := [2], grants := [1, 2] },
   1,
   { queue := [], counter := 0, nextSid := 2, issued := [(1, 1), (2, 1)], holders := [2], grants := [1, 2] },
   by decide, by decide, by decide, by decide⟩

/-! ### Decision over the extracted facts -/

structure Facts where
  resetsIdOnEmpty : Tri
  deriving Repr

def classify (f : Facts) : Verdict :=
  match f.resetsIdOnEmpty with
  | .no => .holds
  | .yes => .violated ["C15-guard-id-reuse"]
  | .unknown => .undetermined "guard.resetsIdOnEmpty"

def cfgOf (f : Facts) : Cfg := { resetsIdOnEmpty := f.resetsIdOnEmpty.isYes }

theorem classify_sound (f : Facts) : (classify f).Sound (Holds (cfgOf f)) := by
  cases hf : f.resetsIdOnEmpty <;> simp only [classify, hf, Verdict.Sound]
  · have : cfgOf f = withReset := by simp [cfgOf, hf, withReset, Tri.isYes]
    rw [this]; exact ⟨refutes_reset, trivial⟩
  · have : cfgOf f = noReset := by simp [cfgOf, hf, noReset, Tri.isYes]
    rw [this]; exact holds_noReset

end Hv.C15
