/-
  C13 — Structural patch matches its documented semantics.

  "For every msgpack map body, list of patch operations and optional condition, a patch
   produces exactly the document the documented operation semantics describe.  Untouched values
   keep their exact bytes, increments keep the target's numeric type, and a failing operation or
   unmet condition leaves the body unchanged.  A reported success always leaves a well-formed
   msgpack body, and comparisons follow numeric ordering (NaN compares equal to nothing)."

  Model: `Hv/Patch/*` (every format code; parser termination by fuel = 2·length - 1).
  Everything below is for ALL byte strings / trees / op lists (induction on fuel and on the
  document tree), except the closed witnesses that refute the property for the fact values of
  the unrepaired code.  Facts: `validatesValues` (are spliced op values checked with `Parse`),
  `nanCompare` (what `compareLeafBytes` does with NaN), `incFixint`, `dupKey`, `magic0/1`.
-/
import Hv.Patch.OpsWf
import Hv.Patch.Untouched
import Hv.Patch.LeafBytes
import Hv.Patch.NumLemmas
import Hv.Patch.SpecRefine
import Hv.Patch.Target
import Hv.Patch.PatchFields
import Hv.Patch.ErrorClassOps
import Hv.Patch.Wire

namespace Hv.C13
open Hv.Patch

/-- the repaired code: op values validated, NaN not comparable, REMOVE_VAL compares containers too -/
def good : Cfg := ⟨true, .neverEqual, .widen64, true⟩

/-! ## 1. parse / serialize round trip (all codes, all header widths) -/

/-- Encoder-chosen headers: the parsed document serialises to the very same bytes, and the Go
    parser accepts it with the same skeleton. -/
theorem parse_serialize {b : Bytes} {t : Node} (h : parseStrict b = .ok t) :
    serialize t = b ∧ parse b = .ok t := by
  unfold parseStrict parseG at h
  split at h
  · cases h
  · rename_i t' heq
    injection h with h; subst h
    constructor
    · have := (strict_exact _).1 b t' [] heq
      simpa using this.symm
    · apply parse_of
      exact (strict_lax _).1 b _ heq
  · cases h

/-- Any header widths: serialising what was parsed and parsing again gives the same skeleton
    (`Serialize` only ever shrinks headers). -/
theorem parse_serialize_structural {b : Bytes} {t : Node} (h : parse b = .ok t) :
    parse (serialize t) = .ok t := by
  have hw := parse_wf h
  rw [serialize_parse hw.1, hw.2]

/-- `wf` is a decidable predicate and documents satisfying it exist: `{"x": 1, "t": [true, "ab"]}`
    with a map16 header and a str8 key is `wf` but not `wfMinimal`; with minimal headers both. -/
example : wf [0xde, 0x00, 0x02, 0xd9, 0x01, 0x78, 0x01, 0xa1, 0x74, 0x92, 0xc3, 0xa2, 0x61, 0x62] = true := by decide
example : wfMinimal [0xde, 0x00, 0x02, 0xd9, 0x01, 0x78, 0x01, 0xa1, 0x74, 0x92, 0xc3, 0xa2, 0x61, 0x62] = false := by decide
example : wfMinimal [0x82, 0xa1, 0x78, 0x01, 0xa1, 0x74, 0x92, 0xc3, 0xa2, 0x61, 0x62] = true := by decide

/-! ## 2. a reported success leaves a well-formed body -/

/-- `validatesValues`: for every body the parser accepts, every op list and condition — a
    reported success is a body the parser accepts.  (`hsize`: no container is pushed past the
    2^32 - 1 children a msgpack header can express: `maxCh t` is the largest child count in the
    parsed body, `growth` is 1 per op and the number of MERGE fields + 1 for MERGE.  Beyond that
    bound `EncodeMapLen` truncates the count to 32 bits — unreachable below 4 GiB of input.) -/
theorem apply_wf {cfg : Cfg} (hv : cfg.validatesValues = true)
    {body : Bytes} {ops : List Op} {cond : Option Condition} {out : Bytes} {t : Node}
    (hparse : parse body = .ok t) (hpaths : ∀ op ∈ ops, op.path.length < 2 ^ 32)
    (hsize : maxCh t + totalGrowth cfg ops < 2 ^ 32)
    (h : applyWithCondition cfg body ops cond = .ok out) : wf out = true :=
  applyWithCondition_wf hv hparse hpaths hsize h

/-- the hypotheses are satisfiable and the conclusion non-trivial: SET + APPEND on a real body -/
example :
    applyWithCondition good [0x81, 0xa1, 0x74, 0x91, 0x01]
      [⟨.set, [0x78], [0xa1, 0x79]⟩, ⟨.append, [0x74, 0x5b, 0x5d], [0x02]⟩] none
      = .ok [0x82, 0xa1, 0x74, 0x92, 0x01, 0x02, 0xa1, 0x78, 0xa1, 0x79] := by decide

/-- An op value that happens to be valid, for the unrepaired code (`_partial` fragment). -/
def ValueOk (op : Op) : Prop :=
  match op.kind with
  | .set | .inc | .append | .prepend => op.value.isEmpty = true ∨ ∃ t, parse op.value = .ok t
  | .merge => extractTop true op.value = extractTop false op.value
  | _ => True

def validating (cfg : Cfg) : Cfg := { cfg with validatesValues := true }

theorem validateValue_of_ok {cfg : Cfg} {v : Bytes} (h : ∃ t, parse v = .ok t) :
    validateValue cfg v = .ok () := by
  unfold validateValue
  obtain ⟨t, ht⟩ := h
  split
  · rw [ht]
  · rfl

theorem stepOp_validating {cfg : Cfg} {t : Node} {op : Op} (hok : ValueOk op) :
    stepOp cfg t op = stepOp (validating cfg) t op := by
  unfold stepOp
  cases parsePath op.path with
  | error e => rfl
  | ok segs =>
    simp only
    unfold applyOp ValueOk at *
    cases hk : op.kind <;> rw [hk] at hok <;> simp only at hok ⊢
    case set | append | prepend =>
      rcases hok with he | hp
      · rw [if_pos he, if_pos he]
      · split
        · rfl
        · rw [validateValue_of_ok hp, validateValue_of_ok hp]
    case inc =>
      rcases hok with he | hp
      · rw [if_pos he, if_pos he]
      · split
        · rfl
        · rw [validateValue_of_ok hp, validateValue_of_ok hp]
    case merge =>
      split
      · rfl
      · have : (validating cfg).validatesValues = true := rfl
        rw [this, hok]
        cases hv : cfg.validatesValues
        · rfl
        · rw [hok]
    case removeVal => rfl

theorem applyOps_validating {cfg : Cfg} : ∀ (ops : List Op) (t : Node), (∀ op ∈ ops, ValueOk op) →
    applyOps cfg t ops = applyOps (validating cfg) t ops
  | [], t, _ => by rw [applyOps, applyOps]
  | op :: rest, t, h => by
    rw [applyOps, applyOps, stepOp_validating (h op (by simp))]
    cases stepOp (validating cfg) t op with
    | error e => rfl
    | ok t' => simp only; exact applyOps_validating rest t' (fun o ho => h o (List.mem_cons_of_mem _ ho))

theorem evalCond_validating (cfg : Cfg) (t : Node) (c : Condition) :
    evalCond cfg t c = evalCond (validating cfg) t c := by
  unfold evalCond compareLeaf; rfl

/-- `_partial`: whatever the code validates, if the values an op list splices in are valid then
    a reported success is a body the parser accepts.  What is missing relative to `apply_wf` is
    exactly the op lists with a malformed spliced value. -/
theorem apply_wf_partial {cfg : Cfg}
    {body : Bytes} {ops : List Op} {cond : Option Condition} {out : Bytes} {t : Node}
    (hparse : parse body = .ok t) (hpaths : ∀ op ∈ ops, op.path.length < 2 ^ 32)
    (hvals : ∀ op ∈ ops, ValueOk op)
    (hsize : maxCh t + totalGrowth (validating cfg) ops < 2 ^ 32)
    (h : applyWithCondition cfg body ops cond = .ok out) : wf out = true := by
  have : applyWithCondition cfg body ops cond = applyWithCondition (validating cfg) body ops cond := by
    unfold applyWithCondition
    rw [hparse]; simp only
    cases cond with
    | none => simp only; rw [applyOps_validating ops t hvals]
    | some c => simp only; rw [evalCond_validating, applyOps_validating ops t hvals]
  rw [this] at h
  exact applyWithCondition_wf (cfg := validating cfg) rfl hparse hpaths hsize h

/-! ## 3. untouched values keep their exact bytes -/

/-- Every sub-tree off the op's path is the identical sub-tree afterwards — hence serialises
    to the identical bytes.  (`sitePos`: the container whose child list the op rewrites; what
    happens to its other children is `hSet_siblings`, `hDelete_siblings`, `hAppend_keeps`,
    `autoCreate_keeps`, `mergeInto_keeps`, `removeFirst_sublist` in `Hv.Patch.Untouched`.) -/
theorem untouched_bytes {cfg : Cfg} {t t' : Node} {op : Op} {segs : List Seg}
    (h : applyOp cfg t op segs = .ok t') :
    ∀ q, Diverge (sitePos segs t) q → getAt t' q = getAt t q ∧
      (getAt t' q).map serialize = (getAt t q).map serialize := by
  have key : ∀ q, Diverge (sitePos segs t) q → getAt t' q = getAt t q := by
    unfold applyOp at h
    cases hk : op.kind <;> rw [hk] at h <;> simp only at h
    case set =>
      split at h
      · cases h
      · split at h
        · cases h
        · exact walk_off _ segs t t' h
    case delete => exact walk_off _ segs t t' h
    case inc =>
      split at h
      · cases h
      · split at h
        · cases h
        · split at h
          · cases h
          · split at h
            · cases h
            · exact walk_off _ segs t t' h
    case append =>
      split at h
      · cases h
      · split at h
        · cases h
        · exact walk_off _ segs t t' h
    case prepend =>
      split at h
      · cases h
      · split at h
        · cases h
        · exact walk_off _ segs t t' h
    case removeAt =>
      split at h
      · exact walk_off _ segs t t' h
      · cases h
    case removeVal =>
      split at h
      · cases h
      · exact walk_off _ segs t t' h
    case merge =>
      split at h
      · cases h
      · split at h
        · cases h
        · exact walk_off _ segs t t' h
    case unknown => cases h
  intro q hq
  exact ⟨key q hq, by rw [key q hq]⟩

/-- a leaf is written out verbatim -/
theorem leaf_bytes_verbatim (raw : Bytes) : serialize (.leaf raw) = raw := by rw [serialize]

/-- The bytes themselves: a leaf of the parsed body that lies off the op's path is a slice of the
    input body, is still the leaf at that position after the op, and appears verbatim in the
    serialised result. -/
theorem untouched_leaf_bytes {cfg : Cfg} {body : Bytes} {t t' : Node} {op : Op} {segs : List Seg}
    (hp : parse body = .ok t) (h : applyOp cfg t op segs = .ok t')
    {q : List Nat} {raw : Bytes} (hq : Diverge (sitePos segs t) q) (hl : getAt t q = some (.leaf raw)) :
    raw <:+: body ∧ getAt t' q = some (.leaf raw) ∧ raw <:+: serialize t' := by
  have h1 := (untouched_bytes h q hq).1
  rw [hl] at h1
  exact ⟨parse_leaf_infix hp hl, h1, leaf_infix_serialize t' q raw h1⟩

/-- non-vacuity: in `{"a": {"x": 1}, "b": 2}` the path `a.x` has site `[0]`; position `[1]` (b)
    diverges from it -/
example : sitePos [.field [0x61], .field [0x78]]
    (.map [([0x61], .map [([0x78], .leaf [1])]), ([0x62], .leaf [2])]) = [0] := by decide
example : Diverge [0] [1] := Diverge.here [] [] (by decide)

/-- The same relative to the place the path RESOLVES to (`Spec.resolve`: `p` = position of the
    container that holds the final segment, `hit` = what the final segment finds there).
    Everything off `p` is identical, and inside that container every child other than the target
    keeps its sub-tree — at the same index, one down after DELETE / REMOVE_AT, one up after
    PREPEND (`movedTo`).  For a one-segment path `p = []`: the siblings in the root map. -/
theorem untouched_target {cfg : Cfg} {t t' : Node} {op : Op} {segs : List Seg} {p : List Nat} {hit : Hit}
    (h : applyOp cfg t op segs = .ok t') (hres : Spec.resolve segs t = .ok (p, hit)) :
    (∀ q, Diverge p q → getAt t' q = getAt t q) ∧
    (∀ j j' r x, movedTo op.kind hit j = some j' → getAt t (p ++ j :: r) = some x →
      getAt t' (p ++ j' :: r) = some x) :=
  applyOp_carries h hres

/-- non-vacuity, one-segment path: in `{"a": 1, "b": [2]}`, `SET a ← 9` resolves to the root map
    (`p = []`), target index 0; child 1 (`b`) and everything below it stay where they are -/
example : Spec.resolve [.field [0x61]] (.map [([0x61], .leaf [1]), ([0x62], .arr [.leaf [2]])]) = .ok ([], .target 0) := by
  rfl
example : movedTo .set (.target 0) 1 = some 1 ∧ movedTo .delete (.target 0) 1 = some 0 ∧
    movedTo .prepend .appendSlot 1 = some 2 := by decide

/-! ## 3b. a successful patch stores exactly the documented document -/

/-- SPEC refinement (`Hv.Patch.Spec`: the eight ops over the DECODED document — auto-create,
    negative indices, first-match on duplicate keys, shallow MERGE, INC in the target's format).
    `_partial`: all eight ops are covered, REMOVE_VAL only with a scalar value — a container value
    matches a container element only when that element was spliced in earlier in the same patch
    (`applyRemoveVal` skips parsed containers), which no value-level semantics can express. -/
theorem apply_refines_spec_partial {cfg : Cfg} (hv : cfg.validatesValues = true)
    {body : Bytes} {ops : List Op} {cond : Option Condition} {out : Bytes} {t : Node}
    (hparse : parse body = .ok t) (hpaths : ∀ op ∈ ops, op.path.length < 2 ^ 32)
    (hrv : ∀ op ∈ ops, RemoveValScalar cfg op)
    (hsize : maxCh t + totalGrowth cfg ops < 2 ^ 32)
    (h : applyWithCondition cfg body ops cond = .ok out) :
    ∃ d, Spec.refOps t ops = .ok d ∧ parse out = .ok d :=
  applyWithCondition_refines hv hparse hpaths hrv hsize h

/-- The full refinement — all eight ops, container values included — for the repaired REMOVE_VAL
    (fact `removeValCompare = canonical`): parsing the returned body gives exactly `Spec.refOps` of
    the parsed input body. -/
theorem apply_refines_spec {cfg : Cfg} (hv : cfg.validatesValues = true) (hc : cfg.rmvalCanon = true)
    {body : Bytes} {ops : List Op} {cond : Option Condition} {out : Bytes} {t : Node}
    (hparse : parse body = .ok t) (hpaths : ∀ op ∈ ops, op.path.length < 2 ^ 32)
    (hsize : maxCh t + totalGrowth cfg ops < 2 ^ 32)
    (h : applyWithCondition cfg body ops cond = .ok out) :
    ∃ d, Spec.refOps t ops = .ok d ∧ parse out = .ok d :=
  applyWithCondition_refines hv hparse hpaths
    (fun _ _ _ hf => by rw [hc] at hf; cases hf) hsize h

/-- ERROR-CLASS AGREEMENT.  When the documented semantics (`Spec.refOps`) fail with class `c`, the
    code's patch (condition absent or met) fails with the same class `c` — for every op kind,
    provided (a) every MERGE value is one the code accepts and (b) no op of the patch runs on a
    document an earlier op of the same patch spliced a container into (`NoSplice`; always true for
    one-op patches, `noSplice_single`).  Outside (a)/(b) the classes are genuinely ambiguous or a
    recorded finding: see `Hv.Patch.merge_rejected_class` and `witness_spliced_opaque`. -/
theorem apply_error_class {cfg : Cfg} (hv : cfg.validatesValues = true) (hc : cfg.rmvalCanon = true)
    {body : Bytes} {ops : List Op} {cond : Option Condition} {t : Node} {c : Err}
    (hparse : parse body = .ok t)
    (hcond : (match cond with | none => Except.ok () | some cd => evalCond cfg t cd) = .ok ())
    (hpaths : ∀ op ∈ ops, op.path.length < 2 ^ 32) (hm : ∀ op ∈ ops, MergeAccepted op)
    (hsize : maxCh t + totalGrowth cfg ops < 2 ^ 32) (hns : NoSplice cfg t ops)
    (h : Spec.refOps t ops = .error c) :
    applyWithCondition cfg body ops cond = .error c :=
  applyWithCondition_error_class hv hparse hcond hpaths
    (fun _ _ _ hf => by rw [hc] at hf; cases hf) hm hsize hns h

/-- COMPLETE AGREEMENT WITH THE SPEC, `_partial`: success and failure alike, for every patch in
    which no op runs on a document an earlier op of the SAME patch spliced a container into
    (`NoSplice`).  What is missing relative to the full statement is exactly the patches violating
    `NoSplice` — the recorded finding C13-spliced-value-opaque, closed witness
    `witness_spliced_opaque` (`SET x ← {"a":1}; SET x.a ← 2`: the Spec applies both, the code
    answers TYPE_MISMATCH).  The success half needs no such hypothesis (`apply_refines_spec`). -/
theorem apply_agrees_spec_nosplice_partial {cfg : Cfg} (hv : cfg.validatesValues = true) (hc : cfg.rmvalCanon = true)
    {body : Bytes} {ops : List Op} {cond : Option Condition} {t : Node}
    (hparse : parse body = .ok t)
    (hcond : (match cond with | none => Except.ok () | some cd => evalCond cfg t cd) = .ok ())
    (hpaths : ∀ op ∈ ops, op.path.length < 2 ^ 32) (hm : ∀ op ∈ ops, MergeAccepted op)
    (hsize : maxCh t + totalGrowth cfg ops < 2 ^ 32) (hns : NoSplice cfg t ops) :
    match applyWithCondition cfg body ops cond with
    | .ok out => ∃ d, Spec.refOps t ops = .ok d ∧ parse out = .ok d
    | .error e => Spec.refOps t ops = .error e := by
  cases ha : applyWithCondition cfg body ops cond with
  | ok out => exact apply_refines_spec hv hc hparse hpaths hsize ha
  | error e =>
    simp only
    have hw := parse_wf hparse
    have hops : applyOps cfg t ops = .error e := by
      unfold applyWithCondition at ha
      rw [hparse] at ha; simp only at ha
      cases cond with
      | none =>
        simp only at ha
        cases h : applyOps cfg t ops with
        | ok t' => rw [h] at ha; cases ha
        | error e' => rw [h] at ha; injection ha with ha; rw [ha]
      | some cd =>
        simp only at ha hcond
        rw [hcond] at ha; simp only at ha
        cases h : applyOps cfg t ops with
        | ok t' => rw [h] at ha; cases ha
        | error e' => rw [h] at ha; injection ha with ha; rw [ha]
    exact applyOps_error_class_conv hv hpaths (fun _ _ _ hf => by rw [hc] at hf; cases hf) hm hsize
      (wf_WfB t hw.1) hw.2 hns hops

/-- … and one op on a parsed document: complete agreement, result and error class alike -/
theorem op_agrees {cfg : Cfg} (hv : cfg.validatesValues = true) (hc : cfg.rmvalCanon = true)
    {body : Bytes} {t : Node} {op : Op} (hparse : parse body = .ok t) (hsize : maxCh t < 2 ^ 32)
    (hm : MergeAccepted op) :
    Except.map norm (stepOp cfg t op) = Spec.refOp t op :=
  stepOp_agrees hv hsize (parse_wf hparse).2 (wf_WfB t (parse_wf hparse).1)
    (fun _ hf => by rw [hc] at hf; cases hf) hm

/-- REMOVE_VAL of a container element parsed from the body, and of one spliced in by the same patch -/
example : applyWithCondition good [0x81, 0xa1, 0x74, 0x91, 0x91, 0x01] [⟨.removeVal, [0x74], [0x91, 0x01]⟩] none
      = .ok [0x81, 0xa1, 0x74, 0x90] ∧
    applyWithCondition good [0x81, 0xa1, 0x74, 0x90]
      [⟨.append, [0x74, 0x5b, 0x5d], [0xdc, 0x00, 0x01, 0x01]⟩, ⟨.removeVal, [0x74], [0x91, 0x01]⟩] none
      = .ok [0x81, 0xa1, 0x74, 0x90] := by decide

/-- REMOVE_VAL takes the FIRST match only: `{"t":[1,2,1]}`, REMOVE_VAL t ← 1 gives `[2,1]` in the Spec and
    in the model.  (A loop that drops every match — `[2]` — is the separate finding
    C13-removeval-all-matches; the extractor reads the first-match shape from the syntax tree and
    answers `unknown` for anything else.) -/
example : Spec.refOps (.map [([0x74], .arr [.leaf [1], .leaf [2], .leaf [1]])]) [⟨.removeVal, [0x74], [1]⟩]
      = .ok (.map [([0x74], .arr [.leaf [2], .leaf [1]])]) ∧
    applyWithCondition good [0x81, 0xa1, 0x74, 0x93, 1, 2, 1] [⟨.removeVal, [0x74], [1]⟩] none
      = .ok [0x81, 0xa1, 0x74, 0x92, 2, 1] := ⟨by rfl, by decide⟩

/-- the Spec is executable: `{"t":[1]}`, SET x ← "y", APPEND t[] ← 2, INC t[-1] by 5 (int8 delta on a
    fixint: class mismatch is an error; uint delta works and widens per the rule) -/
example : Spec.refOps (.map [([0x74], .arr [.leaf [1]])])
    [⟨.set, [0x78], [0xa1, 0x79]⟩, ⟨.append, [0x74, 0x5b, 0x5d], [0x02]⟩, ⟨.inc, [0x74, 0x5b, 0x2d, 0x31, 0x5d], [0x05]⟩]
    = .ok (.map [([0x74], .arr [.leaf [1], .leaf [0xcf, 0, 0, 0, 0, 0, 0, 0, 7]]), ([0x78], .leaf [0xa1, 0x79])]) := by
  rfl

/-! ## 4. a failing op or an unmet condition leaves the body unchanged -/

theorem ops_atomic (cfg : Cfg) (body : Bytes) (ops : List Op) (cond : Option Condition) (e : Err)
    (h : applyWithCondition cfg body ops cond = .error e) : bodyAfter cfg body ops cond = body := by
  unfold bodyAfter; rw [h]

/-- the op loop stops at the first failing op, whatever came before and comes after -/
theorem ops_atomic_fold (cfg : Cfg) : ∀ (pre : List Op) (t t1 : Node) (op : Op) (post : List Op) (e : Err),
    applyOps cfg t pre = .ok t1 → stepOp cfg t1 op = .error e →
    applyOps cfg t (pre ++ op :: post) = .error e
  | [], t, t1, op, post, e, h1, h2 => by
    rw [applyOps] at h1; injection h1 with h1; subst h1
    rw [List.nil_append, applyOps, h2]
  | p :: pre, t, t1, op, post, e, h1, h2 => by
    rw [applyOps] at h1
    rw [List.cons_append, applyOps]
    cases hs : stepOp cfg t p with
    | error e' => rw [hs] at h1; cases h1
    | ok t' =>
      rw [hs] at h1; simp only at h1 ⊢
      exact ops_atomic_fold cfg pre t' t1 op post e h1 h2

/-- an unmet (or failing) condition: no op runs, the call fails -/
theorem cond_unmet (cfg : Cfg) (body : Bytes) (t : Node) (ops : List Op) (c : Condition) (e : Err)
    (hp : parse body = .ok t) (hc : evalCond cfg t c = .error e) :
    applyWithCondition cfg body ops (some c) = .error e ∧ bodyAfter cfg body ops (some c) = body := by
  have : applyWithCondition cfg body ops (some c) = .error e := by
    unfold applyWithCondition; rw [hp]; simp only; rw [hc]
  exact ⟨this, ops_atomic _ _ _ _ _ this⟩

example : applyWithCondition good [0x81, 0xa1, 0x78, 0x01]
    [⟨.set, [0x79], [0x02]⟩, ⟨.inc, [0x78], [0xa1, 0x61]⟩] none = .error .type := by decide

/-- the condition (if any) holds on the parsed body -/
def CondMet (cfg : Cfg) (t : Node) : Option Condition → Prop
  | none => True
  | some c => evalCond cfg t c = .ok ()

/-- Atomicity of the whole call: however many ops have already succeeded — and although that
    prefix on its own WOULD have produced a different body (`serialize t1`) — the first failing op
    makes the call fail with that op's error and the caller keeps the ORIGINAL body bytes. -/
theorem atomic_fold (cfg : Cfg) (body : Bytes) (t t1 : Node) (pre : List Op) (op : Op) (post : List Op)
    (cond : Option Condition) (e : Err)
    (hp : parse body = .ok t) (hc : CondMet cfg t cond)
    (hpre : applyOps cfg t pre = .ok t1) (hop : stepOp cfg t1 op = .error e) :
    applyWithCondition cfg body pre cond = .ok (serialize t1) ∧
    applyWithCondition cfg body (pre ++ op :: post) cond = .error e ∧
    bodyAfter cfg body (pre ++ op :: post) cond = body := by
  have hfold := ops_atomic_fold cfg pre t t1 op post e hpre hop
  have h1 : applyWithCondition cfg body pre cond = .ok (serialize t1) := by
    unfold applyWithCondition; rw [hp]; simp only
    cases cond with
    | none => simp only; rw [hpre]
    | some c => simp only; rw [show evalCond cfg t c = .ok () from hc]; simp only; rw [hpre]
  have h2 : applyWithCondition cfg body (pre ++ op :: post) cond = .error e := by
    unfold applyWithCondition; rw [hp]; simp only
    cases cond with
    | none => simp only; rw [hfold]
    | some c => simp only; rw [show evalCond cfg t c = .ok () from hc]; simp only; rw [hfold]
  exact ⟨h1, h2, ops_atomic _ _ _ _ _ h2⟩

/-- non-vacuity: SET y ← 2 alone changes the body; followed by a failing INC the body is kept -/
example : bodyAfter good [0x81, 0xa1, 0x78, 0x01] [⟨.set, [0x79], [0x02]⟩] none
      = [0x82, 0xa1, 0x78, 0x01, 0xa1, 0x79, 0x02] ∧
    bodyAfter good [0x81, 0xa1, 0x78, 0x01]
      [⟨.set, [0x79], [0x02]⟩, ⟨.inc, [0x78], [0xa1, 0x61]⟩, ⟨.delete, [0x78], []⟩] none
      = [0x81, 0xa1, 0x78, 0x01] := by decide

/-! ## 5. INC keeps the target's numeric format -/

/-- the code's actual rule (fact `incFixint = widen64`): a target with a width of its own keeps
    code and width (int8 stays int8 and wraps, float32 stays float32); a fixint target, which has
    none, becomes uint64 / int64; the numeric class never changes -/
theorem inc_preserves_code {code : UInt8} {cls : NumClass} {t d : Nat} {nr : Bytes}
    (hc : classOf code = cls) (h : computeInc code cls t d = .ok nr) :
    (∀ k, typedWidth code = some k → nr.head? = some code ∧ nr.length = k + 1) ∧
    (typedWidth code = none → nr.length = 9 ∧
      ((cls = .int ∧ nr.head? = some 0xd3) ∨ (cls = .uint ∧ nr.head? = some 0xcf))) ∧
    classOf (nr.headD 0) = cls :=
  Hv.Patch.inc_preserves_code hc h

/-- at the op level: a successful INC whose path resolves to an existing leaf leaves, at that very
    position, a leaf with the target's format code and width (fixint: the 64-bit code of its
    class) and the same numeric class — also when that leaf was replaced earlier in the patch -/
theorem inc_keeps_format {cfg : Cfg} {t t' : Node} {op : Op} {segs : List Seg} {p : List Nat} {i : Nat}
    {raw : Bytes} (hk : op.kind = .inc) (h : applyOp cfg t op segs = .ok t')
    (hres : Spec.resolve segs t = .ok (p, .target i)) (hleaf : getAt t (p ++ [i]) = some (.leaf raw)) :
    ∃ nr, getAt t' (p ++ [i]) = some (.leaf nr) ∧
      (∀ k, typedWidth (raw.headD 0) = some k → nr.head? = some (raw.headD 0) ∧ nr.length = k + 1) ∧
      (typedWidth (raw.headD 0) = none → nr.length = 9 ∧ (nr.head? = some 0xd3 ∨ nr.head? = some 0xcf)) ∧
      classOf (nr.headD 0) = classOf (raw.headD 0) :=
  applyOp_inc_code hk h hres hleaf

/-- SET x ← uint16 256, then INC x by 1: stays uint16 -/
example : applyWithCondition good [0x81, 0xa1, 0x78, 0x01]
    [⟨.set, [0x78], [0xcd, 0x01, 0x00]⟩, ⟨.inc, [0x78], [0x01]⟩] none
    = .ok [0x81, 0xa1, 0x78, 0xcd, 0x01, 0x01] := by decide

example : computeInc 0xd0 .int 0x7f 1 = .ok [0xd0, 0x80] := by decide          -- int8 127+1 wraps
example : computeInc 0x05 .uint 5 2 = .ok [0xcf, 0, 0, 0, 0, 0, 0, 0, 7] := by decide

/-! ## 6. comparisons follow numeric order; NaN -/

/-- within each numeric class the comparison is the order of the decoded values -/
theorem cond_numeric (cfg : Cfg) :
    (∀ a b av bv, readNumeric a = .ok (.int, av) → readNumeric b = .ok (.int, bv) →
      compareLeaf cfg a b = .ok (cmpInt (toInt64 av) (toInt64 bv))) ∧
    (∀ a b av bv, readNumeric a = .ok (.uint, av) → readNumeric b = .ok (.uint, bv) →
      compareLeaf cfg a b = .ok (cmpInt av bv)) ∧
    (∀ a b av bv x y, readNumeric a = .ok (.float, av) → readNumeric b = .ok (.float, bv) →
      (f64Val av).key = some x → (f64Val bv).key = some y → f64IsNaN av = false → f64IsNaN bv = false →
      compareLeaf cfg a b = .ok (cmpInt x y)) ∧
    (∀ x y : Int, (cmpInt x y = -1 ↔ x < y) ∧ (cmpInt x y = 0 ↔ x = y) ∧ (cmpInt x y = 1 ↔ y < x)) :=
  ⟨fun _ _ _ _ ha hb => compareLeaf_int ha hb, fun _ _ _ _ ha hb => compareLeaf_uint ha hb,
   fun _ _ _ _ _ _ ha hb hx hy hna hnb => compareLeaf_float ha hb hx hy hna hnb,
   fun x y => ⟨cmpInt_lt x y, cmpInt_eq x y, cmpInt_gt x y⟩⟩

/-- NaN is equal to nothing -/
def NanEqualNothing (cfg : Cfg) : Prop :=
  ∀ a b ac bc av bv, readNumeric a = .ok (ac, av) → readNumeric b = .ok (bc, bv) →
    ((ac = .float ∧ f64IsNaN av = true) ∨ (bc = .float ∧ f64IsNaN bv = true)) →
    compareLeaf cfg a b ≠ .ok 0

theorem nan_equal_nothing {cfg : Cfg} (hn : cfg.nan = .neverEqual) : NanEqualNothing cfg :=
  fun _ _ _ _ _ _ ha hb hnan => nan_not_comparable hn ha hb hnan 0

/-- a NaN leaf exists and is recognised -/
example : readNumeric [0xcb, 0x7f, 0xf8, 0, 0, 0, 0, 0, 0] = .ok (.float, 0x7ff8000000000000) ∧
    f64IsNaN 0x7ff8000000000000 = true := by decide

/-! ## 7. the full statement -/

/-- the part that holds for every fact value -/
structure Common (cfg : Cfg) : Prop where
  round_trip_exact : ∀ b t, parseStrict b = .ok t → serialize t = b ∧ parse b = .ok t
  round_trip : ∀ b t, parse b = .ok t → parse (serialize t) = .ok t
  /-- untouched: off the resolved container everything is identical; inside it every child but the
      target keeps its sub-tree at the index `movedTo` gives (covers one-segment paths) -/
  untouched : ∀ t t' op segs p hit, applyOp cfg t op segs = .ok t' → Spec.resolve segs t = .ok (p, hit) →
    (∀ q, Diverge p q → getAt t' q = getAt t q) ∧
    (∀ j j' r x, movedTo op.kind hit j = some j' → getAt t (p ++ j :: r) = some x →
      getAt t' (p ++ j' :: r) = some x)
  /-- … and such a leaf's bytes are a slice of the input and appear verbatim in the output -/
  untouched_leaf : ∀ body t t' op segs q raw, parse body = .ok t → applyOp cfg t op segs = .ok t' →
    Diverge (sitePos segs t) q → getAt t q = some (.leaf raw) →
    raw <:+: body ∧ getAt t' q = some (.leaf raw) ∧ raw <:+: serialize t'
  /-- inside a MERGE target: fields the value does not name keep value and index -/
  merge_keeps : ∀ (pf : List (Bytes × Bytes)) (fs : Fields) (j : Nat) (k : Bytes) (c : Node),
    fs[j]? = some (k, c) → (∀ kv ∈ pf, kv.1 ≠ k) → (mergeInto fs pf)[j]? = some (k, c)
  /-- inside a REMOVE_VAL target: at most one element goes, order is kept -/
  removeVal_keeps : ∀ (c : Bool) (v : Bytes) (xs : List Node), (rmVal c v xs).Sublist xs
  /-- atomicity: after any successful prefix, the first failing op fails the call and the caller
      keeps the original bytes (the prefix alone would have changed them) -/
  atomic : ∀ body t t1 pre op post cond e, parse body = .ok t → CondMet cfg t cond →
    applyOps cfg t pre = .ok t1 → stepOp cfg t1 op = .error e →
    applyWithCondition cfg body pre cond = .ok (serialize t1) ∧
    applyWithCondition cfg body (pre ++ op :: post) cond = .error e ∧
    bodyAfter cfg body (pre ++ op :: post) cond = body
  /-- an unmet / failing condition: nothing runs -/
  cond_unmet : ∀ body t ops c e, parse body = .ok t → evalCond cfg t c = .error e →
    applyWithCondition cfg body ops (some c) = .error e ∧ bodyAfter cfg body ops (some c) = body
  /-- INC at the op level keeps the target's format code / width / class -/
  inc_code : ∀ t t' op segs p i raw, op.kind = .inc → applyOp cfg t op segs = .ok t' →
    Spec.resolve segs t = .ok (p, .target i) → getAt t (p ++ [i]) = some (.leaf raw) →
    ∃ nr, getAt t' (p ++ [i]) = some (.leaf nr) ∧
      (∀ k, typedWidth (raw.headD 0) = some k → nr.head? = some (raw.headD 0) ∧ nr.length = k + 1) ∧
      (typedWidth (raw.headD 0) = none → nr.length = 9 ∧ (nr.head? = some 0xd3 ∨ nr.head? = some 0xcf)) ∧
      classOf (nr.headD 0) = classOf (raw.headD 0)
  order_int : ∀ a b av bv, readNumeric a = .ok (.int, av) → readNumeric b = .ok (.int, bv) →
    compareLeaf cfg a b = .ok (cmpInt (toInt64 av) (toInt64 bv))
  order_uint : ∀ a b av bv, readNumeric a = .ok (.uint, av) → readNumeric b = .ok (.uint, bv) →
    compareLeaf cfg a b = .ok (cmpInt av bv)
  order_float : ∀ a b av bv x y, readNumeric a = .ok (.float, av) → readNumeric b = .ok (.float, bv) →
    (f64Val av).key = some x → (f64Val bv).key = some y → f64IsNaN av = false → f64IsNaN bv = false →
    compareLeaf cfg a b = .ok (cmpInt x y)

/-- "a reported success always leaves a well-formed body" -/
def SuccessWf (cfg : Cfg) : Prop :=
  ∀ body ops cond out t, parse body = .ok t → (∀ op ∈ ops, op.path.length < 2 ^ 32) →
    maxCh t + totalGrowth cfg ops < 2 ^ 32 → applyWithCondition cfg body ops cond = .ok out →
    wf out = true

/-- the same, restricted to op lists whose spliced values are valid -/
def SuccessWfPartial (cfg : Cfg) : Prop :=
  ∀ body ops cond out t, parse body = .ok t → (∀ op ∈ ops, op.path.length < 2 ^ 32) →
    (∀ op ∈ ops, ValueOk op) →
    maxCh t + totalGrowth (validating cfg) ops < 2 ^ 32 → applyWithCondition cfg body ops cond = .ok out →
    wf out = true

/-- "a patch produces exactly the document the documented operation semantics describe":
    parsing the returned body gives `Spec.refOps` of the parsed input body — all eight ops -/
def RefinesSpec (cfg : Cfg) : Prop :=
  ∀ body ops cond out t, parse body = .ok t → (∀ op ∈ ops, op.path.length < 2 ^ 32) →
    maxCh t + totalGrowth cfg ops < 2 ^ 32 → applyWithCondition cfg body ops cond = .ok out →
    ∃ d, Spec.refOps t ops = .ok d ∧ parse out = .ok d

/-- "… and fails the way the documented semantics fail": a documented failure of class `c` is a
    failure of class `c` of the code (MERGE values the code accepts; no op after a same-patch splice) -/
def ErrorClassAgrees (cfg : Cfg) : Prop :=
  ∀ body ops cond t c, parse body = .ok t →
    (match cond with | none => Except.ok () | some cd => evalCond cfg t cd) = .ok () →
    (∀ op ∈ ops, op.path.length < 2 ^ 32) → (∀ op ∈ ops, MergeAccepted op) →
    maxCh t + totalGrowth cfg ops < 2 ^ 32 → NoSplice cfg t ops →
    Spec.refOps t ops = .error c → applyWithCondition cfg body ops cond = .error c

/-- the same, restricted to op lists whose spliced values are valid -/
def RefinesSpecPartial (cfg : Cfg) : Prop :=
  ∀ body ops cond out t, parse body = .ok t → (∀ op ∈ ops, op.path.length < 2 ^ 32) →
    (∀ op ∈ ops, RemoveValScalar cfg op) → (∀ op ∈ ops, ValueOk op) →
    maxCh t + totalGrowth (validating cfg) ops < 2 ^ 32 → applyWithCondition cfg body ops cond = .ok out →
    ∃ d, Spec.refOps t ops = .ok d ∧ parse out = .ok d

/-- full-strength statement of the property on the model -/
def Holds (cfg : Cfg) : Prop :=
  Common cfg ∧ SuccessWf cfg ∧ NanEqualNothing cfg ∧ RefinesSpec cfg ∧ ErrorClassAgrees cfg

/-- what remains true while the findings stand -/
def HoldsExcept (cfg : Cfg) : Prop := Common cfg ∧ SuccessWfPartial cfg ∧ RefinesSpecPartial cfg

theorem common (cfg : Cfg) : Common cfg where
  round_trip_exact := fun _ _ h => parse_serialize h
  round_trip := fun _ _ h => parse_serialize_structural h
  untouched := fun _ _ _ _ _ _ h hres => untouched_target h hres
  untouched_leaf := fun _ _ _ _ _ _ _ hp h hq hl => untouched_leaf_bytes hp h hq hl
  merge_keeps := mergeInto_keeps
  removeVal_keeps := rmVal_sublist
  atomic := fun body t t1 pre op post cond e hp hc hpre hop => atomic_fold cfg body t t1 pre op post cond e hp hc hpre hop
  cond_unmet := fun body t ops c e hp hc => cond_unmet cfg body t ops c e hp hc
  inc_code := fun _ _ _ _ _ _ _ hk h hres hl => inc_keeps_format hk h hres hl
  order_int := (cond_numeric cfg).1
  order_uint := (cond_numeric cfg).2.1
  order_float := (cond_numeric cfg).2.2.1

theorem applyWithCondition_validating {cfg : Cfg} {body : Bytes} {ops : List Op} {cond : Option Condition}
    {t : Node} (hparse : parse body = .ok t) (hvals : ∀ op ∈ ops, ValueOk op) :
    applyWithCondition cfg body ops cond = applyWithCondition (validating cfg) body ops cond := by
  unfold applyWithCondition
  rw [hparse]; simp only
  cases cond with
  | none => simp only; rw [applyOps_validating ops t hvals]
  | some c => simp only; rw [evalCond_validating, applyOps_validating ops t hvals]

/-- `_partial` of the refinement for the unrepaired code: valid spliced values only -/
theorem apply_refines_spec_unvalidated_partial {cfg : Cfg}
    {body : Bytes} {ops : List Op} {cond : Option Condition} {out : Bytes} {t : Node}
    (hparse : parse body = .ok t) (hpaths : ∀ op ∈ ops, op.path.length < 2 ^ 32)
    (hrv : ∀ op ∈ ops, RemoveValScalar cfg op) (hvals : ∀ op ∈ ops, ValueOk op)
    (hsize : maxCh t + totalGrowth (validating cfg) ops < 2 ^ 32)
    (h : applyWithCondition cfg body ops cond = .ok out) :
    ∃ d, Spec.refOps t ops = .ok d ∧ parse out = .ok d := by
  rw [applyWithCondition_validating hparse hvals] at h
  exact applyWithCondition_refines (cfg := validating cfg) rfl hparse hpaths hrv hsize h

theorem holds_of_good {cfg : Cfg} (hv : cfg.validatesValues = true) (hn : cfg.nan = .neverEqual)
    (hc : cfg.rmvalCanon = true) : Holds cfg :=
  ⟨common cfg, fun _ _ _ _ _ hp hpaths hsize h => apply_wf hv hp hpaths hsize h, nan_equal_nothing hn,
   fun _ _ _ _ _ hp hpaths hsize h => apply_refines_spec hv hc hp hpaths hsize h,
   fun _ _ _ _ _ hp hcond hpaths hm hsize hns h => apply_error_class hv hc hp hcond hpaths hm hsize hns h⟩

theorem holds_except (cfg : Cfg) : HoldsExcept cfg :=
  ⟨common cfg, fun _ _ _ _ _ hp hpaths hvals hsize h => apply_wf_partial hp hpaths hvals hsize h,
   fun _ _ _ _ _ hp hpaths hrv hvals hsize h => apply_refines_spec_unvalidated_partial hp hpaths hrv hvals hsize h⟩

/-! ## 8. witnesses for the unrepaired fact values (each reproduced on the real code) -/

/-- `{"x": 1}`, `SET x ← 0xc1`: success, and the stored body no longer parses -/
theorem witness_unvalidated (n : NanRule) (fx : FixintRule) (rc : Bool) :
    applyWithCondition ⟨false, n, fx, rc⟩ [0x81, 0xa1, 0x78, 0x01] [⟨.set, [0x78], [0xc1]⟩] none
      = .ok [0x81, 0xa1, 0x78, 0xc1] ∧
    wf [0x81, 0xa1, 0x78, 0xc1] = false := by
  cases n <;> cases fx <;> cases rc <;> decide

/-- the repaired code rejects it -/
theorem witness_unvalidated_fixed :
    applyWithCondition good [0x81, 0xa1, 0x78, 0x01] [⟨.set, [0x78], [0xc1]⟩] none
      = .error .msgpack := by decide

def nanLeaf : Bytes := [0xcb, 0x7f, 0xf8, 0, 0, 0, 0, 0, 0]

/-- `{"f": NaN}`, condition `f EQUAL NaN`: met -/
theorem witness_nan_equal (v : Bool) (fx : FixintRule) (rc : Bool) :
    compareLeaf ⟨v, .equal, fx, rc⟩ nanLeaf nanLeaf = .ok 0 ∧
    applyWithCondition ⟨v, .equal, fx, rc⟩ (0x81 :: 0xa1 :: 0x66 :: nanLeaf) [] (some ⟨[0x66], .eq, nanLeaf⟩)
      = .ok (0x81 :: 0xa1 :: 0x66 :: nanLeaf) := by
  cases v <;> cases fx <;> cases rc <;> decide

theorem witness_nan_fixed :
    applyWithCondition good (0x81 :: 0xa1 :: 0x66 :: nanLeaf) []
      (some ⟨[0x66], .eq, nanLeaf⟩) = .error .type := by decide

theorem not_successWf_of_unvalidated (n : NanRule) (fx : FixintRule) (rc : Bool) :
    ¬ SuccessWf ⟨false, n, fx, rc⟩ := by
  intro h
  have hw := witness_unvalidated n fx rc
  have := h [0x81, 0xa1, 0x78, 0x01] [⟨.set, [0x78], [0xc1]⟩] none [0x81, 0xa1, 0x78, 0xc1]
    (.map [([0x78], .leaf [0x01])]) (by rfl) (by decide) (by cases n <;> cases fx <;> cases rc <;> decide) hw.1
  rw [hw.2] at this
  cases this

theorem not_nanEqualNothing_of_equal (v : Bool) (fx : FixintRule) (rc : Bool) :
    ¬ NanEqualNothing ⟨v, .equal, fx, rc⟩ := by
  intro h
  exact h nanLeaf nanLeaf .float .float 0x7ff8000000000000 0x7ff8000000000000 (by decide) (by decide)
    (Or.inl ⟨rfl, by decide⟩) (witness_nan_equal v fx rc).1

/-- `{"t": [[1]]}`, `REMOVE_VAL t ← [1]`: the documented semantics remove the element, the
    unrepaired code (scalar leaves only) reports success and leaves the body as it was -/
theorem witness_removeVal_container (v : Bool) (n : NanRule) (fx : FixintRule) :
    applyWithCondition ⟨v, n, fx, false⟩ [0x81, 0xa1, 0x74, 0x91, 0x91, 0x01]
      [⟨.removeVal, [0x74], [0x91, 0x01]⟩] none = .ok [0x81, 0xa1, 0x74, 0x91, 0x91, 0x01] ∧
    Spec.refOps (.map [([0x74], .arr [.arr [.leaf [0x01]]])]) [⟨.removeVal, [0x74], [0x91, 0x01]⟩]
      = .ok (.map [([0x74], .arr [])]) := by
  constructor
  · cases v <;> cases n <;> cases fx <;> decide
  · rfl

theorem not_refinesSpec_of_scalar (v : Bool) (n : NanRule) (fx : FixintRule) :
    ¬ RefinesSpec ⟨v, n, fx, false⟩ := by
  intro h
  have hw := witness_removeVal_container v n fx
  obtain ⟨d, hd1, hd2⟩ := h [0x81, 0xa1, 0x74, 0x91, 0x91, 0x01] [⟨.removeVal, [0x74], [0x91, 0x01]⟩] none
    [0x81, 0xa1, 0x74, 0x91, 0x91, 0x01] (.map [([0x74], .arr [.arr [.leaf [0x01]]])]) (by rfl) (by decide)
    (by cases v <;> cases n <;> cases fx <;> decide) hw.1
  rw [hw.2] at hd1
  injection hd1 with hd1
  subst hd1
  have hp : parse [0x81, 0xa1, 0x74, 0x91, 0x91, 0x01] = .ok (.map [([0x74], .arr [.arr [.leaf [0x01]]])]) := by rfl
  rw [hp] at hd2
  injection hd2 with hd2
  injection hd2 with hd2
  simp at hd2

/-- RECORDED DEVIATION (`C13-spliced-value-opaque`), not covered by `Holds` (which speaks about
    successes): a container value stored by an op is an opaque leaf for the later ops of the same
    patch.  `SET x ← {"a":1}; SET x.a ← 2` on `{}`: the documented semantics give `{"x":{"a":2}}`, the
    code rejects the patch with TYPE_MISMATCH — and accepts the same two ops sent as two patches. -/
theorem witness_spliced_opaque :
    Spec.refOps (.map []) [⟨.set, [0x78], [0x81, 0xa1, 0x61, 0x01]⟩, ⟨.set, [0x78, 0x2e, 0x61], [0x02]⟩]
      = .ok (.map [([0x78], .map [([0x61], .leaf [0x02])])]) ∧
    applyWithCondition good [0x80]
      [⟨.set, [0x78], [0x81, 0xa1, 0x61, 0x01]⟩, ⟨.set, [0x78, 0x2e, 0x61], [0x02]⟩] none = .error .type ∧
    applyWithCondition good [0x80] [⟨.set, [0x78], [0x81, 0xa1, 0x61, 0x01]⟩] none
      = .ok [0x81, 0xa1, 0x78, 0x81, 0xa1, 0x61, 0x01] ∧
    applyWithCondition good [0x81, 0xa1, 0x78, 0x81, 0xa1, 0x61, 0x01] [⟨.set, [0x78, 0x2e, 0x61], [0x02]⟩] none
      = .ok [0x81, 0xa1, 0x78, 0x81, 0xa1, 0x61, 0x02] := by
  refine ⟨by rfl, by decide, by decide, by decide⟩

/-! ## 9. the PatchFields layer (swamp_patch.go) -/

/-- the body `PatchFields` works on, and whether the call creates the treasure -/
def pfInput (pc : PfCfg) (tr : Treasure) (seed : Bytes) : Option (Bytes × Bool) :=
  match pfBody pc tr (seedOf pc seed) with
  | .ok x => some x
  | .error _ => none

theorem pfBody_ok {pc : PfCfg} {tr : Treasure} {s body : Bytes} {ic : Bool}
    (h : pfBody pc tr s = .ok (body, ic)) : (ic = true ↔ tr.content = .absent) := by
  unfold pfBody at h
  cases hcont : tr.content with
  | absent => rw [hcont] at h; simp only at h; injection h with h; injection h with _ hi; simp [← hi]
  | other => rw [hcont] at h; cases h
  | bytes raw =>
    rw [hcont] at h; simp only at h
    cases raw with
    | nil => cases h
    | cons x r =>
      cases r with
      | nil => cases h
      | cons y bd =>
        simp only at h
        by_cases hxy : x = pc.magic.b0 ∧ y = pc.magic.b1
        · rw [if_pos hxy] at h; injection h with h; injection h with _ hi; simp [← hi]
        · rw [if_neg hxy] at h; cases h

theorem pfBody_err {pc : PfCfg} {tr : Treasure} {s : Bytes} {st : Nat}
    (h : pfBody pc tr s = .error st) : st = 5 ∨ st = 7 := by
  unfold pfBody at h
  cases hcont : tr.content with
  | absent => rw [hcont] at h; cases h
  | other => rw [hcont] at h; simp only at h; injection h with h; exact Or.inl h.symm
  | bytes raw =>
    rw [hcont] at h; simp only at h
    cases raw with
    | nil => injection h with h; exact Or.inr h.symm
    | cons x r =>
      cases r with
      | nil => injection h with h; exact Or.inr h.symm
      | cons y bd =>
        simp only at h
        by_cases hxy : x = pc.magic.b0 ∧ y = pc.magic.b1
        · rw [if_pos hxy] at h; cases h
        · rw [if_neg hxy] at h; injection h with h; exact Or.inr h.symm

theorem pfGate_ok {pc : PfCfg} {tr : Treasure} {create : Bool} {seed body : Bytes} {ic : Bool}
    (h : pfGate pc tr create seed = .ok (body, ic)) :
    pfInput pc tr seed = some (body, ic) ∧ (ic = true → create = true) ∧ (ic = true ↔ tr.content = .absent) := by
  unfold pfGate at h
  by_cases c1 : (!create && decide (tr.content = .absent)) = true
  · rw [if_pos c1] at h; cases h
  · rw [if_neg c1] at h
    by_cases c2 : (create && !seedOk pc (seedOf pc seed)) = true
    · rw [if_pos c2] at h; cases h
    · rw [if_neg c2] at h
      have hb := pfBody_ok h
      refine ⟨by unfold pfInput; rw [h], fun hi => ?_, hb⟩
      have habs := hb.mp hi
      cases create with
      | true => rfl
      | false => simp [habs] at c1

/-- "Non-map seeds yield TYPE_MISMATCH": when the code checks it, a treasure is only ever created
    from a msgpack map (the given seed, or the default one) -/
theorem pfGate_created_map {pc : PfCfg} (hsm : pc.seedMustBeMap = true) {tr : Treasure} {create : Bool}
    {seed body : Bytes} (h : pfGate pc tr create seed = .ok (body, true)) : isMapBody body = true := by
  have hc := (pfGate_ok h).2.1 rfl
  have habs := (pfGate_ok h).2.2.mp rfl
  unfold pfGate at h
  by_cases c1 : (!create && decide (tr.content = .absent)) = true
  · rw [if_pos c1] at h; cases h
  · rw [if_neg c1] at h
    by_cases c2 : (create && !seedOk pc (seedOf pc seed)) = true
    · rw [if_pos c2] at h; cases h
    · rw [if_neg c2] at h
      unfold pfBody at h
      rw [habs] at h
      simp only [Except.ok.injEq, Prod.mk.injEq] at h
      rw [← h.1]
      simp [hc, seedOk, hsm] at c2
      exact c2.2

/-- the unchecked seed: `PatchFields(key, no ops, CreateIfNotExist, seed = 0x01)` on a missing key
    reports CREATED and stores the integer 1 as the treasure's body -/
theorem witness_nonmap_seed (pc : PfCfg) (hsm : pc.seedMustBeMap = false) :
    (patchFieldsT pc Treasure.empty [] none true [0x01] none).status = 1 ∧
    pfGate pc Treasure.empty true [0x01] = .ok ([0x01], true) ∧ isMapBody [0x01] = false := by
  have hg : pfGate pc Treasure.empty true [0x01] = .ok ([0x01], true) := by
    simp [pfGate, seedOk, hsm, seedOf, pfBody, Treasure.empty]
    decide
  refine ⟨?_, hg, by decide⟩
  unfold patchFieldsT
  rw [hg]
  have : applyWithCondition pc.cfg [0x01] [] none = .ok [0x01] := by
    unfold applyWithCondition
    have hp : parse [0x01] = .ok (.leaf [0x01]) := by rfl
    rw [hp]
    simp [applyOps]
    rfl
  simp only [this]
  rfl

theorem pfGate_err {pc : PfCfg} {tr : Treasure} {create : Bool} {seed : Bytes} {s : Nat}
    (h : pfGate pc tr create seed = .error s) : s = 2 ∨ s = 5 ∨ s = 7 := by
  unfold pfGate at h
  by_cases c1 : (!create && decide (tr.content = .absent)) = true
  · rw [if_pos c1] at h; injection h with h; exact Or.inl h.symm
  · rw [if_neg c1] at h
    by_cases c2 : (create && !seedOk pc (seedOf pc seed)) = true
    · rw [if_pos c2] at h; injection h with h; exact Or.inr (Or.inl h.symm)
    · rw [if_neg c2] at h; exact Or.inr (pfBody_err h)

/-- Reply status and stored body of `PatchFields` against the Spec.
    * PATCHED / CREATED are reported exactly when the patch applied to the stored body behind the
      two-byte prefix (or, for a missing key with CreateIfNotExist, to the seed / the empty map);
      the treasure then holds prefix ++ body, `NewMsgpack` echoes that body, the body parses to
      `Spec.refOps` of the parsed input, CREATED ⇔ the key was missing, and the meta fields are
      stamped per `applyMeta` (Created* only on create, ClearExpiredAt over SetExpiredAt).
    * every other status leaves the treasure exactly as it was and echoes nothing; a failing op or
      condition reports the documented status of its error class. -/
theorem patchFields_refines (pc : PfCfg) (hv : pc.cfg.validatesValues = true) (hc : pc.cfg.rmvalCanon = true)
    (hm : pc.smap = documentedMap) (tr : Treasure) (ops : List Op) (cond : Option Condition)
    (create : Bool) (seed : Bytes) (m : Option PatchMeta) :
    ((patchFieldsT pc tr ops cond create seed m).status ≠ 0 ∧ (patchFieldsT pc tr ops cond create seed m).status ≠ 1 →
      (patchFieldsT pc tr ops cond create seed m).treasure = tr ∧
      (patchFieldsT pc tr ops cond create seed m).newBody = none) ∧
    ((patchFieldsT pc tr ops cond create seed m).status = 0 ∨ (patchFieldsT pc tr ops cond create seed m).status = 1 →
      ∃ body isCreate out t, pfInput pc tr seed = some (body, isCreate) ∧ parse body = .ok t ∧
        (isCreate = true → create = true) ∧ (isCreate = true ↔ tr.content = .absent) ∧
        ((patchFieldsT pc tr ops cond create seed m).status = 1 ↔ isCreate = true) ∧
        applyWithCondition pc.cfg body ops cond = .ok out ∧
        (patchFieldsT pc tr ops cond create seed m).newBody = some out ∧
        (patchFieldsT pc tr ops cond create seed m).treasure =
          applyMeta m isCreate { tr with content := .bytes (pc.magic.b0 :: pc.magic.b1 :: out) } ∧
        ((∀ op ∈ ops, op.path.length < 2 ^ 32) → maxCh t + totalGrowth pc.cfg ops < 2 ^ 32 →
          ∃ d, Spec.refOps t ops = .ok d ∧ parse out = .ok d)) ∧
    (∀ body isCreate e, pfGate pc tr create seed = .ok (body, isCreate) →
      applyWithCondition pc.cfg body ops cond = .error e →
      (patchFieldsT pc tr ops cond create seed m).status = documentedMap.of e) := by
  have hstat : ∀ e, pc.smap.of e ≠ 0 ∧ pc.smap.of e ≠ 1 := by
    intro e; rw [hm]; cases e <;> decide
  unfold patchFieldsT
  cases hg : pfGate pc tr create seed with
  | error s =>
    simp only
    have hs := pfGate_err hg
    refine ⟨fun _ => by simp, fun h => ?_, fun _ _ _ h => by cases h⟩
    rcases hs with rfl | rfl | rfl <;> simp at h
  | ok bi =>
    obtain ⟨body, ic⟩ := bi
    simp only
    cases ha : applyWithCondition pc.cfg body ops cond with
    | error e =>
      simp only
      refine ⟨fun _ => by simp, fun h => ?_, fun b i e' h1 h2 => ?_⟩
      · have := hstat e; rcases h with h | h
        · exact absurd h this.1
        · exact absurd h this.2
      · injection h1 with h1; injection h1 with hb hi; subst hb hi
        rw [ha] at h2; injection h2 with h2; subst h2
        rw [hm]
    | ok out =>
      simp only
      obtain ⟨hin, hcr, habs⟩ := pfGate_ok hg
      have hparse : ∃ t, parse body = .ok t := by
        unfold applyWithCondition at ha
        cases hp : parse body with
        | error e => rw [hp] at ha; cases ha
        | ok t => exact ⟨t, rfl⟩
      obtain ⟨t, ht⟩ := hparse
      refine ⟨fun h => ?_, fun _ => ⟨body, ic, out, t, hin, ht, hcr, habs, ?_, ha, rfl, rfl, ?_⟩,
        fun b i e' h1 h2 => ?_⟩
      · cases ic <;> simp at h
      · cases ic <;> simp
      · intro hpaths hsize
        exact apply_refines_spec hv hc ht hpaths hsize ha
      · injection h1 with h1; injection h1 with hb hi; subst hb hi
        rw [ha] at h2; cases h2

/-- non-vacuity: create with a seed, INC, and meta -/
example : patchFieldsT ⟨good, ⟨0xc7, 0x00⟩, documentedMap, [0x80], true⟩ Treasure.empty
      [⟨.inc, [0x78], [0x02]⟩] none true [0x81, 0xa1, 0x78, 0x01]
      (some ⟨true, [0x62], true, [], some 1900000000000000000, false⟩)
    = ⟨1, ⟨.bytes [0xc7, 0x00, 0x81, 0xa1, 0x78, 0xcf, 0, 0, 0, 0, 0, 0, 0, 3], 1900000000000000000, true, [0x62], true, []⟩,
       some [0x81, 0xa1, 0x78, 0xcf, 0, 0, 0, 0, 0, 0, 0, 3]⟩ := by decide

/-! ## 10. decision over the extracted facts -/

inductive DupRule where
  | first | unknown
  deriving DecidableEq, Repr

/-- which array elements `applyRemoveVal` compares -/
inductive RmvalRule where
  | scalarBytes   -- `if item.Kind != KindLeaf { continue }`: leaves only, raw bytes   [bb38e3b]
  | canonical     -- every element, by its canonical encoding (`elementBytes` / `canonicalValue`)
  | unknown
  deriving DecidableEq, Repr

structure Facts where
  validatesValues : Tri
  nanCompare : NanRule
  incFixint : FixintRule
  dupKey : DupRule
  removeValCompare : RmvalRule
  magic0 : Option Nat
  magic1 : Option Nat
  stCond : Option Nat
  stType : Option Nat
  stPath : Option Nat
  stOp : Option Nat
  stMsgpack : Option Nat
  stNonstr : Option Nat
  seedDefault : Option Nat
  /-- Go const blocks of `OpKind` / `CondOp` in iota order; the proto enums by number (hydraide.pb.go);
      how gateway_patch.go converts the wire number -/
  opOrder : Option (List OpKind)
  condOrder : Option (List CondOp)
  protoOps : Option (List OpKind)
  protoConds : Option (List CondOp)
  wireConv : WireConv
  /-- does `PatchFields` reject a CreateIfNotExist seed that is not a msgpack map -/
  seedMapCheck : Tri
  deriving Repr

def cfgOf (f : Facts) : Cfg :=
  { validatesValues := f.validatesValues.isYes, nan := f.nanCompare, fixint := f.incFixint,
    rmvalCanon := f.removeValCompare == .canonical }

def smapOf (f : Facts) : StatusMap :=
  ⟨f.stCond.getD 99, f.stType.getD 99, f.stPath.getD 99, f.stOp.getD 99, f.stMsgpack.getD 99, f.stNonstr.getD 99⟩

def pfOf (f : Facts) : PfCfg :=
  ⟨cfgOf f, ⟨UInt8.ofNat (f.magic0.getD 0), UInt8.ofNat (f.magic1.getD 0)⟩, smapOf f, [UInt8.ofNat (f.seedDefault.getD 0)],
   f.seedMapCheck.isYes⟩

def wireOf (f : Facts) : WireCfg :=
  ⟨f.opOrder.getD [], f.condOrder.getD [], f.protoOps.getD [], f.protoConds.getD [], f.wireConv⟩

/-- the PatchFields layer: documented status mapping, and reply / stored body = Spec -/
def PFHolds (pc : PfCfg) : Prop :=
  pc.smap = documentedMap ∧
  ∀ tr ops cond create seed m,
    ((patchFieldsT pc tr ops cond create seed m).status ≠ 0 ∧ (patchFieldsT pc tr ops cond create seed m).status ≠ 1 →
      (patchFieldsT pc tr ops cond create seed m).treasure = tr ∧
      (patchFieldsT pc tr ops cond create seed m).newBody = none) ∧
    ((patchFieldsT pc tr ops cond create seed m).status = 0 ∨ (patchFieldsT pc tr ops cond create seed m).status = 1 →
      ∃ body isCreate out t, pfInput pc tr seed = some (body, isCreate) ∧ parse body = .ok t ∧
        (isCreate = true → create = true) ∧ (isCreate = true ↔ tr.content = .absent) ∧
        ((patchFieldsT pc tr ops cond create seed m).status = 1 ↔ isCreate = true) ∧
        applyWithCondition pc.cfg body ops cond = .ok out ∧
        (patchFieldsT pc tr ops cond create seed m).newBody = some out ∧
        (patchFieldsT pc tr ops cond create seed m).treasure =
          applyMeta m isCreate { tr with content := .bytes (pc.magic.b0 :: pc.magic.b1 :: out) } ∧
        ((∀ op ∈ ops, op.path.length < 2 ^ 32) → maxCh t + totalGrowth pc.cfg ops < 2 ^ 32 →
          ∃ d, Spec.refOps t ops = .ok d ∧ parse out = .ok d)) ∧
    (∀ body isCreate e, pfGate pc tr create seed = .ok (body, isCreate) →
      applyWithCondition pc.cfg body ops cond = .error e →
      (patchFieldsT pc tr ops cond create seed m).status = documentedMap.of e)

/-- "Non-map seeds yield TYPE_MISMATCH": a treasure is only ever created from a msgpack map -/
def SeedIsMap (pc : PfCfg) : Prop :=
  ∀ tr create seed body, pfGate pc tr create seed = .ok (body, true) → isMapBody body = true

/-- the property on the model: the patch layer, the PatchFields layer, the wire -/
def Full (f : Facts) : Prop := Holds (cfgOf f) ∧ PFHolds (pfOf f) ∧ WireHolds (wireOf f) ∧ SeedIsMap (pfOf f)

def hasUnknown (f : Facts) : Bool :=
  f.validatesValues == .unknown || f.nanCompare == .unknown || f.incFixint == .unknown ||
  f.dupKey == .unknown || f.removeValCompare == .unknown || f.magic0.isNone || f.magic1.isNone ||
  f.stCond.isNone || f.stType.isNone || f.stPath.isNone || f.stOp.isNone || f.stMsgpack.isNone ||
  f.stNonstr.isNone || f.seedDefault.isNone ||
  f.opOrder.isNone || f.condOrder.isNone || f.protoOps.isNone || f.protoConds.isNone ||
  f.wireConv == .unknown || !(wireOf f).clean || f.seedMapCheck == .unknown

def allGood (f : Facts) : Bool :=
  f.validatesValues == .yes && f.nanCompare == .neverEqual && f.removeValCompare == .canonical &&
  smapOf f == documentedMap && (wireOf f).agrees && f.seedMapCheck == .yes

def findings (f : Facts) : List String :=
  (if f.validatesValues == .no then ["C13-unvalidated-op-value"] else []) ++
  (if f.nanCompare == .equal then ["C13-nan-compares-equal"] else []) ++
  (if f.removeValCompare == .scalarBytes then ["C13-removeval-skips-containers"] else []) ++
  (if smapOf f == documentedMap then [] else ["C13-status-mapping"]) ++
  (if (wireOf f).agrees then []
   else if f.wireConv == .cast && f.opOrder == f.protoOps && f.condOrder == f.protoConds then ["C13-wire-enum-truncated"]
   else ["C13-wire-enum-misaligned"]) ++
  (if f.seedMapCheck == .no then ["C13-nonmap-seed-created"] else [])

def classify (f : Facts) : Verdict :=
  if hasUnknown f then .undetermined "a msgpackpatch / swamp_patch.go pattern was not recognised"
  else if allGood f then .holds
  else .violated (findings f)

theorem classify_sound (f : Facts) : (classify f).Sound (Full f) (HoldsExcept (cfgOf f)) := by
  unfold classify
  split
  · trivial
  · rename_i hu
    split
    · -- every fact has its repaired / documented value
      rename_i hg
      simp only [allGood, Bool.and_eq_true, beq_iff_eq] at hg
      obtain ⟨⟨⟨⟨⟨h1, h2⟩, h3⟩, h4⟩, h5⟩, h6⟩ := hg
      have hsm : (pfOf f).seedMustBeMap = true := by simp [pfOf, h6, Tri.isYes]
      have hv : (cfgOf f).validatesValues = true := by simp [cfgOf, h1, Tri.isYes]
      have hc : (cfgOf f).rmvalCanon = true := by simp [cfgOf, h3]
      have hn : (cfgOf f).nan = .neverEqual := by simp [cfgOf, h2]
      have hws : (wireOf f).clean = true := by
        cases hsz : (wireOf f).clean with
        | true => rfl
        | false => exact absurd (by simp [hasUnknown, hsz]) hu
      exact ⟨holds_of_good hv hn hc, ⟨h4, fun tr ops cond create seed m =>
        patchFields_refines (pfOf f) hv hc h4 tr ops cond create seed m⟩, WireCfg.holds_of_agrees hws h5,
        fun _ _ _ _ h => pfGate_created_map hsm h⟩
    · rename_i hb
      refine ⟨fun hfull => ?_, holds_except _⟩
      obtain ⟨hH, hP, hW, hS⟩ := hfull
      have hwc : (wireOf f).conv ≠ .unknown := by
        intro hx
        apply hu
        have : f.wireConv = .unknown := hx
        simp [hasUnknown, this]
      have hws : (wireOf f).clean = true := by
        cases hsz : (wireOf f).clean with
        | true => rfl
        | false => exact absurd (by simp [hasUnknown, hsz]) hu
      cases hwa : (wireOf f).agrees with
      | false => exact WireCfg.not_holds_of_disagree hwc hws hwa hW
      | true =>
        obtain ⟨vv, nc, fx, dk, rv, m0, m1, s1, s2, s3, s4, s5, s6, sd, oo, co, po, pc, wc, sm⟩ := f
        cases sm with
        | unknown => simp [hasUnknown] at hu
        | no =>
          have hw := witness_nonmap_seed (pfOf ⟨vv, nc, fx, dk, rv, m0, m1, s1, s2, s3, s4, s5, s6, sd, oo, co, po, pc, wc, .no⟩) rfl
          have := hS _ _ _ _ hw.2.1
          rw [hw.2.2] at this; cases this
        | yes =>
        by_cases hs : smapOf ⟨vv, nc, fx, dk, rv, m0, m1, s1, s2, s3, s4, s5, s6, sd, oo, co, po, pc, wc, .yes⟩ = documentedMap
        · cases vv <;> cases nc <;> cases rv <;> simp [hasUnknown] at hu
          · exact not_nanEqualNothing_of_equal true fx _ hH.2.2.1
          · exact not_nanEqualNothing_of_equal true fx _ hH.2.2.1
          · exact not_refinesSpec_of_scalar true .neverEqual fx hH.2.2.2.1
          · exact hb (by simp [allGood, hs, hwa])
          · exact not_successWf_of_unvalidated .equal fx _ hH.2.1
          · exact not_successWf_of_unvalidated .equal fx _ hH.2.1
          · exact not_successWf_of_unvalidated .neverEqual fx _ hH.2.1
          · exact not_successWf_of_unvalidated .neverEqual fx _ hH.2.1
        · exact hs hP.1

/-- the wire enums mean the documented operators (re-exported for the verdict) -/
theorem wire_cond_agrees {w : WireCfg} (htab : w.condOrder = w.protoConds) (hconv : w.conv = .castChecked)
    (hlen : w.protoConds.length ≤ 256) (n : Int) : w.codeCond n = w.docCond n :=
  Hv.Patch.wire_cond_agrees htab hconv hlen n

end Hv.C13
