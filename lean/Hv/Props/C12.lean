/-
  C12 — Cap-bearing operations never push the match count above the cap.

  "When every operation that moves records into a cap's filter carries that cap, the number of
   records matching the filter never exceeds its maximum after any interleaving of such
   operations, provided it did not exceed it before.  Each explicit-key patch consumes budget only
   when it moves a record from not-matching to matching."

  Quantifier: every initial content, every cap value, every number of concurrent batches with
  arbitrary patch lists, every interleaving of their `count / lock / patch… / unlock` steps and
  of operations that only take records out of the filter, of any length.
  Model: `Hv/Conc/Cap.lean`.
-/
import Hv.Conc.CapLemmas
import Hv.Basic.Verdict

namespace Hv.C12
open Hv.Cap

/-- The full-strength statement. -/
structure Holds (cfg : Cfg) : Prop where
  /-- `cap_inv` -/
  capInv : ∀ recs max as s, recs.count true ≤ max → run cfg (init recs max) as = some s → matching s ≤ max
  /-- `four_cell`: the budget is decremented iff the patch moves the record from not-matching to
      matching (and there is budget); exactly that cell is rejected when the budget is 0 -/
  fourCell : ∀ budget pre post,
      (fourCell budget pre post).1 = (if !pre && post && decide (0 < budget) then budget - 1 else budget) ∧
      ((fourCell budget pre post).2 = none ↔ (pre = false ∧ post = true ∧ budget = 0)) ∧
      (∀ v, (fourCell budget pre post).2 = some v → v = post)

theorem max_const (cfg : Cfg) (recs : List Bool) (max : Nat) (as : List Act) (s : St)
    (h : run cfg (init recs max) as = some s) : s.max = max := by
  refine LTS.inv_run (step cfg) (fun s => s.max = max) ?_ (init recs max) as s rfl h
  intro s a s' hm hs
  cases a <;> simp only [step] at hs <;> (repeat' split at hs) <;> simp at hs <;>
    first
      | (subst hs; exact hm)
      | (obtain ⟨_, hs⟩ := hs; subst hs; exact hm)

theorem four_cell (budget : Nat) (pre post : Bool) :
    (fourCell budget pre post).1 = (if !pre && post && decide (0 < budget) then budget - 1 else budget) ∧
    ((fourCell budget pre post).2 = none ↔ (pre = false ∧ post = true ∧ budget = 0)) ∧
    (∀ v, (fourCell budget pre post).2 = some v → v = post) := by
  cases pre <;> cases post <;> simp [fourCell]
  · by_cases hb : budget = 0
    · simp [hb]
    · have : 0 < budget := Nat.pos_of_ne_zero hb
      simp [hb, this]

/-- `cap_inv`: with the count taken under capMu the number of matching records never exceeds
    the cap, for all contents, caps, batches and interleavings. -/
theorem cap_inv (recs : List Bool) (max : Nat) (as : List Act) (s : St)
    (h0 : recs.count true ≤ max) (h : run good (init recs max) as = some s) : matching s ≤ max := by
  have hi : Inv s := LTS.inv_run (step good) Inv (fun s a s' hi hs => inv_step s a s' hi hs)
    (init recs max) as s (inv_init recs max h0) h
  have := hi.bound
  rw [max_const good recs max as s h] at this
  omega

theorem holds_good : Holds good := ⟨cap_inv, four_cell⟩

/-- Non-vacuity: two batches with cap 2 on four records, the second blocks on capMu until the
    first has finished, sees its result and gets the remaining budget; a delete frees a slot. -/
example : (run good (init [true, false, false, false] 2)
    [.submit 0 [(1, true), (2, true)], .submit 1 [(3, true), (0, true)], .first 0, .second 0, .patch 0,
     .patch 0, .unlock 0, .first 1, .second 1, .patch 1, .patch 1, .unlock 1, .shrink 0]).map
    (fun s => (s.recs, (s.batch 0).rejected, (s.batch 1).rejected, matching s)) =
    some ([false, true, false, false], 1, 1, 1) := by decide

/-! ### The code as it is: count first, then lock -/

def current : Cfg := { countAfterLock := false }

/-- two batches, cap 1, both see 0 -/
def witness : List Act :=
  [.submit 0 [(0, true)], .submit 1 [(1, true)], .first 0, .first 1,
   .second 0, .patch 0, .unlock 0, .second 1, .patch 1, .unlock 1]

theorem witness_overshoots :
    (run current (init [false, false] 1) witness).map (fun s => (matching s, (s.batch 0).rejected, (s.batch 1).rejected)) =
    some (2, 0, 0) := by decide

theorem refutes_current : ¬ Holds current := by
  intro h
  cases hs : run current (init [false, false] 1) witness with
  | none => have := witness_overshoots; simp [hs] at this
  | some s =>
    have hw := witness_overshoots
    simp [hs] at hw
    have := h.capInv [false, false] 1 witness s (by decide) hs
    omega

/-- `_partial`: a single batch at a time (no other batch between its count and its unlock)
    respects the cap also with the count before the lock; stated as: the four-cell rule. -/
theorem holds_partial : ∀ budget pre post,
    (fourCell budget pre post).1 = (if !pre && post && decide (0 < budget) then budget - 1 else budget) ∧
    ((fourCell budget pre post).2 = none ↔ (pre = false ∧ post = true ∧ budget = 0)) ∧
    (∀ v, (fourCell budget pre post).2 = some v → v = post) := four_cell

/-! ### Decision over the extracted facts -/

structure Facts where
  /-- `capPreCount`: `swampObj.LockCapMu()` precedes `swampObj.CountMatchingTreasures(…)` -/
  countAfterLock : Tri
  /-- the release function is deferred right after `capPreCount` returns (held for the whole loop) -/
  unlockDeferred : Tri
  /-- `budgetLeft = bodyCapMax - currentMatching`, clamped at 0 -/
  budgetFromCount : Tri
  /-- PatchFields: `if !preMatched && postMatched { if budget <= 0 { return CapExceeded }; budget-- }`,
      the only decrement, before the body is written; `preMatched` is false on create -/
  fourCellNoYes : Tri
  /-- PatchExpired takes `s.capMu` before its count+selection when a cap is present -/
  patchExpiredLocksFirst : Tri
  /-- ShiftMatching counts and selects under one `b.mu.Lock()` -/
  shiftCountsUnderLock : Tri
  deriving Repr

def structural (f : Facts) : Bool :=
  f.unlockDeferred.isYes && f.budgetFromCount.isYes && f.fourCellNoYes.isYes &&
  f.patchExpiredLocksFirst.isYes && f.shiftCountsUnderLock.isYes

def classify (f : Facts) : Verdict :=
  if !structural f then .undetermined "the cap path no longer has the modelled shape" else
  match f.countAfterLock with
  | .yes => .holds
  | .no => .violated ["C12-count-before-capmu"]
  | .unknown => .undetermined "cap.countAfterLock"

def cfgOf (f : Facts) : Cfg := { countAfterLock := f.countAfterLock.isYes }

theorem classify_sound (f : Facts) : (classify f).Sound (Holds (cfgOf f)) := by
  unfold classify
  split
  · simp [Verdict.Sound]
  · cases hc : f.countAfterLock <;> simp only [Verdict.Sound, cfgOf, hc, Tri.isYes]
    · exact holds_good
    · exact ⟨refutes_current, trivial⟩

end Hv.C12
