/-
  C12 — Cap-bearing operations never push the match count above the cap.

  "When every operation that moves records into a cap's filter carries that cap, the number of
   records matching the filter never exceeds its maximum after any interleaving of such
   operations, provided it did not exceed it before.  Each explicit-key patch consumes budget only
   when it moves a record from not-matching to matching."

  Quantifier: every initial content, every cap value, every number of concurrent batches with
  arbitrary patch lists, every interleaving of their `count / lock / patch… / unlock` steps and
  of operations that only take records out of the filter, of any length.
  Model: `Hv/Conc/Cap.lean`.
-/
import Hv.Conc.CapLemmas
import Hv.Basic.Verdict

namespace Hv.C12
open Hv.Cap

/-- The full-strength statement. -/
structure Holds (cfg : Cfg) : Prop where
  /-- `cap_inv` -/
  capInv : ∀ recs present expiring max as s, recs.count true ≤ max →
      run cfg (initE recs present expiring max) as = some s → matching s ≤ max
  /-- `four_cell`: the budget is decremented iff the patch moves the record from not-matching to
      matching (and there is budget); exactly that cell is rejected when the budget is 0 -/
  fourCell : ∀ budget pre post,
      (fourCell budget pre post).1 = (if !pre && post && decide (0 < budget) then budget - 1 else budget) ∧
      ((fourCell budget pre post).2 = none ↔ (pre = false ∧ post = true ∧ budget = 0)) ∧
      (∀ v, (fourCell budget pre post).2 = some v → v = post)

theorem max_const (cfg : Cfg) (recs present expiring : List Bool) (max : Nat) (as : List Act) (s : St)
    (h : run cfg (initE recs present expiring max) as = some s) : s.max = max := by
  refine LTS.inv_run (step cfg) (fun s => s.max = max) ?_ (initE recs present expiring max) as s rfl h
  intro s a s' hm hs
  cases a <;> simp only [step] at hs <;> (repeat' split at hs) <;> simp at hs <;>
    first
      | (subst hs; exact hm)
      | (obtain ⟨_, hs⟩ := hs; subst hs; exact hm)

theorem four_cell (budget : Nat) (pre post : Bool) :
    (fourCell budget pre post).1 = (if !pre && post && decide (0 < budget) then budget - 1 else budget) ∧
    ((fourCell budget pre post).2 = none ↔ (pre = false ∧ post = true ∧ budget = 0)) ∧
    (∀ v, (fourCell budget pre post).2 = some v → v = post) := by
  cases pre <;> cases post <;> simp [fourCell]
  · by_cases hb : budget = 0
    · simp [hb]
    · have : 0 < budget := Nat.pos_of_ne_zero hb
      simp [hb, this]

/-- `cap_inv`: with the count taken under capMu the number of matching records never exceeds
    the cap, for all contents, caps, batches and interleavings. -/
theorem cap_inv (recs present expiring : List Bool) (max : Nat) (as : List Act) (s : St)
    (h0 : recs.count true ≤ max) (h : run good (initE recs present expiring max) as = some s) : matching s ≤ max := by
  have hi : Inv s := LTS.inv_run (step good) Inv (fun s a s' hi hs => inv_step s a s' hi hs)
    (initE recs present expiring max) as s (inv_initE recs present expiring max h0) h
  have := hi.bound
  rw [max_const good recs present expiring max as s h] at this
  omega

theorem holds_good : Holds good := ⟨cap_inv, four_cell⟩

/-- Non-vacuity: two batches with cap 2 on four records, the second blocks on capMu until the
    first has finished, sees its result and gets the remaining budget; a delete frees a slot. -/
example : (run good (init [true, false, false, false] 2)
    [.submit 0 [(1, true), (2, true)], .submit 1 [(3, true), (0, true)], .first 0, .second 0, .patch 0,
     .patch 0, .unlock 0, .first 1, .second 1, .patch 1, .patch 1, .unlock 1, .shrink 0]).map
    (fun s => (s.recs, (s.batch 0).rejected, (s.batch 1).rejected, matching s)) =
    some ([false, true, false, false], 1, 1, 1) := by decide

/-! ### Defective shapes: closed counterexamples -/

/-- count first, then lock: two batches, cap 1, both see 0 -/
def witness : List Act :=
  [.submit 0 [(0, true)], .submit 1 [(1, true)], .first 0, .first 1,
   .second 0, .patch 0, .unlock 0, .second 1, .patch 1, .unlock 1]

theorem witness_overshoots (c e x : Bool) :
    (run { countAfterLock := false, createPreFalse := c, expiredHoldsCapMu := e, expiredCountsAll := x } (init [false, false] 1) witness).map
      (fun s => (matching s, (s.batch 0).rejected, (s.batch 1).rejected)) = some (2, 0, 0) := by
  cases c <;> cases e <;> cases x <;> decide

theorem refutes_countFirst (c e x : Bool) :
    ¬ Holds { countAfterLock := false, createPreFalse := c, expiredHoldsCapMu := e, expiredCountsAll := x } := by
  intro h
  cases hs : run { countAfterLock := false, createPreFalse := c, expiredHoldsCapMu := e, expiredCountsAll := x } (init [false, false] 1) witness with
  | none => have := witness_overshoots c e x; simp [hs] at this
  | some s =>
    have hw := witness_overshoots c e x
    simp [hs] at hw
    have := h.capInv [false, false] [true, true] [true, true] 1 witness s (by decide) hs
    omega

/-- the pre-state of a create taken from the seed: one batch, cap 1, two absent keys, a seed that
    matches the filter — both creates look like (yes, yes), no budget is spent, two records match -/
def witnessCreate : List Act :=
  [.submitCreate 0 [(0, true), (1, true)] true, .first 0, .second 0, .patch 0, .patch 0, .unlock 0]

theorem witness_create_overshoots (a e x : Bool) :
    (run { countAfterLock := a, createPreFalse := false, expiredHoldsCapMu := e, expiredCountsAll := x } (initP [false, false] [false, false] 1) witnessCreate).map
      (fun s => (matching s, (s.batch 0).rejected)) = some (2, 0) := by
  cases a <;> cases e <;> cases x <;> decide

theorem refutes_createFromSeed (a e x : Bool) :
    ¬ Holds { countAfterLock := a, createPreFalse := false, expiredHoldsCapMu := e, expiredCountsAll := x } := by
  intro h
  cases hs : run { countAfterLock := a, createPreFalse := false, expiredHoldsCapMu := e, expiredCountsAll := x } (initP [false, false] [false, false] 1) witnessCreate with
  | none => have := witness_create_overshoots a e x; simp [hs] at this
  | some s =>
    have hw := witness_create_overshoots a e x
    simp [hs] at hw
    have := h.capInv [false, false] [false, false] [true, true] 1 witnessCreate s (by decide) hs
    omega

/-- PatchExpired releasing capMu after its select step: cap 2, four expired candidates; A selects
    two and unlocks, B counts 0 and selects the other two; four records match -/
def witnessExpired : List Act :=
  [.submitExpired 0 [0, 1, 2, 3], .submitExpired 1 [2, 3, 0, 1], .first 0, .second 0, .unlockEarly 0,
   .first 1, .second 1, .patch 0, .patch 0, .patch 1, .patch 1, .unlock 0, .unlock 1]

theorem witness_expired_overshoots (a c x : Bool) :
    (run { countAfterLock := a, createPreFalse := c, expiredHoldsCapMu := false, expiredCountsAll := x } (init [false, false, false, false] 2) witnessExpired).map
      (fun s => matching s) = some 4 := by
  cases a <;> cases c <;> cases x <;> decide

theorem refutes_expiredEarlyUnlock (a c x : Bool) :
    ¬ Holds { countAfterLock := a, createPreFalse := c, expiredHoldsCapMu := false, expiredCountsAll := x } := by
  intro h
  cases hs : run { countAfterLock := a, createPreFalse := c, expiredHoldsCapMu := false, expiredCountsAll := x } (init [false, false, false, false] 2) witnessExpired with
  | none => have := witness_expired_overshoots a c x; simp [hs] at this
  | some s =>
    have hw := witness_expired_overshoots a c x
    simp [hs] at hw
    have := h.capInv [false, false, false, false] [true, true, true, true] [true, true, true, true] 2 witnessExpired s (by decide) hs
    omega

/-- PatchExpired counting over the expiration-time index only: cap 1; r0 matches the filter and
    carries no expiry (a record created by a cap-bearing PatchTreasures), r1 is idle and expired.
    One sequential `PatchExpired` counts 0 matching records, takes a budget of 1 and moves r1
    into the filter: two records match.  No concurrency is needed. -/
def witnessIndexOnly : List Act :=
  [.submitExpired 0 [1], .first 0, .second 0, .patch 0, .unlock 0]

theorem witness_indexOnly_overshoots (a c e : Bool) :
    (run { countAfterLock := a, createPreFalse := c, expiredHoldsCapMu := e, expiredCountsAll := false }
        (initE [true, false] [true, true] [false, true] 1) witnessIndexOnly).map
      (fun s => (matching s, (s.batch 0).counted)) = some (2, 0) := by
  cases a <;> cases c <;> cases e <;> decide

theorem refutes_expiredCountsIndexOnly (a c e : Bool) :
    ¬ Holds { countAfterLock := a, createPreFalse := c, expiredHoldsCapMu := e, expiredCountsAll := false } := by
  intro h
  cases hs : run { countAfterLock := a, createPreFalse := c, expiredHoldsCapMu := e, expiredCountsAll := false }
      (initE [true, false] [true, true] [false, true] 1) witnessIndexOnly with
  | none => have := witness_indexOnly_overshoots a c e; simp [hs] at this
  | some s =>
    have hw := witness_indexOnly_overshoots a c e
    simp [hs] at hw
    have := h.capInv [true, false] [true, true] [false, true] 1 witnessIndexOnly s (by decide) hs
    omega

/-- with the count over all records the same call selects nothing: the budget is 0 -/
example : (run good (initE [true, false] [true, true] [false, true] 1) [.submitExpired 0 [1], .first 0, .second 0, .unlock 0]).map
    (fun s => (matching s, (s.batch 0).counted, (s.batch 0).todo.length)) = some (1, 1, 0) := by decide

/-- `_partial`: the four-cell rule holds whatever the order of count and lock. -/
theorem holds_partial : ∀ budget pre post,
    (fourCell budget pre post).1 = (if !pre && post && decide (0 < budget) then budget - 1 else budget) ∧
    ((fourCell budget pre post).2 = none ↔ (pre = false ∧ post = true ∧ budget = 0)) ∧
    (∀ v, (fourCell budget pre post).2 = some v → v = post) := four_cell

/-! ### Decision over the extracted facts -/

structure Facts where
  /-- `capPreCount`: `swampObj.LockCapMu()` precedes `swampObj.CountMatchingTreasures(…)` -/
  countAfterLock : Tri
  /-- the release function is deferred right after `capPreCount` returns (held for the whole loop) -/
  unlockDeferred : Tri
  /-- `budgetLeft = bodyCapMax - currentMatching`, clamped at 0 -/
  budgetFromCount : Tri
  /-- PatchFields: `if !preMatched && postMatched { if budget <= 0 { return CapExceeded }; budget-- }`,
      the only decrement, before the body is written -/
  fourCellNoYes : Tri
  /-- PatchFields: `preMatched` stays false on a create (`if !isCreate { preMatched = … }`) -/
  createPreFalse : Tri
  /-- PatchExpired takes `s.capMu` before its count+select when a cap is present … -/
  patchExpiredLocksFirst : Tri
  /-- … and holds it to the end of the call (`defer s.capMu.Unlock()`, no explicit unlock) -/
  expiredHoldsCapMu : Tri
  /-- SelectExpiredForPatchWithCap: count, `budget := capMax - currentMatching`, selection bounded by it,
      all under one `b.mu.Lock()` -/
  expiredSelectWithinBudget : Tri
  /-- ShiftMatching counts and selects under one `b.mu.Lock()`; CloneAndDeleteMatchingTreasures holds capMu -/
  shiftCountsUnderLock : Tri
  /-- PatchExpired: the cap handed to `SelectExpiredForPatchWithCap` (which counts over the expiration-time
      index it is called on) is first reduced by the matching records that are NOT in that index
      (`s.beaconKey.CountMatching(capPredicate) - s.expirationTimeBeaconASC.CountMatching(capPredicate)`);
      `no`: `int(capMax)` is passed through unchanged -/
  expiredCountsAll : Tri
  /-- gateway ShiftMatching: a bucket candidate has to pass the WHOLE filter when it is selected (`filterEval`
      is never narrowed to `plan.Residual`).  Not needed for the cap bound (a shift only removes records — the
      `delete` action is always enabled); it selects which records the model's ShiftMatching batch removes:
      `no` = every candidate collected at RPC arrival that still exists, `yes` = those that still match. -/
  shiftReevaluatesFilter : Tri
  deriving Repr

def structural (f : Facts) : Bool :=
  f.unlockDeferred.isYes && f.budgetFromCount.isYes && f.fourCellNoYes.isYes &&
  f.patchExpiredLocksFirst.isYes && f.expiredSelectWithinBudget.isYes && f.shiftCountsUnderLock.isYes

def triBool : Tri → Option Bool
  | .yes => some true | .no => some false | .unknown => none

def classify (f : Facts) : Verdict :=
  if !structural f then .undetermined "the cap path no longer has the modelled shape" else
  match triBool f.countAfterLock, triBool f.createPreFalse, triBool f.expiredHoldsCapMu, triBool f.expiredCountsAll with
  | some true, some true, some true, some true => .holds
  | some a, some c, some e, some x =>
    .violated ((if a then [] else ["C12-count-before-capmu"]) ++ (if c then [] else ["C12-create-counts-as-prematched"]) ++
               (if e then [] else ["C12-patchexpired-releases-capmu-early"]) ++
               (if x then [] else ["C12-patchexpired-counts-expiring-records-only"]))
  | _, _, _, _ => .undetermined "cap.countAfterLock / cap.createPreFalse / cap.expiredHoldsCapMu / cap.expiredCountsAll"

def cfgOf (f : Facts) : Cfg :=
  { countAfterLock := (triBool f.countAfterLock).getD false, createPreFalse := (triBool f.createPreFalse).getD false,
    expiredHoldsCapMu := (triBool f.expiredHoldsCapMu).getD false, expiredCountsAll := (triBool f.expiredCountsAll).getD false }

theorem classify_sound (f : Facts) : (classify f).Sound (Holds (cfgOf f)) := by
  unfold classify
  split
  · simp [Verdict.Sound]
  · cases ha : triBool f.countAfterLock with
    | none => simp [Verdict.Sound]
    | some a =>
      cases hc : triBool f.createPreFalse with
      | none => simp [Verdict.Sound]
      | some c =>
        cases he : triBool f.expiredHoldsCapMu with
        | none => simp [Verdict.Sound]
        | some e =>
          cases hx : triBool f.expiredCountsAll with
          | none => simp [Verdict.Sound]
          | some x =>
            cases a <;> cases c <;> cases e <;> cases x <;>
              simp only [Verdict.Sound, cfgOf, ha, hc, he, hx, Option.getD] <;>
              first
                | exact holds_good
                | exact ⟨refutes_countFirst _ _ _, trivial⟩
                | exact ⟨refutes_createFromSeed _ _ _, trivial⟩
                | exact ⟨refutes_expiredEarlyUnlock _ _ _, trivial⟩
                | exact ⟨refutes_expiredCountsIndexOnly _ _ _, trivial⟩

end Hv.C12
