/-
  C28 — Lock bookkeeping does not grow without bound.

  "Once every lock on a key has been released or expired, the server keeps no per-key lock state
   for it.  Memory used for locking is therefore bounded by the number of keys currently locked
   or waited on, not by the number of distinct keys ever locked."

  Quantifier: every schedule, of any length, of `call | getQueue | enqueue | remove | unmap` over
  any number of keys and callers.  Model: `Hv/Conc/LockMap.lean` (the `sync.Map` of queue objects
  on top of C14's queue).  `prune = false` is the code as it is; `prune = true` is the repaired
  variant (dead-queue flag, delete under the flag, retry on a dead queue).
-/
import Hv.Conc.LockMapLemmas
import Hv.Basic.Verdict

namespace Hv.C28
open Hv.LockMap
open Hv.Lock (Wake)

/-- C14's safety in the map model: per key, whatever queue objects exist (and have existed),
    at most one caller is granted, and it is the head of its queue. -/
structure Safe (cfg : Cfg) : Prop where
  grantedIsHead : ∀ as s (i : Nat) (o : Obj), run cfg init as = some s → s.objs[i]? = some o →
      o.q.ready = o.q.callers.head?.toList
  oneQueuePerKey : ∀ as s (i j : Nat) (oi oj : Obj), run cfg init as = some s → s.objs[i]? = some oi → s.objs[j]? = some oj →
      oi.key = oj.key → oi.q.callers ≠ [] → oj.q.callers ≠ [] → i = j
  /-- a pointer handed out by `getQueue` is a queue of the requested key -/
  rightQueue : ∀ as s (c : Call) (i : Nat), run cfg init as = some s → c ∈ s.calls → c.ptr = some i →
      ∃ o : Obj, s.objs[i]? = some o ∧ o.key = c.key

/-- The full-strength statement. -/
structure Holds (cfg : Cfg) : Prop where
  /-- every map entry is justified by a queued caller, a `Lock` call between `getQueue` and
      `enqueue`, or a deletion that is already under way -/
  dom : ∀ as s (k i : Nat), run cfg init as = some s → (k, i) ∈ s.map →
      ∃ o : Obj, s.objs[i]? = some o ∧ o.key = k ∧
        (o.q.callers ≠ [] ∨ (∃ c ∈ s.calls, c.ptr = some i) ∨ i ∈ s.unmapPending)
  /-- once every lock is released/expired and nothing is in flight, the map is empty -/
  pruned : ∀ as s, run cfg init as = some s → Quiescent s → s.map = []
  safe : Safe cfg

theorem reach_inv (cfg : Cfg) (as : List Act) (s : St) (h : run cfg init as = some s) : Inv cfg s :=
  LTS.inv_run (step cfg) (Inv cfg) (fun s a s' hi hs => inv_step cfg s a s' hi hs) init as s (inv_init cfg) h

/-- C14's safety survives in the map model for both variants (in particular across the retry). -/
theorem safe_any (cfg : Cfg) : Safe cfg := by
  refine ⟨?_, ?_, ?_⟩
  · intro as s i o h ho
    exact ((reach_inv cfg as s h).obj i o ho).qinv
  · intro as s i j oi oj h hi hj hk hci hcj
    have hI := reach_inv cfg as s h
    have li : oi.dead = false := by
      cases hd : oi.dead with
      | false => rfl
      | true => exact absurd ((hI.obj i oi hi).deadEmpty hd) hci
    have lj : oj.dead = false := by
      cases hd : oj.dead with
      | false => rfl
      | true => exact absurd ((hI.obj j oj hj).deadEmpty hd) hcj
    have mi := (hI.obj i oi hi).liveMapped li
    have mj := (hI.obj j oj hj).liveMapped lj
    rw [hk] at mi
    exact hI.func _ i j mi mj
  · intro as s c i h hc hp
    exact (reach_inv cfg as s h).callPtr c hc i hp

def pruning : Cfg := { prune := true }
def current : Cfg := { prune := false }

/-- `queues_pruned`: with the dead-queue flag and retry, the map holds exactly the keys in use. -/
theorem queues_pruned : Holds pruning := by
  have dom : ∀ as s (k i : Nat), run pruning init as = some s → (k, i) ∈ s.map →
      ∃ o : Obj, s.objs[i]? = some o ∧ o.key = k ∧
        (o.q.callers ≠ [] ∨ (∃ c ∈ s.calls, c.ptr = some i) ∨ i ∈ s.unmapPending) := by
    intro as s k i h hm
    have hI := reach_inv pruning as s h
    obtain ⟨o, ho, hk, hd⟩ := hI.mapped k i hm
    refine ⟨o, ho, hk, ?_⟩
    cases hdead : o.dead with
    | true => exact Or.inr (Or.inr (hd hdead))
    | false =>
      by_cases he : o.q.callers = []
      · exact Or.inr (Or.inl ((hI.obj i o ho).liveEmptyHeld rfl hdead he))
      · exact Or.inl he
  refine ⟨dom, ?_, safe_any pruning⟩
  intro as s h hq
  obtain ⟨hc, hu, he⟩ := hq
  cases hm : s.map with
  | nil => rfl
  | cons x xs =>
    obtain ⟨k, i⟩ := x
    obtain ⟨o, ho, _, hcase⟩ := dom as s k i h (by simp [hm])
    rcases hcase with c | ⟨c, hcm, _⟩ | c
    · exact absurd (he o (List.mem_of_getElem? ho)) c
    · simp [hc] at hcm
    · simp [hu] at c

/-- Non-vacuity of `queues_pruned`, including the retry: caller 2 obtains queue object 0 while
    caller 1 still holds the key; 1 unlocks (object 0 is emptied, marked dead, unmapped); 2 finds
    it dead, retries, gets the fresh object 1 and is granted there; after 2's unlock and unmap
    the map is empty again while two queue objects have existed. -/
example : (run pruning init [.call 1 7, .getQueue 1 7, .enqueue 1 7 0, .call 2 7, .getQueue 2 7,
      .remove 1 0, .unmap 0, .enqueue 2 7 0, .getQueue 2 7, .enqueue 2 7 1, .remove 2 1, .unmap 1]).map
    (fun s => (s.map, s.objs.length, s.calls, queued s)) = some ([], 2, [], 0) := by decide

/-! ### The current code: nothing is ever deleted -/

/-- three keys locked and released once each -/
def witness : List Act :=
  [.call 1 10, .getQueue 1 10, .enqueue 1 10 0, .remove 1 0,
   .call 2 11, .getQueue 2 11, .enqueue 2 11 1, .remove 2 1,
   .call 3 12, .getQueue 3 12, .enqueue 3 12 2, .remove 3 2]

/-- closed witness: everything released, nothing in flight, and the map still has one entry per
    key ever locked -/
theorem witness_grows : (run current init witness).map
    (fun s => (s.map, s.calls, s.unmapPending, s.objs.map (·.q.callers))) =
    some ([(10, 0), (11, 1), (12, 2)], [], [], [[], [], []]) := by decide

theorem refutes_current : ¬ Holds current := by
  intro h
  cases hs : run current init witness with
  | none => have := witness_grows; simp [hs] at this
  | some s =>
    have hw := witness_grows
    simp [hs] at hw
    obtain ⟨hm, hc, hu, ho⟩ := hw
    have hq : Quiescent s := by
      refine ⟨hc, hu, ?_⟩
      intro o hmem
      have : o.q.callers ∈ s.objs.map (·.q.callers) := List.mem_map.mpr ⟨o, hmem, rfl⟩
      rw [ho] at this
      simpa using this
    have := h.pruned witness s hs hq
    rw [this] at hm; simp at hm

/-- in general: without pruning the map has one entry per queue object ever created, for ever
    (|dom queues| = number of distinct keys ever locked) -/
theorem current_never_shrinks (as : List Act) (s : St) (h : run current init as = some s) :
    s.map.length = s.objs.length ∧ s.unmapPending = [] := by
  refine LTS.inv_run (step current) (fun s => s.map.length = s.objs.length ∧ s.unmapPending = []) ?_ init as s
    (by simp [init]) h
  intro s a s' ⟨hl, hu⟩ hs
  cases a with
  | call id k =>
    simp only [step] at hs
    by_cases hg : (if current.uniqueIds then s.next < id else id = ticket s k + 1)
    · rw [if_pos hg] at hs; simp at hs; subst hs; exact ⟨hl, hu⟩
    · rw [if_neg hg] at hs; simp at hs
  | getQueue id k =>
    simp only [step] at hs
    split at hs
    · cases hlk : s.map.lookup k with
      | some i => simp only [hlk] at hs; simp at hs; subst hs; exact ⟨hl, hu⟩
      | none => simp only [hlk] at hs; simp at hs; subst hs; simp [hl, hu]
    · simp at hs
  | enqueue id k i =>
    simp only [step] at hs
    split at hs
    · cases ho : s.objs[i]? with
      | none => simp [ho] at hs
      | some o => simp [ho, current] at hs; subst hs; simp [hl, hu]
    · simp at hs
  | remove id i =>
    simp only [step] at hs
    cases ho : s.objs[i]? with
    | none => simp [ho] at hs; subst hs; exact ⟨hl, hu⟩
    | some o => simp [ho, current] at hs; subst hs; simp [hl, hu]
  | unmap i =>
    simp only [step] at hs
    split at hs
    · rename_i hi; simp [hu] at hi
    · simp at hs

/-- `_partial`: everything except the pruning clause holds for the code as it is. -/
theorem holds_partial : Safe current := safe_any current

/-! ### Decision over the extracted facts -/

structure Facts where
  /-- `queues sync.Map` field of `lock` -/
  queuesIsSyncMap : Tri
  /-- `getQueue` = `Load` then `LoadOrStore(key, newQueue())` -/
  getQueueLoadOrStore : Tri
  /-- number of deleting calls on `l.queues` (`Delete`, `LoadAndDelete`, `CompareAndDelete`, `Clear`, `Swap`) -/
  deleteCalls : Option Nat
  /-- the exact pruning shape of the model: `dead` flag set in `remove` under `q.mu` when the queue
      empties + `CompareAndDelete(key, q)`, `enqueue` refuses a dead queue, `Lock` retries `getQueue` -/
  pruneVariant : Tri
  /-- queue-level shape (C14's facts) -/
  wake : Option Wake
  wakeOnlyIfHead : Tri
  deriving Repr

def cfgOf (f : Facts) : Cfg :=
  { prune := match f.deleteCalls with
      | some 0 => false
      | _ => f.pruneVariant.isYes }

def classify (f : Facts) : Verdict :=
  if !(f.queuesIsSyncMap.isYes && f.getQueueLoadOrStore.isYes && f.wake == some .next && f.wakeOnlyIfHead.isYes) then
    .undetermined "lock.go no longer has the modelled shape (queue map / getQueue / queue wake-up)"
  else match f.deleteCalls, f.pruneVariant with
    | some 0, _ => .violated ["C28-queues-never-pruned"]
    | some (_ + 1), .yes => .holds
    | _, _ => .undetermined "lock.queues is deleted from in a shape no theorem covers"

theorem classify_sound (f : Facts) : (classify f).Sound (Holds (cfgOf f)) (Safe (cfgOf f)) := by
  unfold classify
  split
  · simp [Verdict.Sound]
  · split
    · rename_i hd
      have : cfgOf f = current := by simp [cfgOf, hd, current]
      rw [this]
      exact ⟨refutes_current, holds_partial⟩
    · rename_i n hd hp
      have : cfgOf f = pruning := by simp [cfgOf, hd, hp, pruning, Tri.isYes]
      rw [this]
      exact queues_pruned
    · simp [Verdict.Sound]

end Hv.C28
