/-
  C14 — Business lock: exclusive, FIFO, TTL-released, deadlock-free.

  "For any interleaving of lock, unlock, TTL expiry and waiter cancellation, at most one caller
   holds a given lock key at any time, and waiters are granted the lock in arrival order.  A lock
   is released by its holder's unlock or by its TTL, after which the next live waiter proceeds.
   An unlock with a stale or foreign lock ID never releases someone else's lock, and no waiter is
   left blocked once all holders are gone."

  Quantifier: every schedule, of any length, of `enqueue | acquire | cancel | unlock | ttl` on one
  key (keys do not share state; the per-key map is C28's model).  Model: `Hv/Conc/Lock.lean`
  (one action per `q.mu` critical section of lock.go; the `select` in `Lock` is the pair of
  actions `acquire`/`cancel`, both enabled when `ready` is closed and the context is done).
-/
import Hv.Conc.LockLemmas
import Hv.Basic.Verdict

namespace Hv.C14
open Hv.Lock

/-- The full-strength statement, for given code facts. -/
structure Holds (cfg : Cfg) (gw : GwCfg) : Prop where
  /-- granted ⊆ {head} and, when the queue is not empty, its head *is* granted: no waiter is
      left blocked once the callers ahead of it are gone -/
  grantedIsHead : ∀ as s, run cfg init as = some s → s.q.ready = s.q.callers.head?.toList
  /-- at most one caller believes it holds the key, and it is the head of the queue -/
  mutex : ∀ as s, run cfg init as = some s →
      (holders s).length ≤ 1 ∧ ∀ x ∈ holders s, s.q.callers.head? = some x
  /-- grants happen in arrival order (ids are arrival numbers) … -/
  fifo : ∀ as s, run cfg init as = some s → s.q.grants.Pairwise (· < ·)
  /-- … and nobody is skipped: an earlier arrival is granted before a later one unless it was
      cancelled while still waiting -/
  noSkip : ∀ as s a b, run cfg init as = some s → a ∈ s.issued → b ∈ s.q.grants → a < b →
      a ∈ s.q.grants ∨ a ∈ s.cancelledU
  /-- every issued id is granted, cancelled while waiting, or still queued -/
  complete : ∀ as s x, run cfg init as = some s → x ∈ s.issued →
      x ∈ s.q.grants ∨ x ∈ s.cancelledU ∨ x ∈ s.q.callers
  /-- an `Unlock` with an id that is not the current head's (stale, duplicate, foreign) leaves
      the queue and the grant untouched and returns the error -/
  staleNoop : ∀ as s id s', run cfg init as = some s → s.q.callers.head? ≠ some id →
      step cfg s (.unlock id) = some s' → s' = s ∧ unlockOk s id = false
  /-- removing the head (unlock, TTL or cancel) grants exactly the next caller in line -/
  handover : ∀ as s id y rest s', run cfg init as = some s → s.q.callers = id :: y :: rest →
      (step cfg s (.unlock id) = some s' ∨ step cfg s (.ttl id) = some s' ∨ step cfg s (.cancel id) = some s') →
      s'.q.callers = y :: rest ∧ s'.q.ready = [y]
  /-- no `ready` channel is ever closed twice (that would be a Go panic under `q.mu`) -/
  noPanic : ∀ as s, run cfg init as = some s → s.q.panics = 0
  /-- the gateway never hands the locker a TTL of zero or less -/
  ttlPositive : ∀ t, 0 < effTTL gw t

theorem inv_step (cfg : Cfg) (hg : IsGood cfg) (s : St) (a : Act) (s' : St) (h : Inv s)
    (hs : step cfg s a = some s') : Inv s' := by
  cases a with
  | enqueue id =>
    simp only [step] at hs
    split at hs
    · rename_i hlt; simp at hs; exact hs ▸ inv_enqueue s h id hlt
    · simp at hs
  | acquire id =>
    simp only [step] at hs
    split at hs
    · rename_i hc
      simp at hs; subst hs
      obtain ⟨qS, qB, hR, gS, gB, rG, aG, nP, cP, cC⟩ := h
      refine ⟨qS, qB, hR, gS, gB, rG, ?_, nP, cP, cC⟩
      intro x hx
      rcases List.mem_append.mp hx with hx | hx
      · exact aG x hx
      · simp at hx; subst hx; exact rG x hc.1
    · simp at hs
  | cancel id =>
    simp only [step] at hs
    split at hs
    · rename_i hc
      simp at hs; subst hs
      apply inv_remove cfg hg s h id
      by_cases hr : id ∈ s.q.ready
      · left; simp [hr]; exact Or.inl (h.readyGranted id hr)
      · right; simp [hr]; exact hc.1
    · simp at hs
  | unlock id =>
    simp only [step] at hs
    split at hs
    · rename_i hc
      simp at hs; subst hs
      have := inv_remove cfg hg s h id s.cancelledU
        (Or.inl ⟨rfl, hc.elim (fun a => Or.inl (h.acqGranted id a)) Or.inr⟩)
      exact this
    · simp at hs
  | ttl id =>
    simp only [step] at hs
    split at hs
    · rename_i hc
      simp at hs; subst hs
      exact inv_remove cfg hg s h id s.cancelledU (Or.inl ⟨rfl, Or.inl (h.acqGranted id hc)⟩)
    · simp at hs

theorem reach_inv (cfg : Cfg) (hg : IsGood cfg) (as : List Act) (s : St)
    (h : run cfg init as = some s) : Inv s :=
  LTS.inv_run (step cfg) Inv (fun s a s' hi hs => inv_step cfg hg s a s' hi hs) init as s inv_init h

/-- the head-removal case of `remove`, as used by `handover` -/
theorem rem_head (cfg : Cfg) (hg : IsGood cfg) (q : Q) (h : QInv q) (id y : Nat) (rest : List Nat)
    (hq : q.callers = id :: y :: rest) :
    (q.rem cfg id).1.callers = y :: rest ∧ (q.rem cfg id).1.ready = [y] := by
  rcases rem_cases cfg hg q h id with ⟨hn, _⟩ | ⟨hq', _⟩ | ⟨y', ys, hq', e⟩ | ⟨x, t, hq', hne, _, _⟩
  · simp [hq] at hn
  · simp [hq] at hq'
  · rw [hq] at hq'; simp at hq'
    rw [e]; simp [hq'.1, hq'.2]
  · rw [hq] at hq'; simp at hq'; exact absurd hq'.1 hne

/-- C14 holds for every schedule for the code shape of the unchanged tree. -/
theorem holds_good (cfg : Cfg) (gw : GwCfg) (hg : IsGood cfg)
    (hgw : 0 < gw.ttlFloor ∧ 0 ≤ gw.ttlThresh) : Holds cfg gw := by
  refine ⟨?_, ?_, ?_, ?_, ?_, ?_, ?_, ?_, ?_⟩
  · intro as s h; exact (reach_inv cfg hg as s h).ready
  · intro as s h
    have hi := reach_inv cfg hg as s h
    have hhead : ∀ x ∈ holders s, s.q.callers.head? = some x := by
      intro x hx
      simp only [holders, List.mem_filter, decide_eq_true_eq] at hx
      have hxg := hi.acqGranted x hx.1
      cases hq : s.q.callers with
      | nil => simp [hq] at hx
      | cons y t =>
        have := (hi.gBound x hxg).2 y (by simp [hq])
        rcases List.mem_cons.mp (hq ▸ hx.2) with e | e
        · simp [e]
        · have hlt := (List.pairwise_cons.mp (hq ▸ hi.qSorted)).1 x e
          omega
    refine ⟨?_, hhead⟩
    -- the holders form a duplicate-free sublist of `acquired`, all equal to the head
    have hnd : (holders s).Nodup := by
      have : s.acquired.Nodup := by
        -- acquired ids are distinct: `acquire` requires `id ∉ acquired`
        exact acquired_nodup cfg as s h
      exact List.Nodup.sublist List.filter_sublist this
    cases hl : holders s with
    | nil => simp
    | cons a t =>
      cases t with
      | nil => simp
      | cons b t' =>
        have ha := hhead a (by simp [hl])
        have hb := hhead b (by simp [hl])
        rw [ha] at hb
        have hab : a = b := by simpa using hb
        rw [hl] at hnd
        simp [hab] at hnd
  · intro as s h; exact (reach_inv cfg hg as s h).gSorted
  · intro as s a b h ha hb hab
    have hi := reach_inv cfg hg as s h
    rcases hi.complete a ha with c | c | c
    · exact Or.inl c
    · exact Or.inr c
    · have := (hi.gBound b hb).2 a c; omega
  · intro as s x h hx; exact (reach_inv cfg hg as s h).complete x hx
  · intro as s id s' h hne hs
    have hi := reach_inv cfg hg as s h
    simp only [step] at hs
    split at hs
    · rename_i hc
      simp at hs
      have hnm : id ∉ s.q.callers := by
        rcases hc with hc | hc
        · intro hm
          have hxg := hi.acqGranted id hc
          cases hq : s.q.callers with
          | nil => simp [hq] at hm
          | cons y t =>
            rcases List.mem_cons.mp (hq ▸ hm) with e | e
            · exact hne (by simp [hq, e])
            · have := (hi.gBound id hxg).2 y (by simp [hq])
              have hlt := (List.pairwise_cons.mp (hq ▸ hi.qSorted)).1 id e
              omega
        · exact hc
      have : s.q.rem cfg id = (s.q, false) := by simp [Q.rem, hnm]
      rw [this] at hs
      exact ⟨hs.symm, by simp [unlockOk, hnm]⟩
    · simp at hs
  · intro as s id y rest s' h hq hs
    have hi := reach_inv cfg hg as s h
    have key := rem_head cfg hg s.q hi.ready id y rest hq
    rcases hs with hs | hs | hs <;> simp only [step] at hs <;> split at hs <;> simp at hs <;>
      subst hs <;> exact key
  · intro as s h; exact (reach_inv cfg hg as s h).noPanic
  · intro t
    unfold effTTL
    split <;> omega
where
  acquired_nodup (cfg : Cfg) (as : List Act) (s : St) (h : run cfg init as = some s) :
      s.acquired.Nodup := by
    refine LTS.inv_run (step cfg) (fun s => s.acquired.Nodup) ?_ init as s (by simp [init]) h
    intro s a s' hn hs
    cases a <;> simp only [step] at hs <;> split at hs <;> simp at hs <;> subst hs
    · exact hn
    · rename_i id hc
      rw [List.nodup_append]
      exact ⟨hn, by simp, by intro a ha b hb; simp at hb; subst hb; intro e; subst e; exact hc.2 ha⟩
    · exact hn
    · exact hn
    · exact hn

def goodCfg : Cfg := { wake := .next, wakeOnlyIfHead := true }
def goodGw : GwCfg := { ttlThresh := 1000, ttlFloor := 1000 }

/-- Non-vacuity: three callers, the second is cancelled while waiting, the holder's TTL fires,
    a stale unlock follows; the third caller ends up granted and nobody was skipped. -/
example : (run goodCfg init [.enqueue 1, .acquire 1, .enqueue 2, .enqueue 3, .cancel 2, .ttl 1,
      .unlock 1, .acquire 3]).map (fun s => (s.q.callers, s.q.ready, s.q.grants, s.cancelledU, holders s)) =
    some ([3], [3], [1, 3], [2], [3]) := by decide

/-- Non-vacuity of the cancel-vs-grant race: the head is granted and cancelled; either branch of
    the select is a step of the model. -/
example : (run goodCfg init [.enqueue 1, .acquire 1, .enqueue 2, .unlock 1, .cancel 2, .enqueue 3]).map
    (fun s => (s.q.callers, s.q.ready)) = some ([3], [3]) := by decide
example : (run goodCfg init [.enqueue 1, .acquire 1, .enqueue 2, .unlock 1, .acquire 2, .enqueue 3]).map
    (fun s => (s.q.callers, s.q.ready)) = some ([2, 3], [2]) := by decide

/-! ### Mutated code shapes: closed counterexamples -/

/-- `close(q.callers[len-1].ready)`: with two waiters the *last* one is granted. -/
def witnessLast : List Act := [.enqueue 1, .acquire 1, .enqueue 2, .enqueue 3, .unlock 1]

theorem refutes_wakeLast (b : Bool) (gw : GwCfg) : ¬ Holds { wake := .last, wakeOnlyIfHead := b } gw := by
  intro h
  have hr : (run { wake := .last, wakeOnlyIfHead := b } init witnessLast).map
      (fun s => (s.q.ready, s.q.callers)) = some ([3], [2, 3]) := by cases b <;> decide
  cases hs : run { wake := .last, wakeOnlyIfHead := b } init witnessLast with
  | none => simp [hs] at hr
  | some s =>
    have := h.grantedIsHead witnessLast s hs
    simp [hs] at hr
    simp [hr.1, hr.2] at this

/-- no close at all after the head leaves: the next waiter stays blocked. -/
def witnessNone : List Act := [.enqueue 1, .acquire 1, .enqueue 2, .unlock 1]

theorem refutes_wakeNone (b : Bool) (gw : GwCfg) : ¬ Holds { wake := .none, wakeOnlyIfHead := b } gw := by
  intro h
  have hr : (run { wake := .none, wakeOnlyIfHead := b } init witnessNone).map
      (fun s => (s.q.ready, s.q.callers)) = some ([], [2]) := by cases b <;> decide
  cases hs : run { wake := .none, wakeOnlyIfHead := b } init witnessNone with
  | none => simp [hs] at hr
  | some s =>
    have := h.grantedIsHead witnessNone s hs
    simp [hs] at hr
    simp [hr.1, hr.2] at this

/-- the close is not guarded by `wasHead`: removing a waiter closes the head's channel again. -/
def witnessDouble : List Act := [.enqueue 1, .enqueue 2, .cancel 2]

theorem refutes_doubleClose (gw : GwCfg) : ¬ Holds { wake := .next, wakeOnlyIfHead := false } gw := by
  intro h
  have hr : (run { wake := .next, wakeOnlyIfHead := false } init witnessDouble).map (·.q.panics) = some 1 := by
    decide
  cases hs : run { wake := .next, wakeOnlyIfHead := false } init witnessDouble with
  | none => simp [hs] at hr
  | some s =>
    have := h.noPanic witnessDouble s hs
    simp [hs] at hr
    omega

theorem refutes_ttlFloor (cfg : Cfg) (gw : GwCfg) (h0 : gw.ttlFloor ≤ 0) : ¬ Holds cfg gw := by
  intro h
  have := h.ttlPositive gw.ttlThresh
  simp [effTTL] at this
  omega

/-- the gateway's floor as extracted: every TTL at or below the threshold becomes the floor,
    and the effective TTL is never below `min floor (thresh+1)` -/
theorem ttl_floor (gw : GwCfg) (t : Int) (h : gw.ttlFloor ≤ gw.ttlThresh + 1) :
    gw.ttlFloor ≤ effTTL gw t := by
  unfold effTTL; split <;> omega

/-! ### Decision over the extracted facts -/

structure Facts where
  /-- `enqueue` / `remove` bodies run under `q.mu` (Lock + deferred Unlock first) -/
  enqueueUnderMu : Tri
  removeUnderMu : Tri
  /-- number of `close(….ready)` call sites in lock.go (expected: the two below) -/
  readyCloseSites : Option Nat
  /-- `enqueue`: `if wasEmpty { close(c.ready) }` with `wasEmpty := len(q.callers) == 0` before the append -/
  enqueueGrantsWhenEmpty : Tri
  /-- which element `remove` wakes -/
  wake : Option Wake
  /-- the wake is guarded by `wasHead && len(q.callers) > 0` (yes) or only by the length test (no) -/
  wakeOnlyIfHead : Tri
  /-- `wasHead := i == 0` for the first matching index -/
  wasHeadIsIndexZero : Tri
  /-- the ctx.Done branch of `Lock`, the watchdog's timer branch and `Unlock` call `q.remove(id)` -/
  cancelRemoves : Tri
  ttlRemoves : Tri
  unlockRemoves : Tri
  /-- gateway TTL floor -/
  ttlThresh : Option Int
  ttlFloor : Option Int
  /-- gateway `Lock` passes `context.WithoutCancel(ctx)` to the locker (a queued RPC is never
      abandoned half-way: the `cancel` action then only arises inside the lock package) -/
  gwWithoutCancel : Tri
  deriving Repr

def structural (f : Facts) : Bool :=
  f.enqueueUnderMu.isYes && f.removeUnderMu.isYes && f.readyCloseSites == some 2 &&
  f.enqueueGrantsWhenEmpty.isYes && f.wasHeadIsIndexZero.isYes &&
  f.cancelRemoves.isYes && f.ttlRemoves.isYes && f.unlockRemoves.isYes && f.gwWithoutCancel != .unknown

def classifyCore (w : Wake) (h : Bool) (th fl : Int) : Verdict :=
  match w, h with
  | .last, _ => .violated ["C14-wakes-last-waiter"]
  | .none, _ => .violated ["C14-no-wake"]
  | .next, false => .violated ["C14-ready-closed-twice"]
  | .next, true =>
    if fl ≤ 0 then .violated ["C14-ttl-floor"]
    else if 0 ≤ th then .holds else .undetermined "gateway TTL threshold is negative"

theorem core_sound (w : Wake) (h : Bool) (th fl : Int) :
    (classifyCore w h th fl).Sound (Holds ⟨w, h⟩ ⟨th, fl⟩) := by
  cases w <;> cases h <;> simp only [classifyCore, Verdict.Sound]
  · exact ⟨refutes_doubleClose _, trivial⟩
  · by_cases h0 : fl ≤ 0
    · simp only [h0, if_true]; exact ⟨refutes_ttlFloor _ _ h0, trivial⟩
    · simp only [h0, if_false]
      by_cases h1 : 0 ≤ th
      · simp only [h1, if_true]
        exact holds_good _ _ ⟨rfl, rfl⟩ ⟨by show 0 < fl; omega, h1⟩
      · simp only [h1, if_false]
  · exact ⟨refutes_wakeLast _ _, trivial⟩
  · exact ⟨refutes_wakeLast _ _, trivial⟩
  · exact ⟨refutes_wakeNone _ _, trivial⟩
  · exact ⟨refutes_wakeNone _ _, trivial⟩

def triBool : Tri → Option Bool
  | .yes => some true | .no => some false | .unknown => none

def classify (f : Facts) : Verdict :=
  if !structural f then .undetermined "lock.go no longer has the modelled shape (atomicity / remove call sites)" else
  match f.wake, triBool f.wakeOnlyIfHead, f.ttlThresh, f.ttlFloor with
  | some w, some h, some th, some fl => classifyCore w h th fl
  | _, _, _, _ => .undetermined "lock.wake / lock.wakeOnlyIfHead / gateway TTL floor"

def cfgOf (f : Facts) : Cfg :=
  { wake := f.wake.getD .none, wakeOnlyIfHead := (triBool f.wakeOnlyIfHead).getD false }
def gwOf (f : Facts) : GwCfg := { ttlThresh := f.ttlThresh.getD 0, ttlFloor := f.ttlFloor.getD 0 }

theorem classify_sound (f : Facts) : (classify f).Sound (Holds (cfgOf f) (gwOf f)) := by
  unfold classify
  split
  · simp [Verdict.Sound]
  · split
    · rename_i w h th fl hw hh ht hf
      simp only [cfgOf, gwOf, hw, hh, ht, hf, Option.getD]
      exact core_sound w h th fl
    · simp [Verdict.Sound]

end Hv.C14
