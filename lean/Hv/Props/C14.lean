/-
  C14 — Business lock: exclusive, FIFO, TTL-released, deadlock-free.

  "For any interleaving of lock, unlock, TTL expiry and waiter cancellation, at most one caller
   holds a given lock key at any time, and waiters are granted the lock in arrival order.  A lock
   is released by its holder's unlock or by its TTL, after which the next live waiter proceeds.
   An unlock with a stale or foreign lock ID never releases someone else's lock, and no waiter is
   left blocked once all holders are gone."

  Quantifier: every schedule, of any length, of `enqueue | acquire | cancel | unlock | ttl` on one
  key (keys do not share state; the per-key map is C28's model).  Model: `Hv/Conc/Lock.lean`
  (one action per `q.mu` critical section of lock.go; the `select` in `Lock` is the pair of
  actions `acquire`/`cancel`, both enabled when `ready` is closed and the context is done).
-/
import Hv.Conc.LockLemmas
import Hv.Conc.LockMapLemmas
import Hv.Basic.Verdict

namespace Hv.C14
open Hv.Lock

/-- Several keys (model `Hv/Conc/LockMap.lean`, every schedule of `call / getQueue / enqueue /
    remove / unmap` over any keys): an `Unlock` on one key carrying an id that was issued for
    ANOTHER key finds nobody in that key's queue — it removes nothing and returns the error. -/
def ForeignNoop (mcfg : LockMap.Cfg) : Prop :=
  ∀ as s (id k' i : Nat) (o : LockMap.Obj), LockMap.run mcfg LockMap.init as = some s →
    (id, k') ∈ s.issued → s.objs[i]? = some o → o.key ≠ k' →
    id ∉ o.q.callers ∧ o.q.rem LockMap.qcfg id = (o.q, false)

/-- The full-strength statement, for given code facts (`uniqueIds`: caller ids are UUIDs). -/
structure Holds (cfg : Cfg) (gw : GwCfg) (uniqueIds : Bool := true) : Prop where
  /-- `foreign_unlock_noop`, with or without map pruning -/
  foreignNoop : ∀ prune, ForeignNoop { prune := prune, uniqueIds := uniqueIds }
  /-- granted ⊆ {head} and, when the queue is not empty, its head *is* granted: no waiter is
      left blocked once the callers ahead of it are gone -/
  grantedIsHead : ∀ as s, run cfg init as = some s → s.q.ready = s.q.callers.head?.toList
  /-- at most one caller believes it holds the key, and it is the head of the queue -/
  mutex : ∀ as s, run cfg init as = some s →
      (holders s).length ≤ 1 ∧ ∀ x ∈ holders s, s.q.callers.head? = some x
  /-- grants happen in arrival order (ids are arrival numbers) … -/
  fifo : ∀ as s, run cfg init as = some s → s.q.grants.Pairwise (· < ·)
  /-- … and nobody is skipped: an earlier arrival is granted before a later one unless it was
      cancelled while still waiting -/
  noSkip : ∀ as s a b, run cfg init as = some s → a ∈ s.issued → b ∈ s.q.grants → a < b →
      a ∈ s.q.grants ∨ a ∈ s.cancelledU
  /-- every issued id is granted, cancelled while waiting, or still queued -/
  complete : ∀ as s x, run cfg init as = some s → x ∈ s.issued →
      x ∈ s.q.grants ∨ x ∈ s.cancelledU ∨ x ∈ s.q.callers
  /-- an `Unlock` with an id that is not the current head's (stale, duplicate, foreign) leaves
      the queue and the grant untouched and returns the error -/
  staleNoop : ∀ as s id s', run cfg init as = some s → s.q.callers.head? ≠ some id →
      step cfg s (.unlock id) = some s' → s' = s ∧ unlockOk s id = false
  /-- removing the head (unlock, TTL or cancel) grants exactly the next caller in line -/
  handover : ∀ as s id y rest s', run cfg init as = some s → s.q.callers = id :: y :: rest →
      (step cfg s (.unlock id) = some s' ∨ step cfg s (.ttl id) = some s' ∨ step cfg s (.cancel id) = some s') →
      s'.q.callers = y :: rest ∧ s'.q.ready = [y]
  /-- no `ready` channel is ever closed twice (that would be a Go panic under `q.mu`) -/
  noPanic : ∀ as s, run cfg init as = some s → s.q.panics = 0
  /-- the gateway never hands the locker a watchdog duration of zero or less — neither through a
      small TTL nor through `time.Duration(ttl) * time.Millisecond` wrapping around for a huge one
      (a lock "forever" would be released the moment it is granted) -/
  ttlPositive : ∀ t, 0 < effDurNs gw t

theorem inv_step (cfg : Cfg) (hg : IsGood cfg) (s : St) (a : Act) (s' : St) (h : Inv s)
    (hs : step cfg s a = some s') : Inv s' := by
  cases a with
  | enqueue id =>
    simp only [step] at hs
    split at hs
    · rename_i hlt; simp at hs; exact hs ▸ inv_enqueue s h id hlt
    · simp at hs
  | acquire id =>
    simp only [step] at hs
    split at hs
    · rename_i hc
      simp at hs; subst hs
      obtain ⟨qS, qB, hR, gS, gB, rG, aG, nP, cP, cC⟩ := h
      refine ⟨qS, qB, hR, gS, gB, rG, ?_, nP, cP, cC⟩
      intro x hx
      rcases List.mem_append.mp hx with hx | hx
      · exact aG x hx
      · simp at hx; subst hx; exact rG x hc.1
    · simp at hs
  | cancel id =>
    simp only [step] at hs
    split at hs
    · rename_i hc
      simp at hs; subst hs
      apply inv_remove cfg hg s h id
      by_cases hr : id ∈ s.q.ready
      · left; simp [hr]; exact Or.inl (h.readyGranted id hr)
      · right; simp [hr]; exact hc.1
    · simp at hs
  | unlock id =>
    simp only [step] at hs
    split at hs
    · rename_i hc
      simp at hs; subst hs
      have := inv_remove cfg hg s h id s.cancelledU
        (Or.inl ⟨rfl, hc.elim (fun a => Or.inl (h.acqGranted id a)) Or.inr⟩)
      exact this
    · simp at hs
  | ttl id =>
    simp only [step] at hs
    split at hs
    · rename_i hc
      simp at hs; subst hs
      exact inv_remove cfg hg s h id s.cancelledU (Or.inl ⟨rfl, Or.inl (h.acqGranted id hc)⟩)
    · simp at hs

theorem reach_inv (cfg : Cfg) (hg : IsGood cfg) (as : List Act) (s : St)
    (h : run cfg init as = some s) : Inv s :=
  LTS.inv_run (step cfg) Inv (fun s a s' hi hs => inv_step cfg hg s a s' hi hs) init as s inv_init h

/-- the head-removal case of `remove`, as used by `handover` -/
theorem rem_head (cfg : Cfg) (hg : IsGood cfg) (q : Q) (h : QInv q) (id y : Nat) (rest : List Nat)
    (hq : q.callers = id :: y :: rest) :
    (q.rem cfg id).1.callers = y :: rest ∧ (q.rem cfg id).1.ready = [y] := by
  rcases rem_cases cfg hg q h id with ⟨hn, _⟩ | ⟨hq', _⟩ | ⟨y', ys, hq', e⟩ | ⟨x, t, hq', hne, _, _⟩
  · simp [hq] at hn
  · simp [hq] at hq'
  · rw [hq] at hq'; simp at hq'
    rw [e]; simp [hq'.1, hq'.2]
  · rw [hq] at hq'; simp at hq'; exact absurd hq'.1 hne

/-- ids issued for one key never sit in another key's queue when ids are globally unique -/
theorem foreign_unlock_noop (prune : Bool) : ForeignNoop { prune := prune, uniqueIds := true } := by
  intro as s id k' i o h hiss ho hne
  have both : LockMap.Inv { prune := prune, uniqueIds := true } s ∧ LockMap.IdInv s := by
    refine LTS.inv_run (LockMap.step { prune := prune, uniqueIds := true })
      (fun s => LockMap.Inv { prune := prune, uniqueIds := true } s ∧ LockMap.IdInv s) ?_ LockMap.init as s
      ⟨LockMap.inv_init _, LockMap.idinv_init⟩ h
    intro s a s' ⟨hi, hu⟩ hs
    exact ⟨LockMap.inv_step _ s a s' hi hs, LockMap.idinv_step _ rfl s a s' hi hu hs⟩
  have hnot : id ∉ o.q.callers := by
    intro hm
    have := both.2.objIds i o ho id hm
    exact hne (both.2.func id o.key k' this hiss)
  exact ⟨hnot, by simp [Q.rem, hnot]⟩

/-- C14 holds for every schedule for the code shape of the unchanged tree. -/
theorem holds_good (cfg : Cfg) (gw : GwCfg) (hg : IsGood cfg)
    (hgw : 0 < gw.ttlFloor ∧ 0 ≤ gw.ttlThresh ∧ ∃ c, gw.ttlCap = some c ∧ 0 < c ∧ c ≤ maxTTLms) :
    Holds cfg gw true := by
  refine ⟨foreign_unlock_noop, ?_, ?_, ?_, ?_, ?_, ?_, ?_, ?_, ?_⟩
  · intro as s h; exact (reach_inv cfg hg as s h).ready
  · intro as s h
    have hi := reach_inv cfg hg as s h
    have hhead : ∀ x ∈ holders s, s.q.callers.head? = some x := by
      intro x hx
      simp only [holders, List.mem_filter, decide_eq_true_eq] at hx
      have hxg := hi.acqGranted x hx.1
      cases hq : s.q.callers with
      | nil => simp [hq] at hx
      | cons y t =>
        have := (hi.gBound x hxg).2 y (by simp [hq])
        rcases List.mem_cons.mp (hq ▸ hx.2) with e | e
        · simp [e]
        · have hlt := (List.pairwise_cons.mp (hq ▸ hi.qSorted)).1 x e
          omega
    refine ⟨?_, hhead⟩
    -- the holders form a duplicate-free sublist of `acquired`, all equal to the head
    have hnd : (holders s).Nodup := by
      have : s.acquired.Nodup := by
        -- acquired ids are distinct: `acquire` requires `id ∉ acquired`
        exact acquired_nodup cfg as s h
      exact List.Nodup.sublist List.filter_sublist this
    cases hl : holders s with
    | nil => simp
    | cons a t =>
      cases t with
      | nil => simp
      | cons b t' =>
        have ha := hhead a (by simp [hl])
        have hb := hhead b (by simp [hl])
        rw [ha] at hb
        have hab : a = b := by simpa using hb
        rw [hl] at hnd
        simp [hab] at hnd
  · intro as s h; exact (reach_inv cfg hg as s h).gSorted
  · intro as s a b h ha hb hab
    have hi := reach_inv cfg hg as s h
    rcases hi.complete a ha with c | c | c
    · exact Or.inl c
    · exact Or.inr c
    · have := (hi.gBound b hb).2 a c; omega
  · intro as s x h hx; exact (reach_inv cfg hg as s h).complete x hx
  · intro as s id s' h hne hs
    have hi := reach_inv cfg hg as s h
    simp only [step] at hs
    split at hs
    · rename_i hc
      simp at hs
      have hnm : id ∉ s.q.callers := by
        rcases hc with hc | hc
        · intro hm
          have hxg := hi.acqGranted id hc
          cases hq : s.q.callers with
          | nil => simp [hq] at hm
          | cons y t =>
            rcases List.mem_cons.mp (hq ▸ hm) with e | e
            · exact hne (by simp [hq, e])
            · have := (hi.gBound id hxg).2 y (by simp [hq])
              have hlt := (List.pairwise_cons.mp (hq ▸ hi.qSorted)).1 id e
              omega
        · exact hc
      have : s.q.rem cfg id = (s.q, false) := by simp [Q.rem, hnm]
      rw [this] at hs
      exact ⟨hs.symm, by simp [unlockOk, hnm]⟩
    · simp at hs
  · intro as s id y rest s' h hq hs
    have hi := reach_inv cfg hg as s h
    have key := rem_head cfg hg s.q hi.ready id y rest hq
    rcases hs with hs | hs | hs <;> simp only [step] at hs <;> split at hs <;> simp at hs <;>
      subst hs <;> exact key
  · intro as s h; exact (reach_inv cfg hg as s h).noPanic
  · intro t
    obtain ⟨hf, ht, c, hc, hc0, hc1⟩ := hgw
    have key : 0 < effTTL gw t ∧ effTTL gw t ≤ c := by
      unfold effTTL
      simp only [hc]
      split <;> split <;> omega
    unfold maxTTLms at hc1
    unfold effDurNs
    rw [wrap64_id _ (by omega) (by omega)]
    omega
where
  acquired_nodup (cfg : Cfg) (as : List Act) (s : St) (h : run cfg init as = some s) :
      s.acquired.Nodup := by
    refine LTS.inv_run (step cfg) (fun s => s.acquired.Nodup) ?_ init as s (by simp [init]) h
    intro s a s' hn hs
    cases a <;> simp only [step] at hs <;> split at hs <;> simp at hs <;> subst hs
    · exact hn
    · rename_i id hc
      rw [List.nodup_append]
      exact ⟨hn, by simp, by intro a ha b hb; simp at hb; subst hb; intro e; subst e; exact hc.2 ha⟩
    · exact hn
    · exact hn
    · exact hn

/-! ### Liveness as a safety bound: the callers ahead of a waiter are its variant -/

/-- once in the queue, a caller stays there until its own removal, and nobody overtakes it:
    every later member of the queue was already there or arrived later (larger id) -/
theorem queue_only_grows_behind (cfg : Cfg) (s : St) (as : List Act) (s' : St) (h : run cfg s as = some s') :
    s.next ≤ s'.next ∧ ∀ z ∈ s'.q.callers, z ∈ s.q.callers ∨ s.next < z := by
  refine LTS.inv_run (step cfg) (fun t => s.next ≤ t.next ∧ ∀ z ∈ t.q.callers, z ∈ s.q.callers ∨ s.next < z) ?_ s as s'
    ⟨Nat.le_refl _, fun z hz => Or.inl hz⟩ h
  intro t a t' ⟨hn, hm⟩ hs
  have sub : ∀ id z, z ∈ (t.q.rem cfg id).1.callers → z ∈ t.q.callers := by
    intro id z hz; rw [rem_callers_erase] at hz; exact List.mem_of_mem_erase hz
  cases a <;> simp only [step] at hs <;> split at hs <;> simp at hs <;> subst hs
  · rename_i id hlt
    refine ⟨by show s.next ≤ id; omega, ?_⟩
    intro z hz
    replace hz : z ∈ (t.q.enq id).callers := hz
    rw [enq_callers'] at hz
    rcases List.mem_append.mp hz with hz | hz
    · exact hm z hz
    · simp at hz; subst hz; right; omega
  · exact ⟨hn, hm⟩
  · exact ⟨hn, fun z hz => hm z (sub _ z hz)⟩
  · exact ⟨hn, fun z hz => hm z (sub _ z hz)⟩
  · exact ⟨hn, fun z hz => hm z (sub _ z hz)⟩

/-- `waiter_variant`: a removal (unlock, TTL or cancel) of a caller ahead of `x` brings `x` exactly
    one place forward, and no step whatsoever puts anybody in front of `x`. -/
theorem waiter_variant (cfg : Cfg) (s : St) (pre post : List Nat) (x y : Nat) (s' : St)
    (hq : s.q.callers = pre ++ x :: post) (hy : y ∈ pre)
    (hs : step cfg s (.unlock y) = some s' ∨ step cfg s (.ttl y) = some s' ∨ step cfg s (.cancel y) = some s') :
    s'.q.callers = pre.erase y ++ x :: post ∧ (pre.erase y).length + 1 = pre.length := by
  have key := remove_ahead cfg s.q pre post x y hq hy
  rcases hs with hs | hs | hs <;> simp only [step] at hs <;> split at hs <;> simp at hs <;> subst hs <;> exact key

/-- `granted_when_ahead_gone`: a waiter with `n` callers ahead of it is granted as soon as those
    `n` callers have left (by unlock, TTL or cancellation — `n` removals), whatever else happened
    in between. -/
theorem granted_when_ahead_gone (cfg : Cfg) (hg : IsGood cfg) (as bs : List Act) (s s' : St)
    (pre post : List Nat) (x : Nat)
    (h0 : run cfg init as = some s) (hq : s.q.callers = pre ++ x :: post)
    (h1 : run cfg s bs = some s') (hx : x ∈ s'.q.callers) (hgone : ∀ y ∈ pre, y ∉ s'.q.callers) :
    s'.q.callers.head? = some x ∧ x ∈ s'.q.ready := by
  have hi := reach_inv cfg hg as s h0
  have hr' : run cfg init (as ++ bs) = some s' := by
    rw [show run cfg init (as ++ bs) = LTS.run (step cfg) init (as ++ bs) from rfl, LTS.run_append]
    rw [show LTS.run (step cfg) init as = some s from h0]; exact h1
  have hi' := reach_inv cfg hg (as ++ bs) s' hr'
  have hmono := (queue_only_grows_behind cfg s bs s' h1).2
  -- in `s` the members smaller than `x` are exactly `pre`
  have hsorted : (pre ++ x :: post).Pairwise (· < ·) := hq ▸ hi.qSorted
  have hxle : x ≤ s.next := hi.qBound x (by rw [hq]; simp)
  have hhead : ∀ z ∈ s'.q.callers, x ≤ z := by
    intro z hz
    rcases hmono z hz with hin | hnew
    · rw [hq] at hin
      rcases List.mem_append.mp hin with hp | hp
      · exact absurd hz (hgone z hp)
      · rcases List.mem_cons.mp hp with e | e
        · omega
        · have := (List.pairwise_append.mp hsorted).2.1
          have := (List.pairwise_cons.mp this).1 z e
          omega
    · omega
  cases hc : s'.q.callers with
  | nil => rw [hc] at hx; simp at hx
  | cons z t =>
    have hzx : x ≤ z := hhead z (by rw [hc]; simp)
    have hs' : (z :: t).Pairwise (· < ·) := hc ▸ hi'.qSorted
    have : z = x := by
      rcases List.mem_cons.mp (hc ▸ hx) with e | e
      · exact e.symm
      · have := (List.pairwise_cons.mp hs').1 x e; omega
    subst this
    refine ⟨rfl, ?_⟩
    have := hi'.ready
    unfold QInv at this
    rw [this, hc]; simp

/-- What the code does with the id of a caller that is still WAITING: `remove` matches by id only,
    so `Unlock(key, waiterId)` would take that waiter out of the queue (its `Lock` call would then
    sit on a `ready` channel nobody closes until its own context ends).  The property's "unlock
    with a stale or foreign ID" does not cover this: a caller's id is created inside `Lock` and
    returned only once the lock has been acquired, so before that nobody can present it — the
    model's `unlock` is enabled only for acquired or absent ids (ids are capabilities; with
    non-random ids, see `refutes_ticketIds`, the assumption fails and the check reports it). -/
theorem waiter_id_is_a_capability (cfg : Cfg) (q : Q) (h w : Nat) (rest : List Nat) (hq : q.callers = h :: w :: rest)
    (hne : h ≠ w) : (q.rem cfg w).1.callers = h :: rest := by
  rw [rem_callers_erase, hq]
  have : (h == w) = false := by simp [hne]
  simp [List.erase_cons, this]

def goodCfg : Cfg := { wake := .next, wakeOnlyIfHead := true }

/-- Non-vacuity of the variant: caller 4 has two callers ahead (2 waiting, 1 holding); after those two
    have left — one by cancellation, one by TTL — and a later arrival, 4 is the granted head. -/
example : (run goodCfg init [.enqueue 1, .acquire 1, .enqueue 2, .enqueue 4, .cancel 2, .enqueue 5, .ttl 1]).map
    (fun s => (s.q.callers, s.q.ready)) = some ([4, 5], [4]) := by decide
def goodGw : GwCfg := { ttlThresh := 1000, ttlFloor := 1000, ttlCap := some 9223372036854 }

/-- Non-vacuity: three callers, the second is cancelled while waiting, the holder's TTL fires,
    a stale unlock follows; the third caller ends up granted and nobody was skipped. -/
example : (run goodCfg init [.enqueue 1, .acquire 1, .enqueue 2, .enqueue 3, .cancel 2, .ttl 1,
      .unlock 1, .acquire 3]).map (fun s => (s.q.callers, s.q.ready, s.q.grants, s.cancelledU, holders s)) =
    some ([3], [3], [1, 3], [2], [3]) := by decide

/-- Non-vacuity of the cancel-vs-grant race: the head is granted and cancelled; either branch of
    the select is a step of the model. -/
example : (run goodCfg init [.enqueue 1, .acquire 1, .enqueue 2, .unlock 1, .cancel 2, .enqueue 3]).map
    (fun s => (s.q.callers, s.q.ready)) = some ([3], [3]) := by decide
example : (run goodCfg init [.enqueue 1, .acquire 1, .enqueue 2, .unlock 1, .acquire 2, .enqueue 3]).map
    (fun s => (s.q.callers, s.q.ready)) = some ([2, 3], [2]) := by decide

/-! ### Mutated code shapes: closed counterexamples -/

/-- `close(q.callers[len-1].ready)`: with two waiters the *last* one is granted. -/
def witnessLast : List Act := [.enqueue 1, .acquire 1, .enqueue 2, .enqueue 3, .unlock 1]

theorem refutes_wakeLast (b : Bool) (gw : GwCfg) (u : Bool) : ¬ Holds { wake := .last, wakeOnlyIfHead := b } gw u := by
  intro h
  have hr : (run { wake := .last, wakeOnlyIfHead := b } init witnessLast).map
      (fun s => (s.q.ready, s.q.callers)) = some ([3], [2, 3]) := by cases b <;> decide
  cases hs : run { wake := .last, wakeOnlyIfHead := b } init witnessLast with
  | none => simp [hs] at hr
  | some s =>
    have := h.grantedIsHead witnessLast s hs
    simp [hs] at hr
    simp [hr.1, hr.2] at this

/-- no close at all after the head leaves: the next waiter stays blocked. -/
def witnessNone : List Act := [.enqueue 1, .acquire 1, .enqueue 2, .unlock 1]

theorem refutes_wakeNone (b : Bool) (gw : GwCfg) (u : Bool) : ¬ Holds { wake := .none, wakeOnlyIfHead := b } gw u := by
  intro h
  have hr : (run { wake := .none, wakeOnlyIfHead := b } init witnessNone).map
      (fun s => (s.q.ready, s.q.callers)) = some ([], [2]) := by cases b <;> decide
  cases hs : run { wake := .none, wakeOnlyIfHead := b } init witnessNone with
  | none => simp [hs] at hr
  | some s =>
    have := h.grantedIsHead witnessNone s hs
    simp [hs] at hr
    simp [hr.1, hr.2] at this

/-- the close is not guarded by `wasHead`: removing a waiter closes the head's channel again. -/
def witnessDouble : List Act := [.enqueue 1, .enqueue 2, .cancel 2]

theorem refutes_doubleClose (gw : GwCfg) (u : Bool) : ¬ Holds { wake := .next, wakeOnlyIfHead := false } gw u := by
  intro h
  have hr : (run { wake := .next, wakeOnlyIfHead := false } init witnessDouble).map (·.q.panics) = some 1 := by
    decide
  cases hs : run { wake := .next, wakeOnlyIfHead := false } init witnessDouble with
  | none => simp [hs] at hr
  | some s =>
    have := h.noPanic witnessDouble s hs
    simp [hs] at hr
    omega

theorem refutes_ttlFloor (cfg : Cfg) (gw : GwCfg) (u : Bool) (h0 : gw.ttlFloor ≤ 0)
    (h1 : -9223372036854 ≤ gw.ttlFloor) (hc : ∀ c, gw.ttlCap = some c → -9223372036854 ≤ c) :
    ¬ Holds cfg gw u := by
  intro h
  have := h.ttlPositive gw.ttlThresh
  have key : effTTL gw gw.ttlThresh ≤ 0 ∧ -9223372036854 ≤ effTTL gw gw.ttlThresh := by
    unfold effTTL
    simp only [Int.le_refl, if_true]
    split
    · rename_i c hcc
      have := hc c hcc
      split <;> omega
    · omega
  unfold effDurNs at this
  rw [wrap64_id _ (by omega) (by omega)] at this
  omega

/-- No upper clamp (or one that is too high): `Lock(TTL = 9223372036855 ms)` — still a valid int64 —
    becomes `time.Duration(9223372036855) * time.Millisecond`, which exceeds `math.MaxInt64`
    nanoseconds and wraps to a negative duration: the watchdog fires immediately. -/
theorem refutes_ttlOverflow (cfg : Cfg) (gw : GwCfg) (u : Bool) (ht : gw.ttlThresh < 9223372036855)
    (hc : ∀ c, gw.ttlCap = some c → 9223372036855 ≤ c ∧ c ≤ 18446744073709) : ¬ Holds cfg gw u := by
  intro h
  have := h.ttlPositive 9223372036855
  have key : 9223372036855 ≤ effTTL gw 9223372036855 ∧ effTTL gw 9223372036855 ≤ 18446744073709 := by
    unfold effTTL
    have : ¬ (9223372036855 : Int) ≤ gw.ttlThresh := by omega
    simp only [this, if_false]
    split
    · rename_i c hcc
      have := hc c hcc
      split <;> omega
    · omega
  unfold effDurNs at this
  rw [wrap64_over _ (by omega) (by omega)] at this
  omega

/-- Per-queue ticket numbers as lock ids: key 10 and key 11 both hand out id 1; an `Unlock(11, 1)`
    with the id issued for key 10 finds — and removes — key 11's holder. -/
def witnessTickets : List LockMap.Act :=
  [.call 1 10, .getQueue 1 10, .enqueue 1 10 0, .call 1 11, .getQueue 1 11, .enqueue 1 11 1]

theorem refutes_ticketIds (cfg : Cfg) (gw : GwCfg) : ¬ Holds cfg gw false := by
  intro h
  have hr : (LockMap.run { prune := false, uniqueIds := false } LockMap.init witnessTickets).map
      (fun s => (s.issued, s.objs.map (fun o => (o.key, o.q.callers)))) =
      some ([(1, 10), (1, 11)], [(10, [1]), (11, [1])]) := by decide
  cases hs : LockMap.run { prune := false, uniqueIds := false } LockMap.init witnessTickets with
  | none => simp [hs] at hr
  | some s =>
    simp [hs] at hr
    obtain ⟨hiss, hobjs⟩ := hr
    -- object 1 is key 11's queue and holds caller 1
    cases hl : s.objs with
    | nil => simp [hl] at hobjs
    | cons o0 rest =>
      cases rest with
      | nil => simp [hl] at hobjs
      | cons o1 rest' =>
        simp [hl] at hobjs
        have h1 : s.objs[1]? = some o1 := by simp [hl]
        have := (h.foreignNoop false witnessTickets s 1 10 1 o1 hs (by simp [hiss]) h1 (by rw [hobjs.2.1.1]; decide)).1
        rw [hobjs.2.1.2] at this
        simp at this

/-- the gateway's floor as extracted: every TTL at or below the threshold becomes the floor,
    and the effective TTL is never below `min floor (thresh+1)` -/
theorem ttl_floor (gw : GwCfg) (t : Int) (h : gw.ttlFloor ≤ gw.ttlThresh + 1)
    (hc : ∀ c, gw.ttlCap = some c → gw.ttlFloor ≤ c) :
    gw.ttlFloor ≤ effTTL gw t := by
  unfold effTTL
  cases hcc : gw.ttlCap with
  | none => dsimp only; split <;> omega
  | some c =>
    have := hc c hcc
    dsimp only
    split <;> split <;> omega

/-- with the clamp in place the duration is exact: no wrap-around for any request -/
theorem ttl_exact (gw : GwCfg) (t c : Int) (hf : 0 < gw.ttlFloor) (hc : gw.ttlCap = some c) (h0 : 0 < c)
    (h1 : c ≤ maxTTLms) (ht : 0 ≤ gw.ttlThresh) : effDurNs gw t = effTTL gw t * 1000000 := by
  have key : 0 < effTTL gw t ∧ effTTL gw t ≤ c := by
    unfold effTTL
    simp only [hc]
    split <;> split <;> omega
  unfold maxTTLms at h1
  unfold effDurNs
  rw [wrap64_id _ (by omega) (by omega)]

/-! ### The gateway's context: both shapes are covered

    `gateway.Lock` hands the locker either the caller's context (a waiting RPC leaves the queue
    through the `cancel` action when its client gives up — also while it is being granted) or
    `context.WithoutCancel(ctx)` (no `cancel` ever originates from an RPC).  `Holds` quantifies over
    ALL action lists, so it covers both; the two theorems below say so for each shape. -/

/-- detached context: the runs that contain no `cancel` at all are runs of the same LTS -/
def CancelFree (as : List Act) : Prop := ∀ a ∈ as, ∀ id, a ≠ Act.cancel id

theorem detached_runs_covered (cfg : Cfg) (hg : IsGood cfg) (as : List Act) (s : St)
    (_ : CancelFree as) (h : run cfg init as = some s) :
    Inv s ∧ s.q.panics = 0 ∧ (holders s).length ≤ 1 :=
  ⟨reach_inv cfg hg as s h, (reach_inv cfg hg as s h).noPanic,
   ((holds_good cfg goodGw hg ⟨by decide, by decide, 9223372036854, rfl, by decide, by decide⟩).mutex as s h).1⟩

/-- caller's context, the race through the RPC: holder 1, waiter 2; 2's client gives up, 1 unlocks
    (2 is granted) — whichever select branch 2 takes, nobody is left on the key afterwards -/
theorem gateway_cancel_vs_grant :
    (run ⟨.next, true⟩ init [.enqueue 1, .acquire 1, .enqueue 2, .unlock 1, .cancel 2]).map (fun s => (s.q.callers, s.q.ready)) = some ([], []) ∧
    (run ⟨.next, true⟩ init [.enqueue 1, .acquire 1, .enqueue 2, .unlock 1, .acquire 2, .unlock 2]).map (fun s => (s.q.callers, s.q.ready)) = some ([], []) := by
  decide

/-! ### Decision over the extracted facts -/

structure Facts where
  /-- `enqueue` / `remove` bodies run under `q.mu` (Lock + deferred Unlock first) -/
  enqueueUnderMu : Tri
  removeUnderMu : Tri
  /-- number of `close(….ready)` call sites in lock.go (expected: the two below) -/
  readyCloseSites : Option Nat
  /-- `enqueue`: `if wasEmpty { close(c.ready) }` with `wasEmpty := len(q.callers) == 0` before the append -/
  enqueueGrantsWhenEmpty : Tri
  /-- which element `remove` wakes -/
  wake : Option Wake
  /-- the wake is guarded by `wasHead && len(q.callers) > 0` (yes) or only by the length test (no) -/
  wakeOnlyIfHead : Tri
  /-- `wasHead := i == 0` for the first matching index -/
  wasHeadIsIndexZero : Tri
  /-- the ctx.Done branch of `Lock`, the watchdog's timer branch and `Unlock` call `q.remove(id)` -/
  cancelRemoves : Tri
  ttlRemoves : Tri
  unlockRemoves : Tri
  /-- gateway TTL floor -/
  ttlThresh : Option Int
  ttlFloor : Option Int
  /-- gateway TTL upper clamp: `none` = shape not recognised, `some none` = no clamp at all,
      `some (some c)` = `if in.GetTTL() > c { in.TTL = c }` -/
  ttlCap : Option (Option Int)
  /-- gateway `Lock` passes `context.WithoutCancel(ctx)` to the locker (a queued RPC is never
      abandoned half-way: the `cancel` action then only arises inside the lock package) -/
  gwWithoutCancel : Tri
  /-- where caller ids come from: `some true` = `uuid.NewString()` in `Lock` (globally unique),
      `some false` = a per-queue counter (unique within one key only) -/
  idSource : Option Bool
  deriving Repr

def structural (f : Facts) : Bool :=
  f.enqueueUnderMu.isYes && f.removeUnderMu.isYes && f.readyCloseSites == some 2 &&
  f.enqueueGrantsWhenEmpty.isYes && f.wasHeadIsIndexZero.isYes &&
  f.cancelRemoves.isYes && f.ttlRemoves.isYes && f.unlockRemoves.isYes && f.gwWithoutCancel != .unknown

def classifyTTL (th fl : Int) (cap : Option Int) : Verdict :=
  if fl ≤ 0 then
    (if -9223372036854 ≤ fl ∧ (∀ c, cap = some c → -9223372036854 ≤ c) then .violated ["C14-ttl-floor"]
     else .undetermined "gateway TTL floor / clamp below -2^63 ns")
  else if th < 0 then .undetermined "gateway TTL threshold is negative"
  else match cap with
    | some c =>
      if 0 < c ∧ c ≤ maxTTLms then .holds
      else if 9223372036855 ≤ c ∧ c ≤ 18446744073709 ∧ th < 9223372036855 then .violated ["C14-ttl-overflow"]
      else .undetermined "gateway TTL clamp outside the modelled range"
    | none => if th < 9223372036855 then .violated ["C14-ttl-overflow"] else .undetermined "gateway TTL threshold beyond MaxInt64 ms"

theorem ttl_sound (cfg : Cfg) (hg : IsGood cfg) (th fl : Int) (cap : Option Int) :
    (classifyTTL th fl cap).Sound (Holds cfg ⟨th, fl, cap⟩ true) := by
  unfold classifyTTL
  by_cases h0 : fl ≤ 0
  · simp only [h0, if_true]
    split
    · rename_i h1; exact ⟨refutes_ttlFloor _ _ _ h0 h1.1 h1.2, trivial⟩
    · simp [Verdict.Sound]
  · simp only [h0, if_false]
    by_cases h1 : th < 0
    · simp [h1, Verdict.Sound]
    · simp only [h1, if_false]
      cases cap with
      | none =>
        dsimp only
        split
        · rename_i h2
          exact ⟨refutes_ttlOverflow _ _ _ h2 (by intro c hc; simp at hc), trivial⟩
        · simp [Verdict.Sound]
      | some c =>
        dsimp only
        split
        · rename_i h2
          exact holds_good _ _ hg ⟨by show 0 < fl; omega, by show 0 ≤ th; omega, c, rfl, h2.1, h2.2⟩
        · split
          · rename_i h3
            refine ⟨refutes_ttlOverflow _ _ _ h3.2.2 ?_, trivial⟩
            intro c' hc'
            have : c' = c := by simpa using hc'.symm
            subst this; exact ⟨h3.1, h3.2.1⟩
          · simp [Verdict.Sound]

def classifyCore (w : Wake) (h : Bool) (th fl : Int) (cap : Option Int := none) : Verdict :=
  match w, h with
  | .last, _ => .violated ["C14-wakes-last-waiter"]
  | .none, _ => .violated ["C14-no-wake"]
  | .next, false => .violated ["C14-ready-closed-twice"]
  | .next, true => classifyTTL th fl cap

theorem core_sound (w : Wake) (h : Bool) (th fl : Int) (cap : Option Int) :
    (classifyCore w h th fl cap).Sound (Holds ⟨w, h⟩ ⟨th, fl, cap⟩ true) := by
  cases w <;> cases h <;> simp only [classifyCore, Verdict.Sound]
  · exact ⟨refutes_doubleClose _ _, trivial⟩
  · exact ttl_sound _ ⟨rfl, rfl⟩ th fl cap
  · exact ⟨refutes_wakeLast _ _ _, trivial⟩
  · exact ⟨refutes_wakeLast _ _ _, trivial⟩
  · exact ⟨refutes_wakeNone _ _ _, trivial⟩
  · exact ⟨refutes_wakeNone _ _ _, trivial⟩

def triBool : Tri → Option Bool
  | .yes => some true | .no => some false | .unknown => none

def classify (f : Facts) : Verdict :=
  if !structural f then .undetermined "lock.go no longer has the modelled shape (atomicity / remove call sites)" else
  match f.idSource, f.wake, triBool f.wakeOnlyIfHead, f.ttlThresh, f.ttlFloor, f.ttlCap with
  | some false, some _, some _, some _, some _, some _ => .violated ["C14-foreign-id-unlock"]
  | some true, some w, some h, some th, some fl, some cap => classifyCore w h th fl cap
  | _, _, _, _, _, _ => .undetermined "lock.idSource / lock.wake / lock.wakeOnlyIfHead / gateway TTL floor and clamp"

def cfgOf (f : Facts) : Cfg :=
  { wake := f.wake.getD .none, wakeOnlyIfHead := (triBool f.wakeOnlyIfHead).getD false }
def gwOf (f : Facts) : GwCfg :=
  { ttlThresh := f.ttlThresh.getD 0, ttlFloor := f.ttlFloor.getD 0, ttlCap := f.ttlCap.getD none }
def uniqueOf (f : Facts) : Bool := f.idSource.getD false

theorem classify_sound (f : Facts) : (classify f).Sound (Holds (cfgOf f) (gwOf f) (uniqueOf f)) := by
  unfold classify
  split
  · simp [Verdict.Sound]
  · split
    · rename_i hi _ _ _ _ _
      simp only [Verdict.Sound, uniqueOf, hi, Option.getD]
      exact ⟨refutes_ticketIds _ _, trivial⟩
    · rename_i w h th fl cap hi hw hh ht hf hcp
      simp only [cfgOf, gwOf, uniqueOf, hi, hw, hh, ht, hf, hcp, Option.getD]
      exact core_sound w h th fl cap
    · simp [Verdict.Sound]

end Hv.C14
