/-
  C04 — Corrupt storage files are detected, never misread or crash the server.

  "Loading an arbitrary or damaged storage file never panics, never hangs and never allocates
   memory out of proportion to the file.  It either reports the damage or returns only records
   that were actually written to that file; damaged bytes are never silently decoded into
   different records."

  Quantifier: every byte string presented as a .hyd file, every decoder, every checksum function.

  * never panics / never hangs — the reader model (Hv/Storage/Reader.lean) is a total function
    whose termination Lean accepted (each block read consumes ≥ 16 bytes); `reader_total` makes
    the bound explicit: at most `len/16 + 1` block reads.  Panics of the *Go* code (slice bounds)
    are excluded by the correspondence run on hostile files, not by a theorem.
  * sound relative to the checksum — every block the reader returns entries for had
    `crc(compressed) = stored checksum`, decoded, had the declared length, and its entries are the
    parse of the decoded bytes.  A change of the compressed bytes is therefore detected unless the
    32-bit checksum still matches: that 2⁻³² residual is inherent to the format and stated here,
    not hidden.  (`readNextBlock_crc_mismatch`: a mismatch is always reported, never decoded.)
  * "reports the damage" — precisely: reported as an error are a checksum mismatch, a payload that
    does not decompress, a decoded length other than declared or implausibly large, leftover payload
    behind the counted entries, and an entry that runs past its block.  *Not* reported, by design of
    the torn-tail handling, are the two shapes an interrupted append leaves behind: fewer than 16
    header bytes, and (fact `shortPayloadIsEOF`) a `CompressedSize` larger than what is left of the
    file.  The latter is silent wherever it occurs: `oversized_csize_hides_rest` /
    `load_after_oversized_csize` (Hv/Storage/TornLemmas.lean) prove that a damaged size field in the
    MIDDLE of a file makes `LoadIndex` return the blocks before it, drop every intact block after
    it, and report nothing.  What is returned is still only what was written (`sound`).
    The same holds for the two zero-filled-tail rules (facts `zeroSizeIsEOF`, `zeroTailIsEOF`): a
    zero size field, and a block that does not parse, ends in a zero byte and has only zero bytes
    behind it, end the data without an error.  `load_stops_at_eof` is the prefix property of every
    clean end (the result is exactly the replay of the written blocks before it),
    `load_zero_filled_tail` instantiates it for written blocks followed by any number of zero
    bytes, and `zeroTail_only_drops` says the rules only turn a refusal into an end — they never
    make the reader return an entry.  With `zeroTailIsEOF` a checksum mismatch in the LAST block
    whose payload happens to end in a zero byte is therefore not reported
    (`readNextBlock_crc_mismatch` vs `_strict`).
  * scope — `Holds` is about `NewFileReader` + `LoadIndex`.  `ScanBlockHeaders` (`scanHeaders`) and the
    writer's torn-tail walk (`walkEnd`) are structurally recursive on explicit fuel `len/16+1` and
    allocate one 16-byte buffer; `ReadSwampName` is `openReader` (+ `LoadIndex` for V2).
    `CalculateFragmentation`, compaction and `chroniclerV2.Load` (which skips an undecodable
    treasure and may self-heal by compaction) are not covered by any C04 claim.
  * allocation — `loadAlloc ≤ 321·len + 3.3 MB` for every decoder that does not return more than
    it declares, when both bounds checks are present.
-/
import Hv.Storage.CorruptLemmas
import Hv.Storage.ReaderLemmas
import Hv.Storage.TornLemmas
import Hv.Storage.Writer
import Hv.Basic.Verdict

namespace Hv.C04
open Hv.Storage

structure Holds (cfg : Cfg) : Prop where
  /-- the block loop stops within `len/16 + 1` reads on every input -/
  total : ∀ (d : Decoder) (crc : Checksum) (rest : Bytes),
    readBlocksFuel cfg d crc (rest.length / 16 + 1) rest = readBlocksP cfg d crc rest
  /-- only checksum-valid, length-consistent blocks are ever turned into records -/
  sound : ∀ (d : Decoder) (crc : Checksum) (rest : Bytes) (es : List Entry) (rest' : Bytes),
    readNextBlock cfg d crc rest = .ok es rest' →
      (crc ((rest.drop 16).take (decodeBlockHeader rest).csize)).toNat = (decodeBlockHeader rest).crc ∧
      ∃ u, d.dec ((rest.drop 16).take (decodeBlockHeader rest).csize) = some u ∧
        u.length % 2 ^ 32 = (decodeBlockHeader rest).usize ∧
        parseEntries (decodeBlockHeader rest).count u = .ok es ∧
        sizeSum es = u.length
  /-- allocation is proportional to the file -/
  alloc : ∀ (d : Decoder) (crc : Checksum) (file : Bytes), DecoderSane d →
    loadAlloc cfg d crc file ≤ 321 * file.length + 3300000

def Good (cfg : Cfg) : Prop :=
  cfg.validatesCrc = true ∧ cfg.validatesULen = true ∧ cfg.boundsCompressedSize = true ∧
  cfg.boundsDecodedLen = true ∧ cfg.parseConsumesAll = true

theorem holds_of_good (cfg : Cfg) (hg : Good cfg) : Holds cfg := by
  obtain ⟨h1, h2, h3, h4, h5⟩ := hg
  refine ⟨reader_total cfg, ?_, fun d crc file hs => alloc_bounded cfg d crc file ⟨h3, h4⟩ hs⟩
  intro d crc rest es rest' h
  have ha := readNextBlock_sound cfg d crc rest es rest' h
  obtain ⟨u, hu, hl, hp, hc⟩ := ha.decoded
  exact ⟨ha.crcOk h1, u, hu, hl h2, hp, hc h5⟩

/-- `_partial`: termination and checksum-soundness do not depend on the allocation guards -/
def HoldsPartial (cfg : Cfg) : Prop :=
  (∀ (d : Decoder) (crc : Checksum) (rest : Bytes),
    readBlocksFuel cfg d crc (rest.length / 16 + 1) rest = readBlocksP cfg d crc rest) ∧
  (cfg.validatesCrc = true → cfg.validatesULen = true →
    ∀ (d : Decoder) (crc : Checksum) (rest : Bytes) (es : List Entry) (rest' : Bytes),
      readNextBlock cfg d crc rest = .ok es rest' →
        (crc ((rest.drop 16).take (decodeBlockHeader rest).csize)).toNat = (decodeBlockHeader rest).crc ∧
        ∃ u, d.dec ((rest.drop 16).take (decodeBlockHeader rest).csize) = some u ∧
          u.length % 2 ^ 32 = (decodeBlockHeader rest).usize ∧
          parseEntries (decodeBlockHeader rest).count u = .ok es)

theorem holds_partial (cfg : Cfg) : HoldsPartial cfg := by
  refine ⟨reader_total cfg, ?_⟩
  intro h1 h2 d crc rest es rest' h
  have ha := readNextBlock_sound cfg d crc rest es rest' h
  obtain ⟨u, hu, hl, hp, _⟩ := ha.decoded
  exact ⟨ha.crcOk h1, u, hu, hl h2, hp⟩

/-- non-vacuity: the repaired facts exist, and the hypothesis `DecoderSane` is met by a real decoder -/
example : Good goodCfg := ⟨rfl, rfl, rfl, rfl, rfl⟩
example : DecoderSane idCodec.toDecoder := by intro c u h; simp [idCodec] at h; subst h; simp [idCodec]

/-! ### Witnesses for the defective fact values (closed terms) -/

/-- a valid empty V3 header -/
def hdr0 : FileHeader := initHdr [] 0

theorem hdr0_valid : hdr0.Valid :=
  ⟨Or.inr rfl, by simp [hdr0, initHdr], by simp [hdr0, initHdr], by simp [hdr0, initHdr], by simp [hdr0, initHdr],
    by simp [hdr0, initHdr], by simp [hdr0, initHdr], by simp [hdr0, initHdr], by simp [hdr0, initHdr],
    by simp [hdr0, initHdr]⟩

/-- An 80-byte file whose only block header claims `CompressedSize = 0xFFFFFFFF`. -/
def forgedSizeFile : Bytes := encodeFileHeader hdr0 ++ ([] ++ encodeBlockHeader ⟨4294967295, 0, 0, 0, 0⟩)

theorem forgedSizeFile_length : forgedSizeFile.length = 80 := by
  simp [forgedSizeFile, encodeFileHeader_length, encodeBlockHeader_length]

theorem loadAllocLoop_eof (cfg : Cfg) (d : Decoder) (crc : Checksum) (rest : Bytes)
    (h : readNextBlock cfg d crc rest = .eof) :
    loadAllocLoop cfg d crc rest = blockAlloc cfg d crc rest + zeroScanAlloc cfg := by
  rw [loadAllocLoop]
  split
  · rfl
  · rfl
  · rename_i h'; rw [h] at h'; cases h'

theorem loadAllocLoop_err (cfg : Cfg) (d : Decoder) (crc : Checksum) (rest : Bytes) (e : Err)
    (h : readNextBlock cfg d crc rest = .err e) :
    loadAllocLoop cfg d crc rest = blockAlloc cfg d crc rest + zeroScanAlloc cfg := by
  rw [loadAllocLoop]
  split
  · rfl
  · rfl
  · rename_i h'; rw [h] at h'; cases h'

/-- without the bounds check the reader asks for 4 GiB to load this 80-byte file — before it has
    read a single byte of block data, and it then reports a clean EOF (no error at all) -/
theorem forgedSize_allocates (cfg : Cfg) (hb : cfg.boundsCompressedSize = false) (d : Decoder) (crc : Checksum) :
    64 + 0 + (16 + 4294967295) ≤ loadAlloc cfg d crc forgedSizeFile ∧
    loadIndex cfg d crc forgedSizeFile = .ok ([], []) := by
  have hopen : openReader forgedSizeFile = .ok ⟨hdr0, []⟩ :=
    openReader_prefix hdr0 [] _ hdr0_valid (Or.inl ⟨rfl, rfl⟩)
  have hdrop : forgedSizeFile.drop hdr0.dataStart = encodeBlockHeader ⟨4294967295, 0, 0, 0, 0⟩ :=
    drop_dataStart hdr0 [] _ (Or.inl ⟨rfl, rfl⟩)
  have hdec : decodeBlockHeader (encodeBlockHeader ⟨4294967295, 0, 0, 0, 0⟩) = ⟨4294967295, 0, 0, 0, 0⟩ := by
    have := decodeBlockHeader_encode ⟨4294967295, 0, 0, 0, 0⟩ [] (by decide) (by decide) (by decide) (by decide) (by decide)
    simpa using this
  have hlen : (encodeBlockHeader ⟨4294967295, 0, 0, 0, 0⟩).length = 16 := encodeBlockHeader_length _
  have hafter : (encodeBlockHeader ⟨4294967295, 0, 0, 0, 0⟩).drop 16 = [] := by
    apply List.drop_eq_nil_of_le; omega
  have hnb : readNextBlock cfg d crc (encodeBlockHeader ⟨4294967295, 0, 0, 0, 0⟩) = .eof := by
    apply readNextBlock_of_core_eof
    unfold readNextBlockCore
    simp only [shorterThan_eq, decide_eq_true_eq, hlen, hdec, hafter]
    simp
  constructor
  · unfold loadAlloc
    rw [hopen]
    simp only
    rw [hdrop, loadAllocLoop_eof _ _ _ _ hnb]
    unfold blockAlloc
    simp only [shorterThan_eq, decide_eq_true_eq, hlen, hdec, hafter, hb]
    simp [hdr0, initHdr]
    omega
  · unfold loadIndex
    rw [hopen]
    simp only
    rw [hdrop]
    unfold readBlocks
    rw [readBlocksP_eof _ _ _ _ hnb]
    simp [replay, metaName]

theorem not_holds_of_unboundedCompressedSize (cfg : Cfg) (hb : cfg.boundsCompressedSize = false) : ¬ Holds cfg := by
  intro hh
  have h1 := hh.alloc idCodec.toDecoder crc0 forgedSizeFile
    (by intro c u h; simp [idCodec] at h; subst h; simp [idCodec])
  have h2 := (forgedSize_allocates cfg hb idCodec.toDecoder crc0).1
  rw [forgedSizeFile_length] at h1
  omega

/-- a decoder that declares 4 GiB for every input and then fails (as snappy does on a forged
    length prefix): sane, yet the reader lets it allocate for a one-byte block -/
def greedyDecoder : Decoder := { dec := fun _ => none, declLen := fun _ => 4294967295 }

def forgedLenFile : Bytes := encodeFileHeader hdr0 ++ ([] ++ (encodeBlockHeader ⟨1, 0, 0, 0, 0⟩ ++ [0xff]))

theorem forgedLenFile_length : forgedLenFile.length = 81 := by
  simp [forgedLenFile, encodeFileHeader_length, encodeBlockHeader_length]

theorem not_holds_of_unboundedDecodedLen (cfg : Cfg) (hb : cfg.boundsDecodedLen = false) : ¬ Holds cfg := by
  intro hh
  have h1 := hh.alloc greedyDecoder crc0 forgedLenFile (by intro c u h; simp [greedyDecoder] at h)
  rw [forgedLenFile_length] at h1
  have hopen : openReader forgedLenFile = .ok ⟨hdr0, []⟩ :=
    openReader_prefix hdr0 [] _ hdr0_valid (Or.inl ⟨rfl, rfl⟩)
  have hdrop : forgedLenFile.drop hdr0.dataStart = encodeBlockHeader ⟨1, 0, 0, 0, 0⟩ ++ [0xff] :=
    drop_dataStart hdr0 [] _ (Or.inl ⟨rfl, rfl⟩)
  have hdec : decodeBlockHeader (encodeBlockHeader ⟨1, 0, 0, 0, 0⟩ ++ [0xff]) = ⟨1, 0, 0, 0, 0⟩ :=
    decodeBlockHeader_encode ⟨1, 0, 0, 0, 0⟩ [0xff] (by decide) (by decide) (by decide) (by decide) (by decide)
  have hlen : (encodeBlockHeader ⟨1, 0, 0, 0, 0⟩ ++ [0xff]).length = 17 := by simp [encodeBlockHeader_length]
  have hafter : (encodeBlockHeader ⟨1, 0, 0, 0, 0⟩ ++ [0xff]).drop 16 = [0xff] :=
    drop_append_len _ _ 16 (encodeBlockHeader_length _)
  have hnb : readNextBlock cfg greedyDecoder crc0 (encodeBlockHeader ⟨1, 0, 0, 0, 0⟩ ++ [0xff]) = .err .snappy := by
    have hcore : readNextBlockCore cfg greedyDecoder crc0 (encodeBlockHeader ⟨1, 0, 0, 0, 0⟩ ++ [0xff]) = .err .snappy := by
      unfold readNextBlockCore
      simp only [shorterThan_eq, decide_eq_true_eq, hlen, hdec, hafter]
      simp [parseBlock, crc0, hb, greedyDecoder]
    unfold readNextBlock
    rw [hcore, hdec, hafter]
    simp [zeroTail]
  have hge : 4294967295 ≤ loadAlloc cfg greedyDecoder crc0 forgedLenFile := by
    unfold loadAlloc
    rw [hopen]
    simp only
    rw [hdrop, loadAllocLoop_err _ _ _ _ _ hnb]
    unfold blockAlloc
    simp only [shorterThan_eq, decide_eq_true_eq, hlen, hdec, hafter]
    simp [parseAlloc, crc0, hb, greedyDecoder]
    omega
  omega

/-- a block whose stored checksum does not match, accepted when `ParseBlock` skips the check -/
def oneEntry : Entry := ⟨1, [0x6b], []⟩
def crcOne : Checksum := fun _ => 1
def badCrcBlock : Bytes := encodeBlockHeader ⟨8, 8, 1, 0, 0⟩ ++ encodeEntry oneEntry

theorem badCrcBlock_facts :
    decodeBlockHeader badCrcBlock = ⟨8, 8, 1, 0, 0⟩ ∧ badCrcBlock.length = 24 ∧ badCrcBlock.drop 16 = encodeEntry oneEntry :=
  ⟨decodeBlockHeader_encode ⟨8, 8, 1, 0, 0⟩ _ (by decide) (by decide) (by decide) (by decide) (by decide),
   by simp [badCrcBlock, encodeBlockHeader_length, encodeEntry, oneEntry],
   drop_append_len _ _ 16 (encodeBlockHeader_length _)⟩

theorem not_holds_of_noCrc (cfg : Cfg) (hb : cfg.validatesCrc = false) : ¬ Holds cfg := by
  intro hh
  obtain ⟨hdec, hlen, hafter⟩ := badCrcBlock_facts
  have hel : (encodeEntry oneEntry).length = 8 := by simp [encodeEntry, oneEntry]
  have hpe : parseEntries 1 (encodeEntry oneEntry) = .ok [oneEntry] := by
    have := parseEntries_encodeEntries [oneEntry] [] (by intro e he; simp at he; subst he; decide)
    simpa [encodeEntries] using this
  have htake : (encodeEntry oneEntry).take 8 = encodeEntry oneEntry := List.take_of_length_le (by omega)
  have hdrop : (encodeEntry oneEntry).drop 8 = [] := List.drop_eq_nil_of_le (by omega)
  have hne : encodeEntry oneEntry ≠ [] := by intro h; rw [h] at hel; simp at hel
  have hnb : readNextBlock cfg idCodec.toDecoder crcOne badCrcBlock = .ok [oneEntry] [] := by
    apply readNextBlock_of_core_ok _ (by rw [hdec]; intro _; decide)
    unfold readNextBlockCore
    simp only [shorterThan_eq, decide_eq_true_eq, hlen, hdec, hafter, hel]
    have hsz : sizeSum [oneEntry] = 8 := by simp [sizeSum, Entry.size, oneEntry]
    simp [parseBlock, finishParse, hsz, hb, idCodec, hel, hpe, htake, hdrop, hne]
  have := (hh.sound idCodec.toDecoder crcOne badCrcBlock [oneEntry] [] hnb).1
  rw [hdec] at this
  simp [crcOne] at this

/-- a block whose decoded length differs from the stored `UncompressedSize`, accepted when the
    length check is missing -/
def badLenBlock : Bytes := encodeBlockHeader ⟨8, 9, 1, 0, 0⟩ ++ encodeEntry oneEntry

theorem not_holds_of_noULen (cfg : Cfg) (hb : cfg.validatesULen = false) : ¬ Holds cfg := by
  intro hh
  have hdec : decodeBlockHeader badLenBlock = ⟨8, 9, 1, 0, 0⟩ :=
    decodeBlockHeader_encode ⟨8, 9, 1, 0, 0⟩ _ (by decide) (by decide) (by decide) (by decide) (by decide)
  have hlen : badLenBlock.length = 24 := by simp [badLenBlock, encodeBlockHeader_length, encodeEntry, oneEntry]
  have hafter : badLenBlock.drop 16 = encodeEntry oneEntry := drop_append_len _ _ 16 (encodeBlockHeader_length _)
  have hel : (encodeEntry oneEntry).length = 8 := by simp [encodeEntry, oneEntry]
  have hpe : parseEntries 1 (encodeEntry oneEntry) = .ok [oneEntry] := by
    have := parseEntries_encodeEntries [oneEntry] [] (by intro e he; simp at he; subst he; decide)
    simpa [encodeEntries] using this
  have htake : (encodeEntry oneEntry).take 8 = encodeEntry oneEntry := List.take_of_length_le (by omega)
  have hdrop : (encodeEntry oneEntry).drop 8 = [] := List.drop_eq_nil_of_le (by omega)
  have hne : encodeEntry oneEntry ≠ [] := by intro h; rw [h] at hel; simp at hel
  have hnb : readNextBlock cfg idCodec.toDecoder crc0 badLenBlock = .ok [oneEntry] [] := by
    apply readNextBlock_of_core_ok _ (by rw [hdec]; intro _; decide)
    unfold readNextBlockCore
    simp only [shorterThan_eq, decide_eq_true_eq, hlen, hdec, hafter, hel]
    have hsz : sizeSum [oneEntry] = 8 := by simp [sizeSum, Entry.size, oneEntry]
    simp [parseBlock, finishParse, hsz, hb, idCodec, hel, hpe, crc0, htake, hdrop, hne]
  obtain ⟨_, u, hu, hul, _, _⟩ := hh.sound idCodec.toDecoder crc0 badLenBlock [oneEntry] [] hnb
  rw [hdec] at hu hul
  simp only [hafter, htake] at hu
  simp [idCodec] at hu
  subst hu
  simp [hel] at hul

/-- Two entries on disk — insert `k`, then delete `k` — under a block header whose `EntryCount`
    was changed from 2 to 1 (one flipped bit in a field no checksum covers): every check passes
    and the delete is silently dropped, so the deleted record comes back. -/
def delEntry : Entry := ⟨3, [0x6b], []⟩
def lowCountBlock : Bytes := encodeBlockHeader ⟨16, 16, 1, 0, 0⟩ ++ (encodeEntry oneEntry ++ encodeEntry delEntry)

theorem not_holds_of_trailingIgnored (cfg : Cfg) (hb : cfg.parseConsumesAll = false) : ¬ Holds cfg := by
  intro hh
  have hdec : decodeBlockHeader lowCountBlock = ⟨16, 16, 1, 0, 0⟩ :=
    decodeBlockHeader_encode ⟨16, 16, 1, 0, 0⟩ _ (by decide) (by decide) (by decide) (by decide) (by decide)
  have hel : (encodeEntry oneEntry ++ encodeEntry delEntry).length = 16 := by
    simp [encodeEntry, oneEntry, delEntry]
  have hlen : lowCountBlock.length = 32 := by simp [lowCountBlock, encodeBlockHeader_length, hel]
  have hafter : lowCountBlock.drop 16 = encodeEntry oneEntry ++ encodeEntry delEntry :=
    drop_append_len _ _ 16 (encodeBlockHeader_length _)
  have hpe : parseEntries 1 (encodeEntry oneEntry ++ encodeEntry delEntry) = .ok [oneEntry] := by
    have := parseEntries_prefix 1 [oneEntry, delEntry] []
      (by intro e he; simp at he; rcases he with h | h <;> subst h <;> decide) (by simp)
    simpa [encodeEntries] using this
  have htake : (encodeEntry oneEntry ++ encodeEntry delEntry).take 16 = encodeEntry oneEntry ++ encodeEntry delEntry :=
    List.take_of_length_le (by omega)
  have hdrop : (encodeEntry oneEntry ++ encodeEntry delEntry).drop 16 = [] := List.drop_eq_nil_of_le (by omega)
  have hne : encodeEntry oneEntry ++ encodeEntry delEntry ≠ [] := by intro h; rw [h] at hel; simp at hel
  have hnb : readNextBlock cfg idCodec.toDecoder crc0 lowCountBlock = .ok [oneEntry] [] := by
    apply readNextBlock_of_core_ok _ (by rw [hdec]; intro _; decide)
    unfold readNextBlockCore
    simp only [shorterThan_eq, decide_eq_true_eq, hlen, hdec, hafter, hel]
    simp [parseBlock, finishParse, hb, idCodec, hel, hpe, crc0, htake, hdrop, hne]
  obtain ⟨_, u, hu, _, _, hsz⟩ := hh.sound idCodec.toDecoder crc0 lowCountBlock [oneEntry] [] hnb
  rw [hdec] at hu
  simp only [hafter, htake] at hu
  simp [idCodec] at hu
  subst hu
  rw [hel] at hsz
  simp [sizeSum, Entry.size, oneEntry] at hsz

/-- …and at the level of `LoadIndex`: the replayed state contains the deleted key -/
example : replay goodCfg [oneEntry] = [([0x6b], [])] ∧ replay goodCfg [oneEntry, delEntry] = [] := by decide

/-- The treatment of a cut-short payload does not affect `Holds` (both values are covered by
    `holds_of_good`); with the EOF treatment a file cut at *any* offset of its block area loads to
    the replay of a prefix of the written blocks — only records that were actually written. -/
theorem torn_tail_loads_prefix (cfg : Cfg) (he : cfg.shortPayloadIsEOF = true) (codec : Codec) (crc : Checksum)
    (h : FileHeader) (name : Bytes) (blocks : List (List Entry)) (hv : h.Valid) (hn : NameOk h name)
    (hg : ∀ b ∈ blocks, GoodBlock b) (k : Nat) :
    ∃ j, j ≤ blocks.length ∧
      loadIndex cfg codec.toDecoder crc (encodeFileHeader h ++ (name ++ (renderBlocks codec crc blocks).take k))
        = .ok (replay cfg (blocks.take j).flatten,
               if name.isEmpty then metaName (blocks.take j).flatten else name) :=
  load_is_prefix_replay cfg he codec crc h name blocks hv hn hg k

/-! ### Decision over the extracted facts -/

structure Facts where
  checksMagic : Tri
  checksVersion : Tri
  entryBoundsChecks : Option Nat      -- number of `len(buf) < …` guards in Entry.Deserialize
  rejectsEmptyKeyOnRead : Tri
  shortHeaderIsEOF : Tri
  validatesCrc : Tri
  crcBeforeDecompress : Tri
  validatesULen : Tri
  boundsCompressedSize : Tri
  boundsDecodedLen : Tri
  parseConsumesAll : Tri
  /-- a cut-short payload ends the data (`io.EOF`) at both sites (`yes`), fails the load at both
      (`no`); `unknown` when the size pre-check and the `ReadFull` mapping disagree -/
  shortPayloadIsEOF : Tri
  /-- `readNextBlock` returns `io.EOF` for a header whose `CompressedSize` is 0, before anything is
      allocated or read for the block -/
  zeroSizeIsEOF : Tri
  /-- a `ParseBlock` error is turned into `io.EOF` when `zeroFilledTail` holds (payload ends in a
      zero byte, only zero bytes up to the end of the file) -/
  zeroTailIsEOF : Tri
  deriving Repr

def cfgOf (f : Facts) : Cfg :=
  { goodCfg with
    validatesCrc := f.validatesCrc.isYes
    validatesULen := f.validatesULen.isYes
    boundsCompressedSize := f.boundsCompressedSize.isYes
    boundsDecodedLen := f.boundsDecodedLen.isYes
    parseConsumesAll := f.parseConsumesAll.isYes
    shortPayloadIsEOF := f.shortPayloadIsEOF.isYes
    zeroSizeIsEOF := f.zeroSizeIsEOF.isYes
    zeroTailIsEOF := f.zeroTailIsEOF.isYes }

/-- the parts of the reader the model hard-wires -/
def shapeOk (f : Facts) : Bool :=
  f.checksMagic == .yes && f.checksVersion == .yes && f.entryBoundsChecks == some 3 &&
  f.rejectsEmptyKeyOnRead == .yes && f.shortHeaderIsEOF == .yes &&
  (f.validatesCrc != .yes || f.crcBeforeDecompress == .yes)

def hasUnknown (f : Facts) : Bool :=
  f.validatesCrc == .unknown || f.validatesULen == .unknown || f.boundsCompressedSize == .unknown ||
  f.boundsDecodedLen == .unknown || f.parseConsumesAll == .unknown || f.shortPayloadIsEOF == .unknown

/-- the two end-of-data rules for a zero-filled tail: both values are covered by the theorems, an
    unrecognised shape is not -/
def zeroUnknown (f : Facts) : Bool := f.zeroSizeIsEOF == .unknown || f.zeroTailIsEOF == .unknown

def findings (f : Facts) : List String :=
  (if f.validatesCrc == .no then ["C04-checksum-not-validated"] else []) ++
  (if f.validatesULen == .no then ["C04-decoded-length-not-validated"] else []) ++
  (if f.boundsCompressedSize == .no then ["C04-unbounded-compressed-size-alloc"] else []) ++
  (if f.boundsDecodedLen == .no then ["C04-unbounded-decoded-length-alloc"] else []) ++
  (if f.parseConsumesAll == .no then ["C04-entry-count-unprotected"] else [])

def classify (f : Facts) : Verdict :=
  if !shapeOk f then .undetermined "reader shape facts (magic/version check, entry bounds checks, short header = EOF, CRC before decompress) differ from the model"
  else if zeroUnknown f then .undetermined "the zero-size / zero-filled-tail handling of readNextBlock was not recognised"
  else if hasUnknown f then .undetermined "a ParseBlock / readNextBlock pattern was not recognised"
  else if !(findings f).isEmpty then .violated (findings f)
  else .holds

theorem classify_sound (f : Facts) : (classify f).Sound (Holds (cfgOf f)) (HoldsPartial (cfgOf f)) := by
  unfold classify
  split
  · trivial
  · split
    · trivial
    · split
      · trivial
      · rename_i hu
        simp only [hasUnknown, Bool.or_eq_true, beq_iff_eq, not_or] at hu
        obtain ⟨⟨⟨⟨⟨hu1, hu2⟩, hu3⟩, hu4⟩, hu5⟩, _⟩ := hu
        split
        · rename_i hf
          refine ⟨?_, holds_partial _⟩
          by_cases h1 : f.validatesCrc = .no
          · exact not_holds_of_noCrc _ (by simp [cfgOf, h1, Tri.isYes])
          · by_cases h2 : f.validatesULen = .no
            · exact not_holds_of_noULen _ (by simp [cfgOf, h2, Tri.isYes])
            · by_cases h3 : f.boundsCompressedSize = .no
              · exact not_holds_of_unboundedCompressedSize _ (by simp [cfgOf, h3, Tri.isYes])
              · by_cases h4 : f.boundsDecodedLen = .no
                · exact not_holds_of_unboundedDecodedLen _ (by simp [cfgOf, h4, Tri.isYes])
                · by_cases h5 : f.parseConsumesAll = .no
                  · exact not_holds_of_trailingIgnored _ (by simp [cfgOf, h5, Tri.isYes])
                  · exfalso; simp [findings, h1, h2, h3, h4, h5] at hf
        · rename_i hf
          have h1 : f.validatesCrc = .yes := by cases h : f.validatesCrc <;> simp_all [findings]
          have h2 : f.validatesULen = .yes := by cases h : f.validatesULen <;> simp_all [findings]
          have h3 : f.boundsCompressedSize = .yes := by cases h : f.boundsCompressedSize <;> simp_all [findings]
          have h4 : f.boundsDecodedLen = .yes := by cases h : f.boundsDecodedLen <;> simp_all [findings]
          have h5 : f.parseConsumesAll = .yes := by cases h : f.parseConsumesAll <;> simp_all [findings]
          exact holds_of_good _ ⟨by simp [cfgOf, h1, Tri.isYes], by simp [cfgOf, h2, Tri.isYes],
            by simp [cfgOf, h3, Tri.isYes], by simp [cfgOf, h4, Tri.isYes], by simp [cfgOf, h5, Tri.isYes]⟩

end Hv.C04
